/-
Model of the `MetadataIsReady` shortcuts as state transformers on codec.VideoMeta
(av/codec/h264/shortcut.go, av/codec/hevc/shortcut.go), of what av/format/sdp/parsemeta.go does with the
parameter sets of an SDP once they are base64-decoded (parseH264SpsPps, parseH265VpsSpsPps), and of the
parameter-set part of the RTP depacketizers' writeFrame (av/format/rtp/h264_depacketizer.go,
h265_depacketizer.go: in-band sets replace the stored ones only while those are unvalidated) — C15, the clause
"SDP with such parameter sets still yields a usable stream".

Generic in the SPS decoder (`dec`), instantiated with the H.264 / H.265 models in Model/CodecInst.lean.
go-sdp and base64 are not modelled: the model starts from the decoded bytes.  Core Lean only.
-/
import IpcHub.Model.Epb
namespace IpcHub.MetaReady

/-- Width/Height/FixedFrameRate/FrameRate as `MetadataIsReady` stores them (the frame rate as an exact fraction) -/
structure Dims where
  width : Int
  height : Int
  fixed : Bool
  fps : Option (Nat × Nat)
deriving DecidableEq, Repr

/-- the fields of codec.VideoMeta the shortcuts, parsemeta.go and the depacketizers read and write -/
structure VMeta where
  vps : List UInt8 := []
  sps : List UInt8 := []
  pps : List UInt8 := []
  width : Int := 0
  height : Int := 0
  fixed : Bool := false
  fps : Option (Nat × Nat) := none
deriving DecidableEq, Repr

def VMeta.dims (vm : VMeta) : Dims := { width := vm.width, height := vm.height, fixed := vm.fixed, fps := vm.fps }

/-- `h264.MetadataIsReady(vm)` (needVps = false) / `hevc.MetadataIsReady(vm)` (needVps = true):
    ```
    if len(vps) == 0 || len(sps) == 0 || len(pps) == 0 { return false }
    if vm.Width == 0 {
        if err := rawsps.Decode(sps); err != nil { return false }     // nothing stored on an error
        vm.Width, vm.Height, vm.FixedFrameRate, vm.FrameRate = …
    }
    return true
    ```
    `dec` = Decode followed by Width()/Height()/IsFixedFrameRate()/FrameRate() (`none`: Decode returned an error). -/
def ready (needVps : Bool) (dec : List UInt8 → Option Dims) (vm : VMeta) : Bool × VMeta :=
  if (needVps && vm.vps.isEmpty) || vm.sps.isEmpty || vm.pps.isEmpty then (false, vm)
  else if vm.width = 0 then
    match dec vm.sps with
    | none => (false, vm)
    | some d => (true, { vm with width := d.width, height := d.height, fixed := d.fixed, fps := d.fps })
  else (true, vm)

/-- parsemeta.go parseH264SpsPps / parseH265VpsSpsPps on a fresh VideoMeta, after the base64 decoding:
    `video.Sps = utils.RemoveNaluSeparator(sps)` …, then `_ = MetadataIsReady(video)`. -/
def sdpStore (needVps : Bool) (dec : List UInt8 → Option Dims) (vps sps pps : List UInt8) : VMeta :=
  (ready needVps dec { vps := Epb.removeNaluSeparator vps, sps := Epb.removeNaluSeparator sps,
                       pps := Epb.removeNaluSeparator pps }).2

/-- what the depacketizer's `writeFrame` sees: the NAL unit's kind (by its type) and its bytes -/
inductive Nal where
  | vps (b : List UInt8)
  | sps (b : List UInt8)
  | pps (b : List UInt8)
  /-- any other NAL unit handed to writeFrame (a coded slice, SEI …) -/
  | other
deriving DecidableEq, Repr

/-- the depacketizer: the stream's VideoMeta and its `metaReady` flag -/
structure Dp where
  vm : VMeta
  metaReady : Bool := false
deriving DecidableEq, Repr

/-- `writeFrame` of h264Depacketizer / h265Depacketizer up to the decision "frame handed on":
    ```
    case NalSps: if len(meta.Sps) == 0 || dp.unvalidated() { meta.Sps = frame.Payload }      (same for VPS, PPS)
    if !dp.metaReady { if !MetadataIsReady(meta) { return nil }; …; dp.metaReady = true }
    return dp.w.WriteFrame(frame)
    ```
    with `unvalidated() = !dp.metaReady && dp.meta.Width == 0`.  Result: the new state and whether the frame was handed on.
    (The H.264 depacketizer has no VPS case: `.vps` is not fed when needVps = false.) -/
def writeFrame (needVps : Bool) (dec : List UInt8 → Option Dims) (dp : Dp) (n : Nal) : Dp × Bool :=
  let unvalidated := !dp.metaReady && dp.vm.width == 0
  let vm := match n with
    | .vps b => if dp.vm.vps.isEmpty || unvalidated then { dp.vm with vps := b } else dp.vm
    | .sps b => if dp.vm.sps.isEmpty || unvalidated then { dp.vm with sps := b } else dp.vm
    | .pps b => if dp.vm.pps.isEmpty || unvalidated then { dp.vm with pps := b } else dp.vm
    | .other => dp.vm
  if dp.metaReady then ({ vm := vm, metaReady := true }, true)
  else
    let r := ready needVps dec vm
    if r.1 then ({ vm := r.2, metaReady := true }, true) else ({ vm := r.2, metaReady := false }, false)

/-- feed a sequence of NAL units; the result carries whether the LAST one was handed on -/
def feed (needVps : Bool) (dec : List UInt8 → Option Dims) : Dp → List Nal → Dp × Bool
  | dp, [] => (dp, false)
  | dp, [n] => writeFrame needVps dec dp n
  | dp, n :: rest => feed needVps dec (writeFrame needVps dec dp n).1 rest

/-- the in-band repetition of a camera: (VPS,) SPS, PPS, then a coded slice -/
def inBand (needVps : Bool) (vps sps pps : List UInt8) : List Nal :=
  (if needVps then [Nal.vps vps] else []) ++ [.sps sps, .pps pps, .other]

/-- the stream after an SDP carrying (vps,) sps, pps — any bytes — followed by in-band sets and a slice -/
def afterSdpAndInBand (needVps : Bool) (dec : List UInt8 → Option Dims) (vps0 sps0 pps0 vps sps pps : List UInt8) : Dp × Bool :=
  feed needVps dec { vm := sdpStore needVps dec vps0 sps0 pps0 } (inBand needVps vps sps pps)

end IpcHub.MetaReady
