/-
Model of the MPEG-TS writer of cnotch/ipchub (C09):
  av/format/mpegts/writer.go   (mpegtsHeader, Writer.WriteMpegtsFrame, writePcr, writePts, fillStuff)
  av/format/mpegts/frame.go    (Frame.prepareAvcHeader, Frame.prepareAacHeader)
  av/format/mpegts/h264_packetizer.go, aac_packetizer.go (Packetize)
  av/format/mpegts/muxer.go    (process: dispatch on the media type)
  av/codec/aac/adtsheader.go   (NewADTSHeader), av/codec/aac/asc.go (ToAdtsHeader)
Core Lean only.  Bytes are `List UInt8`; every byte the Go code produces with shifts, masks and
`|` of disjoint bit groups is produced here with Nat `/`, `%`, `+` and one `UInt8.ofNat`
(= Go's truncating `byte(x)`), so that the proofs can use `omega`.
-/
namespace IpcHub.Ts

abbrev Bytes := List UInt8

/-- Go `byte(n)` for a non-negative n -/
@[inline] def bN (n : Nat) : UInt8 := UInt8.ofNat n
/-- Go `byte(v)` for an int / int64 v (two's complement truncation) -/
@[inline] def bI (v : Int) : UInt8 := UInt8.ofNat (v % 256).toNat

/-- The constants of the source the model depends on; instantiated with the regenerated facts
    (`Model/TsInst.lean`). -/
structure Cfg where
  header    : Bytes        -- writer.go: mpegtsHeader
  videoPid  : Nat          -- frame.go: tsVideoPid
  audioPid  : Nat          -- frame.go: tsAudioPid
  videoSid  : Nat          -- frame.go: tsVideoAvc
  audioSid  : Nat          -- frame.go: tsAudioAac
  audNal    : Bytes        -- frame.go prepareAvcHeader: audNal
  audTypes  : List Nat     -- NAL types that get the access unit delimiter
  psTypes   : List Nat     -- NAL types that get SPS/PPS in front
  skipLo    : Nat          -- `if nalUnitType >= skipLo && nalUnitType <= skipHi { return }` (absent: 1, 0)
  skipHi    : Nat
  keyType   : Nat          -- h264_packetizer.go: key = nalType == h264.NalIdrSlice
  adts      : Bytes        -- adtsheader.go: the 7 template bytes
  pesLimit  : Nat          -- writer.go: `if pesSize > 0xffff`
  pcrAfLen  : Nat          -- writer.go: `pkt[p] = 7 //size`
  pcrAfFlags : Nat         -- writer.go: `pkt[p] = 0x50 // random access + PCR`
deriving Repr

/-- mpegts.Frame -/
structure Frame where
  pid      : Nat
  streamId : Nat
  dts      : Int
  pts      : Int
  header   : Bytes
  payload  : Bytes
  key      : Bool
deriving Repr, BEq, DecidableEq

/-- writer.go writePcr: 33-bit base, 6 reserved bits, 9-bit extension 0 -/
def writePcr (v : Int) : Bytes :=
  [bI (v / 2^25), bI (v / 2^17), bI (v / 2^9), bI (v / 2),
   bN ((v % 2).toNat * 128 + 0x7e),            -- byte(v<<7 | 0x7e)
   0]

/-- writer.go writePts: '00fb' ts[32..30] 1 | ts[29..15] 1 | ts[14..0] 1 -/
def writePts (fb : Nat) (ts : Int) : Bytes :=
  let hi  := ((ts / 2^30) % 8).toNat            -- (pts>>30)&0x07
  let mid := ((ts / 2^15) % 2^15).toNat         -- int(pts>>15)&0x7fff
  let lo  := (ts % 2^15).toNat                  -- int(pts)&0x7fff
  [bN (fb * 16 + hi * 2 + 1),
   bN ((mid * 2 + 1) / 256), bN (mid * 2 + 1),
   bN ((lo * 2 + 1) / 256), bN (lo * 2 + 1)]

/-- WriteMpegtsFrame, the `if first` block after the adaptation field: the PES header.
    `remain` = `last - pos` (= the whole header+payload length, pos is 0 in the first packet). -/
def pesHeader (c : Cfg) (f : Frame) (remain : Nat) : Bytes :=
  let withDts := f.dts != f.pts
  let hs : Nat := if withDts then 10 else 5
  let flags : Nat := if withDts then 0xc0 else 0x80
  let pesSize := remain + hs + 3
  let pesSize := if pesSize > c.pesLimit then 0 else pesSize
  [0x00, 0x00, 0x01, bN f.streamId, bN (pesSize / 256), bN pesSize, 0x80, bN flags, bN hs]
    ++ writePts (flags / 64) f.pts
    ++ (if withDts then writePts 1 f.dts else [])

/-- the adaptation field written in the first packet of a key frame -/
def pcrField (c : Cfg) (f : Frame) : Bytes :=
  bN c.pcrAfLen :: bN c.pcrAfFlags :: writePcr f.dts

/-- the 4 bytes of the TS packet header (sync, PUSI+PID, adaptation-control+cc) -/
def tsHead (pid cc : Nat) (pusi af : Bool) : Bytes :=
  [0x47,
   bN ((pid / 256) % 32 + (if pusi then 0x40 else 0)),
   bN pid,
   bN (0x10 + cc % 16 + (if af then 0x20 else 0))]

/-- One iteration of the `for` loop of WriteMpegtsFrame that is NOT the first packet:
    `cc` is already incremented; `data` is `avdata[pos:]` (non-empty). Returns the packet and
    what is left. -/
def contPacket (pid cc : Nat) (data : Bytes) : Bytes × Bytes :=
  let chunk := data.take 184                 -- (`chunk.length = 184` ⇔ `bodySize <= inSize`)
  if 184 ≤ chunk.length then
    (tsHead pid cc false false ++ chunk, data.drop 184)
  else
    -- fillStuff, "create adaption field" branch with len = 0
    let stuff := 184 - chunk.length
    (tsHead pid cc false true ++ bN (stuff - 1)
        :: ((if stuff ≥ 2 then 0 :: List.replicate (stuff - 2) 0xff else []) ++ data), [])

/-- all packets after the first one (`fuel` ≥ number of bytes left is enough) -/
def contPackets (pid cc : Nat) : Nat → Bytes → List Bytes
  | 0, _ => []
  | fuel + 1, data =>
    if data.isEmpty then [] else
    let (p, rest) := contPacket pid (cc + 1) data
    p :: contPackets pid (cc + 1) fuel rest

/-- The first packet of a frame (PUSI; PCR adaptation field on key frames; PES header). -/
def firstPacket (c : Cfg) (f : Frame) (cc : Nat) (data : Bytes) : Bytes × Bytes :=
  let pes := pesHeader c f data.length
  if f.key then
    let af := pcrField c f
    let body := 184 - af.length - pes.length
    if body ≤ data.length then
      (tsHead f.pid cc true true ++ af ++ pes ++ data.take body, data.drop body)
    else
      -- fillStuff, "has adaptation" branch: base = 5 + pkt[4]; the PES header is moved up by
      -- `stuff` bytes and the field length grows; the gap keeps whatever was there before the
      -- move: the first bytes of the PES header, then the zeroes of the fresh packet array.
      let stuff := body - data.length
      let stale := (pes ++ List.replicate 188 0).take stuff
      (tsHead f.pid cc true true ++ bN (c.pcrAfLen + stuff) :: af.drop 1 ++ stale ++ pes ++ data, [])
  else
    let body := 184 - pes.length
    if body ≤ data.length then
      (tsHead f.pid cc true false ++ pes ++ data.take body, data.drop body)
    else
      -- fillStuff, "create adaption field" branch with len = PES header length
      let stuff := body - data.length
      (tsHead f.pid cc true true ++ bN (stuff - 1)
          :: ((if stuff ≥ 2 then 0 :: List.replicate (stuff - 2) 0xff else []) ++ pes ++ data), [])

/-- Writer state: the two continuity counters (Go ints, only `& 0x0f` is ever used) -/
structure Writer where
  videoCC : Nat := 0
  audioCC : Nat := 0
deriving Repr, BEq, DecidableEq

/-- the TS packets of one frame, given the continuity counter value before the frame -/
def framePackets (c : Cfg) (f : Frame) (cc : Nat) : List Bytes :=
  let data := f.header ++ f.payload
  if f.payload.isEmpty then []            -- `if len(frame.Payload) <= 0 { return }`
  else
    let (p, rest) := firstPacket c f (cc + 1) data
    p :: contPackets f.pid (cc + 1) rest.length rest

/-- Writer.WriteMpegtsFrame: returns the new writer state and the packets written -/
def writeFrame (c : Cfg) (w : Writer) (f : Frame) : Writer × List Bytes :=
  let isAudio := f.pid == c.audioPid           -- `if frame.Pid == tsAudioPid { cc = &w.audioCC }`
  let cc := if isAudio then w.audioCC else w.videoCC
  let pkts := framePackets c f cc
  let cc' := cc + pkts.length
  (if isAudio then { w with audioCC := cc' } else { w with videoCC := cc' }, pkts)

/-- NewWriter followed by WriteMpegtsFrame for every frame: the whole transport stream -/
def writeFrames (c : Cfg) : Writer → List Frame → List Bytes
  | _, [] => []
  | w, f :: fs => let (w', ps) := writeFrame c w f; ps ++ writeFrames c w' fs

def writeStream (c : Cfg) (fs : List Frame) : Bytes :=
  c.header ++ (writeFrames c {} fs).flatten

/-! ### frame.go: headers put in front of the elementary-stream payload -/

/-- Frame.prepareAvcHeader (frame.Header is empty on entry, as in h264Packetizer.Packetize).
    `none` = index out of range on `frame.Payload[0]`. -/
def avcHeader (c : Cfg) (sps pps payload : Bytes) : Option Bytes :=
  match payload with
  | [] => none
  | b0 :: _ =>
    let t := b0.toNat % 32
    let h1 := if c.audTypes.contains t then c.audNal else []
    let h2 := if c.psTypes.contains t then
        (if sps.isEmpty then [] else c.audNal.take 4 ++ sps) ++
        (if pps.isEmpty then [] else c.audNal.take 4 ++ pps) else []
    let h := h1 ++ h2
    some <|
      if c.skipLo ≤ t ∧ t ≤ c.skipHi then h        -- the early `return` for 7‥9
      else if h.isEmpty then c.audNal.take 4        -- first prefix is long: audNal[0:4]
      else h ++ (c.audNal.drop 1).take 3            -- audNal[1:4]

/-- Go `x * 90000 / int64(time.Second)` (truncating division) -/
def toTicks (ns : Int) : Int := Int.tdiv (ns * 90000) 1000000000

/-- h264Packetizer.Packetize: the mpegts.Frame handed to the FrameWriter -/
def videoFrame (c : Cfg) (sps pps : Bytes) (dtsNs ptsNs : Int) (payload : Bytes) : Option Frame :=
  match payload, avcHeader c sps pps payload with
  | b0 :: _, some h =>
    some { pid := c.videoPid, streamId := c.videoSid, dts := toTicks dtsNs, pts := toTicks ptsNs,
           header := h, payload := payload, key := b0.toNat % 32 == c.keyType }
  | _, _ => none

/-- the fields of aac.AudioSpecificConfig that ToAdtsHeader reads -/
structure Asc where
  objectType       : Nat
  samplingIndex    : Nat
  extSampleRate    : Int
  extSamplingIndex : Nat
  channelConfig    : Nat
deriving Repr, BEq, DecidableEq

/-- aac.NewADTSHeader (profile, sampleRateIdx, channelConfig are Go bytes: taken mod 256) -/
def adtsHeader (c : Cfg) (profile srIdx chan : Nat) (payloadSize : Nat) : Bytes :=
  let profile := profile % 256; let srIdx := srIdx % 256; let chan := chan % 256
  let frameLen := payloadSize + 7
  match c.adts with
  | [a0, a1, _, _, _, _, a6] =>
    [a0, a1,
     bN ((profile % 4) * 64 + (srIdx % 16) * 4 + (chan / 4) % 2),
     bN ((chan % 4) * 64 + (frameLen / 2^11) % 4),
     bN ((frameLen / 8) % 256),
     bN ((frameLen % 8) * 32 + 0x1f),
     a6]
  | other => other

/-- AudioSpecificConfig.ToAdtsHeader -/
def ascAdtsHeader (c : Cfg) (a : Asc) (payloadSize : Nat) : Bytes :=
  let idx := if a.extSampleRate > 0 then a.extSamplingIndex else a.samplingIndex
  adtsHeader c (a.objectType + 255) idx a.channelConfig payloadSize    -- asc.ObjectType-1 in uint8

/-- aacPacketizer.Packetize; `asc = none` models `ap.audioSps == nil` (prepareAsc failed): the
    frame is rejected with an error and nothing is handed to the writer → `none` -/
def audioFrame (c : Cfg) (asc : Option Asc) (ptsNs : Int) (payload : Bytes) : Option Frame :=
  match asc with
  | none => none
  | some a =>
    some { pid := c.audioPid, streamId := c.audioSid, dts := toTicks ptsNs, pts := toTicks ptsNs,
           header := ascAdtsHeader c a payload.length, payload := payload, key := false }

/-- aacPacketizer.prepareAsc: which decoded configs are accepted -/
def ascAccepted (a : Asc) : Bool := a.objectType != 0 && a.objectType != 31

/-! ### muxer.go: a codec.Frame and the dispatch of `process` -/

inductive Media | video | audio | other
deriving Repr, BEq, DecidableEq

structure AvFrame where
  media   : Media
  dtsNs   : Int
  ptsNs   : Int
  payload : Bytes
deriving Repr, BEq, DecidableEq

structure Meta where
  sps : Bytes
  pps : Bytes
  asc : Option Asc
deriving Repr

/-- one turn of Muxer.process: `none` = the packetizer panicked (the goroutine recovers and
    exits), `some none` = nothing handed to the writer -/
def packetize (c : Cfg) (m : Meta) (f : AvFrame) : Option (Option Frame) :=
  match f.media with
  | .video => (videoFrame c m.sps m.pps f.dtsNs f.ptsNs f.payload).map some
  | .audio => some (audioFrame c m.asc f.ptsNs f.payload)
  | .other => some none

/-- Muxer.process over a queue of frames into a FrameWriter that is an mpegts.Writer.
    After a panic the goroutine is gone: the remaining frames produce nothing. -/
def muxFrames (c : Cfg) (m : Meta) : List AvFrame → List Frame × Bool
  | [] => ([], false)
  | f :: fs =>
    match packetize c m f with
    | none => ([], true)
    | some none => muxFrames c m fs
    | some (some tf) => let (r, p) := muxFrames c m fs; (tf :: r, p)

end IpcHub.Ts
