/-
Model of the on-demand pull client: service/rtsp/pull_client.go (Open, requestHandshake,
requestSDP, requestSetup, requestPlay, requestWithResponse, newRequest, playStream,
disconnect) and pull_stream_factory.go (Create).  The camera is an adversary: one response
kind per request it receives, then play-phase events.  Core Lean only.
-/
namespace IpcHub.Pull

/-- the method of a request together with what it is addressed to: OPTIONS / DESCRIBE / PLAY go to the
    route URL (`newRequest(method, c.url)`), a SETUP goes to the control URL of the video (`audio = false`)
    or of the audio section, resolved against the route URL (`getSetupURL`), with the Transport header
    asking for the TCP interleaved channel pair of that track -/
inductive Method where
  | options | describe | setup (audio : Bool) | play
  deriving DecidableEq, Repr

inductive Auth where
  | none | basic | digest
  deriving DecidableEq, Repr

/-- how requestWithResponse classifies the WWW-Authenticate header of a 401 -/
inductive Chal where
  | digestOk    -- "Digest " prefix, realm and nonce present
  | digestBad   -- "Digest " prefix, DigestAuth() not ok
  | basicOk     -- "Basic " prefix, realm present
  | basicBad    -- "Basic " prefix, BasicAuth() not ok
  | other       -- absent or another scheme
  deriving DecidableEq, Repr

/-- Session header of a response: absent, "77", "77;timeout=60" -/
inductive Sess where
  | none | plain | params
  deriving DecidableEq, Repr

/-- what the camera does when it has received a request -/
inductive Resp where
  | status (code : Nat) (chal : Chal) (sess : Sess)   -- a well-formed response
  | malformed     -- bytes ReadResponse rejects
  | eof           -- orderly close instead of a response
  | reset         -- connection reset
  | silence       -- nothing, the connection stays open
  | eofBody       -- DESCRIBE only: status 200 and headers announcing a body, then close inside the body
                  -- (ReadResponse ignores the short read; the zero-padded body is not SDP ⇒ error.  For other
                  -- methods the body would be ignored; the harness generates this kind for DESCRIBE only)
  deriving DecidableEq, Repr

/-- SDP carried by the DESCRIBE answer -/
inductive Sdp where
  | tracks (video audio : Bool) (absolute : Bool)   -- which sections carry a control attribute; absolute control URLs?
  | bad                                             -- sdp.ParseString fails
  | noFormat                                        -- a video/audio section with an empty Format list
  deriving DecidableEq, Repr

/-- source facts (Gen/PullFacts.lean) -/
structure Facts where
  /-- a read deadline is set before every receiveResponse of the handshake -/
  handshakeDeadline : Bool
  /-- requestSDP checks `len(media.Format)` before `media.Format[0]` -/
  formatGuard : Bool
  /-- getSetupURL does not index `Path[len(Path)-1]` of an empty path -/
  setupUrlSafe : Bool
  /-- Open's deferred cleanup also runs (and turns the panic into an error) when the body panics -/
  openRecovers : Bool
  /-- requestPlay builds the media.Stream (whose constructor starts the conversion workers) only after
      the PLAY request was answered with success, immediately before `go playStream()`: a failed Open
      never leaves a stream behind (Open's cleanup drops `c.stream`, it does not close it) -/
  streamAfterPlay : Bool
  deriving DecidableEq, Repr

structure Cfg where
  /-- the route URL carries user name and password -/
  hasUser : Bool
  /-- somebody listens at the URL's host:port -/
  listens : Bool
  /-- the URL has a non-empty path -/
  urlPath : Bool
  sdp : Sdp
  deriving DecidableEq, Repr

/-- one request as the camera sees it -/
structure Req where
  method : Method
  auth : Auth
  /-- credentials computed from the MD5 of the password instead of the password -/
  md5 : Bool
  /-- Session header: none, some false = "77", some true = "77;timeout=60" (sent back untrimmed) -/
  session : Option Bool
  deriving DecidableEq, Repr

structure Client where
  realm : Bool            -- c.realm ≠ ""
  nonce : Bool            -- c.nonce ≠ ""
  md5 : Bool              -- c.md5password ≠ ""
  session : Option Bool   -- c.rsession
  deriving DecidableEq, Repr

def Client.init : Client := { realm := false, nonce := false, md5 := false, session := none }

inductive Outcome where
  | stream       -- Create returned a stream
  | notFound     -- Create returned an error: GetOrCreate yields nil
  | hang         -- the requester is blocked for ever
  | panic        -- a panic propagates to the requester
  deriving DecidableEq, Repr

/-- PullClient.newRequest -/
def newRequest (c : Client) (m : Method) : Req :=
  { method := m,
    auth := if c.realm then (if c.nonce then .digest else .basic) else .none,
    md5 := c.realm && c.md5,
    session := c.session }

/-- `c.rsession = resp.Header.Get(FieldSession)`, trimmed (first response) or not (retries) -/
def sessOf (s : Sess) (trimmed : Bool) : Option Bool :=
  match s with
  | .none => none
  | .plain => some false
  | .params => some (!trimmed)

/-- the camera's script: one response per received request; beyond its end the camera says 200 -/
def nextResp : List Resp → Resp × List Resp
  | [] => (.status 200 .other .none, [])
  | r :: rs => (r, rs)

inductive Step where
  | ok (c : Client)            -- 2xx/300 received
  | fail                       -- error returned
  | hang
  deriving DecidableEq, Repr

/-- result of waiting for one response: the response, or how the wait ends -/
def recv (f : Facts) (r : Resp) (_isDescribe : Bool) : Except Step (Nat × Chal × Sess) :=
  match r with
  | .status code chal sess => .ok (code, chal, sess)
  | .malformed => .error .fail
  | .eof => .error .fail
  | .reset => .error .fail
  | .silence => .error (if f.handshakeDeadline then .fail else .hang)
  | .eofBody => .error .fail

/-- the authentication branch of requestWithResponse: which Authorization the retried request gets -/
def challenge (c : Client) (chal : Chal) : Option (Client × Auth) :=
  match chal with
  | .digestOk => some ({ c with realm := true, nonce := true }, .digest)
  | .basicOk => some ({ c with realm := true }, .basic)
  | _ => none

/-- PullClient.requestWithResponse: up to three sends.  Returns the step result, the requests
    sent (in order) and the rest of the camera script. -/
def requestWithResponse (f : Facts) (hasUser : Bool) (c : Client) (m : Method) (script : List Resp) :
    Step × List Req × List Resp :=
  let r0 := newRequest c m
  let (resp0, s1) := nextResp script
  match recv f resp0 (m = .describe) with
  | .error e => (e, [r0], s1)
  | .ok (code0, chal0, sess0) =>
    let c := { c with session := sessOf sess0 true }
    if code0 = 401 then
      if !hasUser then (.fail, [r0], s1)
      else match challenge c chal0 with
      | none => (.fail, [r0], s1)
      | some (c, a1) =>
        let r1 : Req := { r0 with auth := a1, md5 := false }
        let (resp1, s2) := nextResp s1
        match recv f resp1 (m = .describe) with
        | .error e => (e, [r0, r1], s2)
        | .ok (code1, chal1, sess1) =>
          let c := { c with session := sessOf sess1 false }
          if code1 = 401 then
            let c := { c with md5 := true }
            match challenge c chal1 with
            | none => (.fail, [r0, r1], s2)
            | some (c, a2) =>
              let r2 : Req := { r0 with auth := a2, md5 := true }
              let (resp2, s3) := nextResp s2
              match recv f resp2 (m = .describe) with
              | .error e => (e, [r0, r1, r2], s3)
              | .ok (code2, _, sess2) =>
                let c := { c with session := sessOf sess2 false }
                if 200 ≤ code2 ∧ code2 ≤ 300 then (.ok c, [r0, r1, r2], s3) else (.fail, [r0, r1, r2], s3)
          else if 200 ≤ code1 ∧ code1 ≤ 300 then (.ok c, [r0, r1], s2) else (.fail, [r0, r1], s2)
    else if 200 ≤ code0 ∧ code0 ≤ 300 then (.ok c, [r0], s1) else (.fail, [r0], s1)

/-- effects of Open on the world, in order -/
inductive Effect where
  | dial
  | closeConn          -- disconnect(): conn.Close()
  | newStream          -- media.NewStream + `go playStream()`
  deriving DecidableEq, Repr

structure OpenResult where
  outcome : Outcome
  reqs : List Req
  effects : List Effect
  /-- what is left of the camera script -/
  rest : List Resp
  deriving Repr, DecidableEq

/-- how a failing/hanging/panicking step ends Open (the deferred function) -/
def finish (_f : Facts) (st : Step) (reqs : List Req) (rest : List Resp) : OpenResult :=
  match st with
  | .hang => { outcome := .hang, reqs := reqs, effects := [.dial], rest := rest }
  | _ => { outcome := .notFound, reqs := reqs, effects := [.dial, .closeConn], rest := rest }

/-- the PLAY step failed although the stream had been built before the request was sent
    (`streamAfterPlay = false`): Open's cleanup closes the connection and drops the stream unclosed -/
def finishEarlyStream (st : Step) (reqs : List Req) (rest : List Resp) : OpenResult :=
  match st with
  | .hang => { outcome := .hang, reqs := reqs, effects := [.dial, .newStream], rest := rest }
  | _ => { outcome := .notFound, reqs := reqs, effects := [.dial, .newStream, .closeConn], rest := rest }

def panicResult (f : Facts) (reqs : List Req) (rest : List Resp) : OpenResult :=
  if f.openRecovers then { outcome := .notFound, reqs := reqs, effects := [.dial, .closeConn], rest := rest }
  else { outcome := .panic, reqs := reqs, effects := [.dial], rest := rest }

/-- one SETUP (video or audio section), if that section has a control attribute -/
def setupStep (f : Facts) (cfg : Cfg) (wanted absolute : Bool) (aud : Bool) (c : Client) (script : List Resp) :
    Except Unit (Step × List Req × List Resp) :=
  if !wanted then .ok (.ok c, [], script)
  else if !absolute && !cfg.urlPath && !f.setupUrlSafe then .error ()      -- setupURL.Path[len(Path)-1] on ""
  else .ok (requestWithResponse f cfg.hasUser c (.setup aud) script)

/-- PullClient.Open (through pullStreamFactory.Create) -/
def openPull (f : Facts) (cfg : Cfg) (script : List Resp) : OpenResult :=
  if !cfg.listens then { outcome := .notFound, reqs := [], effects := [], rest := script }   -- connect() failed; disconnect() is a no-op
  else
  match requestWithResponse f cfg.hasUser Client.init .options script with       -- requestHandshake
  | (.ok c, q0, s0) =>
    match requestWithResponse f cfg.hasUser c .describe s0 with                  -- requestSDP
    | (.ok c, q1, s1) =>
      match cfg.sdp with
      | .bad => finish f .fail (q0 ++ q1) s1
      | .noFormat => if f.formatGuard then finish f .fail (q0 ++ q1) s1 else panicResult f (q0 ++ q1) s1
      | .tracks v a abs =>
        match setupStep f cfg v abs false c s1 with                                    -- requestSetup, video
        | .error _ => panicResult f (q0 ++ q1) s1
        | .ok (.ok c, q2, s2) =>
          match setupStep f cfg a abs true c s2 with                                  -- requestSetup, audio
          | .error _ => panicResult f (q0 ++ q1 ++ q2) s2
          | .ok (.ok c, q3, s3) =>
            match requestWithResponse f cfg.hasUser c .play s3 with              -- requestPlay
            | (.ok _, q4, s4) =>
              { outcome := .stream, reqs := q0 ++ q1 ++ q2 ++ q3 ++ q4, effects := [.dial, .newStream], rest := s4 }
            | (st, q4, s4) =>
              if f.streamAfterPlay then finish f st (q0 ++ q1 ++ q2 ++ q3 ++ q4) s4
              else finishEarlyStream st (q0 ++ q1 ++ q2 ++ q3 ++ q4) s4
          | .ok (st, q3, s3) => finish f st (q0 ++ q1 ++ q2 ++ q3) s3
        | .ok (st, q2, s2) => finish f st (q0 ++ q1 ++ q2) s2
    | (st, q1, s1) => finish f st (q0 ++ q1) s1
  | (st, q0, s0) => finish f st q0 s0

/-! ### the play phase: PullClient.playStream -/

/-- what the camera (or the server side) does while playing -/
inductive PlayEv where
  | packet          -- an interleaved RTP/RTCP frame on a configured channel
  | request         -- an RTSP request from the camera (answered, the loop goes on)
  | response        -- a stray RTSP response (ignored)
  | idle            -- the heart-beat interval passes
  | eof | reset | silence | garbage | truncated     -- the connection / the byte stream ends
  | closedPacket    -- a packet arriving after the stream was closed on the server side (stop, replaced, idle close)
  deriving DecidableEq, Repr

inductive PlayEffect where
  | regist | connAdd | deliver | keepAlive | connRelease | unregist | closeConn
  deriving DecidableEq, Repr

/-- the receive loop: effects until the loop is left.  `due` = the heart-beat interval has elapsed.
    An event list that ends without a terminal event leaves the loop running (`none`). -/
def playLoop : List PlayEv → Bool → List PlayEffect → Option (List PlayEffect)
  | [], _, _ => none
  | ev :: evs, due, acc =>
    match ev with
    | .packet => playLoop evs false (if due then acc ++ [.deliver, .keepAlive] else acc ++ [.deliver])
    | .request => playLoop evs false (if due then acc ++ [.keepAlive] else acc)
    | .response => playLoop evs false (if due then acc ++ [.keepAlive] else acc)
    | .idle => playLoop evs true acc
    | .eof | .reset | .silence | .garbage | .truncated | .closedPacket => some acc

/-- playStream: Regist, counter, loop, deferred cleanup -/
def playStream (evs : List PlayEv) : Option (List PlayEffect) :=
  match playLoop evs false [.regist, .connAdd] with
  | none => none
  | some acc => some (acc ++ [.connRelease, .unregist, .closeConn])

/-! ### the world a pull acts on — what it must leave as it found it -/

structure World where
  /-- open connections to the camera -/
  conns : Int
  /-- a stream is registered under the requested path -/
  registered : Bool
  /-- stats.RtspConns -/
  counter : Int
  /-- streams built and not closed (their conversion workers and consumers are alive) -/
  streams : Int
  /-- how often the camera was dialled -/
  dials : Nat
  deriving DecidableEq, Repr

def World.init : World := { conns := 0, registered := false, counter := 0, streams := 0, dials := 0 }

def applyOpen (w : World) : Effect → World
  | .dial => { w with conns := w.conns + 1, dials := w.dials + 1 }
  | .closeConn => { w with conns := w.conns - 1 }
  | .newStream => { w with streams := w.streams + 1 }

def applyPlay (w : World) : PlayEffect → World
  | .regist => { w with registered := true }
  | .connAdd => { w with counter := w.counter + 1 }
  | .connRelease => { w with counter := w.counter - 1 }
  | .unregist => { w with registered := false, streams := w.streams - 1 }   -- media.Unregist: delete, then s.Close() (C05; consumers: C03)
  | .closeConn => { w with conns := w.conns - 1 }
  | .deliver => w
  | .keepAlive => w

/-- media.GetOrCreate for the routed path in world `w` against a camera that answers every connection
    by `script` and then behaves as `evs`: a registered stream serves the request (no pull); otherwise
    route.Match → factory Create → a NEW PullClient → Open, and on success playStream -/
def getOrCreate (f : Facts) (cfg : Cfg) (script : List Resp) (evs : List PlayEv) (w : World) : World × Outcome :=
  if w.registered then (w, .stream)
  else
    let r := openPull f cfg script
    let w1 := r.effects.foldl applyOpen w
    match r.outcome with
    | .stream =>
      match playStream evs with
      | some eff => (eff.foldl applyPlay w1, .stream)
      | none => (([PlayEffect.regist, .connAdd]).foldl applyPlay w1, .stream)    -- still playing
    | o => (w1, o)

end IpcHub.Pull
