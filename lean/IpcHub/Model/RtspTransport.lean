/-
Model of service/rtsp/rtptransport.go (`parseRange`, `RTPTransport.ParseTransport`) and of
the helpers it calls (utils/scan `Scanner.Scan`, `Pair.Scan`, `strings.TrimSpace`,
`strconv.Atoi`), byte-exact on ASCII header strings.  Core Lean only.
-/
import IpcHub.Model.RtspBase
namespace IpcHub.Rtsp

/-- The token sequence produced by the loop
    `for continueScan { advance, token, continueScan = scan.Semicolon.Scan(advance) … }`:
    `Scan` cuts at the first ';', trims the token and trims the remainder; trimming the
    remainder only removes blanks that the next token's own trim (or the final trim) would
    remove anyway, so the tokens are the trimmed pieces of the split. -/
def semicolonTokens (s : Str) : List Str := (splitOn ';' s).map trimSpace

/-- `scan.EqualPair.Scan`: key, value (value empty when there is no '=') -/
def equalPair (tok : Str) : Str × Str :=
  match cut '=' tok with
  | none => (tok, [])
  | some (k, v) => (trimFunc isSpaceOrQuote k, trimFunc isSpaceOrQuote v)

/-! ### strconv.Atoi -/

def digitVal (c : Char) : Option Nat :=
  if '0' ≤ c ∧ c ≤ '9' then some (c.toNat - 48) else none

/-- all-digit string to number (none if empty or a non-digit occurs) -/
def digitsAux : Str → Nat → Option Nat
  | [], acc => some acc
  | c :: cs, acc =>
    match digitVal c with
    | some d => digitsAux cs (acc * 10 + d)
    | none => none

def digits (s : Str) : Option Nat :=
  match s with
  | [] => none
  | _ => digitsAux s 0

/-- result of `strconv.Atoi`: the returned int and whether `err == nil`.
    Syntax error → (0, false); out of the int64 range → (clamped value, false). -/
def atoi (s : Str) : Int × Bool :=
  let (neg, body) : Bool × Str :=
    match s with
    | '-' :: r => (true, r)
    | '+' :: r => (false, r)
    | _ => (false, s)
  match digits body with
  | none => (0, false)
  | some n =>
    if neg then
      if n > 9223372036854775808 then (-9223372036854775808, false) else (-(n : Int), true)
    else
      if n ≥ 9223372036854775808 then (9223372036854775807, false) else ((n : Int), true)

/-- rtptransport.go `parseRange` -/
def parseRange (p : Str) : Int × Int :=
  let (s1, s2) : Str × Str :=
    match cut '-' p with
    | none => (p, [])
    | some (a, b) => (trimSpace a, trimSpace b)
  let conv (s : Str) : Int :=
    if s.isEmpty then -1 else
      match atoi s with
      | (n, true) => n
      | (_, false) => -1
  (conv s1, conv s2)

/-! ### RTPTransport -/

inductive TType | unknown | tcp | udp | multicast
  deriving DecidableEq, Repr, Inhabited

inductive Mode | unknown | play | record
  deriving DecidableEq, Repr, Inhabited

/-- a `[rtpChannelCount]int` array -/
structure Quad where
  c0 : Int
  c1 : Int
  c2 : Int
  c3 : Int
  deriving DecidableEq, Repr, Inhabited

/-- the track a SETUP addresses: `chindex` is `int(ChannelVideo)` = 0 or `int(ChannelAudio)` = 2 -/
inductive Track | video | audio
  deriving DecidableEq, Repr, Inhabited

def Track.index : Track → Nat
  | .video => 0
  | .audio => 2

/-- `q[rtpType] = v` -/
def Quad.setFst (q : Quad) (t : Track) (v : Int) : Quad :=
  match t with
  | .video => { q with c0 := v }
  | .audio => { q with c2 := v }

/-- `q[rtpType+1] = v` -/
def Quad.setSnd (q : Quad) (t : Track) (v : Int) : Quad :=
  match t with
  | .video => { q with c1 := v }
  | .audio => { q with c3 := v }

def Quad.get (q : Quad) : Nat → Int
  | 0 => q.c0
  | 1 => q.c1
  | 2 => q.c2
  | _ => q.c3

structure Transport where
  mode : Mode
  append : Bool
  type : TType
  channels : Quad
  clientPorts : Quad
  serverPorts : Quad
  ports : Quad
  multicastIP : Str
  ttl : Int
  source : Str
  deriving DecidableEq, Repr, Inhabited

/-- the transport of a fresh rtsp / wsp session (`newSession`) -/
def Transport.init : Transport :=
  { mode := .play, append := false, type := .unknown,
    channels := ⟨-1, -1, -1, -1⟩, clientPorts := ⟨-1, -1, -1, -1⟩,
    serverPorts := ⟨0, 0, 0, 0⟩, ports := ⟨0, 0, 0, 0⟩,
    multicastIP := [], ttl := 0, source := [] }

/-- the zero value `var ts RTPTransport` (used by the unit tests and the direct differential) -/
def Transport.zero : Transport :=
  { mode := .unknown, append := false, type := .unknown,
    channels := ⟨0, 0, 0, 0⟩, clientPorts := ⟨0, 0, 0, 0⟩,
    serverPorts := ⟨0, 0, 0, 0⟩, ports := ⟨0, 0, 0, 0⟩,
    multicastIP := [], ttl := 0, source := [] }

/-- one iteration of the parameter loop of `ParseTransport`; `err` is "err was set" -/
def paramStep2 (rt : Track) (t : Transport) (err : Bool) (token : Str) : Transport × Bool :=
  if token == "unicast".toList && t.type == .multicast then ({ t with type := .udp }, err)
  else if token == "multicast".toList && t.type == .tcp then (t, true)
  else if token == "append".toList then ({ t with append := true }, err)
  else
    let k := (equalPair token).1
    let v := (equalPair token).2
    if k == "mode".toList then
      ({ t with mode := if v == "record".toList then .record else .play }, err)
    else if k == "interleaved".toList then
      let b := (parseRange v).1
      let e := (parseRange v).2
      let ch := if b ≥ 0 then t.channels.setFst rt b else t.channels
      let ch := if e ≥ 0 then ch.setSnd rt e else ch
      ({ t with channels := ch }, err || decide (b < 0))
    else if k == "client_port".toList then
      ({ t with clientPorts := (t.clientPorts.setFst rt (parseRange v).1).setSnd rt (parseRange v).2 },
        err || decide ((parseRange v).1 < 0))
    else if k == "server_port".toList then
      ({ t with serverPorts := (t.serverPorts.setFst rt (parseRange v).1).setSnd rt (parseRange v).2 },
        err || decide ((parseRange v).1 < 0))
    else if k == "port".toList then
      ({ t with ports := (t.ports.setFst rt (parseRange v).1).setSnd rt (parseRange v).2 },
        err || decide ((parseRange v).1 < 0))
    else if k == "destination".toList then ({ t with multicastIP := v }, err)
    else if k == "source".toList then ({ t with source := v }, err)
    else if k == "ttl".toList then ({ t with ttl := (atoi v).1 }, err)
    else (t, err)

def paramStep (rt : Track) (acc : Transport × Bool) (token : Str) : Transport × Bool :=
  paramStep2 rt acc.1 acc.2 token

/-- `(*RTPTransport).ParseTransport(rtpType, ts)`: the mutated receiver and `err != nil`.
    The receiver is mutated even when an error is returned. -/
def parseTransport (t : Transport) (rt : Track) (ts : Str) : Transport × Bool :=
  let t := if t.mode == .unknown then { t with mode := .play } else t
  match cut ';' ts with
  | none => (t, true)
  | some (spec, rest) =>
    let spec := trimSpace spec
    if spec == "RTP/AVP/TCP".toList then
      (semicolonTokens rest).foldl (paramStep rt) ({ t with type := .tcp }, false)
    else if spec == "RTP/AVP".toList || spec == "RTP/AVP/UDP".toList then
      (semicolonTokens rest).foldl (paramStep rt) ({ t with type := .multicast }, false)
    else (t, true)

end IpcHub.Rtsp
