/-
Model of provider/auth/path_matcher.go, provider/auth/user.go (initMatchers,
User.init, ValidatePermission) and utils/scan/scanner.go (Scanner.Scan).
Strings are `List Char`.  Core Lean only.
-/
namespace IpcHub.PathMatch

/-- Parameters of the model: the character functions of the Go code and the one
    source-level fact that matters (does `pathScanner` trim its tokens?). -/
structure Cfg where
  lower : Char → Char
  isSpace : Char → Bool
  /-- `pathScanner = scan.NewScanner('/', f)`: is `f` a trimming function (`unicode.IsSpace`)
      or `nil`?  Regenerated from the source (Gen/AuthFacts.lean). -/
  pathTrims : Bool

/-- strings.TrimLeftFunc -/
def trimLeft (p : Char → Bool) : List Char → List Char
  | [] => []
  | c :: cs => if p c then trimLeft p cs else c :: cs

/-- strings.TrimRightFunc -/
def trimRight (p : Char → Bool) : List Char → List Char
  | [] => []
  | c :: cs =>
    match trimRight p cs with
    | [] => if p c then [] else [c]
    | r :: rs => c :: r :: rs

/-- strings.TrimFunc = TrimRightFunc (TrimLeftFunc s) -/
def trim (p : Char → Bool) (s : List Char) : List Char :=
  trimRight p (trimLeft p s)

/-- strings.Split(s, d) for a one-character separator: always at least one element. -/
def splitOn (d : Char) : List Char → List (List Char)
  | [] => [[]]
  | c :: cs =>
    if c = d then [] :: splitOn d cs
    else match splitOn d cs with
      | [] => [[c]]
      | s :: ss => (c :: s) :: ss

/-- before / after the first occurrence of `d` (strings.IndexRune + slicing). -/
def cut (d : Char) : List Char → Option (List Char × List Char)
  | [] => none
  | c :: cs =>
    if c = d then some ([], cs)
    else match cut d cs with
      | none => none
      | some (a, b) => some (c :: a, b)

/-- scan.Scanner.Scan: (advance, token, continueScan) -/
def scan (d : Char) (tr : Char → Bool) (s : List Char) : List Char × List Char × Bool :=
  match cut d s with
  | none => ([], trim tr s, false)
  | some (a, b) => (trim tr b, trim tr a, true)

inductive Matcher where
  | always
  | path (parts : List (List Char)) (wildcardEnd : Bool)
  deriving Repr, DecidableEq

def isSlash (c : Char) : Bool := c = '/'

/-- NewPathMatcher -/
def newPathMatcher (cfg : Cfg) (mask : List Char) : Matcher :=
  if trim cfg.isSpace mask = ['*'] then .always
  else
    let parts := splitOn '/' ((trim isSlash mask).map cfg.lower)
    if parts.getLast? = some ['*'] then .path parts.dropLast true
    else .path parts false

/-- the loop of pathMacher.Match: `ok` is the continueScan of the previous Scan -/
def matchLoop (cfg : Cfg) : List (List Char) → List Char → Bool → Bool
  | [], _, _ => true
  | p :: ps, adv, ok =>
    if ok then
      let tr := if cfg.pathTrims then cfg.isSpace else fun _ => false
      let (adv', tok, ok') := scan '/' tr adv
      if p = ['+'] then matchLoop cfg ps adv' ok'
      else if tok ≠ p then false
      else matchLoop cfg ps adv' ok'
    else true

def partCount (s : List Char) : Nat := (s.filter (· = '/')).length

def Matcher.matches (cfg : Cfg) (m : Matcher) (path : List Char) : Bool :=
  match m with
  | .always => true
  | .path parts wild =>
    let p := (trim isSlash path).map cfg.lower
    let count := partCount p + 1
    if count < parts.length then false
    else if count > parts.length && !wild then false
    else matchLoop cfg parts p true

/-- initMatchers: fuel-free, recursion on the `cut` structure through an explicit bound -/
def initMatchersAux (cfg : Cfg) : Nat → List Char → List Matcher
  | 0, _ => []
  | n + 1, adv =>
    let (adv', mask, cont) := scan ';' cfg.isSpace adv
    let here := if mask.isEmpty then [] else [newPathMatcher cfg mask]
    if cont then here ++ initMatchersAux cfg n adv' else here

def initMatchers (cfg : Cfg) (access : List Char) : List Matcher :=
  initMatchersAux cfg (access.length + 1) access

/-- User.init's defaulting of an administrator's empty right -/
def effectiveRight (admin : Bool) (right : List Char) : List Char :=
  if admin && right.isEmpty then ['*'] else right

/-- ValidatePermission for a user whose matchers were built from `right` (fresh user) -/
def implPermits (cfg : Cfg) (right : List Char) (admin : Bool) (path : List Char) : Bool :=
  let ms := initMatchers cfg (effectiveRight admin right)
  let p := trim cfg.isSpace path
  ms.any (fun m => m.matches cfg p)

/-! ### the user: two rights (`User.init`), `ValidatePermission` -/

/-- `AccessRight`: PullRight = 1, PushRight = 2; `other` is any other value of the int type -/
inductive AccessRight where
  | pull | push | other
  deriving Repr, DecidableEq

/-- the configured fields of `auth.User` that matter here -/
structure User where
  admin : Bool
  pull : List Char   -- PullAccess
  push : List Char   -- PushAccess
  deriving Repr, DecidableEq

/-- the matcher slices `User.init` builds (both reset first, then `initMatchers` per right; an
    administrator's empty right was replaced by "*" before) -/
structure UserM where
  pushMatchers : List Matcher
  pullMatchers : List Matcher

def userInit (cfg : Cfg) (u : User) : UserM :=
  { pushMatchers := initMatchers cfg (effectiveRight u.admin u.push)
    pullMatchers := initMatchers cfg (effectiveRight u.admin u.pull) }

/-- ValidatePermission: the `switch right` (no matchers for a value that is neither right), the
    `matchers == nil` exit (a slice nothing was appended to is nil), TrimSpace, first match wins -/
def validatePermission (cfg : Cfg) (m : UserM) (path : List Char) (right : AccessRight) : Bool :=
  let ms := match right with
    | .push => m.pushMatchers
    | .pull => m.pullMatchers
    | .other => []
  if ms.isEmpty then false
  else
    let p := trim cfg.isSpace path
    ms.any (fun mt => mt.matches cfg p)

/-- a user as saved (`User.init` / `CopyFrom`), then `ValidatePermission` -/
def implValidate (cfg : Cfg) (u : User) (path : List Char) (right : AccessRight) : Bool :=
  validatePermission cfg (userInit cfg u) path right

/-! ASCII instance (used by the C11 model; the C16 driver uses `goCfg`, Model/PathMatchInst.lean) -/
def asciiSpace (c : Char) : Bool :=
  c = ' ' || c = '\t' || c = '\n' || c = '\r' || c = Char.ofNat 11 || c = Char.ofNat 12

def asciiLower (c : Char) : Char := if 'A' ≤ c ∧ c ≤ 'Z' then Char.ofNat (c.toNat + 32) else c

end IpcHub.PathMatch
