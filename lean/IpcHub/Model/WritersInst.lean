import IpcHub.Model.Writers
import IpcHub.Gen.WriterFacts
/-
The writer programs of the current source tree: the generated primitive sequences
(Gen/WriterFacts.lean) read as LTS programs and as decidable shape predicates.
-/
namespace IpcHub.Writers

/-- primitives that put bytes on the connection -/
def connPrims : List String := ["connwrite", "flush", "wswrite"]

/-- primitives that may appear inside the critical section -/
def bodyPrims : List String := ["connwrite", "flush", "wswrite", "bufreset", "bufwrite", "buflen"]

/-- an early return inside the section that releases the lock (the unlock is deferred), with at
    most the closing of the session on the way out -/
def unlockingReturn (o : String) : Bool :=
  o == "return-unlocks" || o == "  in-return:closeSession"

/-- The program takes `lockW` exactly once, every connection primitive lies between that
    `lock` and its `unlock`, nothing but writes happens in between (no early return that keeps
    the lock, no second lock), and there is at least one connection primitive. -/
def wellLocked (p : List String) : Bool :=
  let before := p.takeWhile (· != "lock:lockW")
  let fromLock := p.dropWhile (· != "lock:lockW")
  let body := (fromLock.drop 1).takeWhile (· != "unlock:lockW")
  let fromUnlock := (fromLock.drop 1).dropWhile (· != "unlock:lockW")
  let after := fromUnlock.drop 1
  !fromLock.isEmpty && !fromUnlock.isEmpty &&
  body.all (fun o => bodyPrims.contains o || unlockingReturn o) && body.any (connPrims.contains ·) &&
  (before ++ after).all (fun o => !connPrims.contains o && o != "lock:lockW" && o != "unlock:lockW")

/-- the critical section of a well-locked program, as LTS operations: `connwrite` is expanded
    into the chunks the callee writes, one `wswrite` is one chunk -/
def bodyOps (p : List String) (writes : List Bytes) : List Op :=
  (((p.dropWhile (· != "lock:lockW")).drop 1).takeWhile (· != "unlock:lockW")).flatMap fun o =>
    if o == "connwrite" then writes.map Op.write
    else if o == "wswrite" then [Op.write writes.flatten]
    else if o == "flush" then [Op.flush]
    else []

/-- the whole program as LTS operations (what the harness replays schedule by schedule) -/
def opsOfShape (p : List String) (writes : List Bytes) : List Op :=
  p.flatMap fun o =>
    if o == "lock:lockW" then [Op.lock]
    else if o == "unlock:lockW" then [Op.unlock]
    else if o == "connwrite" then writes.map Op.write
    else if o == "wswrite" then [Op.write writes.flatten]
    else if o == "flush" then [Op.flush]
    else []

/-- the chunk tags of `Packet.Write`, one per `w.Write` call in source order -/
def packetChunkTags : List String :=
  IpcHub.Gen.packetWrite.filterMap fun o =>
    if o == "write:prefix[:]" then some ".p" else if o == "write:p.Data" then some ".d" else none

def frameJobOps (label : String) : List Op :=
  opsOfShape IpcHub.Gen.consumeTcp (packetChunkTags.map fun t => (label ++ t).toUTF8.toList)

def respJobOps (label : String) : List Op :=
  opsOfShape IpcHub.Gen.responseTcp [label.toUTF8.toList]

/-- the ws consumer returns before sending when `Packet.Write` produced nothing -/
def skipsEmpty (p : List String) : Bool :=
  ((p.dropWhile (· != "bufwrite")).takeWhile (· != "wswrite")).contains "return-if:buf.Len() == 0"

/-- one WebSocket message per call, carrying the buffer that one `Write` filled after a reset -/
def oneMessage (p : List String) : Bool :=
  (p.filter (· == "wswrite")).length == 1 && (p.filter (· == "bufwrite")).length == 1 &&
  (p.filter (· == "bufreset")).length == 1 &&
  ((p.dropWhile (· != "bufreset")).dropWhile (· != "bufwrite")).contains "wswrite"

def genSkipEmpty : Bool := skipsEmpty IpcHub.Gen.consumeWs && skipsEmpty IpcHub.Gen.wspConsume

end IpcHub.Writers
