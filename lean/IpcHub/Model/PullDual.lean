/-
C20 — two overlapping first requests for one routed path, after BOTH pulls succeeded: the pull
clients' play goroutines (service/rtsp/pull_client.go playStream: Regist … receive loop … deferred
Release / media.Unregist / disconnect) composed with the registry model of media/global.go
(Model/Registry.lean).  Stream 0 is the one registered first (it is replaced by the second Regist:
"the loser"), stream 1 the one registered second ("the winner").  A consumer may be attached to
either; then each pull ends in one of the ways a pull can end.  Core Lean only.
-/
import IpcHub.Model.RegistryInst
namespace IpcHub.PullDual
open IpcHub.Registry

/-- media.Unregist as playStream's deferred clean-up calls it.  `always` is the source fact
    `Gen.unregistClosesAlways`: `s.Close()` is reached whatever the registry holds under the path.
    (`always = false`: the "early return when the stream is not the registered one" shape.) -/
def unregistF (always : Bool) (st : State) (i : Nat) : State :=
  match st.streams[i]? with
  | none => st
  | some s =>
    if load st.reg s.path = some i then closeStream { st with reg := delete st.reg s.path } i false
    else if always then closeStream st i false else st

/-- the ways a pull that is playing can end -/
inductive Kind where
  /-- the receive loop ends with an error: camera closed / reset the connection, went silent past the
      read deadline, sent bytes that are neither RTP nor RTSP, or a truncated frame -/
  | camera
  /-- Stream.Close on the server side (API stop); the next packet finds the stream closed -/
  | stop
  /-- the consumer leaves and a zero-consumers task of the stream fires (no task: Stream.Close) -/
  | idle
  deriving DecidableEq, Repr

structure Scn where
  /-- a consumer is attached to the first-registered stream BEFORE the second pull registers -/
  lc : Bool
  /-- a consumer is attached to the second-registered stream -/
  wc : Bool
  /-- route.KeepAlive: GetOrCreate posts no zero-consumers task -/
  keep : Bool
  /-- the pull that is ended first is the one of the first-registered (replaced) stream -/
  loserFirst : Bool
  how1 : Kind
  how2 : Kind
  deriving DecidableEq, Repr

structure Sys where
  st : State
  /-- the play goroutine of stream i's pull is running: its camera connection is open and counted -/
  run0 : Bool
  run1 : Bool
  /-- the consumer attached to stream i -/
  cid0 : Option Nat
  cid1 : Option Nat
  deriving Repr

def dpath : Path := ['/', 'd']

def fresh : Stream := { path := dpath, status := .ok, rtp := [], flv := [], seed := 0, hls := none }

def Sys.running (y : Sys) (i : Nat) : Bool := if i = 0 then y.run0 else y.run1
def Sys.cid (y : Sys) (i : Nat) : Option Nat := if i = 0 then y.cid0 else y.cid1
def Sys.stopped (y : Sys) (i : Nat) : Sys := if i = 0 then { y with run0 := false } else { y with run1 := false }

/-- playStream's exit: the deferred Release / Unregist / disconnect -/
def exitPull (always : Bool) (y : Sys) (i : Nat) : Sys :=
  if y.running i then { y with st := unregistF always y.st i }.stopped i else y

/-- the cameras keep sending: a running pull whose stream is no longer StreamOK gets an error from
    WriteRtpPacket with the next packet and leaves its loop -/
def settle (always : Bool) (y : Sys) : Sys :=
  let y := if y.running 0 && !isOk y.st 0 then exitPull always y 0 else y
  if y.running 1 && !isOk y.st 1 then exitPull always y 1 else y

/-- index of the first unfinished zero-consumers task watching stream i -/
def firstTask (ts : List Task) (i : Nat) (k : Nat := 0) : Option Nat :=
  match ts with
  | [] => none
  | t :: r => if t.sid = i && !t.done then some k else firstTask r i (k + 1)

def endPull (always : Bool) (f : Facts) (y : Sys) (i : Nat) : Kind → Sys
  | .camera => exitPull always y i
  | .stop => if y.running i then settle always { y with st := closeStream y.st i false } else y
  | .idle =>
    if y.running i then
      let st1 := match y.cid i with | some c => leave y.st i false c | none => y.st
      let st2 := match firstTask st1.tasks i with
        | some t => (tick f st1 t 0).1
        | none => closeStream st1 i false
      settle always { y with st := st2 }
    else y

/-- what is observed of one stream at one stage -/
structure SObs where
  /-- status is StreamOK -/
  ok : Bool
  /-- ConsumerCount() -/
  cc : Int
  /-- the pull's camera connection is open (not closed by the client) -/
  up : Bool
  /-- the attached consumer's Close was called -/
  cl : Bool
  /-- packets keep reaching the attached consumer -/
  sv : Bool
  deriving DecidableEq, Repr

structure Stage where
  /-- the stream registered under the path -/
  reg : Option Nat
  l : SObs
  w : SObs
  deriving DecidableEq, Repr

def sobs (y : Sys) (i : Nat) : SObs :=
  let inTable := match y.cid i, y.st.streams[i]? with
    | some c, some s => s.rtp.contains c
    | _, _ => false
  { ok := isOk y.st i, cc := ccOf y.st i, up := y.running i,
    cl := (y.cid i).isSome && !inTable, sv := y.running i && isOk y.st i && inTable }

def stage (y : Sys) : Stage := { reg := load y.st.reg dpath, l := sobs y 0, w := sobs y 1 }

/-- both requests missed the registry and both handshakes succeeded; PLAY is answered for the first
    pull, its stream registers and (lc) gets its consumer; then PLAY is answered for the second one -/
def setup (always : Bool) (sc : Scn) : Sys :=
  let st0 : State := { streams := [fresh, fresh], reg := [], tasks := [], now := 0 }
  let st1 := regist st0 0
  let st1 := if sc.keep then st1 else postTask st1 0 false
  let (st2, c0) := if sc.lc then join st1 0 false else (st1, none)
  let st3 := regist st2 1
  let st3 := if sc.keep then st3 else postTask st3 1 false
  let y := settle always { st := st3, run0 := true, run1 := true, cid0 := c0, cid1 := none }
  if sc.wc && isOk y.st 1 then
    let (st4, c1) := join y.st 1 false
    { y with st := st4, cid1 := c1 }
  else y

/-- the three stages: both registered; the first pull ended; the other pull ended -/
def stages (always : Bool) (f : Facts) (sc : Scn) : Stage × Stage × Stage :=
  let y0 := setup always sc
  let x := if sc.loserFirst then 0 else 1
  let y1 := endPull always f y0 x sc.how1
  let y2 := endPull always f y1 (1 - x) sc.how2
  (stage y0, stage y1, stage y2)

end IpcHub.PullDual
