import IpcHub.Model.Pull
import IpcHub.Gen.PullFacts
namespace IpcHub.Pull
/-- the pull-client facts of the current source tree (regenerated on every check) -/
def genFacts : Facts :=
  { handshakeDeadline := IpcHub.Gen.handshakeDeadline, formatGuard := IpcHub.Gen.formatGuard,
    setupUrlSafe := IpcHub.Gen.setupUrlSafe, openRecovers := IpcHub.Gen.openRecovers,
    streamAfterPlay := IpcHub.Gen.streamAfterPlay }
/-- what the property needs -/
def goodFacts : Facts := { handshakeDeadline := true, formatGuard := true, setupUrlSafe := true, openRecovers := true, streamAfterPlay := true }
end IpcHub.Pull
