/-
Model of the conversion pipeline behind one published stream, as far as C07 needs it:
  publisher session goroutine:  receive → Stream.WriteRtpPacket → cache classifier → fan-out → demuxer queue
  rtp.Demuxer.process        :  depacketizers → frames            (Model/Depack.lean)
  flv.Muxer.process          :  sequence headers on the first frame, one tag per frame
  mpegts.Muxer.process       :  one TS frame per frame (Frame.prepareAvcHeader)
Each worker recovers *outside* its loop: the first panic ends the goroutine and every later
frame stays in its queue (`alive = false`).  Byte-exact FLV / TS encodings are C08 / C09; here a
tag / TS frame is its kind + the frame payload (+ the Annex-B header bytes for TS video).
Core Lean only.
-/
import IpcHub.Model.Depack
import IpcHub.Model.RtpPacket
import IpcHub.Model.CacheClassify
namespace IpcHub.Pipeline
open IpcHub.Depack

/-- source facts (Gen/ContainFacts.lean) -/
structure Cfg where
  /-- flv.Muxer.process waits for the video parameter sets before it writes the sequence headers
      (pinned tree: built on the first frame of any kind; `sps[1]` panics while the SPS is unknown) -/
  flvWaitsForParameterSets : Bool
  /-- flv.Muxer.videoMetaReady additionally wants the SPS validated (`Width != 0`: by the SDP parser
      or the depacketizer) or decodable; before the repair any SPS of ≥ 4 bytes was good enough, so a
      truncated in-band SPS + an audio frame froze an undecodable configuration into the FLV output -/
  flvValidatesSps : Bool
  /-- mpegts aacPacketizer.Packetize returns an error when the AudioSpecificConfig could not be
      decoded (pinned tree: nil pointer dereference) -/
  tsAacChecked : Bool
  /-- mpegts Frame.prepareAvcHeader returns before appending the start code for NAL types 7–9
      (pinned tree; repaired by the C09 fix) -/
  tsAvcSkips79 : Bool
  /-- cache classifiers bounds-checked -/
  cache264Checked : Bool
  cache265Checked : Bool

inductive Tag where
  | script                                   -- onMetaData
  | vseq (sps pps : Bytes)                   -- AVC / HEVC sequence header
  | aseq                                     -- AAC sequence header
  | video (key : Bool) (body : Bytes)
  | audio (body : Bytes)
deriving DecidableEq, Repr, Inhabited

structure FlvSt where
  alive : Bool := true
  headerDone : Bool := false
deriving DecidableEq, Repr, Inhabited

def isKey (c : VCodec) (payload : Bytes) : Bool :=
  match payload with
  | [] => false
  | b :: _ => match c with
    | .h264 => (b &&& 0x1f) = 5
    | .h265 => nalType265 b ≥ 16 && nalType265 b ≤ 21

def seqReady (cfg : Cfg) (spsOk : Bytes → Bool) (c : VCodec) (m : VMeta) : Bool :=
  (match c with
   | .h264 => m.sps.length ≥ 4 && !m.pps.isEmpty
   | .h265 => !m.vps.isEmpty && !m.sps.isEmpty && !m.pps.isEmpty)
  && (!cfg.flvValidatesSps || m.widthKnown || spsOk m.sps)

/-- one iteration of flv.Muxer.process; `m` is the stream's VideoMeta as the worker sees it -/
def flvStep (cfg : Cfg) (spsOk : Bytes → Bool) (c : VCodec) (hasAac : Bool) (m : VMeta) (s : FlvSt) (f : Frame) : FlvSt × List Tag × Status :=
  if !s.alive then (s, [], .ok)
  else
    let body : List Tag :=
      if f.audio then (if hasAac then [.audio f.payload] else [])
      else (match f.payload with | [] => [] | _ => [.video (isKey c f.payload) f.payload])
    if s.headerDone then
      (match f.audio, f.payload with
        | false, [] => ({ s with alive := false }, [], .panic)       -- frame.Payload[0]
        | _, _ => (s, body, .ok))
    else if cfg.flvWaitsForParameterSets && !seqReady cfg spsOk c m then (s, [], .ok)    -- frame dropped
    else
      -- muxMetadataTag; vp.PacketizeSequenceHeader; ap.PacketizeSequenceHeader
      match c with
      | .h264 =>
        if m.sps.length < 4 then ({ s with alive := false }, [.script], .panic)   -- sps[1], sps[2], sps[3]
        else
          let hdr : List Tag := [.script, .vseq m.sps m.pps] ++ (if hasAac then [.aseq] else [])
          (match f.audio, f.payload with
            | false, [] => ({ alive := false, headerDone := true }, hdr, .panic)
            | _, _ => ({ s with headerDone := true }, hdr ++ body, .ok))
      | .h265 =>
        let hdr : List Tag := [.script, .vseq m.sps m.pps] ++ (if hasAac then [.aseq] else [])
        (match f.audio, f.payload with
          | false, [] => ({ alive := false, headerDone := true }, hdr, .panic)
          | _, _ => ({ s with headerDone := true }, hdr ++ body, .ok))

/-- a TS frame handed to the segment generator: pid, Annex-B / ADTS header marker, payload -/
inductive TsFrame where
  | video (key : Bool) (header : Bytes) (payload : Bytes)
  | audio (payload : Bytes)
deriving DecidableEq, Repr, Inhabited

/-- mpegts Frame.prepareAvcHeader -/
def avcHeader (skips79 : Bool) (sps pps payload : Bytes) : Bytes :=
  match payload with
  | [] => []
  | b :: _ =>
    let t := b &&& 0x1f
    let aud : Bytes := [0, 0, 0, 1, 9, 0xf0]
    let h : Bytes := if t = 1 || t = 5 || t = 6 then aud else []
    let h := if t = 5 then
        h ++ (if sps.isEmpty then [] else [0, 0, 0, 1] ++ sps) ++ (if pps.isEmpty then [] else [0, 0, 0, 1] ++ pps)
      else h
    if skips79 && t ≥ 7 && t ≤ 9 then h
    else if h.isEmpty then [0, 0, 0, 1] else h ++ [0, 0, 1]

structure TsSt where
  alive : Bool := true
deriving DecidableEq, Repr, Inhabited

/-- one iteration of mpegts.Muxer.process (H.264 + AAC only: NewMuxer fails otherwise);
    `ascOk` = the AudioSpecificConfig of the SDP decoded (`audioSps != nil`) -/
def tsStep (cfg : Cfg) (ascOk : Bool) (m : VMeta) (s : TsSt) (f : Frame) : TsSt × List TsFrame × Status :=
  if !s.alive then (s, [], .ok)
  else if f.audio then
    if ascOk then (s, [.audio f.payload], .ok)
    else if cfg.tsAacChecked then (s, [], .err)
    else ({ alive := false }, [], .panic)                              -- (*RawSPS)(nil).ToAdtsHeader
  else
    match f.payload with
    | [] => ({ alive := false }, [], .panic)                           -- frame.Payload[0]
    | b :: _ => (s, [.video ((b &&& 0x1f) = 5) (avcHeader cfg.tsAvcSkips79 m.sps m.pps f.payload) f.payload], .ok)

/-- the converters of one stream, stepped synchronously packet by packet -/
structure St where
  demux : DemuxSt
  flv : FlvSt := {}
  ts : TsSt := {}
deriving Repr, Inhabited

def feedFlv (cfg : Cfg) (spsOk : Bytes → Bool) (c : VCodec) (hasAac : Bool) (m : VMeta) : FlvSt → List Frame → FlvSt × List Tag
  | s, [] => (s, [])
  | s, f :: fs =>
    let (s1, ts, _) := flvStep cfg spsOk c hasAac m s f
    let (s2, us) := feedFlv cfg spsOk c hasAac m s1 fs
    (s2, ts ++ us)

def feedTs (cfg : Cfg) (ascOk : Bool) (m : VMeta) : TsSt → List Frame → TsSt × List TsFrame
  | s, [] => (s, [])
  | s, f :: fs =>
    let (s1, ts, _) := tsStep cfg ascOk m s f
    let (s2, us) := feedTs cfg ascOk m s1 fs
    (s2, ts ++ us)

/-- one packet through demuxer, FLV muxer and TS muxer (the workers see the VideoMeta as it is
    after the demuxer handled the packet: the harness steps the goroutines in this order) -/
def step (dc : Depack.Cfg) (cfg : Cfg) (spsOk : Bytes → Bool) (ascOk : Bool) (hasTs : Bool) (s : St) (i : In) :
    St × List Frame × List Tag × List TsFrame :=
  let (d, fs, _) := demuxStep dc spsOk s.demux i
  let (fl, tags) := feedFlv cfg spsOk d.codec d.hasAac d.v.vmeta s.flv fs
  let (t, tsf) := if hasTs then feedTs cfg ascOk d.v.vmeta s.ts fs else (s.ts, [])
  ({ demux := d, flv := fl, ts := t }, fs, tags, tsf)

/-- what the publisher's goroutine does with a packet before the demuxer sees it:
    the cache classifier; `none` = the goroutine panicked (the session / pull ends) -/
def classify (cfg : Cfg) (c : VCodec) (payload : Bytes) : CacheClassify.Out :=
  match c with
  | .h264 => CacheClassify.classify264 cfg.cache264Checked payload
  | .h265 => CacheClassify.classify265 cfg.cache265Checked payload

end IpcHub.Pipeline
