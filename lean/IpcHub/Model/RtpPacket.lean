/-
Model of av/format/rtp/packet.go (ReadPacket, Packet.Payload), of the RTP fixed-header parser
it calls (pion/rtp v1.6.2 Header.Unmarshal — third-party, modelled by hand because its
failures and panics decide whether the publishing session survives) and of the packet branch of
service/rtsp/io.go `receive`.  Core Lean only.
-/
import IpcHub.Model.Depack
namespace IpcHub.RtpPacket
open IpcHub.Depack (Bytes be16 be32)

/-- source facts (Gen/ContainFacts.lean) -/
structure Cfg where
  /-- ReadPacket returns the (non-nil) packet together with the error for a channel number that is
      not in the channel table, so that `receive` warns and continues (pinned tree: nil packet) -/
  unknownChannelTolerated : Bool
  /-- ReadPacket returns the packet together with the error when the RTP header cannot be parsed -/
  badHeaderTolerated : Bool
  /-- a panic of the third-party header parser is recovered inside ReadPacket -/
  headerPanicRecovered : Bool
  /-- Packet.Payload strips RTP padding -/
  stripsPadding : Bool

structure Hdr where
  padding : Bool
  ext : Bool
  marker : Bool
  pt : UInt8
  seq : UInt16
  ts : UInt32
  payloadOffset : Nat
deriving DecidableEq, Repr, Inhabited

inductive UErr where
  | short   -- errHeaderSizeInsufficient…
  | panic   -- index / slice out of range inside the parser
  | fuel
deriving DecidableEq, Repr

/-- RFC 8285 one-byte header extension loop (`for currOffset < end`): returns the final offset -/
def oneByteLoop (raw : Bytes) (endOff : Nat) : Nat → Nat → Except UErr Nat
  | 0, _ => .error .fuel
  | fuel + 1, cur =>
    if cur < endOff then
      match raw[cur]? with
      | none => .error .panic
      | some b =>
        if b = 0 then oneByteLoop raw endOff fuel (cur + 1)
        else
          let extid := b >>> (4 : UInt8)
          let len := ((b &&& 0x0f) + 1).toNat
          let cur := cur + 1
          if extid = 0xf then .ok cur
          else if cur + len > raw.length then .error .panic      -- rawPacket[currOffset : currOffset+len], cap = len
          else oneByteLoop raw endOff fuel (cur + len)
    else .ok cur

/-- RFC 8285 two-byte header extension loop -/
def twoByteLoop (raw : Bytes) (endOff : Nat) : Nat → Nat → Except UErr Nat
  | 0, _ => .error .fuel
  | fuel + 1, cur =>
    if cur < endOff then
      match raw[cur]? with
      | none => .error .panic
      | some b =>
        if b = 0 then twoByteLoop raw endOff fuel (cur + 1)
        else
          let cur := cur + 1
          match raw[cur]? with
          | none => .error .panic                               -- rawPacket[currOffset] (length byte)
          | some l =>
            let cur := cur + 1
            if cur + l.toNat > raw.length then .error .panic
            else twoByteLoop raw endOff fuel (cur + l.toNat)
    else .ok cur

/-- pion/rtp Header.Unmarshal -/
def unmarshal (raw : Bytes) : Except UErr Hdr :=
  match raw with
  | b0 :: b1 :: s0 :: s1 :: rest =>
    let nCSRC := (b0 &&& 0x0f).toNat
    let cur := 12 + 4 * nCSRC
    if raw.length < cur then .error .short
    else
      match rest with
      | t0 :: t1 :: t2 :: t3 :: _ =>
        let h : Hdr := { padding := (b0 >>> (5 : UInt8)) &&& 1 = 1, ext := (b0 >>> (4 : UInt8)) &&& 1 = 1,
                         marker := (b1 >>> (7 : UInt8)) &&& 1 = 1, pt := b1 &&& 0x7f,
                         seq := (s0.toUInt16 <<< 8) ||| s1.toUInt16, ts := be32 t0 t1 t2 t3, payloadOffset := cur }
        if h.ext then
          if raw.length < cur + 4 then .error .short
          else
            match raw.drop cur with
            | p0 :: p1 :: l0 :: l1 :: _ =>
              let profile := be16 p0 p1
              let extLen := be16 l0 l1 * 4
              let cur := cur + 4
              if raw.length < cur + extLen then .error .short
              else if profile = 0xBEDE then
                (oneByteLoop raw (cur + extLen) (raw.length + 1) cur).map (fun c => { h with payloadOffset := c })
              else if profile = 0x1000 then
                (twoByteLoop raw (cur + extLen) (raw.length + 1) cur).map (fun c => { h with payloadOffset := c })
              else .ok { h with payloadOffset := cur + extLen }
            | _ => .error .short
        else .ok h
      | _ => .error .short          -- unreachable: length ≥ 12
  | _ => .error .short

/-- `Packet.Payload()` for a media channel -/
def payload (cfg : Cfg) (h : Hdr) (data : Bytes) : Bytes :=
  let body := data.drop h.payloadOffset
  if cfg.stripsPadding && h.padding && data.length > h.payloadOffset then
    match data.getLast? with
    | some n => if n.toNat > 0 && n.toNat ≤ data.length - h.payloadOffset then body.take (body.length - n.toNat) else body
    | none => body
  else body

/-- what `receive` does with one complete interleaved frame `$ ch len16 data` -/
inductive Recv where
  | media (ch : Nat) (h : Hdr) (data : Bytes)   -- onPack with a video / audio packet
  | control (ch : Nat) (data : Bytes)           -- onPack with an RTCP packet
  | skip                                        -- warning logged, the session goes on
  | close                                       -- error returned: the session loop ends
  | panic                                       -- unwinds to the session goroutine's recover: the session ends
deriving DecidableEq, Repr

/-- index of the interleaved channel number in the session's channel table (`for i, v := range channelConfig`) -/
def lookup (chans : List Int) (ch : Nat) : Option Nat :=
  chans.findIdx? (· == (ch : Int))

/-- ReadPacket + the packet branch of `receive`, for a complete frame on interleaved channel `ch` -/
def receive (cfg : Cfg) (chans : List Int) (ch : Nat) (data : Bytes) : Recv :=
  match lookup chans ch with
  | none => if cfg.unknownChannelTolerated then .skip else .close
  | some i =>
    if i = 0 || i = 2 then
      match unmarshal data with
      | .ok h => .media i h data
      | .error .short => if cfg.badHeaderTolerated then .skip else .close
      | .error _ => if cfg.headerPanicRecovered then (if cfg.badHeaderTolerated then .skip else .close) else .panic
    else .control i data

end IpcHub.RtpPacket
