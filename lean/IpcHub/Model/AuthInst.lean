/-
The C11 model instantiated with the facts regenerated from the current source tree
(Gen/C11Facts.lean).  A configuration flag is `true` exactly when the skeleton of the function
that implements the check is the one recorded here (the skeleton of the repaired code); any other
shape makes the flag `false`, the full-strength obligations in Props/C11.lean then fail.
-/
import IpcHub.Model.AuthSess
import IpcHub.Model.PathMatchInst
import IpcHub.Gen.C11Facts
import IpcHub.Model.AuthExpect
import IpcHub.Model.Ids
namespace IpcHub.Auth
open IpcHub.PathMatch



def genCfg : Cfg :=
  { pm := IpcHub.PathMatch.genCfg
    initResets := decide (Gen.skel_userInit = Expected.skel_userInit)
    tsPermDir := decide (Gen.skel_permissionInterceptor = Expected.skel_permissionInterceptor)
    permCanonical := decide (Gen.skel_permissionInterceptor = Expected.skel_permissionInterceptor)
    wsRtspChecks := decide (Gen.skel_rtspCheckPermission = Expected.skel_rtspCheckPermission) &&
                    decide (Gen.skel_rtspHttpAuthed = Expected.skel_rtspHttpAuthed) &&
                    decide (Gen.skel_rtspCheckAuth = Expected.skel_rtspCheckAuth)
    digestShowsNewNonce := decide (Gen.skel_rtspOnPreprocess = Expected.skel_rtspOnPreprocess)
    wspJoinChecks := decide (Gen.skel_wspHandshakeData = Expected.skel_wspHandshakeData) &&
                     decide (Gen.skel_wspAcceptsDataChannel = Expected.skel_wspAcceptsDataChannel)
    wspPlayChecks := decide (Gen.skel_wspCheckPermission = Expected.skel_wspCheckPermission) &&
                     decide (Gen.skel_wspOnDescribe = Expected.skel_wspOnDescribe) &&
                     decide (Gen.skel_wspOnPlay = Expected.skel_wspOnPlay)
    identityReplaces := decide (Gen.skel_authInterceptor = Expected.skel_authInterceptor)
    accessTTL := Gen.accessTTL
    refreshTTL := Gen.refreshTTL
    noAuth := Gen.noAuthRequired.map String.toList
    streamQueryPrefix := Gen.roleExemptPrefix.toList }

/-- how the current source makes tokens and nonces: a crypto/rand draw only if every site has the
    reviewed shape (NewToken's two fields, NewSecret itself and what `rand` it imports, the two nonce
    sites of the RTSP session); anything else is treated as the counter-derived scheme -/
def genSource : Ids.Source :=
  if decide (Gen.tokenField_AToken = Expected.tokenField_AToken) &&
     decide (Gen.tokenField_RToken = Expected.tokenField_RToken) &&
     decide (Gen.skel_newSecret = Expected.skel_newSecret) &&
     decide (Gen.securityRandImports = Expected.securityRandImports) &&
     decide (Gen.skel_rtspNewSessionWs = Expected.skel_rtspNewSessionWs) &&
     decide (Gen.skel_rtspCheckAuth = Expected.skel_rtspCheckAuth)
  then .randomDraw else .md5OfCounter

end IpcHub.Auth
