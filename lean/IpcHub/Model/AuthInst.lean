/-
The C11 model instantiated with the facts regenerated from the current source tree
(Gen/C11Facts.lean).  A configuration flag is `true` exactly when the skeleton of the function
that implements the check is the one recorded here (the skeleton of the repaired code); any other
shape makes the flag `false`, the full-strength obligations in Props/C11.lean then fail.
-/
import IpcHub.Model.AuthSess
import IpcHub.Model.PathMatchInst
import IpcHub.Gen.C11Facts
namespace IpcHub.Auth
open IpcHub.PathMatch

namespace Expected
def userInit : List String := []
def permissionInterceptor : List String := []
def rtspCheckPermission : List String := []
def rtspHttpAuthed : List String := []
def rtspCheckAuth : List String := []
def rtspOnPreprocess : List String := []
def wspHandshakeData : List String := []
def wspAcceptsDataChannel : List String := []
def wspCheckPermission : List String := []
def wspOnDescribe : List String := []
def wspOnPlay : List String := []
end Expected

def genCfg : Cfg :=
  { pm := IpcHub.PathMatch.genCfg
    initResets := decide (Gen.skel_userInit = Expected.userInit)
    tsPermDir := decide (Gen.skel_permissionInterceptor = Expected.permissionInterceptor)
    permCanonical := decide (Gen.skel_permissionInterceptor = Expected.permissionInterceptor)
    wsRtspChecks := decide (Gen.skel_rtspCheckPermission = Expected.rtspCheckPermission) &&
                    decide (Gen.skel_rtspHttpAuthed = Expected.rtspHttpAuthed) &&
                    decide (Gen.skel_rtspCheckAuth = Expected.rtspCheckAuth)
    digestShowsNewNonce := decide (Gen.skel_rtspOnPreprocess = Expected.rtspOnPreprocess)
    wspJoinChecks := decide (Gen.skel_wspHandshakeData = Expected.wspHandshakeData) &&
                     decide (Gen.skel_wspAcceptsDataChannel = Expected.wspAcceptsDataChannel)
    wspPlayChecks := decide (Gen.skel_wspCheckPermission = Expected.wspCheckPermission) &&
                     decide (Gen.skel_wspOnDescribe = Expected.wspOnDescribe) &&
                     decide (Gen.skel_wspOnPlay = Expected.wspOnPlay)
    accessTTL := Gen.accessTTL
    refreshTTL := Gen.refreshTTL
    noAuth := Gen.noAuthRequired.map String.toList
    streamQueryPrefix := Gen.roleExemptPrefix.toList }

end IpcHub.Auth
