/-
Model of service/wsp/protocol.go `DecodeStringRequest` (with utils/scan `Line.Scan`,
`spacePair.Scan`, `ColonPair.Scan`), byte-exact on ASCII input.  Core Lean only.
-/
import IpcHub.Model.RtspBase
namespace IpcHub.Wsp
open IpcHub.Rtsp

/-- `strings.Index(input, "\r\n\r\n")`: the text before and after the first CR LF CR LF -/
def cutCrlf2 : Str → Option (Str × Str)
  | [] => none
  | c :: cs =>
    if (c :: cs).take 4 == ['\r', '\n', '\r', '\n'] then some ([], (c :: cs).drop 4)
    else match cutCrlf2 cs with
      | some (a, b) => some (c :: a, b)
      | none => none

/-- the lines the header loop visits after the first line: `Line.Scan` cuts at '\n' and trims
    both the token and the remainder, so the tokens are the trimmed pieces -/
def lineTokens (s : Str) : List Str := (splitOn '\n' s).map trimSpace

/-- `ColonPair.Scan`: none when there is no ':' -/
def colonPair (tok : Str) : Option (Str × Str) :=
  match cut ':' tok with
  | none => none
  | some (k, v) => some (trimFunc isSpaceOrQuote k, trimFunc isSpaceOrQuote v)

def validCmds : List Str := ["GET_INFO".toList, "INIT".toList, "JOIN".toList, "WRAP".toList, "SWITCH".toList]

/-- `Header[k] = v` in order: a later line overwrites an earlier one with the same key -/
def setHeader (h : List (Str × Str)) (k v : Str) : List (Str × Str) :=
  if h.any (·.1 == k) then h.map (fun p => if p.1 == k then (k, v) else p) else h ++ [(k, v)]

structure WReq where
  cmd : Str
  header : List (Str × Str)
  body : Str
  deriving Repr, DecidableEq

inductive DecodeErr | noSeparator | firstLine | proto | command
  deriving Repr, DecidableEq

def decodeStringRequest (input : Str) : Except DecodeErr WReq :=
  match cutCrlf2 input with
  | none => .error .noSeparator
  | some (head, body) =>
    match cut '\n' head with
    | none => .error .firstLine                    -- `scanner.Scan` found no line end: `!ok`
    | some (l1, rest) =>
      let first := trimSpace l1
      let (proto, cmd) : Str × Str :=
        match cut ' ' first with
        | none => (first, [])
        | some (a, b) => (trimSpace a, trimSpace b)
      if proto != "WSP/1.1".toList then .error .proto
      else if !validCmds.contains cmd then .error .command
      else
        let hdr := (lineTokens (trimSpace rest)).foldl (fun h tok =>
          match colonPair tok with
          | some (k, v) => setHeader h k v
          | none => h) []
        .ok { cmd := cmd, header := hdr, body := body }

end IpcHub.Wsp
