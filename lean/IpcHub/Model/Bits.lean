/-
Model of utils/bits/reader.go (bits.Reader) — C15.

The Go reader is a byte slice plus a bit offset.  Every access is guarded by the slice
bounds check `r.buf[(r.offset+n-1)>>3]`, which fails exactly when fewer than `n` bits
remain; the state of the model is therefore the list of bits *still unread*
(`bitsOfBytes buf` with `offset` bits dropped).  A failed bounds check is a Go run-time
panic: `Fault.panic` (the decoders' deferred `recover` turns it into an error).
Core Lean only.
-/
namespace IpcHub.Bits

/-- outcomes other than success -/
inductive Fault where
  /-- Go run-time panic (index out of range); recovered by the `defer` of every `Decode` -/
  | panic
  /-- explicit `return errors.New(..)`, numbered per site (see the decoder models) -/
  | err (site : Nat)
deriving DecidableEq, Repr

/-- A reader operation: consumes a prefix of the unread bits or fails. -/
def P (α : Type) := List Bool → Except Fault (α × List Bool)

instance : Monad P where
  pure a := fun s => .ok (a, s)
  bind p f := fun s =>
    match p s with
    | .ok (a, s') => f a s'
    | .error e => .error e

def fail {α : Type} (e : Fault) : P α := fun _ => .error e

/-- MSB-first bits of one byte -/
def bitsOfByte (b : UInt8) : List Bool :=
  [b.toNat / 128 % 2 == 1, b.toNat / 64 % 2 == 1, b.toNat / 32 % 2 == 1, b.toNat / 16 % 2 == 1,
   b.toNat / 8 % 2 == 1, b.toNat / 4 % 2 == 1, b.toNat / 2 % 2 == 1, b.toNat % 2 == 1]

def bitsOfBytes : List UInt8 → List Bool
  | [] => []
  | b :: bs => bitsOfByte b ++ bitsOfBytes bs

/-- big-endian value of a bit string -/
def valOf (bs : List Bool) : Nat := bs.foldl (fun acc b => 2 * acc + b.toNat) 0

/-- `r.ReadBit()`: bounds check `r.buf[offset>>3]`, then the bit. -/
def readBit : P Nat
  | [] => .error .panic
  | b :: r => .ok (b.toNat, r)

/-- `r.ReadBool()` -/
def readBool : P Bool
  | [] => .error .panic
  | b :: r => .ok (b, r)

/-- `r.readUint64(n, max)`: `n ≤ 0 ∨ n > max` returns 0 **without advancing**; otherwise the
    bounds check `r.buf[(offset+n-1)>>3]` (panic iff fewer than `n` bits remain) and the
    big-endian value of the next `n` bits.  `ReadUint8/16/32/64(n)`, `Read(n)`, `ReadInt(n)`
    are this with max = 8/16/32/64/32/64 (the conversion never truncates: value < 2^n ≤ 2^max). -/
def readU (n max : Nat) : P Nat := fun s =>
  if n = 0 ∨ n > max then .ok (0, s)
  else if s.length < n then .error .panic
  else .ok (valOf (s.take n), s.drop n)

/-- `r.Skip(n)` -/
def skip (n : Nat) : P Unit := fun s =>
  if n = 0 then .ok ((), s)
  else if s.length < n then .error .panic
  else .ok ((), s.drop n)

/-- `r.Peek(n)`: `readUint64(n, 64)` on a clone -/
def peek (n : Nat) : P Nat := fun s =>
  match readU n 64 s with
  | .ok (v, _) => .ok (v, s)
  | .error e => .error e

/-- `r.BitsLeft()` -/
def bitsLeft : P Nat := fun s => .ok (s.length, s)

/-- the loop of `ReadUe`: `for { if bit := r.ReadBit(); !(bit == 0 && i < lim) {break}; i++ }`
    (`lim` is the literal 32 of the source, regenerated as a fact). -/
def ueZeros (lim : Nat) (i : Nat) : P Nat
  | [] => .error .panic
  | b :: r => if b = false ∧ i < lim then ueZeros lim (i + 1) r else .ok (i, r)

/-- `r.ReadUe()`: `res = r.Read(i); res += (1 << uint(i)) - 1` in `uint32`. -/
def readUeL (lim : Nat) : P Nat := do
  let i ← ueZeros lim 0
  let v ← readU i 32
  pure ((v + (2 ^ i - 1)) % 2 ^ 32)

def readUe : P Nat := readUeL 32

/-- two's-complement reinterpretation `intN(x)` -/
def wrapInt (bits : Nat) (z : Int) : Int :=
  (z + 2 ^ (bits - 1)) % 2 ^ bits - 2 ^ (bits - 1)

/-- `r.ReadSe()`.  `fromUe = true` is the current source
    (`half := int32(ui32 >> 1); if ui32&1 != 0 { res = half + 1 } else { res = -half }`);
    `fromUe = false` is the pinned tree, where both branches were computed from the zero
    result variable instead of `ui32` (candidate defect 1): the result is constantly 0. -/
def readSeC (fromUe : Bool) : P Int := do
  let u ← readUe
  if fromUe then
    let half : Int := wrapInt 32 (Int.ofNat (u / 2))
    if u % 2 ≠ 0 then pure (wrapInt 32 (half + 1)) else pure (wrapInt 32 (-half))
  else
    pure 0

/-- `ReadUe8`, `ReadUe16`: `uint8(r.ReadUe())`, `uint16(r.ReadUe())` -/
def readUe8 : P Nat := do let u ← readUe; pure (u % 256)
def readUe16 : P Nat := do let u ← readUe; pure (u % 65536)

/-- `ReadSe8`, `ReadSe16`: `int8(r.ReadSe())`, `int16(r.ReadSe())` -/
def readSe8C (fromUe : Bool) : P Int := do let z ← readSeC fromUe; pure (wrapInt 8 z)
def readSe16C (fromUe : Bool) : P Int := do let z ← readSeC fromUe; pure (wrapInt 16 z)

/-- run an operation on a whole byte buffer (a fresh `bits.NewReader(buf)`) -/
def runOn {α : Type} (p : P α) (buf : List UInt8) : Except Fault (α × List Bool) :=
  p (bitsOfBytes buf)

end IpcHub.Bits
