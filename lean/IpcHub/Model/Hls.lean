/-
Model of the HLS segment generator and playlist of cnotch/ipchub (C10):
  av/format/hls/segmentgenerator.go (NewSegmentGenerator, segmentOpen, WriteMpegtsFrame,
      flushAudioCache, flushFrame, segmentClose, reapSegment, isSegment[Absolutely]Overflow, Close)
  av/format/hls/segment.go          (updateDuration)
  av/format/hls/playlist.go         (addSegment, clearSegments, M3u8, Segment)
  av/format/hls/aac_jitter.go       (onBufferStart, onBufferContinue)
  av/format/hls/segmentfile.go      (memory / persistent segment files; see the storage LTS below)
Core Lean only.  Durations are float64 seconds in Go, always of the form ticks / 90000.0 with
an integer number of 90 kHz ticks: the model keeps the ticks (`dur`); the comparisons
`duration >= float64(n)` and `duration*1000 < 100` are the integer comparisons below (validated
against the Go floats at and around the boundaries by the harness).
-/
import IpcHub.Model.Ts
namespace IpcHub.Hls
open IpcHub.Ts

/-- constants and source facts the model depends on (`Model/HlsInst.lean`) -/
structure Cfg where
  ts         : Ts.Cfg
  remain     : Nat       -- playlist.go: hlsRemainSegments
  minDurMs   : Nat       -- segmentgenerator.go: hlsSegmentMinDurationMs
  aacDelay   : Nat       -- segmentgenerator.go: hlsAacDelay (ms)
  aacSync    : Nat       -- aac_jitter.go: hlsConfDefaultAacSync (ms)
  samples    : Nat       -- aac.SamplesPerFrame
  getCopies  : Bool      -- segmentfile.go: memorySegmentFile.get hands out a private copy
  m3u8Copies : Bool      -- playlist.go: M3u8 returns a private copy of the pooled buffer
  tokenEscaped : Bool    -- playlist.go: M3u8 writes url.QueryEscape(token) into the segment URIs
  firstFromFrame : Bool  -- segmentgenerator.go: the first segment starts at its first frame's PTS (not at 0)
  minFragment : Nat      -- config/global.go: HlsFragment() never returns less
deriving Repr

/-- hls.segment together with what has been written to its file (as TS frames) -/
structure Seg where
  seq      : Nat
  start    : Int            -- segmentStartPts
  dur      : Int            -- duration × 90000
  seqHdr   : Bool           -- isSequenceHeader
  byAudio  : Bool           -- ghost: opened by the audio-side reap (absolute overflow)
  frames   : List Frame     -- the frames handed to file.writeFrame, in order
deriving Repr, BEq, DecidableEq

/-- the audio frame cache: the header frame (`afCache`, PTS/DTS already replaced) and the
    bytes of `afCacheBuff` -/
structure ACache where
  head : Frame
  buff : Bytes
deriving Repr, BEq, DecidableEq

structure Gen where
  seqNo    : Nat                 -- sg.sequenceNo
  current  : Option Seg          -- sg.current
  playlist : List Seg            -- playlist.segments
  afCache  : Option ACache
  basePts  : Int                 -- aacJitter.basePts
  nbSamples : Int                -- aacJitter.nbSamples
  startPending : Bool            -- sg.startPending: the first segment has no start time yet
  -- ghosts
  deleted  : List Seg            -- removed from the playlist by clearSegments (file deleted)
  dropped  : List Seg            -- closed with duration < 100 ms: file deleted, number reused
deriving Repr, BEq, DecidableEq

/-- segmentOpen (the file is created; errors of the file system are not modelled) -/
def segmentOpen (g : Gen) (startPts : Int) (byAudio : Bool) : Gen :=
  match g.current with
  | some _ => g                                         -- already opened, ignore
  | none =>
    { g with seqNo := g.seqNo + 1,
             current := some { seq := g.seqNo + 1, start := startPts, dur := 0, seqHdr := false,
                               byAudio := byAudio, frames := [] } }

/-- NewSegmentGenerator (`firstFromFrame` = the source sets `sg.startPending = true`: fix 79c2429) -/
def initWith (firstFromFrame : Bool) : Gen :=
  let g : Gen := { seqNo := 0, current := none, playlist := [], afCache := none, basePts := 0,
                   nbSamples := 0, startPending := false, deleted := [], dropped := [] }
  let g := segmentOpen g 0 false
  { g with current := g.current.map (fun s => { s with seqHdr := true }), startPending := firstFromFrame }

/-- the generator as the regenerated source creates it -/
def initOf (c : Cfg) : Gen := initWith c.firstFromFrame

/-- segment.updateDuration -/
def updateDuration (s : Seg) (pts : Int) : Seg :=
  if pts < s.start then s else { s with dur := pts - s.start }

/-- flushFrame: `none` = nil dereference of sg.current.  While `startPending`, the open (first)
    segment takes its start time from this frame. -/
def flushFrame (g : Gen) (f : Frame) : Option Gen :=
  match g.current with
  | none => none
  | some s =>
    let s := if g.startPending then { s with start := f.pts } else s
    some { g with startPending := false,
                  current := some { updateDuration s f.pts with frames := s.frames ++ [f] } }

/-- flushAudioCache -/
def flushAudioCache (g : Gen) : Option Gen :=
  match g.afCache with
  | none => some g
  | some c =>
    (flushFrame g { c.head with payload := c.buff }).map fun g' => { g' with afCache := none }

/-- Playlist.addSegment + clearSegments(hlsRemainSegments) -/
def addSegment (c : Cfg) (g : Gen) (s : Seg) : Gen :=
  let l := g.playlist ++ [s]
  if l.length > c.remain then
    { g with playlist := l.drop (l.length - c.remain), deleted := g.deleted ++ l.take (l.length - c.remain) }
  else { g with playlist := l }

/-- segmentClose: `duration*1000 < hlsSegmentMinDurationMs` in ticks -/
def segmentClose (c : Cfg) (g : Gen) : Gen :=
  match g.current with
  | none => g
  | some s =>
    let g := { g with current := none }
    if s.dur * 1000 < (c.minDurMs : Int) * 90000 then
      { g with seqNo := g.seqNo - 1, dropped := g.dropped ++ [s] }
    else addSegment c g s

/-- reapSegment -/
def reapSegment (c : Cfg) (g : Gen) (startPts : Int) (byAudio : Bool) : Option Gen :=
  flushAudioCache (segmentOpen (segmentClose c g) startPts byAudio)

/-- isSegmentOverflow / isSegmentAbsolutelyOverflow -/
def overflow (g : Gen) (frag : Nat) : Bool :=
  match g.current with
  | none => false            -- (Go would dereference nil; never reached: checked on entry)
  | some s => s.dur ≥ (frag : Int) * 90000
def absOverflow (g : Gen) (frag : Nat) : Bool :=
  match g.current with
  | none => true
  | some s => s.dur ≥ 2 * (frag : Int) * 90000

/-- hlsAacJitter.onBufferStart: the corrected PTS and the new jitter state; `none` = integer
    division by zero (audio sample rate 0) -/
def onBufferStart (c : Cfg) (g : Gen) (pts : Int) (rate : Nat) : Option (Int × Gen) :=
  if c.aacSync = 0 then some (pts, g)
  else if rate = 0 then none
  else
    let est := g.basePts + Int.tdiv (g.nbSamples * 90000 * (c.samples : Int)) (rate : Int)
    let d := est - pts
    if d ≤ (c.aacSync : Int) * 90 ∧ d ≥ (c.aacSync : Int) * (-90) then
      some (est, { g with nbSamples := g.nbSamples + 1 })
    else some (pts, { g with basePts := pts, nbSamples := 1 })

/-- SegmentGenerator.WriteMpegtsFrame.  `none` = panic. -/
def writeFrame (c : Cfg) (frag rate : Nat) (g : Gen) (f : Frame) : Option Gen :=
  if g.current.isNone then some g
  else if f.payload.isEmpty then some g
  else if f.pid == c.ts.audioPid then        -- frame.IsAudio()
    let step1 : Option Gen :=
      match g.afCache with
      | none =>
        (onBufferStart c g f.pts rate).map fun (pts, g) =>
          { g with afCache := some { head := { f with dts := pts, pts := pts }, buff := f.payload } }
      | some a =>
        some { g with afCache := some { a with buff := a.buff ++ f.header ++ f.payload },
                      nbSamples := g.nbSamples + 1 }
    step1.bind fun g =>
      match g.afCache with
      | none => none          -- unreachable: the cache was just filled
      | some a =>
        if f.pts - a.head.pts > (c.aacDelay : Int) * 90 then flushAudioCache g
        else if absOverflow g frag then reapSegment c g f.pts true
        else some g
  else
    let g1 := if f.key && overflow g frag then reapSegment c g f.pts false else some g
    g1.bind fun g => flushFrame g f

def writeFrames (c : Cfg) (frag rate : Nat) : Gen → List Frame → Option Gen
  | g, [] => some g
  | g, f :: fs => (writeFrame c frag rate g f).bind fun g' => writeFrames c frag rate g' fs

/-- the bytes of a segment file: NewWriter on open, then every frame -/
def segBytes (c : Cfg) (s : Seg) : Bytes := writeStream c.ts s.frames

/-! ### playlist text -/

def natChars (n : Nat) : List Char := (toString n).toList

def pad3 (n : Nat) : List Char :=
  (if n < 10 then ['0', '0'] else if n < 100 then ['0'] else []) ++ natChars n

/-- `%.3f` of dur/90000 seconds: milliseconds rounded half up (the Go float is the nearest
    double of the quotient; exact ties are compared with tolerance by the harness) -/
def fmtDur (dur : Int) : List Char :=
  let ms := ((dur.toNat * 2 + 90) / 180)
  natChars (ms / 1000) ++ ['.'] ++ pad3 (ms % 1000)

/-- `int32(maxDuration + 1)` -/
def targetDuration (l : List Seg) : Nat :=
  (l.foldl (fun m s => if s.dur > m then s.dur else m) (0 : Int)).toNat / 90000 + 1

def segUri (path : List Char) (seq : Nat) : List Char :=
  "/streams".toList ++ path ++ ['/'] ++ natChars seq ++ ".ts".toList

/-- Go's url.QueryEscape on a string of bytes (chars below 256): letters, digits and `-_.~`
    stand for themselves, a space becomes `+`, every other byte `%XX` (upper-case hex) -/
def hexUpper (n : Nat) : Char := if n < 10 then Char.ofNat (n + 48) else Char.ofNat (n + 55)
def queryKeep (c : Char) : Bool := c.isAlphanum || c = '-' || c = '_' || c = '.' || c = '~'
def queryEscape : List Char → List Char
  | [] => []
  | c :: r =>
    (if queryKeep c then [c] else if c = ' ' then ['+']
     else ['%', hexUpper (c.toNat / 16 % 16), hexUpper (c.toNat % 16)]) ++ queryEscape r

/-- Playlist.M3u8: `none` = "playlist is not enough" -/
def m3u8 (c : Cfg) (path : List Char) (pl : List Seg) (token : List Char) : Option (List Char) :=
  if pl.length < c.remain then none else
  match pl with
  | [] => none                                   -- segments[0] would panic; only if remain = 0
  | s0 :: _ =>
    let head := "#EXTM3U\n#EXT-X-VERSION:3\n#EXT-X-ALLOW-CACHE:NO\n#EXT-X-TARGETDURATION:".toList
      ++ natChars (targetDuration pl) ++ "\n#EXT-X-MEDIA-SEQUENCE:".toList ++ natChars s0.seq ++ "\n\n".toList
    let entry (s : Seg) : List Char :=
      (if s.seqHdr then "#EXT-X-DISCONTINUITY\n".toList else [])
      ++ "#EXTINF:".toList ++ fmtDur s.dur ++ ",\n".toList ++ segUri path s.seq
      ++ (if token.isEmpty then [] else "?token=".toList ++ (if c.tokenEscaped then queryEscape token else token)) ++ ['\n']
    some (head ++ (pl.map entry).flatten)

/-- Playlist.Segment: the finished bytes of a listed segment -/
def segment (c : Cfg) (pl : List Seg) (seq : Nat) : Option Bytes :=
  (pl.find? (·.seq == seq)).map (segBytes c)

/-- SegmentGenerator.Close followed by Playlist.Close: everything is deleted -/
def close (g : Gen) : Gen :=
  { g with current := none, playlist := [],
           deleted := g.deleted ++ g.playlist ++ g.current.toList }

end IpcHub.Hls
