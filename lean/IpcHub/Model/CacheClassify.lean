/-
Model of the packet classifiers of media/cache/h264cache.go and hevccache.go
(`getPalyloadType`, `nalType`): which packets are parameter sets / key frames, and — the part
C07 needs — whether classification can index out of range.  `Stream.WriteRtpPacket` runs the
classifier on the publisher's session goroutine (or the pull client's), so a panic here ends
the publishing session.  The cache *contents* (C02) are not modelled here.  Core Lean only.
-/
import IpcHub.Model.Depack
namespace IpcHub.CacheClassify
open IpcHub.Depack (Bytes be16 nalType265)

structure Cls where
  vps : Bool := false
  sps : Bool := false
  pps : Bool := false
  islice : Bool := false
deriving DecidableEq, Repr, Inhabited

inductive Out where
  | cls (c : Cls)
  | panic
  | fuel
deriving DecidableEq, Repr, Inhabited

/-- H264Cache.nalType -/
def nal264 (t : UInt8) (c : Cls) : Cls :=
  if t = 7 then { c with sps := true }
  else if t = 8 then { c with pps := true }
  else if t = 5 then { c with islice := true }
  else c

/-- the aggregation loop of H264Cache.getPalyloadType; `rest = payload[off:]`.
    checked = the loop tests `off+2 > len(payload)` and `off >= len(payload)` before indexing -/
def loop264 (checked : Bool) : Nat → Bytes → Cls → Out
  | 0, _, _ => .fuel
  | fuel + 1, rest, c =>
    match rest with
    | hi :: lo :: tl =>
      let n := be16 hi lo
      if n < 1 then .cls c
      else
        match tl with
        | [] => if checked then .cls c else .panic           -- payload[off] after off += 2
        | b :: _ =>
          let c := nal264 (b &&& 0x1f) c
          if tl.length ≤ n then .cls c else loop264 checked fuel (tl.drop n) c
    | _ => if checked then .cls c else .panic                  -- payload[off] / payload[off+1]

/-- H264Cache.getPalyloadType -/
def classify264 (checked : Bool) (payload : Bytes) : Out :=
  if payload.length < 3 then .cls {}
  else
    match payload with
    | b0 :: rest =>
      let t := b0 &&& 0x1f
      if t = 24 || t = 25 || t = 26 || t = 27 then loop264 checked (rest.length + 1) rest {}
      else if t = 28 || t = 29 then
        match rest with
        | fuh :: _ => if (fuh >>> (7 : UInt8)) &&& 1 = 1 then .cls (nal264 (fuh &&& 0x1f) {}) else .cls {}
        | [] => .panic
      else .cls (nal264 t {})
    | [] => .cls {}

/-- HevcCache.nalType -/
def nal265 (t : UInt8) (c : Cls) : Cls :=
  if t ≥ 16 && t ≤ 21 then { c with islice := true }
  else if t = 32 then { c with vps := true }
  else if t = 33 then { c with sps := true }
  else if t = 34 then { c with pps := true }
  else c

def loop265 (checked : Bool) : Nat → Bytes → Cls → Out
  | 0, _, _ => .fuel
  | fuel + 1, rest, c =>
    match rest with
    | hi :: lo :: tl =>
      let n := be16 hi lo
      if n < 1 then .cls c
      else
        match tl with
        | [] => if checked then .cls c else .panic
        | b :: _ =>
          let c := nal265 (nalType265 b) c
          if tl.length ≤ n then .cls c else loop265 checked fuel (tl.drop n) c
    | _ => if checked then .cls c else .panic

/-- HevcCache.getPalyloadType -/
def classify265 (checked : Bool) (payload : Bytes) : Out :=
  if payload.length < 3 then .cls {}
  else
    match payload with
    | b0 :: _ :: rest =>
      let t := nalType265 b0
      if t = 48 then loop265 checked (rest.length + 1) rest {}
      else if t = 49 then
        match rest with
        | fuh :: _ => if (fuh >>> (7 : UInt8)) &&& 1 = 1 then .cls (nal265 (fuh &&& 0x3f) {}) else .cls {}
        | [] => .panic
      else .cls (nal265 t {})
    | _ => .cls {}

/-- what `CachePack` does with the classification (priority vps > sps > pps > key frame):
    which slot the packet goes to, and the returned key-frame flag -/
inductive Slot where | vps | sps | pps | gopStart | other
deriving DecidableEq, Repr

def slot (c : Cls) : Slot :=
  if c.vps then .vps else if c.sps then .sps else if c.pps then .pps else if c.islice then .gopStart else .other

end IpcHub.CacheClassify
