/-
What one FLV client is sent when it joins a running stream: composition of the three models

  av/format/flv/muxer.go     Model/Flv.lean        muxRun      frames → the tags of the stream
  media/cache/flvcache.go    Model/FlvCacheM.lean  expected    tags, join point → replay ++ live tags
  av/format/flv/flv.go       Model/Flv.lean        clientBytes tags → bytes on the client connection

as media.Stream wires them: `Stream.WriteFlvTag` caches each tag and broadcasts it to the attached
consumers as one step (`cacheAndSend`), `startConsume` snapshots the cache into the new consumer's
queue and registers it as one step, so a client that joins after `k` tags is handed
`FlvCache.PushTo`'s replay of the cache as it stood after these `k` tags and then every later tag;
the consumer (service/flv: httpFlvConsumer / wsFlvConsumer) writes each of them with its own
`flv.Writer`.  Core Lean only.
-/
import IpcHub.Model.FlvCacheM
import IpcHub.Model.Flv
namespace IpcHub.FlvJoin
open IpcHub.Flv IpcHub.FlvCacheM

/-- the `*flv.Tag` the stream hands to its FLV cache, as the cache model sees it (the cache never
    looks at the `uid`, and the writer does not see it) -/
def ofTag (t : Tag) : FTag :=
  { uid := 0, tagType := t.tagType.toNat, ts := t.timestamp.toNat, data := t.data }

/-- a cached tag (or the re-stamped copy `PushTo` makes of a header tag) as the client's writer
    sees it -/
def toTag (t : FTag) : Tag :=
  { tagType := UInt8.ofNat t.tagType, timestamp := UInt32.ofNat t.ts, data := t.data }

/-- the tags handed to the writer of a client that joins after the stream has written `k` tags -/
def joinTags (cfg : Cfg) (gop : Bool) (tags : List Tag) (k : Nat) : List Tag :=
  (expectedFrom { cacheGop := gop, stampNow := cfg.stampNow } (tags.map ofTag) k).map toTag

/-- everything a client receives that attaches (HTTP-FLV / WebSocket-FLV) to a stream fed with
    `frames` after the muxer has written `k` tags, GOP caching `gop`: `NewWriter` with the
    stream's type flags, then one `WriteFlvTag` per replayed / live tag.  The flag tells whether
    the muxer's worker died on the way.  `none`: `NewMuxer` rejects the video codec. -/
def joinBytes (cfg : Cfg) (vm : VideoMeta) (am : AudioMeta) (date : Bytes) (known : Nat) (frames : List Frame)
    (gop : Bool) (k : Nat) : Option (Bytes × Bool) :=
  if vm.codec = .other then none
  else
    let r := muxRun cfg vm am date known frames
    match clientBytes cfg (muxTypeFlags am) (joinTags cfg gop r.1 k) with
    | none => none
    | some bs => some (bs, r.2)

end IpcHub.FlvJoin
