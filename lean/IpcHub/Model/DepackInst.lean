/- the depacketizer model instantiated with the facts regenerated from /repo -/
import IpcHub.Model.Depack
import IpcHub.Gen.DepackFacts
namespace IpcHub.Depack

/-- `ptsDelay = int64(time.Second) / 2` ns; any other expression is not recognised (0) and the
    obligation `c06_source_facts` fails. -/
def genPtsDelay : Int := if IpcHub.Gen.ptsDelayExpr = "int64(time.Second) / 2" then 500000000 else 0

def genCfg : Cfg where
  h264Min := IpcHub.Gen.h264Min
  stapaChecked := IpcHub.Gen.stapaChecked
  stapaRewritesNri := IpcHub.Gen.stapaRewritesNri
  fuaMin := IpcHub.Gen.fuaMin
  fuaNeedsStart := IpcHub.Gen.fuaNeedsStart
  fuaKeepsF := IpcHub.Gen.fuaKeepsF
  h265Min := IpcHub.Gen.h265Min
  apChecked := IpcHub.Gen.apChecked
  fuMin := IpcHub.Gen.fuMin
  aacChecked := IpcHub.Gen.aacChecked
  srChecked := IpcHub.Gen.srChecked
  psUntilReady264 := IpcHub.Gen.psUntilReady264
  psUntilReady265 := IpcHub.Gen.psUntilReady265
  aacIndexLength := IpcHub.Gen.aacIndexLength
  samplesPerFrame := IpcHub.Gen.samplesPerFrame
  ptsDelay := genPtsDelay

/-- the pinned tree (49348c9): no bounds checks, NRI rewritten, FU-A accepts a fragment without start -/
def pinnedCfg : Cfg where
  h264Min := 3
  stapaChecked := false
  stapaRewritesNri := true
  fuaMin := 0
  fuaNeedsStart := false
  fuaKeepsF := false
  h265Min := 3
  apChecked := false
  fuMin := 0
  aacChecked := false
  srChecked := false
  psUntilReady264 := false
  psUntilReady265 := false
  aacIndexLength := 3
  samplesPerFrame := 1024
  ptsDelay := 500000000

end IpcHub.Depack
