/-
The reviewed shape of the Go functions that Model/PathMatch.lean mirrors, statement by statement
(provider/auth/path_matcher.go, provider/auth/user.go, utils/scan/scanner.go), as rendered by the
translator harness/tr/c16 (`skeleton`; of `User.init` and `CopyFrom` only the statements about the
administrator flag, the rights and the matchers — name and password handling is not C16's).  Props/C16.lean `c16_source_facts` demands that the
skeletons regenerated from the current source (Gen/AuthFacts.lean) equal these: any edit of one of
these functions other than comments/layout breaks the obligation, and the check then searches for
an input on which the implementation leaves the documented language.
-/
namespace IpcHub.PathMatch.Expected

def semicolonScanner : String := "NewScanner(';',unicode.IsSpace)"
def pmSkel_NewPathMatcher : List String := ["if strings.TrimSpace(pathMask) == endWildcard", "return alwaysMatcher{}", "end", "parts := strings.Split(strings.ToLower(strings.Trim(pathMask, \"/\")), \"/\")", "wildcard := parts[len(parts)-1] == endWildcard", "if wildcard", "parts = parts[0 : len(parts)-1]", "end", "return &pathMacher{parts: parts, wildcardEnd: wildcard}", "end"]
def pmSkel_Match : List String := ["path = strings.ToLower(strings.Trim(path, \"/\"))", "count := partCount(path) + 1", "if count < len(m.parts)", "return false", "end", "if count > len(m.parts) && !m.wildcardEnd", "return false", "end", "ok := true", "advance := path", "token := \"\"", "for i := 0; i < len(m.parts) && ok; i++", "advance, token, ok = pathScanner.Scan(advance)", "if sectionWildcard == m.parts[i]", "continue", "end", "if token != m.parts[i]", "return false", "end", "end", "return true", "end"]
def pmSkel_AlwaysMatch : List String := ["return true", "end"]
def pmSkel_partCount : List String := ["n := 0", "for", "i := strings.IndexByte(s, '/')", "if i == -1", "return n", "end", "n++", "s = s[i+1:]", "end", "end"]
def pmSkel_initMatchers : List String := ["advance := access", "pathMask := \"\"", "continueScan := true", "for continueScan", "advance, pathMask, continueScan = scan.Semicolon.Scan(advance)", "if len(pathMask) == 0", "continue", "end", "*destMatcher = append(*destMatcher, NewPathMatcher(pathMask))", "end", "end"]
def pmSkel_userInit : List String := ["if u.Admin", "if len(u.PullAccess) == 0", "u.PullAccess = \"*\"", "end", "if len(u.PushAccess) == 0", "u.PushAccess = \"*\"", "end", "end", "u.pushMatchers = nil", "u.pullMatchers = nil", "initMatchers(u.PushAccess, &u.pushMatchers)", "initMatchers(u.PullAccess, &u.pullMatchers)", "end"]
def pmSkel_ValidatePermission : List String := ["var matchers []PathMatcher", "switch right", "case PushRight", "matchers = u.pushMatchers", "end", "case PullRight", "matchers = u.pullMatchers", "end", "end", "if matchers == nil", "return false", "end", "path = strings.TrimSpace(path)", "range _, matcher := matchers", "if matcher.Match(path)", "return true", "end", "end", "return false", "end"]
def pmSkel_CopyFrom : List String := ["u.Admin = src.Admin", "u.PushAccess = src.PushAccess", "u.PullAccess = src.PullAccess", "u.init()", "end"]
def pmSkel_Scan : List String := ["i := strings.IndexRune(str, s.delim)", "if i < 0", "return \"\", strings.TrimFunc(str, s.trimFunc), false", "end", "return strings.TrimFunc(str[i+s.delimLen:], s.trimFunc), strings.TrimFunc(str[:i], s.trimFunc), true", "end"]
def pmSkel_NewScanner : List String := ["scanner := Scanner{ delim: delim, trimFunc: trimFunc, }", "scanner.delimLen = utf8.RuneLen(delim)", "if trimFunc == nil", "scanner.trimFunc = func(r rune) bool { return false }", "end", "return scanner", "end"]
def accessRights : String := "PullRight AccessRight = 1 << iota;PushRight;"
end IpcHub.PathMatch.Expected
