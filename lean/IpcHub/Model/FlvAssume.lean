/-
Bridge between the FLV model's inputs and the specification's vocabulary: the stream description
the property speaks about, and the one assumption the FLV theorems make about code outside the
FLV packages (the H.265 parameter-set decoders, property C15).  Used by the lemmas and by the driver
(which reports whether a generated case meets the assumption).
-/
import IpcHub.Model.Flv
import IpcHub.Spec.FlvParse
namespace IpcHub.FlvLemmas
open IpcHub.Flv IpcHub.FlvSpec

/-- what the property needs to know about the stream, read off the muxer's metadata -/
def srcOf (vm : VideoMeta) (am : AudioMeta) : Src :=
  { codec := vm.codec, aac := am.aac, sps := vm.sps, pps := vm.pps, vps := vm.vps, asc := am.asc,
    valid := vm.width != 0 || (if vm.codec = .h265 then vm.hevcSps.isSome else vm.avcSpsOk) }

/-- the decoded profile_tier_level as plain numbers -/
def ptlNat (p : HevcPtl) : Ptl :=
  { space := p.space.toNat, tier := p.tier.toNat, idc := p.idc.toNat, compat := p.compat.toNat,
    constraint := p.constraint.toNat, level := p.level.toNat }

/-- What the model assumes of `hevc.H265RawVPS/SPS.Decode` (their correctness is property C15):
    whenever the general profile/tier/level of VPS and SPS can be read at the positions the
    standard gives them and agree, both decoders succeeded and returned exactly these values. -/
def hevcFaithful (vm : VideoMeta) : Bool :=
  match spsPtl vm.sps, vpsPtl vm.vps with
  | some a, some b =>
    a ≠ b ||
    (match vm.hevcVps, vm.hevcSps with
     | some v, some s => ptlNat v.ptl = a && ptlNat s.ptl = a
     | _, _ => false)
  | _, _ => true

end IpcHub.FlvLemmas
