/-
Model of utils/path.go `CanonicalPath` and of the part of the standard library it calls
(`strings.TrimSpace`, `strings.ToLower`, `path.Clean` on a rooted path).
Strings are `List Char`.  Core Lean only.   (C17, C18)
-/
namespace IpcHub.PathCanon

/-- the character functions of the Go code (`unicode.ToLower`, `unicode.IsSpace`) are
    parameters; the driver instantiates them with the ASCII functions below. -/
structure Cfg where
  lower : Char → Char
  isSpace : Char → Bool
  /-- source fact: `CanonicalPath` repeats the pass until the result is stable
      (`for np != p { p, np = np, canonicalPath(np) }`); `false` = the pinned single pass -/
  loops : Bool

/-- strings.TrimLeftFunc -/
def trimLeft (p : Char → Bool) : List Char → List Char
  | [] => []
  | c :: cs => if p c then trimLeft p cs else c :: cs

/-- strings.TrimRightFunc -/
def trimRight (p : Char → Bool) (s : List Char) : List Char :=
  (trimLeft p s.reverse).reverse

/-- strings.TrimSpace -/
def trim (p : Char → Bool) (s : List Char) : List Char :=
  trimRight p (trimLeft p s)

/-- strings.Split(s, "/"): always at least one element -/
def splitSlash : List Char → List (List Char)
  | [] => [[]]
  | c :: cs =>
    if c = '/' then [] :: splitSlash cs
    else match splitSlash cs with
      | [] => [[c]]
      | s :: ss => (c :: s) :: ss

/-- one element of a rooted path in path.Clean; the stack holds the kept elements, top first.
    Empty and "." elements vanish, ".." removes the element before it (nothing at the root). -/
def cleanStep (stack : List (List Char)) (seg : List Char) : List (List Char) :=
  if seg = [] ∨ seg = ['.'] then stack
  else if seg = ['.', '.'] then stack.tail
  else seg :: stack

/-- "/s1/s2/…" -/
def joinSegs : List (List Char) → List Char
  | [] => []
  | s :: ss => '/' :: (s ++ joinSegs ss)

/-- the kept elements of a rooted path, first element first -/
def cleanSegs (p : List Char) : List (List Char) :=
  ((splitSlash p).foldl cleanStep []).reverse

/-- path.Clean on a rooted path (`CanonicalPath` only ever calls it with a leading '/';
    a relative argument is treated as if it were rooted). -/
def cleanRooted (p : List Char) : List Char :=
  match cleanSegs p with
  | [] => ['/']
  | s :: ss => joinSegs (s :: ss)

/-- strings.HasPrefix(s, pre) -/
def hasPrefix : List Char → List Char → Bool
  | _, [] => true
  | [], _ :: _ => false
  | a :: as, b :: bs => a = b && hasPrefix as bs

/-- one pass (utils.canonicalPath; the whole of CanonicalPath in the pinned tree), branch by branch -/
def canonStep (cfg : Cfg) (p0 : List Char) : List Char :=
  let p := (trim cfg.isSpace p0).map cfg.lower            -- strings.ToLower(strings.TrimSpace(p))
  if p = [] then ['/']                                     -- if p == "" { return "/" }
  else
    let p := if p.head? ≠ some '/' then '/' :: p else p    -- if p[0] != '/' { p = "/" + p }
    let np := cleanRooted p                                -- np := path.Clean(p)
    if p.getLast? = some '/' ∧ np ≠ ['/'] then             -- if p[len(p)-1] == '/' && np != "/"
      if p.length = np.length + 1 ∧ hasPrefix p np then p  -- fast path: np = p
      else np ++ ['/']                                     -- np += "/"
    else np

/-- `np := canonicalPath(p); for np != p { p, np = np, canonicalPath(np) }; return np`.
    The Go loop has no bound; the model's fuel is a modelling device and
    `canonicalPath_fixed` (Lemmas/PathCanon.lean) shows it is never exhausted. -/
def canonIter (cfg : Cfg) : Nat → List Char → List Char
  | 0, p => p
  | n + 1, p =>
    let np := canonStep cfg p
    if np = p then np else canonIter cfg n np

/-- utils.CanonicalPath -/
def canonicalPath (cfg : Cfg) (p : List Char) : List Char :=
  if cfg.loops then canonIter cfg (p.length + 3) p else canonStep cfg p

/-! ASCII instance used by the driver (the harness only generates ASCII) -/
def asciiSpace (c : Char) : Bool :=
  c = ' ' || c = '\t' || c = '\n' || c = '\r' || c = Char.ofNat 11 || c = Char.ofNat 12

def asciiLower (c : Char) : Char := if 'A' ≤ c ∧ c ≤ 'Z' then Char.ofNat (c.toNat + 32) else c

def asciiCfg (loops : Bool) : Cfg := { lower := asciiLower, isSpace := asciiSpace, loops := loops }

end IpcHub.PathCanon
