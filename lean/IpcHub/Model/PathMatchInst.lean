import IpcHub.Model.PathMatch
import IpcHub.Model.GoUnicode
import IpcHub.Gen.AuthFacts
namespace IpcHub.PathMatch
/-- the matcher configuration of the current source tree with ASCII character functions (what the
    C11 model builds on: its harness only sends ASCII) and the regenerated `pathScanner` fact -/
def genCfg : Cfg := { lower := asciiLower, isSpace := asciiSpace, pathTrims := IpcHub.Gen.pathScannerTrims }

/-- the matcher configuration of the current source tree with Go's own character functions
    (`unicode.ToLower`, `unicode.IsSpace`: Model/GoUnicode.lean) and the regenerated `pathScanner`
    fact — what the C16 driver runs -/
def goCfg : Cfg :=
  { lower := IpcHub.GoUnicode.toLower, isSpace := IpcHub.GoUnicode.isSpace,
    pathTrims := IpcHub.Gen.pathScannerTrims }
end IpcHub.PathMatch
