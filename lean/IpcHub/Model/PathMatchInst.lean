import IpcHub.Model.PathMatch
import IpcHub.Gen.AuthFacts
namespace IpcHub.PathMatch
/-- the matcher configuration of the current source tree: ASCII character functions (the
    harness only generates ASCII) and the regenerated `pathScanner` fact -/
def genCfg : Cfg := { lower := asciiLower, isSpace := asciiSpace, pathTrims := IpcHub.Gen.pathScannerTrims }
end IpcHub.PathMatch
