/-
Vocabulary shared by the RTSP session model and its specification: ASCII string helpers
(Go `strings` / utils/scan primitives) and the RTSP method alphabet.  Core Lean only.
-/
namespace IpcHub.Rtsp

abbrev Str := List Char

/-- `unicode.IsSpace` on ASCII (the harness generates ASCII only; U+0085 / U+00A0 not modelled) -/
def isSpace (c : Char) : Bool :=
  c == ' ' || c == '\t' || c == '\n' || c == '\x0b' || c == '\x0c' || c == '\r'

/-- `strings.TrimFunc` -/
def trimFunc (f : Char → Bool) (s : Str) : Str :=
  ((s.dropWhile f).reverse.dropWhile f).reverse

def trimSpace (s : Str) : Str := trimFunc isSpace s

/-- trim function of `scan.EqualPair` / `scan.ColonPair`: blanks and double quotes -/
def isSpaceOrQuote (c : Char) : Bool := isSpace c || c == '"'

/-- `strings.IndexByte` + slicing: the text before and after the first `d` -/
def cut (d : Char) : Str → Option (Str × Str)
  | [] => none
  | c :: cs =>
    if c == d then some ([], cs)
    else match cut d cs with
      | some (a, b) => some (c :: a, b)
      | none => none

/-- split on every `d` (always at least one piece) -/
def splitOn (d : Char) : Str → List Str
  | [] => [[]]
  | c :: cs =>
    if c == d then [] :: splitOn d cs
    else match splitOn d cs with
      | p :: ps => (c :: p) :: ps
      | [] => [[c]]

/-- the method alphabet of the statement (`other` = any unknown method token) -/
inductive Method
  | options | describe | announce | setup | play | pause | teardown
  | getParameter | setParameter | record | redirect | other
  deriving DecidableEq, Repr, Inhabited

end IpcHub.Rtsp
