/-
Model of media/stream.go (WriteRtpPacket, startConsume, StopConsume, close),
media/consumptions.go (SendToAll, Add, Remove, RemoveAndCloseAll) and
media/consumption.go (send, sendGop, Close, consume) for ONE consumer table of one stream.
(The FLV table has the same structure with the FLV cache in place of the RTP cache.)

Atomic steps.  The source runs cache-then-broadcast, snapshot-then-register, Remove and
RemoveAndCloseAll under one mutex per table (`consumptions.l`; regenerated facts in
Gen/C01Facts.lean say so), hence `pub`, `join`, `stop`, `close` are atomic here; one step of a
consumer goroutine (`cstep`) is one queue operation or one `Consume` call.  The wake-up
protocol below `Pop` (flag, condition variable) is modelled separately in Model/Worker.lean.
-/
import IpcHub.Model.MediaCache
namespace IpcHub.Media

/-- one consumption and its goroutine -/
structure Cons where
  name : Nat
  registered : Bool := true          -- present in the table
  closed : Bool := false             -- consumption.closed
  discarding : Bool := false
  queue : List (Option Pkt) := []    -- recvQueue; `none` is the nil wake-up sentinel
  inflight : Option Pkt := none      -- popped, `Consume` not yet returned
  delivered : List Pkt := []         -- what `Consume` has returned for, in order
  exited : Bool := false             -- the goroutine ran its deferred clean-up
  closeCalls : Nat := 0              -- invocations of Consumer.Close
  stalled : Bool := false            -- harness control: `Consume` blocks
  panicAt : Nat := 0                 -- harness control: `Consume` panics on the n-th packet (0 = never)
  -- ghost state (proofs only)
  replay : List Pkt := []            -- what sendGop prefilled
  sent : List Pkt := []              -- what `send` pushed
  joinedAt : Nat := 0                -- |published| at the join
  usedGop : Bool := false            -- joined through StartConsume (with the cache replay)
  everDiscarded : Bool := false
  sendLog : List (Pkt × Bool × Bool) := []   -- (packet, keyframe verdict, kept?) of every `send`
  sinceKey : Nat := 0                -- packets pushed by `send` since (and including) the last key frame
  deriving Repr

structure St where
  consts : NalConsts
  maxQLen : Nat
  status : Nat := 0                  -- 0 = StreamOK
  cache : Cache
  published : List Pkt := []         -- accepted by WriteRtpPacket, in order
  cons : List Cons := []
  count : Int := 0                   -- consumptions.count
  faulted : Bool := false            -- a classifier panic happened (out-of-range index)
  -- ghost: accepted packets since (and including) the last key-frame verdict, and its running maximum
  sinceKeyPub : Nat := 0
  maxSince : Nat := 0

inductive Label where
  | pub (p : Pkt)
  | join (name : Nat) (useGop : Bool) (panicAt : Nat)
  | stop (name : Nat)
  | close
  | cstep (name : Nat)               -- one step of that consumer's goroutine
  | stall (name : Nat)
  | resume (name : Nat)
  deriving Repr

/-- the discarding decision of consumption.send: re-evaluated only at a key frame -/
def nextDiscarding (maxQLen : Nat) (key discarding : Bool) (n : Nat) : Bool :=
  if key then
    (if discarding && n < maxQLen then false
     else if !discarding && n > maxQLen then true
     else discarding)
  else discarding

/-- the packet is pushed -/
def Cons.keep (p : Pkt) (key : Bool) (c : Cons) : Cons :=
  { c with discarding := false, queue := c.queue ++ [some p], sent := c.sent ++ [p],
           sendLog := c.sendLog ++ [(p, key, true)],
           sinceKey := if key then 1 else c.sinceKey + 1 }

/-- the packet is dropped -/
def Cons.drop (p : Pkt) (key : Bool) (c : Cons) : Cons :=
  { c with discarding := true, everDiscarded := true, sendLog := c.sendLog ++ [(p, key, false)] }

/-- consumption.send -/
def Cons.send (maxQLen : Nat) (p : Pkt) (key : Bool) (c : Cons) : Cons :=
  if !c.registered then c
  else if nextDiscarding maxQLen key c.discarding c.queue.length then c.drop p key else c.keep p key

/-- consumption.Close (flag, then the nil sentinel through the queue lock) -/
def Cons.close (c : Cons) : Cons :=
  if c.closed then c else { c with closed := true, queue := c.queue ++ [none] }

/-- what the consumer goroutine does next -/
inductive StepKind where
  | idle                      -- goroutine gone
  | blocked                   -- inside a stalled Consume, or waiting in Pop on an empty queue
  | panic                     -- Consume panics
  | deliver (p : Pkt)         -- Consume returns
  | exit                      -- loop ends (closed): deferred clean-up
  | sentinel                  -- Pop returned the nil sentinel: `continue`
  | take (p : Pkt)            -- Pop returned a packet
  deriving Repr, DecidableEq

def Cons.stepKind (c : Cons) : StepKind :=
  if c.exited then .idle
  else match c.inflight with
    | some p =>
      if c.stalled then .blocked
      else if c.panicAt ≠ 0 ∧ c.delivered.length + 1 = c.panicAt then .panic
      else .deliver p
    | none =>
      if c.closed then .exit
      else match c.queue with
        | [] => .blocked
        | none :: _ => .sentinel
        | some p :: _ => .take p

/-- effect of one goroutine step; the Bool says whether it removed the consumption from the
    table (the deferred StopConsume on the panic path / a still registered consumption) -/
def Cons.apply (c : Cons) : StepKind → Cons × Bool
  | .idle => (c, false)
  | .blocked => (c, false)
  | .panic =>
    -- deferred StopConsume (Remove + Close), Consumer.Close, queue reset
    ({ c with inflight := none, registered := false, closed := true, queue := [],
              exited := true, closeCalls := c.closeCalls + 1 }, c.registered)
  | .deliver p => ({ c with inflight := none, delivered := c.delivered ++ [p] }, false)
  | .exit =>
    -- deferred StopConsume (a no-op unless still registered), Consumer.Close, queue reset
    ({ c with registered := false, queue := [], exited := true, closeCalls := c.closeCalls + 1 }, c.registered)
  | .sentinel => ({ c with queue := c.queue.tail }, false)
  | .take p => ({ c with queue := c.queue.tail, inflight := some p }, false)

/-- one step of consumption.consume's goroutine -/
def Cons.step (c : Cons) : Cons × Bool := c.apply c.stepKind

def St.hasName (s : St) (n : Nat) : Bool := s.cons.any (·.name = n)

def boolToInt (b : Bool) : Int := if b then 1 else 0

def St.step (s : St) : Label → St
  | .pub p =>
    if s.status ≠ 0 then s
    else match s.cache.pack s.consts p with
      | none => { s with faulted := true }               -- panic before anything is stored or sent
      | some (cache', key) =>
        let sk := if key then 1 else s.sinceKeyPub + 1
        { s with cache := cache', published := s.published ++ [p],
                 cons := s.cons.map (Cons.send s.maxQLen p key),
                 sinceKeyPub := sk, maxSince := max s.maxSince sk }
  | .join name useGop panicAt =>
    if s.hasName name then s
    else if s.status ≠ 0 then
      -- closed stream: the consumption is closed at once and never registered
      let c0 : Cons := { name := name, registered := false, panicAt := panicAt, joinedAt := s.published.length }
      { s with cons := s.cons ++ [Cons.close c0] }
    else
      let rp := if useGop then s.cache.pushTo else []
      let c0 : Cons := { name := name, panicAt := panicAt, queue := rp.map some, replay := rp, joinedAt := s.published.length, usedGop := useGop }
      { s with cons := s.cons ++ [c0], count := s.count + 1 }
  | .stop name =>
    { s with cons := s.cons.map (fun c => if c.name = name ∧ c.registered then Cons.close { c with registered := false } else c),
             count := s.count - ((s.cons.filter (fun c => c.name = name ∧ c.registered)).length : Int) }
  | .close =>
    if s.status ≠ 0 then s
    else { s with status := 1, cache := s.cache.reset, count := 0,
                  cons := s.cons.map (fun c => if c.registered then Cons.close { c with registered := false } else c) }
  | .cstep name =>
    { s with cons := s.cons.map (fun c => if c.name = name then c.step.1 else c),
             count := s.count - ((s.cons.filter (fun c => c.name = name ∧ c.step.2)).length : Int) }
  | .stall name => { s with cons := s.cons.map (fun c => if c.name = name then { c with stalled := true } else c) }
  | .resume name => { s with cons := s.cons.map (fun c => if c.name = name then { c with stalled := false } else c) }

def St.run (s : St) (ls : List Label) : St := ls.foldl St.step s

def St.init (k : NalConsts) (maxQLen : Nat) (hevc cacheGop : Bool) : St :=
  { consts := k, maxQLen := maxQLen, cache := { hevc := hevc, cacheGop := cacheGop } }

/-- let every consumer goroutine run until it blocks (used by the driver after each scripted op) -/
def St.settle : Nat → St → St
  | 0, s => s
  | fuel + 1, s =>
    let s' := s.cons.foldl (fun acc c => acc.step (.cstep c.name)) s
    St.settle fuel s'

def Cons.pending (c : Cons) : List Pkt := c.inflight.toList ++ c.queue.filterMap id

end IpcHub.Media
