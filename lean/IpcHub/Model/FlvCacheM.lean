/-
Model of media/cache/flvcache.go (CachePack, PushTo) with the byte-level tag predicates of
av/format/flv/tag.go (IsMetadata via amf.ReadString, IsH2645SequenceHeader,
IsAACSequenceHeader, IsH2645KeyFrame).  Core Lean only.
-/
namespace IpcHub.FlvCacheM

structure FTag where
  uid : Nat
  tagType : Nat
  ts : Nat
  data : List UInt8
  deriving DecidableEq, Repr

/-- amf.ReadString on the tag data: marker 0x02, 16-bit length, bytes; `none` = error -/
def amfString (d : List UInt8) : Option (List UInt8) :=
  match d with
  | m :: hi :: lo :: rest =>
    if m.toNat ≠ 2 then none
    else
      let n := hi.toNat * 256 + lo.toNat
      if n = 0 then some [] else if rest.length < n then none else some (rest.take n)
  | _ => none

def onMetaData : List UInt8 := [111, 110, 77, 101, 116, 97, 68, 97, 116, 97]   -- "onMetaData"

def isMetadata (t : FTag) : Bool := t.tagType = 18 && amfString t.data = some onMetaData

def isH2645 (b0 : UInt8) : Bool := b0.toNat % 16 = 7 || b0.toNat % 16 = 12

def isKeyFrame (t : FTag) : Bool :=
  match t.data with
  | b0 :: _ :: _ => t.tagType = 9 && isH2645 b0 && b0.toNat / 16 % 16 = 1
  | _ => false

def isVideoSeqHeader (t : FTag) : Bool :=
  match t.data with
  | b0 :: b1 :: _ => t.tagType = 9 && isH2645 b0 && b0.toNat / 16 % 16 = 1 && b1.toNat = 0
  | _ => false

def isAacSeqHeader (t : FTag) : Bool :=
  match t.data with
  | b0 :: b1 :: _ => t.tagType = 8 && b0.toNat / 16 % 16 = 10 && b1.toNat = 0
  | _ => false

structure FCache where
  cacheGop : Bool
  /-- `PushTo` stamps the replayed headers with the stream's current time when no GOP is cached
      (`true`, the current tree); `false`: with 0, as before the repair -/
  stampNow : Bool := true
  /-- `lastTimestamp`: the timestamp of the latest media tag (0 before the first) -/
  last : Nat := 0
  mdata : Option FTag := none
  vseq : Option FTag := none
  aseq : Option FTag := none
  gop : List FTag := []
  deriving DecidableEq, Repr

/-- FlvCache.CachePack -/
def FCache.pack (c : FCache) (t : FTag) : FCache × Bool :=
  if isMetadata t then ({ c with mdata := some t }, false)
  else if isVideoSeqHeader t then ({ c with vseq := some t }, false)
  else if isAacSeqHeader t then ({ c with aseq := some t }, false)
  else
    let c := { c with last := t.ts }
    let key := isKeyFrame t
    if c.cacheGop then
      if key then ({ c with gop := [t] }, key)
      else if c.gop.length > 0 then ({ c with gop := c.gop ++ [t] }, key)
      else (c, key)
    else (c, key)

/-- the timestamp the replayed headers are presented with: that of the first cached GOP tag;
    without a cached GOP the stream's current time (the latest media tag's timestamp) -/
def FCache.initTs (c : FCache) : Nat :=
  match c.gop with
  | [] => if c.stampNow then c.last else 0
  | t :: _ => t.ts

def restamp (ts : Nat) (t : FTag) : FTag := { t with ts := ts }

/-- the header part of FlvCache.PushTo: COPIES of the cached header tags, re-stamped -/
def FCache.headers (c : FCache) : List FTag :=
  (c.mdata.toList ++ c.vseq.toList ++ c.aseq.toList).map (restamp c.initTs)

/-- FlvCache.PushTo (note: the GOP is pushed whatever `cacheGop` says; it is empty when off) -/
def FCache.pushTo (c : FCache) : List FTag := c.headers ++ c.gop

/-- the cache `c0` after the tags `ts` went through `CachePack` -/
def cacheFrom (c0 : FCache) (ts : List FTag) : FCache :=
  ts.foldl (fun c t => (c.pack t).1) c0

def cacheAfter (gop : Bool) (ts : List FTag) : FCache := cacheFrom { cacheGop := gop } ts

/-- what a consumer that joined after `k` tags has been sent once `ts` were written (cache
    initially `c0`) -/
def expectedFrom (c0 : FCache) (ts : List FTag) (k : Nat) : List FTag :=
  (cacheFrom c0 (ts.take k)).pushTo ++ ts.drop k

/-- what a consumer that joined after `k` tags has been sent once `ts` were written -/
def expected (gop : Bool) (ts : List FTag) (k : Nat) : List FTag :=
  expectedFrom { cacheGop := gop } ts k

end IpcHub.FlvCacheM
