import IpcHub.Model.RtspSession
import IpcHub.Gen.RtspFacts
namespace IpcHub.Rtsp
/-- the session automaton of the current source tree: gate table and the two `onPlay`
    guards as regenerated from service/rtsp/session.go -/
def genCfg : Cfg :=
  { gate := gateOfTable IpcHub.Gen.rtspGate,
    playAgainResponds := IpcHub.Gen.onPlayAgainResponds,
    playingNeedsOk := IpcHub.Gen.onPlayPlayingNeedsOk }

/-- the gate of the WSP control channel of the current source tree -/
def genWspGate : Status → Method → Bool := gateOfTable IpcHub.Gen.wspGate
end IpcHub.Rtsp
