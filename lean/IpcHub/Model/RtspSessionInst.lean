import IpcHub.Model.RtspSession
import IpcHub.Gen.RtspFacts
namespace IpcHub.Rtsp
/-- the session automaton of the current source tree: gate table and the two `onPlay`
    guards as regenerated from service/rtsp/session.go -/
def genCfg : Cfg :=
  { gate := gateOfTable IpcHub.Gen.rtspGate,
    playAgainResponds := IpcHub.Gen.onPlayAgainResponds,
    playingNeedsOk := IpcHub.Gen.onPlayPlayingNeedsOk,
    framesDropped := IpcHub.Gen.onPackGuard == "s.status != statusRecording => return nil",
    sidCarried := IpcHub.Gen.rtspNewResponseSets.contains ("FieldSession", "s.lsession") &&
      IpcHub.Gen.respIdentityTouched.isEmpty }

/-- wsp `newResponse` puts the session id on every response, nothing else touches it -/
def genWspSid : Bool :=
  IpcHub.Gen.wspNewResponseSets.contains ("FieldSession", "s.lsession") && IpcHub.Gen.respIdentityTouched.isEmpty

/-- the gate of the WSP control channel of the current source tree -/
def genWspGate : Status → Method → Bool := gateOfTable IpcHub.Gen.wspGate
end IpcHub.Rtsp
