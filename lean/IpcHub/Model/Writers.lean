/-
C13 model.  Core Lean only.

* the writers of one connection as a labelled transition system: every goroutine runs a
  list of primitive operations (`lock`, `unlock`, `write chunk`, `flush`) — the primitives
  the translator extracts from `Session.response`, `tcpConsumer.Consume`,
  `wsp.Session.Consume`, `rtp.Packet.Write` (Gen/WriterFacts.lean); a step is one primitive
  of one goroutine; `lock` is enabled only while the mutex is free.  Writes are NOT
  guarded by the semantics: a write outside a critical section interleaves freely.
* `network/socket/buffered/conn.go`: `Conn.Write` / `Conn.Flush` over a socket, with the
  rate limiter's answer as an adversarial input of every write.
* `av/format/rtp/packet.go`: `Packet.Write` (interleaved frame encoding) and what the
  WebSocket consumers send for one packet.
-/
namespace IpcHub.Writers

abbrev Bytes := List UInt8

inductive Op
  | lock
  | unlock
  | write (bs : Bytes)
  | flush
  deriving DecidableEq, Repr, Inhabited

/-- one message to send: the body of a critical section (writes and flushes only) -/
structure Job where
  body : List Op
  deriving DecidableEq, Repr, Inhabited

/-- the chunks handed to `conn.Write` by a list of operations -/
def writesOf : List Op → List Bytes
  | [] => []
  | .write bs :: r => bs :: writesOf r
  | _ :: r => writesOf r

/-- a body contains no mutex operation -/
def bodyOk : List Op → Bool
  | [] => true
  | .lock :: _ => false
  | .unlock :: _ => false
  | _ :: r => bodyOk r

/-- the bytes of the message a job sends -/
def Job.msg (j : Job) : Bytes := (writesOf j.body).flatten

/-- the program of a well-locked job: `lock; body; unlock` -/
def jobOps (j : Job) : List Op := .lock :: (j.body ++ [.unlock])

def progOf (js : List Job) : List Op := js.flatMap jobOps

structure St where
  holder : Option Nat
  threads : Nat → List Op
  /-- every chunk handed to `conn.Write`, in the order of the calls -/
  out : List Bytes

def setThread (f : Nat → List Op) (t : Nat) (v : List Op) : Nat → List Op :=
  fun x => if x = t then v else f x

/-- goroutine `t` executes its next primitive, if it has one and it is enabled -/
def step (st : St) (t : Nat) : St :=
  match st.threads t with
  | [] => st
  | .lock :: rest =>
    match st.holder with
    | none => { st with holder := some t, threads := setThread st.threads t rest }
    | some _ => st                                  -- blocked
  | .unlock :: rest =>
    -- sync.Mutex is not owner-checked: any goroutine may unlock
    { st with holder := none, threads := setThread st.threads t rest }
  | .write bs :: rest => { st with out := st.out ++ [bs], threads := setThread st.threads t rest }
  | .flush :: rest => { st with threads := setThread st.threads t rest }

/-- a schedule is any list of goroutine ids (a disabled step stutters) -/
def exec (st : St) : List Nat → St
  | [] => st
  | t :: ts => exec (step st t) ts

def initSt (progs : Nat → List Op) : St := { holder := none, threads := progs, out := [] }

/-! ### network/socket/buffered/conn.go -/

structure BConn where
  bufferSize : Nat
  /-- `m.writer` -/
  buf : Bytes
  /-- everything written to the socket so far -/
  sock : Bytes
  deriving DecidableEq, Repr, Inhabited

/-- `Conn.Flush` (socket writes succeed; `writeFull` loops until everything is out) -/
def BConn.flush (c : BConn) : BConn :=
  if c.buf.length == 0 then c else { c with sock := c.sock ++ c.buf, buf := [] }

/-- the first loop of `Conn.Write`: while `p` does not fit into the free space, write it
    directly (empty buffer) or fill the buffer up and flush.  `fuel` bounds the iterations
    (at most two are ever needed). -/
def BConn.spill : Nat → BConn → Bytes → BConn × Bytes
  | 0, c, p => (c, p)
  | fuel + 1, c, p =>
    if p.length > c.bufferSize - c.buf.length then
      if c.buf.length == 0 then
        ({ c with sock := c.sock ++ p }, [])          -- large write, empty buffer: straight to the socket
      else
        let k := c.bufferSize - c.buf.length
        BConn.spill fuel ({ c with buf := c.buf ++ p.take k }).flush (p.drop k)
    else (c, p)

/-- `Conn.Write(p)`; `limited` is the answer of `m.limit.Limit()` -/
def BConn.write (c : BConn) (p : Bytes) (limited : Bool) : BConn :=
  let (c, p) := BConn.spill (p.length + 2) c p
  if limited then { c with buf := c.buf ++ p }
  else if c.buf.length > 0 then ({ c with buf := c.buf ++ p }).flush
  else { c with sock := c.sock ++ p }

inductive COp
  | write (p : Bytes) (limited : Bool)
  | flush
  deriving DecidableEq, Repr, Inhabited

def BConn.run (c : BConn) : List COp → BConn
  | [] => c
  | .write p l :: r => (c.write p l).run r
  | .flush :: r => c.flush.run r

def payloads : List COp → List Bytes
  | [] => []
  | .write p _ :: r => p :: payloads r
  | .flush :: r => payloads r

/-! ### the write paths of buffered.Conn as a caller reaches them

A caller that holds the connection as an `io.Writer` may probe it for a faster method
(`io.WriteString`, the `writeStringer` probe of av/format/rtsp `Response.Write` / `Header.Write` /
`Request.Write`, `io.Copy`'s `ReaderFrom`, an `io.ByteWriter` probe) and calls that method if the type
has it, `Write` otherwise.  The model describes `Write` and `Flush` only: a probe that finds its
method is NOT described (`none`), which makes a new method of the type an obligation. -/

/-- how a caller hands bytes to the connection -/
inductive Via
  | write | writeString | readFrom | writeByte
  deriving DecidableEq, Repr, Inhabited

/-- the method the probe looks for -/
def Via.method : Via → String
  | .write => "Write" | .writeString => "WriteString" | .readFrom => "ReadFrom" | .writeByte => "WriteByte"

/-- one hand-over of `p` through `v` to a connection whose type has the methods `methods`:
    `Write(p)` when the probe finds nothing (or the caller calls `Write` itself) -/
def BConn.writeVia (methods : List String) (v : Via) (c : BConn) (p : Bytes) (limited : Bool) : Option BConn :=
  if v = .write ∨ !methods.contains v.method then some (c.write p limited) else none

inductive VOp
  | write (v : Via) (p : Bytes) (limited : Bool)
  | flush
  deriving DecidableEq, Repr, Inhabited

def BConn.runVia (methods : List String) (c : BConn) : List VOp → Option BConn
  | [] => some c
  | .write v p l :: r =>
    match c.writeVia methods v p l with
    | some c' => c'.runVia methods r
    | none => none
  | .flush :: r => c.flush.runVia methods r

def vpayloads : List VOp → List Bytes
  | [] => []
  | .write _ p _ :: r => p :: vpayloads r
  | .flush :: r => vpayloads r

/-- the same operations with the probes resolved to `Write` -/
def vplain : List VOp → List COp
  | [] => []
  | .write _ p l :: r => .write p l :: vplain r
  | .flush :: r => .flush :: vplain r

/-- the method names an io.Writer-probing caller looks for -/
def probedMethods : List String := ["WriteString", "ReadFrom", "WriteByte", "WriteRune", "WriteTo"]

/-! ### av/format/rtp/packet.go `Packet.Write` -/

/-- the calls `Packet.Write` makes on its writer: nothing for an unsubscribed channel
    (`ch < 0 || ch > 255`), else the 4-byte prefix and the payload.  `pktChannel` is
    `p.Channel < ChannelCount` already resolved through `channelConfig`. -/
def packetWrites (ch : Int) (data : Bytes) : List Bytes :=
  if ch < 0 ∨ ch > 255 then []
  else [[0x24, UInt8.ofNat ch.toNat, UInt8.ofNat (data.length / 256 % 256), UInt8.ofNat (data.length % 256)], data]

/-- what the WebSocket consumers (`tcpConsumer.Consume` with a wsconn, `wsp.Session.Consume`)
    send for one packet: `Packet.Write` into a fresh buffer, then ONE `Write` of the buffer;
    `skipEmpty` = the buffer is only sent when it is not empty. -/
def wsConsume (skipEmpty : Bool) (ch : Int) (data : Bytes) : List Bytes :=
  let buf := (packetWrites ch data).flatten
  if skipEmpty && buf.isEmpty then [] else [buf]

end IpcHub.Writers
