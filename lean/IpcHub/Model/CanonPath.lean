/-
Model of utils/path.go: CanonicalPath, with a hand-written model of the standard
library's path.Clean for rooted paths (segment stack).  Strings are `List Char`.
Core Lean only.
-/
namespace IpcHub.CanonPath

/-- the character functions of the Go code (strings.ToLower / unicode.IsSpace) are
    parameters; the driver instantiates them with the ASCII functions -/
structure Cfg where
  lower : Char → Char
  isSpace : Char → Bool

/-- strings.TrimLeftFunc -/
def trimLeft (p : Char → Bool) : List Char → List Char
  | [] => []
  | c :: cs => if p c then trimLeft p cs else c :: cs

/-- strings.TrimRightFunc -/
def trimRight (p : Char → Bool) : List Char → List Char
  | [] => []
  | c :: cs =>
    match trimRight p cs with
    | [] => if p c then [] else [c]
    | r :: rs => c :: r :: rs

/-- strings.TrimSpace -/
def trim (p : Char → Bool) (s : List Char) : List Char := trimRight p (trimLeft p s)

/-- strings.Split(s, "/") : always at least one element -/
def splitSlash : List Char → List (List Char)
  | [] => [[]]
  | c :: cs =>
    if c = '/' then [] :: splitSlash cs
    else match splitSlash cs with
      | [] => [[c]]
      | s :: ss => (c :: s) :: ss

/-- a path element that path.Clean keeps -/
def keeps (seg : List Char) : Bool := seg ≠ [] && seg ≠ ['.'] && seg ≠ ['.', '.']

/-- path.Clean on a rooted path, as a stack of kept elements (top = last element):
    empty and "." elements vanish, ".." pops (and vanishes at the root) -/
def cleanStack : List (List Char) → List (List Char) → List (List Char)
  | [], st => st
  | seg :: rest, st =>
    if seg = ['.', '.'] then cleanStack rest st.tail
    else if seg = [] || seg = ['.'] then cleanStack rest st
    else cleanStack rest (seg :: st)

/-- "/" ++ strings.Join(elems, "/") -/
def joinRooted : List (List Char) → List Char
  | [] => ['/']
  | [s] => '/' :: s
  | s :: t :: rest => '/' :: s ++ joinRooted (t :: rest)

/-- path.Clean(p) for p beginning with '/' -/
def cleanRooted (p : List Char) : List Char :=
  joinRooted (cleanStack (splitSlash p) []).reverse

/-- strings.HasPrefix -/
def hasPrefix : List Char → List Char → Bool
  | _, [] => true
  | [], _ :: _ => false
  | a :: as, b :: bs => a = b && hasPrefix as bs

/-- utils.canonicalPath (one pass), branch by branch -/
def canonicalOnce (cfg : Cfg) (p0 : List Char) : List Char :=
  let p := (trim cfg.isSpace p0).map cfg.lower          -- strings.ToLower(strings.TrimSpace(p))
  match p with
  | [] => ['/']                                          -- if p == "" { return "/" }
  | c :: _ =>
    let p := if c ≠ '/' then '/' :: p else p             -- if p[0] != '/' { p = "/" + p }
    let np := cleanRooted p                              -- np := path.Clean(p)
    if p.getLast? = some '/' && np ≠ ['/'] then          -- if p[len(p)-1] == '/' && np != "/"
      if p.length = np.length + 1 && hasPrefix p np then p   -- fast path
      else np ++ ['/']
    else np

/-- the loop of utils.CanonicalPath: `for np != p { p, np = np, canonicalPath(np) }`.
    The Go loop is unbounded; the fuel is a modelling device (every further pass shortens the
    string, so `length + 2` passes are never used up — see `canonLoop_stable`). -/
def canonLoop (cfg : Cfg) : Nat → List Char → List Char → List Char
  | 0, _, np => np
  | f + 1, p, np => if np = p then np else canonLoop cfg f np (canonicalOnce cfg np)

/-- utils.CanonicalPath: `np := canonicalPath(p)`, then the loop -/
def canonicalPath (cfg : Cfg) (p : List Char) : List Char :=
  canonLoop cfg (p.length + 2) p (canonicalOnce cfg p)

/-! ASCII instance -/
def asciiSpace (c : Char) : Bool :=
  c = ' ' || c = '\t' || c = '\n' || c = '\r' || c = Char.ofNat 11 || c = Char.ofNat 12

def asciiLower (c : Char) : Char :=
  if 'A' ≤ c ∧ c ≤ 'Z' then Char.ofNat (c.toNat + 32) else c

def asciiCfg : Cfg := { lower := asciiLower, isSpace := asciiSpace }

end IpcHub.CanonPath
