import IpcHub.Model.Flv
import IpcHub.Gen.FlvFacts
namespace IpcHub.Flv
/-- the behaviour switches of the current source tree (regenerated facts) -/
def genCfg : Cfg :=
  { clampOlder := IpcHub.Gen.writerClampOlder,
    sentinelInit := IpcHub.Gen.writerSentinelInit,
    gateParamSets := IpcHub.Gen.muxGateParamSets,
    stampNow := IpcHub.Gen.cacheStampNow }

/-- the tree as pinned (before the C08 fixes): wrapping rebase, sentinel first-tag test, sequence
    headers built at the first frame of any kind, headers replayed with timestamp 0 without a cached
    GOP -/
def pinnedCfg : Cfg := { clampOlder := false, sentinelInit := true, gateParamSets := false, stampNow := false }

/-- the repaired behaviour -/
def fixedCfg : Cfg := { clampOlder := true, sentinelInit := false, gateParamSets := true, stampNow := true }
end IpcHub.Flv
