/-
Storage model for C10 (av/format/hls/segmentfile.go memorySegmentFile, playlist.go M3u8):
pooled `bytes.Buffer`s (segmentPool / m3u8Pool), readers handed to HTTP clients, and the
interleaving of a client's reads with the generator's roll-over, as a small labelled transition
system.  `copies` is the regenerated fact "get / M3u8 hand out a private copy".
A buffer is its backing array and its length: `Reset` keeps the array, later writes overwrite it
in place (no reallocation while a segment fits the 512 KiB capacity) — which is what makes an
aliasing reader observe foreign bytes.
-/
namespace IpcHub.HlsStore

abbrev Bytes := List UInt8

structure Buf where
  backing : Bytes
  len     : Nat
deriving Repr, BEq, DecidableEq

inductive Reader
  | alias (buf : Nat) (n : Nat)     -- bytes.NewReader(buffer.Bytes()): shares the array
  | priv (b : Bytes)                -- a private copy
deriving Repr, BEq, DecidableEq

structure Store where
  bufs    : List Buf                 -- by buffer id
  pool    : List Nat                 -- sync.Pool, one goroutine: last Put is the next Get
  files   : List (Nat × Nat)         -- open or listed segment (or playlist rendering) ↦ buffer id
  readers : List Reader
deriving Repr, BEq, DecidableEq

def empty : Store := { bufs := [], pool := [], files := [], readers := [] }

inductive Op
  | openSeg (seq : Nat)              -- open(): pool.Get, Reset
  | write (seq : Nat) (b : Bytes)    -- writeFrame → buffer.Write
  | delete (seq : Nat)               -- delete(): pool.Put
  | get (seq : Nat)                  -- Playlist.Segment(seq) / the return value of M3u8
  | read (k : Nat)                   -- the client reads everything from reader k
deriving Repr

def setAt {α} (l : List α) (i : Nat) (v : α) : List α := l.take i ++ (if i < l.length then [v] else []) ++ l.drop (i + 1)

def lookup (fs : List (Nat × Nat)) (seq : Nat) : Option Nat := (fs.find? (·.1 == seq)).map (·.2)

/-- the bytes a reader delivers now -/
def readNow (st : Store) : Reader → Bytes
  | .priv b => b
  | .alias id n => match st.bufs[id]? with
    | some b => b.backing.take n
    | none => []

/-- content of the file of `seq` -/
def content (st : Store) (seq : Nat) : Option Bytes :=
  (lookup st.files seq).bind fun id => st.bufs[id]?.map fun b => b.backing.take b.len

/-- one step; the second component is what a `read` observes -/
def step (copies : Bool) (st : Store) : Op → Store × Option Bytes
  | .openSeg seq =>
    match st.pool with
    | id :: rest =>
      let bufs := match st.bufs[id]? with
        | some b => setAt st.bufs id { b with len := 0 }
        | none => st.bufs
      ({ st with bufs := bufs, pool := rest, files := (seq, id) :: st.files }, none)
    | [] =>
      ({ st with bufs := st.bufs ++ [{ backing := [], len := 0 }], files := (seq, st.bufs.length) :: st.files }, none)
  | .write seq data =>
    match lookup st.files seq with
    | some id =>
      match st.bufs[id]? with
      | some b =>
        let nb : Buf := { backing := b.backing.take b.len ++ data ++ b.backing.drop (b.len + data.length),
                          len := b.len + data.length }
        ({ st with bufs := setAt st.bufs id nb }, none)
      | none => (st, none)
    | none => (st, none)
  | .delete seq =>
    match lookup st.files seq with
    | some id => ({ st with files := st.files.filter (·.1 != seq), pool := id :: st.pool }, none)
    | none => (st, none)
  | .get seq =>
    match lookup st.files seq with
    | some id =>
      match st.bufs[id]? with
      | some b =>
        let r := if copies then Reader.priv (b.backing.take b.len) else Reader.alias id b.len
        ({ st with readers := st.readers ++ [r] }, none)
      | none => (st, none)
    | none => (st, none)
  | .read k =>
    match st.readers[k]? with
    | some r => (st, some (readNow st r))
    | none => (st, none)

def run (copies : Bool) : Store → List Op → Store
  | st, [] => st
  | st, op :: ops => run copies (step copies st op).1 ops

end IpcHub.HlsStore
