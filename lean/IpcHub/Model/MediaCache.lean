/-
Model of media/cache/h264cache.go and hevccache.go: the payload classifier
(`getPalyloadType`, `nalType`), `CachePack`, `PushTo`, `Reset`.  Core Lean only.
The NAL-type constants are parameters (`NalConsts`), instantiated from the regenerated
facts in IpcHub/Model/MediaInst.lean.
-/
namespace IpcHub.Media

/-- an RTP packet as the fan-out sees it: identity, channel, RTP payload (`Packet.Payload()`) -/
structure Pkt where
  uid : Nat
  ch : Nat                 -- 0 video, 1 video control, 2 audio, 3 audio control
  payload : List UInt8
  ts : Nat := 0            -- RTP timestamp (all packets of one access unit carry the same one)
  deriving DecidableEq, Repr

structure NalConsts where
  -- H.264
  sps264 : Nat
  pps264 : Nat
  idr264 : Nat
  aggLo264 : Nat           -- NalStapaInRtp
  aggHi264 : Nat           -- NalMtap24InRtp
  fuLo264 : Nat            -- NalFuAInRtp
  fuHi264 : Nat            -- NalFuBInRtp
  -- H.265
  vps265 : Nat
  sps265 : Nat
  pps265 : Nat
  irapLo265 : Nat          -- NalBlaWLp
  irapHi265 : Nat          -- NalCraNut
  agg265 : Nat             -- NalStapInRtp
  fu265 : Nat              -- NalFuInRtp

structure Flags where
  vps : Bool := false
  sps : Bool := false
  pps : Bool := false
  key : Bool := false
  deriving DecidableEq, Repr

def nalType264 (k : NalConsts) (t : Nat) (f : Flags) : Flags :=
  if t = k.sps264 then { f with sps := true }
  else if t = k.pps264 then { f with pps := true }
  else if t = k.idr264 then { f with key := true }
  else f

def nalType265 (k : NalConsts) (t : Nat) (f : Flags) : Flags :=
  if k.irapLo265 ≤ t ∧ t ≤ k.irapHi265 then { f with key := true }
  else if t = k.vps265 then { f with vps := true }
  else if t = k.sps265 then { f with sps := true }
  else if t = k.pps265 then { f with pps := true }
  else f

/-- The aggregation-packet loop of `getPalyloadType` (both codecs), with its bounds checks: a
    truncated unit ends the scan with the flags collected so far.  The result is an `Option` only
    so that an index out of range (a Go panic) would be representable; with the bounds checks
    present no such index exists.  `fuel` bounds the iterations (each advances `off` by ≥ 3). -/
def aggScan (typeOf : UInt8 → Nat) (upd : Nat → Flags → Flags) (pl : List UInt8) :
    Nat → Nat → Flags → Option Flags
  | 0, _, f => some f
  | fuel + 1, off, f =>
    if off + 2 > pl.length then some f                      -- truncated size field
    else
      match pl[off]?, pl[off + 1]? with
      | some hi, some lo =>
        let nalSize := hi.toNat * 256 + lo.toNat
        if nalSize < 1 then some f
        else if off + 2 ≥ pl.length then some f             -- truncated unit
        else
          match pl[off + 2]? with
          | some h =>
            let f' := upd (typeOf h) f
            let off' := off + 2 + nalSize
            if off' ≥ pl.length then some f' else aggScan typeOf upd pl fuel off' f'
          | none => none
      | _, _ => none

/-- H264Cache.getPalyloadType -/
def classify264 (k : NalConsts) (pl : List UInt8) : Option Flags :=
  if pl.length < 3 then some {}
  else
    match pl with
    | b0 :: b1 :: _ =>
      let t := b0.toNat % 32
      if k.aggLo264 ≤ t ∧ t ≤ k.aggHi264 then
        aggScan (fun h => h.toNat % 32) (nalType264 k) pl pl.length 1 {}
      else if k.fuLo264 ≤ t ∧ t ≤ k.fuHi264 then
        if b1.toNat / 128 % 2 = 1 then some (nalType264 k (b1.toNat % 32) {}) else some {}
      else some (nalType264 k t {})
    | _ => some {}

/-- HevcCache.getPalyloadType -/
def classify265 (k : NalConsts) (pl : List UInt8) : Option Flags :=
  if pl.length < 3 then some {}
  else
    match pl with
    | b0 :: _ :: b2 :: _ =>
      let t := b0.toNat / 2 % 64
      if t = k.agg265 then
        aggScan (fun h => h.toNat / 2 % 64) (nalType265 k) pl pl.length 2 {}
      else if t = k.fu265 then
        if b2.toNat / 128 % 2 = 1 then some (nalType265 k (b2.toNat % 64) {}) else some {}
      else some (nalType265 k t {})
    | _ => some {}

structure Cache where
  hevc : Bool
  cacheGop : Bool
  vps : Option Pkt := none
  sps : Option Pkt := none
  pps : Option Pkt := none
  gop : List Pkt := []
  /-- `some ts`: the previous video slice packet was a key-frame slice with RTP timestamp `ts`
      (keyRun / keyTimestamp of the Go caches): a further key slice with the same timestamp
      continues that key frame instead of starting a new one -/
  keyRun : Option Nat := none
  deriving DecidableEq, Repr

/-- H264Cache.keyFragment: a non-start FU-A/FU-B fragment of an IDR slice -/
def keyFragment264 (k : NalConsts) (pl : List UInt8) : Bool :=
  if pl.length < 3 then false
  else
    match pl with
    | b0 :: b1 :: _ =>
      let t := b0.toNat % 32
      decide (k.fuLo264 ≤ t ∧ t ≤ k.fuHi264) && decide (b1.toNat / 128 % 2 = 0) && decide (b1.toNat % 32 = k.idr264)
    | _ => false

/-- HevcCache.keyFragment: a non-start FU fragment of an IRAP slice -/
def keyFragment265 (k : NalConsts) (pl : List UInt8) : Bool :=
  if pl.length < 3 then false
  else
    match pl with
    | b0 :: _ :: b2 :: _ =>
      let t := b2.toNat % 64
      decide (b0.toNat / 2 % 64 = k.fu265) && decide (b2.toNat / 128 % 2 = 0) && decide (k.irapLo265 ≤ t ∧ t ≤ k.irapHi265)
    | _ => false

def Cache.keyFragment (k : NalConsts) (c : Cache) (pl : List UInt8) : Bool :=
  if c.hevc then keyFragment265 k pl else keyFragment264 k pl

def Cache.classify (k : NalConsts) (c : Cache) (pl : List UInt8) : Option Flags :=
  if c.hevc then classify265 k pl else classify264 k pl

/-- CachePack: new cache and the key-frame verdict handed to `SendToAll`; `none` = panic -/
def Cache.pack (k : NalConsts) (c : Cache) (p : Pkt) : Option (Cache × Bool) :=
  if p.ch ≠ 0 then some (c, false)
  else
    match c.classify k p.payload with
    | none => none
    | some f =>
      if c.hevc && f.vps then some ({ c with vps := some p }, false)
      else if f.sps then some ({ c with sps := some p }, false)
      else if f.pps then some ({ c with pps := some p }, false)
      else
        -- a key slice that continues the key frame of the previous video packet (same RTP timestamp)
        -- is an ordinary packet of the GOP: it neither restarts the cache nor counts as a key-frame start
        -- (a later FU fragment of a key slice, same timestamp, does not end the run)
        let key := f.key && c.keyRun != some p.ts
        let c := { c with keyRun := if f.key then some p.ts
                                    else if c.keyRun == some p.ts && c.keyFragment k p.payload then c.keyRun else none }
        if c.cacheGop then
          if key then some ({ c with gop := [p] }, key)
          else if c.gop.length > 0 then some ({ c with gop := c.gop ++ [p] }, key)
          else some (c, key)
        else some (c, key)

/-- PushTo: what a joining consumer's queue is prefilled with -/
def Cache.pushTo (c : Cache) : List Pkt :=
  (if c.hevc then c.vps.toList else []) ++ c.sps.toList ++ c.pps.toList ++ (if c.cacheGop then c.gop else [])

def Cache.reset (c : Cache) : Cache := { c with vps := none, sps := none, pps := none, gop := [], keyRun := none }

end IpcHub.Media
