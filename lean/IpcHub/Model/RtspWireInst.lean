/- The RTSP wire codec of the current source tree: `Model/RtspWire.lean` instantiated with
   the regenerated facts of `Gen/RtspWireFacts.lean` (C14). -/
import IpcHub.Model.RtspWire
import IpcHub.Model.WsTransport
import IpcHub.Gen.RtspWireFacts
namespace IpcHub.RtspWire

def genCfg : Cfg :=
  { maxLine := IpcHub.Gen.lineLimit
    maxBody := IpcHub.Gen.bodyLimit
    bodyErrReturned := IpcHub.Gen.bodyErrReturned
    unknownChanPacket := IpcHub.Gen.unknownChannelReturnsPacket
    badHeaderPacket := IpcHub.Gen.badHeaderReturnsPacket
    rtpRecover := IpcHub.Gen.rtpUnmarshalRecovers
    fieldNames := IpcHub.Gen.canonicalFieldNames.map ascii }

/-- the limits of the current tree (0 when the source has no such guard) -/
def genMaxLine : Nat := genCfg.maxLine.getD 0
def genMaxBody : Nat := genCfg.maxBody.getD 0

def genStatusTable : List (Nat × List UInt8) := IpcHub.Gen.statusTable.map (fun p => (p.1, ascii p.2))

def genMethods : List (List UInt8) := IpcHub.Gen.methodConstants.map ascii

/-- the WebSocket transport of the current tree (network/websocket/websocket.go `Read`), through
    which an RTSP-over-WebSocket session reads -/
def genWsCfg : IpcHub.WsTransport.Cfg := { dropOnlyAtEOF := IpcHub.Gen.wsReaderDroppedOnlyAtEOF }

end IpcHub.RtspWire
