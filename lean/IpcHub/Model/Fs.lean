/-
A small model of the file system as far as `utils.EncodeJSONFile` (utils/io.go) uses it, with
two kinds of crash (C18):

 * process crash (kill -9, panic, power stays on): the operating system keeps every completed
   system call; a `write` in progress may have put out any prefix of its bytes;
 * power loss: of every name, any binding it has had since the start may be the one on stable
   storage (no directory fsync is modelled); of every inode, the content is exactly what was
   written if it was fsync'ed after the last change, and *unspecified* otherwise (old content,
   empty, a prefix, a mixture — the adversary chooses).

The program of EncodeJSONFile is a list of `FsOp`s regenerated from the source
(Gen/TableFacts.lean).  Core Lean only.
-/
namespace IpcHub.Fs

abbrev Bytes := List UInt8

/-- the two names EncodeJSONFile touches: the table file and its temporary sibling -/
inductive FName where
  | target | temp
  deriving DecidableEq, Repr

inductive FsOp where
  | openTrunc (f : FName)          -- os.OpenFile(name, O_CREATE|O_TRUNC|O_WRONLY, perm)
  | write (f : FName)              -- f.Write(formatted.Bytes())
  | sync (f : FName)               -- f.Sync()
  | close (f : FName)              -- f.Close()
  | rename (src dst : FName)       -- os.Rename(src, dst)
  | marshal                        -- json.Marshal / json.Indent (no file-system effect)
  | hook (name : String)           -- verifIOPoint(name, …): a named crash point (verif builds)
  deriving DecidableEq, Repr

structure Inode where
  /-- what a reader sees now -/
  vol : Bytes
  /-- everything in `vol` has reached stable storage -/
  synced : Bool
  deriving DecidableEq, Repr

structure Fs where
  inodes : List Inode
  target : Option Nat
  temp : Option Nat
  /-- every binding the name `target` has had since the start: any of them may be the durable one -/
  durTarget : List (Option Nat)
  deriving Repr

/-- the file system before a flush: the table file holds `old` (durably), or does not exist -/
def Fs.init (old : Option Bytes) : Fs :=
  match old with
  | some b => { inodes := [{ vol := b, synced := true }], target := some 0, temp := none, durTarget := [some 0] }
  | none => { inodes := [], target := none, temp := none, durTarget := [none] }

def Fs.name (fs : Fs) : FName → Option Nat
  | .target => fs.target
  | .temp => fs.temp

def Fs.bind (fs : Fs) (f : FName) (i : Option Nat) : Fs :=
  match f with
  | .target => { fs with target := i, durTarget := fs.durTarget ++ [i] }
  | .temp => { fs with temp := i }

def modifyAt (l : List Inode) (i : Nat) (g : Inode → Inode) : List Inode :=
  match l, i with
  | [], _ => []
  | x :: xs, 0 => g x :: xs
  | x :: xs, n + 1 => x :: modifyAt xs n g

/-- one completed operation; `data` is what `write` writes -/
def exec (data : Bytes) (fs : Fs) : FsOp → Fs
  | .openTrunc f =>
    match fs.name f with
    | some i => { fs with inodes := modifyAt fs.inodes i (fun _ => { vol := [], synced := false }) }
    | none => Fs.bind { fs with inodes := fs.inodes ++ [{ vol := [], synced := false }] } f (some fs.inodes.length)
  | .write f =>
    match fs.name f with
    | some i => { fs with inodes := modifyAt fs.inodes i (fun n => { vol := n.vol ++ data, synced := false }) }
    | none => fs
  | .sync f =>
    match fs.name f with
    | some i => { fs with inodes := modifyAt fs.inodes i (fun n => { n with synced := true }) }
    | none => fs
  | .rename src dst => (fs.bind dst (fs.name src)).bind src none
  | .close _ => fs
  | .marshal => fs
  | .hook _ => fs

/-- the first `k` operations completed -/
def runN (data : Bytes) (fs : Fs) : List FsOp → Nat → Fs
  | [], _ => fs
  | _, 0 => fs
  | op :: rest, k + 1 => runN data (exec data fs op) rest k

/-- the state in which the process dies: `k` operations completed; if the next one is a write
    and `part = some n`, that write had put out its first `n` bytes -/
def crashState (data : Bytes) (fs0 : Fs) (prog : List FsOp) (k : Nat) (part : Option Nat) : Fs :=
  let fs := runN data fs0 prog k
  match part, prog[k]? with
  | some n, some (.write f) => exec (data.take n) fs (.write f)
  | _, _ => fs

/-- what a restarted server reads from the table file after a *process* crash in state `fs`
    (`none` = no such file) -/
def processOutcome (fs : Fs) : Option Bytes :=
  match fs.target with
  | none => none
  | some i => (fs.inodes[i]?).map (·.vol)

/-- `c` is a possible content of the table file after a *power loss* in state `fs` -/
def PowerLossOutcome (fs : Fs) (c : Option Bytes) : Prop :=
  ∃ b ∈ fs.durTarget,
    match b with
    | none => c = none
    | some i => ∃ ino, fs.inodes[i]? = some ino ∧ (ino.synced = true → c = some ino.vol)

/-- the operations with a file-system effect (hooks, marshalling and closes have none) -/
def isEffect : FsOp → Bool
  | .openTrunc _ | .write _ | .sync _ | .rename _ _ => true
  | _ => false

def essential (prog : List FsOp) : List FsOp := prog.filter isEffect

/-- the named crash points, in program order -/
def hookNames : List FsOp → List String
  | [] => []
  | .hook n :: rest => n :: hookNames rest
  | _ :: rest => hookNames rest

def isHook : FsOp → Bool
  | .hook _ => true
  | _ => false

/-- on the list of effects and crash points only: every effect is directly followed by a crash
    point, and a write is also directly preceded by one (where a write in progress is cut) -/
def coveredAux : List FsOp → Bool
  | [] => true
  | [op] => !isEffect op
  | op :: next :: rest =>
    (if isEffect op then isHook next else true) &&
    (match next with
     | .write _ => isHook op
     | _ => true) &&
    coveredAux (next :: rest)

/-- "every crash point between the file-system operations of a flush": the verif hooks of the
    program leave no step of it without a crash point behind it -/
def hooksCoverSteps (prog : List FsOp) : Bool :=
  coveredAux (prog.filter (fun o => isEffect o || isHook o))

/-- index just after the named hook: "the process dies at this crash point" -/
def hookIndex (prog : List FsOp) (name : String) : Option Nat :=
  match prog.findIdx? (· = .hook name) with
  | some i => some (i + 1)
  | none => none

end IpcHub.Fs
