/-
Model of av/codec/aac/asc.go (AudioSpecificConfig.Decode, getObjectType, getSampleRate,
parseConfigALS), av/codec/aac/const.go (SampleRates, aacAudioChannels) and
av/codec/aac/shortcut.go (MetadataIsReady) — C15.  Core Lean only.
-/
import IpcHub.Model.Bits
namespace IpcHub.Asc
open IpcHub.Bits

/-- source facts (regenerated: Gen/CodecFacts.lean) -/
structure Cfg where
  /-- the elements of the `SampleRates = [16]int{…}` literal (the rest of the array is zero) -/
  sampleRates : List Nat
  /-- aacAudioChannels = [8]uint8{…} -/
  channels : List Nat
  aotNull : Nat
  aotAacLc : Nat
  aotSbr : Nat
  aotErBsac : Nat
  aotPs : Nat
  aotEscape : Nat
  aotAls : Nat
  /-- the AOT_PS guard of Decode is `!(Peek(3)&3 != 0 && Peek(9)&0x3F == 0)` (FFmpeg's MP3onMP4 draft
      check; false: the pinned tree's `Peek(3)&3 == 0 && Peek(9)&0x3F == 0`) -/
  psGuardFFmpeg : Bool
deriving Repr

structure Asc where
  objectType : Nat := 0
  samplingIndex : Nat := 0
  sampleRate : Nat := 0
  channelConfig : Nat := 0
  sbr : Int := 0
  extObjectType : Nat := 0
  extSamplingIndex : Nat := 0
  extSampleRate : Nat := 0
  extChannelConfig : Nat := 0
  channels : Nat := 0
  ps : Int := 0
deriving DecidableEq, Repr

def errInvalidData : Fault := .err 6

/-- getObjectType -/
def getObjectType (cfg : Cfg) : P Nat := do
  let t ← readU 5 8
  if t = cfg.aotEscape then
    let e ← readU 6 8
    pure ((e + 32) % 256)
  else pure t

/-- `SampleRates[index]` on the 16-element array -/
def sampleRateAt (cfg : Cfg) (idx : Nat) : P Nat := fun s =>
  match (cfg.sampleRates ++ List.replicate (16 - cfg.sampleRates.length) 0)[idx]? with
  | some v => .ok (v, s)
  | none => .error .panic

/-- getSampleRate: (index, rate) -/
def getSampleRate (cfg : Cfg) : P (Nat × Nat) := do
  let idx ← readU 4 8
  if idx = 0xf then
    let r ← readU 24 64
    pure (idx, r)
  else
    let r ← sampleRateAt cfg idx
    pure (idx, r)

/-- the guard `ObjectType == AOT_PS && …` (short-circuit: the peeks only happen when reached) -/
def psGuard (cfg : Cfg) : P Bool := do
  let a ← peek 3
  if cfg.psGuardFFmpeg then
    if a % 4 ≠ 0 then
      let b ← peek 9
      pure (!(b % 64 = 0))
    else pure true
  else
    if a % 4 = 0 then
      let b ← peek 9
      pure (b % 64 = 0)
    else pure false

/-- parseConfigALS: (SampleRate, Channels) -/
def parseConfigALS : P (Nat × Nat) := do
  let left ← bitsLeft
  if left < 112 then fail errInvalidData else
  let magic ← readU 32 32
  if magic ≠ 0x414C5300 then fail errInvalidData else
  let sr ← readU 32 64
  if sr = 0 then fail errInvalidData else
  skip 32
  let ch ← readU 16 64
  pure (sr, (ch + 1) % 256)

/-- `if int(ChannelConfig) < len(aacAudioChannels) { Channels = aacAudioChannels[ChannelConfig] }` (else it stays 0) -/
def channelsOf (cfg : Cfg) (cc : Nat) : Nat :=
  match cfg.channels[cc]? with
  | some v => v
  | none => 0

/-- what the sync-extension scan can change: ExtObjectType, Sbr, ExtSamplingIndex, ExtSampleRate, Ps -/
structure Ext where
  extObjectType : Nat
  sbr : Int
  extSamplingIndex : Nat
  extSampleRate : Nat
  ps : Int
deriving DecidableEq, Repr

/-- the body of `if r.Peek(11) == 0x2b7 { … break }` after the `Skip(11)` -/
def syncBody (cfg : Cfg) (sampleRate : Nat) (e : Ext) : P Ext := do
  let eo ← getObjectType cfg
  let e1 ← (if eo = cfg.aotSbr then do
      let sbr ← readBit
      if sbr = 1 then
        let (i, r) ← getSampleRate cfg
        pure { e with extObjectType := eo, sbr := if r = sampleRate then -1 else 1, extSamplingIndex := i, extSampleRate := r }
      else pure { e with extObjectType := eo, sbr := Int.ofNat sbr }
    else pure { e with extObjectType := eo })
  let left ← bitsLeft
  if left > 11 then
    let v ← readU 11 32
    if v = 0x548 then
      let p ← readBit
      pure { e1 with ps := Int.ofNat p }
    else pure e1
  else pure e1

/-- `for r.BitsLeft() > 15 { if r.Peek(11) == 0x2b7 { …; break } else { r.Skip(1) } }` -/
def syncScan (cfg : Cfg) (sampleRate : Nat) (e : Ext) : List Bool → Except Fault (Ext × List Bool)
  | [] => .ok (e, [])
  | b :: rest =>
    if (b :: rest).length > 15 then
      if valOf ((b :: rest).take 11) = 0x2b7 then syncBody cfg sampleRate e ((b :: rest).drop 11)
      else syncScan cfg sampleRate e rest
    else .ok (e, b :: rest)

/-- everything AudioSpecificConfig.Decode does with the reader -/
def ascBits (cfg : Cfg) : P Asc := do
  let ot ← getObjectType cfg
  let (si, sr) ← getSampleRate cfg
  let cc ← readU 4 8
  let chans := channelsOf cfg cc
  let hier ← (if ot = cfg.aotSbr then pure true else if ot = cfg.aotPs then psGuard cfg else pure false)
  -- hierarchical signalling, or not
  let (ot2, e, ecc) ← (if hier then do
      let (ei, er) ← getSampleRate cfg
      let ot2 ← getObjectType cfg
      let ecc ← (if ot2 = cfg.aotErBsac then readU 4 8 else pure 0)
      pure (ot2, ({ extObjectType := cfg.aotSbr, sbr := 1, extSamplingIndex := ei, extSampleRate := er,
                    ps := if ot = cfg.aotPs then 1 else -1 } : Ext), ecc)
    else pure (ot, ({ extObjectType := cfg.aotNull, sbr := -1, extSamplingIndex := 0, extSampleRate := 0, ps := -1 } : Ext), 0))
  let (sr2, cc2, chans2) ← (if ot2 = cfg.aotAls then do
      skip 5
      let m ← peek 24
      (if m % 2 ^ 32 ≠ 0x00414C53 then skip 24 else pure ())
      let (sr', ch') ← parseConfigALS
      pure (sr', 0, ch')
    else pure (sr, cc, chans))
  let e2 ← (if e.extObjectType ≠ cfg.aotSbr then syncScan cfg sr2 e else pure e)
  let ps1 : Int := if e2.sbr = 0 then 0 else e2.ps
  let ps2 : Int := if (ps1 = -1 ∧ ot2 ≠ cfg.aotAacLc) ∨ chans2 / 2 ≠ 0 then 0 else ps1
  pure { objectType := ot2, samplingIndex := si, sampleRate := sr2, channelConfig := cc2, sbr := e2.sbr,
         extObjectType := e2.extObjectType, extSamplingIndex := e2.extSamplingIndex, extSampleRate := e2.extSampleRate,
         extChannelConfig := ecc, channels := chans2, ps := ps2 }

/-- AudioSpecificConfig.Decode(config) on a fresh struct -/
def decode (cfg : Cfg) (config : List UInt8) : Except Fault Asc :=
  match ascBits cfg (bitsOfBytes config) with
  | .ok (a, _) => .ok a
  | .error e => .error e

/-- aac.MetadataIsReady for am.SampleRate == 0: `none` = false, else (Channels, SampleRate) -/
def metadataIsReady (cfg : Cfg) (config : List UInt8) : Option (Nat × Nat) :=
  if config.isEmpty then none
  else match decode cfg config with
    | .ok a => some (a.channels, if a.extSampleRate > 0 then a.extSampleRate else a.sampleRate)
    | .error _ => none

end IpcHub.Asc
