import IpcHub.Model.Route
import IpcHub.Gen.RouteFacts
namespace IpcHub.Route
/-- the model of route.Match / CanonicalPath for the current source tree: the character
    functions and `url.Parse` stay parameters, the three source facts are the regenerated ones -/
def genCfg (lower : Char → Char) (isSpace : Char → Bool) (urlOk : List Char → Bool) : Cfg :=
  { canon := { lower := lower, isSpace := isSpace, loops := IpcHub.Gen.canonLoops }
    urlOk := urlOk
    urlGuard := IpcHub.Gen.matchUrlGuard
    copies := IpcHub.Gen.matchCopies }
end IpcHub.Route
