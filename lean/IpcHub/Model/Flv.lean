/-
Executable model of the FLV output path of ipchub, mirroring the Go code branch by branch:

  av/format/flv/flv.go            NewWriter, writeTagSize, Writer.WriteFlvTag
  av/format/flv/tag.go            writeTag
  av/format/flv/videodata.go      VideoData.Marshal, AVCDecoderConfigurationRecord (New…, Marshal),
                                  HEVCDecoderConfigurationRecord (New…, init, applyPLT, Marshal)
  av/format/flv/audiodata.go      AudioData.Marshal
  av/format/flv/h264_packetizer.go, h265_packetizer.go, aac_packetizer.go
  av/format/flv/scriptdata.go     ScriptData.Marshal
  av/format/amf/{any,object,primitive}.go   WriteAny (string/bool/number cases), WriteString,
                                  WriteLongString, WriteBool, WriteNumber, WriteEcmaArray, writeUtf8
  av/format/flv/muxer.go          NewMuxer, Muxer.process, muxMetadataTag

`[]byte` is `List UInt8`; Go `uint32` values are `UInt32`; lengths are `Nat` and are truncated
exactly where the Go code converts them (`uint16(len(..))`, `uint32(len(..))`).  An index
expression that panics in Go is an explicit `panic` outcome.  Core Lean only.
-/
import IpcHub.Model.FlvTypes
namespace IpcHub.Flv

/-- Behaviour switches of the source tree, regenerated on every run (Gen/FlvFacts.lean). -/
structure Cfg where
  /-- `Writer.WriteFlvTag`: a tag older than the first one written (signed 32-bit difference
      negative) is written with timestamp 0 instead of the wrapped unsigned difference. -/
  clampOlder : Bool
  /-- `Writer.WriteFlvTag` recognises "no tag written yet" by the sentinel value
      `0xffffffff` of `timestampDelta` (true) or by a separate flag (false). -/
  sentinelInit : Bool
  /-- `Muxer.process` packetises the sequence headers only once the video parameter sets are
      usable (`videoMetaReady`), and drops every frame before that. -/
  gateParamSets : Bool
  /-- `FlvCache.PushTo` (media/cache/flvcache.go) stamps the replayed headers with the stream's
      current time when no GOP is cached (`false`: with 0, the behaviour before 75c064c). -/
  stampNow : Bool
  deriving Repr, DecidableEq

/-! ## constants (`c08_source_facts` proves that the constants regenerated from the source equal these) -/
def tagTypeAudio : UInt8 := 8
def tagTypeVideo : UInt8 := 9
def tagTypeScript : UInt8 := 18
def frameTypeKey : UInt8 := 1
def frameTypeInter : UInt8 := 2
def codecAVC : UInt8 := 7
def codecHEVC : UInt8 := 12
def pktSeqHeader : UInt8 := 0
def pktNalu : UInt8 := 1
def soundFormatAAC : UInt8 := 10
def aacSeqHeader : UInt8 := 0
def aacRaw : UInt8 := 1
def typeFlagsVideo : UInt8 := 4
def typeFlagsAudio : UInt8 := 1
def uninitializedDelta : UInt32 := 0xffffffff

/-! ## tag.go -/

/-- `flv.Tag` (the fields `writeTag` reads; `DataSize` is ignored by the writer) -/
structure Tag where
  filter : UInt8 := 0
  tagType : UInt8
  timestamp : UInt32
  streamID : UInt32 := 0
  data : Bytes
  deriving Repr, DecidableEq

/-- `writeTag`: the 11 header bytes.  The Go code fills a 12-byte array: `PutUint32(h[0:],
    uint32(len(Data)))` then overwrites `h[0]` with the type byte (so the low three length
    bytes survive); `PutUint32(h[4:], ts<<8 | ts>>24)` = ts[23..0] then ts[31..24];
    `PutUint32(h[8:], StreamID<<8)` of which `h[8..10]` are written. -/
def tagHeader (t : Tag) (delta : UInt32) : Bytes :=
  let ts := (t.timestamp - delta).toNat
  [((t.filter &&& 1) <<< 5) ||| (t.tagType &&& 0x1f)] ++
  be24 t.data.length ++
  be24 ts ++ [b8 (ts / 16777216)] ++
  be24 t.streamID.toNat

/-! ## flv.go -/

/-- `flvHeaderTemplate` with `TypeFlags` set -/
def flvHeaderBytes (typeFlags : UInt8) : Bytes :=
  [0x46, 0x4c, 0x56, 0x01, typeFlags &&& (typeFlagsVideo ||| typeFlagsAudio), 0, 0, 0, 9]

/-- `flv.Writer` -/
structure Writer where
  delta : UInt32 := uninitializedDelta
  started : Bool := false
  deriving Repr, DecidableEq

/-- `NewWriter`: `none` is the error "TypeFlags not include any streams"; otherwise the writer
    and the bytes written (header + PreviousTagSize0). -/
def newWriter (typeFlags : UInt8) : Option (Writer × Bytes) :=
  if typeFlags &&& 0x05 = 0 then none
  else some ({}, flvHeaderBytes typeFlags ++ be32 0)

/-- is this the first tag of the writer? -/
def Writer.isFirst (cfg : Cfg) (w : Writer) : Bool :=
  if cfg.sentinelInit then w.delta == uninitializedDelta else !w.started

/-- `Writer.WriteFlvTag`, first statement: the first tag's timestamp becomes `timestampDelta` -/
def Writer.next (cfg : Cfg) (w : Writer) (t : Tag) : Writer :=
  if w.isFirst cfg then { delta := t.timestamp, started := true } else w

/-- `Writer.WriteFlvTag`, second statement: the rebase value handed to `writeTag` — the recorded
    delta, or (clamp) the tag's own timestamp when the signed 32-bit difference is negative -/
def Writer.rebase (cfg : Cfg) (w1 : Writer) (t : Tag) : UInt32 :=
  if cfg.clampOlder && decide ((t.timestamp - w1.delta).toNat ≥ 2147483648) then t.timestamp else w1.delta

/-- `Writer.WriteFlvTag`: new writer state and the bytes written (tag + PreviousTagSize) -/
def writeFlvTag (cfg : Cfg) (w : Writer) (t : Tag) : Writer × Bytes :=
  let w1 := w.next cfg t
  (w1, tagHeader t (w1.rebase cfg t) ++ t.data ++ be32 (11 + t.data.length))

/-- a sequence of `WriteFlvTag` calls -/
def writeTags (cfg : Cfg) : Writer → List Tag → Bytes
  | _, [] => []
  | w, t :: ts => (writeFlvTag cfg w t).2 ++ writeTags cfg (writeFlvTag cfg w t).1 ts

/-- everything one client receives: `NewWriter(w, typeFlags)` then one `WriteFlvTag` per tag -/
def clientBytes (cfg : Cfg) (typeFlags : UInt8) (tags : List Tag) : Option Bytes :=
  match newWriter typeFlags with
  | none => none
  | some (w, hdr) => some (hdr ++ writeTags cfg w tags)

/-! ## videodata.go -/

/-- `VideoData.Marshal` -/
def videoDataBytes (frameType codecID packetType : UInt8) (cts : UInt32) (body : Bytes) : Bytes :=
  let b0 := (frameType <<< 4) ||| (codecID &&& 0x0f)
  if codecID = codecAVC ∨ codecID = codecHEVC then
    [b0, packetType] ++ be24 cts.toNat ++
      (if packetType = pktNalu then be32 body.length ++ body else body)
  else b0 :: body

inductive Fault where
  | panic
  deriving Repr, DecidableEq

/-- `NewAVCDecoderConfigurationRecord(sps, pps)` + `Marshal`: `sps[1]`, `sps[2]`, `sps[3]` panic
    (index out of range) for an SPS shorter than 4 bytes. -/
def avcRecord (sps pps : Bytes) : Except Fault Bytes :=
  match sps with
  | _ :: p :: c :: l :: _ =>
    .ok ([1, p, c, l, 0xff, 0xe1] ++ be16 sps.length ++ sps ++ [1] ++ be16 pps.length ++ pps)
  | _ => .error .panic

/-- `hevc.H265RawProfileTierLevel` (the fields `applyPLT` reads) -/
structure HevcPtl where
  space : UInt8
  tier : UInt8
  idc : UInt8
  compat : UInt32
  constraint : UInt64
  level : UInt8
  deriving Repr, DecidableEq

/-- what `init` reads of `hevc.H265RawVPS.Decode(vps)` -/
structure HevcVpsInfo where
  maxSubLayersMinus1 : UInt8
  ptl : HevcPtl
  deriving Repr, DecidableEq

/-- what `init` reads of `hevc.H265RawSPS.Decode(sps)` -/
structure HevcSpsInfo where
  maxSubLayersMinus1 : UInt8
  nesting : UInt8
  ptl : HevcPtl
  chroma : UInt8
  lumaM8 : UInt8
  chromaM8 : UInt8
  deriving Repr, DecidableEq

/-- `HEVCDecoderConfigurationRecord` (the fields `Marshal` reads) -/
structure HevcRecord where
  space : UInt8 := 0
  tier : UInt8 := 0
  idc : UInt8 := 0
  compat : UInt32 := 0xffffffff
  constraint : UInt64 := 0xffffffffffff
  level : UInt8 := 0
  lengthSizeMinusOne : UInt8 := 3
  maxSubLayers : UInt8 := 0
  nesting : UInt8 := 0
  chroma : UInt8 := 0
  lumaM8 : UInt8 := 0
  chromaM8 : UInt8 := 0
  deriving Repr, DecidableEq

/-- `applyPLT`, field by field: the profile space is overwritten; a higher tier takes the tier and
    its level, otherwise a higher level is taken; a higher profile idc is taken; the compatibility
    and constraint flags are and-ed -/
def applyPLT (r : HevcRecord) (p : HevcPtl) : HevcRecord :=
  { r with
    space := p.space
    tier := if p.tier > r.tier then p.tier else r.tier
    level := if p.tier > r.tier then p.level else if p.level > r.level then p.level else r.level
    idc := if p.idc > r.idc then p.idc else r.idc
    compat := r.compat &&& p.compat
    constraint := r.constraint &&& p.constraint }

/-- `if x_max_sub_layers_minus1+1 > record.MaxSubLayers { record.MaxSubLayers = … }` (uint8 arithmetic) -/
def raiseSubLayers (r : HevcRecord) (maxSubLayersMinus1 : UInt8) : HevcRecord :=
  if maxSubLayersMinus1 + 1 > r.maxSubLayers then { r with maxSubLayers := maxSubLayersMinus1 + 1 } else r

/-- `NewHEVCDecoderConfigurationRecord` + `init`: `none` = the decoder returned an error (init
    returns early and the error is ignored by the constructor) -/
def hevcInit (vps : Option HevcVpsInfo) (sps : Option HevcSpsInfo) : HevcRecord :=
  match vps with
  | none => {}
  | some v =>
    let r1 := applyPLT (raiseSubLayers {} v.maxSubLayersMinus1) v.ptl
    match sps with
    | none => r1
    | some s =>
      let r2 := applyPLT { raiseSubLayers r1 s.maxSubLayersMinus1 with nesting := s.nesting } s.ptl
      { r2 with chroma := s.chroma, lumaM8 := s.lumaM8, chromaM8 := s.chromaM8 }

/-- one parameter-set array of `HEVCDecoderConfigurationRecord.Marshal` -/
def hevcArray (nalType : UInt8) (ps : Bytes) : Bytes :=
  [nalType] ++ be16 1 ++ be16 ps.length ++ ps

/-- `HEVCDecoderConfigurationRecord.Marshal` -/
def hevcRecordBytes (r : HevcRecord) (vps sps pps : Bytes) : Bytes :=
  ([1, (r.space <<< 6) ||| (r.tier <<< 5) ||| r.idc] : Bytes) ++
  be32 r.compat.toNat ++
  be32 (r.constraint >>> 16).toNat ++ be16 r.constraint.toNat ++
  ([r.level, 0xf0, 0x00, 0xfc, r.chroma ||| 0xfc, r.lumaM8 ||| 0xf8, r.chromaM8 ||| 0xf8, 0, 0,
   (r.maxSubLayers <<< 3) ||| (r.nesting <<< 2) ||| r.lengthSizeMinusOne, 3] : Bytes) ++
  hevcArray 32 vps ++ hevcArray 33 sps ++ hevcArray 34 pps

/-! ## audiodata.go -/

/-- `AudioData.Marshal` -/
def audioDataBytes (format rate size type packetType : UInt8) (body : Bytes) : Bytes :=
  let b0 := (format <<< 4) ||| ((rate &&& 3) <<< 2) ||| ((size &&& 1) <<< 1) ||| (type &&& 1)
  if format = soundFormatAAC then b0 :: packetType :: body else b0 :: body

/-! ## amf -/

/-- the AMF0 values the muxer hands to `amf.WriteAny`; a number is its IEEE-754 bit pattern -/
inductive AmfVal where
  | num (bits : UInt64)
  | bool (b : Bool)
  | str (s : Bytes)
  deriving Repr, DecidableEq

/-- `writeUtf8(w, s, 2)` -/
def amfUtf8 (s : Bytes) : Bytes := be16 s.length ++ s

/-- `WriteAny` for `string` (short → `WriteString`, longer than 65535 → `WriteLongString`),
    `bool` (`WriteBool`), numeric types (`WriteNumber(float64(v))`) -/
def amfWriteAny : AmfVal → Bytes
  | .num bits => 0x00 :: be64 bits.toNat
  | .bool b => [0x01, if b then 1 else 0]
  | .str s => if s.length > 65535 then 0x0C :: (be32 s.length ++ s) else 0x02 :: amfUtf8 s

def amfProps : List (Bytes × AmfVal) → Bytes
  | [] => []
  | (n, v) :: ps => amfUtf8 n ++ amfWriteAny v ++ amfProps ps

/-- `WriteEcmaArray` -/
def amfWriteEcma (props : List (Bytes × AmfVal)) : Bytes :=
  [0x08] ++ be32 props.length ++ amfProps props ++ [0x00, 0x00, 0x09]

/-- `ScriptData.Marshal` with an `amf.EcmaArray` value: `WriteString(name)` then `WriteAny(value)` -/
def scriptDataBytes (name : Bytes) (props : List (Bytes × AmfVal)) : Bytes :=
  0x02 :: amfUtf8 name ++ amfWriteEcma props

/-- IEEE-754 binary64 bit pattern of `float64(i)` for a Go integer, exact for |i| < 2^53
    (the muxer converts width, height, sample rate, sample size and the codec ids). -/
def f64OfNat (n : Nat) : Nat :=
  if n = 0 then 0
  else
    let e := n.log2
    if e ≤ 52 then (1023 + e) * 4503599627370496 + (n - 2 ^ e) * 2 ^ (52 - e)
    else (1023 + e) * 4503599627370496 + (n - 2 ^ e) / 2 ^ (e - 52)   -- truncation; not exact beyond 2^53

def f64OfInt (i : Int) : UInt64 :=
  UInt64.ofNat (if i < 0 then 9223372036854775808 + f64OfNat i.natAbs else f64OfNat i.toNat)

/-! ## stream metadata -/

/-- `codec.VideoMeta` as the FLV muxer reads it.  `frameRate`/`dataRate` are float64 bit
    patterns.  `hevcVps`/`hevcSps` are the results of `hevc.H265RawVPS/SPS.Decode` on
    `vps`/`sps` (property C15's subject; inputs here). -/
structure VideoMeta where
  codec : VCodec
  width : Int
  height : Int
  frameRate : UInt64
  dataRate : UInt64
  sps : Bytes
  pps : Bytes
  vps : Bytes
  hevcVps : Option HevcVpsInfo
  hevcSps : Option HevcSpsInfo
  /-- H.264: does `h264.RawSPS.Decode(sps)` succeed?  (an input, like `hevcSps` for H.265, whose
      `some` says the same of `hevc.H265RawSPS.Decode`) -/
  avcSpsOk : Bool := false
  deriving Repr, DecidableEq

/-- the metadata before the parameter sets are known (SDP without sprop-parameter-sets) -/
def VideoMeta.unknownParams (vm : VideoMeta) : VideoMeta :=
  { vm with sps := [], pps := [], vps := [], hevcVps := none, hevcSps := none }

/-- `codec.AudioMeta` as the FLV muxer reads it (`aac` ⇔ `Codec == "AAC"`) -/
structure AudioMeta where
  aac : Bool
  sampleRate : Int
  sampleSize : Int
  channels : Int
  dataRate : UInt64
  asc : Bytes
  deriving Repr, DecidableEq

def strBytes (s : String) : Bytes := s.toList.map (fun c => UInt8.ofNat c.toNat)

/-- `Muxer.TypeFlags()` -/
def muxTypeFlags (am : AudioMeta) : UInt8 :=
  if am.aac then typeFlagsVideo ||| typeFlagsAudio else typeFlagsVideo

/-- the property list of `muxMetadataTag`; `date` is `time.Now().Format(time.RFC3339)` -/
def metadataProps (vm : VideoMeta) (am : AudioMeta) (date : Bytes) : List (Bytes × AmfVal) :=
  [(strBytes "creator", .str (strBytes "ipchub stream media server")),
   (strBytes "creationdate", .str date)] ++
  (if muxTypeFlags am &&& typeFlagsAudio > 0 then
    [(strBytes "audiocodecid", .num (f64OfInt 10)),
     (strBytes "audiodatarate", .num am.dataRate),
     (strBytes "audiosamplerate", .num (f64OfInt am.sampleRate)),
     (strBytes "audiosamplesize", .num (f64OfInt am.sampleSize)),
     (strBytes "stereo", .bool (decide (am.channels > 1)))]
   else []) ++
  [(strBytes "videocodecid", .num (f64OfInt (if vm.codec = .h265 then 12 else 7))),
   (strBytes "videodatarate", .num vm.dataRate),
   (strBytes "framerate", .num vm.frameRate),
   (strBytes "width", .num (f64OfInt vm.width)),
   (strBytes "height", .num (f64OfInt vm.height))]

/-- `muxMetadataTag` -/
def metadataTag (vm : VideoMeta) (am : AudioMeta) (date : Bytes) : Tag :=
  { tagType := tagTypeScript, timestamp := 0,
    data := scriptDataBytes (strBytes "onMetaData") (metadataProps vm am date) }

/-! ## packetizers -/

/-- `h264Packetizer.PacketizeSequenceHeader` / `h265Packetizer.PacketizeSequenceHeader` -/
def videoSeqHeaderTag (vm : VideoMeta) : Except Fault Tag :=
  match vm.codec with
  | .h265 =>
    let body := hevcRecordBytes (hevcInit vm.hevcVps vm.hevcSps) vm.vps vm.sps vm.pps
    .ok { tagType := tagTypeVideo, timestamp := 0,
          data := videoDataBytes frameTypeKey codecHEVC pktSeqHeader 0 body }
  | _ =>
    match avcRecord vm.sps vm.pps with
    | .error e => .error e
    | .ok body =>
      .ok { tagType := tagTypeVideo, timestamp := 0,
            data := videoDataBytes frameTypeKey codecAVC pktSeqHeader 0 body }

/-- `h264Packetizer.Packetize` / `h265Packetizer.Packetize`: `frame.Payload[0]` panics on an
    empty payload (before anything is written). -/
def videoTag (codec : VCodec) (f : Frame) : Except Fault Tag :=
  match f.payload.head? with
  | none => .error .panic
  | some h =>
    let dts := msOf f.dts
    let pts := msOf f.pts
    let key : Bool :=
      match codec with
      | .h265 => let t := (h >>> 1) &&& 0x3f; decide (t ≥ 16 ∧ t ≤ 21)
      | _ => h &&& 0x1F == 5
    let codecID := if codec = .h265 then codecHEVC else codecAVC
    .ok { tagType := tagTypeVideo, timestamp := u32OfInt dts,
          data := videoDataBytes (if key then frameTypeKey else frameTypeInter) codecID pktNalu
                    (u32OfInt (pts - dts)) f.payload }

/-- `aacPacketizer.prepareTemplate`: SoundRate / SoundSize / SoundType of the template -/
def aacRate (sampleRate : Int) : UInt8 :=
  if sampleRate = 5512 then 0 else if sampleRate = 11025 then 1
  else if sampleRate = 22050 then 2 else 3
def aacSize (sampleSize : Int) : UInt8 := if sampleSize = 8 then 0 else 1
def aacType (channels : Int) : UInt8 := if channels > 1 then 1 else 0

def aacData (am : AudioMeta) (packetType : UInt8) (body : Bytes) : Bytes :=
  audioDataBytes soundFormatAAC (aacRate am.sampleRate) (aacSize am.sampleSize) (aacType am.channels)
    packetType body

/-- `aacPacketizer.PacketizeSequenceHeader` -/
def audioSeqHeaderTag (am : AudioMeta) : Tag :=
  { tagType := tagTypeAudio, timestamp := 0, data := aacData am aacSeqHeader am.asc }

/-- `aacPacketizer.Packetize` -/
def audioTag (am : AudioMeta) (f : Frame) : Tag :=
  { tagType := tagTypeAudio, timestamp := u32OfInt (msOf f.pts), data := aacData am aacRaw f.payload }

/-! ## muxer.go -/

/-- `Muxer.videoMetaReady` — usable parameter sets: what the decoder configuration record needs,
    and an SPS that has been validated: decoded by the SDP parser / the depacketizer (then the
    width is known) or decodable now -/
def videoMetaReady (vm : VideoMeta) : Bool :=
  match vm.codec with
  | .h265 => !vm.vps.isEmpty && !vm.sps.isEmpty && !vm.pps.isEmpty && (vm.width != 0 || vm.hevcSps.isSome)
  | _ => decide (vm.sps.length ≥ 4) && !vm.pps.isEmpty && (vm.width != 0 || vm.avcSpsOk)

/-- result of one iteration of the loop of `Muxer.process` -/
structure StepOut where
  packed : Bool
  tags : List Tag
  /-- a panic escaped: the deferred `recover` is outside the loop, the worker goroutine is gone -/
  died : Bool
  deriving Repr, DecidableEq

/-- the three tags written when `packSequenceHeader` is still false: `muxMetadataTag`,
    `vp.PacketizeSequenceHeader`, `ap.PacketizeSequenceHeader` (in this order) -/
def seqHeaders (vm : VideoMeta) (am : AudioMeta) (date : Bytes) : List Tag × Bool :=
  match videoSeqHeaderTag vm with
  | .error _ => ([metadataTag vm am date], true)
  | .ok v => ([metadataTag vm am date, v] ++ (if am.aac then [audioSeqHeaderTag am] else []), false)

/-- the `switch frame.MediaType` of `Muxer.process` -/
def packetize (vm : VideoMeta) (am : AudioMeta) (f : Frame) : List Tag × Bool :=
  if f.mediaType = 0 then
    match videoTag vm.codec f with
    | .error _ => ([], true)
    | .ok t => ([t], false)
  else if f.mediaType = 1 then
    (if am.aac then [audioTag am f] else [], false)
  else ([], false)

/-- one iteration of the loop of `Muxer.process` for a non-nil frame -/
def muxStep (cfg : Cfg) (vm : VideoMeta) (am : AudioMeta) (date : Bytes) (packed : Bool) (f : Frame) : StepOut :=
  if !packed then
    if cfg.gateParamSets && !videoMetaReady vm then
      { packed := false, tags := [], died := false }       -- `continue`: the frame is dropped
    else
      match seqHeaders vm am date with
      | (hs, true) => { packed := false, tags := hs, died := true }
      | (hs, false) =>
        let (ts, d) := packetize vm am f
        { packed := true, tags := hs ++ ts, died := d }
  else
    let (ts, d) := packetize vm am f
    { packed := true, tags := ts, died := d }

/-- the worker loop over a frame sequence.  Frames with index `< known` are processed while the
    parameter sets are still unknown (`VideoMeta.unknownParams`).  Result: the tags handed to
    the `TagWriter` and whether the worker died. -/
def muxLoop (cfg : Cfg) (vm : VideoMeta) (am : AudioMeta) (date : Bytes) (known : Nat) :
    Nat → Bool → List Frame → List Tag × Bool
  | _, _, [] => ([], false)
  | i, packed, f :: fs =>
    let o := muxStep cfg (if i < known then vm.unknownParams else vm) am date packed f
    if o.died then (o.tags, true)
    else
      let r := muxLoop cfg vm am date known (i + 1) o.packed fs
      (o.tags ++ r.1, r.2)

def muxRun (cfg : Cfg) (vm : VideoMeta) (am : AudioMeta) (date : Bytes) (known : Nat) (frames : List Frame) :
    List Tag × Bool :=
  muxLoop cfg vm am date known 0 false frames

/-- `flv.NewWriter(w, muxer.TypeFlags())` + `flv.NewMuxer(video, audio, writer)` fed with the
    frames: all bytes written to `w`.  `none`: `NewMuxer` rejects the video codec. -/
def muxBytes (cfg : Cfg) (vm : VideoMeta) (am : AudioMeta) (date : Bytes) (known : Nat) (frames : List Frame) :
    Option (Bytes × Bool) :=
  if vm.codec = .other then none
  else
    let r := muxRun cfg vm am date known frames
    match clientBytes cfg (muxTypeFlags am) r.1 with
    | none => none
    | some bs => some (bs, r.2)

end IpcHub.Flv
