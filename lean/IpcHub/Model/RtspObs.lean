/-
What a client observes of a run of the session model, in the vocabulary of the
specification (Spec/RtspAutomaton.lean): the bridge over which the theorems of Props/C12
state "every run of the model is accepted by the reference automaton".  Core Lean only.
-/
import IpcHub.Model.RtspSession
import IpcHub.Spec.RtspAutomaton
namespace IpcHub.Rtsp
open IpcHub.RtspSpec

def respsOf (evs : List Ev) : List Resp :=
  evs.filterMap (fun e => match e with
    | .resp r => some r
    | .eff _ => none)

def effsOf (evs : List Ev) : List Effect :=
  evs.filterMap (fun e => match e with
    | .resp _ => none
    | .eff x => some x)

/-- consumers the session holds: it is attached to a stream or is a multicast member -/
def Sess.consumers (s : Sess) : Nat := if s.role != .none then 1 else 0

def obsOf (i : Input) (evs : List Ev) (cons : Nat) (pub closed : Bool) : Obs :=
  match i with
  | .hangup =>
    { hangup := true, method := .other, ask := .unspecified, nresp := (respsOf evs).length, code := 0,
      cseqOk := true, sidOk := true, consumers := cons, published := pub, closed := closed }
  | .frame _ _ =>
    { hangup := false, method := .other, ask := .unspecified, nresp := (respsOf evs).length, code := 0,
      cseqOk := true, sidOk := true, consumers := cons, published := pub, closed := closed, frame := true }
  | .req r _ =>
    { hangup := false, method := r.method, ask := specSetupAsk r.transport, nresp := (respsOf evs).length,
      code := match respsOf evs with
        | x :: _ => x.code
        | [] => 0,
      cseqOk := match respsOf evs with
        | x :: _ => x.cseq == r.cseq
        | [] => false,
      sidOk := true,        -- `newResponse` always sets the Session field to `s.lsession`
      consumers := cons, published := pub, closed := closed }

/-- the observations of a whole RTSP / ws-rtsp dialogue.  The Session header is on a response iff
    `newResponse` puts it there (`cfg.sidCarried`, a source fact); media can precede the response to a
    request only if the session held a consumer writing to this connection when the request was made
    (the only writer of media is the attached `tcpConsumer`). -/
def trace (cfg : Cfg) : Sess → List Input → List Obs
  | _, [] => []
  | s, i :: is =>
    let (s', evs) := stepInput cfg s i
    { obsOf i evs s'.consumers s'.pusher s'.closed with sidOk := cfg.sidCarried, media := s.role == .tcp }
      :: trace cfg s' is

def WSess.consumers (s : WSess) : Nat := if s.attached then 1 else 0

/-- the observations of a whole WSP dialogue; media flows on the data channel while the session is
    attached to the stream, at the beginning of the request or (PLAY attaches before it answers) at
    its end -/
def wtrace (gate : Status → Method → Bool) (sid : Bool) : WSess → List Input → List Obs
  | _, [] => []
  | s, i :: is =>
    let (s', evs) := wstepInput gate s i
    { obsOf i evs s'.consumers false s'.closed with sidOk := sid, media := s.attached || s'.attached }
      :: wtrace gate sid s' is

/-- the final state of a dialogue -/
def final (cfg : Cfg) : Sess → List Input → Sess
  | s, [] => s
  | s, i :: is => final cfg (stepInput cfg s i).1 is

/-- requests as the wire parser delivers them: the SETUP path is `URL.String()` after the
    `:554` defaulting, which is never empty -/
def Input.wf : Input → Prop
  | .hangup => True
  | .frame _ _ => True
  | .req r _ => r.setupPath ≠ []

/-! ### the reference gate and the decidable well-formedness of a configuration -/

def refGate : Status → Method → Bool
  | .ready, m => m == .setup || m == .play || m == .record
  | .playing, m => m == .play
  | .recording, m => m == .record
  | .init, m => !(m == .play || m == .record)

def refWspGate : Status → Method → Bool
  | .ready, m => m == .setup || m == .play
  | .playing, m => m == .play || m == .pause
  | _, m => !(m == .play || m == .record || m == .pause)

def allStatus : List Status := [.init, .ready, .playing, .recording]
def allMethods : List Method :=
  [.options, .describe, .announce, .setup, .play, .pause, .teardown, .getParameter, .setParameter,
   .record, .redirect, .other]

def gateEq (g h : Status → Method → Bool) : Bool :=
  allStatus.all fun st => allMethods.all fun m => g st m == h st m

/-- the configuration answers a repeated PLAY, only enters `playing` on a 200, gates as the reference
    table, puts the session id on every response, and drops client frames outside recording -/
def cfgOk (cfg : Cfg) : Bool :=
  cfg.playAgainResponds && cfg.playingNeedsOk && gateEq cfg.gate refGate && cfg.sidCarried && cfg.framesDropped

end IpcHub.Rtsp
