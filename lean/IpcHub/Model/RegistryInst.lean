import IpcHub.Model.Registry
import IpcHub.Gen.RegistryFacts
namespace IpcHub.Registry
/-- the registry facts of the current source tree (regenerated on every check) -/
def genFacts : Facts :=
  { idleCountsFlv := IpcHub.Gen.idleCountsFlv, idleNilSafe := IpcHub.Gen.idleNilSafe,
    lookupSkipsClosed := IpcHub.Gen.lookupSkipsClosed }
/-- what the property needs them to be -/
def goodFacts : Facts := { idleCountsFlv := true, idleNilSafe := true, lookupSkipsClosed := true }
end IpcHub.Registry
