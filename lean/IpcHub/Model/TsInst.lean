import IpcHub.Model.Ts
import IpcHub.Gen.TsFacts
namespace IpcHub.Ts
/-- the model instantiated with the facts regenerated from /repo -/
def genCfg : Cfg :=
  { header := IpcHub.Gen.mpegtsHeader
    videoPid := IpcHub.Gen.tsVideoPid, audioPid := IpcHub.Gen.tsAudioPid
    videoSid := IpcHub.Gen.tsVideoAvc, audioSid := IpcHub.Gen.tsAudioAac
    audNal := IpcHub.Gen.audNal
    audTypes := IpcHub.Gen.avcAudTypes, psTypes := IpcHub.Gen.avcParamSetTypes
    skipLo := IpcHub.Gen.avcSkipLo, skipHi := IpcHub.Gen.avcSkipHi
    keyType := IpcHub.Gen.avcKeyType
    adts := IpcHub.Gen.adtsTemplate
    pesLimit := IpcHub.Gen.pesLengthLimit
    pcrAfLen := IpcHub.Gen.pcrFieldLength, pcrAfFlags := IpcHub.Gen.pcrFieldFlags }
end IpcHub.Ts
