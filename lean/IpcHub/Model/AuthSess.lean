/-
Model of the authorization code of ipchub (property C11), part 2: sessions.

  service/rtsp/session.go    newSession, onRequest, onPreprocess, checkAuth, checkPermission,
                             onDescribe / onAnnounce / onSetup / onRecord / onPlay
  service/rtsp/rtptransport.go  ParseTransport (only what decides Type and Mode)
  service/streamapis.go      onWebSocketRequest (dispatch on the sub-protocol)
  service/wsp/wsp.go         handshakeControlChannel / handshakeDataChannel
  service/wsp/session.go     onRequest, onPreprocess, onDescribe, onSetup, onPlay, onPause
  service/flv/wsflv.go       ConsumeByWebsocket

Only the authorization decision points and the state they depend on are modelled; SDP and
transport *parsing* are inputs (the harness only sends requests whose parse is known), the
RTSP method-order automaton is modelled as far as it gates the decision points (C12 owns it).
-/
import IpcHub.Model.Auth
namespace IpcHub.Auth
open IpcHub.PathMatch

inductive Method where
  | options | describe | announce | setup | play | record | teardown | pause | other
  deriving DecidableEq, Repr

inductive Mode where
  | unknown | play | record
  deriving DecidableEq, Repr

inductive TType where
  | unknown | tcp | udp | mcast
  deriving DecidableEq, Repr

inductive Status where
  | init | ready | playing | recording
  deriving DecidableEq, Repr

/-- the `Transport:` header as far as `ParseTransport` decides Type and Mode:
    `spec` — none: unknown transport spec or no ';' (error before anything is set);
    `modeParam` — `mode=record` / `mode=<anything else>` / absent; `bad` — a later parameter is malformed -/
structure TrSpec where
  spec : Option TType
  modeParam : Option Mode
  bad : Bool
  deriving DecidableEq, Repr

/-- which `a=control` the SETUP URL ends with -/
inductive Ctrl where
  | video | audio | unknown
  deriving DecidableEq, Repr

structure Cred where
  user : List Char
  secret : Secret
  /-- the response was computed with the nonce shown in the latest response on this session (and
      this request's method and URL); `false`: with some older or invented nonce -/
  fresh : Bool
  deriving Repr

structure RtspReq where
  method : Method
  urlPath : List Char
  cred : Option Cred
  ctOk : Bool := true      -- ANNOUNCE: Content-Type is application/sdp
  sdpOk : Bool := true     -- ANNOUNCE: the body parses
  ctrl : Ctrl := .video
  tr : TrSpec := { spec := some .tcp, modeParam := none, bad := false }
  deriving Repr

/-- a WebSocket connection as `TryUpgrade` creates it -/
structure WsConn where
  path : List Char
  user : List Char
  deriving Repr, DecidableEq

structure RtspSess where
  id : Nat
  ws : Option WsConn
  /-- `authMode == DigestAuth` (config.RtspAuthMode() at creation; NoneAuth for WebSocket) -/
  digest : Bool
  path : List Char := []
  hasSdp : Bool := false
  mode : Mode := .unknown
  ttype : TType := .unknown
  tmode : Mode := .play
  status : Status := .init
  closed : Bool := false
  /-- `s.nonce`, as a rotation count, and the nonce the client saw in the latest response -/
  nonce : Nat := 0
  shown : Option Nat := none
  deriving Repr

inductive Effect where
  | none
  | describe (key : List Char)    -- the SDP of registry key `key` is returned
  | play (key : List Char)        -- a consumer of registry key `key` is attached to this connection
  | publish (key : List Char)     -- a stream is registered (or replaces the one) under `key`
  deriving DecidableEq, Repr

structure RtspOut where
  /-- status code of the response -/
  code : Nat
  eff : Effect := .none
  deriving DecidableEq, Repr

/-- newSession -/
def newRtspSess (w : World) (id : Nat) (ws : Option WsConn) : RtspSess :=
  { id := id, ws := ws, digest := ws.isNone && w.authOn,
    path := match ws with | some c => c.path | none => [] }

/-- "WebSocket session whose user was authenticated by the HTTP interceptors" -/
def RtspSess.httpAuthed (cfg : Cfg) (w : World) (s : RtspSess) : Bool :=
  cfg.wsRtspChecks && s.ws.isSome && w.authOn

/-- checkAuth: `some u` = continue with `s.user = u` (possibly nil), `none` = 401; the Bool says
    that `s.nonce` was replaced (a well-formed but wrong digest response) -/
def checkAuth (cfg : Cfg) (w : World) (s : RtspSess) (rq : RtspReq) : Option (Option User) × Bool :=
  if s.digest then
    match rq.cred with
    | none => (none, false)
    | some c =>
      if c.user.isEmpty then (none, false) else
      match getUser cfg w.users c.user with
      | none => (none, false)
      | some u =>
        if digestSecretOk u.password c.secret && c.fresh && s.shown = some s.nonce then (some (some u), false)
        else (none, true)
  else if s.httpAuthed cfg w then
    match s.ws with
    | none => (some none, false)
    | some c =>
      match getUser cfg w.users c.user with
      | none => (none, false)
      | some u => (some (some u), false)
  else (some none, false)

/-- checkPermission -/
def checkPermission (cfg : Cfg) (w : World) (s : RtspSess) (user : Option User) (r : Right) : Bool :=
  if !s.digest && !s.httpAuthed cfg w then true
  else match user with
    | none => false
    | some u => u.validatePermission cfg s.path r

/-- the status gate of onPreprocess -/
def methodAllowed (st : Status) (m : Method) : Bool :=
  match st with
  | .ready => m = .setup || m = .play || m = .record
  | .playing => m = .play
  | .recording => m = .record
  | .init => !(m = .play || m = .record)

/-- ParseTransport: (type, mode, error) -/
def parseTransport (ttype : TType) (tmode : Mode) (tr : TrSpec) : TType × Mode × Bool :=
  let tmode := if tmode = .unknown then Mode.play else tmode
  match tr.spec with
  | none => (ttype, tmode, true)
  | some t =>
    let tmode := match tr.modeParam with
      | none => tmode
      | some .record => .record
      | some _ => .play
    (t, tmode, tr.bad)

def World.register (cfg : Cfg) (w : World) (path : List Char) (owner : Nat) : World × List Char :=
  let key := canonicalPath cfg path
  -- (the harness gives every published stream the HLS segments 1..3 at once)
  ({ w with streams := { key := key, segs := [1, 2, 3], owner := some owner } :: w.streams.filter (·.key ≠ key) }, key)

/-- s.stream.Close() of a pushing session: media.Unregist removes the entry only if it is still this session's -/
def World.unregisterOwner (w : World) (owner : Nat) : World :=
  { w with streams := w.streams.filter (·.owner ≠ some owner) }

abbrev StepRes := World × RtspSess × RtspOut

/-- onDescribe -/
def onDescribe (cfg : Cfg) (w : World) (s : RtspSess) (user : Option User) (rq : RtspReq) : StepRes :=
  -- a WebSocket session keeps the path it has (the ws:// path, or what ANNOUNCE set)
  let s := if s.ws.isNone then { s with path := canonicalPath cfg rq.urlPath } else s
  match w.getOrCreate cfg s.path with
  | none => (w, s, { code := 404 })
  | some st =>
    if !checkPermission cfg w s user .pull then (w, s, { code := 403 })
    else (w, { s with hasSdp := true, mode := .play }, { code := 200, eff := .describe st.key })

/-- onAnnounce -/
def onAnnounce (cfg : Cfg) (w : World) (s : RtspSess) (user : Option User) (rq : RtspReq) : StepRes :=
  if !rq.ctOk then (w, s, { code := 400 })
  else
    let s := { s with path := canonicalPath cfg rq.urlPath }
    if !checkPermission cfg w s user .push then (w, s, { code := 403 })
    else if !rq.sdpOk then (w, s, { code := 400 })
    else (w, { s with hasSdp := true, mode := .record }, { code := 200 })

/-- onSetup -/
def onSetup (cfg : Cfg) (w : World) (s : RtspSess) (user : Option User) (rq : RtspReq) : StepRes :=
  if !s.hasSdp || rq.ctrl = .unknown then (w, s, { code := 500 })
  else
    let (tt, tm, err) := parseTransport s.ttype s.tmode rq.tr
    let s := { s with ttype := tt, tmode := tm }
    if err then (w, s, { code := 451 })
    else
      let s := if s.mode = .unknown then { s with mode := tm } else s
      if s.mode ≠ tm then (w, s, { code := 451 })
      else if s.mode = .record then
        if !checkPermission cfg w s user .push then (w, s, { code := 403 })
        else if s.ttype ≠ .tcp then (w, s, { code := 461 })
        else (w, { s with status := if s.status = .init then .ready else s.status }, { code := 200 })
      else
        if !checkPermission cfg w s user .pull then (w, s, { code := 403 })
        else if s.ttype = .mcast then
          match w.getOrCreate cfg s.path with
          | none => (w, s, { code := 404 })
          | some _ => (w, s, { code := 461 })    -- harness streams are not multicast capable
        else (w, { s with status := if s.status = .init then .ready else s.status }, { code := 200 })

/-- onRecord -/
def onRecord (cfg : Cfg) (w : World) (s : RtspSess) (user : Option User) : StepRes :=
  if s.status = .recording then (w, s, { code := 200 })
  else if s.mode ≠ .record || s.ttype ≠ .tcp then (w, s, { code := 455 })
  else if !checkPermission cfg w s user .push then (w, s, { code := 403 })
  else
    let (w', key) := w.register cfg s.path s.id
    (w', { s with status := .recording }, { code := 200, eff := .publish key })

/-- onPlay -/
def onPlay (cfg : Cfg) (w : World) (s : RtspSess) (user : Option User) : StepRes :=
  if s.status = .playing then (w, s, { code := 200 })
  else if s.mode ≠ .play || s.ttype = .unknown then (w, s, { code := 455 })
  else
    match w.getOrCreate cfg s.path with
    | none => (w, s, { code := 404 })
    | some st =>
      if !checkPermission cfg w s user .pull then (w, s, { code := 403 })
      else if s.ttype = .mcast then (w, s, { code := 461 })
      else (w, { s with status := .playing }, { code := 200, eff := .play st.key })

/-- one RTSP request on a session (onRequest).  `newResponse` puts the nonce of the moment into the
    response before anything else happens. -/
def rtspStep (cfg : Cfg) (w : World) (s0 : RtspSess) (rq : RtspReq) : StepRes :=
  let s := if s0.digest then { s0 with shown := some s0.nonce } else s0
  -- onPreprocess
  if rq.method = .options then (w, s, { code := 200 })
  else if rq.method = .teardown then (w.unregisterOwner s.id, { s with closed := true }, { code := 200 })
  else if !methodAllowed s.status rq.method then (w, s, { code := 455 })
  else
  match checkAuth cfg w s0 rq with
  | (none, rotated) =>
    let s := if rotated then { s with nonce := s.nonce + 1 } else s
    -- the 401 carries the new nonce only if onPreprocess refreshes the header
    let s := if rotated && cfg.digestShowsNewNonce then { s with shown := some s.nonce } else s
    (w, s, { code := 401 })
  | (some user, _) =>
    match rq.method with
    | .describe => onDescribe cfg w s user rq
    | .announce => onAnnounce cfg w s user rq
    | .setup => onSetup cfg w s user rq
    | .record => onRecord cfg w s user
    | .play => onPlay cfg w s user
    | _ => (w, s, { code := 455 })

/-! ## WebSocket upgrade on /streams/ -/

inductive WsSub where
  | rtsp | control | data | none
  deriving DecidableEq, Repr

inductive WsOut where
  | redirect | crossdomain | unauthorized | forbidden | panic
  | upgraded (c : WsConn)          -- handed to the rtsp / wsp accept handler
  | serveFlv (c : WsConn) (key : List Char)   -- ConsumeByWebsocket attached a consumer of `key`
  | closed (c : WsConn)            -- upgraded, then closed: nothing to deliver / unsupported
  deriving DecidableEq, Repr

/-- onStreamsRequest → onWebSocketRequest for a GET with Upgrade: websocket -/
def wsUpgrade (cfg : Cfg) (w : World) (path : List Char) (tok : TokRef) (sub : WsSub) : World × WsOut :=
  if muxRedirects .get path then (w, .redirect)
  else
    match streamInterceptor cfg w path tok with
    | (w', .crossdomain) => (w', .crossdomain)
    | (w', .unauthorized) => (w', .unauthorized)
    | (w', .forbidden) => (w', .forbidden)
    | (w', .panic) => (w', .panic)
    | (w', .pass user) =>
      match extractStreamPathAndExt path with
      | none => (w', .panic)
      | some (sp, ext) =>
        let c : WsConn := { path := sp, user := user.getD [] }
        match sub with
        | .rtsp | .control | .data => (w', .upgraded c)
        | .none =>
          if ext = ".flv".toList then
            match w'.getOrCreate cfg sp with
            | some s => (w', .serveFlv c s.key)
            | none => (w', .closed c)
          else (w', .closed c)

/-- the upgrade, with the client's own values of the identity header (Model/Auth.lean) -/
def wsUpgradeH (cfg : Cfg) (w : World) (path : List Char) (tok : TokRef) (sub : WsSub) (hdr : List (List Char)) : World × WsOut :=
  if muxRedirects .get path then (w, .redirect)
  else
    match streamInterceptorH cfg w path tok hdr with
    | (w', .crossdomain) => (w', .crossdomain)
    | (w', .unauthorized) => (w', .unauthorized)
    | (w', .forbidden) => (w', .forbidden)
    | (w', .panic) => (w', .panic)
    | (w', .pass user) =>
      match extractStreamPathAndExt path with
      | none => (w', .panic)
      | some (sp, ext) =>
        let c : WsConn := { path := sp, user := user.getD [] }
        match sub with
        | .rtsp | .control | .data => (w', .upgraded c)
        | .none =>
          if ext = ".flv".toList then
            match w'.getOrCreate cfg sp with
            | some s => (w', .serveFlv c s.key)
            | none => (w', .closed c)
          else (w', .closed c)

/-! ## WSP -/

structure WspSess where
  chan : Nat
  conn : WsConn
  data : Option WsConn := none
  path : List Char := []
  hasSdp : Bool := false
  status : Status := .init
  attached : Option (List Char) := none    -- s.cid / s.source: registry key being consumed
  deriving Repr

/-- wsp Session.checkPermission: the pull right, as saved now, of the control channel's user on the
    path the control channel was opened on -/
def wspPermitted (cfg : Cfg) (w : World) (s : WspSess) : Bool :=
  if !(cfg.wspPlayChecks && w.authOn) then true
  else match getUser cfg w.users s.conn.user with
    | none => false
    | some u => u.validatePermission cfg s.conn.path .pull

/-- wsp Session.acceptsDataChannel -/
def wspAccepts (cfg : Cfg) (w : World) (s : WspSess) (dc : WsConn) : Bool :=
  if !(cfg.wspJoinChecks && w.authOn) then true
  else dc.user = s.conn.user && dc.path = s.conn.path && wspPermitted cfg w s

/-- handshakeDataChannel: status code of the JOIN answer, and the session with the data channel set -/
def wspJoin (cfg : Cfg) (w : World) (sess : Option WspSess) (dc : WsConn) : Nat × Option WspSess :=
  match sess with
  | none => (404, none)
  | some s =>
    if !wspAccepts cfg w s dc then (403, none)
    else (200, some { s with data := some dc })

def wspMethodAllowed (st : Status) (m : Method) : Bool :=
  match st with
  | .ready => m = .setup || m = .play
  | .playing => m = .play || m = .pause
  | _ => !(m = .play || m = .record || m = .pause)

/-- wsp Session.onRequest for a WRAPped RTSP request (SETUP restricted to the valid TCP play transport
    or an invalid one: `trOk`) -/
def wspStep (cfg : Cfg) (w : World) (s : WspSess) (m : Method) (ctrl : Ctrl) (trOk : Bool) : WspSess × RtspOut :=
  if m = .options then (s, { code := 200 })
  else if m = .teardown then (s, { code := 200 })
  else if !wspMethodAllowed s.status m then (s, { code := 455 })
  else match m with
    | .describe =>
      let s := { s with path := s.conn.path }
      match w.getOrCreate cfg s.path with
      | none => (s, { code := 404 })
      | some st =>
        if !wspPermitted cfg w s then (s, { code := 403 })
        else ({ s with hasSdp := true }, { code := 200, eff := .describe st.key })
    | .setup =>
      if !s.hasSdp || ctrl = .unknown then (s, { code := 500 })
      else if !trOk then (s, { code := 451 })
      else ({ s with status := if s.status = .init then .ready else s.status }, { code := 200 })
    | .play =>
      if s.status = .playing then (s, { code := 200 })
      else match w.getOrCreate cfg s.path with
        | none => (s, { code := 404 })
        | some st =>
          if !wspPermitted cfg w s then (s, { code := 403 })
          else ({ s with status := .playing, attached := some (s.attached.getD st.key) },
                { code := 200, eff := if s.attached.isNone then .play st.key else .none })
    | .pause => (s, { code := 200 })
    | _ => (s, { code := 455 })

end IpcHub.Auth
