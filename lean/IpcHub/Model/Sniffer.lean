/-
Model of network/socket/listener/listener.go (C19): the sniffing connection wrapper
(`Conn`, `sniffer.Read`, `sniffer.reset`), `io.ReadFull` as used by `matchPrefix`, and
`Listener.serve` (matchers tried in registration order, first match wins, else close).
Core Lean only.

The peer and the kernel are an adversary: every time the code really reads from the socket
(`s.source.Read(p)` / the raw `net.Conn.Read`), the next event of a script decides what
happens: `deliver n` (up to `n ≥ 1` bytes of what the peer still has to send, never more
than `len p`), `fail e` (0 bytes and an error: EOF, time-out, …) or `deliverFail n e`
(bytes *and* an error in the same call — legal for an `io.Reader`, a TCP conn does not do
it).  A time-out is sticky until the read deadline is set again, as for a real conn.
-/
import IpcHub.Model.Patricia
namespace IpcHub.Sniffer
open IpcHub.Patricia

inductive Err where
  | eof | timeout | other
  | unexpectedEOF          -- produced by io.ReadFull only
  | hang                   -- a time-out event with no read deadline armed: the read never returns
  deriving DecidableEq, Repr, Inhabited

inductive Ev where
  | deliver (n : Nat)
  | fail (e : Err)
  | deliverFail (n : Nat) (e : Err)
  deriving DecidableEq, Repr, Inhabited

/-- the wrapped connection: sniffer fields + which reader `Conn.Read` uses + the socket -/
structure St where
  buffer : Bytes := []          -- s.buffer (bytes.Buffer contents)
  bufferRead : Nat := 0
  bufferSize : Nat := 0
  sniffing : Bool := false
  lastErr : Option Err := none
  capNonzero : Bool := false    -- s.buffer.Cap() != 0
  direct : Bool := false        -- m.reader == m.Conn (the sniffer is bypassed)
  rem : Bytes                   -- what the peer has not yet delivered
  deadline : Bool := false      -- a non-zero read deadline is armed on the socket
  timedOut : Bool := false      -- the armed deadline has expired (sticky)
  closed : Bool := false        -- c.Close() was called by the listener
  deriving Inhabited

inductive Fault where
  | panic    -- a Go slice expression out of range
  deriving DecidableEq, Repr

/-- result of one `Read(p)`: bytes copied into `p`, the error, the new state, and the script left -/
structure ReadRes where
  bytes : Bytes
  err : Option Err
  st : St
  evs : List Ev

/-- one read on the raw socket with `len p = k` -/
def srcRead (st : St) (k : Nat) (evs : List Ev) : ReadRes :=
  if st.closed then ⟨[], some .other, st, evs⟩
  else if st.timedOut then ⟨[], some .timeout, st, evs⟩
  else if k = 0 then ⟨[], none, st, evs⟩
  else
    let take (n : Nat) : Bytes × Bytes := st.rem.splitAt (min (max n 1) k)
    match evs with
    | [] =>              -- script exhausted: everything that is left, then EOF
      if st.rem.isEmpty then ⟨[], some .eof, st, []⟩
      else let p := take k; ⟨p.1, none, { st with rem := p.2 }, []⟩
    | .deliver n :: evs' =>
      if st.rem.isEmpty then ⟨[], some .eof, st, evs'⟩
      else let p := take n; ⟨p.1, none, { st with rem := p.2 }, evs'⟩
    | .fail e :: evs' =>
      if e = .timeout then
        if st.deadline then ⟨[], some .timeout, { st with timedOut := true }, evs'⟩
        else ⟨[], some .hang, st, evs'⟩
      else ⟨[], some e, st, evs'⟩
    | .deliverFail n e :: evs' =>
      if st.rem.isEmpty then ⟨[], some e, st, evs'⟩
      else let p := take n; ⟨p.1, some e, { st with rem := p.2 }, evs'⟩

/-- `net.Conn.SetReadDeadline` -/
def setDeadline (st : St) (armed : Bool) : St := { st with deadline := armed, timedOut := false }

/-- listener.go `sniffer.Read` -/
def sniffRead (st : St) (k : Nat) (evs : List Ev) : Except Fault ReadRes :=
  if st.bufferSize > st.bufferRead then
    -- s.buffer.Bytes()[s.bufferRead:s.bufferSize]
    if st.bufferSize > st.buffer.length then .error .panic
    else
      let avail := (st.buffer.take st.bufferSize).drop st.bufferRead
      let out := avail.take k
      .ok ⟨out, st.lastErr, { st with bufferRead := st.bufferRead + out.length }, evs⟩
  else
    let st1 : St :=
      if !st.sniffing && st.capNonzero then
        { st with buffer := [], capNonzero := false, direct := true }
      else st
    let r := srcRead st1 k evs
    if r.bytes.length > 0 && st1.sniffing then
      .ok { r with st := { r.st with lastErr := r.err, buffer := r.st.buffer ++ r.bytes, capNonzero := true } }
    else .ok r

/-- listener.go `(*Conn).Read`: through `m.reader` -/
def connRead (st : St) (k : Nat) (evs : List Ev) : Except Fault ReadRes :=
  if st.direct then .ok (srcRead st k evs) else sniffRead st k evs

/-- listener.go `sniffer.reset` -/
def reset (st : St) (snif : Bool) : St :=
  { st with sniffing := snif, bufferRead := 0, bufferSize := st.buffer.length }

/-- `startSniffing` hands out `&m.sniffer`: reads of a matcher go to the sniffer even when
    `m.reader` was already switched -/
structure FullRes where
  bytes : Bytes
  err : Option Err
  st : St
  evs : List Ev

/-- `io.ReadFull(r, buf)` with `len buf = want`, `r` = the sniffer: `fuel` iterations are
    enough because every iteration yields a byte or an error -/
def readFullSniffer : Nat → St → Nat → List Ev → Bytes → Except Fault FullRes
  | 0, st, _, evs, acc => .ok ⟨acc, none, st, evs⟩
  | fuel + 1, st, want, evs, acc =>
    if acc.length ≥ want then .ok ⟨acc, none, st, evs⟩
    else
      match sniffRead st (want - acc.length) evs with
      | .error f => .error f
      | .ok r =>
        let acc' := acc ++ r.bytes
        match r.err with
        | some e =>
          if acc'.length ≥ want then .ok ⟨acc', none, r.st, r.evs⟩
          else if acc'.length > 0 && e = .eof then .ok ⟨acc', some .unexpectedEOF, r.st, r.evs⟩
          else .ok ⟨acc', some e, r.st, r.evs⟩
        | none =>
          if r.bytes.isEmpty then .ok ⟨acc', some .other, r.st, r.evs⟩  -- io.ErrNoProgress territory; not produced by `srcRead`
          else readFullSniffer fuel r.st want r.evs acc'

/-- one matcher pass of `serve`: `processor(muc.startSniffing())` with a `matchPrefix` matcher.
    Returns the verdict, the bytes the matcher saw, the new state and script. -/
def matcherPass (t : Tree) (st : St) (evs : List Ev) : Except Fault (Bool × Bytes × St × List Ev) :=
  let st1 := reset st true
  match readFullSniffer (t.maxDepth + 1) st1 t.maxDepth evs [] with
  | .error f => .error f
  | .ok r => .ok (t.matchBuf r.bytes true, r.bytes, r.st, r.evs)

inductive Route where
  | service (i : Nat)     -- handed to the i-th registered listener (`sl.listen.connections <- muc`)
  | closed                -- `c.Close()`, ErrNotMatched
  deriving DecidableEq, Repr

structure ServeRes where
  route : Route
  views : List Bytes      -- what each matcher pass saw, in order
  st : St
  evs : List Ev

/-- the matcher loop of `Listener.serve`; `i` counts the registered listeners -/
def serveLoop (timeoutSet : Bool) : List Tree → Nat → St → List Ev → List Bytes → Except Fault ServeRes
  | [], _, st, evs, views => .ok ⟨.closed, views.reverse, { st with closed := true }, evs⟩
  | t :: ts, i, st, evs, views =>
    match matcherPass t st evs with
    | .error f => .error f
    | .ok (matched, view, st1, evs1) =>
      if matched then
        let st2 := reset st1 false                       -- muc.doneSniffing()
        let st3 := if timeoutSet then setDeadline st2 false else st2
        .ok ⟨.service i, (view :: views).reverse, st3, evs1⟩
      else serveLoop timeoutSet ts (i + 1) st1 evs1 (view :: views)

/-- listener.go `Listener.serve` for one accepted connection (one `matchPrefix` matcher per
    registered listener, as `service.listen` registers them) -/
def serve (timeoutSet : Bool) (trees : List Tree) (stream : Bytes) (evs : List Ev) : Except Fault ServeRes :=
  let st0 : St := { rem := stream }
  let st1 := if timeoutSet then setDeadline st0 true else st0
  serveLoop timeoutSet trees 0 st1 evs []

/-- the service reading the connection it was handed, with read-buffer sizes `ks` -/
def svcReads : St → List Nat → List Ev → List (Bytes × Option Err) → Except Fault (List (Bytes × Option Err) × St × List Ev)
  | st, [], evs, acc => .ok (acc.reverse, st, evs)
  | st, k :: ks, evs, acc =>
    match connRead st k evs with
    | .error f => .error f
    | .ok r => svcReads r.st ks r.evs ((r.bytes, r.err) :: acc)

/-! ### free-form use of the wrapper (more general than `serve`): any sequence of
    `startSniffing` / `doneSniffing` / reads, used by the replay theorem and by the direct
    sniffer correspondence -/
inductive Op where
  | start                 -- startSniffing (reads that follow use the sniffer)
  | done                  -- doneSniffing  (reads that follow use Conn.Read)
  | read (k : Nat)
  deriving DecidableEq, Repr

structure Trace where
  st : St
  evs : List Ev
  viaSniffer : Bool := false          -- the reader in use is the `io.Reader` returned by startSniffing
  outs : List (Bytes × Option Err) := []   -- newest first

def stepOp (tr : Trace) : Op → Except Fault Trace
  | .start => .ok { tr with st := reset tr.st true, viaSniffer := true }
  | .done => .ok { tr with st := reset tr.st false, viaSniffer := false }
  | .read k =>
    match (if tr.viaSniffer then sniffRead tr.st k tr.evs else connRead tr.st k tr.evs) with
    | .error f => .error f
    | .ok r => .ok { tr with st := r.st, evs := r.evs, outs := (r.bytes, r.err) :: tr.outs }

def runOps : Trace → List Op → Except Fault Trace
  | tr, [] => .ok tr
  | tr, op :: ops =>
    match stepOp tr op with
    | .error f => .error f
    | .ok tr' => runOps tr' ops

end IpcHub.Sniffer
