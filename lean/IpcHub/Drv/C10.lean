import IpcHub.Drv.Util
import IpcHub.Drv.C09
import IpcHub.Model.HlsInst
import IpcHub.Spec.HlsOracle
namespace IpcHub.Drv.C10
open IpcHub.Ts IpcHub.Hls IpcHub.Drv IpcHub.Drv.C09

def cfg : Hls.Cfg := Hls.genCfg

/-- one event of a run (see harness/cmd/c10) -/
inductive Ev
  | frame (f : AvFrame)
  | seg (seq : Nat) (dur : Int) (bytes : List UInt8)          -- S: a segment became listed (its duration in ticks); bytes fetched through Segment(seq)
  | query (m3u8 : Option (List Char)) (seqs : List Nat) (durs : List Int) (hdrs : List Bool)
          (cur : Option (Nat × Int × Int)) (stable : Bool) (files : Option (List Nat))
  | hold (seq : Nat) (ok : Bool)
  | read (seq : Nat) (bytes : Option (List UInt8))
  | curBytes (seq : Nat) (bytes : List UInt8)
  -- F: an HLS client scheduled inside a roll-over (`point` = listed / opened: on the generator's goroutine at that
  -- schedule point; conc: a client goroutine of its own): the playlist it was served, the number of the newest
  -- URI in it, what that URI delivered (none: not served)
  | fetch (point : String) (m3u8 : Option (List Char)) (seq : Option Nat) (bytes : Option (List UInt8))

def splitList (s : String) (sep : String) : List String :=
  if s = "-" ∨ s = "" then [] else s.splitOn sep

def parseEv (s : String) : Option Ev :=
  match s.splitOn ":" with
  | ["S", seq, d, h] => match seq.toNat?, d.toInt?, hexToBytes h with
    | some n, some d, some b => some (.seg n d b) | _, _, _ => none
  | ["Q", m, seqs, durs, hdrs, cs, cd, cst, stable, files] =>
    let m3 := if m = "ERR" then some none else (hexToChars m).map some
    let cur := if cs = "-" then some none else
      match cs.toNat?, cd.toInt?, cst.toInt? with
      | some a, some b, some c => some (some (a, b, c)) | _, _, _ => none
    match m3, (splitList seqs ";").mapM String.toNat?, (splitList durs ";").mapM String.toInt?, cur,
          (if files = "x" then some none else ((splitList files ";").mapM String.toNat?).map some) with
    | some m3, some seqs, some durs, some cur, some files =>
      some (.query m3 seqs durs ((splitList hdrs ";").map (· = "1")) cur (stable = "1") files)
    | _, _, _, _, _ => none
  | ["H", seq, ok] => seq.toNat?.map fun n => .hold n (ok = "1")
  | ["R", seq, h] =>
    match seq.toNat? with
    | some n => if h = "ERR" then some (.read n none) else (hexToBytes h).map fun b => .read n (some b)
    | none => none
  | ["F", point, m, seq, h] =>
    let m3 := if m = "ERR" then some none else (hexToChars m).map some
    let sq := if seq = "-" then some none else seq.toNat?.map some
    let bs := if h = "ERR" then some none else (hexToBytes h).map some
    match m3, sq, bs with
    | some m3, some sq, some bs => some (.fetch point m3 sq bs)
    | _, _, _ => none
  | ["C", seq, h] => match seq.toNat?, hexToBytes h with
    | some n, some b => some (.curBytes n b) | _, _ => none
  | _ => (parseAv s).map .frame

structure St where
  g        : Option Gen                 -- none after a panic
  srcs     : List IpcHub.TsSpec.Src     -- source frames so far (reversed)
  segs     : List (Nat × List UInt8)    -- S events so far (reversed): what the implementation served
  durs     : List (Nat × Int)           -- observed duration of every completed segment
  held     : List (Nat × List UInt8)    -- readers taken: the bytes the segment had then (from S)
  fetched  : List (Nat × List UInt8)    -- F events: what a client inside a roll-over got for a listed number
  corr     : Option String              -- first model/implementation difference
  spec     : Option String              -- first specification failure
  panicked : Bool

def noteCorr (st : St) (msg : String) : St := if st.corr.isSome then st else { st with corr := some msg }
def noteSpec (st : St) (msg : String) : St := if st.spec.isSome then st else { st with spec := some msg }

/-- all renderings of the playlist when a duration is an exact rounding tie (`%.3f` of a double) -/
def m3u8Variants (path : List Char) (pl : List Seg) (token : List Char) : List (List Char) :=
  -- a tied segment (ticks % 90 = 45) may be printed one millisecond lower: shorten it by one tick
  -- (this never changes the target duration: 45 ticks above a multiple of 90 is not a whole second)
  let choices : List (List Seg) := pl.foldr (fun s acc =>
      if s.dur.toNat % 90 = 45 then acc.flatMap (fun l => [s :: l, { s with dur := s.dur - 1 } :: l])
      else acc.map (s :: ·)) [[]]
  choices.filterMap fun l => Hls.m3u8 cfg path l token

def step (_p : IpcHub.TsSpec.Params) (m : Meta) (frag rate : Nat) (path token : List Char) (st : St) : Ev → St
  | .frame f =>
    match st.g with
    | none => st
    | some g =>
      let st := { st with srcs := (srcOf f).reverse ++ st.srcs }
      match packetize cfg.ts m f with
      | none => { st with g := none, panicked := true }
      | some none => st
      | some (some tf) =>
        match Hls.writeFrame cfg frag rate g tf with
        | none => { st with g := none, panicked := true }
        | some g' => { st with g := some g' }
  | .seg seq dur bytes =>
    let st := { st with segs := (seq, bytes) :: st.segs, durs := (seq, dur) :: st.durs }
    match st.g with
    | none => st
    | some g =>
      match Hls.segment cfg g.playlist seq with
      | none => noteCorr st s!"segment-{seq}-not-listed-in-model"
      | some mb => if mb == bytes then st else noteCorr st s!"segment-{seq}-bytes:{cmpBytes mb bytes}"
  | .query m3 seqs durs hdrs cur stable files =>
    let st := if stable then st else noteSpec st "segment-changed-after-listing"
    -- specification: the served playlist
    let st :=
      match m3 with
      | none => st
      | some text =>
        match IpcHub.HlsSpec.checkPlaylist 3 path token text with
        | .error e => noteSpec st e
        | .ok listed =>
          let st := if listed.all (fun q => st.segs.any (·.1 = q)) then st else noteSpec st "playlist-uri-unresolved"
          let st := if listed ≠ seqs then noteSpec st "playlist-not-most-recent" else st
          match cur with
          | some (cs, _, _) => if listed.getLast? ≠ some (cs - 1) then noteSpec st "playlist-not-most-recent" else st
          | none => st
    -- bounded storage: files on disk = listed ∪ open
    let st :=
      match files with
      | none => st
      | some fs =>
        let want := seqs ++ (match cur with | some (cs, _, _) => [cs] | none => [])
        if fs.length > 4 then noteSpec st "storage-unbounded"
        else if fs ≠ want then noteSpec st "storage-files-differ-from-listing" else st
    -- correspondence with the model
    match st.g with
    | none => st
    | some g =>
      let st := if g.playlist.map (·.seq) ≠ seqs then noteCorr st s!"listed-seqs model={g.playlist.map (·.seq)} impl={seqs}" else st
      let st := if g.playlist.map (·.dur) ≠ durs then noteCorr st s!"listed-durations model={g.playlist.map (·.dur)} impl={durs}" else st
      let st := if g.playlist.map (·.seqHdr) ≠ hdrs then noteCorr st "listed-discontinuity-flags" else st
      let st := if (g.current.map fun s => (s.seq, s.dur, s.start)) ≠ cur then
          noteCorr st s!"current model={g.current.map fun s => (s.seq, s.dur, s.start)} impl={cur}" else st
      match m3, m3u8Variants path g.playlist token with
      | none, [] => st
      | some text, vs => if vs.contains text then st else noteCorr st "m3u8-text"
      | none, _ :: _ => noteCorr st "m3u8-error-but-model-serves"
  | .hold seq ok =>
    match st.segs.find? (·.1 = seq) with
    | some (_, b) => if ok then { st with held := (seq, b) :: st.held } else noteSpec st "listed-segment-not-served"
    | none => if ok then noteCorr st "reader-for-unknown-segment" else st
  | .read seq bytes =>
    match st.held.find? (·.1 = seq), bytes with
    | some (_, b), some r => if r == b then st else noteSpec st "read-not-stable"
    | some _, none => noteSpec st "read-not-stable"
    | none, _ => st
  | .fetch point m3 seq bytes =>
    -- the playlist served at that moment is judged like every other served playlist; the newest URI in it
    -- must deliver a segment (on the generator's own goroutine no further roll-over can fall between the two
    -- requests; a client goroutine of its own only reports fetches that were served)
    let st :=
      match m3 with
      | none => st
      | some text =>
        match IpcHub.HlsSpec.checkPlaylist 3 path token text with
        | .error e => noteSpec st e
        | .ok listed => if seq.isSome ∧ listed.getLast? ≠ seq then noteCorr st s!"rollover-client-newest-uri listed={listed} client={seq}" else st
    match seq, bytes with
    | some q, some b => { st with fetched := (q, b) :: st.fetched }
    | some _, none => if point = "conc" then st else noteSpec st "segment-fetched-in-rollover-not-served"
    | none, _ => st
  | .curBytes seq bytes =>
    let st := { st with segs := (seq, bytes) :: st.segs }
    match st.g with
    | none => st
    | some g =>
      match g.current with
      | none => st
      | some s => if segBytes cfg s == bytes then st else noteCorr st s!"current-bytes:{cmpBytes (segBytes cfg s) bytes}"

/-- the per-segment and cross-segment clauses, on the bytes the implementation served: EVERY clause
    is evaluated (a segment opened in mid-GOP — the open known finding when the audio side reaped —
    does not hide what the numbering and the frame accounting say); returns the failing classes -/
def finalSpec (p : IpcHub.TsSpec.Params) (frag : Nat) (st : St) (complete : Bool) : List String := Id.run do
  let segs := st.segs.reverse
  let mut fails : List String := []
  let mut pes : List IpcHub.HlsSpec.SegPes := []
  let mut demuxed := true
  for (seq, b) in segs do
    match IpcHub.HlsSpec.demuxSegment b with
    | .error e =>
      if demuxed then fails := fails ++ [e]
      demuxed := false
    | .ok sp =>
      if seq > 1 ∧ ¬ IpcHub.HlsSpec.startsWithKey p sp then
        -- class by the cause, from what the segments themselves carry: the audio-side reap fires
        -- only when the segment before spans at least 2 × fragment of media time (known open
        -- finding; 100 ms of slack for the re-derived audio time stamps); a segment opened in
        -- mid-GOP behind a SHORTER one is a different failure
        let prevLong : Bool := match pes.getLast? with
          | some prev => decide ((IpcHub.HlsSpec.mediaSpan prev + 9000 : Nat) ≥ 2 * frag * 90000)
          | none => false
        let cls := cond prevLong "segment-not-starting-with-key:audio-side-reap" "segment-not-starting-with-key"
        if ¬ fails.contains cls then fails := fails ++ [cls]
      pes := pes ++ [sp]
  if ¬ IpcHub.HlsSpec.consecutive (segs.map (·.1)) then fails := fails ++ ["segment-numbers-not-consecutive"]
  -- a segment fetched through a served playlist while the roll-over was under way is byte for byte the
  -- transport stream of that sequence number: what the same number delivered once the frame was through
  -- (the S event, which the clauses above and the model judge)
  for (q, b) in st.fetched.reverse do
    match segs.find? (·.1 = q) with
    | none => pure ()
    | some (_, final) =>
      if b ≠ final then
        let cls := if b.length < final.length ∧ final.take b.length = b then "segment-fetched-in-rollover-truncated" else "segment-fetched-in-rollover-differs"
        if ¬ fails.contains cls then fails := fails ++ [cls]
  if demuxed then
    match IpcHub.HlsSpec.checkExactlyOnce p st.srcs.reverse pes complete with
    | .error e => fails := fails ++ [e]
    | .ok _ => pure ()
  return fails

/-- `run frag=<n> rate=<n> path=<hex> token=<hex> sps=<hex> pps=<hex> asc=<…> <event>…`
    → `model=<ok|diff:…> panic=<0|1> spec=<ok|fail:…>` -/
def handle : List String → String
  | "run" :: toks =>
    match kvOf "frag=" toks >>= String.toNat?, kvOf "rate=" toks >>= String.toNat?,
          kvOf "path=" toks >>= hexToChars, kvOf "token=" toks >>= hexToChars,
          kvOf "sps=" toks >>= hexToBytes, kvOf "pps=" toks >>= hexToBytes, kvOf "asc=" toks >>= parseAsc with
    | some frag, some rate, some path, some token, some sps, some pps, some asc =>
      match (toks.filter (fun t => ¬ t.contains '=')).mapM parseEv with
      | none => "bad-op"
      | some evs =>
        let m : Meta := { sps, pps, asc }
        let p : IpcHub.TsSpec.Params :=
          match asc with
          | some a => { sps, pps, aot := a.objectType,
                        srIndex := (if a.extSampleRate > 0 then a.extSamplingIndex else a.samplingIndex),
                        chanCfg := a.channelConfig }
          | none => { sps, pps, aot := 0, srIndex := 0, chanCfg := 0 }
        let st0 : St := { g := some (Hls.initOf cfg), srcs := [], segs := [], durs := [], held := [], fetched := [], corr := none, spec := none, panicked := false }
        let st := evs.foldl (step p m frag rate path token) st0
        let complete := evs.any (fun e => match e with | .curBytes _ _ => true | _ => false)
        -- `spec=ok` | `spec=skip` | `spec=fail:<class>,<class>…`
        let fails := (match st.spec with | some e => [e] | none => []) ++
          (if st.panicked then [] else (finalSpec p frag st complete).filter (fun e => st.spec ≠ some e))
        let spec := if fails.isEmpty then (if st.panicked then "skip" else "ok") else "fail:" ++ ",".intercalate fails
        let model := match st.corr with | some e => "diff:" ++ e.replace " " "_" | none => "ok"
        s!"model={model} panic={boolStr st.panicked} spec={spec}"
    | _, _, _, _, _, _, _ => "bad-op"
  | _ => "bad-op"

end IpcHub.Drv.C10
