import IpcHub.Drv.Util
import IpcHub.Model.RtspWireInst
import IpcHub.Spec.RtspCodec
namespace IpcHub.Drv.C14
open IpcHub.RtspWire IpcHub.Drv

local notation "Bytes" => List UInt8

/-- the driver's instance of `net/url`: the harness supplies, for every Request-URI that
    occurs, what `url.ParseRequestURI` said (table), so that `net/url` itself stays a
    parameter of the model -/
structure DrvUrl where
  host : Bytes
  str : Bytes          -- String() as parsed
  strTrim : Bytes      -- String() after Host = TrimSuffix(Host, ":")

structure UrlEntry where
  rurl : Bytes
  res : Option DrvUrl

def hexOpt (s : String) : Option Bytes := hexToBytes s

/-- table: "-" or entries `rurl:ok:host:str:strTrim` separated by ',' -/
def parseUrlTable (s : String) : Option (List UrlEntry) :=
  if s = "-" then some [] else
  (s.splitOn ",").mapM (fun e =>
    match e.splitOn ":" with
    | [r, ok, h, a, b] =>
      match hexOpt r, hexOpt h, hexOpt a, hexOpt b with
      | some r, some h, some a, some b =>
        some ⟨r, if ok = "1" then some ⟨h, a, b⟩ else none⟩
      | _, _, _, _ => none
    | _ => none)

/-- `missing` collects look-ups that the table could not answer (the harness adds them and asks again) -/
def mkOps (table : List UrlEntry) : UrlOps (Option DrvUrl × Bytes) :=
  { parse := fun r =>
      match table.find? (fun e => e.rurl = r) with
      | some e => e.res.map (fun u => (some u, r))
      | none => some (none, r)          -- unknown: remembered as a request for the table
    print := fun u => match u.1 with | some d => d.str | none => []
    host := fun u => match u.1 with | some d => d.host | none => []
    setHost := fun u h => match u.1 with
      | some d => (some { host := h, str := d.strTrim, strTrim := d.strTrim }, u.2)
      | none => u }

def showErr : Err → String
  | .eof => "eof" | .unexpectedEOF => "ueof" | .lineTooLong => "line-too-long" | .bodyTooLarge => "body-too-large"
  | .malformedRequest => "malformed-request" | .invalidMethod => "invalid-method" | .invalidURI => "invalid-uri"
  | .urlParse => "url-parse" | .malformedHeader => "malformed-header" | .malformedResponse => "malformed-response"
  | .malformedStatus => "malformed-status" | .rtpPrefix => "rtp-prefix" | .rtpChannel => "rtp-channel"
  | .rtpHeader => "rtp-header" | .panic => "panic"

/-- header rendering: keys sorted, `k=v1|v2` joined by ';' (all hex), "-" when empty -/
def showHeader (h : Header) : String :=
  if h.isEmpty then "-" else
  ";".intercalate ((sortHeader h).map (fun kv => bytesToHex kv.1 ++ "=" ++ "|".intercalate (kv.2.map bytesToHex)))

def parseHeader (s : String) : Option Header :=
  if s = "-" then some [] else
  (s.splitOn ";").mapM (fun e =>
    match e.splitOn "=" with
    | [k, vs] =>
      match hexToBytes k, (if vs = "" then some [] else (vs.splitOn "|").mapM hexToBytes) with
      | some k, some vs => some (k, vs)
      | _, _ => none
    | _ => none)

def showReq (ops : UrlOps (Option DrvUrl × Bytes)) (r : Request (Option DrvUrl × Bytes)) : String :=
  s!"req,{bytesToHex r.method},{bytesToHex (ops.print r.url)},{bytesToHex r.proto},{showHeader r.header},{bytesToHex r.body}"

def showResp (r : Response) : String :=
  s!"resp,{bytesToHex r.proto},{r.statusCode},{bytesToHex r.status},{showHeader r.header},{bytesToHex r.body}"

def showPkt (p : Packet) : String := s!"pkt,{p.channel},{p.payloadOffset},{bytesToHex p.data}"

def missingUrl (evs : List (Event (Option DrvUrl × Bytes))) : Option Bytes :=
  evs.findSome? (fun e => match e with
    | .request r => match r.url.1 with | none => some r.url.2 | some _ => none
    | _ => none)

def showEvent (ops : UrlOps (Option DrvUrl × Bytes)) : Event (Option DrvUrl × Bytes) → String
  | .request r => showReq ops r
  | .response r => showResp r
  | .packet p => showPkt p
  | .skipped => "skip"

def parseInts (s : String) : Option (List Int) :=
  if s = "-" then some [] else (s.splitOn ",").mapM (·.toInt?)

def fieldsOfSpec (fs : List (Bytes × Bytes)) : Header := fs.map (fun f => (f.1, [f.2]))

/-- the delivery plan of a `ws` op (see harness/cmd/c14/ws.go): `<client>.<seg>.<end>.<buf>.<body>`;
    result: the buffer length of the reader and, per data message, the lengths of the pieces its
    reader hands out (r: the frames as written; g<n>: frames of n bytes, the client's write buffer) -/
def parseWsPlan (plan : String) : Option (Nat × List (List Nat)) :=
  match plan.splitOn "." with
  | [client, _seg, _end, buf, body] =>
    let cap := if buf = "s" then 131072 else if buf = "m" then 8192 else 65536
    let wbuf : Option (Option Nat) :=
      if client = "r" then some none
      else if client.startsWith "g" then (client.drop 1).toNat?.map (fun n => some (max n 1))
      else none
    match wbuf with
    | none => none
    | some wb =>
      let msgs := if body = "-" || body = "" then [] else body.splitOn "_"
      let parsed : Option (List (Option (List Nat))) := msgs.mapM (fun m =>
        let m : String := if m.startsWith "t" then (m.drop 1).copy else m
        let parts := (m.splitOn "+").filter (fun p => p != "p" && p != "q")
        if parts.isEmpty then some none      -- control frames only: no data message
        else
          match parts.mapM (·.toNat?) with
          | none => none
          | some ls =>
            match wb with
            | none => some (some ls)
            | some n =>
              let total := ls.sum
              some (some (List.replicate (total / n) n ++ (if total % n = 0 then [] else [total % n]))))
      parsed.map (fun l => (cap, l.filterMap id))
  | _ => none

def handleBase : List String → String
  /- the receive loop over a whole stream -/
  | ["recv", _meta, chans, table, stream] =>
    match parseInts chans, parseUrlTable table, hexToBytes stream with
    | some cs, some tb, some s =>
      let ops := mkOps tb
      let r := receiveAll genCfg ops cs (s.length + 1) s
      match missingUrl r.1 with
      | some u => s!"need-url={bytesToHex u}"
      | none =>
        let evs := if r.1.isEmpty then "-" else "/".intercalate (r.1.map (showEvent ops))
        s!"events={evs} err={showErr r.2}"
    | _, _, _ => "bad-op"
  /- one reader called directly -/
  | ["read", "req", _meta, table, stream] =>
    match parseUrlTable table, hexToBytes stream with
    | some tb, some s =>
      let ops := mkOps tb
      match readRequest genCfg ops s with
      | .error e => s!"err={showErr e}"
      | .ok (r, rest) =>
        match r.url.1 with
        | none => s!"need-url={bytesToHex r.url.2}"
        | some _ => s!"ok={showReq ops r} rest={rest.length}"
    | _, _ => "bad-op"
  | ["read", "resp", _meta, stream] =>
    match hexToBytes stream with
    | some s =>
      match readResponse genCfg s with
      | .error e => s!"err={showErr e}"
      | .ok (r, rest) => s!"ok={showResp r} rest={rest.length}"
    | none => "bad-op"
  | ["read", "pkt", _meta, chans, stream] =>
    match parseInts chans, hexToBytes stream with
    | some cs, some s =>
      match readPacket genCfg cs s with
      | .error e => s!"err={showErr e}"
      | .ok (some p, rest) => s!"ok={showPkt p} rest={rest.length}"
      | .ok (none, rest) => s!"ok=skip rest={rest.length}"
    | _, _ => "bad-op"
  /- writers: model output and the specification's encoding of the normal form -/
  | ["wreq", urlok, method, url, hdr, body] =>
    match hexToBytes method, hexToBytes url, parseHeader hdr, hexToBytes body with
    | some m, some u, some h, some b =>
      let ops := mkOps []
      let r : Request (Option DrvUrl × Bytes) := { method := m, url := (some ⟨[], u, u⟩, u), proto := [], header := h, body := b }
      let fs := IpcHub.RtspSpec.normalFields h b
      let valid := urlok = "1" && IpcHub.RtspSpec.requestValid m fs b && (u != [0x2A] || m == methodOptions)
      let expect := s!"req,{bytesToHex m},{bytesToHex u},{bytesToHex (ascii "RTSP/1.0")},{showHeader (IpcHub.RtspSpec.decodedFields fs)},{bytesToHex b}"
      s!"wire={bytesToHex (writeRequest ops r)} spec={bytesToHex (IpcHub.RtspSpec.encodeRequest m u fs b)} valid={boolStr valid} expect={expect}"
    | _, _, _, _ => "bad-op"
  | ["wresp", code, status, hdr, body] =>
    match code.toNat?, hexToBytes status, parseHeader hdr, hexToBytes body with
    | some c, some st, some h, some b =>
      let fs := IpcHub.RtspSpec.normalFields h b
      let reason := statusTextOf genStatusTable c st
      let valid := IpcHub.RtspSpec.responseValid c reason fs b
      let status := IpcHub.RtspSpec.decimal c ++ [0x20] ++ reason
      let expect := s!"resp,{bytesToHex (ascii "RTSP/1.0")},{c},{bytesToHex status},{showHeader (IpcHub.RtspSpec.decodedFields fs)},{bytesToHex b}"
      s!"wire={bytesToHex (writeResponse genStatusTable c st h b)} spec={bytesToHex (IpcHub.RtspSpec.encodeResponse c reason fs b)} valid={boolStr valid} expect={expect}"
    | _, _, _, _ => "bad-op"
  | ["wpkt", rtpok, chans, channel, data] =>
    match parseInts chans, channel.toNat?, hexToBytes data with
    | some cs, some c, some d =>
      match writePacket cs c d with
      | none => "wire=error valid=0"
      | some w =>
        match cs[c]? with
        | some ch =>
          -- a frame the property speaks about: channel number 0..255 that the table maps back
          -- to this channel type, payload of at most 65535 bytes, and (media channels) an RTP header
          let valid := decide (0 ≤ ch ∧ ch ≤ 255) && findChannel cs ch 0 == some c && decide (d.length ≤ 65535)
            && (c == 1 || c == 3 || rtpok = "1")
          s!"wire={bytesToHex w} spec={bytesToHex (IpcHub.RtspSpec.encodeFrame (UInt8.ofNat ch.toNat) d)} valid={boolStr valid} expect=pkt,{c},{bytesToHex d}"
        | none => "wire=error valid=0"
    | _, _, _ => "bad-op"
  | ["limits"] =>
    s!"line={genCfg.maxLine} body={genCfg.maxBody} bodyerr={boolStr genCfg.bodyErrReturned} unknownpkt={boolStr genCfg.unknownChanPacket} badhdrpkt={boolStr genCfg.badHeaderPacket} rtprecover={boolStr genCfg.rtpRecover}"
  | _ => "bad-op"

/-- `ws <plan> <read / recv op>`: the stream of the op travels through the WebSocket transport as
    the plan says (model: `WsTransport.deliver` with the fact of the current tree); what arrives is
    read by the op's reader -/
def handle : List String → String
  | "ws" :: plan :: rest =>
    match parseWsPlan plan, rest.getLast? with
    | some (cap, pl), some hex =>
      match hexToBytes hex with
      | some s =>
        let s' := IpcHub.WsTransport.deliver genWsCfg cap (IpcHub.WsTransport.cutMsgs pl s)
        handleBase (rest.dropLast ++ [bytesToHex s'])
      | none => "bad-op"
    | _, _ => "bad-op"
  | l => handleBase l

end IpcHub.Drv.C14
