import IpcHub.Drv.Util
import IpcHub.Model.MuxInst
namespace IpcHub.Drv.C19
open IpcHub.Patricia IpcHub.Sniffer IpcHub.MuxSpec IpcHub.MuxInst IpcHub.Drv

/-- list of byte strings: "-" = empty list, elements separated by ',', "~" = empty string -/
def parseList (s : String) : Option (List Bytes) :=
  if s = "-" then some [] else
  (s.splitOn ",").mapM (fun e => if e = "~" then some [] else hexToBytes e)

def showList (l : List Bytes) : String :=
  if l.isEmpty then "-" else ",".intercalate (l.map (fun b => if b.isEmpty then "~" else bytesToHex b))

def parseErr (s : String) : Option Err :=
  if s = "e" then some .eof else if s = "t" then some .timeout else if s = "o" then some .other else none

def parseEv (s : String) : Option Ev :=
  match s.toList with
  | 'd' :: r => (String.ofList r).toNat?.map Ev.deliver
  | 'f' :: r => (parseErr (String.ofList r)).map Ev.fail
  | 'x' :: r =>
    match (String.ofList r).splitOn "." with
    | [n, e] => match n.toNat?, parseErr e with
      | some n, some e => some (.deliverFail n e)
      | _, _ => none
    | _ => none
  | _ => none

def parseEvs (s : String) : Option (List Ev) :=
  if s = "-" then some [] else (s.splitOn ",").mapM parseEv

def parseNats (s : String) : Option (List Nat) :=
  if s = "-" then some [] else (s.splitOn ",").mapM (·.toNat?)

def parseOp (s : String) : Option Op :=
  match s.toList with
  | ['S'] => some .start
  | ['D'] => some .done
  | 'r' :: r => (String.ofList r).toNat?.map Op.read
  | _ => none

def parseOps (s : String) : Option (List Op) :=
  if s = "-" then some [] else (s.splitOn ",").mapM parseOp

def showErr : Option Err → String
  | none => "-"
  | some .eof => "eof"
  | some .timeout => "timeout"
  | some .other => "other"
  | some .unexpectedEOF => "ueof"
  | some .hang => "hang"

def showReads (l : List (Bytes × Option Err)) : String :=
  if l.isEmpty then "-" else ";".intercalate (l.map (fun p => bytesToHex p.1 ++ ":" ++ showErr p.2))

def showViews (l : List Bytes) : String :=
  if l.isEmpty then "-" else ";".intercalate (l.map bytesToHex)

def showProto : Proto → String
  | .rtsp => "rtsp" | .http => "http" | .none => "closed"

def handle : List String → String
  | ["pt", mode, strs, input] =>
    match parseList strs, hexToBytes input with
    | some ss, some inp =>
      let t := newTree ss
      let pm := mode = "p"
      let spec := if pm then ss.any (fun s => s.isPrefixOf inp) else ss.contains inp
      s!"match={boolStr (t.matchInput inp pm)} spec={boolStr spec} depth={t.maxDepth}"
    | _, _ => "bad-op"
  | ["split", strs] =>
    match parseList strs with
    | some ss => let r := splitPrefix ss; s!"prefix={bytesToHex r.1} rest={showList r.2}"
    | none => "bad-op"
  | ["mux", stream, evs, sizes] =>
    match hexToBytes stream, parseEvs evs, parseNats sizes with
    | some s, some evs, some ks =>
      match genServe s evs with
      | .error _ => "panic"
      | .ok r =>
        let head := s!"route={showProto (svcOfRoute r.route)} views={showViews r.views}"
        match r.route with
        | .closed => s!"{head} reads=- direct=0 closed=1 deadline={boolStr r.st.deadline}"
        | .service _ =>
          match svcReads r.st ks r.evs [] with
          | .error _ => "panic"
          | .ok (outs, st, _) =>
            s!"{head} reads={showReads outs} direct={boolStr st.direct} closed={boolStr st.closed} deadline={boolStr st.deadline}"
    | _, _, _ => "bad-op"
  | ["ops", stream, evs, ops] =>
    match hexToBytes stream, parseEvs evs, parseOps ops with
    | some s, some evs, some ops =>
      match runOps { st := { rem := s }, evs := evs } ops with
      | .error _ => "panic"
      | .ok tr =>
        s!"outs={showReads tr.outs.reverse} buf={tr.st.buffer.length} br={tr.st.bufferRead} bs={tr.st.bufferSize} sniffing={boolStr tr.st.sniffing} direct={boolStr tr.st.direct}"
    | _, _, _ => "bad-op"
  | ["cls", m, t, v] =>
    match hexToBytes m, hexToBytes t, hexToBytes v with
    | some m, some t, some v =>
      s!"spec={showProto (classify m t v)} ext={boolStr (extendsListed m)} tok={boolStr (tokenOK m)}"
    | _, _, _ => "bad-op"
  | _ => "bad-op"

end IpcHub.Drv.C19
