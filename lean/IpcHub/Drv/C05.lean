import IpcHub.Drv.Util
import IpcHub.Model.RegistryInst
import IpcHub.Spec.Registry
import IpcHub.Model.RegistryLts
namespace IpcHub.Drv.C05
open IpcHub.Drv IpcHub.CanonPath IpcHub.Registry IpcHub.RegistrySpec IpcHub.RegistryLts

def nat? (s : String) : Option Nat := s.toNat?

/-- one op token: fields separated by ':' -/
def parseOp (tok : String) : Option Op :=
  match tok.splitOn ":" with
  | ["new", p, h] => (hexToChars p).map (fun p => .new p (h = "1"))
  | ["reg", i] => (nat? i).map .regist
  | ["unreg", i] => (nat? i).map .unregist
  | ["close", i] => (nat? i).map .close
  | ["stop", p] => (hexToChars p).map .stop
  | ["join", i, f] => (nat? i).map (fun i => .join i (f = "1"))
  | ["leave", i, f, c] => match nat? i, nat? c with
    | some i, some c => some (.leave i (f = "1") c)
    | _, _ => none
  | ["tick", t, d] => match nat? t, nat? d with
    | some t, some d => some (.tick t d)
    | _, _ => none
  | ["touch", i] => (nat? i).map .touch
  | ["adv", n] => (nat? n).map .advance
  | ["get", p] => (hexToChars p).map .get
  -- media.GetOrCreate(path) for a path no route matches: its lookup is `Get(path)` (the first call of its body:
  -- fact getOrCreateCalls, an obligation of c05_source_facts) and nothing else happens, so it is the
  -- specification's lookup: "a closed or unregistered stream is never returned by lookup"
  | ["goc", p] => (hexToChars p).map .get
  | ["count"] => some .count
  | ["infos", t, n] => match hexToChars t, nat? n with
    | some t, some n => some (.infos t n)
    | _, _ => none
  | ["info", p] => (hexToChars p).map .info
  | ["idle", i] => (nat? i).map .postIdle
  | ["probe", i] => (nat? i).map .probe
  | _ => none

def parseOps : List String → Option (List Op)
  | [] => some []
  | t :: ts => match parseOp t, parseOps ts with
    | some o, some os => some (o :: os)
    | _, _ => none

def optNat : Option Nat → String
  | none => "nil"
  | some n => toString n

def showObs : Obs → String
  | .unit => "-"
  | .sid o => "s" ++ optNat o
  | .cid o => "c" ++ optNat o
  | .cnt a b => s!"n{a}/{b}"
  | .paths t ps => s!"p{t}[" ++ ",".intercalate (ps.map charsToHex) ++ "]"
  | .sinfo none => "inil"
  | .sinfo (some (p, cc)) => s!"i{charsToHex p}/{cc}"
  | .tick (.ran c) => "t" ++ boolStr c
  | .tick .panic => "tpanic"
  | .tick .bad => "tbad"
  | .probe ok n => s!"q{boolStr ok}/{n}"

def showAll (os : List Obs) : String := if os.isEmpty then "-" else ";".intercalate (os.map showObs)

def parseROp (tok : String) : Option ROp :=
  match tok.splitOn ":" with
  | ["reg", i] => (nat? i).map .regist
  | ["unreg", i] => (nat? i).map .unregist
  | _ => none

def ropToOp : ROp → Op
  | .regist i => .regist i
  | .unregist i => .unregist i

/-- split a token list at the first "/" -/
def splitBar : List String → List String × List String
  | [] => ([], [])
  | t :: ts => if t = "/" then ([], ts) else let (a, b) := splitBar ts; (t :: a, b)

def locksHeld : Bool := IpcHub.Gen.registLocked && IpcHub.Gen.unregistLocked && IpcHub.Gen.registLockIsMutex

/-- `race <pre ops> / <A> <B> / <post ops>`: thread A is paused at its verif point (after Load),
    B runs, A resumes.  model = observations of the post ops after the LTS run with the source's
    locking fact; ab / ba = the specification after the two serial orders. -/
def handleRace (toks : List String) : String :=
  let (pre, rest) := splitBar toks
  let (mid, post) := splitBar rest
  match parseOps pre, mid.map parseROp, parseOps post with
  | some pre, [some a, some b], some post =>
    let st0 := run asciiCfg genFacts State.empty pre
    let c := runSched locksHeld (initC st0 [a, b]) pauseSchedule
    let m := showAll (runObs asciiCfg genFacts c.st post)
    let a0 := specRun asciiCfg Abs.empty pre
    let ab := showAll (specObs asciiCfg (specRun asciiCfg a0 [ropToOp a, ropToOp b]) post)
    let ba := showAll (specObs asciiCfg (specRun asciiCfg a0 [ropToOp b, ropToOp a]) post)
    s!"model={m} done={boolStr (allDone c)} ab={ab} ba={ba}"
  | _, _, _ => "bad-op"

/-- `hist <op> <op> …` → `model=<obs;obs;…> spec=<obs;…>`
    `canon <hex>` → `model=<hex>` -/
def handle : List String → String
  | "hist" :: toks =>
    match parseOps toks with
    | some ops =>
      s!"model={showAll (runObs asciiCfg genFacts State.empty ops)} spec={showAll (specObs asciiCfg Abs.empty ops)}"
    | none => "bad-op"
  | "race" :: toks => handleRace toks
  | ["canon", p] =>
    match hexToChars p with
    | some p => s!"model={charsToHex (canonicalPath asciiCfg p)}"
    | none => "bad-op"
  | _ => "bad-op"

end IpcHub.Drv.C05
