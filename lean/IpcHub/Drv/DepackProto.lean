/-
Line protocol shared by the C06 and C07 drivers: stream description → packets (specification
packetiser) → model run (Model/Depack) → frames; and the judge (property predicate) applied to
frames observed on the implementation.  Imports Model / Spec / Gen only.

tokens are `key=value`:
  codec=h264|h265  cfg=gen|pinned  rate=<video clock>  arate=<audio clock>  aac=0|1
  seq0=<n> aseq0=<n>  ready=0|1 wk=0|1 sps=<hex> pps=<hex> vps=<hex>  base=<n> abase=<n>
  ok=<hex>+<hex>… ko=<hex>+…      SPS byte strings the real decoder accepts / rejects
  s=<elem>,<elem>,…               the stream, one element per sender decision
       S.<ts>.<m>.<nal>           single NAL unit packet
       A.<ts>.<m>.<nal>+<nal>…    aggregation packet (STAP-A / AP)
       F.<ts>.<m>.<nal>.<c>+<c>…  fragmented unit, fragment sizes (the last takes the rest)
       R.<ts>.<m>.<payload>       video packet with an arbitrary payload (malformed stream)
       C.<rtcp>                   packet on the video control channel
       U.<ts>.<m>.<au>+<au>…      AAC packet with these AUs
       Q.<ts>.<m>.<payload>       audio packet with an arbitrary payload
       X.<rtcp>                   packet on the audio control channel
  order=*|<i>+<j>+…               arrival order as positions into the packet list
  sub=<i>:<payload>+<j>:<payload>… corruption in place: the payload of the packet at position i is
                                  replaced (same channel, sequence number and timestamp); the item
                                  the packet belongs to no longer counts as well-formed (contain)
  mode=exact|contain              judge: exact C06 predicate / containment (the units of the
                                  well-formed items must appear, in order, among the frames)
  skip=<k>                        the first k video items are a parameter-set prefix, not judged
  strict=1                        contain: additionally every frame must be a unit of the stream
  nofiller=1                      judge against the units without H.264 filler data (type 12)
  noaudio=1                       do not judge the audio frames
  nots=1                          compare bytes only (observations without RTP timestamps: FLV tags, TS frames)
  obs=<a>.<ts>.<pts>.<digest>,…   frames observed on the implementation (judge)
-/
import IpcHub.Drv.Util
import IpcHub.Spec.Packetise
import IpcHub.Model.DepackInst
namespace IpcHub.Drv.DepackProto
open IpcHub.Depack IpcHub.Packetise IpcHub.Drv

def kv (ts : List String) (k : String) : Option String :=
  (ts.find? (fun t => (k ++ "=").isPrefixOf t)).map (fun t => (t.drop (k.length + 1)).toString)

def kvNat (ts : List String) (k : String) (d : Nat) : Nat :=
  match kv ts k with
  | some v => v.toNat?.getD d
  | none => d

def splitNE (s : String) (c : Char) : List String :=
  if s = "" || s = "-" then [] else (s.splitOn (String.singleton c))

def hexList (s : String) : Option (List Bytes) :=
  if s = "" then some [] else (s.splitOn "+").mapM hexToBytes

inductive Elem where
  | item (it : Item)
  | raw (ts : UInt32) (m : Bool) (payload : Bytes)
  | vctl (data : Bytes)
  | aac (ts : UInt32) (m : Bool) (aus : List Bytes)
  | araw (ts : UInt32) (m : Bool) (payload : Bytes)
  | actl (data : Bytes)
deriving Repr, Inhabited

def parseElem (s : String) : Option Elem :=
  match s.splitOn "." with
  | ["S", ts, m, h] => do
    let n ← hexToBytes h; let t ← ts.toNat?
    pure (.item (.single (UInt32.ofNat t) (m = "1") n))
  | ["A", ts, m, hs] => do
    let ns ← hexList hs; let t ← ts.toNat?
    pure (.item (.agg (UInt32.ofNat t) (m = "1") ns))
  | ["F", ts, m, h, cs] => do
    let n ← hexToBytes h; let t ← ts.toNat?
    let cuts ← (splitNE cs '+').mapM (·.toNat?)
    pure (.item (.frag (UInt32.ofNat t) (m = "1") n cuts))
  | ["R", ts, m, h] => do
    let n ← hexToBytes h; let t ← ts.toNat?
    pure (.raw (UInt32.ofNat t) (m = "1") n)
  | ["C", h] => do let d ← hexToBytes h; pure (.vctl d)
  | ["U", ts, m, hs] => do
    let ns ← hexList hs; let t ← ts.toNat?
    pure (.aac (UInt32.ofNat t) (m = "1") ns)
  | ["Q", ts, m, h] => do
    let n ← hexToBytes h; let t ← ts.toNat?
    pure (.araw (UInt32.ofNat t) (m = "1") n)
  | ["X", h] => do let d ← hexToBytes h; pure (.actl d)
  | _ => none

/-- a packet with its channel (0 video, 1 video control, 2 audio, 3 audio control) -/
structure WPkt where
  ch : Nat
  pkt : Pkt
deriving Repr, Inhabited

structure Built where
  pkts : List WPkt := []
  vspans : List (Item × Nat × Nat) := []
  aspans : List (UInt32 × List Bytes × Nat) := []

/-- packetise the stream with the specification packetiser; positions count every packet -/
def build (pl : Item → List Bytes) : UInt16 → UInt16 → Nat → List Elem → Built
  | _, _, _, [] => {}
  | vs, as, pos, e :: es =>
    match e with
    | .item it =>
      let ps := mkPkts it.ts it.marker vs (pl it)
      let r := build pl (vs + UInt16.ofNat ps.length) as (pos + ps.length) es
      { r with pkts := ps.map (⟨0, ·⟩) ++ r.pkts, vspans := (it, pos, ps.length) :: r.vspans }
    | .raw ts m b =>
      let r := build pl (vs + 1) as (pos + 1) es
      { r with pkts := ⟨0, ⟨vs, ts, m, b⟩⟩ :: r.pkts }
    | .vctl d =>
      let r := build pl vs as (pos + 1) es
      { r with pkts := ⟨1, ⟨0, 0, false, d⟩⟩ :: r.pkts }
    | .aac ts m aus =>
      let r := build pl vs (as + 1) (pos + 1) es
      { r with pkts := ⟨2, ⟨as, ts, m, aacPayload aus⟩⟩ :: r.pkts, aspans := (ts, aus, pos) :: r.aspans }
    | .araw ts m b =>
      let r := build pl vs (as + 1) (pos + 1) es
      { r with pkts := ⟨2, ⟨as, ts, m, b⟩⟩ :: r.pkts }
    | .actl d =>
      let r := build pl vs as (pos + 1) es
      { r with pkts := ⟨3, ⟨0, 0, false, d⟩⟩ :: r.pkts }

def toIn (w : WPkt) : In :=
  match w.ch with
  | 0 => .video w.pkt
  | 1 => .vctl w.pkt.payload
  | 2 => .audio w.pkt
  | _ => .actl w.pkt.payload

def fnv (bs : Bytes) : UInt64 :=
  bs.foldl (fun h b => (h ^^^ b.toUInt64) * 0x100000001b3) 0xcbf29ce484222325

def hex64 (x : UInt64) : String :=
  String.ofList ((List.range 16).map (fun i => nibble ((x.toNat / 16 ^ (15 - i)) % 16)))

/-- short payloads verbatim, long ones as length + FNV-1a digest -/
def digest (bs : Bytes) : String :=
  if bs.length ≤ 40 then bytesToHex bs else s!"#{bs.length}:{hex64 (fnv bs)}"

def statusChar : Status → Char
  | .ok => 'o' | .err => 'e' | .panic => 'p' | .fuel => 'f'

def intStr (i : Int) : String := if i < 0 then s!"-{i.natAbs}" else s!"{i.natAbs}"

/-- `sub=<pos>:<hex>+…` -/
def parseSubs (s : String) : Option (List (Nat × Bytes)) :=
  (splitNE s '+').mapM (fun t =>
    match t.splitOn ":" with
    | [p, h] => do let n ← p.toNat?; let b ← hexToBytes h; pure (n, b)
    | _ => none)

def applySubs (subs : List (Nat × Bytes)) : Nat → List WPkt → List WPkt
  | _, [] => []
  | i, w :: ws =>
    (match subs.find? (fun s => s.1 = i) with
      | some (_, b) => { w with pkt := { w.pkt with payload := b } }
      | none => w) :: applySubs subs (i + 1) ws

structure Setup where
  cfg : Cfg
  codec : VCodec
  pl : Item → List Bytes
  rate : Nat
  arate : Nat
  d0 : DemuxSt
  ok : List Bytes
  ko : List Bytes
  built : Built
  order : List Nat
  ordered : List WPkt
  /-- positions whose payload was replaced (`sub=`) -/
  subs : List Nat := []
  /-- the arrival order restricted to the packets of the video RTP stream (channel 0): audio and
      RTCP travel in their own streams / channels, interleaving them is not reordering -/
  vorder : List Nat := []

def parseSetup (ts : List String) : Option Setup := do
  let codec := if kv ts "codec" = some "h265" then VCodec.h265 else VCodec.h264
  let cfg := if kv ts "cfg" = some "pinned" then pinnedCfg else genCfg
  let pl := match codec with | .h264 => payloads264 | .h265 => payloads265
  let elems ← (splitNE ((kv ts "s").getD "") ',').mapM parseElem
  let b0 := build pl (UInt16.ofNat (kvNat ts "seq0" 0)) (UInt16.ofNat (kvNat ts "aseq0" 0)) 0 elems
  let subs ← parseSubs ((kv ts "sub").getD "")
  let b := { b0 with pkts := applySubs subs 0 b0.pkts }
  let order ← match kv ts "order" with
    | none | some "*" => some (List.range b.pkts.length)
    | some o => (splitNE o '+').mapM (·.toNat?)
  let sps ← hexToBytes ((kv ts "sps").getD "-")
  let pps ← hexToBytes ((kv ts "pps").getD "-")
  let vps ← hexToBytes ((kv ts "vps").getD "-")
  let ok ← hexList ((kv ts "ok").getD "")
  let ko ← hexList ((kv ts "ko").getD "")
  let v : VSt := { vmeta := { vps := vps, sps := sps, pps := pps, widthKnown := kv ts "wk" = some "1" },
                   ready := kv ts "ready" = some "1", base := UInt32.ofNat (kvNat ts "base" 0) }
  let d0 : DemuxSt := { codec := codec, hasAac := kv ts "aac" = some "1", v := v, abase := UInt32.ofNat (kvNat ts "abase" 0) }
  let arr := b.pkts.toArray
  pure { cfg, codec, pl, rate := kvNat ts "rate" 90000, arate := kvNat ts "arate" 44100, d0, ok, ko, built := b,
         order, ordered := order.filterMap (fun i => arr[i]?), subs := subs.map (·.1),
         vorder := order.filter (fun i => match arr[i]? with | some w => w.ch = 0 | none => false) }

def runAll (cfg : Cfg) (spsOk : Bytes → Bool) : DemuxSt → List WPkt → DemuxSt × List Frame × List Status
  | d, [] => (d, [], [])
  | d, w :: ws =>
    let (d1, fs, s) := demuxStep cfg spsOk d (toIn w)
    let (d2, gs, ss) := runAll cfg spsOk d1 ws
    (d2, fs ++ gs, s :: ss)

def isSpsFrame (c : VCodec) (f : Frame) : Bool :=
  !f.audio && match f.payload with
    | [] => false
    | b :: _ => match c with | .h264 => (b &&& 0x1f) = 7 | .h265 => nalType265 b = 33

/-- `run …` → packets, model frames, per-packet status, final state, unknown SPS candidates -/
def run (ts : List String) : String :=
  match parseSetup ts with
  | none => "bad-op"
  | some su =>
    let spsOk : Bytes → Bool := fun b => su.ok.contains b
    let (d, fs, ss) := runAll su.cfg spsOk su.d0 su.ordered
    -- every SPS the depacketizer could consult: the type-7/33 NAL units of a forced-ready run
    let forced := { su.d0 with v := { su.d0.v with ready := true } }
    let (_, gs, _) := runAll su.cfg spsOk forced su.ordered
    let cands := ((gs.filter (isSpsFrame su.codec)).map (·.payload) ++ [su.d0.v.vmeta.sps]).eraseDups
    let unk := cands.filter (fun c => !c.isEmpty && !su.ok.contains c && !su.ko.contains c)
    let pk := ",".intercalate (su.built.pkts.map (fun w =>
      s!"{w.ch}.{w.pkt.seq.toNat}.{w.pkt.ts.toNat}.{boolStr w.pkt.marker}.{bytesToHex w.pkt.payload}"))
    let fr := ",".intercalate (fs.map (fun f =>
      let r := if f.audio then su.arate else su.rate
      s!"{boolStr f.audio}.{f.ts.toNat}.{f.base.toNat}.{intStr (f.pts su.cfg r)}.{digest f.payload}"))
    let sts := String.ofList (ss.map statusChar)
    s!"pkts={if pk = "" then "-" else pk} frames={if fr = "" then "-" else fr} sts={if sts = "" then "-" else sts} alive={boolStr d.alive} ready={boolStr d.v.ready} sps={digest d.v.vmeta.sps} pps={digest d.v.vmeta.pps} vps={digest d.v.vmeta.vps} nfrags={d.v.frags.length} vbase={d.v.base.toNat} abase={d.abase.toNat} unk={"+".intercalate (unk.map bytesToHex)}"

structure Obs where
  audio : Bool
  ts : UInt32
  pts : Int
  dig : String

def parseInt (s : String) : Option Int :=
  if s.startsWith "-" then (s.drop 1).toString.toNat?.map (fun n => -(n : Int)) else s.toNat?.map (fun n => (n : Int))

def parseObs (s : String) : Option Obs :=
  match s.splitOn "." with
  | [a, ts, pts, d] => do
    let t ← ts.toNat?; let p ← parseInt pts
    pure ⟨a = "1", UInt32.ofNat t, p, d⟩
  | _ => none

def digBytes (s : String) : Bytes := s.toUTF8.toList

/-- replace every NAL of the item by (the bytes of) its digest: the judge only compares units -/
def digItem : Item → Item
  | .single ts m n => .single ts m (digBytes (digest n))
  | .agg ts m ns => .agg ts m (ns.map (fun n => digBytes (digest n)))
  | .frag ts m n c => .frag ts m (digBytes (digest n)) c

/-- keep only the NAL units satisfying `keep` (an aggregation may become empty: no units) -/
def filterItem (keep : Bytes → Bool) : Item → Item
  | .single ts m n => if keep n then .single ts m n else .agg ts m []
  | .agg ts m ns => .agg ts m (ns.filter keep)
  | .frag ts m n c => if keep n then .frag ts m n c else .agg ts m []

def zeroTs (z : Bool) : Item → Item
  | .single ts m n => .single (if z then 0 else ts) m n
  | .agg ts m ns => .agg (if z then 0 else ts) m ns
  | .frag ts m n c => .frag (if z then 0 else ts) m n c

/-- the step from t1 to t2 crosses the 2^32 boundary of the RTP timestamp -/
def pairWraps (t1 t2 : UInt32) : Bool := (tsDiff t2 t1 > 0 && t2 < t1) || (tsDiff t2 t1 < 0 && t2 > t1)

/-- the adjacent pairs of frames that violate the presentation-time clause -/
def ptsFails (rate : Nat) (tol : Int) : List (UInt32 × Int) → List (UInt32 × UInt32)
  | (t1, p1) :: (t2, p2) :: r =>
    (if ptsHolds rate tol [(t1, p1), (t2, p2)] then [] else [(t1, t2)]) ++ ptsFails rate tol ((t2, p2) :: r)
  | _ => []

/-- class of a presentation-time verdict.  The two open findings explain exactly this much: a pair
    that crosses the timestamp wrap (`rtp-timestamp-wrap`), and at most ONE further pair per media
    stream that has an RTCP packet on its control channel (`sr-rebase`: the clock is re-based once,
    while it is still 0).  Anything beyond that is `pts-mismatch`. -/
def ptsClass (rate : Nat) (tol : Int) (hasCtl : Bool) (l : List (UInt32 × Int)) : String :=
  let fails := ptsFails rate tol l
  let other := fails.filter (fun (t1, t2) => !pairWraps t1 t2)
  if fails.isEmpty then "ok"
  else if other.isEmpty then "rtp-timestamp-wrap"
  else if hasCtl && other.length ≤ 1 then "sr-rebase"
  else "pts-mismatch"

/-- `judge … obs=…` → verdict of the property predicate on the observed frames -/
def judgeOp (ts : List String) : String :=
  match parseSetup ts with
  | none => "bad-op"
  | some su =>
    match (splitNE ((kv ts "obs").getD "") ',').mapM parseObs with
    | none => "bad-op"
    | some obs =>
      let vobs := obs.filter (!·.audio)
      let aobs := obs.filter (·.audio)
      -- nots=1: compare the bytes only (FLV tags / TS frames carry no RTP timestamp)
      let nots := kv ts "nots" = some "1"
      let zt (t : UInt32) : UInt32 := if nots then 0 else t
      let vpairs := vobs.map (fun o => (zt o.ts, digBytes o.dig))
      let apairs := aobs.map (fun o => (zt o.ts, digBytes o.dig))
      let nofiller := kv ts "nofiller" = some "1"
      let keep (n : Bytes) : Bool := !(nofiller && su.codec = .h264 && (match n with | b :: _ => (b &&& 0x1f) = 12 | [] => false))
      let spAll := su.built.vspans.map (fun (it, p, n) => (zeroTs nots (digItem (filterItem keep it)), p, n))
      let sp := spAll.drop (kvNat ts "skip" 0)
      let contain := kv ts "mode" = some "contain"
      let strict := kv ts "strict" = some "1"
      let allUnits := spAll.flatMap (fun (it, _, _) => it.units)
      let vv : Verdict :=
        if contain then
          let expect := sp.flatMap (fun (it, p, n) =>
            match it with
            | .frag .. => if (List.range n).all (fun k => su.order.contains (p + k) && !su.subs.contains (p + k)) then it.units else []
            | _ => if su.order.contains p && !su.subs.contains p then it.units else [])
          if strict && vpairs.any (fun o => !allUnits.contains o) then ⟨false, "invented-unit", "a frame is not a unit of the sender"⟩
          else if isSubseq expect vpairs then ⟨true, "ok", ""⟩
          else ⟨false, "good-unit-lost", s!"{expect.length} units of well-formed packets expected as a subsequence of {vpairs.length} frames"⟩
        else judgeSpans sp su.vorder vpairs
      -- audio: every arriving AAC packet hands on its AUs, in arrival order
      let aexpect := su.order.flatMap (fun i =>
        if su.subs.contains i then [] else
        match su.built.aspans.find? (fun (_, _, p) => p = i) with
        | some (t, aus, _) => (aacUnits su.cfg.samplesPerFrame t aus).map (fun (t, a) => (zt t, digBytes (digest a)))
        | none => [])
      let av : Verdict :=
        if kv ts "noaudio" = some "1" then ⟨true, "ok", ""⟩
        else if contain then (if isSubseq aexpect apairs then ⟨true, "ok", ""⟩ else ⟨false, "good-au-lost", ""⟩)
        else if apairs == aexpect then ⟨true, "ok", ""⟩
        else ⟨false, "au-mismatch", s!"{apairs.length} audio frames, expected {aexpect.length}"⟩
      -- tolerance: each observed PTS is the float64 product truncated, within 1 ns of the exact
      -- rational `conv`; `conv a − conv b` and `conv (a − b)` differ by < 2 when a, b have the same
      -- sign (truncation toward zero): 1 + 1 + 1 < 4
      let tol : Int := 4
      let vp := vobs.map (fun o => (o.ts, o.pts))
      let ap := aobs.map (fun o => (o.ts, o.pts))
      let vctl := su.ordered.any (fun w => w.ch = 1)
      let actl := su.ordered.any (fun w => w.ch = 3)
      s!"video={vv.cls} audio={av.cls} vpts={ptsClass su.rate tol vctl vp} apts={ptsClass su.arate tol actl ap} detail={(vv.detail ++ "|" ++ av.detail).replace " " "_"}"

def handle : List String → String
  | "run" :: ts => run ts
  | "judge" :: ts => judgeOp ts
  | _ => "bad-op"

end IpcHub.Drv.DepackProto
