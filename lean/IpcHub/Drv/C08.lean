import IpcHub.Drv.Util
import IpcHub.Model.FlvInst
import IpcHub.Spec.FlvParse
import IpcHub.Model.FlvAssume
import IpcHub.Model.FlvJoin
/-
Line protocol of property C08 (one output line per input line):

  mux  <key=value>… f:<mediaType>:<dts ns>:<pts ns>:<payload hex>…
       keys: cfg=gen|pinned|fixed codec=h264|h265|other w h fr vdr sps pps vps hv hs aac asr ass ach adr asc
             date known impl sv (H.264: h264.RawSPS.Decode(sps) succeeds)
       → `model=<same|hex|err> dead=<0|1> app=<0|1> spec=<ok|fail> mspec=<ok|fail>` (same: equal to impl=)
       (model: all bytes of NewWriter+NewMuxer fed with the frames; spec: Spec.checkMux on impl=…;
        app: the hypotheses of c08_end_to_end hold for this input)
  joinat  the keys of mux, plus gop=<0|1> k=<n> [sched=… who=… via=…: the harness's scenario, ignored here]
       → same answer as mux; model: Model/FlvJoin.joinBytes — muxer tags → FLV cache replay at tag k
       (Model/FlvCacheM.expected) → the client's writer; spec: Spec.checkJoinedAt on impl=;
       app: the hypotheses of c08_joiner_end_to_end hold
  wr   cfg=… flags=<n> impl=<hex> t:<tagType>:<time ms>:<data hex>…
       → `model=<hex|err> app=<0|1> spec=<ok|fail> mspec=<ok|fail>`
-/
namespace IpcHub.Drv.C08
open IpcHub.Drv IpcHub.Flv IpcHub.FlvSpec IpcHub.FlvLemmas

def hexVal (b : UInt8) : Option Nat :=
  if 48 ≤ b ∧ b ≤ 57 then some (b.toNat - 48)
  else if 97 ≤ b ∧ b ≤ 102 then some (b.toNat - 87)
  else if 65 ≤ b ∧ b ≤ 70 then some (b.toNat - 55)
  else none

/-- bytes `2*i-2, 2*i-1` … of the hex text, built back to front (no reversal) -/
def unhexLoop (a : ByteArray) : Nat → Bytes → Option Bytes
  | 0, acc => some acc
  | i + 1, acc =>
    match hexVal (a.get! (2 * i)), hexVal (a.get! (2 * i + 1)) with
    | some x, some y => unhexLoop a i (UInt8.ofNat (x * 16 + y) :: acc)
    | _, _ => none

/-- "-" is the empty string (same convention as Util.hexToBytes, faster on long inputs) -/
def unhex (s : String) : Option Bytes :=
  if s = "-" then some [] else
  let a := s.toUTF8
  if a.size % 2 ≠ 0 then none else unhexLoop a (a.size / 2) []

def kvOf (ts : List String) : List (String × String) :=
  ts.filterMap fun t =>
    match t.splitOn "=" with
    | [k, v] => some (k, v)
    | _ => none

def get (kv : List (String × String)) (k : String) : Option String :=
  (kv.find? (·.1 == k)).map (·.2)

def getBytes (kv : List (String × String)) (k : String) : Option Bytes :=
  (get kv k).bind unhex

def getInt (kv : List (String × String)) (k : String) : Option Int :=
  (get kv k).bind String.toInt?

def hexNat (s : String) : Option Nat :=
  s.toList.foldl (fun acc c => match acc, hexDigit c with
    | some a, some d => some (a * 16 + d)
    | _, _ => none) (some 0)

def getHexNat (kv : List (String × String)) (k : String) : Option Nat :=
  (get kv k).bind hexNat

def cfgOf (kv : List (String × String)) : Cfg :=
  match get kv "cfg" with
  | some "pinned" => pinnedCfg
  | some "fixed" => fixedCfg
  | _ => genCfg

def natsOf (s : String) : Option (List Nat) :=
  (s.splitOn ",").mapM String.toNat?

def parsePtl : List Nat → Option HevcPtl
  | [sp, ti, idc, co, cn, lv] =>
    some { space := UInt8.ofNat sp, tier := UInt8.ofNat ti, idc := UInt8.ofNat idc,
           compat := UInt32.ofNat co, constraint := UInt64.ofNat cn, level := UInt8.ofNat lv }
  | _ => none

def parseHv (s : String) : Option (Option HevcVpsInfo) :=
  if s = "-" then some none else
  match natsOf s with
  | some (m :: rest) => (parsePtl rest).map fun p => some { maxSubLayersMinus1 := UInt8.ofNat m, ptl := p }
  | _ => none

def parseHs (s : String) : Option (Option HevcSpsInfo) :=
  if s = "-" then some none else
  match natsOf s with
  | some [m, n, sp, ti, idc, co, cn, lv, ch, lu, cb] =>
    (parsePtl [sp, ti, idc, co, cn, lv]).map fun p =>
      some { maxSubLayersMinus1 := UInt8.ofNat m, nesting := UInt8.ofNat n, ptl := p,
             chroma := UInt8.ofNat ch, lumaM8 := UInt8.ofNat lu, chromaM8 := UInt8.ofNat cb }
  | _ => none

def parseFrame (t : String) : Option Frame :=
  match t.splitOn ":" with
  | ["f", mt, d, p, h] =>
    match mt.toInt?, d.toInt?, p.toInt?, unhex h with
    | some mt, some d, some p, some h => some { mediaType := mt, dts := d, pts := p, payload := h }
    | _, _, _, _ => none
  | _ => none

def parseSrcTag (t : String) : Option (Tag × SrcTag) :=
  match t.splitOn ":" with
  | ["t", ty, tm, h] =>
    match ty.toNat?, tm.toInt?, unhex h with
    | some ty, some tm, some h =>
      some ({ tagType := UInt8.ofNat ty, timestamp := u32OfInt tm, data := h },
            { tagType := ty, time := tm, data := h })
    | _, _, _ => none
  | _ => none

def okStr (b : Bool) : String := if b then "ok" else "fail"

/-- the hypotheses of `c08_end_to_end` on the carried frames -/
def frameOk (f : Frame) : Bool :=
  (f.mediaType = 0 → f.payload ≠ []) && f.payload.length + 9 < 16777216 &&
  decide (-2147483648 ≤ tagTimeMs f ∧ tagTimeMs f < 2147483648) &&
  decide (-8388608 ≤ msOf f.pts - msOf f.dts ∧ msOf f.pts - msOf f.dts < 8388608)

/-- the hypotheses of `c08_joiner_end_to_end` on a carried frame, apart from the time window -/
def frameFits (f : Frame) : Bool :=
  (f.mediaType = 0 → f.payload ≠ []) && f.payload.length + 9 < 16777216 &&
  decide (-8388608 ≤ msOf f.pts - msOf f.dts ∧ msOf f.pts - msOf f.dts < 8388608)

def handleMux (joinAt : Bool) (ts : List String) : String :=
  let kv := kvOf ts
  let frames? := (ts.filter (·.startsWith "f:")).mapM parseFrame
  let codec : VCodec := match get kv "codec" with
    | some "h264" => .h264 | some "h265" => .h265 | _ => .other
  match frames?, getInt kv "w", getInt kv "h", getHexNat kv "fr", getHexNat kv "vdr",
        getBytes kv "sps", getBytes kv "pps", getBytes kv "vps" with
  | some frames, some w, some h, some fr, some vdr, some sps, some pps, some vps =>
    match (get kv "hv").bind parseHv, (get kv "hs").bind parseHs, getInt kv "asr", getInt kv "ass",
          getInt kv "ach", getHexNat kv "adr", getBytes kv "asc", getBytes kv "date",
          (get kv "known").bind String.toNat?, getBytes kv "impl" with
    | some hv, some hs, some asr, some ass, some ach, some adr, some asc, some date, some known, some impl =>
      let vm : VideoMeta := { codec := codec, width := w, height := h, frameRate := UInt64.ofNat fr, dataRate := UInt64.ofNat vdr,
                              sps := sps, pps := pps, vps := vps, hevcVps := hv, hevcSps := hs,
                              avcSpsOk := get kv "sv" == some "1" }
      let am : AudioMeta := { aac := get kv "aac" == some "1", sampleRate := asr, sampleSize := ass,
                              channels := ach, dataRate := UInt64.ofNat adr, asc := asc }
      let src : Src := srcOf vm am
      let want := fromStart src known frames
      let app := codec ≠ .other && hevcFaithful vm && (want.filter (carried src)).all frameOk &&
                 (want = [] || (videoMetaReady vm && sps.length < 65536 && pps.length < 65536 && vps.length < 65536
                    && asc.length + 2 < 16777216 && date.length < 65536))
      if joinAt then
        match (get kv "k").bind String.toNat? with
        | none => "bad-op"
        | some k =>
          let gop := get kv "gop" == some "1"
          let cf := want.filter (carried src)
          let v := joinView src gop cf (k - prefixLen src)
          let japp := codec ≠ .other && hevcFaithful vm && cf.all frameFits &&
            v.2.all (fun f => decide (-2147483648 ≤ tagTimeMs f - v.1 ∧ tagTimeMs f - v.1 < 2147483648)) &&
            (want = [] || (videoMetaReady vm && sps.length < 65536 && pps.length < 65536 && vps.length < 65536
               && asc.length + 2 < 16777216 && date.length < 65536))
          match IpcHub.FlvJoin.joinBytes (cfgOf kv) vm am date known frames gop k with
          | none => s!"model=err dead=0 app={boolStr japp} spec={okStr (checkJoinedAt src want gop k impl)} mspec=fail"
          | some (bs, dead) =>
            let sp := checkJoinedAt src want gop k impl
            if bs = impl then s!"model=same dead={boolStr dead} app={boolStr japp} spec={okStr sp} mspec={okStr sp}"
            else s!"model={bytesToHex bs} dead={boolStr dead} app={boolStr japp} spec={okStr sp} mspec={okStr (checkJoinedAt src want gop k bs)}"
      else
      match muxBytes (cfgOf kv) vm am date known frames with
      | none => s!"model=err dead=0 app={boolStr app} spec={okStr (checkMux src want impl)} mspec=fail"
      | some (bs, dead) =>
        let sp := checkMux src want impl
        if bs = impl then s!"model=same dead={boolStr dead} app={boolStr app} spec={okStr sp} mspec={okStr sp}"
        else s!"model={bytesToHex bs} dead={boolStr dead} app={boolStr app} spec={okStr sp} mspec={okStr (checkMux src want bs)}"
    | _, _, _, _, _, _, _, _, _, _ => "bad-op"
  | _, _, _, _, _, _, _, _ => "bad-op"

def handleWr (ts : List String) : String :=
  let kv := kvOf ts
  match (ts.filter (·.startsWith "t:")).mapM parseSrcTag, (get kv "flags").bind String.toNat?, getBytes kv "impl" with
  | some tags, some flags, some impl =>
    let src := tags.map (·.2)
    let fl := UInt8.ofNat flags
    let app := (match src with
      | [] => true
      | s0 :: _ => src.all fun s => decide (-2147483648 ≤ s.time - s0.time ∧ s.time - s0.time < 2147483648) &&
                                    s.data.length < 16777216 && s.tagType < 32) && fl &&& 5 ≠ 0
    match clientBytes (cfgOf kv) fl (tags.map (·.1)) with
    | none => s!"model=err app={boolStr app} spec={okStr (checkClient fl src impl)} mspec=fail"
    | some bs =>
      let sp := checkClient fl src impl
      if bs = impl then s!"model=same app={boolStr app} spec={okStr sp} mspec={okStr sp}"
      else s!"model={bytesToHex bs} app={boolStr app} spec={okStr sp} mspec={okStr (checkClient fl src bs)}"
  | _, _, _ => "bad-op"

def handle : List String → String
  | "mux" :: ts => handleMux false ts
  | "joinat" :: ts => handleMux true ts
  | "wr" :: ts => handleWr ts
  | _ => "bad-op"

end IpcHub.Drv.C08
