import IpcHub.Drv.Util
import IpcHub.Model.Writers
import IpcHub.Model.WritersInst
import IpcHub.Spec.Interleave
/-
C13 driver ops:

  lts <schedule: tids as digits, e.g. 0010011> <n0> {label}  <n1> {label}
      thread 0 = media goroutine (one frame job per label, program Gen.consumeTcp with the
      writes of Gen.packetWrite), thread 1 = request goroutine (one response job per label,
      program Gen.responseTcp); output: the chunk labels handed to conn.Write in order
  stream <raw-hex> F <n> {<ch> <payload-hex>} C <n> {<cseq>}     the specification's verdict on a TCP stream
      (verdict: the property; exact: the stream is exactly the delivered packets and the answers; partial: an unfinished run)
  msg <hex>                                                     is a WebSocket message exactly one unit?
  pw <ch> <data-hex>                                            Packet.Write: the chunks written
  wsc <ch> <data-hex>                                           the ws consumers: the messages sent (Gen flag skipEmpty)
  bconn <bufSize> {W|S|C|B <size> <sockLen> <bufLen> | F <sockLen> <bufLen>}  buffered.Conn against observed lengths (write k carries the running byte counter);
      W = Write, S / C / B = handed over by a caller that probes for WriteString / ReadFrom / WriteByte (Gen.bconnMethods decides what it finds)
-/
namespace IpcHub.Drv.C13
open IpcHub.Writers IpcHub.Drv

def labelBytes (s : String) : Bytes := s.toUTF8.toList
def bytesLabel (b : Bytes) : String := String.ofList (b.map (fun x => Char.ofNat x.toNat))

def tidsOf (s : String) : List Nat := s.toList.filterMap (fun c => if c.isDigit then some (c.toNat - 48) else none)

def takeN {α} : Nat → List α → List α × List α
  | 0, l => ([], l)
  | _, [] => ([], [])
  | n + 1, x :: xs => let (a, b) := takeN n xs; (x :: a, b)

def handleLts (sched : String) (rest : List String) : String :=
  match rest with
  | n0 :: r =>
    let (l0, r1) := takeN n0.toNat! r
    match r1 with
    | n1 :: r2 =>
      let (l1, _) := takeN n1.toNat! r2
      let p0 := (l0.map (frameJobOps ·)).flatten
      let p1 := (l1.map (respJobOps ·)).flatten
      let st := exec (initSt (fun t => if t = 0 then p0 else if t = 1 then p1 else [])) (tidsOf sched)
      let labs := st.out.map bytesLabel
      let left := (st.threads 0).length + (st.threads 1).length
      s!"out={String.intercalate "," labs} left={left}"
    | _ => "bad-op"
  | _ => "bad-op"

open IpcHub.InterleaveSpec in
def handleStream (raw : String) (rest : List String) : String :=
  match hexToBytes raw, rest with
  | some s, "F" :: n :: r =>
    let rec frames : Nat → List String → Option (List (UInt8 × List UInt8) × List String)
      | 0, l => some ([], l)
      | k + 1, ch :: p :: l =>
        match hexToBytes p, frames k l with
        | some pb, some (fs, l') => some ((UInt8.ofNat ch.toNat!, pb) :: fs, l')
        | _, _ => none
      | _, _ => none
    match frames n.toNat! r with
    | some (fs, "C" :: _ :: cs) =>
      "verdict=" ++ judgeStream s fs ++ " exact=" ++ exactStream s fs (cs.map String.toNat!) ++ " partial=" ++ judgePartial s fs
    | _ => "bad-op"
  | _, _ => "bad-op"

open IpcHub.InterleaveSpec in
def handleMsg (h : String) : String :=
  match hexToBytes h with
  | some m =>
    let kind := match nextUnit m with
      | some (.frame ch p, []) => s!"frame:{ch.toNat}:{bytesToHex p}"
      | some (.response r, []) => s!"response:{cseqOf r}"
      | some (_, _ :: _) => "trailing-bytes"
      | none => if m.isEmpty then "empty" else "incomplete"
    s!"ok={boolStr (messageOk m)} kind={kind}"
  | none => "bad-op"

def chunksStr (cs : List Bytes) : String :=
  if cs.isEmpty then "none" else String.intercalate "," (cs.map bytesToHex)

/-- the harness fills write number k with the bytes seq, seq+1, … (mod 256), seq running over all writes -/
def genBytes (start n : Nat) : Bytes := (List.range n).map (fun i => UInt8.ofNat ((start + i) % 256))

def checksum (b : Bytes) : Nat := b.foldl (fun h x => (h * 31 + x.toNat) % 4294967296) 7

mutual
/-- a write handed over through a probed method: what `Write` does, provided the type does not have the method -/
partial def viaStep (c : BConn) (i : Nat) (dec : String) (all : Bytes) (v : Via) (n sl bl : String) (r : List String) : String :=
  let p := genBytes (all.length + 1) n.toNat!
  match c.writeVia IpcHub.Gen.bconnMethods v p false, c.writeVia IpcHub.Gen.bconnMethods v p true with
  | some a, some b =>
    if a.sock.length == sl.toNat! && a.buf.length == bl.toNat! then bconnLoop a (i + 1) (dec ++ "0") (all ++ p) r
    else if b.sock.length == sl.toNat! && b.buf.length == bl.toNat! then bconnLoop b (i + 1) (dec ++ "1") (all ++ p) r
    else s!"mismatch at={i} via={v.method} model0={a.sock.length}/{a.buf.length} model1={b.sock.length}/{b.buf.length}"
  | _, _ => s!"unmodelled at={i} method={v.method}"
partial def bconnLoop (c : BConn) (i : Nat) (dec : String) (all : Bytes) : List String → String
  | [] =>
    let specOk := c.sock ++ c.buf == all
    s!"ok decisions={if dec.isEmpty then "-" else dec} sock={c.sock.length}:{checksum c.sock} spec={boolStr specOk}"
  | "W" :: n :: sl :: bl :: r =>
    let p := genBytes (all.length + 1) n.toNat!
    let a := c.write p false
    let b := c.write p true
    if a.sock.length == sl.toNat! && a.buf.length == bl.toNat! then bconnLoop a (i + 1) (dec ++ "0") (all ++ p) r
    else if b.sock.length == sl.toNat! && b.buf.length == bl.toNat! then bconnLoop b (i + 1) (dec ++ "1") (all ++ p) r
    else s!"mismatch at={i} model0={a.sock.length}/{a.buf.length} model1={b.sock.length}/{b.buf.length}"
  | "S" :: n :: sl :: bl :: r => viaStep c i dec all .writeString n sl bl r
  | "C" :: n :: sl :: bl :: r => viaStep c i dec all .readFrom n sl bl r
  | "B" :: n :: sl :: bl :: r => viaStep c i dec all .writeByte n sl bl r
  | "F" :: sl :: bl :: r =>
    let a := c.flush
    if a.sock.length == sl.toNat! && a.buf.length == bl.toNat! then bconnLoop a (i + 1) dec all r
    else s!"mismatch at={i} model={a.sock.length}/{a.buf.length}"
  | _ => "bad-op"
end

def parseInt (s : String) : Int :=
  if s.startsWith "-" then -((s.drop 1).toNat! : Int) else (s.toNat! : Int)

def handle : List String → String
  | "lts" :: sched :: rest => handleLts sched rest
  | "stream" :: raw :: rest => handleStream raw rest
  | ["msg", h] => handleMsg h
  | ["pw", ch, d] =>
    match hexToBytes d with
    | some data => "chunks=" ++ chunksStr (packetWrites (parseInt ch) data)
    | none => "bad-op"
  | ["wsc", ch, d] =>
    match hexToBytes d with
    | some data => "msgs=" ++ chunksStr (wsConsume genSkipEmpty (parseInt ch) data)
    | none => "bad-op"
  | "bconn" :: bs :: rest => bconnLoop { bufferSize := bs.toNat!, buf := [], sock := [] } 0 "" [] rest
  | _ => "bad-op"

end IpcHub.Drv.C13
