import IpcHub.Drv.Util
import IpcHub.Model.TablesInst
import IpcHub.Spec.TableConc
import IpcHub.Spec.UserEntry
namespace IpcHub.Drv.C18
open IpcHub.Drv IpcHub.Tables IpcHub.TableSpec IpcHub.UserTable IpcHub.Route

/-! line protocol (one line = one complete history, every field hex, "-" = empty):
    `users <op> …` with   s,<name>,<password>,<admin>,<push>,<pull>,<update_password>
    `routes <op> …` with  s,<pattern>,<url>,<keepalive>,<urlok>
    both:  d,<key>  g,<key>  a  f (Flush)  r (restart: Reset from the file)
           e | E | R   (Flush while the provider is down / the table file cannot be opened /
                       cannot be renamed into place)
           k,<hook>,<part>   (Flush is called and the process dies at that crash point of
                              EncodeJSONFile, `part` ∈ - 0 1 h m a = bytes of the write in
                              progress: none, 0, 1, half, all but one, all; then a restart)
           c,<hook>,s,… | c,<hook>,d,<key>   (Flush is called and, when it has reached that point of
                              EncodeJSONFile, the edit is issued from another goroutine; the
                              implementation answers `C:<blocked|during|nohook>;<flush answer>;<edit answer>`:
                              the edit did not / did complete while the flush was parked there /
                              the point was never reached and the edit ran after the flush)
           x,missing | x,corrupt | x,emptylist   (the file is replaced by hand)
    after the ops, `@ o|n|x|b|d …`: observations, one per `k` and `c` op in order: what the
    implementation's table file was after a `k` (old / new / neither) — the specification allows old
    and new and continues from the one seen; whether the edit of a `c` took effect after the flush
    had returned (b) or while it was running (d) — the specification allows both orders; after `d`
    it makes no claim on what a restart loads until a further flush has run
    answer: `model=<obs>|… spec=<obs>|…`; the spec answers "-" where the statement says nothing
    `crash <hook> <partial|-> <old-hex|none> <new-hex>` → what a restart reads after the process
    died at that crash point of EncodeJSONFile: `old|new|missing|other:<hex>` -/

inductive TOp (V : Type) where
  | save (v : V) (flag : Bool)
  | del (k : List Char)
  | get (k : List Char)
  | all
  | flush
  | restart
  | failFlush
  | crash (hook part : String)
  | during (hook : String) (edit : Op V)
  | setDisk (kind : String) (tbl : Option (List V))

structure Kind (V : Type) where
  ops : Ops V
  spec : EntrySpec V
  dflt : List V
  fmt : V → String
  guarded : Bool
  locked : Bool

def fmtUser (u : User) : String :=
  s!"{charsToHex u.name},{charsToHex u.password},{boolStr u.admin},{charsToHex u.push},{charsToHex u.pull}"

def fmtRoute (r : Route) : String :=
  s!"{charsToHex r.pattern},{charsToHex r.url},{boolStr r.keepAlive}"

def fmtList {V : Type} (f : V → String) (l : List V) : String :=
  if l.isEmpty then "[]" else "+".intercalate (l.map f)

def fmtKeys (l : List Key) : String :=
  if l.isEmpty then "[]" else "+".intercalate (l.map charsToHex)

def fmtOpt {V : Type} (f : V → String) : Option V → String
  | none => "none"
  | some v => "F:" ++ f v

def mapM' {α β : Type} (f : α → Option β) : List α → Option (List β)
  | [] => some []
  | a :: as => match f a, mapM' f as with
    | some b, some bs => some (b :: bs)
    | _, _ => none

/-- a hand-written file: `T:<entry>+<entry>…`, fields of an entry separated by '.' -/
def parseTable {V : Type} (entry : List String → Option V) (kind : String) : Option (List V) :=
  if kind.startsWith "T:" then
    let body := (kind.drop 2).toString
    if body = "" then some [] else mapM' (fun e => entry (e.splitOn ".")) (body.splitOn "+")
  else none

def parseCommon {V : Type} (entry : List String → Option V) (p : List String) : Option (TOp V) :=
  match p with
  | ["d", k] => (hexToChars k).map .del
  | ["g", k] => (hexToChars k).map .get
  | ["a"] => some .all
  | ["f"] => some .flush
  | ["r"] => some .restart
  | ["e"] => some .failFlush
  | ["E"] => some .failFlush
  | ["R"] => some .failFlush
  | ["k", hook, part] => some (.crash hook part)
  | ["x", kind] => some (.setDisk kind (parseTable entry kind))
  | _ => none

def userEntry : List String → Option User
  | [n, pw, ad, push, pull] =>
    match hexToChars n, hexToChars pw, hexToChars push, hexToChars pull with
    | some n, some pw, some push, some pull => some { name := n, password := pw, admin := ad = "1", push := push, pull := pull }
    | _, _, _, _ => none
  | _ => none

def parseUserOp (tok : String) : Option (TOp User) :=
  match tok.splitOn "," with
  | ["s", n, pw, ad, push, pull, upd] =>
    match hexToChars n, hexToChars pw, hexToChars push, hexToChars pull with
    | some n, some pw, some push, some pull =>
      some (.save { name := n, password := pw, admin := ad = "1", push := push, pull := pull } (upd = "1"))
    | _, _, _, _ => none
  | "c" :: hook :: "s" :: [n, pw, ad, push, pull, upd] =>
    match hexToChars n, hexToChars pw, hexToChars push, hexToChars pull with
    | some n, some pw, some push, some pull =>
      some (.during hook (.save { name := n, password := pw, admin := ad = "1", push := push, pull := pull } (upd = "1")))
    | _, _, _, _ => none
  | ["c", hook, "d", k] => (hexToChars k).map (fun k => .during hook (.del k))
  | p => parseCommon userEntry p

def routeEntry : List String → Option Route
  | [p, u, ka, _] =>
    match hexToChars p, hexToChars u with
    | some p, some u => some { pattern := p, url := u, keepAlive := ka = "1" }
    | _, _ => none
  | _ => none

/-- the URLs of a hand-written file that `url.Parse` rejects -/
def badUrlsOf (tok : String) : List (List Char) :=
  match tok.splitOn "," with
  | ["x", kind] =>
    if kind.startsWith "T:" then
      ((kind.drop 2).toString.splitOn "+").filterMap (fun e => match e.splitOn "." with
        | [_, u, _, ok] => if ok = "1" then none else hexToChars u
        | _ => none)
    else []
  | _ => []

/-- also returns the URL when `url.Parse` rejected it -/
def parseRouteOp (tok : String) : Option (TOp Route × Option (List Char)) :=
  match tok.splitOn "," with
  | ["s", p, u, ka, ok] =>
    match hexToChars p, hexToChars u with
    | some p, some u => some (.save { pattern := p, url := u, keepAlive := ka = "1" } false, if ok = "1" then none else some u)
    | _, _ => none
  | ["c", hook, "s", p, u, ka, ok] =>
    match hexToChars p, hexToChars u with
    | some p, some u => some (.during hook (.save { pattern := p, url := u, keepAlive := ka = "1" } false), if ok = "1" then none else some u)
    | _, _ => none
  | ["c", hook, "d", k] => (hexToChars k).map (fun k => (.during hook (.del k), none))
  | p => (parseCommon routeEntry p).map (·, none)

/-- where the regenerated program of EncodeJSONFile leaves the table file when the process dies at
    `hook` (with `part` of the write in progress out), on stand-in contents: `old`, `new`,
    `missing` or `other` -/
def crashDummy (hook part : String) (hadOld : Bool) : String :=
  match Fs.genProg with
  | none => "bad-program"
  | some prog =>
    match Fs.hookIndex prog hook with
    | none => "no-such-hook"
    | some k =>
      let newb : Fs.Bytes := [1, 1]
      let oldb : Option Fs.Bytes := if hadOld then some [0] else none
      let pn : Option Nat := if part = "-" then none else if part = "0" then some 0 else if part = "a" then some 2 else some 1
      let (k, p) := match pn with
        | some n => (k + ((prog.drop k).takeWhile (fun o => match o with | .write _ => false | _ => true)).length, some n)
        | none => (k, none)
      match Fs.processOutcome (Fs.crashState newb (Fs.Fs.init oldb) prog k p) with
      | none => if hadOld then "missing" else "old"
      | some c => if some c = oldb then "old" else if c = newb then "new" else "other"

/-- what `Save` / `Del` answer -/
def editAnswer {V : Type} (k : Kind V) (st : State V) : Op V → String
  | .save v flag => if (save k.ops st v flag).2 then "ok" else "err"
  | _ => "ok"

def runModel {V : Type} (k : Kind V) : List (TOp V) → Server V → List String → List String
  | [], _, acc => acc.reverse
  | op :: rest, sv, acc =>
    match op with
    | .save v flag =>
      let (st, ok) := save k.ops sv.st v flag
      runModel k rest { sv with st := st } ((if ok then "ok" else "err") :: acc)
    | .del n => runModel k rest { sv with st := del k.ops sv.st n } ("ok" :: acc)
    | .get n => runModel k rest sv (fmtOpt k.fmt (get k.ops sv.st n) :: acc)
    | .all => runModel k rest sv (fmtList k.fmt (all sv.st) :: acc)
    | .flush =>
      let o := match flush k.guarded sv.st with
        | (_, none) => "skip"
        | (_, some full) => s!"W:{fmtList k.fmt full};S:{fmtKeys sv.st.saves};R:{fmtKeys sv.st.removes}"
      runModel k rest (Server.step k.ops k.guarded k.dflt sv .flush) (o :: acc)
    | .restart =>
      let (sv', ok) := Server.boot k.ops k.dflt sv.disk
      runModel k rest sv' ((if ok then "ok" else "panic") :: acc)
    | .failFlush =>
      -- provider.Flush returns an error: Flush returns it before clearing the change lists
      let o := match flush k.guarded sv.st with
        | (_, none) => "skip"
        | (_, some _) => "err"
      runModel k rest (Server.cstep k.ops k.guarded k.dflt sv .failFlush) (o :: acc)
    | .crash hook part =>
      let (out, disk) : String × Disk V := match flush k.guarded sv.st with
        | (_, none) => ("skip", sv.disk)
        | (_, some full) =>
          let hadOld := match sv.disk with | .missing => false | _ => true
          let out := crashDummy hook part hadOld
          (out, if out = "old" then sv.disk else if out = "new" || out = "no-such-hook" then .table full
                else if out = "missing" then .missing else .corrupt)
      let (sv', ok) := Server.boot k.ops k.dflt disk
      runModel k rest sv' (s!"K:{out};{if ok then "ok" else "panic"}" :: acc)
    | .setDisk kind tbl =>
      let d : Disk V := match tbl with
        | some t => .table t
        | none => if kind = "missing" then .missing else if kind = "emptylist" then .table [] else .corrupt
      runModel k rest { sv with disk := d } ("ok" :: acc)
    | .during hook e =>
      -- the edit's own answer does not depend on when it runs (Save fails only on what init rejects)
      let er := editAnswer k sv.st e
      match flush k.guarded sv.st with
      | (_, none) =>
        -- nothing pending: Flush returns without calling the provider, the edit runs afterwards
        runModel k rest (Server.flushDuring k.ops k.guarded true k.dflt sv e) (s!"C:nohook;skip;{er}" :: acc)
      | (_, some full) =>
        let w := s!"W:{fmtList k.fmt full};S:{fmtKeys sv.st.saves};R:{fmtKeys sv.st.removes}"
        let reached := match Fs.genProg with
          | some prog => (Fs.hookIndex prog hook).isSome
          | none => false
        if !reached then runModel k rest (Server.flushDuring k.ops k.guarded true k.dflt sv e) (s!"C:nohook;{w};{er}" :: acc)
        else
          let how := if k.locked then "blocked" else "during"
          runModel k rest (Server.flushDuring k.ops k.guarded k.locked k.dflt sv e) (s!"C:{how};{w};{er}" :: acc)

/-- how much the specification still knows: everything; the current table but not what is persisted
    (an edit took effect while a flush was running: before or after the snapshot it wrote?); nothing -/
inductive Know where
  | all
  | cur
  | nothing
  deriving DecidableEq

def runSpec {V : Type} (k : Kind V) : List (TOp V) → Abs V → Know → List String → List String → List String
  | [], _, _, _, acc => acc.reverse
  | op :: rest, a, kn, ann, acc =>
    if kn = .nothing then runSpec k rest a .nothing ann ("-" :: acc) else
    match op with
    | .failFlush => runSpec k rest (Abs.cstep k.spec k.dflt a .failFlush) kn ann ("-" :: acc)
    | .crash _ _ =>
      -- the statement: the file is the complete previous or the complete new table, and the restart
      -- comes up with it; which of the two is an observation
      if kn = .cur then runSpec k rest a .nothing ann.tail ("-" :: acc) else
      match ann with
      | "o" :: ann' => runSpec k rest (Abs.cstep k.spec k.dflt a (.crashFlush false)) .all ann' ("K:old-or-new;ok" :: acc)
      | "n" :: ann' => runSpec k rest (Abs.cstep k.spec k.dflt a (.crashFlush true)) .all ann' ("K:old-or-new;ok" :: acc)
      | _ => runSpec k rest a .nothing ann.tail ("K:old-or-new;ok" :: acc)
    | .during _ e =>
      -- an edit overlapping a flush takes effect before or after it; its own answer is the same
      -- either way.  When it took effect only after the flush had returned (b), the order is
      -- flush, edit.  When it took effect while the flush was running (d), the edit is in the
      -- current table, and whether the running flush persisted it is open — the next flush does.
      let er := match e with
        | .save v _ => if (k.spec.create v).isSome then "ok" else "err"
        | _ => "ok"
      match ann with
      | "b" :: ann' => runSpec k rest (Abs.flushDuring k.spec k.dflt a e false) .all ann' (er :: acc)
      | "d" :: ann' => runSpec k rest (Abs.step k.spec k.dflt a e) .cur ann' (er :: acc)
      | _ => runSpec k rest a .nothing ann.tail ("-" :: acc)
    | .save v flag =>
      let ok := (k.spec.create v).isSome
      runSpec k rest (Abs.step k.spec k.dflt a (.save v flag)) kn ann ((if ok then "ok" else "err") :: acc)
    | .del n => runSpec k rest (Abs.step k.spec k.dflt a (.del n)) kn ann ("ok" :: acc)
    | .get n => runSpec k rest a kn ann (fmtOpt k.fmt (specGet k.spec a.cur n) :: acc)
    | .all => runSpec k rest a kn ann (fmtList k.fmt a.cur :: acc)
    | .flush => runSpec k rest (Abs.step k.spec k.dflt a .flush) .all ann ("-" :: acc)   -- "after a flush a restarted server loads exactly that table"
    | .restart =>
      if kn = .cur then runSpec k rest a .nothing ann ("-" :: acc)
      else runSpec k rest (Abs.step k.spec k.dflt a .restart) kn ann ("ok" :: acc)
    | .setDisk _ tbl =>
      -- a hand-written file whose entries have distinct canonical keys: a restart holds its
      -- entries in stored form ("names and patterns are canonicalised"); any other file: no claim
      match tbl with
      | some t =>
        let stored := t.filterMap k.spec.create
        let keys := stored.map k.spec.key
        if keys.eraseDups.length = keys.length then runSpec k rest { a with disk := some stored } .all ann ("ok" :: acc)
        else runSpec k rest a .nothing ann ("-" :: acc)
      | none => runSpec k rest a .nothing ann ("-" :: acc)

def answer {V : Type} (k : Kind V) (ops : List (TOp V)) (ann : List String) : String :=
  let m := runModel k ops (Server.boot k.ops k.dflt .missing).1 []
  let sp := runSpec k ops (Abs.fresh k.spec k.dflt) .all ann []
  s!"model={"|".intercalate m} spec={"|".intercalate sp}"

def userKind : Kind User :=
  { ops := userOps PathCanon.asciiLower, spec := EntrySpecs.userSpec PathCanon.asciiLower, dflt := defaultUsers,
    fmt := fmtUser, guarded := IpcHub.Gen.managerFlushGuard, locked := flushHoldsLock IpcHub.Gen.managerLocks }

def routeKind (bad : List (List Char)) : Kind Route :=
  let cfg := genCfg PathCanon.asciiLower PathCanon.asciiSpace (fun u => !bad.contains u)
  { ops := routeOps cfg, spec := EntrySpecs.routeSpec cfg, dflt := defaultRoutes,
    fmt := fmtRoute, guarded := IpcHub.Gen.routetableFlushGuard, locked := flushHoldsLock IpcHub.Gen.routetableLocks }

def crashAnswer (hook part old new : String) : String :=
  match Fs.genProg, hexToBytes new with
  | some prog, some newb =>
    let oldb : Option (Option Fs.Bytes) := if old = "none" then some none else (hexToBytes old).map some
    match oldb, Fs.hookIndex prog hook with
    | some oldb, some k =>
      -- a partial write happens in the write that follows the hook: advance to that write
      let (k, p) := match part.toNat? with
        | some n => (k + ((prog.drop k).takeWhile (fun o => match o with | .write _ => false | _ => true)).length, some n)
        | none => (k, none)
      let fs := Fs.crashState newb (Fs.Fs.init oldb) prog k p
      match Fs.processOutcome fs with
      | none => "missing"
      | some c => if some c = oldb then "old" else if c = newb then "new" else s!"other:{bytesToHex c}"
    | _, _ => "no-such-hook"
  | _, _ => "bad-op"

def handle : List String → String
  | "users" :: all =>
    let toks := all.takeWhile (· ≠ "@")
    match mapM' parseUserOp toks with
    | some ops => answer userKind ops ((all.dropWhile (· ≠ "@")).drop 1)
    | none => "bad-op"
  | "routes" :: all =>
    let toks := all.takeWhile (· ≠ "@")
    match mapM' parseRouteOp toks with
    | some ops => answer (routeKind (ops.filterMap (·.2) ++ (toks.map badUrlsOf).flatten)) (ops.map (·.1)) ((all.dropWhile (· ≠ "@")).drop 1)
    | none => "bad-op"
  | ["crash", hook, part, old, new] => crashAnswer hook part old new
  | _ => "bad-op"

end IpcHub.Drv.C18
