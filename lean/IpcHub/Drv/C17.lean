import IpcHub.Drv.Util
import IpcHub.Model.Route
import IpcHub.Spec.RouteMatch
import IpcHub.Spec.UserEntry
import IpcHub.Gen.RouteFacts
namespace IpcHub.Drv.C17
open IpcHub.Drv IpcHub.Tables IpcHub.Route IpcHub.TableSpec

/-! line protocol (one line = one complete history, every field hex, "-" = empty):
    `hist <op> <op> …` with ops
      s,<pattern>,<url>,<ka 0|1>,<urlok 0|1>   route.Save
      d,<pattern>                              route.Del
      g,<pattern>                              route.Get
      a                                        route.All
      m,<path>                                 route.Match (+ table untouched?)
      c,<path>                                 media.GetOrCreate → arguments of Create
    answer: `model=<obs>|<obs>… spec=<obs>|<obs>…` (one observation per op) -/

inductive ROp where
  | save (r : Route) (urlok : Bool)
  | del (p : List Char)
  | get (p : List Char)
  | all
  | mtch (p : List Char)
  | create (p : List Char)

def parseOp (tok : String) : Option ROp :=
  match tok.splitOn "," with
  | ["s", p, u, ka, ok] =>
    match hexToChars p, hexToChars u with
    | some p, some u => some (.save { pattern := p, url := u, keepAlive := ka = "1" } (ok = "1"))
    | _, _ => none
  | ["d", p] => (hexToChars p).map .del
  | ["g", p] => (hexToChars p).map .get
  | ["a"] => some .all
  | ["m", p] => (hexToChars p).map .mtch
  | ["c", p] => (hexToChars p).map .create
  | _ => none

def parseOps : List String → Option (List ROp)
  | [] => some []
  | t :: ts => match parseOp t, parseOps ts with
    | some o, some os => some (o :: os)
    | _, _ => none

def fmtRoute (r : Route) : String :=
  s!"{charsToHex r.pattern},{charsToHex r.url},{boolStr r.keepAlive}"

def fmtList (rs : List Route) : String :=
  if rs.isEmpty then "[]" else "+".intercalate (rs.map fmtRoute)

def fmtOpt : Option Route → String
  | none => "none"
  | some r => "F:" ++ fmtRoute r

def fmtOut : MatchOut → String
  | .none => "none"
  | .panic => "panic"
  | .found r => "F:" ++ fmtRoute r

/-- the model's configuration for one line: ASCII character functions, `url.Parse` verdicts as
    told by the harness, the two source facts regenerated from /repo -/
def mkCfg (ops : List ROp) : Cfg :=
  let bad := ops.filterMap (fun o => match o with | .save r false => some r.url | _ => none)
  { canon := (PathCanon.asciiCfg IpcHub.Gen.canonLoops), urlOk := fun u => !bad.contains u,
    urlGuard := IpcHub.Gen.matchUrlGuard, copies := IpcHub.Gen.matchCopies }

def stateEq (a b : State Route) : Bool :=
  a.m == b.m && a.l == b.l && a.saves == b.saves && a.removes == b.removes

/-- Match under three visiting orders of the map (given, reversed, rotated) -/
def matchAllOrders (cfg : Cfg) (s : State Route) (p : List Char) : Option (MatchOut × State Route) :=
  let r1 := matchImpl cfg s p
  let r2 := matchImpl cfg { s with m := s.m.reverse } p
  let r3 := matchImpl cfg { s with m := s.m.drop 1 ++ s.m.take 1 } p
  if r1.1 = r2.1 ∧ r1.1 = r3.1 then some r1 else none

def runModel (cfg : Cfg) : List ROp → State Route → List String → List String
  | [], _, acc => acc.reverse
  | op :: rest, s, acc =>
    match op with
    | .save r _ =>
      let (s', ok) := save (routeOps cfg) s r false
      runModel cfg rest s' ((if ok then "ok" else "err") :: acc)
    | .del p => runModel cfg rest (del (routeOps cfg) s p) ("ok" :: acc)
    | .get p => runModel cfg rest s (fmtOpt (get (routeOps cfg) s p) :: acc)
    | .all => runModel cfg rest s (fmtList (all s) :: acc)
    | .mtch p =>
      match matchAllOrders cfg s p with
      | none => runModel cfg rest s ("order-dependent" :: acc)
      | some (out, s') =>
        runModel cfg rest s' ((fmtOut out ++ (if stateEq s s' then ",T1" else ",T0")) :: acc)
    | .create p =>
      let o := match createArgs cfg s p with
        | some (lp, u) => s!"C:{charsToHex lp},{charsToHex u}"
        | none => match (matchImpl cfg s (canon cfg p)).1 with
          | .panic => "panic"
          | _ => "none"
      runModel cfg rest s (o :: acc)

def runSpec (cfg : Cfg) : List ROp → List Route → List String → List String
  | [], _, acc => acc.reverse
  | op :: rest, t, acc =>
    let e := EntrySpecs.routeSpec cfg
    match op with
    | .save r _ =>
      let ok := (e.create r).isSome
      runSpec cfg rest (specSave e t r false) ((if ok then "ok" else "err") :: acc)
    | .del p => runSpec cfg rest (specDel e t p) ("ok" :: acc)
    | .get p => runSpec cfg rest t (fmtOpt (specGet e t p) :: acc)
    | .all => runSpec cfg rest t (fmtList t :: acc)
    | .mtch p => runSpec cfg rest t ((fmtOpt (RouteSpec.resolve cfg t p) ++ ",T1") :: acc)
    | .create p =>
      let o := match RouteSpec.resolve cfg t p with
        | some r => s!"C:{charsToHex (canon cfg p)},{charsToHex r.url}"
        | none => "none"
      runSpec cfg rest t (o :: acc)

def handle : List String → String
  | "hist" :: toks =>
    match parseOps toks with
    | none => "bad-op"
    | some ops =>
      let cfg := mkCfg ops
      let m := runModel cfg ops State.empty []
      let sp := runSpec cfg ops [] []
      s!"model={"|".intercalate m} spec={"|".intercalate sp}"
  | ["canon", p] =>
    match hexToChars p with
    | some p => s!"model={charsToHex (PathCanon.canonicalPath (PathCanon.asciiCfg IpcHub.Gen.canonLoops) p)}"
    | none => "bad-op"
  | _ => "bad-op"

end IpcHub.Drv.C17
