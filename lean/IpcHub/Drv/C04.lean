import IpcHub.Drv.MediaScript
namespace IpcHub.Drv.C04
def handle : List String → String := IpcHub.Drv.MediaScript.handle
end IpcHub.Drv.C04
