namespace IpcHub.Drv.C12
/-- placeholder: no model built for this property yet -/
def handle (_ : List String) : String := "bad-op"
end IpcHub.Drv.C12
