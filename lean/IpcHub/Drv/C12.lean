import IpcHub.Drv.Util
import IpcHub.Model.RtspSessionInst
import IpcHub.Spec.RtspAutomaton
import IpcHub.Model.WspProtocol
/-
C12 driver ops (one output line per input line):

  pt <z|n> { <0|2> <ts-hex> }+
      ParseTransport applied in sequence to the zero value (z) or to newSession's transport (n)
  run <tcp|ws|wsp> <wsPath-hex> sdp <n> { <ok> <nm> { <v|a|o> <ctrl-hex> } } st <n> { <path-hex> <sdpId> <mc> [ip-hex portBase src-hex ttl] }
      un <n> { <ctrl-hex> <norm-hex|!> } in <n> { R <METHOD> <cseq> <path> <setupPath> <transport> <ctype> <range> <body> <udpok> | H | F <channel> <rtpHeaderParses> }
      the model's prediction: per input `responses;consumers published closed`, joined by " | ",
      then " || ch=<channels> role=<role> paused=<b>" of the final state
  wspdec <hex>   wsp.DecodeStringRequest on the text
  judge <rtsp|wsp> { <hangup> <METHOD> <transport-hex> <nresp> <code> <cseqOk> <sidOk> <consumers> <published> <closed> <media> <frame> }*
      the specification's verdict on an observed dialogue
-/
namespace IpcHub.Drv.C12
open IpcHub.Rtsp IpcHub.RtspSpec IpcHub.Drv

abbrev P := StateT (List String) Option

def tok : P String := fun s => match s with
  | [] => none
  | t :: r => some (t, r)

def expect (w : String) : P Unit := do
  let t ← tok
  if t == w then pure () else failure

def pNat : P Nat := do
  let t ← tok
  match t.toNat? with
  | some n => pure n
  | none => failure

def pBool : P Bool := do
  let t ← tok
  pure (t == "1")

def pStr : P Str := do
  let t ← tok
  match hexToChars t with
  | some s => pure s
  | none => failure

def pRepeat {α} (p : P α) : Nat → P (List α)
  | 0 => pure []
  | n + 1 => do
    let a ← p
    let r ← pRepeat p n
    pure (a :: r)

def methodOfToken (t : String) : Method :=
  match IpcHub.Gen.methodTokens.find? (fun p => p.2 == t) with
  | some (n, _) => methodOfName n
  | none => .other

def qStr (q : Quad) : String := s!"{q.c0},{q.c1},{q.c2},{q.c3}"

def modeNum : Mode → Nat
  | .unknown => 0 | .play => 1 | .record => 2
def typeNum : TType → Nat
  | .unknown => 0 | .tcp => 1 | .udp => 2 | .multicast => 3

def pTrack : P Track := do
  let t ← tok
  if t == "0" then pure .video else if t == "2" then pure .audio else failure

partial def ptLoop (t : Transport) (errs : String) : List String → Option (Transport × String)
  | [] => some (t, errs)
  | rt :: ts :: rest =>
    match (if rt == "0" then some Track.video else if rt == "2" then some Track.audio else none), hexToChars ts with
    | some track, some s =>
      let (t', e) := parseTransport t track s
      ptLoop t' (errs ++ boolStr e) rest
    | _, _ => none
  | _ => none

def handlePt (init : String) (rest : List String) : String :=
  let t0 := if init == "z" then Transport.zero else Transport.init
  match ptLoop t0 "" rest with
  | none => "bad-op"
  | some (t, errs) =>
    s!"err={errs} mode={modeNum t.mode} append={boolStr t.append} type={typeNum t.type} ch={qStr t.channels} cp={qStr t.clientPorts} sp={qStr t.serverPorts} ports={qStr t.ports} ip={charsToHex t.multicastIP} ttl={t.ttl} src={charsToHex t.source}"

/-! ### run -/

def pMedia : P (MediaKind × Str) := do
  let k ← tok
  let c ← pStr
  pure ((if k == "v" then .video else if k == "a" then .audio else .other), c)

def pSdp : P SdpInfo := do
  let ok ← pBool
  let n ← pNat
  let ms ← pRepeat pMedia n
  pure { ok := ok, medias := ms }

def pStream : P (Str × StreamInfo) := do
  let p ← pStr
  let id ← pNat
  let mc ← pBool
  if mc then
    let ip ← pStr
    let pb ← pNat
    let src ← pStr
    let ttl ← pNat
    pure (p, { sdp := id, mc := some { ip := ip, portBase := pb, src := src, ttl := ttl } })
  else pure (p, { sdp := id, mc := none })

def pNorm : P (Str × Option Str) := do
  let c ← pStr
  let t ← tok
  if t == "!" then pure (c, none)
  else match hexToChars t with
    | some s => pure (c, some s)
    | none => failure

structure Tables where
  sdps : List SdpInfo
  streams : List (Str × StreamInfo)
  norms : List (Str × Option Str)

def Tables.env (tb : Tables) (udpOk : Bool) : Env :=
  { lookup := fun p => (tb.streams.find? (fun x => x.1 == p)).map (·.2),
    sdp := fun id => if id == 0 then { ok := false, medias := [] } else (tb.sdps[id - 1]?).getD { ok := false, medias := [] },
    urlNorm := fun c => match tb.norms.find? (fun x => x.1 == c) with
      | some (_, r) => r
      | none => none,
    permPull := true, permPush := true, udpOk := udpOk }

def pInput (tb : Tables) : P Input := do
  let t ← tok
  if t == "H" then pure .hangup
  else if t == "F" then
    let ch ← pNat
    let ok ← pBool
    pure (.frame (ch : Int) ok)
  else if t == "R" then
    let m ← tok
    let cseq ← pStr
    let path ← pStr
    let sp ← pStr
    let tr ← pStr
    let ct ← pBool
    let rg ← pStr
    let body ← pNat
    let udp ← pBool
    pure (.req { method := methodOfToken m, cseq := cseq, path := path, setupPath := sp, transport := tr,
                 ctypeSdp := ct, range := rg, body := body } (tb.env udp))
  else failure

def reasonStr : Reason → String
  | .dflt => "-" | .invalidVControl => "vctl" | .invalidAControl => "actl" | .unknownControl => "unkctl"
  | .malformedTransport => "malformed" | .cantSetupAsRecord => "asrecord" | .cantSetupAsPlay => "asplay"
  | .recordOnlyTcp => "recordtcp" | .wsOnlyTcp => "wstcp"

def optHex : Option Str → String
  | none => "~"
  | some s => charsToHex s

def respStr (r : Resp) : String :=
  let sdp := match r.sdp with
    | none => "~"
    | some n => toString n
  s!"{r.code}:{reasonStr r.reason}:{charsToHex r.cseq}:{optHex r.transport}:{sdp}:{optHex r.range}:{boolStr r.isPublic}"

def respsOf (evs : List Ev) : List Resp :=
  evs.filterMap (fun e => match e with
    | .resp r => some r
    | .eff _ => none)

def segStr (evs : List Ev) (cons : Nat) (pub closed : Bool) : String :=
  let rs := String.intercalate "," ((respsOf evs).map respStr)
  s!"{if rs.isEmpty then "none" else rs};{cons} {boolStr pub} {boolStr closed}"

def roleStr : Role → String
  | .none => "none" | .tcp => "tcp" | .udp => "udp" | .mc => "mc"

/-- segments per input; the summary is that of the state BEFORE the last input (the harness always
    ends a script with its implicit hang-up and pulses media just before it) -/
def runRtsp (s : Sess) : List Input → List String × String
  | [] => ([], s!"ch={qStr s.tr.channels} role={roleStr s.role} paused=0")
  | [i] =>
    let (s', evs) := stepInput genCfg s i
    ([segStr evs (if s'.role != .none then 1 else 0) s'.pusher s'.closed],
     s!"ch={qStr s.tr.channels} role={roleStr s.role} paused=0")
  | i :: is =>
    let (s', evs) := stepInput genCfg s i
    let (segs, fin) := runRtsp s' is
    (segStr evs (if s'.role != .none then 1 else 0) s'.pusher s'.closed :: segs, fin)

def runWsp (s : WSess) : List Input → List String × String
  | [] => ([], s!"ch={qStr s.tr.channels} role={if s.attached then "tcp" else "none"} paused={boolStr s.paused}")
  | [i] =>
    let (s', evs) := wstepInput genWspGate s i
    ([segStr evs (if s'.attached then 1 else 0) false s'.closed],
     s!"ch={qStr s.tr.channels} role={if s.attached then "tcp" else "none"} paused={boolStr s.paused}")
  | i :: is =>
    let (s', evs) := wstepInput genWspGate s i
    let (segs, fin) := runWsp s' is
    (segStr evs (if s'.attached then 1 else 0) false s'.closed :: segs, fin)

def pRun : P String := do
  let flav ← tok
  let wsPath ← pStr
  expect "sdp"
  let n ← pNat
  let sdps ← pRepeat pSdp n
  expect "st"
  let n ← pNat
  let sts ← pRepeat pStream n
  expect "un"
  let n ← pNat
  let norms ← pRepeat pNorm n
  expect "in"
  let n ← pNat
  let tb : Tables := { sdps := sdps, streams := sts, norms := norms }
  let ins ← pRepeat (pInput tb) n
  let (segs, fin) :=
    if flav == "wsp" then runWsp (WSess.init wsPath) ins
    else runRtsp (Sess.init (flav == "ws") wsPath) ins
  pure (String.intercalate " | " segs ++ " || " ++ fin)

/-! ### judge -/

def pObs : P Obs := do
  let h ← pBool
  let m ← tok
  let tr ← pStr
  let n ← pNat
  let code ← pNat
  let c ← pBool
  let sid ← pBool
  let cons ← pNat
  let pub ← pBool
  let cl ← pBool
  let media ← pBool
  let frame ← pBool
  pure { hangup := h, method := methodOfToken m, ask := specSetupAsk tr, nresp := n, code := code, cseqOk := c,
         sidOk := sid, consumers := cons, published := pub, closed := cl, media := media, frame := frame }

partial def pMany {α} (p : P α) : P (List α) := fun s =>
  match s with
  | [] => some ([], [])
  | _ => match p s with
    | none => none
    | some (a, r) => match pMany p r with
      | none => none
      | some (as, r') => some (a :: as, r')

def insertSorted (p : String × String) : List (String × String) → List (String × String)
  | [] => [p]
  | q :: r => if p.1 < q.1 then p :: q :: r else q :: insertSorted p r

def handleWspDec (h : String) : String :=
  match hexToChars h with
  | none => "bad-op"
  | some s =>
    match IpcHub.Wsp.decodeStringRequest s with
    | .error e =>
      "err=" ++ (match e with
        | .noSeparator => "separator" | .firstLine => "firstline" | .proto => "proto" | .command => "command")
    | .ok q =>
      let hs := (q.header.map (fun p => (charsToHex p.1, charsToHex p.2))).foldr insertSorted []
      let hstr := String.intercalate "," (hs.map (fun p => p.1 ++ ":" ++ p.2))
      s!"cmd={charsToHex q.cmd} h={if hstr.isEmpty then "none" else hstr} body={charsToHex q.body}"

def handle : List String → String
  | ["wspdec", h] => handleWspDec h
  | "pt" :: init :: rest => handlePt init rest
  | "run" :: rest =>
    match pRun rest with
    | some (out, []) => out
    | _ => "bad-op"
  | "judge" :: flav :: rest =>
    match pMany pObs rest with
    | some (os, _) =>
      let f : Flavour := if flav == "wsp" then .wsp else .rtsp
      let at_ := match badIndex f MState.init os 0 with
        | some i => toString i
        | none => "-"
      "verdict=" ++ verdict f os ++ " at=" ++ at_
    | none => "bad-op"
  | _ => "bad-op"

end IpcHub.Drv.C12
