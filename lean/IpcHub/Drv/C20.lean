import IpcHub.Drv.Util
import IpcHub.Model.PullInst
import IpcHub.Spec.Pull
import IpcHub.Model.RegistryLts
import IpcHub.Model.PullDual
import IpcHub.Spec.PullDual
namespace IpcHub.Drv.C20
open IpcHub.Drv IpcHub.Pull IpcHub.PullSpec

def splitBar : List String → List String × List String
  | [] => ([], [])
  | t :: ts => if t = "|" then ([], ts) else let (a, b) := splitBar ts; (t :: a, b)

/-- value of key k among tokens "k=v" -/
def kv (toks : List String) (k : String) : String :=
  match toks.find? (fun t => (k ++ "=").isPrefixOf t) with
  | some t => (t.drop (k.length + 1)).toString
  | none => ""

def csv (s : String) : List String := if s = "-" || s = "" then [] else s.splitOn ","

def parseResp (t : String) : Option Resp :=
  match t with
  | "ok" => some (.status 200 .other .none)
  | "ok+s" => some (.status 200 .other .plain)
  | "ok+st" => some (.status 200 .other .params)
  | "u-dg" => some (.status 401 .digestOk .none)
  | "u-db" => some (.status 401 .digestBad .none)
  | "u-bg" => some (.status 401 .basicOk .none)
  | "u-bb" => some (.status 401 .basicBad .none)
  | "u-no" => some (.status 401 .other .none)
  | "u-ot" => some (.status 401 .other .none)
  | "mal" | "mal2" | "mal3" => some .malformed
  | "eof" => some .eof
  | "rst" => some .reset
  | "sil" => some .silence
  | "eofb" => some .eofBody
  | _ =>
    if t.length = 4 && t.startsWith "s" then ((t.drop 1).toString.toNat?).map (fun n => .status n .other .none) else none

def parseSdp : String → Option Sdp
  | "va" => some (.tracks true true false)
  | "av" => some (.tracks true true false)
  | "v" => some (.tracks true false false)
  | "a" => some (.tracks false true false)
  | "none" => some (.tracks false false false)
  | "vnoctl" => some (.tracks false false false)
  | "absctl" => some (.tracks true true true)
  | "bad" => some .bad
  | "nofmt" => some .noFormat
  | _ => none

def parsePlay : String → Option PlayEv
  | "p0" | "p1" | "p2" | "p3" => some .packet
  | "opt" => some .request
  | "resp" => some .response
  | "ka" => some .idle
  | "eof" => some .eof
  | "rst" => some .reset
  | "sil" => some .silence
  | "gar" => some .garbage
  | "trunc" => some .truncated
  | "stop" | "replace" | "idle" => some .closedPacket
  | _ => none

def allSome {α : Type} : List (Option α) → Option (List α)
  | [] => some []
  | none :: _ => none
  | some a :: r => (allSome r).map (a :: ·)

def showMethod : Method → String
  | .options => "OPTIONS" | .describe => "DESCRIBE" | .setup _ => "SETUP" | .play => "PLAY"

/-- what the request is addressed to: b = the route URL, v / a = the video / audio track's control URL
    with that track's interleaved channel pair -/
def showTarget : Method → String
  | .setup false => "v" | .setup true => "a" | _ => "b"

def showReq (r : Req) : String :=
  let a := match r.auth with | .none => "none" | .basic => "basic" | .digest => "digest"
  let c := match r.auth with | .none => "-" | _ => if r.md5 then "md5" else "plain"
  let s := match r.session with | none => "-" | some false => "s" | some true => "st"
  s!"{showMethod r.method}:{a}:{c}:{s}:{showTarget r.method}"

def showOutcome : Outcome → String
  | .stream => "stream" | .notFound => "nil" | .hang => "hang" | .panic => "panic"

/-- method and target token → the method (with its track) and whether the request is misaddressed -/
def parseMethod : String → String → Option (Method × Bool)
  | "OPTIONS", t => some (.options, t != "b") | "DESCRIBE", t => some (.describe, t != "b")
  | "PLAY", t => some (.play, t != "b")
  | "SETUP", "v" => some (.setup false, false) | "SETUP", "a" => some (.setup true, false)
  | "SETUP", _ => some (.setup false, true)
  | _, _ => none

def parseSeen (t : String) : Option SeenReq :=
  match t.splitOn ":" with
  | [m, a, c, _, t] =>
    match parseMethod m t with
    | some (m, mis) =>
      let a := match a with | "none" => some Auth.none | "basic" => some Auth.basic | "digest" => some Auth.digest | _ => none
      let c := match c with | "-" => Cred.none | "plain" => Cred.plain | "md5" => Cred.md5 | _ => Cred.wrong
      a.map (fun a => { method := m, auth := a, cred := c, misaddressed := mis })
    | none => none
  | _ => none

/-- does the request token say that the Session header named the id ("77", or "77;timeout=60" sent back untrimmed)? -/
def carriedTok (t : String) : Bool :=
  match t.splitOn ":" with
  | [_, _, _, s, _] => s = "s" || s = "st"
  | _ => false

def parseOutcome : String → Option Outcome
  | "stream" => some .stream | "nil" => some .notFound | "hang" => some .hang | "panic" => some .panic
  | _ => none

/-- the model's prediction of the observation, in the harness's comparison format -/
def predict (cfg : Cfg) (script : List Resp) (play : List PlayEv) : String :=
  let r := openPull genFacts cfg script
  let reqs := if r.reqs.isEmpty then "" else ",".intercalate (r.reqs.map showReq)
  match r.outcome with
  | .stream =>
    match playStream play with
    | some eff =>
      let delivered := (eff.filter (· = .deliver)).length
      let ka := (eff.filter (· = .keepAlive)).length
      let w := eff.foldl applyPlay (r.effects.foldl applyOpen World.init)
      let cleaned := !w.registered && w.conns == 0 && w.counter == 0
      s!"out=stream;reqs={reqs};closed={boolStr (eff.contains .closeConn)};reg={boolStr (eff.contains .regist)};delivered={delivered};clean={boolStr cleaned};ka={ka}"
    | none => s!"out=stream;reqs={reqs};closed=0;reg=1;delivered=0;clean=0;ka=0"
  | o =>
    let closed := r.effects.contains .closeConn
    let w := r.effects.foldl applyOpen World.init
    let clean := !w.registered && w.conns == 0
    s!"out={showOutcome o};reqs={reqs};closed={boolStr closed};reg=0;delivered=0;clean={boolStr clean};ka=0"

/-! two simultaneous first requests that both pulled, a consumer on either stream, then both pulls end -/

def parseKind : String → Option IpcHub.PullDual.Kind
  | "eof" | "rst" | "sil" | "gar" | "trunc" => some .camera
  | "stop" => some .stop
  | "idle" => some .idle
  | _ => none

def parseReg : String → Option Nat
  | "l" => some 0 | "w" => some 1 | "-" => none | _ => some 2

def parseSObs (ob : List String) (who n : String) : IpcHub.PullDual.SObs :=
  { ok := kv ob (who ++ "ok" ++ n) = "1", cc := ((kv ob (who ++ "cc" ++ n)).toNat?.getD 99 : Nat),
    up := kv ob (who ++ "up" ++ n) = "1", cl := kv ob (who ++ "cl" ++ n) = "1", sv := kv ob (who ++ "sv" ++ n) = "1" }

def parseStage (ob : List String) (n : String) : IpcHub.PullDual.Stage :=
  { reg := parseReg (kv ob ("reg" ++ n)), l := parseSObs ob "l" n, w := parseSObs ob "w" n }

def showSObs (o : IpcHub.PullDual.SObs) : String :=
  s!"{boolStr o.ok}{o.cc}{boolStr o.up}{boolStr o.cl}{boolStr o.sv}"

def showStage (s : IpcHub.PullDual.Stage) : String :=
  let r := match s.reg with | none => "-" | some 0 => "l" | some 1 => "w" | some _ => "x"
  s!"r{r}.l{showSObs s.l}.w{showSObs s.w}"

/-- `pull <scenario k=v …> | <observation k=v …>` → `model=<prediction> verdict=<ok|class>` -/
def handle : List String → String
  | "pull" :: toks =>
    let (sc, ob) := splitBar toks
    match parseSdp (kv sc "sdp"), allSome ((csv (kv sc "script")).map parseResp), allSome ((csv (kv sc "play")).map parsePlay) with
    | some sdp, some script, some play =>
      let cfg : Cfg := { hasUser := kv sc "user" = "1", listens := kv sc "listen" = "1", urlPath := kv sc "urlpath" = "1", sdp := sdp }
      let model := predict cfg script play
      match parseOutcome (kv ob "out"), allSome ((csv (kv ob "reqs")).map parseSeen) with
      | some out, some reqs =>
        let o : Obs := { out := out, dialled := kv ob "dialled" = "1", reqs := reqs, closed := kv ob "closed" = "1",
                         reg := kv ob "reg" = "1", sent := (kv ob "sent").toNat?.getD 0, delivered := (kv ob "delivered").toNat?.getD 0,
                         clean := kv ob "clean" = "1", cclosed := kv ob "cclosed" = "1", regAfter := kv ob "regafter" = "1",
                         cseqOk := kv ob "cseq" = "1", leak := kv ob "leak" = "1", afresh := kv ob "afresh" = "1" }
        -- a camera that insists on its session id (strict=1) reports the answers it really gave (454 where the id was
        -- missing): the specification judges the exchange as it happened; the model is asked about the script
        let given := match allSome ((csv (kv ob "resps")).map parseResp) with
          | some rs => if rs.isEmpty then script else rs
          | none => script
        s!"model={model} verdict={verdictS cfg given o ((csv (kv ob "reqs")).map carriedTok)}"
      | _, _ => s!"model={model} verdict=bad-observation"
    | _, _, _ => "bad-op"
  | "dualc" :: toks =>
    -- `dualc lc= wc= keep= first=l|w how1= how2= | reg0= lok0= lcc0= lup0= lcl0= lsv0= wok0= … reg2= … leak=`
    let (sc, ob) := splitBar toks
    match parseKind (kv sc "how1"), parseKind (kv sc "how2") with
    | some h1, some h2 =>
      let scn : IpcHub.PullDual.Scn := { lc := kv sc "lc" = "1", wc := kv sc "wc" = "1", keep := kv sc "keep" = "1",
                                         loserFirst := kv sc "first" = "l", how1 := h1, how2 := h2 }
      let m := IpcHub.PullDual.stages IpcHub.Gen.unregistClosesAlways IpcHub.Registry.genFacts scn
      let v := IpcHub.PullDualSpec.verdict scn (parseStage ob "0") (parseStage ob "1") (parseStage ob "2") (kv ob "leak" = "1")
      s!"model={showStage m.1}/{showStage m.2.1}/{showStage m.2.2} verdict={v.name}"
    | _, _ => "bad-op"
  | ["dual"] =>
    -- two pulls whose handshakes succeeded register fresh streams 0 and 1 for one path; the racy
    -- schedule of the harness (first Regist paused after its Load) under the source's locking fact
    let s : IpcHub.Registry.Stream := { path := ['/', 'd'], status := .ok, rtp := [], flv := [], seed := 0, hls := none }
    let st0 : IpcHub.Registry.State := { streams := [s, s], reg := [], tasks := [], now := 0 }
    let c := IpcHub.RegistryLts.runSched IpcHub.Gen.pullRegistLocked
               (IpcHub.RegistryLts.initC st0 [.regist 0, .regist 1]) IpcHub.RegistryLts.pauseSchedule
    let live := (if IpcHub.Registry.isOk c.st 0 then 1 else 0) + (if IpcHub.Registry.isOk c.st 1 then 1 else 0)
    let reg := (IpcHub.Registry.load c.st.reg ['/', 'd']).isSome
    s!"model=live={live};registered={boolStr reg}"
  | _ => "bad-op"

end IpcHub.Drv.C20
