/- helpers for the line-protocol driver (core Lean only) -/
namespace IpcHub.Drv

def hexDigit (c : Char) : Option Nat :=
  if '0' ≤ c ∧ c ≤ '9' then some (c.toNat - '0'.toNat)
  else if 'a' ≤ c ∧ c ≤ 'f' then some (c.toNat - 'a'.toNat + 10)
  else if 'A' ≤ c ∧ c ≤ 'F' then some (c.toNat - 'A'.toNat + 10)
  else none

def hexToBytesAux : List Char → List UInt8 → Option (List UInt8)
  | [], acc => some acc.reverse
  | [_], _ => none
  | a :: b :: rest, acc =>
    match hexDigit a, hexDigit b with
    | some x, some y => hexToBytesAux rest (UInt8.ofNat (x * 16 + y) :: acc)
    | _, _ => none

/-- "-" is the empty string -/
def hexToBytes (s : String) : Option (List UInt8) :=
  if s = "-" then some [] else hexToBytesAux s.toList []

def nibble (n : Nat) : Char :=
  if n < 10 then Char.ofNat (n + 48) else Char.ofNat (n - 10 + 97)

def bytesToHex (bs : List UInt8) : String :=
  if bs.isEmpty then "-" else
  String.ofList (bs.foldr (fun b acc => nibble (b.toNat / 16) :: nibble (b.toNat % 16) :: acc) [])

/-- bytes ↔ chars, Latin-1 (the harness only sends ASCII where chars matter) -/
def hexToChars (s : String) : Option (List Char) :=
  (hexToBytes s).map (·.map (fun b => Char.ofNat b.toNat))

def charsToHex (cs : List Char) : String :=
  bytesToHex (cs.map (fun c => UInt8.ofNat c.toNat))

def boolStr (b : Bool) : String := if b then "1" else "0"

end IpcHub.Drv
