import IpcHub.Drv.DepackProto
namespace IpcHub.Drv.C06
/-- C06 driver: `run …` (specification packetiser → packets → model frames) and `judge …`
    (the C06 predicate on frames observed on the implementation); see Drv/DepackProto.lean -/
def handle (ts : List String) : String := IpcHub.Drv.DepackProto.handle ts
end IpcHub.Drv.C06
