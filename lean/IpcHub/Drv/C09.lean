import IpcHub.Drv.Util
import IpcHub.Model.TsInst
import IpcHub.Spec.TsOracle
import IpcHub.Spec.TsSource
import IpcHub.Spec.HlsOracle
namespace IpcHub.Drv.C09
open IpcHub.Ts IpcHub.Drv

def cfg : Cfg := genCfg

def kvOf (pre : String) (toks : List String) : Option String :=
  (toks.find? (·.startsWith pre)).map (fun (t : String) => (t.drop pre.length).toString)

def parseAsc (s : String) : Option (Option Asc) :=
  if s = "none" then some none else
  match s.splitOn "," with
  | [a, b, c, d, e] =>
    match a.toNat?, b.toNat?, c.toInt?, d.toNat?, e.toNat? with
    | some a, some b, some c, some d, some e =>
      some (some { objectType := a, samplingIndex := b, extSampleRate := c, extSamplingIndex := d, channelConfig := e })
    | _, _, _, _, _ => none
  | _ => none

/-- `v:<dtsNs>:<ptsNs>:<hex>` | `a:<ptsNs>:<hex>` | `o:<hex>` -/
def parseAv (s : String) : Option AvFrame :=
  match s.splitOn ":" with
  | ["v", d, p, h] =>
    match d.toInt?, p.toInt?, hexToBytes h with
    | some d, some p, some b => some { media := .video, dtsNs := d, ptsNs := p, payload := b }
    | _, _, _ => none
  | ["a", p, h] =>
    match p.toInt?, hexToBytes h with
    | some p, some b => some { media := .audio, dtsNs := p, ptsNs := p, payload := b }
    | _, _ => none
  | ["o", h] => (hexToBytes h).map fun b => { media := .other, dtsNs := 0, ptsNs := 0, payload := b }
  | _ => none

/-- `r:<pid>:<sid>:<dts>:<pts>:<key>:<hdr>:<payload>` -/
def parseRaw (s : String) : Option Frame :=
  match s.splitOn ":" with
  | ["r", pid, sid, d, p, k, h, pl] =>
    match pid.toNat?, sid.toNat?, d.toInt?, p.toInt?, hexToBytes h, hexToBytes pl with
    | some pid, some sid, some d, some p, some h, some pl =>
      some { pid := pid, streamId := sid, dts := d, pts := p, header := h, payload := pl, key := k = "1" }
    | _, _, _, _, _, _ => none
  | _ => none

/-- first index at which two byte lists differ (or the shorter length) -/
def firstDiff : List UInt8 → List UInt8 → Nat → Option Nat
  | [], [], _ => none
  | a :: as, b :: bs, i => if a = b then firstDiff as bs (i + 1) else some i
  | _, _, i => some i

def cmpBytes (model impl : List UInt8) : String :=
  if model == impl then "ok" else
  match firstDiff model impl 0 with
  | none => "ok"
  | some i => s!"diff:{i}:{model.length}:{impl.length}"

def srcOf := IpcHub.TsSpec.srcOf

/-- ops:
  `av sps=<hex> pps=<hex> asc=<ot,si,esr,esi,cc|none> impl=<hex> <frame>…`
      → `model=<ok|diff:…> panic=<0|1> spec=<ok|fail:…|skip>`
  `raw impl=<hex> <rawframe>…` → `model=… spec=…`
  `adts <profile> <srIdx> <chan> <size>` → `hdr=<hex>`
  `avchdr sps=<hex> pps=<hex> <payload-hex>` → `hdr=<hex>|panic` -/
def handle : List String → String
  | "av" :: toks =>
    match kvOf "sps=" toks >>= hexToBytes, kvOf "pps=" toks >>= hexToBytes,
          kvOf "asc=" toks >>= parseAsc, kvOf "impl=" toks >>= hexToBytes with
    | some sps, some pps, some asc, some impl =>
      match (toks.filter (fun t => ¬ t.contains '=')).mapM parseAv with
      | none => "bad-op"
      | some frames =>
        let m : Meta := { sps, pps, asc }
        let (tfs, panicked) := muxFrames cfg m frames
        let model := writeStream cfg tfs
        -- What the specification is evaluated on.  A video frame with an empty payload is not a NAL
        -- unit: everything handed over BEFORE it must be carried faithfully (what follows is not
        -- judged here: the packetizer's failure on it is C07's subject).  Audio frames of a stream
        -- whose AudioSpecificConfig is unusable cannot be framed as ADTS: none may appear.
        let judged := frames.takeWhile (fun f => !(f.media == .video && f.payload.isEmpty))
        let judged := if asc.isSome then judged else judged.filter (fun f => f.media != .audio)
        let spec :=
            -- the audio parameters the ADTS headers must show: the generator's ground truth when the
            -- harness knows it (`truth=<aot>,<srIndex>,<chan>`), else what the real decoder reported
            let truth : Option (Nat × Nat × Nat) :=
              match (kvOf "truth=" toks).map (fun (t : String) => t.splitOn ",") with
              | some [(x : String), (y : String), (z : String)] =>
                match String.toNat? x, String.toNat? y, String.toNat? z with
                | some x, some y, some z => some (x, y, z) | _, _, _ => none
              | _ => none
            let p : IpcHub.TsSpec.Params :=
              match truth, asc with
              | some (x, y, z), _ => { sps, pps, aot := x, srIndex := y, chanCfg := z }
              | none, some a => IpcHub.TsSpec.paramsOf sps pps a
              | none, none => { sps, pps, aot := 0, srIndex := 0, chanCfg := 0 }
            IpcHub.TsSpec.verdict (IpcHub.TsSpec.holds p (judged.flatMap srcOf) impl)
        s!"model={cmpBytes model impl} panic={boolStr panicked} spec={spec}"
    | _, _, _, _ => "bad-op"
  | "hls" :: toks =>
    -- the segment files the real hls.SegmentGenerator wrote for these frames (in order, the open one
    -- last): each a valid transport stream, together carrying every source frame exactly once
    match kvOf "sps=" toks >>= hexToBytes, kvOf "pps=" toks >>= hexToBytes, kvOf "asc=" toks >>= parseAsc,
          (toks.filter (fun t => ¬ t.contains '=')).mapM parseAv,
          ((toks.filter (·.startsWith "seg=")).map (fun (t : String) => (t.drop 4).toString)).mapM hexToBytes with
    | some sps, some pps, some asc, some frames, some segs =>
      let truth : Option (Nat × Nat × Nat) :=
        match (kvOf "truth=" toks).map (fun (t : String) => t.splitOn ",") with
        | some [(x : String), (y : String), (z : String)] =>
          match String.toNat? x, String.toNat? y, String.toNat? z with
          | some x, some y, some z => some (x, y, z) | _, _, _ => none
        | _ => none
      let p : IpcHub.TsSpec.Params :=
        match truth, asc with
        | some (x, y, z), _ => { sps, pps, aot := x, srIndex := y, chanCfg := z }
        | none, some a => IpcHub.TsSpec.paramsOf sps pps a
        | none, none => { sps, pps, aot := 0, srIndex := 0, chanCfg := 0 }
      let spec : Except String Unit := do
        let pes ← segs.mapM IpcHub.HlsSpec.demuxSegment
        IpcHub.HlsSpec.checkExactlyOnce p (frames.flatMap srcOf) pes true
      s!"model=ok panic=0 spec={IpcHub.TsSpec.verdict spec}"
    | _, _, _, _, _ => "bad-op"
  | "raw" :: toks =>
    match kvOf "impl=" toks >>= hexToBytes, (toks.filter (fun t => ¬ t.contains '=')).mapM parseRaw with
    | some impl, some frames =>
      let model := writeStream cfg frames
      let srcs : List IpcHub.TsSpec.RawSrc := frames.map fun f =>
        { pid := f.pid, sid := f.streamId, dts := f.dts.toNat, pts := f.pts.toNat, key := f.key,
          data := if f.payload.isEmpty then [] else f.header ++ f.payload }
      let pids := (frames.map (·.pid)).eraseDups
      s!"model={cmpBytes model impl} spec={IpcHub.TsSpec.verdict (IpcHub.TsSpec.holdsRaw pids srcs impl)}"
    | _, _ => "bad-op"
  | ["adts", p, s, c, n] =>
    match p.toNat?, s.toNat?, c.toNat?, n.toNat? with
    | some p, some s, some c, some n => s!"hdr={bytesToHex (adtsHeader cfg p s c n)}"
    | _, _, _, _ => "bad-op"
  | ["avchdr", sps, pps, pl] =>
    match hexToBytes sps, hexToBytes pps, hexToBytes pl with
    | some sps, some pps, some pl =>
      match avcHeader cfg sps pps pl with
      | some h => s!"hdr={bytesToHex h}"
      | none => "panic"
    | _, _, _ => "bad-op"
  | _ => "bad-op"

end IpcHub.Drv.C09
