import IpcHub.Drv.Util
import IpcHub.Spec.PatternDoc
import IpcHub.Model.PathMatchInst
namespace IpcHub.Drv.C16
open IpcHub.PathMatch IpcHub.PatternDoc IpcHub.Drv

/-- the model of the current source tree with Go's character functions -/
def cfg : Cfg := goCfg

/-- hex of a UTF-8 byte string → characters; `none` when the bytes are not valid UTF-8 -/
def hexToUtf8Chars (s : String) : Option (List Char) :=
  match hexToBytes s with
  | none => none
  | some bs => (String.fromUTF8? (ByteArray.mk bs.toArray)).map String.toList

def charsToUtf8Hex (cs : List Char) : String :=
  bytesToHex (String.ofList cs).toUTF8.data.toList

/-- the specification: with its own Unicode tables when every character is in the covered class
    (`c16_equiv_covered`), else read with Go's functions (`c16_equiv`) -/
def specFor (allCov : Bool) (right : List Char) (admin : Bool) (path : List Char) : Bool :=
  if allCov then permits uLower uSpace right admin path
  else permits IpcHub.GoUnicode.toLower IpcHub.GoUnicode.isSpace right admin path

def needOf : String → Option AccessRight
  | "pull" => some .pull
  | "push" => some .push
  | "other" => some .other
  | _ => none

/-- the user level: both rights, the one the request needs decides -/
def perm2 (pl ps a need p : String) : String :=
  match hexToUtf8Chars pl, hexToUtf8Chars ps, hexToUtf8Chars p, needOf need with
  | some pl, some ps, some p, some nd =>
    let admin := a = "1"
    let cov := pl.all covered && ps.all covered && p.all covered
    let model := implValidate cfg ⟨admin, pl, ps⟩ p nd
    let spec := match nd with
      | .pull => specFor cov pl admin p
      | .push => specFor cov ps admin p
      | .other => false
    s!"model={boolStr model} spec={boolStr spec} cov={boolStr cov}"
  | _, _, _, _ => "invalid-utf8"

/--
* `permit <right-hex> <admin 0|1> <path-hex>` → `model=<b> spec=<b> cov=<b>` (strings are UTF-8)
* `perm2 <pull-hex> <push-hex> <admin> <pull|push|other> <path-hex> [<route>]` → same, user level
  (the route by which the harness builds the user is not the model's business)
* `lowermap <utf8-hex>` → `out=<utf8-hex>` the model's `unicode.ToLower` applied to every character,
  `spec=<utf8-hex>` the specification's mapping, `cov=<0/1 per character>`
* `spacemap <utf8-hex>` → `out=<0/1 per character>` the model's `unicode.IsSpace`, `spec=` the spec's
-/
def handle : List String → String
  | ["permit", r, a, p] =>
    match hexToUtf8Chars r, hexToUtf8Chars p with
    | some r, some p =>
      let admin := a = "1"
      let cov := r.all covered && p.all covered
      s!"model={boolStr (implPermits cfg r admin p)} spec={boolStr (specFor cov r admin p)} cov={boolStr cov}"
    | _, _ => "invalid-utf8"
  | ["perm2", pl, ps, a, need, p] => perm2 pl ps a need p
  | ["perm2", pl, ps, a, need, p, _route] => perm2 pl ps a need p
  | ["lowermap", s] =>
    match hexToUtf8Chars s with
    | some cs =>
      let covs := String.ofList (cs.map (fun c => if covered c then '1' else '0'))
      s!"out={charsToUtf8Hex (cs.map IpcHub.GoUnicode.toLower)} spec={charsToUtf8Hex (cs.map uLower)} cov={covs}"
    | none => "invalid-utf8"
  | ["spacemap", s] =>
    match hexToUtf8Chars s with
    | some cs =>
      let f := fun (g : Char → Bool) => String.ofList (cs.map (fun c => if g c then '1' else '0'))
      s!"out={f IpcHub.GoUnicode.isSpace} spec={f uSpace}"
    | none => "invalid-utf8"
  | _ => "bad-op"

end IpcHub.Drv.C16
