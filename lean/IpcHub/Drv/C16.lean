import IpcHub.Drv.Util
import IpcHub.Spec.PatternLang
import IpcHub.Model.PathMatchInst
namespace IpcHub.Drv.C16
open IpcHub.PathMatch IpcHub.PatternLang IpcHub.Drv

def cfg : Cfg := genCfg

/-- `permit <right-hex> <admin 0|1> <path-hex>` → `model=<b> spec=<b>` -/
def handle : List String → String
  | ["permit", r, a, p] =>
    match hexToChars r, hexToChars p with
    | some r, some p =>
      let admin := a = "1"
      s!"model={boolStr (implPermits cfg r admin p)} spec={boolStr (specPermits asciiLower asciiSpace r admin p)}"
    | _, _ => "bad-op"
  | _ => "bad-op"

end IpcHub.Drv.C16
