/-
Line-protocol handler for C11.  One input line is a whole case: a history of operations on a
fresh world (user saves / deletes, logins, refreshes, ageing, requests on every entry point), each
operation optionally followed by `@<outcome the implementation showed>`.  For every operation the
driver answers `<model outcome>~<verdict>`: the outcome of the executable model, and the verdict of
the reference monitor (Spec/Monitor.lean) on the *implementation's* outcome in the monitor's own
state.  Sub-models are also reachable directly: `canon`, `extract`, `base`.
-/
import IpcHub.Drv.Util
import IpcHub.Spec.Monitor
import IpcHub.Model.AuthInst
namespace IpcHub.Drv.C11
open IpcHub.PathMatch IpcHub.Auth IpcHub.Monitor IpcHub.Drv

def cfg : Auth.Cfg := Auth.genCfg

def env : Env :=
  { lower := asciiLower, isSpace := asciiSpace, canon := canonicalPath cfg,
    openPaths := ["/api/v1/login", "/api/v1/server", "/api/v1/runtime", "/api/v1/refreshtoken"].map String.toList,
    streamQueryPrefix := "/api/v1/streams".toList }

/-- the monitor's view of a WSP control session: who opened it on which path, which data channel the
    implementation attached, what the implementation said it is consuming -/
structure SWsp where
  conn : WsConn
  data : Option WsConn := none
  attached : Option (List Char) := none
  deriving Repr

structure St where
  w : World
  sw : SWorld
  ws : List (Nat × WsConn) := []                       -- upgraded WebSocket connections (model's label)
  wsSpec : List (Nat × WsConn) := []                   -- the same connections as the MONITOR labels them: path of the URL, user of the token
  rtsp : List (String × RtspSess × SSess) := []        -- RTSP sessions: "n<j>" plain, "w<j>" on ws conn j
  wsp : List (Nat × WspSess) := []
  wspSpec : List (Nat × SWsp) := []                    -- the monitor's view of the WSP sessions (follows the implementation's outcomes)
  nRtsp : Nat := 0
  deriving Repr

def St.init : St :=
  { w := { authOn := true, users := [], toks := [], next := 0, now := 0, streams := [] },
    sw := { authOn := true, hist := [], grants := [], now := 0 } }

def hx (s : String) : Option (List Char) := hexToChars s

def parseSecret (s : String) : Option Secret :=
  match s.toList with
  | 'p' :: r => (hexToChars (String.ofList r)).map Secret.plain
  | 'm' :: r => (hexToChars (String.ofList r)).map Secret.md5
  | _ => none

/-- token reference: `-` none, `A<k>` / `R<k>` the access / refresh token of the k-th issued pair, `X<n>` a string never issued -/
def parseTok (s : String) : Option TokRef :=
  match s.toList with
  | ['-'] => some none
  | 'A' :: r => (String.ofList r).toNat?.map (fun k => some (2 * k))
  | 'R' :: r => (String.ofList r).toNat?.map (fun k => some (2 * k + 1))
  | 'X' :: r => (String.ofList r).toNat?.map (fun k => some (1000000 + k))
  | _ => none

def parseHM (s : String) : Option HMethod :=
  match s with | "G" => some .get | "C" => some .connect | "O" => some .other | _ => none

def parseMethod (s : String) : Option Method :=
  match s with
  | "OPTIONS" => some .options | "DESCRIBE" => some .describe | "ANNOUNCE" => some .announce
  | "SETUP" => some .setup | "PLAY" => some .play | "RECORD" => some .record
  | "TEARDOWN" => some .teardown | "PAUSE" => some .pause | "OTHER" => some .other
  | _ => none

def parseCtrl (s : String) : Option Ctrl :=
  match s with | "v" => some .video | "a" => some .audio | "u" => some .unknown | _ => none

def parseTr (s : String) : Option TrSpec :=
  match s.splitOn "/" with
  | [sp, md, bad] =>
    let spec : Option (Option TType) := match sp with
      | "t" => some (some .tcp) | "u" => some (some .udp) | "m" => some (some .mcast) | "x" => some none | _ => none
    let mode : Option (Option Mode) := match md with
      | "-" => some none | "r" => some (some .record) | "p" => some (some .play) | _ => none
    match spec, mode with
    | some sp, some md => some { spec := sp, modeParam := md, bad := bad = "1" }
    | _, _ => none
  | _ => none

def parseCred (s : String) : Option (Option Cred) :=
  if s = "-" then some none else
  match s.splitOn "/" with
  | [u, p, f] =>
    match hx u, parseSecret p with
    | some u, some p => some (some { user := u, secret := p, fresh := f = "1" })
    | _, _ => none
  | _ => none

def keyHex (k : List Char) : String := charsToHex k

def showHttp : HttpOut → String
  | .redirect => "301" | .crossdomain => "xd" | .unauthorized => "401" | .forbidden => "403"
  | .serve k key =>
    let ks := match k with | .flv => "flv" | .m3u8 => "m3u8" | .ts => "ts" | .wsflv => "wsflv" | .wsrtsp => "wsrtsp" | .wsp => "wsp"
    s!"sv.{ks}.{keyHex key}"
  | .noMedia c => s!"nm.{c}" | .panic => "panic"

def parseHttp (s : String) : Option HttpOut :=
  match s.splitOn "." with
  | ["301"] => some .redirect | ["xd"] => some .crossdomain | ["401"] => some .unauthorized
  | ["403"] => some .forbidden | ["panic"] => some .panic
  | ["nm", c] => c.toNat?.map HttpOut.noMedia
  | ["sv", k, key] =>
    let kind : Option Kind := match k with
      | "flv" => some .flv | "m3u8" => some .m3u8 | "ts" => some .ts | _ => none
    match kind, hx key with
    | some k, some key => some (.serve k key)
    | _, _ => none
  | _ => none

def showApi : ApiOut → String
  | .redirect => "301" | .crossdomain => "xd" | .open_ => "pass" | .unauthorized => "401"
  | .forbidden => "403" | .pass _ => "pass"

def showVerdict : Verdict → String
  | .ok => "ok" | .unsound => "UNSOUND" | .incomplete => "INCOMPLETE"

def showEff : Effect → String
  | .none => "-" | .describe k => s!"d.{keyHex k}" | .play k => s!"p.{keyHex k}" | .publish k => s!"b.{keyHex k}"

def parseEff (s : String) : Option Effect :=
  match s.splitOn "." with
  | ["-"] => some .none
  | ["d", k] => (hx k).map Effect.describe
  | ["p", k] => (hx k).map Effect.play
  | ["b", k] => (hx k).map Effect.publish
  | _ => none

def showRtsp (o : RtspOut) : String := s!"{o.code}/{showEff o.eff}"

def parseRtsp (s : String) : Option RtspOut :=
  match s.splitOn "/" with
  | [c, e] => match c.toNat?, parseEff e with
    | some c, some e => some { code := c, eff := e }
    | _, _ => none
  | _ => none

/-- split `op@impl` -/
def splitImpl (tok : String) : String × String :=
  match tok.splitOn "@" with
  | [a, b] => (a, b)
  | _ => (tok, "")

def userIn (name admin push pull pw : String) : Option UserIn :=
  match hx name, hx push, hx pull, parseSecret pw with
  | some n, some ps, some pl, some p => some { name := n, password := p, admin := admin = "1", push := ps, pull := pl }
  | _, _, _, _ => none

/-- the implementation's API outcome as the monitor sees it: a call that reached the router with a
    valid token is `pass <that user>`; one that reached it without is "open" -/
def implApi (st : St) (p : List Char) (t : TokRef) (impl : String) : Option ApiOut :=
  match impl with
  | "301" => some .redirect | "xd" => some .crossdomain | "401" => some .unauthorized | "403" => some .forbidden
  | "pass" =>
    if isOpenPath env p then some .open_
    else match who st.sw t with
      | some u => some (.pass u)
      | none => some .open_
  | _ => none

/-- the spec user of an access token, judged in the monitor state -/
def specUserOf (st : St) (tok : TokRef) : Option (List Char) := who st.sw tok

def addGrant (st : St) (k : Nat) (user : List Char) : St :=
  { st with sw := { st.sw with grants :=
      { user := user, a := 2 * k, r := 2 * k + 1, aexp := st.sw.now + cfg.accessTTL, rexp := st.sw.now + cfg.refreshTTL, live := true } :: st.sw.grants } }

def parseIssued (s : String) : Option Nat :=
  match s.toList with
  | 't' :: r => (String.ofList r).toNat?
  | _ => none

def showIssued (_st : St) (t : Option Tok) : String :=
  match t with
  | some tok => s!"t{tok.a / 2}"
  | none => "no"

def findRtsp (st : St) (k : String) : Option (RtspSess × SSess) :=
  (st.rtsp.find? (·.1 = k)).map (·.2)

def setRtsp (st : St) (k : String) (v : RtspSess × SSess) : St :=
  { st with rtsp := (k, v) :: st.rtsp.filter (·.1 ≠ k) }

/-- one operation: new state and the answer `<model>~<verdict>` -/
def stepOp (st : St) (tok : String) : St × String :=
  let (op, impl) := splitImpl tok
  let bad := (st, "bad-op")
  -- an optional last field `H<hex>[,<hex>...]`: the values of the identity header `user_name_in_token`
  -- (any spelling net/http maps to the same key) that the CLIENT sent; the monitor does not look at them
  let fields := op.splitOn ":"
  let (fields, hdr) : List String × Option (List (List Char)) := match fields.getLast? with
    | some l => match l.toList with
      | 'H' :: r => (fields.dropLast, ((String.ofList r).splitOn ",").mapM hexToChars)
      | _ => (fields, some [])
    | none => (fields, some [])
  match hdr with
  | none => bad
  | some hdr =>
  match fields with
  | ["auth", b] =>
    ({ st with w := { st.w with authOn := b = "1" }, sw := { st.sw with authOn := b = "1" } }, "ok~ok")
  | ["st", key] =>
    match hx key with
    | some k => ({ st with w := { st.w with streams := { key := canonicalPath cfg k, segs := [1, 2, 3], owner := none } :: st.w.streams } }, "ok~ok")
    | none => bad
  | ["sv", name, admin, push, pull, pw, upd] =>
    match userIn name admin push pull pw with
    | some u =>
      ({ st with w := { st.w with users := saveUser cfg st.w.users u (upd = "1") },
                 sw := { st.sw with hist := .save u (upd = "1") :: st.sw.hist } }, "ok~ok")
    | none => bad
  | ["dl", name] =>
    match hx name with
    | some n => ({ st with w := { st.w with users := delUser cfg st.w.users n },
                           sw := { st.sw with hist := .del n :: st.sw.hist } }, "ok~ok")
    | none => bad
  | ["ag", secs] =>
    match secs.toNat? with
    | some d => ({ st with w := { st.w with now := st.w.now + d }, sw := { st.sw with now := st.sw.now + d } }, "ok~ok")
    | none => bad
  | ["ex"] => ({ st with w := { st.w with toks := expCheck st.w.toks st.w.now } }, "ok~ok")
  | ["li", name, pw] =>
    match hx name, parseSecret pw with
    | some n, some p =>
      let (w', t) := apiLogin cfg st.w n p
      let issued := parseIssued impl
      let v := judgeLogin env st.sw n p (issued.map (fun _ => n.map asciiLower))
      let st := { st with w := w' }
      let st := match issued with
        | some k => if loginOk env st.sw n p then addGrant st k (n.map asciiLower) else st
        | none => st
      (st, s!"{showIssued st t}~{showVerdict v}")
    | _, _ => bad
  | ["rf", tk] =>
    match parseTok tk with
    | some t =>
      let (w', r) := apiRefresh cfg st.w t
      let issued := parseIssued impl
      let want := match t with | some x => (refreshGrant st.sw.grants st.sw.now x).2 | none => none
      let v := judgeRefresh st.sw t (match issued, want with
        | some _, some u => some u      -- the implementation does not disclose the user; assume the right one
        | some _, none => some []
        | none, _ => none)
      let gs := match t with | some x => (refreshGrant st.sw.grants st.sw.now x).1 | none => st.sw.grants
      let st := { st with w := w', sw := { st.sw with grants := gs } }
      let st := match issued, want with
        | some k, some u => addGrant st k u
        | _, _ => st
      (st, s!"{showIssued st r}~{showVerdict v}")
    | none => bad
  | ["hs", m, path, tk] =>
    match parseHM m, hx path, parseTok tk with
    | some m, some p, some t =>
      let (w', out) := httpStreamH cfg st.w m p t hdr
      let v := match parseHttp impl with
        | some io => judgeHttp env st.sw p t io
        | none => .ok
      ({ st with w := w' }, s!"{showHttp out}~{showVerdict v}")
    | _, _, _ => bad
  | ["ap", m, path, tk] =>
    match hx path, parseTok tk with
    | some p, some t =>
      let hm : HMethod := if m = "C" then .connect else if m = "G" then .get else .other
      let isGet := m = "G"
      let (w', out) := apiGateH cfg st.w hm isGet p t hdr
      let v := match implApi st p t impl with
        | some io => judgeApi env st.sw isGet p t io
        | none => .ok
      ({ st with w := w' }, s!"{showApi out}~{showVerdict v}")
    | _, _ => bad
  | ["asv", tk, name, admin, push, pull, pw, upd] =>
    match parseTok tk, userIn name admin push pull pw with
    | some t, some u =>
      let p := "/api/v1/users".toList
      let (w', out) := apiGateH cfg st.w .other false p t hdr
      let w' := match out with
        | .pass _ => { w' with users := saveUser cfg w'.users u (upd = "1") }
        | _ => w'
      let v := match implApi st p t impl with | some io => judgeApi env st.sw false p t io | none => .ok
      let sw := if impl = "pass" then { st.sw with hist := .save u (upd = "1") :: st.sw.hist } else st.sw
      ({ st with w := w', sw := sw }, s!"{showApi out}~{showVerdict v}")
    | _, _ => bad
  | ["adl", tk, name] =>
    match parseTok tk, hx name with
    | some t, some n =>
      let p := "/api/v1/users/".toList ++ n
      let (w', out) := apiGateH cfg st.w .other false p t hdr
      let w' := match out with
        | .pass _ => { w' with users := delUser cfg w'.users n }
        | _ => w'
      let v := match implApi st p t impl with | some io => judgeApi env st.sw false p t io | none => .ok
      let sw := if impl = "pass" then { st.sw with hist := .del n :: st.sw.hist } else st.sw
      ({ st with w := w', sw := sw }, s!"{showApi out}~{showVerdict v}")
    | _, _ => bad
  | ["ws", sub, path, tk] =>
    let sub? : Option WsSub := match sub with
      | "rtsp" => some .rtsp | "control" => some .control | "data" => some .data | "none" => some .none | _ => none
    match sub?, hx path, parseTok tk with
    | some sb, some p, some t =>
      let (w', out) := wsUpgradeH cfg st.w p t sb hdr
      let st1 := { st with w := w' }
      -- the connection as the monitor labels it: the stream path of the URL, the user of the token
      let sp := match extractStreamPathAndExt p with | some (sp, _) => sp | none => []
      let cu : WsConn := { path := sp, user := (who st.sw t).getD [] }
      -- the implementation's outcome, for the monitor (the label of the connection is not disclosed:
      -- a connection for an unauthenticated caller is the only thing the upgrade itself can show)
      let io : Option WsOut := match impl.splitOn "." with
        | ["301"] => some .redirect | ["xd"] => some .crossdomain | ["401"] => some .unauthorized
        | ["403"] => some .forbidden | ["panic"] => some .panic
        | ["up", _] => some (WsOut.upgraded cu)
        | ["cl", _] => some (WsOut.closed cu)
        | ["fl", _, key] => (hx key).map (fun k => WsOut.serveFlv cu k)
        | _ => none
      let implIdx : Option Nat := match impl.splitOn "." with
        | ["up", j] => j.toNat? | ["cl", j] => j.toNat? | ["fl", j, _] => j.toNat? | _ => none
      let v := match io with | some io => judgeWs env st.sw p t io | none => .ok
      let mconn : Option WsConn := match out with
        | .upgraded c | .serveFlv c _ | .closed c => some c
        | _ => none
      -- index of the connection: the implementation's, so that later ops address the same connection
      -- even after model and implementation disagreed about an upgrade
      let j := implIdx.getD st.ws.length
      let st2 := match mconn, implIdx with
        | some c, _ => { st1 with ws := st1.ws ++ [(j, c)], wsSpec := st1.wsSpec ++ [(j, cu)] }
        | none, some _ => { st1 with ws := st1.ws ++ [(j, cu)], wsSpec := st1.wsSpec ++ [(j, cu)] }
        | none, none => st1
      let sessConn : Option WsConn := match mconn, implIdx with
        | some c, _ => some c
        | none, some _ => some cu
        | none, none => none
      let st2 := match sessConn with
        | some c => if sb = .rtsp then setRtsp st2 s!"w{j}" (newRtspSess st2.w (1000 + j) (some c), { resource := cu.path }) else st2
        | none => st2
      let shown := match out with
        | .upgraded _ => s!"up.{j}"
        | .serveFlv _ key => s!"fl.{j}.{keyHex key}"
        | .closed _ => s!"cl.{j}"
        | .redirect => "301" | .crossdomain => "xd" | .unauthorized => "401" | .forbidden => "403" | .panic => "panic"
      (st2, s!"{shown}~{showVerdict v}")
    | _, _, _ => bad
  | ["ro", j] =>
    match j.toNat? with
    | some j => (setRtsp st s!"n{j}" (newRtspSess st.w j none, {}), "ok~ok")
    | none => bad
  | ["rc", k] =>
    match findRtsp st k with
    | some (s, _) => ({ st with w := st.w.unregisterOwner s.id, rtsp := st.rtsp.filter (·.1 ≠ k) }, "ok~ok")
    | none => (st, "ok~ok")
  | ["rt", k, m, url, cred, ct, sdp, ctrl, tr] =>
    match findRtsp st k, parseMethod m, hx url, parseCred cred, parseCtrl ctrl, parseTr tr with
    | some (s, ss), some m, some u, some c, some ctl, some tr =>
      let rq : RtspReq := { method := m, urlPath := u, cred := c, ctOk := ct = "1", sdpOk := sdp = "1", ctrl := ctl, tr := tr }
      let (w', s', out) := rtspStep cfg st.w s rq
      let io := parseRtsp impl
      -- the monitor's label of the connection a WebSocket session runs on (never the model's)
      let sws : Option WsConn := match k.toList with
        | 'w' :: r => match (String.ofList r).toNat? with
          | some j => (st.wsSpec.find? (·.1 = j)).map (·.2)
          | none => none
        | _ => none
      let v := match io with | some io => judgeRtsp env st.sw ss sws rq io | none => .ok
      let ss' := match io with | some io => ss.step env sws rq io | none => ss
      (setRtsp { st with w := w' } k (s', ss'), s!"{showRtsp out}~{showVerdict v}")
    | _, _, _, _, _, _ => bad
  | ["wc", j] =>
    match j.toNat? with
    | some j =>
      match st.ws.find? (·.1 = j), st.wsSpec.find? (·.1 = j) with
      | some (_, c), some (_, sc) =>
        let i := st.wsp.length
        ({ st with wsp := st.wsp ++ [(i, { chan := i, conn := c })], wspSpec := st.wspSpec ++ [(i, { conn := sc })] }, s!"ch.{i}~ok")
      | _, _ => (st, "err~ok")
    | none => bad
  | ["wd", j, ch] =>
    match j.toNat? with
    | some j =>
      match st.ws.find? (·.1 = j), st.wsSpec.find? (·.1 = j) with
      | some (_, dc), some (_, sdc) =>
        let sess := match ch.toNat? with
          | some i => (st.wsp.find? (·.1 = i)).map (·.2)
          | none => none
        let ssess : Option (Nat × SWsp) := match ch.toNat? with
          | some i => st.wspSpec.find? (·.1 = i)
          | none => none
        let (code, s') := wspJoin cfg st.w sess dc
        let v := match impl.toNat? with
          | some ic => judgeJoin env st.sw (ssess.map (fun s => (s.2.conn, s.2.attached))) sdc ic
          | none => .ok
        let st := match s' with
          | some s => { st with wsp := st.wsp.map (fun e => if e.1 = s.chan then (e.1, s) else e) }
          | none => st
        -- the monitor's session follows what the implementation did
        let st := match ssess, impl.toNat? with
          | some (i, s), some 200 => { st with wspSpec := st.wspSpec.map (fun e => if e.1 = i then (i, { s with data := some sdc }) else e) }
          | _, _ => st
        (st, s!"{code}~{showVerdict v}")
      | _, _ => (st, "err~ok")
    | none => bad
  | ["wr", i, m, ctrl, trok] =>
    match i.toNat?, parseMethod m, parseCtrl ctrl with
    | some i, some m, some ctl =>
      match st.wsp.find? (·.1 = i), st.wspSpec.find? (·.1 = i) with
      | some (_, s), some (_, ss) =>
        let (s', out) := wspStep cfg st.w s m ctl (trok = "1")
        let io := parseRtsp impl
        let v := match io with
          | some io => judgeWsp env st.sw ss.conn ss.data io
          | none => .ok
        let ss' : SWsp := match io with
          | some io => match io.eff with
            | .play k => { ss with attached := some k }
            | _ => ss
          | none => ss
        ({ st with wsp := st.wsp.map (fun e => if e.1 = i then (i, s') else e),
                   wspSpec := st.wspSpec.map (fun e => if e.1 = i then (i, ss') else e) }, s!"{showRtsp out}~{showVerdict v}")
      | _, _ => (st, "err~ok")
    | _, _, _ => bad
  | _ => bad

/-- `b.c.17` = b64 (ctr 17), `m.r.3` = md5 (rnd 3), ... -/
def parseTerm (s : String) : Option Ids.Term :=
  match (s.splitOn ".").reverse with
  | num :: kind :: wraps =>
    match num.toNat? with
    | none => none
    | some n =>
      let base : Option Ids.Term := match kind with
        | "c" => some (.ctr n) | "r" => some (.rnd n) | _ => none
      wraps.foldl (fun acc w => match acc, w with
        | some t, "m" => some (Ids.Term.md5 t) | some t, "b" => some (Ids.Term.b64 t)
        | some t, "d" => some (Ids.Term.dec t) | some t, "h" => some (Ids.Term.hex t)
        | _, _ => none) base
  | _ => none

/-- `secrecy <known,known,...> <target>`: can the attacker derive the target? -/
def secrecy (known target : String) : String :=
  let ks := (known.splitOn ",").filter (· ≠ "") |>.map parseTerm
  match parseTerm target with
  | none => "bad-op"
  | some t =>
    if ks.any Option.isNone then "bad-op" else
    let K := ks.filterMap id
    let src := match Auth.genSource with | .randomDraw => "rnd" | .md5OfCounter => "md5"
    s!"derivable={boolStr (Ids.derivable K t)} source={src}"

def runCase (ops : List String) : String :=
  let (_, outs) := ops.foldl (fun (acc : St × List String) op =>
    let (st', o) := stepOp acc.1 op
    (st', o :: acc.2)) (St.init, [])
  " ".intercalate outs.reverse

def handle : List String → String
  | "case" :: ops => runCase ops
  | ["secrecy", known, target] => secrecy known target
  | ["canon", p] => match hx p with | some p => charsToHex (canonicalPath cfg p) | none => "bad-op"
  | ["clean", p] => match hx p with | some p => charsToHex (cleanKeepSlash p) | none => "bad-op"
  | ["base", p] => match hx p with | some p => charsToHex (pathBase p) | none => "bad-op"
  | ["extract", p] =>
    match hx p with
    | some p => match extractStreamPathAndExt p with
      | some (sp, ext) => s!"{charsToHex sp} {charsToHex ext}"
      | none => "panic"
    | none => "bad-op"
  | ["atoi", p] => match hx p with
    | some p => match atoi p with | some n => s!"{n}" | none => "err"
    | none => "bad-op"
  | _ => "bad-op"

end IpcHub.Drv.C11
