import IpcHub.Drv.Util
import IpcHub.Model.CodecInst
import IpcHub.Spec.H264Syntax
import IpcHub.Spec.AscSyntax
/-!
Driver of C15 (codec parameter parsing).  Ops (the leading `c15` is already stripped):

* `bits <hex> <op>…`   run reader operations on a fresh reader over the bytes; ops:
  `b` ReadBit · `u<n>.<max>` readUint64(n,max) · `s<n>` Skip · `p<n>` Peek · `e` ReadUe ·
  `g` ReadSe · `l` BitsLeft  →  `v1,v2,…` with `panic` as the last item when an op panicked
* `epb <hex>`          → `model=<hex of RemoveH264or5EmulationBytes> ins=<hex of the standard's insertion>`
* `h264dec <hex>`      → `ok dims=<w,h,fixed,fpsN/fpsD> dump=<fields>` | `err=<kind>`
* `h264enc k=v …`      → `bytes=<hex> spec=<w,h,fixed,fps>` then the same as h264dec for those bytes
* `ascdec <hex>`       → `ok meta=<channels,rate> dump=<fields>` | `err=<kind>`
* `ascenc k=v …`       → `bytes=<hex> spec=<channels,rate>` then the same as ascdec for those bytes
-/
namespace IpcHub.Drv.C15
open IpcHub.Drv IpcHub.Bits

def joinWith (sep : String) (l : List String) : String := sep.intercalate l

def faultStr : Fault → String
  | .panic => "panic"
  | .err k => s!"e{k}"

/-! ### bits -/

def splitDot (s : String) : List String := s.splitOn "."

def runOp (se : Bool) (op : String) (s : List Bool) : Except Fault (String × List Bool) :=
  let c := op.front
  let rest := (op.drop 1).toString
  let n := rest.toNat?.getD 0
  if c = 'b' then (readBit s).map (fun (v, s') => (toString v, s'))
  else if c = 'u' then
    match splitDot rest with
    | [a, b] => (readU (a.toNat?.getD 0) (b.toNat?.getD 0) s).map (fun (v, s') => (toString v, s'))
    | _ => .ok ("bad", s)
  else if c = 's' then (skip n s).map (fun (_, s') => ("_", s'))
  else if c = 'p' then (peek n s).map (fun (v, s') => (toString v, s'))
  else if c = 'e' then (readUe s).map (fun (v, s') => (toString v, s'))
  else if c = 'g' then (readSeC se s).map (fun (v, s') => (toString v, s'))
  else if c = 'l' then (bitsLeft s).map (fun (v, s') => (toString v, s'))
  else .ok ("bad", s)

def runOps (se : Bool) : List String → List Bool → List String → List String
  | [], _, acc => acc.reverse
  | op :: ops, s, acc =>
    match runOp se op s with
    | .ok (v, s') => runOps se ops s' (v :: acc)
    | .error _ => ("panic" :: acc).reverse

/-! ### dumps (must agree character by character with the Go harness) -/

def nats (l : List Nat) : String := joinWith "," (l.map toString)
def ints (l : List Int) : String := joinWith "," (l.map toString)

def trimZeros (l : List Int) : List Int := (l.reverse.dropWhile (· == 0)).reverse

def dotInts (l : List Int) : String := "[" ++ joinWith "." (l.map toString) ++ "]"

open IpcHub.H264 in
def dumpHrd (h : Hrd) : String :=
  nats [h.cpbCntMinus1, h.bitRateScale, h.cpbSizeScale] ++ ",[" ++
  joinWith "." (h.entries.map (fun (a, b, c) => s!"{a}/{b}/{c}")) ++ "]," ++
  nats [h.initialCpbRemovalDelayLengthMinus1, h.cpbRemovalDelayLengthMinus1, h.dpbOutputDelayLengthMinus1, h.timeOffsetLength]

open IpcHub.H264 in
def dumpSps (s : RawSps) : String :=
  let h := s.hdr; let c := s.chroma; let p := s.poc; let f := s.frame; let v := s.vui
  "H=" ++ nats [h.forbiddenZeroBit, h.nalRefIdc, h.nalUnitType, h.profileIdc, h.constraintSet0Flag, h.constraintSet1Flag,
    h.constraintSet2Flag, h.constraintSet3Flag, h.constraintSet4Flag, h.constraintSet5Flag, h.reservedZero2Bits, h.levelIdc, h.seqParameterSetID] ++
  ";C=" ++ nats [c.chromaFormatIdc, c.separateColourPlaneFlag, c.bitDepthLumaMinus8, c.bitDepthChromaMinus8,
    c.qpprimeYZeroTransformBypassFlag, c.seqScalingMatrixPresentFlag] ++ ",[" ++ joinWith "." (c.seqScalingListPresentFlag.map toString) ++ "]," ++
    joinWith "" (c.scalingLists.map (fun l => dotInts (trimZeros l))) ++
  ";P=" ++ nats [p.log2MaxFrameNumMinus4, p.picOrderCntType, p.log2MaxPicOrderCntLsbMinus4, p.deltaPicOrderAlwaysZeroFlag] ++ "," ++
    ints [p.offsetForNonRefPic, p.offsetForTopToBottomField] ++ "," ++ toString p.numRefFramesInPicOrderCntCycle ++ "," ++ dotInts p.offsetForRefFrame ++
  ";F=" ++ nats [f.maxNumRefFrames, f.gapsInFrameNumAllowedFlag, f.picWidthInMbsMinus1, f.picHeightInMapUnitsMinus1, f.frameMbsOnlyFlag,
    f.mbAdaptiveFrameFieldFlag, f.direct8x8InferenceFlag, f.frameCroppingFlag, f.frameCropLeftOffset, f.frameCropRightOffset,
    f.frameCropTopOffset, f.frameCropBottomOffset] ++
  ";V=" ++ nats [s.vuiParametersPresentFlag, v.aspectRatioInfoPresentFlag, v.aspectRatioIdc, v.sarWidth, v.sarHeight, v.overscanInfoPresentFlag,
    v.overscanAppropriateFlag, v.videoSignalTypePresentFlag, v.videoFormat, v.videoFullRangeFlag, v.colourDescriptionPresentFlag,
    v.colourPrimaries, v.transferCharacteristics, v.matrixCoefficients, v.chromaLocInfoPresentFlag, v.chromaSampleLocTypeTopField,
    v.chromaSampleLocTypeBottomField, v.timingInfoPresentFlag, v.numUnitsInTick, v.timeScale, v.fixedFrameRateFlag,
    v.nalHrdParametersPresentFlag, v.vclHrdParametersPresentFlag, v.lowDelayHrdFlag, v.picStructPresentFlag, v.bitstreamRestrictionFlag,
    v.motionVectorsOverPicBoundariesFlag, v.maxBytesPerPicDenom, v.maxBitsPerMbDenom, v.log2MaxMvLengthHorizontal,
    v.log2MaxMvLengthVertical, v.maxNumReorderFrames, v.maxDecFrameBuffering] ++
  ";N=" ++ dumpHrd v.nalHrd ++ ";L=" ++ dumpHrd v.vclHrd

def fpsStr : Option (Nat × Nat) → String
  | none => "0"
  | some (n, d) => s!"{n}/{d}"

open IpcHub.H264 in
def dimsStr (d : VideoDims) : String := s!"{d.width},{d.height},{boolStr d.fixed},{fpsStr d.fps}"

open IpcHub.H264 in
def h264dec (bytes : List UInt8) : String :=
  match decode genCfg bytes with
  | .ok s => s!"ok dims={dimsStr (dimsOf genCfg s)} dump={dumpSps s}"
  | .error e => s!"err={faultStr e}"

/-! ### key=value input for the encoders -/

def kvOf (ts : List String) : List (String × String) :=
  ts.filterMap (fun t => match t.splitOn "=" with
    | [k, v] => some (k, v)
    | _ => none)

def getS (kv : List (String × String)) (k : String) : String := (kv.lookup k).getD ""
def getN (kv : List (String × String)) (k : String) : Nat := (getS kv k).toNat?.getD 0
def getI (kv : List (String × String)) (k : String) : Int := (getS kv k).toInt?.getD 0
def getB (kv : List (String × String)) (k : String) : Bool := getS kv k == "1"
/-- `a.b.c` (or `e`/empty for the empty list) -/
def parseInts (s : String) : List Int :=
  if s == "" || s == "e" then [] else (s.splitOn ".").map (fun x => x.toInt?.getD 0)
def getL (kv : List (String × String)) (k : String) : List Int := parseInts (getS kv k)
/-- scaling lists: `-|1.2|e|…` (`-` = flag 0) -/
def getSL (kv : List (String × String)) (k : String) : List (Option (List Int)) :=
  let s := getS kv k
  if s == "" then [] else (s.splitOn "|").map (fun x => if x == "-" then none else some (parseInts x))
/-- cpb entries `br/cs/cbr.br/cs/cbr` -/
def getCpb (kv : List (String × String)) (k : String) : List (Nat × Nat × Bool) :=
  let s := getS kv k
  if s == "" then [] else (s.splitOn ".").map (fun x => match x.splitOn "/" with
    | [a, b, c] => (a.toNat?.getD 0, b.toNat?.getD 0, c == "1")
    | _ => (0, 0, false))

open IpcHub.H264Syntax in
def hrdOf (kv : List (String × String)) (p : String) : HrdSyntax :=
  { bit_rate_scale := getN kv (p ++ "brs"), cpb_size_scale := getN kv (p ++ "css"), cpb := getCpb kv (p ++ "cpb"),
    initial_cpb_removal_delay_length_minus1 := getN kv (p ++ "l1"), cpb_removal_delay_length_minus1 := getN kv (p ++ "l2"),
    dpb_output_delay_length_minus1 := getN kv (p ++ "l3"), time_offset_length := getN kv (p ++ "l4") }

open IpcHub.H264Syntax in
def spsOf (kv : List (String × String)) : SpsSyntax :=
  { nal_ref_idc := getN kv "ref", profile_idc := getN kv "profile",
    constraint_set0_flag := getB kv "c0", constraint_set1_flag := getB kv "c1", constraint_set2_flag := getB kv "c2",
    constraint_set3_flag := getB kv "c3", constraint_set4_flag := getB kv "c4", constraint_set5_flag := getB kv "c5",
    level_idc := getN kv "level", seq_parameter_set_id := getN kv "id", chroma_format_idc := getN kv "cf",
    separate_colour_plane_flag := getB kv "sep", bit_depth_luma_minus8 := getN kv "bdl", bit_depth_chroma_minus8 := getN kv "bdc",
    qpprime_y_zero_transform_bypass_flag := getB kv "qp", seq_scaling_matrix_present_flag := getB kv "sm",
    scaling_lists := getSL kv "sl", log2_max_frame_num_minus4 := getN kv "fn", pic_order_cnt_type := getN kv "pt",
    log2_max_pic_order_cnt_lsb_minus4 := getN kv "lsb", delta_pic_order_always_zero_flag := getB kv "dz",
    offset_for_non_ref_pic := getI kv "o1", offset_for_top_to_bottom_field := getI kv "o2", offset_for_ref_frame := getL kv "offs",
    max_num_ref_frames := getN kv "refs", gaps_in_frame_num_value_allowed_flag := getB kv "gaps",
    pic_width_in_mbs_minus1 := getN kv "w", pic_height_in_map_units_minus1 := getN kv "h", frame_mbs_only_flag := getB kv "fmo",
    mb_adaptive_frame_field_flag := getB kv "mbaff", direct_8x8_inference_flag := getB kv "d8", frame_cropping_flag := getB kv "crop",
    frame_crop_left_offset := getN kv "cl", frame_crop_right_offset := getN kv "cr", frame_crop_top_offset := getN kv "ct",
    frame_crop_bottom_offset := getN kv "cb", vui_parameters_present_flag := getB kv "vui",
    vui := { aspect_ratio_info_present_flag := getB kv "ar", aspect_ratio_idc := getN kv "aridc", sar_width := getN kv "sarw",
             sar_height := getN kv "sarh", overscan_info_present_flag := getB kv "os", overscan_appropriate_flag := getB kv "osa",
             video_signal_type_present_flag := getB kv "vs", video_format := getN kv "vfmt", video_full_range_flag := getB kv "vfr",
             colour_description_present_flag := getB kv "cd", colour_primaries := getN kv "cprim", transfer_characteristics := getN kv "ctrans",
             matrix_coefficients := getN kv "cmat", chroma_loc_info_present_flag := getB kv "loc",
             chroma_sample_loc_type_top_field := getN kv "loct", chroma_sample_loc_type_bottom_field := getN kv "locb",
             timing_info_present_flag := getB kv "ti", num_units_in_tick := getN kv "nut", time_scale := getN kv "ts",
             fixed_frame_rate_flag := getB kv "ffr", nal_hrd_parameters_present_flag := getB kv "nal", nal_hrd := hrdOf kv "n.",
             vcl_hrd_parameters_present_flag := getB kv "vcl", vcl_hrd := hrdOf kv "v.", low_delay_hrd_flag := getB kv "low",
             pic_struct_present_flag := getB kv "ps", bitstream_restriction_flag := getB kv "br",
             motion_vectors_over_pic_boundaries_flag := getB kv "mv", max_bytes_per_pic_denom := getN kv "r1",
             max_bits_per_mb_denom := getN kv "r2", log2_max_mv_length_horizontal := getN kv "r3",
             log2_max_mv_length_vertical := getN kv "r4", max_num_reorder_frames := getN kv "r5", max_dec_frame_buffering := getN kv "r6" } }

open IpcHub.H264Syntax in
def h264enc (kv : List (String × String)) : String :=
  let s := spsOf kv
  let bytes := encSpsNal s
  s!"bytes={bytesToHex bytes} spec={croppedWidth s},{croppedHeight s},{boolStr (fixedFrameRate s)},{fpsStr (frameRate s)} " ++ h264dec bytes

/-! ### AudioSpecificConfig -/

open IpcHub.Asc in
def ascdec (bytes : List UInt8) : String :=
  match decode genCfg bytes with
  | .ok a =>
    let md := match metadataIsReady genCfg bytes with
      | some (c, r) => s!"{c},{r}"
      | none => "none"
    s!"ok meta={md} dump={a.objectType},{a.samplingIndex},{a.sampleRate},{a.channelConfig},{a.sbr},{a.extObjectType},{a.extSamplingIndex},{a.extSampleRate},{a.extChannelConfig},{a.channels},{a.ps}"
  | .error e => s!"err={faultStr e}"

open IpcHub.AscSyntax in
def ascOf (kv : List (String × String)) : AscSyntax :=
  { aot := getN kv "aot", samplingFrequencyIndex := getN kv "sfi", samplingFrequency := getN kv "sf",
    channelConfiguration := getN kv "cc", frameLengthFlag := getB kv "fl",
    signalling :=
      if getS kv "sig" == "hier" then .hierarchical (getB kv "ps") (getN kv "ei") (getN kv "ef")
      else if getS kv "sig" == "back" then
        .backward (getB kv "sbr") (getN kv "ei") (getN kv "ef") (if getS kv "ps" == "" then none else some (getB kv "ps"))
      else .plain }

open IpcHub.AscSyntax in
def ascenc (kv : List (String × String)) : String :=
  let s := ascOf kv
  let bytes := encAsc s
  s!"bytes={bytesToHex bytes} spec={streamChannels s},{streamRate s} " ++ ascdec bytes

def handle : List String → String
  | "bits" :: hex :: ops =>
    match hexToBytes hex with
    | some bs => joinWith "," (runOps IpcHub.Gen.readSeFromUe ops (bitsOfBytes bs) [])
    | none => "bad-op"
  | ["epb", hex] =>
    match hexToBytes hex with
    | some bs => s!"model={bytesToHex (IpcHub.Epb.removeEmulationBytes bs)} ins={bytesToHex (IpcHub.BitSyntax.insertEpb bs)}"
    | none => "bad-op"
  | ["h264dec", hex] =>
    match hexToBytes hex with
    | some bs => h264dec bs
    | none => "bad-op"
  | "h264enc" :: kv => h264enc (kvOf kv)
  | ["ascdec", hex] =>
    match hexToBytes hex with
    | some bs => ascdec bs
    | none => "bad-op"
  | "ascenc" :: kv => ascenc (kvOf kv)
  | _ => "bad-op"

end IpcHub.Drv.C15
