import IpcHub.Drv.Util
import IpcHub.Model.CodecInst
import IpcHub.Spec.H264Syntax
import IpcHub.Spec.AscSyntax
import IpcHub.Spec.HevcSyntax
/-!
Driver of C15 (codec parameter parsing).  Ops (the leading `c15` is already stripped):

* `bits <hex> <op>…`   run reader operations on a fresh reader over the bytes; ops:
  `b` ReadBit · `u<n>.<max>` readUint64(n,max) · `s<n>` Skip · `p<n>` Peek · `e` ReadUe ·
  `g` ReadSe · `l` BitsLeft  →  `v1,v2,…` with `panic` as the last item when an op panicked
* `epb <hex>`          → `model=<hex of RemoveH264or5EmulationBytes> ins=<hex of the standard's insertion>`
* `h264dec <hex>`      → `ok dims=<w,h,fixed,fpsN/fpsD> dump=<fields>` | `err=<kind>`
* `h264enc k=v …`      → `bytes=<hex> spec=<w,h,fixed,fps>` then the same as h264dec for those bytes
* `ascdec <hex>`       → `ok meta=<channels,rate> dump=<fields>` | `err=<kind>`
* `ascenc k=v …`       → `bytes=<hex> spec=<channels,rate>` then the same as ascdec for those bytes
* `hevcspsdec <hex>` / `hevcvpsdec <hex>` → `ok [dims=…] dump=<fields>` | `err=<kind>`
* `hevcspsenc k=v …`   → `bytes=<hex> spec=<w,h,fixed,fps>` then the same as hevcspsdec for those bytes
* `hevcvpsenc k=v …`   → `bytes=<hex> spec=<header fields>` then the same as hevcvpsdec
-/
namespace IpcHub.Drv.C15
open IpcHub.Drv IpcHub.Bits

def joinWith (sep : String) (l : List String) : String := sep.intercalate l

def faultStr : Fault → String
  | .panic => "panic"
  | .err k => s!"e{k}"

/-! ### bits -/

def splitDot (s : String) : List String := s.splitOn "."

def runOp (se : Bool) (op : String) (s : List Bool) : Except Fault (String × List Bool) :=
  let c := op.front
  let rest := (op.drop 1).toString
  let n := rest.toNat?.getD 0
  if c = 'b' then (readBit s).map (fun (v, s') => (toString v, s'))
  else if c = 'u' then
    match splitDot rest with
    | [a, b] => (readU (a.toNat?.getD 0) (b.toNat?.getD 0) s).map (fun (v, s') => (toString v, s'))
    | _ => .ok ("bad", s)
  else if c = 's' then (skip n s).map (fun (_, s') => ("_", s'))
  else if c = 'p' then (peek n s).map (fun (v, s') => (toString v, s'))
  else if c = 'e' then (readUe s).map (fun (v, s') => (toString v, s'))
  else if c = 'g' then (readSeC se s).map (fun (v, s') => (toString v, s'))
  else if c = 'l' then (bitsLeft s).map (fun (v, s') => (toString v, s'))
  else .ok ("bad", s)

def runOps (se : Bool) : List String → List Bool → List String → List String
  | [], _, acc => acc.reverse
  | op :: ops, s, acc =>
    match runOp se op s with
    | .ok (v, s') => runOps se ops s' (v :: acc)
    | .error _ => ("panic" :: acc).reverse

/-! ### dumps (must agree character by character with the Go harness) -/

def nats (l : List Nat) : String := joinWith "," (l.map toString)
def ints (l : List Int) : String := joinWith "," (l.map toString)

def trimZeros (l : List Int) : List Int := (l.reverse.dropWhile (· == 0)).reverse

def dotInts (l : List Int) : String := "[" ++ joinWith "." (l.map toString) ++ "]"

open IpcHub.H264 in
def dumpHrd (h : Hrd) : String :=
  nats [h.cpbCntMinus1, h.bitRateScale, h.cpbSizeScale] ++ ",[" ++
  joinWith "." (h.entries.map (fun (a, b, c) => s!"{a}/{b}/{c}")) ++ "]," ++
  nats [h.initialCpbRemovalDelayLengthMinus1, h.cpbRemovalDelayLengthMinus1, h.dpbOutputDelayLengthMinus1, h.timeOffsetLength]

open IpcHub.H264 in
def dumpSps (s : RawSps) : String :=
  let h := s.hdr; let c := s.chroma; let p := s.poc; let f := s.frame; let v := s.vui
  "H=" ++ nats [h.forbiddenZeroBit, h.nalRefIdc, h.nalUnitType, h.profileIdc, h.constraintSet0Flag, h.constraintSet1Flag,
    h.constraintSet2Flag, h.constraintSet3Flag, h.constraintSet4Flag, h.constraintSet5Flag, h.reservedZero2Bits, h.levelIdc, h.seqParameterSetID] ++
  ";C=" ++ nats [c.chromaFormatIdc, c.separateColourPlaneFlag, c.bitDepthLumaMinus8, c.bitDepthChromaMinus8,
    c.qpprimeYZeroTransformBypassFlag, c.seqScalingMatrixPresentFlag] ++ ",[" ++ joinWith "." (c.seqScalingListPresentFlag.map toString) ++ "]," ++
    joinWith "" (c.scalingLists.map (fun l => dotInts (trimZeros l))) ++
  ";P=" ++ nats [p.log2MaxFrameNumMinus4, p.picOrderCntType, p.log2MaxPicOrderCntLsbMinus4, p.deltaPicOrderAlwaysZeroFlag] ++ "," ++
    ints [p.offsetForNonRefPic, p.offsetForTopToBottomField] ++ "," ++ toString p.numRefFramesInPicOrderCntCycle ++ "," ++ dotInts p.offsetForRefFrame ++
  ";F=" ++ nats [f.maxNumRefFrames, f.gapsInFrameNumAllowedFlag, f.picWidthInMbsMinus1, f.picHeightInMapUnitsMinus1, f.frameMbsOnlyFlag,
    f.mbAdaptiveFrameFieldFlag, f.direct8x8InferenceFlag, f.frameCroppingFlag, f.frameCropLeftOffset, f.frameCropRightOffset,
    f.frameCropTopOffset, f.frameCropBottomOffset] ++
  ";V=" ++ nats [s.vuiParametersPresentFlag, v.aspectRatioInfoPresentFlag, v.aspectRatioIdc, v.sarWidth, v.sarHeight, v.overscanInfoPresentFlag,
    v.overscanAppropriateFlag, v.videoSignalTypePresentFlag, v.videoFormat, v.videoFullRangeFlag, v.colourDescriptionPresentFlag,
    v.colourPrimaries, v.transferCharacteristics, v.matrixCoefficients, v.chromaLocInfoPresentFlag, v.chromaSampleLocTypeTopField,
    v.chromaSampleLocTypeBottomField, v.timingInfoPresentFlag, v.numUnitsInTick, v.timeScale, v.fixedFrameRateFlag,
    v.nalHrdParametersPresentFlag, v.vclHrdParametersPresentFlag, v.lowDelayHrdFlag, v.picStructPresentFlag, v.bitstreamRestrictionFlag,
    v.motionVectorsOverPicBoundariesFlag, v.maxBytesPerPicDenom, v.maxBitsPerMbDenom, v.log2MaxMvLengthHorizontal,
    v.log2MaxMvLengthVertical, v.maxNumReorderFrames, v.maxDecFrameBuffering] ++
  ";N=" ++ dumpHrd v.nalHrd ++ ";L=" ++ dumpHrd v.vclHrd

def fpsStr : Option (Nat × Nat) → String
  | none => "0"
  | some (n, d) => s!"{n}/{d}"

open IpcHub.H264 in
def dimsStr (d : VideoDims) : String := s!"{d.width},{d.height},{boolStr d.fixed},{fpsStr d.fps}"

open IpcHub.H264 in
def h264dec (bytes : List UInt8) : String :=
  match decode genCfg bytes with
  | .ok s => s!"ok dims={dimsStr (dimsOf genCfg s)} dump={dumpSps s}"
  | .error e => s!"err={faultStr e}"

/-! ### key=value input for the encoders -/

def kvOf (ts : List String) : List (String × String) :=
  ts.filterMap (fun t => match t.splitOn "=" with
    | [k, v] => some (k, v)
    | _ => none)

def getS (kv : List (String × String)) (k : String) : String := (kv.lookup k).getD ""
def getN (kv : List (String × String)) (k : String) : Nat := (getS kv k).toNat?.getD 0
def getI (kv : List (String × String)) (k : String) : Int := (getS kv k).toInt?.getD 0
def getB (kv : List (String × String)) (k : String) : Bool := getS kv k == "1"
/-- `a.b.c` (or `e`/empty for the empty list) -/
def parseInts (s : String) : List Int :=
  if s == "" || s == "e" then [] else (s.splitOn ".").map (fun x => x.toInt?.getD 0)
def getL (kv : List (String × String)) (k : String) : List Int := parseInts (getS kv k)
/-- scaling lists: `-|1.2|e|…` (`-` = flag 0) -/
def getSL (kv : List (String × String)) (k : String) : List (Option (List Int)) :=
  let s := getS kv k
  if s == "" then [] else (s.splitOn "|").map (fun x => if x == "-" then none else some (parseInts x))
/-- cpb entries `br/cs/cbr.br/cs/cbr` -/
def getCpb (kv : List (String × String)) (k : String) : List (Nat × Nat × Bool) :=
  let s := getS kv k
  if s == "" then [] else (s.splitOn ".").map (fun x => match x.splitOn "/" with
    | [a, b, c] => (a.toNat?.getD 0, b.toNat?.getD 0, c == "1")
    | _ => (0, 0, false))

open IpcHub.H264Syntax in
def hrdOf (kv : List (String × String)) (p : String) : HrdSyntax :=
  { bit_rate_scale := getN kv (p ++ "brs"), cpb_size_scale := getN kv (p ++ "css"), cpb := getCpb kv (p ++ "cpb"),
    initial_cpb_removal_delay_length_minus1 := getN kv (p ++ "l1"), cpb_removal_delay_length_minus1 := getN kv (p ++ "l2"),
    dpb_output_delay_length_minus1 := getN kv (p ++ "l3"), time_offset_length := getN kv (p ++ "l4") }

open IpcHub.H264Syntax in
def spsOf (kv : List (String × String)) : SpsSyntax :=
  { nal_ref_idc := getN kv "ref", profile_idc := getN kv "profile",
    constraint_set0_flag := getB kv "c0", constraint_set1_flag := getB kv "c1", constraint_set2_flag := getB kv "c2",
    constraint_set3_flag := getB kv "c3", constraint_set4_flag := getB kv "c4", constraint_set5_flag := getB kv "c5",
    level_idc := getN kv "level", seq_parameter_set_id := getN kv "id", chroma_format_idc := getN kv "cf",
    separate_colour_plane_flag := getB kv "sep", bit_depth_luma_minus8 := getN kv "bdl", bit_depth_chroma_minus8 := getN kv "bdc",
    qpprime_y_zero_transform_bypass_flag := getB kv "qp", seq_scaling_matrix_present_flag := getB kv "sm",
    scaling_lists := getSL kv "sl", log2_max_frame_num_minus4 := getN kv "fn", pic_order_cnt_type := getN kv "pt",
    log2_max_pic_order_cnt_lsb_minus4 := getN kv "lsb", delta_pic_order_always_zero_flag := getB kv "dz",
    offset_for_non_ref_pic := getI kv "o1", offset_for_top_to_bottom_field := getI kv "o2", offset_for_ref_frame := getL kv "offs",
    max_num_ref_frames := getN kv "refs", gaps_in_frame_num_value_allowed_flag := getB kv "gaps",
    pic_width_in_mbs_minus1 := getN kv "w", pic_height_in_map_units_minus1 := getN kv "h", frame_mbs_only_flag := getB kv "fmo",
    mb_adaptive_frame_field_flag := getB kv "mbaff", direct_8x8_inference_flag := getB kv "d8", frame_cropping_flag := getB kv "crop",
    frame_crop_left_offset := getN kv "cl", frame_crop_right_offset := getN kv "cr", frame_crop_top_offset := getN kv "ct",
    frame_crop_bottom_offset := getN kv "cb", vui_parameters_present_flag := getB kv "vui",
    vui := { aspect_ratio_info_present_flag := getB kv "ar", aspect_ratio_idc := getN kv "aridc", sar_width := getN kv "sarw",
             sar_height := getN kv "sarh", overscan_info_present_flag := getB kv "os", overscan_appropriate_flag := getB kv "osa",
             video_signal_type_present_flag := getB kv "vs", video_format := getN kv "vfmt", video_full_range_flag := getB kv "vfr",
             colour_description_present_flag := getB kv "cd", colour_primaries := getN kv "cprim", transfer_characteristics := getN kv "ctrans",
             matrix_coefficients := getN kv "cmat", chroma_loc_info_present_flag := getB kv "loc",
             chroma_sample_loc_type_top_field := getN kv "loct", chroma_sample_loc_type_bottom_field := getN kv "locb",
             timing_info_present_flag := getB kv "ti", num_units_in_tick := getN kv "nut", time_scale := getN kv "ts",
             fixed_frame_rate_flag := getB kv "ffr", nal_hrd_parameters_present_flag := getB kv "nal", nal_hrd := hrdOf kv "n.",
             vcl_hrd_parameters_present_flag := getB kv "vcl", vcl_hrd := hrdOf kv "v.", low_delay_hrd_flag := getB kv "low",
             pic_struct_present_flag := getB kv "ps", bitstream_restriction_flag := getB kv "br",
             motion_vectors_over_pic_boundaries_flag := getB kv "mv", max_bytes_per_pic_denom := getN kv "r1",
             max_bits_per_mb_denom := getN kv "r2", log2_max_mv_length_horizontal := getN kv "r3",
             log2_max_mv_length_vertical := getN kv "r4", max_num_reorder_frames := getN kv "r5", max_dec_frame_buffering := getN kv "r6" } }

open IpcHub.H264Syntax in
def h264enc (kv : List (String × String)) : String :=
  let s := spsOf kv
  let bytes := encSpsNal s
  s!"bytes={bytesToHex bytes} spec={croppedWidth s},{croppedHeight s},{boolStr (fixedFrameRate s)},{fpsStr (frameRate s)} " ++ h264dec bytes

/-! ### AudioSpecificConfig -/

open IpcHub.Asc in
def ascdec (bytes : List UInt8) : String :=
  match decode genCfg bytes with
  | .ok a =>
    let md := match metadataIsReady genCfg bytes with
      | some (c, r) => s!"{c},{r}"
      | none => "none"
    s!"ok meta={md} dump={a.objectType},{a.samplingIndex},{a.sampleRate},{a.channelConfig},{a.sbr},{a.extObjectType},{a.extSamplingIndex},{a.extSampleRate},{a.extChannelConfig},{a.channels},{a.ps}"
  | .error e => s!"err={faultStr e}"

open IpcHub.AscSyntax in
def ascOf (kv : List (String × String)) : AscSyntax :=
  { aot := getN kv "aot", samplingFrequencyIndex := getN kv "sfi", samplingFrequency := getN kv "sf",
    channelConfiguration := getN kv "cc", frameLengthFlag := getB kv "fl",
    signalling :=
      if getS kv "sig" == "hier" then .hierarchical (getB kv "ps") (getN kv "ei") (getN kv "ef")
      else if getS kv "sig" == "back" then
        .backward (getB kv "sbr") (getN kv "ei") (getN kv "ef") (if getS kv "ps" == "" then none else some (getB kv "ps"))
      else .plain }

open IpcHub.AscSyntax in
def ascenc (kv : List (String × String)) : String :=
  let s := ascOf kv
  let bytes := encAsc s
  s!"bytes={bytesToHex bytes} spec={streamChannels s},{streamRate s} " ++ ascdec bytes

/-! ### HEVC -/

namespace HevcDump
open IpcHub.Hevc

def profile (p : Profile) : String :=
  nats [p.profileSpace, p.tierFlag, p.profileIdc, p.compat, p.progressive, p.interlaced, p.nonPacked, p.frameOnly,
        p.max12, p.max10, p.max8, p.max422, p.max420, p.maxMono, p.intra, p.onePic, p.lowerBitRate, p.max14, p.inbld]

def ptl (p : Ptl) : String :=
  profile p.general ++ "," ++ nats [p.constraintFlags, p.levelIdc] ++ ",[" ++
  joinWith "|" (p.subLayers.map (fun s => nats [s.profilePresent, s.levelPresent] ++ "," ++ profile s.profile ++ "," ++ toString s.levelIdc)) ++ "]"

def cpb (l : List CpbEntry) : String :=
  "[" ++ joinWith "." (l.map (fun (a, b, c, d, e) => s!"{a}/{b}/{c}/{d}/{e}")) ++ "]"

def hrd (h : Hrd) : String :=
  nats [h.nalHrdParametersPresentFlag, h.vclHrdParametersPresentFlag, h.subPicHrdParamsPresentFlag, h.tickDivisorMinus2,
        h.duCpbRemovalDelayIncrementLengthMinus1, h.subPicCpbParamsInPicTimingSeiFlag, h.dpbOutputDelayDuLengthMinus1,
        h.bitRateScale, h.cpbSizeScale, h.cpbSizeDuScale, h.initialCpbRemovalDelayLengthMinus1,
        h.auCpbRemovalDelayLengthMinus1, h.dpbOutputDelayLengthMinus1] ++ ",{" ++
  joinWith "|" (h.subLayers.map (fun s => nats [s.fixedPicRateGeneralFlag, s.fixedPicRateWithinCvsFlag,
    s.elementalDurationInTcMinus1, s.lowDelayHrdFlag, s.cpbCntMinus1] ++ "," ++ cpb s.nal ++ "," ++ cpb s.vcl)) ++ "}"

def ordering (l : List IpcHub.Hevc.Ordering) : String :=
  "[" ++ joinWith "." (l.map (fun (a, b, c) => s!"{a}/{b}/{c}")) ++ "]"

def pairs (l : List (Nat × Nat)) : String :=
  "[" ++ joinWith "." (l.map (fun (a, b) => s!"{a}/{b}")) ++ "]"

def rps (r : StRps) : String :=
  nats [r.interRefPicSetPredictionFlag, r.deltaIdxMinus1, r.deltaRpsSign, r.absDeltaRpsMinus1] ++ ",[" ++
  joinWith "." (r.usedByCurrPicFlag.map toString) ++ "],[" ++ joinWith "." (r.useDeltaFlag.map toString) ++ "]," ++
  nats [r.numNegativePics, r.numPositivePics] ++ "," ++ pairs r.s0 ++ "," ++ pairs r.s1

def scaling (l : List (List ScalingEntry)) : String :=
  joinWith "|" (l.map (fun m => joinWith ";" (m.map (fun e =>
    s!"{e.predModeFlag},{e.predMatrixIdDelta},{e.dcCoefMinus8}," ++ dotInts (trimZeros e.deltaCoeff)))))

def vui (v : Vui) : String :=
  nats [v.aspectRatioInfoPresentFlag, v.aspectRatioIdc, v.sarWidth, v.sarHeight, v.overscanInfoPresentFlag,
        v.overscanAppropriateFlag, v.videoSignalTypePresentFlag, v.videoFormat, v.videoFullRangeFlag,
        v.colourDescriptionPresentFlag, v.colourPrimaries, v.transferCharacteristics, v.matrixCoefficients,
        v.chromaLocInfoPresentFlag, v.chromaSampleLocTypeTopField, v.chromaSampleLocTypeBottomField,
        v.neutralChromaIndicationFlag, v.fieldSeqFlag, v.frameFieldInfoPresentFlag, v.defaultDisplayWindowFlag,
        v.defDispWinLeftOffset, v.defDispWinRightOffset, v.defDispWinTopOffset, v.defDispWinBottomOffset,
        v.vuiTimingInfoPresentFlag, v.vuiNumUnitsInTick, v.vuiTimeScale, v.vuiPocProportionalToTimingFlag,
        v.vuiNumTicksPocDiffOneMinus1, v.vuiHrdParametersPresentFlag, v.bitstreamRestrictionFlag,
        v.tilesFixedStructureFlag, v.motionVectorsOverPicBoundariesFlag, v.restrictedRefPicListsFlag,
        v.minSpatialSegmentationIdc, v.maxBytesPerPicDenom, v.maxBitsPerMinCuDenom, v.log2MaxMvLengthHorizontal,
        v.log2MaxMvLengthVertical] ++ ";R=" ++ hrd v.hrd

def sps (s : RawSps) : String :=
  let h := s.head; let b := s.body
  "H=" ++ nats [h.nal.nalUnitType, h.nal.nuhLayerId, h.nal.nuhTemporalIdPlus1, h.spsVideoParameterSetId,
    h.spsMaxSubLayersMinus1, h.spsTemporalIdNestingFlag, h.spsSeqParameterSetId, h.chromaFormatIdc,
    h.separateColourPlaneFlag, h.picWidthInLumaSamples, h.picHeightInLumaSamples, h.conformanceWindowFlag,
    h.confWinLeftOffset, h.confWinRightOffset, h.confWinTopOffset, h.confWinBottomOffset] ++
  ";T=" ++ ptl h.ptl ++
  ";B=" ++ nats [b.bitDepthLumaMinus8, b.bitDepthChromaMinus8, b.log2MaxPicOrderCntLsbMinus4,
    b.spsSubLayerOrderingInfoPresentFlag] ++ "," ++ ordering b.ordering ++ "," ++
    nats [b.log2MinLumaCodingBlockSizeMinus3, b.log2DiffMaxMinLumaCodingBlockSize, b.log2MinLumaTransformBlockSizeMinus2,
      b.log2DiffMaxMinLumaTransformBlockSize, b.maxTransformHierarchyDepthInter, b.maxTransformHierarchyDepthIntra,
      b.scalingListEnabledFlag, b.spsScalingListDataPresentFlag, b.ampEnabledFlag, b.sampleAdaptiveOffsetEnabledFlag,
      b.pcmEnabledFlag, b.pcmSampleBitDepthLumaMinus1, b.pcmSampleBitDepthChromaMinus1,
      b.log2MinPcmLumaCodingBlockSizeMinus3, b.log2DiffMaxMinPcmLumaCodingBlockSize, b.pcmLoopFilterDisabledFlag,
      b.numShortTermRefPicSets, b.longTermRefPicsPresentFlag, b.numLongTermRefPicsSps, b.spsTemporalMvpEnabledFlag,
      b.strongIntraSmoothingEnabledFlag, b.vuiParametersPresentFlag, b.spsExtensionPresentFlag, b.spsRangeExtensionFlag,
      b.spsMultilayerExtensionFlag, b.sps3dExtensionFlag, b.spsSccExtensionFlag, b.spsExtension4bits] ++
  ";S=" ++ scaling b.scalingList ++
  ";P=" ++ joinWith "|" (b.stRefPicSets.map rps) ++
  ";L=" ++ pairs b.longTerm ++
  ";V=" ++ vui b.vui

def vps (v : RawVps) : String :=
  "H=" ++ nats [v.nal.nalUnitType, v.nal.nuhLayerId, v.nal.nuhTemporalIdPlus1, v.vpsVideoParameterSetId,
    v.vpsBaseLayerInternalFlag, v.vpsBaseLayerAvailableFlag, v.vpsMaxLayersMinus1, v.vpsMaxSubLayersMinus1,
    v.vpsTemporalIdNestingFlag, v.vpsSubLayerOrderingInfoPresentFlag, v.vpsMaxLayerId, v.vpsNumLayerSetsMinus1,
    v.vpsTimingInfoPresentFlag, v.vpsNumUnitsInTick, v.vpsTimeScale, v.vpsPocProportionalToTimingFlag,
    v.vpsNumTicksPocDiffOneMinus1, v.vpsNumHrdParameters, v.vpsExtensionFlag] ++
  ";T=" ++ ptl v.ptl ++ ";O=" ++ ordering v.ordering ++
  ";I=" ++ joinWith "|" (v.layerIdIncluded.map (fun r => joinWith "" (r.map toString))) ++
  ";R=" ++ joinWith "#" (v.hrds.map (fun (i, c, h) => s!"{i},{c}," ++ hrd h))

end HevcDump

open IpcHub.Hevc in
def hevcDimsStr (d : IpcHub.Hevc.VideoDims) : String := s!"{d.width},{d.height},{boolStr d.fixed},{fpsStr d.fps}"

open IpcHub.Hevc in
def hevcspsdec (bytes : List UInt8) : String :=
  match decodeSps genCfg bytes with
  | .ok s => s!"ok dims={hevcDimsStr (dimsOf s)} dump={HevcDump.sps s}"
  | .error e => s!"err={faultStr e}"

open IpcHub.Hevc in
def hevcvpsdec (bytes : List UInt8) : String :=
  match decodeVps genCfg bytes with
  | .ok v => s!"ok dump={HevcDump.vps v}"
  | .error e => s!"err={faultStr e}"

/-! ### HEVC syntax trees from key=value input -/

namespace HevcIn
open IpcHub.HevcSyntax

def natAt (l : List String) (i : Nat) : Nat := ((l[i]?).getD "").toNat?.getD 0
def boolAt (l : List String) (i : Nat) : Bool := (l[i]?).getD "" == "1"
def splitNE (sep : String) (s : String) : List String := if s == "" then [] else s.splitOn sep

/-- `space,tier,idc,compat,prog,inter,np,fo,c43,inbld` starting at `o` -/
def profileAt (l : List String) (o : Nat) : ProfileSyn :=
  { profile_space := natAt l o, tier_flag := boolAt l (o + 1), profile_idc := natAt l (o + 2), compat := natAt l (o + 3),
    progressive_source_flag := boolAt l (o + 4), interlaced_source_flag := boolAt l (o + 5),
    non_packed_constraint_flag := boolAt l (o + 6), frame_only_constraint_flag := boolAt l (o + 7),
    constraint43 := natAt l (o + 8), inbld := boolAt l (o + 9) }

def ptlOf (kv : List (String × String)) : PtlSyn :=
  { general := profileAt ((getS kv "gp").splitOn ",") 0, general_level_idc := getN kv "glevel",
    sub_layers := (splitNE "|" (getS kv "subs")).map (fun t =>
      let l := t.splitOn ","
      { profile_present_flag := boolAt l 0, level_present_flag := boolAt l 1, profile := profileAt l 2, level_idc := natAt l 12 }) }

def triples (s : String) : List (Nat × Nat × Nat) :=
  (splitNE "." s).map (fun t => let l := t.splitOn "/"; (natAt l 0, natAt l 1, natAt l 2))

def pairsNB (s : String) : List (Nat × Bool) :=
  (splitNE "." s).map (fun t => let l := t.splitOn "/"; (natAt l 0, boolAt l 1))

def pairsBB (s : String) : List (Bool × Bool) :=
  (splitNE "." s).map (fun t => let l := t.splitOn "/"; (boolAt l 0, boolAt l 1))

def cpbs (s : String) : List CpbSyn :=
  (splitNE "." s).map (fun t => let l := t.splitOn "/";
    { bit_rate_value_minus1 := natAt l 0, cpb_size_value_minus1 := natAt l 1, cpb_size_du_value_minus1 := natAt l 2,
      bit_rate_du_value_minus1 := natAt l 3, cbr_flag := boolAt l 4 })

/-- hrd under prefix `p`: p.c = `nal,vcl,sp,td,du,sei,dd,brs,css,cds,i1,i2,i3`, p.s = `g,w,el,low,cnt,<nal>,<vcl>|…` -/
def hrdOf (kv : List (String × String)) (p : String) : HrdSyn :=
  let c := (getS kv (p ++ "c")).splitOn ","
  { nal_hrd_parameters_present_flag := boolAt c 0, vcl_hrd_parameters_present_flag := boolAt c 1,
    sub_pic_hrd_params_present_flag := boolAt c 2, tick_divisor_minus2 := natAt c 3,
    du_cpb_removal_delay_increment_length_minus1 := natAt c 4, sub_pic_cpb_params_in_pic_timing_sei_flag := boolAt c 5,
    dpb_output_delay_du_length_minus1 := natAt c 6, bit_rate_scale := natAt c 7, cpb_size_scale := natAt c 8,
    cpb_size_du_scale := natAt c 9, initial_cpb_removal_delay_length_minus1 := natAt c 10,
    au_cpb_removal_delay_length_minus1 := natAt c 11, dpb_output_delay_length_minus1 := natAt c 12,
    sub_layers := (splitNE "|" (getS kv (p ++ "s"))).map (fun t =>
      let l := t.splitOn ","
      { fixed_pic_rate_general_flag := boolAt l 0, fixed_pic_rate_within_cvs_flag := boolAt l 1,
        elemental_duration_in_tc_minus1 := natAt l 2, low_delay_hrd_flag := boolAt l 3, cpb_cnt_minus1 := natAt l 4,
        nal := cpbs ((l[5]?).getD ""), vcl := cpbs ((l[6]?).getD "") }) }

/-- `0,delta` | `1,dc,c.c.c` separated by `;` -/
def scalingOf (s : String) : List ScalingSyn :=
  (splitNE ";" s).map (fun t =>
    let l := t.splitOn ","
    if boolAt l 0 then .coded (((l[1]?).getD "").toInt?.getD 0) (parseInts ((l[2]?).getD "")) else .pred (natAt l 1))

/-- `e:<s0>:<s1>` | `i:<sign>:<abs>:<flags>` separated by `|` -/
def rpsOf (s : String) : List StRpsSyn :=
  (splitNE "|" s).map (fun t =>
    let l := t.splitOn ":"
    if (l[0]?).getD "" == "i" then .inter (boolAt l 1) (natAt l 2) (pairsBB ((l[3]?).getD ""))
    else .explicit (pairsNB ((l[1]?).getD "")) (pairsNB ((l[2]?).getD "")))

def vuiOf (kv : List (String × String)) : VuiSyn :=
  { aspect_ratio_info_present_flag := getB kv "ar", aspect_ratio_idc := getN kv "aridc", sar_width := getN kv "sarw",
    sar_height := getN kv "sarh", overscan_info_present_flag := getB kv "os", overscan_appropriate_flag := getB kv "osa",
    video_signal_type_present_flag := getB kv "vs", video_format := getN kv "vfmt", video_full_range_flag := getB kv "vfr",
    colour_description_present_flag := getB kv "cd", colour_primaries := getN kv "cprim",
    transfer_characteristics := getN kv "ctrans", matrix_coeffs := getN kv "cmat", chroma_loc_info_present_flag := getB kv "loc",
    chroma_sample_loc_type_top_field := getN kv "loct", chroma_sample_loc_type_bottom_field := getN kv "locb",
    neutral_chroma_indication_flag := getB kv "neutral", field_seq_flag := getB kv "fseq",
    frame_field_info_present_flag := getB kv "ffi", default_display_window_flag := getB kv "ddw",
    def_disp_win_left_offset := getN kv "ddl", def_disp_win_right_offset := getN kv "ddr",
    def_disp_win_top_offset := getN kv "ddt", def_disp_win_bottom_offset := getN kv "ddb",
    vui_timing_info_present_flag := getB kv "ti", vui_num_units_in_tick := getN kv "nut", vui_time_scale := getN kv "ts",
    vui_poc_proportional_to_timing_flag := getB kv "pp", vui_num_ticks_poc_diff_one_minus1 := getN kv "nticks",
    vui_hrd_parameters_present_flag := getB kv "hrd", hrd := hrdOf kv "h.",
    bitstream_restriction_flag := getB kv "br", tiles_fixed_structure_flag := getB kv "tfs",
    motion_vectors_over_pic_boundaries_flag := getB kv "mv", restricted_ref_pic_lists_flag := getB kv "rrl",
    min_spatial_segmentation_idc := getN kv "mss", max_bytes_per_pic_denom := getN kv "r1",
    max_bits_per_min_cu_denom := getN kv "r2", log2_max_mv_length_horizontal := getN kv "r3",
    log2_max_mv_length_vertical := getN kv "r4" }

def spsOf (kv : List (String × String)) : SpsSyn :=
  { nuh_layer_id := getN kv "layer", nuh_temporal_id_plus1 := getN kv "tid", sps_video_parameter_set_id := getN kv "vid",
    sps_temporal_id_nesting_flag := getB kv "nest", ptl := ptlOf kv, sps_seq_parameter_set_id := getN kv "id",
    chroma_format_idc := getN kv "cf", separate_colour_plane_flag := getB kv "sep",
    pic_width_in_luma_samples := getN kv "w", pic_height_in_luma_samples := getN kv "h",
    conformance_window_flag := getB kv "cw", conf_win_left_offset := getN kv "cl", conf_win_right_offset := getN kv "cr",
    conf_win_top_offset := getN kv "ct", conf_win_bottom_offset := getN kv "cb", bit_depth_luma_minus8 := getN kv "bdl",
    bit_depth_chroma_minus8 := getN kv "bdc", log2_max_pic_order_cnt_lsb_minus4 := getN kv "lsb",
    sps_sub_layer_ordering_info_present_flag := getB kv "oflag", ordering := triples (getS kv "ord"),
    log2_min_luma_coding_block_size_minus3 := getN kv "mincb", log2_diff_max_min_luma_coding_block_size := getN kv "diffcb",
    log2_min_luma_transform_block_size_minus2 := getN kv "mintb", log2_diff_max_min_luma_transform_block_size := getN kv "difftb",
    max_transform_hierarchy_depth_inter := getN kv "thinter", max_transform_hierarchy_depth_intra := getN kv "thintra",
    scaling_list_enabled_flag := getB kv "sle", sps_scaling_list_data_present_flag := getB kv "sldp",
    scaling_list := scalingOf (getS kv "sl"), amp_enabled_flag := getB kv "amp",
    sample_adaptive_offset_enabled_flag := getB kv "sao", pcm_enabled_flag := getB kv "pcm",
    pcm_sample_bit_depth_luma_minus1 := getN kv "pcm1", pcm_sample_bit_depth_chroma_minus1 := getN kv "pcm2",
    log2_min_pcm_luma_coding_block_size_minus3 := getN kv "pcm3", log2_diff_max_min_pcm_luma_coding_block_size := getN kv "pcm4",
    pcm_loop_filter_disabled_flag := getB kv "pcm5", st_ref_pic_sets := rpsOf (getS kv "rps"),
    long_term_ref_pics_present_flag := getB kv "ltp", long_term := pairsNB (getS kv "lt"),
    sps_temporal_mvp_enabled_flag := getB kv "mvp", strong_intra_smoothing_enabled_flag := getB kv "sis",
    vui_parameters_present_flag := getB kv "vui", vui := vuiOf kv, sps_extension_present_flag := getB kv "ext",
    sps_range_extension_flag := getB kv "e1", sps_multilayer_extension_flag := getB kv "e2",
    sps_3d_extension_flag := getB kv "e3", sps_scc_extension_flag := getB kv "e4", sps_extension_4bits := getN kv "e5" }

/-- rows `0101|1100` -/
def rowsOf (s : String) : List (List Bool) := (splitNE "|" s).map (fun r => r.toList.map (· == '1'))

/-- VPS hrds: kv `nhrd=n`, `hrdidx=i.i.i`, `cprms=1.0.1`, hrd i under prefix `h<i>.` -/
def vpsHrds (kv : List (String × String)) : List (Nat × Bool × HrdSyn) :=
  let idx := (splitNE "." (getS kv "hrdidx")).map (fun x => x.toNat?.getD 0)
  let cp := (splitNE "." (getS kv "cprms")).map (· == "1")
  (List.range (getN kv "nhrd")).map (fun i => (idx.getD i 0, cp.getD i true, hrdOf kv s!"h{i}."))

def vpsOf (kv : List (String × String)) : VpsSyn :=
  { nuh_layer_id := getN kv "layer", nuh_temporal_id_plus1 := getN kv "tid", vps_video_parameter_set_id := getN kv "vid",
    vps_base_layer_internal_flag := getB kv "bli", vps_base_layer_available_flag := getB kv "bla",
    vps_max_layers_minus1 := getN kv "ml", vps_temporal_id_nesting_flag := getB kv "nest", ptl := ptlOf kv,
    vps_sub_layer_ordering_info_present_flag := getB kv "oflag", ordering := triples (getS kv "ord"),
    vps_max_layer_id := getN kv "mli", layer_sets := rowsOf (getS kv "rows"),
    vps_timing_info_present_flag := getB kv "ti", vps_num_units_in_tick := getN kv "nut", vps_time_scale := getN kv "ts",
    vps_poc_proportional_to_timing_flag := getB kv "pp", vps_num_ticks_poc_diff_one_minus1 := getN kv "nticks",
    hrds := vpsHrds kv, vps_extension_flag := getB kv "ext" }

end HevcIn

open IpcHub.HevcSyntax in
def hevcspsenc (kv : List (String × String)) : String :=
  let s := HevcIn.spsOf kv
  let bytes := encSpsNal s
  s!"bytes={bytesToHex bytes} spec={croppedWidth s},{croppedHeight s},{boolStr (fixedFrameRateStd s)},{fpsStr (frameRateStd s)} rate={rateClass s} " ++ hevcspsdec bytes

open IpcHub.HevcSyntax in
def hevcvpsenc (kv : List (String × String)) : String :=
  let v := HevcIn.vpsOf kv
  let bytes := encVpsNal v
  s!"bytes={bytesToHex bytes} spec=32,{v.nuh_layer_id},{v.nuh_temporal_id_plus1},{v.vps_video_parameter_set_id},{boolStr v.vps_base_layer_internal_flag},{boolStr v.vps_base_layer_available_flag},{v.vps_max_layers_minus1},{v.ptl.sub_layers.length},{boolStr v.vps_temporal_id_nesting_flag}, " ++ hevcvpsdec bytes

/-- `usable=<slice handed on>,<metaReady>,<own|inband|other>,<w>,<h>,<fixed>,<fps>` after the SDP's sets and one in-band repetition -/
def usableOut (needVps : Bool) (dec : List UInt8 → Option IpcHub.MetaReady.Dims) (sps0 : List UInt8) (kv : List (String × String)) : String :=
  let hexOr (x : String) : List UInt8 := (hexToBytes x).getD []
  let pre : List UInt8 := match getN kv "sc" with
    | 3 => [0, 0, 1]
    | 4 => [0, 0, 0, 1]
    | _ => []
  match (getS kv "sd").splitOn ".", (getS kv "ib").splitOn "." with
  | [v0, p0], [v, s, p] =>
    let r := IpcHub.MetaReady.afterSdpAndInBand needVps dec (pre ++ hexOr v0) (pre ++ sps0) (pre ++ hexOr p0) (hexOr v) (hexOr s) (hexOr p)
    let which := if r.1.vm.sps == IpcHub.Epb.removeNaluSeparator (pre ++ sps0) then "own" else if r.1.vm.sps == hexOr s then "inband" else "other"
    s!" usable={boolStr r.2},{boolStr r.1.metaReady},{which},{r.1.vm.width},{r.1.vm.height},{boolStr r.1.vm.fixed},{fpsStr r.1.vm.fps}"
  | _, _ => " usable=bad-op"

def handle : List String → String
  | "bits" :: hex :: ops =>
    match hexToBytes hex with
    | some bs => joinWith "," (runOps IpcHub.Gen.readSeFromUe ops (bitsOfBytes bs) [])
    | none => "bad-op"
  | ["epb", hex] =>
    match hexToBytes hex with
    | some bs => s!"model={bytesToHex (IpcHub.Epb.removeEmulationBytes bs)} ins={bytesToHex (IpcHub.BitSyntax.insertEpb bs)}"
    | none => "bad-op"
  | ["h264dec", hex] =>
    match hexToBytes hex with
    | some bs => h264dec bs
    | none => "bad-op"
  | "h264enc" :: kv => h264enc (kvOf kv)
  | ["ascdec", hex] =>
    match hexToBytes hex with
    | some bs => ascdec bs
    | none => "bad-op"
  | "ascenc" :: kv => ascenc (kvOf kv)
  | ["hevcspsdec", hex] =>
    match hexToBytes hex with
    | some bs => hevcspsdec bs
    | none => "bad-op"
  | "hevcspsenc" :: kv => hevcspsenc (kvOf kv)
  | "hevcvpsenc" :: kv => hevcvpsenc (kvOf kv)
  | ["hevcvpsdec", hex] =>
    match hexToBytes hex with
    | some bs => hevcvpsdec bs
    | none => "bad-op"
  -- a parameter set inside a generated SDP (the SDP text is built by the harness from the form seed): the model's
  -- decode of the set, as for the direct decoder ops; for video also the model of "SDP sets stored, then one in-band
  -- repetition of valid sets and a slice" (Model/MetaReady.lean): `sd=<vps0|->.<pps0>` the other sets of the SDP,
  -- `sc=<n>` the start-code prefix of the SDP's sets, `ib=<vps|->.<sps>.<pps>` the in-band sets
  | "sdp" :: kind :: hex :: kv =>
    match hexToBytes hex with
    | some bs =>
      if kind == "aac" then ascdec bs
      else if kind == "h264" then h264dec bs ++ usableOut false (IpcHub.MetaReady.dec264 IpcHub.H264.genCfg) bs (kvOf kv)
      else if kind == "h265" then hevcspsdec bs ++ usableOut true (IpcHub.MetaReady.dec265 IpcHub.Hevc.genCfg) bs (kvOf kv)
      else "bad-op"
    | none => "bad-op"
  | _ => "bad-op"

end IpcHub.Drv.C15
