/- the stdin/stdout loop shared by every per-property driver executable -/
namespace IpcHub.Drv

def tokens (line : String) : List String :=
  (line.trimAscii.toString.splitOn " ").filter (· ≠ "")

partial def loop (handle : List String → String) (hin hout : IO.FS.Stream) : IO Unit := do
  let line ← hin.getLine
  if line.isEmpty then return ()
  hout.putStrLn (handle (tokens line))
  loop handle hin hout

/-- one output line per input line; the first token (the property tag) is dropped -/
def mainLoop (handle : List String → String) : IO Unit := do
  let hin ← IO.getStdin
  let hout ← IO.getStdout
  loop (fun ts => handle ts.tail) hin hout
  hout.flush

end IpcHub.Drv
