/- driver side of the media scripts shared by C01–C04 -/
import IpcHub.Drv.Util
import IpcHub.Model.MediaInst
import IpcHub.Model.FlvCacheM
import IpcHub.Spec.MediaKinds
namespace IpcHub.Drv.MediaScript
open IpcHub.Media IpcHub.Drv

def natOf (s : String) : Nat := s.toNat?.getD 0

/-- one scripted op:  P:<ch>:<rtp timestamp>:<payloadhex> | J:<name>:<gop>:<panicAt> | S:<name> | X | T:<name> | R:<name> -/
def parseOp (uid : Nat) (tok : String) : Option Label :=
  match tok.splitOn ":" with
  | ["P", ch, ts, hex] => (hexToBytes hex).map (fun b => Label.pub { uid := uid, ch := natOf ch, payload := b, ts := natOf ts })
  | ["J", n, g, pa] => some (.join (natOf n) (g = "1") (natOf pa))
  | ["S", n] => some (.stop (natOf n))
  | ["X"] => some .close
  | ["T", n] => some (.stall (natOf n))
  | ["R", n] => some (.resume (natOf n))
  | ["C", n] => some (.cstep (natOf n))
  | _ => none

def uidHash (ps : List Pkt) : Nat := ps.foldl (fun h p => (h * 31 + p.uid) % 4294967296) 7

/-- short lists written out, long ones as length + rolling hash (same rule in medialib.Observe) -/
def uidList (ps : List Pkt) : String :=
  if ps.isEmpty then "-"
  else if ps.length ≤ 48 then ",".intercalate (ps.map (fun p => toString p.uid))
  else s!"n{ps.length}h{uidHash ps}"

/-- the canonical observation, same format as medialib.World.Observe -/
def observe (s : St) : String :=
  let regs := s.cons.filter (·.registered)
  let head := s!"st={s.status} n={regs.length} cnt={s.count} fcnt=0 cc={s.count}"
  let per := s.cons.map (fun c =>
    let q := if c.registered then c.queue.length else 0
    let dis := if c.registered then boolStr c.discarding else "0"
    s!" |c{c.name} reg={boolStr c.registered} q={q} dis={dis} cl={c.closeCalls} bad=0 d={uidList c.delivered}")
  head ++ String.join per

/-- run a script; after every op all consumer goroutines run until they block -/
def runScript (hevc gop : Bool) (maxq : Nat) (toks : List String) : String :=
  let rec go (s : St) (uid : Nat) (toks : List String) (acc : List String) : List String :=
    match toks with
    | [] => acc.reverse
    | t :: ts =>
      match parseOp uid t with
      | none => ("bad-op:" ++ t) :: acc |>.reverse
      | some l =>
        let uid' := match l with | .pub _ => uid + 1 | _ => uid
        let s1 := s.step l
        let fuel := (s1.cons.foldl (fun a c => a + 2 * c.queue.length + 4) 4)
        let s2 := s1.settle fuel
        let o := if s2.faulted then "fault" else observe s2
        go s2 uid' ts (o :: acc)
  let s0 := if maxq = 0 then genInit hevc gop else St.init genConsts maxq hevc gop
  " ## ".intercalate (go s0 1 toks [])

/-- the cache after a list of accepted packets (same function as Lemmas.packAll) -/
def cacheAfter (c0 : Cache) (ps : List Pkt) : Cache :=
  ps.foldl (fun c p => match c.pack genConsts p with | some (c', _) => c' | none => c) c0

def isPrefixOf (a b : List Nat) : Bool := a.length ≤ b.length && b.take a.length == a

/-- Trace oracle (the executable form of c01_stream_shape + c02_join_prefix + c02_contiguous for a
    consumer that was never dropping): the delivered uids are a prefix of
    replay(cut k) ++ published[k..] for SOME cut k of the published sequence. -/
def traceOk (hevc gop : Bool) (ps : List Pkt) (d : List Nat) (full : Bool := false) : Option Nat :=
  let c0 : Cache := { hevc := hevc, cacheGop := gop }
  -- `full`: the consumer stayed attached and drained, it never dropped: it has the WHOLE stream from
  -- its cut on (c01_complete_when_not_dropping), not merely a prefix of it
  let ok (got want : List Nat) : Bool := if full then got == want else isPrefixOf got want
  (List.range (ps.length + 1)).find? (fun k =>
    let rp := (cacheAfter c0 (ps.take k)).pushTo.map (·.uid)
    ok d (rp ++ (ps.drop k).map (·.uid)) ||
    ok d ((ps.drop k).map (·.uid)))     -- joined without the cache

/-- `trace <hevc> <gop> <ch:ts:hex,...> <uids;uids;...>` (a list prefixed by `!` must be complete) → per consumer `ok<k>` / `bad` -/
def runTrace (hevc gop : Bool) (pub : String) (cons : String) : String :=
  let pkts := (pub.splitOn ",").filter (· ≠ "")
  let ps : List Pkt := (List.range pkts.length).zip pkts |>.filterMap (fun (i, t) =>
    match t.splitOn ":" with
    | [ch, ts, hex] => (hexToBytes hex).map (fun b => ({ uid := i + 1, ch := natOf ch, payload := b, ts := natOf ts } : Pkt))
    | _ => none)
  if ps.length ≠ pkts.length then "bad-op" else
  let outs := (cons.splitOn ";").map (fun c =>
    let full := c.startsWith "!"
    let c := if full then (c.drop 1).toString else c
    let d := ((c.splitOn ".").filter (· ≠ "")).map natOf
    match traceOk hevc gop ps d full with
    | some k => s!"ok{k}"
    | none => "bad")
  " ".intercalate outs

/-- FLV scripts: `F:<tagType>:<ts>:<datahex>` writes a tag, `J:<name>` attaches an FLV consumer.
    Output: per consumer (in join order) `c<name>=uid@ts,uid@ts,...` -/
def runFlv (gop : Bool) (toks : List String) : String :=
  let rec go (tags : List IpcHub.FlvCacheM.FTag) (joins : List (Nat × Nat)) (toks : List String) : Option (List IpcHub.FlvCacheM.FTag × List (Nat × Nat)) :=
    match toks with
    | [] => some (tags, joins.reverse)
    | t :: ts =>
      match t.splitOn ":" with
      | ["F", ty, tstamp, hex] =>
        match hexToBytes hex with
        | some b => go (tags ++ [{ uid := tags.length + 1, tagType := natOf ty, ts := natOf tstamp, data := b }]) joins ts
        | none => none
      | ["J", n] => go tags ((natOf n, tags.length) :: joins) ts
      | _ => none
  match go [] [] toks with
  | none => "bad-op"
  | some (tags, joins) =>
    " ".intercalate (joins.map (fun (n, k) =>
      let ex := IpcHub.FlvCacheM.expected gop tags k
      let body := if ex.isEmpty then "-" else ",".intercalate (ex.map (fun t => s!"{t.uid}@{t.ts}"))
      s!"c{n}={body}"))

/-- `align <hevc> P:<ch>:<ts>:<hex>… C:<joinedAt>:<detachedAt>:<uid.uid…>…` — the specification's verdict on what
    each consumer was delivered (C04: after a drop the next packet starts a key frame):
    `ok` or `bad:<consumer index>:<uid of the offending packet>` -/
def runAlign (hevc : Bool) (toks : List String) : String :=
  let ptoks := toks.filter (·.startsWith "P:")
  let ctoks := toks.filter (·.startsWith "C:")
  let ps : List Pkt := (List.range ptoks.length).zip ptoks |>.filterMap (fun (i, t) =>
    match t.splitOn ":" with
    | ["P", ch, ts, hex] => (hexToBytes hex).map (fun b => ({ uid := i + 1, ch := natOf ch, payload := b, ts := natOf ts } : Pkt))
    | _ => none)
  if ps.length ≠ ptoks.length then "bad-op" else
  let verdicts := (List.range ctoks.length).zip ctoks |>.filterMap (fun (i, t) =>
    match t.splitOn ":" with
    | ["C", j, e, d] =>
      let dl := ((d.splitOn ".").filter (· ≠ "")).map natOf
      (dropAligned genConsts hevc ps (natOf j) (natOf e) dl).map (fun u => s!"bad:{i}:{u}")
    | _ => some "bad-op")
  match verdicts with
  | [] => "ok"
  | v :: _ => v

/-- `script <hevc> <gop> <maxq (0 = the source's limit)> <op> <op> ...` | `trace <hevc> <gop> <packets> <delivered lists>` -/
def handle : List String → String
  | "script" :: hevc :: gop :: maxq :: ops => runScript (hevc = "1") (gop = "1") (natOf maxq) ops
  | ["trace", hevc, gop, pub, cons] => runTrace (hevc = "1") (gop = "1") pub cons
  | "flv" :: gop :: ops => runFlv (gop = "1") ops
  | "align" :: hevc :: toks => runAlign (hevc = "1") toks
  | _ => "bad-op"

end IpcHub.Drv.MediaScript
