/-
C07 driver.  `run` / `judge`: the depacketizer protocol of Drv/DepackProto.lean (malformed
streams, containment judge).  Additional ops:
  pipe  <DepackProto keys> asc=0|1 hasts=0|1 pcfg=gen|pinned
        → frames, FLV tags and TS frames of the converter pipeline model, worker liveness
  classify codec=h264|h265 pcfg=gen|pinned p=<payload hex>     → cache classifier outcome
  recv  rcfg=gen|pinned chans=<c0>+<c1>+<c2>+<c3> ch=<n> d=<hex> → what `receive` does with the frame
-/
import IpcHub.Drv.DepackProto
import IpcHub.Model.PipelineInst
namespace IpcHub.Drv.C07
open IpcHub.Depack IpcHub.Drv IpcHub.Drv.DepackProto IpcHub.Pipeline

def tagStr (c : VCodec) : Tag → String
  | .script => "S"
  | .vseq sps pps => match c with
    | .h264 => s!"V.{digest sps}.{digest pps}"
    | .h265 => "V"            -- the HEVC configuration record is not decoded by the harness
  | .aseq => "A"
  | .video k b => s!"v.{boolStr k}.{digest b}"
  | .audio b => s!"a.{digest b}"

def tsStr : TsFrame → String
  | .video k h p => s!"v.{boolStr k}.{bytesToHex h}.{digest p}"
  | .audio p => s!"a.{digest p}"

def pipeAll (dc : Depack.Cfg) (cfg : Pipeline.Cfg) (spsOk : Bytes → Bool) (ascOk hasTs : Bool) :
    St → List WPkt → St × List Frame × List Tag × List TsFrame
  | s, [] => (s, [], [], [])
  | s, w :: ws =>
    let (s1, fs, tg, tf) := Pipeline.step dc cfg spsOk ascOk hasTs s (toIn w)
    let (s2, fs2, tg2, tf2) := pipeAll dc cfg spsOk ascOk hasTs s1 ws
    (s2, fs ++ fs2, tg ++ tg2, tf ++ tf2)

def dash (s : String) : String := if s = "" then "-" else s

def pipe (ts : List String) : String :=
  match parseSetup ts with
  | none => "bad-op"
  | some su =>
    let cfg := if kv ts "pcfg" = some "pinned" then Pipeline.pinnedCfg else Pipeline.genCfg
    let spsOk : Bytes → Bool := fun b => su.ok.contains b
    let ascOk := kv ts "asc" = some "1"
    let hasTs := kv ts "hasts" = some "1"
    let (s, fs, tg, tf) := pipeAll su.cfg cfg spsOk ascOk hasTs { demux := su.d0 } su.ordered
    let forced := { su.d0 with v := { su.d0.v with ready := true } }
    let (_, gs, _) := runAll su.cfg spsOk forced su.ordered
    let cands := ((gs.filter (isSpsFrame su.codec)).map (·.payload) ++ [su.d0.v.vmeta.sps]).eraseDups
    let unk := cands.filter (fun c => !c.isEmpty && !su.ok.contains c && !su.ko.contains c)
    let pk := ",".intercalate (su.built.pkts.map (fun w =>
      s!"{w.ch}.{w.pkt.seq.toNat}.{w.pkt.ts.toNat}.{boolStr w.pkt.marker}.{bytesToHex w.pkt.payload}"))
    let fr := ",".intercalate (fs.map (fun f =>
      let r := if f.audio then su.arate else su.rate
      s!"{boolStr f.audio}.{f.ts.toNat}.{f.base.toNat}.{intStr (f.pts su.cfg r)}.{digest f.payload}"))
    s!"pkts={dash pk} frames={dash fr} tags={dash (",".intercalate (tg.map (tagStr su.codec)))} tsf={dash (",".intercalate (tf.map tsStr))} dalive={boolStr s.demux.alive} falive={boolStr s.flv.alive} talive={boolStr s.ts.alive} ready={boolStr s.demux.v.ready} sps={digest s.demux.v.vmeta.sps} pps={digest s.demux.v.vmeta.pps} vps={digest s.demux.v.vmeta.vps} sts=- alive={boolStr s.demux.alive} nfrags={s.demux.v.frags.length} vbase={s.demux.v.base.toNat} abase={s.demux.abase.toNat} unk={"+".intercalate (unk.map bytesToHex)}"

def classifyOp (ts : List String) : String :=
  match hexToBytes ((kv ts "p").getD "-") with
  | none => "bad-op"
  | some p =>
    let cfg := if kv ts "pcfg" = some "pinned" then Pipeline.pinnedCfg else Pipeline.genCfg
    let c := if kv ts "codec" = some "h265" then VCodec.h265 else VCodec.h264
    match Pipeline.classify cfg c p with
    | .panic => "out=panic"
    | .fuel => "out=fuel"
    | .cls k =>
      let sl := match CacheClassify.slot k with
        | .vps => "vps" | .sps => "sps" | .pps => "pps" | .gopStart => "key" | .other => "other"
      s!"out={sl}"

def recvOp (ts : List String) : String :=
  match hexToBytes ((kv ts "d").getD "-"), (splitNE ((kv ts "chans").getD "0+1+2+3") '+').mapM parseInt with
  | some d, some chans =>
    let cfg := if kv ts "rcfg" = some "pinned" then Pipeline.pinnedRtpCfg else Pipeline.genRtpCfg
    match RtpPacket.receive cfg chans (kvNat ts "ch" 0) d with
    | .media i h data =>
      s!"out=media ch={i} seq={h.seq.toNat} ts={h.ts.toNat} m={boolStr h.marker} off={h.payloadOffset} payload={bytesToHex (RtpPacket.payload cfg h data)}"
    | .control i _ => s!"out=control ch={i}"
    | .skip => "out=skip"
    | .close => "out=close"
    | .panic => "out=panic"
  | _, _ => "bad-op"

def handle : List String → String
  | "pipe" :: ts => pipe ts
  | "classify" :: ts => classifyOp ts
  | "recv" :: ts => recvOp ts
  | ts => DepackProto.handle ts

end IpcHub.Drv.C07
