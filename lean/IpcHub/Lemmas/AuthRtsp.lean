/-
C11 helper lemmas, part D: RTSP sessions (plain and over WebSocket).  Every step of the session
model is judged `ok` by the reference monitor, and the invariants this needs are preserved.
-/
import IpcHub.Lemmas.AuthGates
import IpcHub.Lemmas.CanonPath
namespace IpcHub.Auth
open IpcHub.PathMatch IpcHub.PatternLang IpcHub.Monitor

/-- hypotheses on the character functions under which utils.CanonicalPath is idempotent -/
structure CharOK (cfg : Cfg) : Prop where
  hl : ∀ c, cfg.pm.lower (cfg.pm.lower c) = cfg.pm.lower c
  hs : cfg.pm.isSpace '/' = false
  hslash : cfg.pm.lower '/' = '/'

theorem canonicalPath_idem (cfg : Cfg) (h : CharOK cfg) (p : List Char) :
    canonicalPath cfg (canonicalPath cfg p) = canonicalPath cfg p :=
  IpcHub.CanonPath.canonicalPath_idem_min
    (cfg := { lower := cfg.pm.lower, isSpace := cfg.pm.isSpace }) ⟨h.hl, h.hs, h.hslash⟩ p

/-- the session path is in canonical form -/
def PathOK (cfg : Cfg) (s : RtspSess) : Prop := canonicalPath cfg s.path = s.path

/-- invariants of a session of the model -/
structure SInv (cfg : Cfg) (s : RtspSess) : Prop where
  sdpMode : s.hasSdp = true → s.mode ≠ .unknown
  modePath : s.mode ≠ .unknown → PathOK cfg s
  wsPath : s.ws.isSome = true → PathOK cfg s
  nonce : s.shown = none ∨ s.shown = some s.nonce

/-- the monitor's view of the session agrees with the model's -/
structure SessRel (s : RtspSess) (ss : SSess) : Prop where
  res : ss.resource = s.path
  mode : s.hasSdp = true → (s.mode = .record ∧ ss.publishing = true) ∨ (s.mode = .play ∧ ss.publishing = false)

section
variable (cfg : Cfg) (e : Env) (w : World) (sw : SWorld)
variable (hws : cfg.wsRtspChecks = true) (hlower : e.lower = cfg.pm.lower)
variable (r : Rel cfg e w sw) (hon : sw.authOn = true)

include hws r hon in
/-- with authentication on, the permission step is the user's matcher on the session path -/
theorem checkPermission_eq (s : RtspSess) (hd : s.digest = (s.ws.isNone && w.authOn)) (u : User) (rt : Right) :
    checkPermission cfg w s (some u) rt = u.validatePermission cfg s.path rt := by
  have hwon : w.authOn = true := by rw [r.authOn]; exact hon
  unfold checkPermission RtspSess.httpAuthed
  rw [hd, hws, hwon]
  cases s.ws <;> simp

include hws hlower r hon in
/-- who the model authenticated is who the monitor says the caller is -/
theorem checkAuth_some (s : RtspSess) (hd : s.digest = (s.ws.isNone && w.authOn)) (rq : RtspReq)
    (user : Option User) (b : Bool) (h : checkAuth cfg w s rq = (some user, b)) :
    ∃ n u, user = some u ∧ getUser cfg w.users n = some u ∧ rtspCaller e sw s.ws rq.cred = some n := by
  have hwon : w.authOn = true := by rw [r.authOn]; exact hon
  unfold checkAuth RtspSess.httpAuthed at h
  rw [hd, hws, hwon] at h
  cases hw : s.ws with
  | some c =>
    rw [hw] at h
    simp only [Option.isNone_some, Bool.false_and, Bool.false_eq_true, if_false, Option.isSome_some,
      Bool.and_self, if_true] at h
    cases hg : getUser cfg w.users c.user with
    | none => rw [hg] at h; simp at h
    | some u =>
      rw [hg] at h
      simp only [Prod.mk.injEq, Option.some.injEq] at h
      exact ⟨c.user, u, h.1.symm, hg, by simp [rtspCaller]⟩
  | none =>
    rw [hw] at h
    simp only [Option.isNone_none, Bool.true_and, if_true] at h
    cases hc : rq.cred with
    | none => rw [hc] at h; simp at h
    | some c =>
      rw [hc] at h
      simp only at h
      by_cases hem : c.user.isEmpty = true
      · simp [hem] at h
      · simp only [hem, Bool.false_eq_true, if_false] at h
        cases hg : getUser cfg w.users c.user with
        | none => rw [hg] at h; simp at h
        | some u =>
          rw [hg] at h
          simp only at h
          by_cases hok : (digestSecretOk u.password c.secret && c.fresh && decide (s.shown = some s.nonce)) = true
          · simp only [hok, if_true, Prod.mk.injEq, Option.some.injEq] at h
            have hpw := r.pw c.user
            rw [hg, hlower] at hpw
            simp only [Option.map_some] at hpw
            cases hl : lastSaved cfg.pm.lower sw.hist c.user with
            | none => rw [hl] at hpw; simp at hpw
            | some rec =>
              rw [hl] at hpw
              simp only [Option.map_some, Option.some.injEq] at hpw
              simp only [Bool.and_eq_true, decide_eq_true_eq] at hok
              refine ⟨c.user, u, h.1.symm, hg, ?_⟩
              have hem' : c.user.isEmpty = false := by simpa using hem
              simp [rtspCaller, hlower, hl, ← hpw, hok.1.1, hok.1.2, hem']
          · simp [hok] at h

include hws hlower r hon in
/-- a request the model answers 401 comes from nobody who holds any right -/
theorem checkAuth_none (s : RtspSess) (hd : s.digest = (s.ws.isNone && w.authOn)) (rq : RtspReq)
    (hn : s.shown = none ∨ s.shown = some s.nonce)
    (hfresh : ∀ c, rq.cred = some c → c.fresh = true → s.shown.isSome = true)
    (b : Bool) (h : checkAuth cfg w s rq = (none, b)) (n : List Char)
    (hc : rtspCaller e sw s.ws rq.cred = some n) (rt : Right) (p : List Char) :
    allowed e sw.hist n (actOf rt) p = false := by
  have hwon : w.authOn = true := by rw [r.authOn]; exact hon
  unfold checkAuth RtspSess.httpAuthed at h
  rw [hd, hws, hwon] at h
  cases hw : s.ws with
  | some c =>
    rw [hw] at h hc
    simp only [Option.isNone_some, Bool.false_and, Bool.false_eq_true, if_false, Option.isSome_some,
      Bool.and_self, if_true] at h
    simp only [rtspCaller, Option.some.injEq] at hc
    cases hg : getUser cfg w.users c.user with
    | some u => rw [hg] at h; simp at h
    | none =>
      have hp := r.perm c.user p rt
      rw [hg] at hp
      rw [← hc]; exact hp.symm
  | none =>
    rw [hw] at h hc
    simp only [Option.isNone_none, Bool.true_and, if_true] at h
    exfalso
    cases hcr : rq.cred with
    | none => rw [hcr] at hc; simp [rtspCaller] at hc
    | some c =>
      rw [hcr] at h hc
      simp only [rtspCaller] at hc
      simp only at h
      cases hl : lastSaved e.lower sw.hist c.user with
      | none => rw [hl] at hc; simp at hc
      | some rec =>
        rw [hl] at hc
        simp only at hc
        by_cases hcond : (c.fresh && !c.user.isEmpty && digestSecretOk rec.password c.secret) = true
        · simp only [Bool.and_eq_true, Bool.not_eq_true'] at hcond
          have hpw := r.pw c.user
          rw [hl] at hpw
          cases hg : getUser cfg w.users c.user with
          | none => rw [hg] at hpw; simp at hpw
          | some u =>
            rw [hg] at hpw h
            simp only [Option.map_some, Option.some.injEq] at hpw
            simp only [hcond.1.2, Bool.false_eq_true, if_false] at h
            have hsh : s.shown = some s.nonce := by
              have := hfresh c hcr hcond.1.1
              rcases hn with hn | hn
              · rw [hn] at this; simp at this
              · exact hn
            rw [hpw, hcond.2, hcond.1.1, hsh] at h
            simp at h
        · simp [hcond] at hc

end

/-! ### the verdict on a step, handler by handler -/

section
variable (cfg : Cfg) (e : Env) (w : World) (sw : SWorld)
variable (hok : CharOK cfg) (hcanon : e.canon = canonicalPath cfg)
variable (hws : cfg.wsRtspChecks = true)
variable (r : Rel cfg e w sw) (hon : sw.authOn = true)

include hok hcanon hws r hon in
theorem onDescribe_ok (s : RtspSess) (ss : SSess) (hd : s.digest = (s.ws.isNone && w.authOn))
    (inv : SInv cfg s) (rel : SessRel s ss) (rq : RtspReq) (hm : rq.method = .describe)
    (n : List Char) (u : User) (hg : getUser cfg w.users n = some u) :
    judgeRtspWith e sw ss s.ws rq (onDescribe cfg w s (some u) rq).2.2 (some n) = .ok := by
  unfold onDescribe
  dsimp only
  -- the path the handler works on
  generalize hs' : (if s.ws.isNone = true then { s with path := canonicalPath cfg rq.urlPath } else s) = s'
  have hd' : s'.digest = (s'.ws.isNone && w.authOn) := by
    rw [← hs']; split <;> exact hd
  have hws' : s'.ws = s.ws := by rw [← hs']; split <;> rfl
  have hpath : canonicalPath cfg s'.path = s'.path := by
    rw [← hs']
    by_cases hn : s.ws.isNone = true
    · simp only [hn, if_true]; exact canonicalPath_idem cfg hok _
    · simp only [hn, Bool.false_eq_true, if_false]
      exact inv.wsPath (by cases hw : s.ws <;> simp_all)
  have hres : rtspResource e ss s.ws rq = s'.path := by
    rw [← hs']
    unfold rtspResource
    rw [hm]
    cases hw : s.ws with
    | none => simp [hcanon]
    | some c => simp [rel.res]
  have hperm := r.perm n s'.path .pull
  rw [hg] at hperm
  simp only at hperm
  cases hgo : w.getOrCreate cfg s'.path with
  | none => simp [judgeRtspWith]
  | some st =>
    simp only []
    rw [checkPermission_eq cfg e w sw hws r hon s' hd' u .pull]
    have hkey : st.key = s'.path := by rw [getOrCreate_key cfg w _ st hgo, hpath]
    cases hv : u.validatePermission cfg s'.path .pull with
    | false =>
      rw [hv] at hperm
      have ha : allowed e sw.hist n .pull s'.path = false := hperm.symm
      simp [judgeRtspWith, needRight, hm, hres, ha]
    | true =>
      rw [hv] at hperm
      have ha : allowed e sw.hist n .pull s'.path = true := hperm.symm
      simp [judgeRtspWith, mayPull, hkey, ha]

include hok hcanon hws r hon in
theorem onAnnounce_ok (s : RtspSess) (ss : SSess) (hd : s.digest = (s.ws.isNone && w.authOn))
    (rq : RtspReq) (hm : rq.method = .announce)
    (n : List Char) (u : User) (hg : getUser cfg w.users n = some u) :
    judgeRtspWith e sw ss s.ws rq (onAnnounce cfg w s (some u) rq).2.2 (some n) = .ok := by
  unfold onAnnounce
  dsimp only
  cases hct : rq.ctOk with
  | false => simp [judgeRtspWith]
  | true =>
  simp only [Bool.not_true, Bool.false_eq_true, if_false]
  have hd' : ({ s with path := canonicalPath cfg rq.urlPath } : RtspSess).digest =
      (({ s with path := canonicalPath cfg rq.urlPath } : RtspSess).ws.isNone && w.authOn) := hd
  rw [checkPermission_eq cfg e w sw hws r hon _ hd' u .push]
  have hres : rtspResource e ss s.ws rq = canonicalPath cfg rq.urlPath := by
    unfold rtspResource; rw [hm]; simp [hcanon]
  have hperm := r.perm n (canonicalPath cfg rq.urlPath) .push
  rw [hg] at hperm
  simp only at hperm
  cases hv : u.validatePermission cfg (canonicalPath cfg rq.urlPath) .push with
  | false =>
    rw [hv] at hperm
    have ha : allowed e sw.hist n .push (canonicalPath cfg rq.urlPath) = false := hperm.symm
    simp [judgeRtspWith, needRight, hm, hres, ha]
  | true =>
    cases hsdp : rq.sdpOk <;> simp [judgeRtspWith]

omit hok hcanon hws r hon in
/-- a response that is neither 401 nor 403 and has no effect is never objected to -/
theorem judge_plain (ss : SSess) (ws : Option WsConn) (rq : RtspReq) (code : Nat) (caller : Option (List Char))
    (h1 : code ≠ 401) (h3 : code ≠ 403) :
    judgeRtspWith e sw ss ws rq { code := code } caller = .ok := by
  simp [judgeRtspWith, h1, h3]

omit hok hcanon hws r hon in
/-- a 403 is in order when the caller does not hold the right the method needs on the session's resource -/
theorem judge_403 (ss : SSess) (ws : Option WsConn) (rq : RtspReq) (n : List Char) (act : Action)
    (hneed : needRight ss rq.method = some act)
    (ha : allowed e sw.hist n act (rtspResource e ss ws rq) = false) :
    judgeRtspWith e sw ss ws rq { code := 403 } (some n) = .ok := by
  simp [judgeRtspWith, hneed, ha]

include hws r hon in
theorem onSetup_ok (s : RtspSess) (ss : SSess) (hd : s.digest = (s.ws.isNone && w.authOn))
    (inv : SInv cfg s) (rel : SessRel s ss) (rq : RtspReq) (hm : rq.method = .setup)
    (n : List Char) (u : User) (hg : getUser cfg w.users n = some u) :
    judgeRtspWith e sw ss s.ws rq (onSetup cfg w s (some u) rq).2.2 (some n) = .ok := by
  unfold onSetup
  dsimp only
  by_cases h0 : (!s.hasSdp || decide (rq.ctrl = .unknown)) = true
  · simp only [h0, if_true]; exact judge_plain e sw _ _ _ _ _ (by decide) (by decide)
  simp only [h0, Bool.false_eq_true, if_false]
  have hsdp : s.hasSdp = true := by
    cases hh : s.hasSdp with
    | true => rfl
    | false => simp [hh] at h0
  have hmode := rel.mode hsdp
  have hmu : s.mode ≠ .unknown := inv.sdpMode hsdp
  have hres : rtspResource e ss s.ws rq = s.path := by
    unfold rtspResource; rw [hm]; exact rel.res
  cases hpt : parseTransport s.ttype s.tmode rq.tr with
  | mk tt rest =>
    cases rest with
    | mk tm err =>
      simp only
      cases err with
      | true => simp only [if_true]; exact judge_plain e sw _ _ _ _ _ (by decide) (by decide)
      | false =>
        simp only [Bool.false_eq_true, if_false]
        generalize hs2 : ({ s with ttype := tt, tmode := tm } : RtspSess) = s2
        have e1 : s2.digest = (s2.ws.isNone && w.authOn) := by rw [← hs2]; exact hd
        have e2 : s2.path = s.path := by rw [← hs2]
        have e3 : s2.mode = s.mode := by rw [← hs2]
        have e4 : s2.ttype = tt := by rw [← hs2]
        have e5 : s2.ws = s.ws := by rw [← hs2]
        have hmu2 : s2.mode ≠ .unknown := by rw [e3]; exact hmu
        simp only [hmu, if_false]
        by_cases hmt' : s2.mode ≠ tm
        · rw [if_pos hmt']
          exact judge_plain e sw _ _ _ _ _ (by decide) (by decide)
        have hmt : s2.mode = tm := Decidable.not_not.mp hmt'
        rw [if_neg hmt']
        have hpp := r.perm n s2.path
        rw [hg] at hpp
        simp only at hpp
        have hres2 : rtspResource e ss s.ws rq = s2.path := by rw [hres, e2]
        by_cases hrec : s2.mode = .record
        · -- a publishing session: the push right
          simp only [hrec, if_true]
          rw [checkPermission_eq cfg e w sw hws r hon s2 e1 u .push]
          have hpub : ss.publishing = true := by
            rcases hmode with ⟨_, hp⟩ | ⟨hpl, _⟩
            · exact hp
            · rw [← e3, hrec] at hpl; cases hpl
          cases hv : u.validatePermission cfg s2.path .push with
          | false =>
            have ha : allowed e sw.hist n .push s2.path = false := by
              have := hpp .push; rw [hv] at this; exact this.symm
            simp only [Bool.not_false, if_true]
            rw [← e5]
            exact judge_403 e sw ss s2.ws rq n .push (by simp [needRight, hm, hpub]) (by rw [e5, hres2]; exact ha)
          | true =>
            simp only [Bool.not_true, Bool.false_eq_true, if_false]
            by_cases htt : s2.ttype ≠ .tcp
            · rw [if_pos htt]
              exact judge_plain e sw _ _ _ _ _ (by decide) (by decide)
            · rw [if_neg htt]
              exact judge_plain e sw _ _ _ _ _ (by decide) (by decide)
        · -- a playing session: the pull right
          simp only [hrec, if_false]
          rw [checkPermission_eq cfg e w sw hws r hon s2 e1 u .pull]
          have hpub : ss.publishing = false := by
            rcases hmode with ⟨hr, _⟩ | ⟨_, hp⟩
            · rw [← e3] at hr; exact absurd hr hrec
            · exact hp
          cases hv : u.validatePermission cfg s2.path .pull with
          | false =>
            have ha : allowed e sw.hist n .pull s2.path = false := by
              have := hpp .pull; rw [hv] at this; exact this.symm
            simp only [Bool.not_false, if_true]
            rw [← e5]
            exact judge_403 e sw ss s2.ws rq n .pull (by simp [needRight, hm, hpub]) (by rw [e5, hres2]; exact ha)
          | true =>
            simp only [Bool.not_true, Bool.false_eq_true, if_false]
            by_cases htt : s2.ttype = .mcast
            · simp only [htt, if_true]
              cases w.getOrCreate cfg s2.path <;> exact judge_plain e sw _ _ _ _ _ (by decide) (by decide)
            · simp only [htt, if_false]
              exact judge_plain e sw _ _ _ _ _ (by decide) (by decide)

include hok hws r hon in
theorem onRecord_ok (s : RtspSess) (ss : SSess) (hd : s.digest = (s.ws.isNone && w.authOn))
    (inv : SInv cfg s) (rel : SessRel s ss) (rq : RtspReq) (hm : rq.method = .record)
    (n : List Char) (u : User) (hg : getUser cfg w.users n = some u) :
    judgeRtspWith e sw ss s.ws rq (onRecord cfg w s (some u)).2.2 (some n) = .ok := by
  unfold onRecord
  by_cases h1 : s.status = .recording
  · simp only [h1, if_true]; exact judge_plain e sw _ _ _ _ _ (by decide) (by decide)
  simp only [h1, if_false]
  by_cases h2 : (decide (s.mode ≠ .record) || decide (s.ttype ≠ .tcp)) = true
  · simp only [h2, if_true]; exact judge_plain e sw _ _ _ _ _ (by decide) (by decide)
  simp only [h2, Bool.false_eq_true, if_false]
  have hrec : s.mode = .record := by
    by_cases hh : s.mode = .record
    · exact hh
    · simp [hh] at h2
  have hres : rtspResource e ss s.ws rq = s.path := by
    unfold rtspResource; rw [hm]; exact rel.res
  rw [checkPermission_eq cfg e w sw hws r hon s hd u .push]
  have hpp := r.perm n s.path .push
  rw [hg] at hpp
  simp only at hpp
  cases hv : u.validatePermission cfg s.path .push with
  | false =>
    rw [hv] at hpp
    simp only [Bool.not_false, if_true]
    exact judge_403 e sw ss s.ws rq n .push (by simp [needRight, hm]) (by rw [hres]; exact hpp.symm)
  | true =>
    rw [hv] at hpp
    simp only [Bool.not_true, Bool.false_eq_true, if_false]
    have hp : canonicalPath cfg s.path = s.path := inv.modePath (by rw [hrec]; decide)
    have ha : allowed e sw.hist n .push s.path = true := hpp.symm
    simp [World.register, judgeRtspWith, mayPush, hp, ha]

include hok hws r hon in
theorem onPlay_ok (s : RtspSess) (ss : SSess) (hd : s.digest = (s.ws.isNone && w.authOn))
    (inv : SInv cfg s) (rel : SessRel s ss) (rq : RtspReq) (hm : rq.method = .play)
    (n : List Char) (u : User) (hg : getUser cfg w.users n = some u) :
    judgeRtspWith e sw ss s.ws rq (onPlay cfg w s (some u)).2.2 (some n) = .ok := by
  unfold onPlay
  by_cases h1 : s.status = .playing
  · simp only [h1, if_true]; exact judge_plain e sw _ _ _ _ _ (by decide) (by decide)
  simp only [h1, if_false]
  by_cases h2 : (decide (s.mode ≠ .play) || decide (s.ttype = .unknown)) = true
  · simp only [h2, if_true]; exact judge_plain e sw _ _ _ _ _ (by decide) (by decide)
  simp only [h2, Bool.false_eq_true, if_false]
  have hpl : s.mode = .play := by
    by_cases hh : s.mode = .play
    · exact hh
    · simp [hh] at h2
  have hres : rtspResource e ss s.ws rq = s.path := by
    unfold rtspResource; rw [hm]; exact rel.res
  have hp : canonicalPath cfg s.path = s.path := inv.modePath (by rw [hpl]; decide)
  cases hgo : w.getOrCreate cfg s.path with
  | none => exact judge_plain e sw _ _ _ _ _ (by decide) (by decide)
  | some st =>
    simp only []
    have hkey : st.key = s.path := by rw [getOrCreate_key cfg w _ st hgo, hp]
    rw [checkPermission_eq cfg e w sw hws r hon s hd u .pull]
    have hpp := r.perm n s.path .pull
    rw [hg] at hpp
    simp only at hpp
    cases hv : u.validatePermission cfg s.path .pull with
    | false =>
      rw [hv] at hpp
      simp only [Bool.not_false, if_true]
      exact judge_403 e sw ss s.ws rq n .pull (by simp [needRight, hm]) (by rw [hres]; exact hpp.symm)
    | true =>
      rw [hv] at hpp
      simp only [Bool.not_true, Bool.false_eq_true, if_false]
      have ha : allowed e sw.hist n .pull s.path = true := hpp.symm
      by_cases hmc : s.ttype = .mcast
      · simp only [hmc, if_true]; exact judge_plain e sw _ _ _ _ _ (by decide) (by decide)
      · simp [hmc, judgeRtspWith, mayPull, hkey, ha]

/-- the `fresh` flag of a credential means "computed with the nonce of the latest response": it
    presupposes that the session has answered something -/
def FreshOK (s : RtspSess) (rq : RtspReq) : Prop :=
  ∀ c, rq.cred = some c → c.fresh = true → s.shown.isSome = true

omit hok hcanon hws r hon in
theorem needRight_actOf (ss : SSess) (m : Method) (act : Action) (h : needRight ss m = some act) :
    ∃ rt : Right, act = actOf rt := by
  unfold needRight at h
  cases m <;> simp at h
  all_goals first
    | (subst h; first | exact ⟨.pull, rfl⟩ | exact ⟨.push, rfl⟩)
    | (cases hp : ss.publishing <;> simp [hp] at h <;> subst h <;> first | exact ⟨.pull, rfl⟩ | exact ⟨.push, rfl⟩)

include hok hcanon hws r hon in
/-- RTSP: whatever `rtspStep` does is accepted by the monitor -/
theorem rtspStep_ok (hlower : e.lower = cfg.pm.lower) (s : RtspSess) (ss : SSess)
    (hd : s.digest = (s.ws.isNone && w.authOn)) (inv : SInv cfg s) (rel : SessRel s ss)
    (rq : RtspReq) (hfresh : FreshOK s rq) :
    judgeRtsp e sw ss s.ws rq (rtspStep cfg w s rq).2.2 = .ok := by
  unfold judgeRtsp
  simp only [hon, Bool.not_true, Bool.false_eq_true, if_false]
  unfold rtspStep
  dsimp only
  generalize hs1 : (if s.digest = true then { s with shown := some s.nonce } else s) = s1
  have h1ws : s1.ws = s.ws := by rw [← hs1]; split <;> rfl
  have h1d : s1.digest = (s1.ws.isNone && w.authOn) := by rw [← hs1]; split <;> exact hd
  have h1path : s1.path = s.path := by rw [← hs1]; split <;> rfl
  have h1mode : s1.mode = s.mode := by rw [← hs1]; split <;> rfl
  have h1sdp : s1.hasSdp = s.hasSdp := by rw [← hs1]; split <;> rfl
  have inv1 : SInv cfg s1 := by
    refine ⟨?_, ?_, ?_, ?_⟩
    · rw [h1sdp, h1mode]; exact inv.sdpMode
    · intro h; unfold PathOK; rw [h1path]; exact inv.modePath (by rw [← h1mode]; exact h)
    · intro h; unfold PathOK; rw [h1path]; exact inv.wsPath (by rw [← h1ws]; exact h)
    · rw [← hs1]; split
      · right; rfl
      · exact inv.nonce
  have rel1 : SessRel s1 ss := ⟨by rw [h1path]; exact rel.res, by rw [h1sdp, h1mode]; exact rel.mode⟩
  by_cases hopt : rq.method = .options
  · simp only [hopt, if_true]; exact judge_plain e sw _ _ _ _ _ (by decide) (by decide)
  simp only [hopt, if_false]
  by_cases htd : rq.method = .teardown
  · simp only [htd, if_true]; exact judge_plain e sw _ _ _ _ _ (by decide) (by decide)
  simp only [htd, if_false]
  cases hal : methodAllowed s1.status rq.method with
  | false => simp only [Bool.not_false, if_true]; exact judge_plain e sw _ _ _ _ _ (by decide) (by decide)
  | true =>
  simp only [Bool.not_true, Bool.false_eq_true, if_false]
  cases hca : checkAuth cfg w s rq with
  | mk res rotated =>
    cases res with
    | none =>
      simp only
      -- 401
      cases hcl : rtspCaller e sw s.ws rq.cred with
      | none => simp [judgeRtspWith]
      | some n =>
        cases hnr : needRight ss rq.method with
        | none => simp [judgeRtspWith, hnr]
        | some act =>
          obtain ⟨rt, hrt⟩ := needRight_actOf ss rq.method act hnr
          have := checkAuth_none cfg e w sw hws hlower r hon s hd rq inv.nonce hfresh rotated hca n hcl rt
            (rtspResource e ss s.ws rq)
          simp [judgeRtspWith, hnr, hrt, this]
    | some user =>
      simp only
      obtain ⟨n, u, hu, hg, hcl⟩ := checkAuth_some cfg e w sw hws hlower r hon s hd rq user rotated hca
      subst hu
      rw [hcl, ← h1ws]
      cases hm : rq.method with
      | describe => exact onDescribe_ok cfg e w sw hok hcanon hws r hon s1 ss h1d inv1 rel1 rq hm n u hg
      | announce => exact onAnnounce_ok cfg e w sw hok hcanon hws r hon s1 ss h1d rq hm n u hg
      | setup => exact onSetup_ok cfg e w sw hws r hon s1 ss h1d inv1 rel1 rq hm n u hg
      | record => exact onRecord_ok cfg e w sw hok hws r hon s1 ss h1d inv1 rel1 rq hm n u hg
      | play => exact onPlay_ok cfg e w sw hok hws r hon s1 ss h1d inv1 rel1 rq hm n u hg
      | options => exact absurd hm hopt
      | teardown => exact absurd hm htd
      | pause => exact judge_plain e sw _ _ _ _ _ (by decide) (by decide)
      | other => exact judge_plain e sw _ _ _ _ _ (by decide) (by decide)

/-! ### the invariants are preserved -/

/-- what a step must preserve -/
def Keeps (cfg : Cfg) (e : Env) (s : RtspSess) (ss : SSess) (rq : RtspReq) (res : StepRes) : Prop :=
  SInv cfg res.2.1 ∧ SessRel res.2.1 (ss.step e s.ws rq res.2.2) ∧ res.2.1.digest = s.digest ∧ res.2.1.ws = s.ws

omit hws r hon in
theorem keeps_same (s : RtspSess) (ss : SSess) (rq : RtspReq) (w' : World) (code : Nat)
    (inv : SInv cfg s) (rel : SessRel s ss)
    (hstep : ss.step e s.ws rq { code := code } = ss) :
    Keeps cfg e s ss rq (w', s, { code := code }) :=
  ⟨inv, by rw [hstep]; exact rel, rfl, rfl⟩

include hok hcanon in
theorem onDescribe_keeps (s : RtspSess) (ss : SSess) (inv : SInv cfg s) (rel : SessRel s ss)
    (rq : RtspReq) (hm : rq.method = .describe) (user : Option User) :
    Keeps cfg e s ss rq (onDescribe cfg w s user rq) := by
  unfold onDescribe
  dsimp only
  generalize hs' : (if s.ws.isNone = true then { s with path := canonicalPath cfg rq.urlPath } else s) = s'
  have e1 : s'.digest = s.digest := by rw [← hs']; split <;> rfl
  have e2 : s'.ws = s.ws := by rw [← hs']; split <;> rfl
  have e3 : s'.mode = s.mode := by rw [← hs']; split <;> rfl
  have e4 : s'.hasSdp = s.hasSdp := by rw [← hs']; split <;> rfl
  have e5 : s'.nonce = s.nonce := by rw [← hs']; split <;> rfl
  have e6 : s'.shown = s.shown := by rw [← hs']; split <;> rfl
  have hpath : PathOK cfg s' := by
    unfold PathOK
    rw [← hs']
    by_cases hn : s.ws.isNone = true
    · simp only [hn, if_true]; exact canonicalPath_idem cfg hok _
    · simp only [hn, Bool.false_eq_true, if_false]
      exact inv.wsPath (by cases hw : s.ws <;> simp_all)
  have hres : rtspResource e ss s.ws rq = s'.path := by
    rw [← hs']
    unfold rtspResource
    rw [hm]
    cases hw : s.ws with
    | none => simp [hcanon]
    | some c => simp [rel.res]
  have inv' : SInv cfg s' := ⟨by rw [e4, e3]; exact inv.sdpMode, fun _ => hpath, fun _ => hpath, by rw [e5, e6]; exact inv.nonce⟩
  have hstepNot200 : ∀ code, code ≠ 401 → code ≠ 455 → code ≠ 200 →
      ss.step e s.ws rq { code := code } = { resource := s'.path, publishing := ss.publishing } := by
    intro code h1 h2 h3
    simp [SSess.step, h1, h2, h3, hm, hres]
  have relNot200 : SessRel s' { resource := s'.path, publishing := ss.publishing } :=
    ⟨rfl, by rw [e4, e3]; exact rel.mode⟩
  cases hgo : w.getOrCreate cfg s'.path with
  | none =>
    exact ⟨inv', by rw [hstepNot200 404 (by decide) (by decide) (by decide)]; exact relNot200, e1, e2⟩
  | some st =>
    simp only []
    cases checkPermission cfg w s' user .pull with
    | false =>
      simp only [Bool.not_false, if_true]
      exact ⟨inv', by rw [hstepNot200 403 (by decide) (by decide) (by decide)]; exact relNot200, e1, e2⟩
    | true =>
      simp only [Bool.not_true, Bool.false_eq_true, if_false]
      refine ⟨⟨fun _ => by simp, fun _ => hpath, fun _ => hpath, ?_⟩, ⟨?_, ?_⟩, e1, e2⟩
      · show s'.shown = none ∨ s'.shown = some s'.nonce
        rw [e5, e6]; exact inv.nonce
      · simp [SSess.step, hm, hres]
      · intro _; right; simp [SSess.step, hm]

include hok hcanon in
theorem onAnnounce_keeps (s : RtspSess) (ss : SSess) (inv : SInv cfg s) (rel : SessRel s ss)
    (rq : RtspReq) (hm : rq.method = .announce) (user : Option User) :
    Keeps cfg e s ss rq (onAnnounce cfg w s user rq) := by
  unfold onAnnounce
  dsimp only
  cases hct : rq.ctOk with
  | false =>
    simp only [Bool.not_false, if_true]
    exact keeps_same cfg e s ss rq w 400 inv rel (by simp [SSess.step, hm, hct])
  | true =>
    simp only [Bool.not_true, Bool.false_eq_true, if_false]
    have hres : rtspResource e ss s.ws rq = canonicalPath cfg rq.urlPath := by
      unfold rtspResource; rw [hm]; simp [hcanon]
    have hpath : canonicalPath cfg (canonicalPath cfg rq.urlPath) = canonicalPath cfg rq.urlPath :=
      canonicalPath_idem cfg hok _
    have hstepNot200 : ∀ code, code ≠ 401 → code ≠ 455 → code ≠ 200 →
        ss.step e s.ws rq { code := code } = { resource := canonicalPath cfg rq.urlPath, publishing := ss.publishing } := by
      intro code h1 h2 h3
      simp [SSess.step, h1, h2, h3, hm, hres, hct]
    have keepNot200 : ∀ code, code ≠ 401 → code ≠ 455 → code ≠ 200 →
        Keeps cfg e s ss rq (w, { s with path := canonicalPath cfg rq.urlPath }, { code := code }) := by
      intro code h1 h2 h3
      refine ⟨⟨inv.sdpMode, fun _ => hpath, fun _ => hpath, inv.nonce⟩, ?_, rfl, rfl⟩
      show SessRel _ (ss.step e s.ws rq { code := code })
      rw [hstepNot200 code h1 h2 h3]
      exact ⟨rfl, rel.mode⟩
    cases checkPermission cfg w { s with path := canonicalPath cfg rq.urlPath } user .push with
    | false =>
      simp only [Bool.not_false, if_true]
      exact keepNot200 403 (by decide) (by decide) (by decide)
    | true =>
      simp only [Bool.not_true, Bool.false_eq_true, if_false]
      cases hsdp : rq.sdpOk with
      | false =>
        simp only [Bool.not_false, if_true]
        exact keepNot200 400 (by decide) (by decide) (by decide)
      | true =>
        simp only [Bool.not_true, Bool.false_eq_true, if_false]
        refine ⟨⟨fun _ => by simp, fun _ => hpath, fun _ => hpath, inv.nonce⟩, ⟨?_, ?_⟩, rfl, rfl⟩
        · simp [SSess.step, hm, hres, hct]
        · intro _; left; simp [SSess.step, hm, hct]

omit hws r hon hcanon hok in
theorem parseTransport_mode (tt : TType) (tm : Mode) (tr : TrSpec) :
    (parseTransport tt tm tr).2.1 ≠ .unknown := by
  unfold parseTransport
  cases tm <;> cases tr.spec <;> simp <;> (cases tr.modeParam with
    | none => simp
    | some m => cases m <;> simp)

omit hws r hon hcanon hok in
theorem onSetup_keeps (s : RtspSess) (ss : SSess) (inv : SInv cfg s) (rel : SessRel s ss)
    (rq : RtspReq) (hm : rq.method = .setup) (user : Option User) :
    Keeps cfg e s ss rq (onSetup cfg w s user rq) := by
  have hstep : ∀ out : RtspOut, ss.step e s.ws rq out = ss := by
    intro out; unfold SSess.step; rw [hm]; split <;> rfl
  -- every outcome changes only transport fields and the status (the mode only if it was unknown,
  -- which it cannot be once an SDP is there)
  have key : ∀ (s' : RtspSess) (w' : World) (out : RtspOut),
      s'.path = s.path → s'.hasSdp = s.hasSdp → s'.ws = s.ws → s'.digest = s.digest → s'.nonce = s.nonce →
      s'.shown = s.shown → s'.mode = s.mode → Keeps cfg e s ss rq (w', s', out) := by
    intro s' w' out hp hs hw hdg hn hsh hmo
    refine ⟨⟨?_, ?_, ?_, ?_⟩, ⟨?_, ?_⟩, hdg, hw⟩
    · intro h; show s'.mode ≠ .unknown; rw [hmo]; exact inv.sdpMode (by rw [← hs]; exact h)
    · intro h; show canonicalPath cfg s'.path = s'.path; rw [hp]; exact inv.modePath (by rw [← hmo]; exact h)
    · intro h; show canonicalPath cfg s'.path = s'.path; rw [hp]; exact inv.wsPath (by rw [← hw]; exact h)
    · show s'.shown = none ∨ s'.shown = some s'.nonce; rw [hn, hsh]; exact inv.nonce
    · show (ss.step e s.ws rq out).resource = s'.path; rw [hstep, hp]; exact rel.res
    · intro h
      show (s'.mode = .record ∧ (ss.step e s.ws rq out).publishing = true) ∨ _
      rw [hstep, hmo]
      exact rel.mode (by rw [← hs]; exact h)
  unfold onSetup
  dsimp only
  by_cases h0 : (!s.hasSdp || decide (rq.ctrl = .unknown)) = true
  · simp only [h0, if_true]; exact key s w _ rfl rfl rfl rfl rfl rfl rfl
  simp only [h0, Bool.false_eq_true, if_false]
  have hsdp : s.hasSdp = true := by
    cases hh : s.hasSdp with
    | true => rfl
    | false => simp [hh] at h0
  have hmu : s.mode ≠ .unknown := inv.sdpMode hsdp
  cases hpt : parseTransport s.ttype s.tmode rq.tr with
  | mk tt rest =>
    cases rest with
    | mk tm err =>
      simp only [hmu, if_false]
      repeat' split
      all_goals exact key _ _ _ rfl rfl rfl rfl rfl rfl rfl

omit hws r hon hcanon hok in
theorem onRecord_keeps (s : RtspSess) (ss : SSess) (inv : SInv cfg s) (rel : SessRel s ss)
    (rq : RtspReq) (hm : rq.method = .record) (user : Option User) :
    Keeps cfg e s ss rq (onRecord cfg w s user) := by
  have hstep : ∀ out : RtspOut, ss.step e s.ws rq out = ss := by
    intro out; unfold SSess.step; rw [hm]; split <;> rfl
  have key : ∀ (st : Status) (w' : World) (out : RtspOut), Keeps cfg e s ss rq (w', { s with status := st }, out) := by
    intro st w' out
    exact ⟨⟨inv.sdpMode, inv.modePath, inv.wsPath, inv.nonce⟩, by rw [hstep]; exact ⟨rel.res, rel.mode⟩, rfl, rfl⟩
  have key0 : ∀ (w' : World) (out : RtspOut), Keeps cfg e s ss rq (w', s, out) := by
    intro w' out
    exact ⟨inv, by rw [hstep]; exact rel, rfl, rfl⟩
  unfold onRecord
  dsimp only [World.register]
  repeat' split
  all_goals first | exact key0 _ _ | exact key _ _ _

omit hws r hon hcanon hok in
theorem onPlay_keeps (s : RtspSess) (ss : SSess) (inv : SInv cfg s) (rel : SessRel s ss)
    (rq : RtspReq) (hm : rq.method = .play) (user : Option User) :
    Keeps cfg e s ss rq (onPlay cfg w s user) := by
  have hstep : ∀ out : RtspOut, ss.step e s.ws rq out = ss := by
    intro out; unfold SSess.step; rw [hm]; split <;> rfl
  have key : ∀ (st : Status) (w' : World) (out : RtspOut), Keeps cfg e s ss rq (w', { s with status := st }, out) := by
    intro st w' out
    exact ⟨⟨inv.sdpMode, inv.modePath, inv.wsPath, inv.nonce⟩, by rw [hstep]; exact ⟨rel.res, rel.mode⟩, rfl, rfl⟩
  have key0 : ∀ (w' : World) (out : RtspOut), Keeps cfg e s ss rq (w', s, out) := by
    intro w' out
    exact ⟨inv, by rw [hstep]; exact rel, rfl, rfl⟩
  unfold onPlay
  repeat' split
  all_goals first | exact key0 _ _ | exact key _ _ _

include hok hcanon in
/-- every step of a session preserves the invariants and the monitor's view of it -/
theorem rtspStep_keeps (hnn : cfg.digestShowsNewNonce = true) (s : RtspSess) (ss : SSess)
    (inv : SInv cfg s) (rel : SessRel s ss) (rq : RtspReq) :
    Keeps cfg e s ss rq (rtspStep cfg w s rq) := by
  unfold rtspStep
  dsimp only
  generalize hs1 : (if s.digest = true then { s with shown := some s.nonce } else s) = s1
  have h1ws : s1.ws = s.ws := by rw [← hs1]; split <;> rfl
  have h1dg : s1.digest = s.digest := by rw [← hs1]; split <;> rfl
  have h1path : s1.path = s.path := by rw [← hs1]; split <;> rfl
  have h1mode : s1.mode = s.mode := by rw [← hs1]; split <;> rfl
  have h1sdp : s1.hasSdp = s.hasSdp := by rw [← hs1]; split <;> rfl
  have inv1 : SInv cfg s1 := by
    refine ⟨?_, ?_, ?_, ?_⟩
    · rw [h1sdp, h1mode]; exact inv.sdpMode
    · intro h; unfold PathOK; rw [h1path]; exact inv.modePath (by rw [← h1mode]; exact h)
    · intro h; unfold PathOK; rw [h1path]; exact inv.wsPath (by rw [← h1ws]; exact h)
    · rw [← hs1]; split
      · right; rfl
      · exact inv.nonce
  have rel1 : SessRel s1 ss := ⟨by rw [h1path]; exact rel.res, by rw [h1sdp, h1mode]; exact rel.mode⟩
  -- transfer a result about s1 to s
  have lift : ∀ res : StepRes, Keeps cfg e s1 ss rq res → Keeps cfg e s ss rq res := by
    intro res ⟨a, b, c, d⟩
    exact ⟨a, by rw [← h1ws]; exact b, by rw [c, h1dg], by rw [d, h1ws]⟩
  by_cases hopt : rq.method = .options
  · simp only [hopt, if_true]
    exact lift _ (keeps_same cfg e s1 ss rq w 200 inv1 rel1 (by simp [SSess.step, hopt]))
  simp only [hopt, if_false]
  by_cases htd : rq.method = .teardown
  · simp only [htd, if_true]
    apply lift
    refine ⟨⟨inv1.sdpMode, inv1.modePath, inv1.wsPath, inv1.nonce⟩, ?_, rfl, rfl⟩
    show SessRel _ (ss.step e s1.ws rq { code := 200 })
    have : ss.step e s1.ws rq { code := 200 } = ss := by simp [SSess.step, htd]
    rw [this]; exact ⟨rel1.res, rel1.mode⟩
  simp only [htd, if_false]
  cases hal : methodAllowed s1.status rq.method with
  | false =>
    simp only [Bool.not_false, if_true]
    exact lift _ (keeps_same cfg e s1 ss rq w 455 inv1 rel1 (by simp [SSess.step]))
  | true =>
  simp only [Bool.not_true, Bool.false_eq_true, if_false]
  cases hca : checkAuth cfg w s rq with
  | mk res rotated =>
    cases res with
    | none =>
      simp only [hnn, Bool.and_true]
      apply lift
      have hstep : ss.step e s1.ws rq { code := 401 } = ss := by simp [SSess.step]
      cases rotated with
      | false =>
        simp only [Bool.false_eq_true, if_false]
        exact keeps_same cfg e s1 ss rq w 401 inv1 rel1 hstep
      | true =>
        simp only [if_true]
        refine ⟨⟨inv1.sdpMode, inv1.modePath, inv1.wsPath, Or.inr rfl⟩, ?_, rfl, rfl⟩
        show SessRel _ (ss.step e s1.ws rq { code := 401 })
        rw [hstep]; exact ⟨rel1.res, rel1.mode⟩
    | some user =>
      simp only
      apply lift
      cases hm : rq.method with
      | describe => exact onDescribe_keeps cfg e w hok hcanon s1 ss inv1 rel1 rq hm user
      | announce => exact onAnnounce_keeps cfg e w hok hcanon s1 ss inv1 rel1 rq hm user
      | setup => exact onSetup_keeps cfg e w s1 ss inv1 rel1 rq hm user
      | record => exact onRecord_keeps cfg e w s1 ss inv1 rel1 rq hm user
      | play => exact onPlay_keeps cfg e w s1 ss inv1 rel1 rq hm user
      | options => exact absurd hm hopt
      | teardown => exact absurd hm htd
      | pause => exact keeps_same cfg e s1 ss rq w 455 inv1 rel1 (by simp [SSess.step])
      | other => exact keeps_same cfg e s1 ss rq w 455 inv1 rel1 (by simp [SSess.step])

end

end IpcHub.Auth
