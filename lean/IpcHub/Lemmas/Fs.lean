/- helper lemmas for C18: crash atomicity of the temp-file / fsync / rename program -/
import IpcHub.Model.Fs
namespace IpcHub.Fs

theorem exec_noeffect (data : Bytes) (fs : Fs) (op : FsOp) (h : isEffect op = false) : exec data fs op = fs := by
  cases op <;> simp [isEffect] at h <;> rfl

theorem crashState_zero_none (data : Bytes) (fs : Fs) (prog : List FsOp) : crashState data fs prog 0 none = fs := by
  cases prog <;> simp [crashState, runN]

theorem crashState_succ (data : Bytes) (fs : Fs) (op : FsOp) (rest : List FsOp) (k : Nat) (part : Option Nat) :
    crashState data fs (op :: rest) (k + 1) part = crashState data (exec data fs op) rest k part := by
  simp [crashState, runN]

/-- hooks, marshalling and closes do not matter: every crash state of a program is a crash
    state of its essential part -/
theorem crashState_essential (data : Bytes) : ∀ (prog : List FsOp) (fs : Fs) (k : Nat) (part : Option Nat),
    ∃ k' part', crashState data fs prog k part = crashState data fs (essential prog) k' part' := by
  intro prog
  induction prog with
  | nil => intro fs k part; exact ⟨0, none, by simp [crashState, runN, essential]⟩
  | cons op rest ih =>
    intro fs k part
    cases k with
    | zero =>
      by_cases hw : ∃ n f, part = some n ∧ op = .write f
      · obtain ⟨n, f, rfl, rfl⟩ := hw
        refine ⟨0, some n, ?_⟩
        have : essential (FsOp.write f :: rest) = FsOp.write f :: essential rest := by
          unfold essential; rw [List.filter_cons_of_pos (by rfl)]
        rw [this]; simp [crashState, runN]
      · refine ⟨0, none, ?_⟩
        rw [crashState_zero_none]
        simp only [crashState, runN]
        cases part with
        | none => simp
        | some n =>
          cases op <;> simp at hw ⊢
    | succ k =>
      rw [crashState_succ]
      obtain ⟨k', part', h⟩ := ih (exec data fs op) k part
      cases he : isEffect op with
      | true =>
        refine ⟨k' + 1, part', ?_⟩
        have : essential (op :: rest) = op :: essential rest := by simp [essential, he]
        rw [this, crashState_succ]; exact h
      | false =>
        refine ⟨k', part', ?_⟩
        have : essential (op :: rest) = essential rest := by simp [essential, he]
        rw [this, h, exec_noeffect data fs op he]

/-- the essential part of the atomic-replace program -/
def atomicProg : List FsOp := [.openTrunc .temp, .write .temp, .sync .temp, .rename .temp .target]

/-- a leftover temporary file from an earlier crash may exist or not -/
def Fs.initWithStaleTemp (old : Option Bytes) (stale : Option Bytes) : Fs :=
  match stale with
  | none => Fs.init old
  | some s =>
    let fs := Fs.init old
    { fs with inodes := fs.inodes ++ [{ vol := s, synced := false }], temp := some fs.inodes.length }

theorem atomicProg_crash (old : Option Bytes) (stale : Option Bytes) (new : Bytes) (k : Nat) (part : Option Nat) :
    let fs := crashState new (Fs.initWithStaleTemp old stale) atomicProg k part
    (processOutcome fs = old ∨ processOutcome fs = some new) ∧
    ∀ c, PowerLossOutcome fs c → (c = old ∨ c = some new) := by
  cases old <;> cases stale <;>
    (match k with
     | 0 => cases part <;> simp [crashState, runN, atomicProg, Fs.init, Fs.initWithStaleTemp, processOutcome, PowerLossOutcome]
     | 1 => cases part <;> simp [crashState, runN, atomicProg, Fs.init, Fs.initWithStaleTemp, processOutcome, PowerLossOutcome, exec, Fs.name, Fs.bind, modifyAt]
     | 2 => cases part <;> simp [crashState, runN, atomicProg, Fs.init, Fs.initWithStaleTemp, processOutcome, PowerLossOutcome, exec, Fs.name, Fs.bind, modifyAt]
     | 3 => cases part <;> simp [crashState, runN, atomicProg, Fs.init, Fs.initWithStaleTemp, processOutcome, PowerLossOutcome, exec, Fs.name, Fs.bind, modifyAt]
     | k + 4 => cases part <;> simp [crashState, runN, atomicProg, Fs.init, Fs.initWithStaleTemp, processOutcome, PowerLossOutcome, exec, Fs.name, Fs.bind, modifyAt])

/-- after the whole program a reader sees the new content -/
theorem atomicProg_done (old : Option Bytes) (stale : Option Bytes) (new : Bytes) :
    processOutcome (runN new (Fs.initWithStaleTemp old stale) atomicProg atomicProg.length) = some new := by
  cases old <;> cases stale <;>
    simp [runN, atomicProg, Fs.init, Fs.initWithStaleTemp, processOutcome, exec, Fs.name, Fs.bind, modifyAt]

theorem runN_essential (data : Bytes) : ∀ (prog : List FsOp) (fs : Fs),
    runN data fs prog prog.length = runN data fs (essential prog) (essential prog).length := by
  intro prog
  induction prog with
  | nil => intro fs; rfl
  | cons op rest ih =>
    intro fs
    cases he : isEffect op with
    | true =>
      have : essential (op :: rest) = op :: essential rest := by simp [essential, he]
      rw [this]; simp only [List.length_cons, runN]; exact ih _
    | false =>
      have : essential (op :: rest) = essential rest := by simp [essential, he]
      rw [this]; simp only [List.length_cons, runN, exec_noeffect data fs op he]; exact ih _

end IpcHub.Fs
