import IpcHub.Model.Ids
namespace IpcHub.Ids

theorem opens_mentions (k t : Term) (h : opens k t = true) : mentions k t = true := by
  induction k with
  | ctr n => unfold opens at h; unfold mentions; simpa using h
  | rnd n => unfold opens at h; unfold mentions; simpa using h
  | md5 k ih => unfold opens at h; unfold mentions; simp at h ⊢; exact Or.inl h
  | b64 k ih =>
    unfold opens at h; unfold mentions
    simp only [Bool.or_eq_true, decide_eq_true_eq] at h ⊢
    rcases h with h | h
    · exact Or.inl h
    · exact Or.inr (ih h)
  | dec k ih =>
    unfold opens at h; unfold mentions
    simp only [Bool.or_eq_true, decide_eq_true_eq] at h ⊢
    rcases h with h | h
    · exact Or.inl h
    · exact Or.inr (ih h)
  | hex k ih =>
    unfold opens at h; unfold mentions
    simp only [Bool.or_eq_true, decide_eq_true_eq] at h ⊢
    rcases h with h | h
    · exact Or.inl h
    · exact Or.inr (ih h)

/-- a crypto/rand draw that occurs in nothing the attacker was given is not derivable -/
theorem rnd_secret (K : List Term) (n : Nat) (h : ∀ k ∈ K, mentions k (.rnd n) = false) :
    derivable K (.rnd n) = false := by
  unfold derivable
  rw [List.any_eq_false]
  intro k hk ho
  have := opens_mentions k _ ho
  rw [h k hk] at this
  cases this

/-- one disclosed counter value gives away every MD5-of-counter secret -/
theorem md5_counter_derivable (K : List Term) (c m : Nat) (h : (Term.b64 (.ctr c)) ∈ K ∨ (Term.dec (.ctr c)) ∈ K) :
    derivable K (.md5 (.ctr m)) = true := by
  unfold derivable derivable ctrKnown
  simp only [Bool.or_eq_true]
  left
  rw [List.any_eq_true]
  rcases h with h | h
  · exact ⟨_, h, by simp [opensToCtr]⟩
  · exact ⟨_, h, by simp [opensToCtr]⟩

end IpcHub.Ids
