/-
Totality / containment lemmas for Model/Depack.lean: with the bounds checks present
(`SafeCfg`), no depacketizer step, for any state and any payload bytes, ends in `panic`
(or exhausts the loop fuel, which is the termination part of the claim).
-/
import IpcHub.Model.Depack
namespace IpcHub.Depack

/-- the guards that make the depacketizers total -/
structure SafeCfg (cfg : Cfg) : Prop where
  h264Min : 1 ≤ cfg.h264Min
  stapa : cfg.stapaChecked = true
  fuaMin : 2 ≤ cfg.fuaMin
  h265Min : 1 ≤ cfg.h265Min
  ap : cfg.apChecked = true
  fuMin : 3 ≤ cfg.fuMin
  aac : cfg.aacChecked = true
  sr : cfg.srChecked = true

/-- a status that lets the worker loop go on -/
def Status.benign : Status → Prop
  | .ok => True
  | .err => True
  | _ => False

theorem h264WriteFrame_ok (cfg : Cfg) (ok : Bytes → Bool) (st : VSt) (ts : UInt32) (p : Bytes) (hp : p ≠ []) :
    (h264WriteFrame cfg ok st ts p).status = .ok := by
  cases p with
  | nil => exact absurd rfl hp
  | cons b bs =>
    simp only [h264WriteFrame]
    (repeat' split) <;> rfl

theorem h265WriteFrame_ok (cfg : Cfg) (ok : Bytes → Bool) (st : VSt) (ts : UInt32) (p : Bytes) (hp : p ≠ []) :
    (h265WriteFrame cfg ok st ts p).status = .ok := by
  cases p with
  | nil => exact absurd rfl hp
  | cons b bs =>
    simp only [h265WriteFrame]
    (repeat' split) <;> rfl

end IpcHub.Depack

namespace IpcHub.Depack

theorem rewriteNri_ne_nil (h : UInt8) (l : Bytes) (hl : l ≠ []) : rewriteNri h l ≠ [] := by
  cases l with
  | nil => exact absurd rfl hl
  | cons b bs => simp [rewriteNri]

theorem take_append_replicate_ne_nil (tl : Bytes) (n : Nat) (hn : 1 ≤ n) :
    tl.take n ++ List.replicate (n - tl.length) (0 : UInt8) ≠ [] := by
  intro h
  have h2 : (tl.take n ++ List.replicate (n - tl.length) (0 : UInt8)).length = n := by
    simp only [List.length_append, List.length_take, List.length_replicate]
    omega
  rw [h] at h2
  simp at h2
  omega

theorem stapaLoop_benign (cfg : Cfg) (ok : Bytes → Bool) (hdr : UInt8) (ts : UInt32) (hs : cfg.stapaChecked = true) :
    ∀ (fuel : Nat) (st : VSt) (rest : Bytes) (acc : List Frame), rest.length < fuel →
      Status.benign (stapaLoop cfg ok hdr ts fuel st rest acc).status := by
  intro fuel
  induction fuel with
  | zero => intro st rest acc h; omega
  | succ fuel ih =>
    intro st rest acc hlen
    match rest with
    | [] => simp [stapaLoop, hs, Status.benign]
    | [_] => simp [stapaLoop, hs, Status.benign]
    | hi :: lo :: tl =>
      simp only [stapaLoop, hs, Bool.true_and]
      by_cases h1 : be16 hi lo < 1
      · simp [h1, Status.benign]
      · simp only [h1, if_false]
        by_cases h2 : tl.length < be16 hi lo
        · simp [h2, Status.benign]
        · have hn : 1 ≤ be16 hi lo := by omega
          simp only [h2, decide_false, Bool.false_eq_true, if_false]
          have hne : (if cfg.stapaRewritesNri = true then rewriteNri hdr (tl.take (be16 hi lo) ++ List.replicate (be16 hi lo - tl.length) 0)
              else tl.take (be16 hi lo) ++ List.replicate (be16 hi lo - tl.length) 0) ≠ [] := by
            split
            · exact rewriteNri_ne_nil _ _ (take_append_replicate_ne_nil tl _ hn)
            · exact take_append_replicate_ne_nil tl _ hn
          rw [h264WriteFrame_ok cfg ok st ts _ hne]
          simp only
          by_cases h3 : tl.length ≤ be16 hi lo
          · simp [h3, Status.benign]
          · simp only [h3, if_false]
            apply ih
            simp [List.length_drop] at hlen ⊢
            omega

end IpcHub.Depack

namespace IpcHub.Depack

theorem apLoop_benign (cfg : Cfg) (ok : Bytes → Bool) (ts : UInt32) (hs : cfg.apChecked = true) :
    ∀ (fuel : Nat) (st : VSt) (rest : Bytes) (acc : List Frame), rest.length < fuel →
      Status.benign (apLoop cfg ok ts fuel st rest acc).status := by
  intro fuel
  induction fuel with
  | zero => intro st rest acc h; omega
  | succ fuel ih =>
    intro st rest acc hlen
    match rest with
    | [] => simp [apLoop, hs, Status.benign]
    | [_] => simp [apLoop, hs, Status.benign]
    | hi :: lo :: tl =>
      simp only [apLoop, hs, Bool.true_and]
      by_cases h1 : be16 hi lo < 1
      · simp [h1, Status.benign]
      · simp only [h1, if_false]
        by_cases h2 : tl.length < be16 hi lo
        · simp [h2, Status.benign]
        · have hn : 1 ≤ be16 hi lo := by omega
          simp only [h2, decide_false, Bool.false_eq_true, if_false]
          rw [h265WriteFrame_ok cfg ok st ts _ (take_append_replicate_ne_nil tl _ hn)]
          simp only
          by_cases h3 : tl.length ≤ be16 hi lo
          · simp [h3, Status.benign]
          · simp only [h3, if_false]
            apply ih
            simp [List.length_drop] at hlen ⊢
            omega

theorem h264FuA_benign (cfg : Cfg) (ok : Bytes → Bool) (st : VSt) (p : Pkt) (hm : 2 ≤ cfg.fuaMin) :
    Status.benign (h264FuA cfg ok st p).status := by
  unfold h264FuA
  split
  · trivial
  · rename_i hlen
    match hp : p.payload with
    | [] => simp [hp] at hlen; omega
    | [_] => simp [hp] at hlen; omega
    | ind :: fuh :: tl =>
      simp only
      (repeat' split) <;> first | trivial | (rw [h264WriteFrame_ok _ _ _ _ _ (by simp)]; trivial)

theorem h265Fu_benign (cfg : Cfg) (ok : Bytes → Bool) (st : VSt) (p : Pkt) (hm : 3 ≤ cfg.fuMin) :
    Status.benign (h265Fu cfg ok st p).status := by
  unfold h265Fu
  split
  · trivial
  · rename_i hlen
    match hp : p.payload with
    | [] => simp [hp] at hlen; omega
    | [_] => simp [hp] at hlen; omega
    | [_, _] => simp [hp] at hlen; omega
    | b0 :: b1 :: fuh :: tl =>
      simp only
      (repeat' split) <;> first | trivial | (rw [h265WriteFrame_ok _ _ _ _ _ (by simp)]; trivial)

theorem h264Step_benign (cfg : Cfg) (hc : SafeCfg cfg) (ok : Bytes → Bool) (st : VSt) (p : Pkt) :
    Status.benign (h264Step cfg ok st p).status := by
  unfold h264Step
  split
  · trivial
  · rename_i hlen
    match hp : p.payload with
    | [] => simp [hp] at hlen; have := hc.h264Min; omega
    | b0 :: rest =>
      simp only
      split
      · rw [h264WriteFrame_ok _ _ _ _ _ (by simp)]; trivial
      · split
        · simp only [h264Stapa, hp]
          exact stapaLoop_benign cfg ok b0 p.ts hc.stapa _ _ _ _ (by omega)
        · split
          · exact h264FuA_benign cfg ok st p hc.fuaMin
          · trivial

theorem h265Step_benign (cfg : Cfg) (hc : SafeCfg cfg) (ok : Bytes → Bool) (st : VSt) (p : Pkt) :
    Status.benign (h265Step cfg ok st p).status := by
  unfold h265Step
  split
  · trivial
  · rename_i hlen
    match hp : p.payload with
    | [] => simp [hp] at hlen; have := hc.h265Min; omega
    | b0 :: rest =>
      simp only
      split
      · simp only [h265Ap, hp]
        match rest with
        | [] => simp [hc.ap, Status.benign]
        | _ :: rest' => exact apLoop_benign cfg ok p.ts hc.ap _ _ _ _ (by omega)
      · split
        · exact h265Fu_benign cfg ok st p hc.fuMin
        · rw [h265WriteFrame_ok _ _ _ _ _ (by simp)]; trivial

theorem aacLoop_benign (cfg : Cfg) (hc : cfg.aacChecked = true) (base : UInt32) :
    ∀ (k : Nat) (hs fp : Bytes) (ts : UInt32) (acc : List Frame), hs.length = 2 * k →
      Status.benign (aacLoop cfg base k hs fp ts acc).2 := by
  intro k
  induction k with
  | zero => intro hs fp ts acc _; simp [aacLoop, Status.benign]
  | succ k ih =>
    intro hs fp ts acc hl
    match hs with
    | [] => simp at hl
    | [_] => simp at hl; omega
    | hi :: lo :: tl =>
      simp only [aacLoop]
      split
      · simp [hc, Status.benign]
      · apply ih; simp at hl; omega

theorem aacStep_benign (cfg : Cfg) (hc : cfg.aacChecked = true) (base : UInt32) (p : Pkt) :
    Status.benign (aacStep cfg base p).2 := by
  unfold aacStep
  match p.payload with
  | [] => simp [hc, Status.benign]
  | [_] => simp [hc, Status.benign]
  | hi :: lo :: rest =>
    simp only [hc, if_true]
    by_cases h : rest.length < 2 * (be16 hi lo >>> 4)
    · simp [h, Status.benign]
    · simp only [h, if_false]
      apply aacLoop_benign cfg hc
      simp only [List.length_take]
      omega

theorem control_benign (cfg : Cfg) (hc : cfg.srChecked = true) (base : UInt32) (data : Bytes) :
    Status.benign (control cfg base data).2 := by
  unfold control
  split
  · trivial
  · split
    · trivial
    · rename_i h
      simp only [hc, Bool.true_and, decide_eq_true_eq] at h
      match data with
      | [] => simp at h
      | [_] => simp at h
      | a :: pt :: tl =>
        simp only
        split
        · match hd : List.drop 16 (a :: pt :: tl) with
          | x0 :: x1 :: x2 :: x3 :: _ => trivial
          | [] | [_] | [_, _] | [_, _, _] =>
            have := congrArg List.length hd
            simp [List.length_drop] at this h
            omega
        · trivial

end IpcHub.Depack

namespace IpcHub.Depack

theorem benign_ne_panic {s : Status} (h : Status.benign s) : (s != Status.panic) = true := by
  cases s <;> simp_all [Status.benign]

/-- C07: under the bounds checks the demuxer goroutine survives every packet on every channel -/
theorem demuxStep_alive (cfg : Cfg) (hc : SafeCfg cfg) (ok : Bytes → Bool) (d : DemuxSt) (i : In) :
    (demuxStep cfg ok d i).1.alive = d.alive := by
  unfold demuxStep
  by_cases ha : d.alive
  · simp only [ha, Bool.not_true, Bool.false_eq_true, if_false]
    cases i with
    | video p =>
      simp only
      have : Status.benign (vStep cfg ok d.codec d.v p).status := by
        unfold vStep; cases d.codec
        · exact h264Step_benign cfg hc ok d.v p
        · exact h265Step_benign cfg hc ok d.v p
      exact benign_ne_panic this
    | vctl data =>
      simp only
      exact benign_ne_panic (control_benign cfg hc.sr d.v.base data)
    | audio p =>
      simp only
      split
      · exact benign_ne_panic (aacStep_benign cfg hc.aac d.abase p)
      · exact ha
    | actl data =>
      simp only
      split
      · exact benign_ne_panic (control_benign cfg hc.sr d.abase data)
      · exact ha
  · simp [ha]

theorem demuxRun_alive (cfg : Cfg) (hc : SafeCfg cfg) (ok : Bytes → Bool) :
    ∀ (is : List In) (d : DemuxSt), (demuxRun cfg ok d is).1.alive = d.alive := by
  intro is
  induction is with
  | nil => intro d; rfl
  | cons i is ih =>
    intro d
    simp only [demuxRun]
    rw [ih, demuxStep_alive cfg hc]

end IpcHub.Depack
