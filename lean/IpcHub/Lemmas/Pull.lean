/-
C20 — machine-checked properties of the RTSP pull-client model (Model/Pull.lean) against the
observation-level specification (Spec/Pull.lean).  Every theorem quantifies over an ARBITRARY
camera script, configuration and (where relevant) source facts.  Core Lean only.
-/
import IpcHub.Spec.Pull
namespace IpcHub.Pull
open IpcHub.PullSpec

/-- the facts of the corrected source -/
def good : Facts := ⟨true, true, true, true, true⟩

/-- a request as the camera (the harness) classifies it -/
def seen (q : Req) : SeenReq :=
  { method := q.method, auth := q.auth,
    cred := if q.auth = .none then .none else if q.md5 then .md5 else .plain }

/-! ### the script is consumed one response per request -/

theorem nextResp_drop (script : List Resp) (k : Nat) :
    nextResp (script.drop k) = (respAt script k, script.drop (k + 1)) := by
  induction script generalizing k with
  | nil => simp [nextResp, respAt]
  | cons r rs ih =>
    cases k with
    | zero => simp [nextResp, respAt]
    | succ k => simpa [respAt] using ih k

theorem validChallenge_some {r : Resp} {a : Auth} (h : validChallenge r = some a) :
    a ≠ .none ∧ isSuccess r = false := by
  unfold validChallenge at h
  split at h
  · cases h; simp [isSuccess]
  · cases h; simp [isSuccess]
  · cases h

/-- how one response ends a `requestWithResponse` -/
def StepRel (f : Facts) (last : Resp) (st : Step) : Prop :=
  (∀ c', st = .ok c' → isSuccess last = true) ∧
  ((∀ c', st ≠ .ok c') → isSuccess last = false) ∧
  (st = .hang → f.handshakeDeadline = false) ∧
  (f.handshakeDeadline = true → st ≠ .hang)

/-- structural description of one `requestWithResponse` issued when `k` requests were already sent -/
inductive Seg (f : Facts) (u : Bool) (script : List Resp) (k : Nat) (c : Client) (m : Method) :
    Step × List Req × List Resp → Prop
  | one (st : Step)
      (hch : u = true → validChallenge (respAt script k) = none)
      (hst : StepRel f (respAt script k) st)
      (hc : ∀ c', st = .ok c' → c'.realm = c.realm) :
      Seg f u script k c m (st, [newRequest c m], script.drop (k + 1))
  | two (st : Step) (a1 : Auth)
      (hu : u = true)
      (h0 : validChallenge (respAt script k) = some a1)
      (hst : StepRel f (respAt script (k + 1)) st) :
      Seg f u script k c m
        (st, [newRequest c m, { newRequest c m with auth := a1, md5 := false }], script.drop (k + 2))
  | three (st : Step) (a1 a2 : Auth)
      (hu : u = true)
      (h0 : validChallenge (respAt script k) = some a1)
      (h1 : validChallenge (respAt script (k + 1)) = some a2)
      (hst : StepRel f (respAt script (k + 2)) st) :
      Seg f u script k c m
        (st, [newRequest c m, { newRequest c m with auth := a1, md5 := false },
              { newRequest c m with auth := a2, md5 := true }], script.drop (k + 3))

theorem recv_ok {f : Facts} {r : Resp} {b : Bool} {code : Nat} {chal : Chal} {sess : Sess}
    (h : recv f r b = .ok (code, chal, sess)) : r = .status code chal sess := by
  cases r <;> simp_all [recv]

theorem recv_err {f : Facts} {r : Resp} {b : Bool} {e : Step} (h : recv f r b = .error e) :
    StepRel f r e ∧ validChallenge r = none ∧ ∀ c', e ≠ .ok c' := by
  cases r <;> simp [recv] at h <;> subst h <;>
    simp [StepRel, isSuccess, validChallenge]
  cases f.handshakeDeadline <;> simp

theorem challenge_some {c c' : Client} {chal : Chal} {a : Auth} (s : Sess)
    (h : challenge c chal = some (c', a)) : validChallenge (.status 401 chal s) = some a := by
  cases chal <;> simp [challenge] at h <;> simp [validChallenge, h]

theorem challenge_none {c : Client} {chal : Chal} (code : Nat) (s : Sess)
    (h : challenge c chal = none) : validChallenge (.status code chal s) = none := by
  cases chal <;> simp [challenge] at h <;> simp [validChallenge]

theorem validChallenge_ne401 {code : Nat} (chal : Chal) (s : Sess) (h : code ≠ 401) :
    validChallenge (.status code chal s) = none := by
  unfold validChallenge
  split <;> simp_all

theorem stepRel_ok (f : Facts) {code : Nat} (chal : Chal) (s : Sess) (c : Client)
    (h : 200 ≤ code ∧ code ≤ 300) : StepRel f (.status code chal s) (.ok c) := by
  simp [StepRel, isSuccess, h]

theorem stepRel_fail (f : Facts) {code : Nat} (chal : Chal) (s : Sess)
    (h : ¬ (200 ≤ code ∧ code ≤ 300)) : StepRel f (.status code chal s) .fail := by
  simp [StepRel, isSuccess, h]

theorem rwr_seg (f : Facts) (u : Bool) (c : Client) (m : Method) (script : List Resp) (k : Nat) :
    Seg f u script k c m (requestWithResponse f u c m (script.drop k)) := by
  unfold requestWithResponse
  simp only [nextResp_drop, Nat.add_assoc, Nat.reduceAdd]
  split
  · next e h0 =>
    have := recv_err h0
    exact Seg.one _ (fun _ => this.2.1) this.1 (fun c' hc => absurd hc (this.2.2 c'))
  · next code0 chal0 sess0 h0 =>
    have e0 := recv_ok h0
    split
    · next h401 =>
      subst h401
      have hf : StepRel f (respAt script k) .fail := by
        rw [e0]; exact stepRel_fail f _ _ (by omega)
      split
      · next hu => exact Seg.one _ (by simp_all) hf (by simp)
      · next hu =>
        have hu' : u = true := by simpa using hu
        split
        · next hc =>
          exact Seg.one _ (fun _ => by rw [e0]; exact challenge_none _ _ hc) hf (by simp)
        · next c1 a1 hc =>
          have v0 : validChallenge (respAt script k) = some a1 := by
            rw [e0]; exact challenge_some _ hc
          split
          · next e h1 => exact Seg.two _ _ hu' v0 (recv_err h1).1
          · next code1 chal1 sess1 h1 =>
            have e1 := recv_ok h1
            split
            · next h401 =>
              subst h401
              split
              · next hc1 =>
                exact Seg.two _ _ hu' v0 (by rw [e1]; exact stepRel_fail f _ _ (by omega))
              · next c2 a2 hc1 =>
                have v1 : validChallenge (respAt script (k + 1)) = some a2 := by
                  rw [e1]; exact challenge_some _ hc1
                split
                · next e h2 => exact Seg.three _ _ _ hu' v0 v1 (recv_err h2).1
                · next code2 chal2 sess2 h2 =>
                  have e2 := recv_ok h2
                  split
                  · next h =>
                    exact Seg.three _ _ _ hu' v0 v1 (by rw [e2]; exact stepRel_ok f _ _ _ h)
                  · next h =>
                    exact Seg.three _ _ _ hu' v0 v1 (by rw [e2]; exact stepRel_fail f _ _ h)
            · next hne =>
              split
              · next h => exact Seg.two _ _ hu' v0 (by rw [e1]; exact stepRel_ok f _ _ _ h)
              · next h => exact Seg.two _ _ hu' v0 (by rw [e1]; exact stepRel_fail f _ _ h)
    · next hne =>
      have hv : u = true → validChallenge (respAt script k) = none := fun _ => by
        rw [e0]; exact validChallenge_ne401 _ _ hne
      split
      · next h =>
        exact Seg.one _ hv (by rw [e0]; exact stepRel_ok f _ _ _ h)
          (by intro c' hc; cases hc; rfl)
      · next h => exact Seg.one _ hv (by rw [e0]; exact stepRel_fail f _ _ h) (by simp)

/-! ### offset versions of the specification's list predicates -/

def succFrom (script : List Resp) (k : Nat) (l : List SeenReq) : List Method :=
  ((l.zipIdx k).filter (fun p => isSuccess (respAt script p.2))).map (·.1.method)

theorem succeeded_eq (script : List Resp) (l : List SeenReq) :
    succeeded script l = succFrom script 0 l := rfl

theorem succFrom_nil (script : List Resp) (k : Nat) : succFrom script k [] = [] := rfl

theorem succFrom_cons (script : List Resp) (k : Nat) (r : SeenReq) (l : List SeenReq) :
    succFrom script k (r :: l) =
      (if isSuccess (respAt script k) then [r.method] else []) ++ succFrom script (k + 1) l := by
  simp only [succFrom, List.zipIdx_cons, List.filter_cons]
  split <;> simp

theorem succFrom_append (script : List Resp) (k : Nat) (a b : List SeenReq) :
    succFrom script k (a ++ b) = succFrom script k a ++ succFrom script (k + a.length) b := by
  induction a generalizing k with
  | nil => simp [succFrom_nil]
  | cons r a ih =>
    simp only [List.cons_append, succFrom_cons, ih, List.append_assoc, List.length_cons]
    congr 3; omega

def credP (script : List Resp) (p : SeenReq × Nat) : Bool :=
  match p.1.auth with
  | .none => p.1.cred == .none
  | _ => (p.1.cred == .plain || p.1.cred == .md5) && challengedBefore script p.2

def credsFrom (script : List Resp) (k : Nat) (l : List SeenReq) : Bool :=
  (l.zipIdx k).all (credP script)

theorem credsOk_eq (script : List Resp) (l : List SeenReq) :
    credsOk script l = credsFrom script 0 l := rfl

theorem credsFrom_cons (script : List Resp) (k : Nat) (r : SeenReq) (l : List SeenReq) :
    credsFrom script k (r :: l) = (credP script (r, k) && credsFrom script (k + 1) l) := by
  simp [credsFrom, List.zipIdx_cons]

theorem credsFrom_append (script : List Resp) (k : Nat) (a b : List SeenReq) :
    credsFrom script k (a ++ b) = (credsFrom script k a && credsFrom script (k + a.length) b) := by
  induction a generalizing k with
  | nil => simp [credsFrom]
  | cons r a ih =>
    simp only [List.cons_append, credsFrom_cons, ih, List.length_cons, Bool.and_assoc]
    congr 3; omega

theorem challengedBefore_iff (script : List Resp) (j : Nat) :
    challengedBefore script j = true ↔
      ∃ i, i < j ∧ (validChallenge (respAt script i)).isSome = true := by
  simp [challengedBefore, List.any_eq_true]

theorem challengedBefore_mono {script : List Resp} {j j' : Nat} (h : j ≤ j')
    (hc : challengedBefore script j = true) : challengedBefore script j' = true := by
  rw [challengedBefore_iff] at *
  obtain ⟨i, hi, hv⟩ := hc
  exact ⟨i, by omega, hv⟩

theorem challengedBefore_of {script : List Resp} {i j : Nat} {a : Auth} (h : i < j)
    (hv : validChallenge (respAt script i) = some a) : challengedBefore script j = true := by
  rw [challengedBefore_iff]
  exact ⟨i, h, by simp [hv]⟩

/-- pointwise form of `challengeAnswered` for a list placed at offset `k` of the exchange -/
def ChalAt (u : Bool) (script : List Resp) (l : List SeenReq) (k : Nat) : Prop :=
  ∀ i r scheme, l[i]? = some r → validChallenge (respAt script (k + i)) = some scheme → u = true →
    (∃ r', l[i + 1]? = some r' ∧ r'.method = r.method ∧ r'.auth = scheme ∧ r'.cred = .plain) ∨
    (∃ i' p, i = i' + 1 ∧ l[i']? = some p ∧ p.method = r.method ∧
      isSuccess (respAt script (k + i')) = false)

theorem chalAt_nil (u : Bool) (script : List Resp) (k : Nat) : ChalAt u script [] k := by
  intro i r scheme hi; simp at hi

theorem chalAt_append {u : Bool} {script : List Resp} {a b : List SeenReq} {k : Nat}
    (ha : ChalAt u script a k) (hb : ChalAt u script b (k + a.length)) :
    ChalAt u script (a ++ b) k := by
  intro i r scheme hi hv hu
  by_cases hlt : i < a.length
  · rw [List.getElem?_append_left hlt] at hi
    rcases ha i r scheme hi hv hu with ⟨r', h1, h2⟩ | ⟨i', p, h1, h2, h3⟩
    · left
      refine ⟨r', ?_, h2⟩
      have : i + 1 < a.length := by
        rcases Nat.lt_or_ge (i + 1) a.length with h | h
        · exact h
        · rw [List.getElem?_eq_none h] at h1; cases h1
      rw [List.getElem?_append_left this]; exact h1
    · right
      refine ⟨i', p, h1, ?_, h3⟩
      rw [List.getElem?_append_left (by omega)]; exact h2
  · have hge : a.length ≤ i := Nat.le_of_not_lt hlt
    rw [List.getElem?_append_right hge] at hi
    have hv' : validChallenge (respAt script (k + a.length + (i - a.length))) = some scheme := by
      have : k + a.length + (i - a.length) = k + i := by omega
      rw [this]; exact hv
    rcases hb (i - a.length) r scheme hi hv' hu with ⟨r', h1, h2⟩ | ⟨i', p, h1, h2, h3, h4⟩
    · left
      refine ⟨r', ?_, h2⟩
      rw [List.getElem?_append_right (by omega)]
      have : i + 1 - a.length = i - a.length + 1 := by omega
      rw [this]; exact h1
    · right
      refine ⟨i' + a.length, p, by omega, ?_, h3, ?_⟩
      · rw [List.getElem?_append_right (by omega)]
        have : i' + a.length - a.length = i' := by omega
        rw [this]; exact h2
      · have : k + (i' + a.length) = k + a.length + i' := by omega
        rw [this]; exact h4

theorem chalAt_one {u : Bool} {script : List Resp} {k : Nat} (a : SeenReq)
    (h : u = true → validChallenge (respAt script k) = none) : ChalAt u script [a] k := by
  intro i r scheme hi hv hu
  cases i with
  | zero => rw [Nat.add_zero, h hu] at hv; cases hv
  | succ i => simp at hi

theorem chalAt_two {u : Bool} {script : List Resp} {k : Nat} (a b : SeenReq)
    (h0 : validChallenge (respAt script k) = some b.auth) (hb : b.cred = .plain)
    (hm : b.method = a.method) : ChalAt u script [a, b] k := by
  intro i r scheme hi hv hu
  match i with
  | 0 =>
    left
    rw [Nat.add_zero, h0] at hv
    simp at hi hv
    subst hi
    exact ⟨b, by simp, hm, hv, hb⟩
  | 1 =>
    right
    simp at hi
    subst hi
    exact ⟨0, a, rfl, by simp, hm.symm, (validChallenge_some h0).2⟩
  | i + 2 => simp at hi

theorem chalAt_three {u : Bool} {script : List Resp} {k : Nat} (a b c : SeenReq)
    (h0 : validChallenge (respAt script k) = some b.auth) (hb : b.cred = .plain)
    (hm : b.method = a.method) (hm' : c.method = b.method)
    (h1 : isSuccess (respAt script (k + 1)) = false) : ChalAt u script [a, b, c] k := by
  intro i r scheme hi hv hu
  match i with
  | 0 =>
    left
    rw [Nat.add_zero, h0] at hv
    simp at hi hv
    subst hi
    exact ⟨b, by simp, hm, hv, hb⟩
  | 1 =>
    right
    simp at hi
    subst hi
    exact ⟨0, a, rfl, by simp, hm.symm, (validChallenge_some h0).2⟩
  | 2 =>
    right
    simp at hi
    subst hi
    exact ⟨1, b, rfl, by simp, hm'.symm, h1⟩
  | i + 3 => simp at hi

theorem challengeAnswered_of_chalAt {cfg : Cfg} {script : List Resp} {l : List SeenReq}
    (h : ChalAt cfg.hasUser script l 0) : challengeAnswered cfg script l = true := by
  unfold challengeAnswered
  rw [List.all_eq_true]
  rintro ⟨r, j⟩ hmem
  have hj : l[j]? = some r := by
    simpa [List.mem_zipIdx_iff_getElem?] using hmem
  dsimp only
  split
  · next scheme hv =>
    split
    · next hcond =>
      rw [Bool.and_eq_true] at hcond
      rcases h j r scheme hj (by simpa using hv) hcond.1 with ⟨r', h1, h2, h3, h4⟩ | ⟨i', p, h1, h2, h3, h4⟩
      · rw [h1]; simp [h2, h3, h4]
      · exfalso
        subst h1
        have hcond2 := hcond.2
        have hg : l.getD (i' + 1 - 1) r = p := by
          simp [List.getD, h2]
        rw [hg] at hcond2
        simp at h4
        simp [h3, h4] at hcond2
    · rfl
  · rfl

/-! ### the invariant of a trace of requests -/

/-- what holds of the requests `q` sent while `k` requests had been sent before -/
structure TrAt (u : Bool) (script : List Resp) (k : Nat) (q : List Req) (done : List Method) : Prop where
  succ : succFrom script k (q.map seen) = done
  creds : credsFrom script k (q.map seen) = true
  chal : ChalAt u script (q.map seen) k
  noauth : u = false → ∀ r ∈ q, r.auth = .none

theorem trAt_nil (u : Bool) (script : List Resp) (k : Nat) : TrAt u script k [] [] :=
  ⟨rfl, rfl, chalAt_nil _ _ _, by simp⟩

theorem trAt_append {u : Bool} {script : List Resp} {k : Nat} {a b : List Req} {d1 d2 : List Method}
    (ha : TrAt u script k a d1) (hb : TrAt u script (k + a.length) b d2) :
    TrAt u script k (a ++ b) (d1 ++ d2) := by
  refine ⟨?_, ?_, ?_, ?_⟩
  · rw [List.map_append, succFrom_append, ha.succ, List.length_map, hb.succ]
  · rw [List.map_append, credsFrom_append, ha.creds, List.length_map, hb.creds]; rfl
  · rw [List.map_append]
    exact chalAt_append ha.chal (by rw [List.length_map]; exact hb.chal)
  · intro hu r hr
    rcases List.mem_append.mp hr with h | h
    · exact ha.noauth hu r h
    · exact hb.noauth hu r h

/-- the client's authentication state is justified by the exchange so far -/
def CInv (u : Bool) (script : List Resp) (k : Nat) (c : Client) : Prop :=
  (c.realm = true → challengedBefore script k = true) ∧ (u = false → c.realm = false)

theorem cinv_init (u : Bool) (script : List Resp) : CInv u script 0 Client.init := by
  simp [CInv, Client.init]

def okList (st : Step) (m : Method) : List Method :=
  match st with
  | .ok _ => [m]
  | _ => []

theorem seen_newRequest_cred (script : List Resp) (k : Nat) (c : Client) (m : Method) (u : Bool)
    (hc : CInv u script k c) : credP script (seen (newRequest c m), k) = true := by
  rcases c with ⟨realm, nonce, md5, sess⟩
  cases realm
  · simp [credP, seen, newRequest]
  · have := hc.1 rfl
    cases nonce <;> cases md5 <;> simp [credP, seen, newRequest, this]

theorem succ_of_stepRel {f : Facts} {r : Resp} {st : Step} (h : StepRel f r st) (m : Method) :
    (if isSuccess r = true then [m] else []) = okList st m := by
  cases st with
  | ok c => simp [okList, h.1 c rfl]
  | fail => simp [okList, h.2.1 (by simp)]
  | hang => simp [okList, h.2.1 (by simp)]

theorem seg_tr {f : Facts} {u : Bool} {script : List Resp} {k : Nat} {c : Client} {m : Method}
    {st : Step} {q : List Req} {s : List Resp}
    (hseg : Seg f u script k c m (st, q, s)) (hc : CInv u script k c) :
    TrAt u script k q (okList st m) ∧ s = script.drop (k + q.length) ∧
      1 ≤ q.length ∧ q.length ≤ 3 ∧ (∀ r ∈ q, r.method = m) ∧
      (∀ c', st = .ok c' → CInv u script (k + q.length) c') ∧
      ((∀ c', st ≠ .ok c') → isSuccess (respAt script (k + q.length - 1)) = false) ∧
      (st = .hang → f.handshakeDeadline = false) := by
  cases hseg with
  | one _ hch hst hcr =>
    refine ⟨⟨?_, ?_, ?_, ?_⟩, rfl, by simp, by simp, by simp [newRequest], ?_, ?_, hst.2.2.1⟩
    · simp only [List.map_cons, List.map_nil, succFrom_cons, succFrom_nil, List.append_nil]
      simpa [seen, newRequest] using succ_of_stepRel hst m
    · simp only [List.map_cons, List.map_nil, credsFrom_cons, Bool.and_eq_true]
      exact ⟨seen_newRequest_cred script k c m u hc, rfl⟩
    · exact chalAt_one _ hch
    · intro hu r hr
      simp at hr; subst hr
      simp [newRequest, hc.2 hu]
    · intro c' hc'
      refine ⟨fun h => ?_, fun h => ?_⟩
      · rw [hcr c' hc'] at h
        exact challengedBefore_mono (by omega) (hc.1 h)
      · rw [hcr c' hc']; exact hc.2 h
    · intro h; simpa using hst.2.1 h
  | two _ a1 hu h0 hst =>
    have ha1 := (validChallenge_some h0).1
    have hcb : challengedBefore script (k + 1) = true := challengedBefore_of (by omega) h0
    refine ⟨⟨?_, ?_, ?_, ?_⟩, rfl, by simp, by simp, by simp [newRequest], ?_, ?_, hst.2.2.1⟩
    · simp only [List.map_cons, List.map_nil, succFrom_cons, succFrom_nil, List.append_nil,
        (validChallenge_some h0).2]
      simpa [seen, newRequest] using succ_of_stepRel hst m
    · simp only [List.map_cons, List.map_nil, credsFrom_cons, Bool.and_eq_true]
      refine ⟨seen_newRequest_cred script k c m u hc, ?_, rfl⟩
      cases a1 <;> simp_all [credP, seen]
    · exact chalAt_two _ _ (by simpa [seen] using h0) (by simp [seen, ha1]) (by simp [seen])
    · intro hu'; rw [hu] at hu'; cases hu'
    · intro c' _
      exact ⟨fun _ => challengedBefore_of (by simp) h0, fun h => by rw [hu] at h; cases h⟩
    · intro h; simpa using hst.2.1 h
  | three _ a1 a2 hu h0 h1 hst =>
    have ha1 := (validChallenge_some h0).1
    have ha2 := (validChallenge_some h1).1
    have hcb : challengedBefore script (k + 1) = true := challengedBefore_of (by omega) h0
    have hcb2 : challengedBefore script (k + 1 + 1) = true := challengedBefore_of (by omega) h0
    refine ⟨⟨?_, ?_, ?_, ?_⟩, rfl, by simp, by simp, by simp [newRequest], ?_, ?_, hst.2.2.1⟩
    · simp only [List.map_cons, List.map_nil, succFrom_cons, succFrom_nil, List.append_nil,
        (validChallenge_some h0).2, (validChallenge_some h1).2]
      simpa [seen, newRequest] using succ_of_stepRel hst m
    · simp only [List.map_cons, List.map_nil, credsFrom_cons, Bool.and_eq_true]
      refine ⟨seen_newRequest_cred script k c m u hc, ?_, ?_, rfl⟩
      · cases a1 <;> simp_all [credP, seen]
      · cases a2 <;> simp_all [credP, seen]
    · exact chalAt_three _ _ _ (by simpa [seen] using h0) (by simp [seen, ha1]) (by simp [seen])
        (by simp [seen]) (validChallenge_some h1).2
    · intro hu'; rw [hu] at hu'; cases hu'
    · intro c' _
      exact ⟨fun _ => challengedBefore_of (by simp) h0, fun h => by rw [hu] at h; cases h⟩
    · intro h; simpa using hst.2.1 h

/-! ### the chain of requests made by `openPull` -/

/-- state of the handshake after the requests `q`, all steps so far successful -/
structure St (u : Bool) (script : List Resp) (c : Client) (q : List Req) (done : List Method) : Prop where
  tr : TrAt u script 0 q done
  len : q.length ≤ 3 * done.length
  cinv : CInv u script q.length c

theorem st_init (u : Bool) (script : List Resp) : St u script Client.init [] [] :=
  ⟨trAt_nil _ _ _, by simp, cinv_init _ _⟩

theorem st_step {f : Facts} {u : Bool} {script : List Resp} {c : Client} {q : List Req}
    {done : List Method} {m : Method} {s s' : List Resp} {st : Step} {q' : List Req}
    (hS : St u script c q done) (hs : s = script.drop q.length)
    (hr : requestWithResponse f u c m s = (st, q', s')) :
    TrAt u script 0 (q ++ q') (done ++ okList st m) ∧ s' = script.drop (q ++ q').length ∧
    (q ++ q').length ≤ 3 * (done.length + 1) ∧
    (∀ c', st = .ok c' → St u script c' (q ++ q') (done ++ [m])) ∧
    ((∀ c', st ≠ .ok c') →
      q ++ q' ≠ [] ∧ isSuccess (respAt script ((q ++ q').length - 1)) = false) ∧
    (st = .hang → f.handshakeDeadline = false) := by
  have hseg := rwr_seg f u c m script q.length
  rw [← hs, hr] at hseg
  obtain ⟨h1, h2, h3, h4, _, h6, h7, h8⟩ := seg_tr hseg hS.cinv
  have htr : TrAt u script 0 (q ++ q') (done ++ okList st m) :=
    trAt_append hS.tr (by simpa using h1)
  have hlen : (q ++ q').length ≤ 3 * (done.length + 1) := by
    have := hS.len; simp only [List.length_append]; omega
  refine ⟨htr, by simpa using h2, hlen, ?_, ?_, h8⟩
  · intro c' hc'
    subst hc'
    refine ⟨by simpa [okList] using htr, by simpa using hlen, ?_⟩
    simpa using h6 c' rfl
  · intro hne
    refine ⟨?_, ?_⟩
    · intro h
      have := congrArg List.length h
      simp only [List.length_append, List.length_nil] at this
      omega
    · simpa using h7 hne

theorem isPrefix_length {a b : List Method} (h : isPrefix a b = true) : a.length ≤ b.length := by
  induction a generalizing b with
  | nil => simp
  | cons x a ih =>
    cases b with
    | nil => simp [isPrefix] at h
    | cons y b =>
      simp only [isPrefix, Bool.and_eq_true] at h
      have := ih h.2
      simp only [List.length_cons]; omega

theorem isPrefix_append_left {a c b : List Method} (h : isPrefix (a ++ c) b = true) :
    isPrefix a b = true := by
  induction a generalizing b with
  | nil => simp [isPrefix]
  | cons x a ih =>
    cases b with
    | nil => simp [isPrefix] at h
    | cons y b =>
      simp only [List.cons_append, isPrefix, Bool.and_eq_true] at h ⊢
      exact ⟨h.1, ih h.2⟩

theorem isPrefix_refl (a : List Method) : isPrefix a a = true := by
  induction a with
  | nil => rfl
  | cons x a ih => simp [isPrefix, ih]

theorem needed_length (cfg : Cfg) : (needed cfg).length = 3 + tracksOf cfg.sdp := by
  cases h : cfg.sdp with
  | tracks v a b => cases v <;> cases a <;> simp [needed, setupsOf, tracksOf, h]
  | bad => simp [needed, setupsOf, tracksOf, h]
  | noFormat => simp [needed, setupsOf, tracksOf, h]

/-- the SDP cannot be used for a SETUP -/
def unusable : Sdp → Bool
  | .tracks _ _ _ => false
  | _ => true

/-- why an `Open` that reached the camera may end without a stream -/
def Reason (f : Facts) (cfg : Cfg) (script : List Resp) (reqs : List Req) (done : List Method) : Prop :=
  (unusable cfg.sdp = true ∧ done = [.options, .describe]) ∨
  (reqs ≠ [] ∧ isSuccess (respAt script (reqs.length - 1)) = false) ∨
  f.setupUrlSafe = false

/-- effects of a failed Open that reached the camera: dial and close — or, when the stream is built
    before PLAY is sent, dial, stream, close (the stream is dropped unclosed) -/
def EffFail (f : Facts) (e : List Effect) : Prop :=
  e = [.dial, .closeConn] ∨ (f.streamAfterPlay = false ∧ e = [.dial, .newStream, .closeConn])

def EffHang (f : Facts) (e : List Effect) : Prop :=
  e = [.dial] ∨ (f.streamAfterPlay = false ∧ e = [.dial, .newStream])

/-- everything the theorems below need to know about a result of `openPull` -/
def OpenInv (f : Facts) (cfg : Cfg) (script : List Resp) (r : OpenResult) : Prop :=
  r.rest = script.drop r.reqs.length ∧ r.reqs.length ≤ 3 * (3 + tracksOf cfg.sdp) ∧
  ∃ done, TrAt cfg.hasUser script 0 r.reqs done ∧ isPrefix done (needed cfg) = true ∧
    match r.outcome with
    | .stream => done = needed cfg ∧ r.effects = [.dial, .newStream] ∧ cfg.listens = true
    | .notFound =>
      (cfg.listens = false ∧ r.effects = [] ∧ r.reqs = []) ∨
      (cfg.listens = true ∧ EffFail f r.effects ∧ Reason f cfg script r.reqs done)
    | .hang => EffHang f r.effects ∧ f.handshakeDeadline = false
    | .panic => r.effects = [.dial] ∧ f.openRecovers = false ∧
        (f.formatGuard = false ∨ f.setupUrlSafe = false)

theorem inv_finish {f : Facts} {cfg : Cfg} {script : List Resp} {c : Client} {q : List Req}
    {done : List Method} {m : Method} {s s' : List Resp} {st : Step} {q' : List Req}
    (hl : cfg.listens = true)
    (hS : St cfg.hasUser script c q done) (hs : s = script.drop q.length)
    (hr : requestWithResponse f cfg.hasUser c m s = (st, q', s'))
    (hnot : ∀ c', st ≠ .ok c') (hpre : isPrefix (done ++ [m]) (needed cfg) = true) :
    OpenInv f cfg script (finish f st (q ++ q') s') := by
  obtain ⟨h1, h2, h3, _, h5, h6⟩ := st_step hS hs hr
  have hlen : (q ++ q').length ≤ 3 * (3 + tracksOf cfg.sdp) := by
    have := isPrefix_length hpre
    rw [needed_length] at this
    simp only [List.length_append, List.length_cons, List.length_nil] at this h3 ⊢
    omega
  have hdone : okList st m = [] := by
    cases st with
    | ok c' => exact absurd rfl (hnot c')
    | fail => rfl
    | hang => rfl
  rw [hdone, List.append_nil] at h1
  have hp := isPrefix_append_left hpre
  cases st with
  | ok c' => exact absurd rfl (hnot c')
  | fail =>
    exact ⟨h2, hlen, done, h1, hp, Or.inr ⟨hl, Or.inl rfl, Or.inr (Or.inl (h5 hnot))⟩⟩
  | hang =>
    exact ⟨h2, hlen, done, h1, hp, Or.inl rfl, h6 rfl⟩

theorem inv_finish_early {f : Facts} {cfg : Cfg} {script : List Resp} {c : Client} {q : List Req}
    {done : List Method} {m : Method} {s s' : List Resp} {st : Step} {q' : List Req}
    (hl : cfg.listens = true) (hearly : f.streamAfterPlay = false)
    (hS : St cfg.hasUser script c q done) (hs : s = script.drop q.length)
    (hr : requestWithResponse f cfg.hasUser c m s = (st, q', s'))
    (hnot : ∀ c', st ≠ .ok c') (hpre : isPrefix (done ++ [m]) (needed cfg) = true) :
    OpenInv f cfg script (finishEarlyStream st (q ++ q') s') := by
  obtain ⟨h1, h2, h3, _, h5, h6⟩ := st_step hS hs hr
  have hlen : (q ++ q').length ≤ 3 * (3 + tracksOf cfg.sdp) := by
    have := isPrefix_length hpre
    rw [needed_length] at this
    simp only [List.length_append, List.length_cons, List.length_nil] at this h3 ⊢
    omega
  have hdone : okList st m = [] := by
    cases st with
    | ok c' => exact absurd rfl (hnot c')
    | fail => rfl
    | hang => rfl
  rw [hdone, List.append_nil] at h1
  have hp := isPrefix_append_left hpre
  cases st with
  | ok c' => exact absurd rfl (hnot c')
  | fail =>
    exact ⟨h2, hlen, done, h1, hp, Or.inr ⟨hl, Or.inr ⟨hearly, rfl⟩, Or.inr (Or.inl (h5 hnot))⟩⟩
  | hang =>
    exact ⟨h2, hlen, done, h1, hp, Or.inr ⟨hearly, rfl⟩, h6 rfl⟩

theorem st_len {cfg : Cfg} {u : Bool} {script : List Resp} {c : Client} {q : List Req}
    {done : List Method} (hS : St u script c q done) (hp : isPrefix done (needed cfg) = true) :
    q.length ≤ 3 * (3 + tracksOf cfg.sdp) := by
  have := isPrefix_length hp
  rw [needed_length] at this
  have := hS.len
  omega

theorem inv_fail {f : Facts} {cfg : Cfg} {script : List Resp} {c : Client} {q : List Req}
    {done : List Method} {s : List Resp}
    (hl : cfg.listens = true)
    (hS : St cfg.hasUser script c q done) (hs : s = script.drop q.length)
    (hp : isPrefix done (needed cfg) = true)
    (hreason : Reason f cfg script q done) :
    OpenInv f cfg script (finish f .fail q s) :=
  ⟨hs, st_len hS hp, done, hS.tr, hp, Or.inr ⟨hl, Or.inl rfl, hreason⟩⟩

theorem inv_panic {f : Facts} {cfg : Cfg} {script : List Resp} {c : Client} {q : List Req}
    {done : List Method} {s : List Resp}
    (hl : cfg.listens = true)
    (hS : St cfg.hasUser script c q done) (hs : s = script.drop q.length)
    (hp : isPrefix done (needed cfg) = true)
    (hreason : Reason f cfg script q done)
    (hwhy : f.formatGuard = false ∨ f.setupUrlSafe = false) :
    OpenInv f cfg script (panicResult f q s) := by
  unfold panicResult
  cases hrec : f.openRecovers
  · exact ⟨hs, st_len hS hp, done, hS.tr, hp, rfl, hrec, hwhy⟩
  · exact ⟨hs, st_len hS hp, done, hS.tr, hp, Or.inr ⟨hl, Or.inl rfl, hreason⟩⟩

theorem setup_stage {f : Facts} {cfg : Cfg} {script : List Resp} {c : Client} {q : List Req}
    {done : List Method} {s : List Resp} (w ab aud : Bool)
    (hS : St cfg.hasUser script c q done) (hs : s = script.drop q.length) :
    (setupStep f cfg w ab aud c s = .error () ∧ f.setupUrlSafe = false) ∨
    (∃ c' q' s', setupStep f cfg w ab aud c s = .ok (.ok c', q', s') ∧
      St cfg.hasUser script c' (q ++ q') (done ++ (if w then [.setup aud] else [])) ∧
      s' = script.drop (q ++ q').length) ∨
    (∃ st q' s', setupStep f cfg w ab aud c s = .ok (st, q', s') ∧ (∀ c', st ≠ .ok c') ∧ w = true ∧
      requestWithResponse f cfg.hasUser c (.setup aud) s = (st, q', s')) := by
  unfold setupStep
  cases w
  · right; left
    exact ⟨c, [], s, by simp, by simpa using hS, by simpa using hs⟩
  · by_cases hcond : (!ab && !cfg.urlPath && !f.setupUrlSafe) = true
    · left
      simp only [Bool.not_true, Bool.false_eq_true, if_false, hcond, if_true, true_and]
      simp only [Bool.and_eq_true, Bool.not_eq_true'] at hcond
      exact hcond.2
    · right
      simp only [Bool.not_true, Bool.false_eq_true, if_false, hcond]
      rcases hr : requestWithResponse f cfg.hasUser c (.setup aud) s with ⟨st, q', s'⟩
      obtain ⟨_, h2, _, h4, _, _⟩ := st_step hS hs hr
      cases st with
      | ok c' => left; exact ⟨c', q', s', rfl, by simpa using h4 c' rfl, h2⟩
      | fail => right; exact ⟨.fail, q', s', rfl, by simp, trivial, rfl⟩
      | hang => right; exact ⟨.hang, q', s', rfl, by simp, trivial, rfl⟩

theorem openPull_inv (f : Facts) (cfg : Cfg) (script : List Resp) :
    OpenInv f cfg script (openPull f cfg script) := by
  unfold openPull
  cases hl : cfg.listens
  · simp only [Bool.not_false, if_true]
    exact ⟨rfl, by simp, [], trAt_nil _ _ _, rfl, Or.inl ⟨hl, rfl, rfl⟩⟩
  · simp only [Bool.not_true, Bool.false_eq_true, if_false]
    have S0 := st_init cfg.hasUser script
    have hs0 : script = script.drop ([] : List Req).length := rfl
    rcases hr0 : requestWithResponse f cfg.hasUser Client.init .options script with ⟨st0, q0, s0⟩
    have hp0 : isPrefix ([] ++ [Method.options]) (needed cfg) = true := by simp [needed, isPrefix]
    obtain ⟨_, hs1, _, hS1, _, _⟩ := st_step S0 hs0 hr0
    simp only [List.nil_append] at hs1 hS1
    cases st0 with
    | fail => simpa using inv_finish hl S0 hs0 hr0 (by simp) hp0
    | hang => simpa using inv_finish hl S0 hs0 hr0 (by simp) hp0
    | ok c0 =>
      dsimp only
      have S1 := hS1 c0 rfl
      rcases hr1 : requestWithResponse f cfg.hasUser c0 .describe s0 with ⟨st1, q1, s1⟩
      have hp1 : isPrefix ([Method.options] ++ [Method.describe]) (needed cfg) = true := by
        simp [needed, isPrefix]
      obtain ⟨_, hs2, _, hS2, _, _⟩ := st_step S1 hs1 hr1
      cases st1 with
      | fail => exact inv_finish hl S1 hs1 hr1 (by simp) hp1
      | hang => exact inv_finish hl S1 hs1 hr1 (by simp) hp1
      | ok c1 =>
        dsimp only
        have S2 := hS2 c1 rfl
        cases hsdp : cfg.sdp with
        | bad =>
          dsimp only
          exact inv_fail hl S2 hs2 hp1 (Or.inl ⟨by simp [hsdp, unusable], rfl⟩)
        | noFormat =>
          dsimp only
          have hre : Reason f cfg script (q0 ++ q1) ([Method.options] ++ [Method.describe]) :=
            Or.inl ⟨by simp [hsdp, unusable], rfl⟩
          cases hfg : f.formatGuard
          · exact inv_panic hl S2 hs2 hp1 hre (Or.inl hfg)
          · exact inv_fail hl S2 hs2 hp1 hre
        | tracks v a ab =>
          dsimp only
          rcases setup_stage (f := f) v ab false S2 hs2 with ⟨hx, hsafe⟩ | ⟨c2, q2, s2, hx, S3, hs3⟩ |
              ⟨st2, q2, s2, hx, hnot, hw, hr2⟩
          · rw [hx]
            exact inv_panic hl S2 hs2 hp1 (Or.inr (Or.inr hsafe)) (Or.inr hsafe)
          · rw [hx]; dsimp only
            have hp2 : isPrefix ([Method.options] ++ [Method.describe] ++
                (if v = true then [Method.setup false] else [])) (needed cfg) = true := by
              cases v <;> cases a <;> simp [needed, setupsOf, hsdp, tracksOf, isPrefix]
            rcases setup_stage (f := f) a ab true S3 hs3 with ⟨hy, hsafe⟩ | ⟨c3, q3, s3, hy, S4, hs4⟩ |
                ⟨st3, q3, s3, hy, hnot, hw, hr3⟩
            · rw [hy]
              exact inv_panic hl S3 hs3 hp2 (Or.inr (Or.inr hsafe)) (Or.inr hsafe)
            · rw [hy]; dsimp only
              have hnd : [Method.options] ++ [Method.describe] ++
                  (if v = true then [Method.setup false] else []) ++
                  (if a = true then [Method.setup true] else []) ++ [Method.play] =
                  needed cfg := by
                cases v <;> cases a <;> simp [needed, setupsOf, hsdp, tracksOf]
              rcases hr4 : requestWithResponse f cfg.hasUser c3 .play s3 with ⟨st4, q4, s4⟩
              have hp4 : isPrefix ([Method.options] ++ [Method.describe] ++
                  (if v = true then [Method.setup false] else []) ++
                  (if a = true then [Method.setup true] else []) ++ [Method.play])
                  (needed cfg) = true := by rw [hnd]; exact isPrefix_refl _
              obtain ⟨_, hs5, _, hS5, _, _⟩ := st_step S4 hs4 hr4
              cases st4 with
              | fail =>
                cases hearly : f.streamAfterPlay
                · simpa [hearly] using inv_finish_early hl hearly S4 hs4 hr4 (by simp) hp4
                · simpa [hearly] using inv_finish hl S4 hs4 hr4 (by simp) hp4
              | hang =>
                cases hearly : f.streamAfterPlay
                · simpa [hearly] using inv_finish_early hl hearly S4 hs4 hr4 (by simp) hp4
                · simpa [hearly] using inv_finish hl S4 hs4 hr4 (by simp) hp4
              | ok c4 =>
                dsimp only
                have S5 := hS5 c4 rfl
                rw [hnd] at S5
                exact ⟨hs5, st_len S5 (isPrefix_refl _), needed cfg, S5.tr, isPrefix_refl _,
                  rfl, rfl, hl⟩
            · rw [hy]
              have hp3 : isPrefix ([Method.options] ++ [Method.describe] ++
                  (if v = true then [Method.setup false] else []) ++ [Method.setup true])
                  (needed cfg) = true := by
                subst hw
                cases v <;> simp [needed, setupsOf, hsdp, tracksOf, isPrefix]
              cases st3 with
              | ok c => exact absurd rfl (hnot c)
              | fail => exact inv_finish hl S3 hs3 hr3 (by simp) hp3
              | hang => exact inv_finish hl S3 hs3 hr3 (by simp) hp3
          · rw [hx]
            have hp2 : isPrefix ([Method.options] ++ [Method.describe] ++ [Method.setup false])
                (needed cfg) = true := by
              subst hw
              cases a <;> simp [needed, setupsOf, hsdp, tracksOf, isPrefix]
            cases st2 with
            | ok c => exact absurd rfl (hnot c)
            | fail => exact inv_finish hl S2 hs2 hr2 (by simp) hp2
            | hang => exact inv_finish hl S2 hs2 hr2 (by simp) hp2

/-! ## P1 — bounded -/

/-- one `requestWithResponse` sends between one and three requests, all of the requested
    method, and consumes exactly one camera response per request -/
theorem requestWithResponse_bounded (f : Facts) (u : Bool) (c : Client) (m : Method)
    (script : List Resp) :
    1 ≤ (requestWithResponse f u c m script).2.1.length ∧
    (requestWithResponse f u c m script).2.1.length ≤ 3 ∧
    (∀ q ∈ (requestWithResponse f u c m script).2.1, q.method = m) ∧
    (requestWithResponse f u c m script).2.2 =
      script.drop (requestWithResponse f u c m script).2.1.length := by
  have h := rwr_seg f u c m script 0
  simp only [List.drop_zero] at h
  generalize requestWithResponse f u c m script = x at h
  cases h <;> simp [newRequest]

/-- the `j`-th request of a `requestWithResponse` issued after `k` earlier requests is answered by
    `respAt script (k + j)`: all answers but the last are valid challenges (and the URL carries
    credentials), and the step succeeds exactly if the last answer is a success -/
theorem requestWithResponse_answers (f : Facts) (u : Bool) (c : Client) (m : Method)
    (script : List Resp) (k : Nat) :
    let res := requestWithResponse f u c m (script.drop k)
    (∀ j, j + 1 < res.2.1.length →
      u = true ∧ (validChallenge (respAt script (k + j))).isSome = true) ∧
    ((∃ c', res.1 = .ok c') ↔ isSuccess (respAt script (k + res.2.1.length - 1)) = true) ∧
    res.2.2 = script.drop (k + res.2.1.length) := by
  intro res
  have h := rwr_seg f u c m script k
  have hres : res = requestWithResponse f u c m (script.drop k) := rfl
  rw [← hres] at h
  generalize res = x at h
  have key : ∀ (st : Step) (r : Resp), StepRel f r st →
      ((∃ c', st = .ok c') ↔ isSuccess r = true) := by
    intro st r hst
    constructor
    · rintro ⟨c', rfl⟩; exact hst.1 c' rfl
    · intro hs
      cases st with
      | ok c' => exact ⟨c', rfl⟩
      | fail => have := hst.2.1 (by simp); simp [hs] at this
      | hang => have := hst.2.1 (by simp); simp [hs] at this
  cases h with
  | one st hch hst hc =>
    refine ⟨by simp, by simpa using key st _ hst, rfl⟩
  | two st a1 hu h0 hst =>
    refine ⟨?_, by simpa using key st _ hst, rfl⟩
    intro j hj
    have : j = 0 := by simp at hj; omega
    subst this; simp [hu, h0]
  | three st a1 a2 hu h0 h1 hst =>
    refine ⟨?_, by simpa using key st _ hst, rfl⟩
    intro j hj
    have : j = 0 ∨ j = 1 := by simp at hj; omega
    rcases this with rfl | rfl <;> simp [hu, h0, h1]

theorem tracksOf_le (s : Sdp) : tracksOf s ≤ 2 := by
  cases s with
  | tracks v a b => cases v <;> cases a <;> simp [tracksOf]
  | bad => simp [tracksOf]
  | noFormat => simp [tracksOf]

theorem openPull_bounded (f : Facts) (cfg : Cfg) (script : List Resp) :
    (openPull f cfg script).reqs.length ≤ 3 * (3 + tracksOf cfg.sdp) ∧
    (openPull f cfg script).reqs.length ≤ 15 := by
  have h := (openPull_inv f cfg script).2.1
  have := tracksOf_le cfg.sdp
  exact ⟨h, by omega⟩

/-- the script is consumed one response per request sent -/
theorem openPull_rest (f : Facts) (cfg : Cfg) (script : List Resp) :
    (openPull f cfg script).rest = script.drop (openPull f cfg script).reqs.length :=
  (openPull_inv f cfg script).1

/-! ## P2 — no hang, no panic -/

theorem openPull_no_hang (f : Facts) (cfg : Cfg) (script : List Resp)
    (hf : f.handshakeDeadline = true) : (openPull f cfg script).outcome ≠ .hang := by
  obtain ⟨_, _, done, _, _, h⟩ := openPull_inv f cfg script
  intro ho
  rw [ho] at h
  simp [hf] at h

theorem openPull_no_panic (f : Facts) (cfg : Cfg) (script : List Resp)
    (hf : f.openRecovers = true) : (openPull f cfg script).outcome ≠ .panic := by
  obtain ⟨_, _, done, _, _, h⟩ := openPull_inv f cfg script
  intro ho
  rw [ho] at h
  simp [hf] at h

/-- a panic needs one of the two indexing defects -/
theorem openPull_panic_cause (f : Facts) (cfg : Cfg) (script : List Resp)
    (ho : (openPull f cfg script).outcome = .panic) :
    f.openRecovers = false ∧ (f.formatGuard = false ∨ f.setupUrlSafe = false) := by
  obtain ⟨_, _, done, _, _, h⟩ := openPull_inv f cfg script
  rw [ho] at h
  exact h.2

theorem openPull_good_outcome (cfg : Cfg) (script : List Resp) :
    (openPull good cfg script).outcome = .stream ∨ (openPull good cfg script).outcome = .notFound := by
  have h1 := openPull_no_hang good cfg script rfl
  have h2 := openPull_no_panic good cfg script rfl
  cases h : (openPull good cfg script).outcome <;> simp_all

/-! ## P3 — effects: failure cleanup, success, hang -/

theorem openPull_notFound_effects (f : Facts) (cfg : Cfg) (script : List Resp)
    (ho : (openPull f cfg script).outcome = .notFound) :
    (cfg.listens = true ∧ EffFail f (openPull f cfg script).effects) ∨
    (cfg.listens = false ∧ (openPull f cfg script).effects = [] ∧
      (openPull f cfg script).reqs = []) := by
  obtain ⟨_, _, done, _, _, h⟩ := openPull_inv f cfg script
  rw [ho] at h
  rcases h with h | h
  · exact Or.inr h
  · exact Or.inl ⟨h.1, h.2.1⟩

theorem openPull_stream_effects (f : Facts) (cfg : Cfg) (script : List Resp)
    (ho : (openPull f cfg script).outcome = .stream) :
    (openPull f cfg script).effects = [.dial, .newStream] ∧ cfg.listens = true := by
  obtain ⟨_, _, done, _, _, h⟩ := openPull_inv f cfg script
  rw [ho] at h
  exact h.2

theorem openPull_hang_effects (f : Facts) (cfg : Cfg) (script : List Resp)
    (ho : (openPull f cfg script).outcome = .hang) :
    EffHang f (openPull f cfg script).effects ∧ f.handshakeDeadline = false := by
  obtain ⟨_, _, done, _, _, h⟩ := openPull_inv f cfg script
  rw [ho] at h
  exact h

theorem openPull_panic_effects (f : Facts) (cfg : Cfg) (script : List Resp)
    (ho : (openPull f cfg script).outcome = .panic) :
    (openPull f cfg script).effects = [.dial] := by
  obtain ⟨_, _, done, _, _, h⟩ := openPull_inv f cfg script
  rw [ho] at h
  exact h.1

/-! ## P4 — success means a complete, ordered handshake; failure a prefix of one -/

theorem openPull_stream_complete (f : Facts) (cfg : Cfg) (script : List Resp)
    (ho : (openPull f cfg script).outcome = .stream) :
    succeeded script ((openPull f cfg script).reqs.map seen) = needed cfg := by
  obtain ⟨_, _, done, htr, _, h⟩ := openPull_inv f cfg script
  rw [ho] at h
  rw [succeeded_eq, htr.succ, h.1]

/-- whatever the outcome, the successfully answered requests are a prefix of the handshake -/
theorem openPull_prefix (f : Facts) (cfg : Cfg) (script : List Resp) :
    isPrefix (succeeded script ((openPull f cfg script).reqs.map seen)) (needed cfg) = true := by
  obtain ⟨_, _, done, htr, hp, _⟩ := openPull_inv f cfg script
  rw [succeeded_eq, htr.succ]; exact hp

/-! ## P5 — credentials -/

theorem openPull_no_user_no_auth (f : Facts) (cfg : Cfg) (script : List Resp)
    (hu : cfg.hasUser = false) : ∀ q ∈ (openPull f cfg script).reqs, q.auth = .none := by
  obtain ⟨_, _, done, htr, _, _⟩ := openPull_inv f cfg script
  exact htr.noauth hu

theorem openPull_credsOk (f : Facts) (cfg : Cfg) (script : List Resp) :
    credsOk script ((openPull f cfg script).reqs.map seen) = true := by
  obtain ⟨_, _, done, htr, _, _⟩ := openPull_inv f cfg script
  rw [credsOk_eq]; exact htr.creds

theorem openPull_challengeAnswered (f : Facts) (cfg : Cfg) (script : List Resp) :
    challengeAnswered cfg script ((openPull f cfg script).reqs.map seen) = true := by
  obtain ⟨_, _, done, htr, _, _⟩ := openPull_inv f cfg script
  exact challengeAnswered_of_chalAt htr.chal

/-! ## P6 — the model with the good facts satisfies the specification: failed opens -/

/-- the world after Open, starting from nothing -/
def worldAfterOpen (r : OpenResult) : World := r.effects.foldl applyOpen World.init

/-- what the harness observes of an `Open` that did not produce a stream: everything but `cclosed` /
    `cseqOk` is computed from the model's requests and effects (the world they leave), and `afresh` from
    a second request made in that world -/
def obsOfFail (f : Facts) (cfg : Cfg) (script : List Resp) : Obs :=
  let r := openPull f cfg script
  let w := worldAfterOpen r
  let again := getOrCreate f cfg script [] w
  { out := r.outcome, dialled := decide (w.dials ≠ 0), reqs := r.reqs.map seen,
    closed := r.effects.contains .closeConn, reg := w.registered, sent := 0, delivered := 0,
    clean := !w.registered && decide (w.conns = 0), cclosed := false, regAfter := w.registered,
    cseqOk := true, leak := decide (w.counter ≠ 0 ∨ w.streams ≠ 0),
    afresh := decide (again.2 = r.outcome ∧ again.1.dials = w.dials + (if cfg.listens then 1 else 0)) }

/-- the client gives up only with a reason (needs only the `setupUrlSafe` fact) -/
theorem openPull_hasReason (f : Facts) (cfg : Cfg) (script : List Resp)
    (hsafe : f.setupUrlSafe = true) (ho : (openPull f cfg script).outcome = .notFound) :
    hasReason cfg script (obsOfFail f cfg script) = true := by
  have hreqs : (obsOfFail f cfg script).reqs = (openPull f cfg script).reqs.map seen := rfl
  obtain ⟨_, _, done, htr, _, h⟩ := openPull_inv f cfg script
  rw [ho] at h
  unfold hasReason
  rw [hreqs]
  generalize openPull f cfg script = r at *
  rcases h with ⟨hl, _, _⟩ | ⟨hl, _, hre⟩
  · simp [hl]
  · rcases hre with ⟨hun, hd⟩ | ⟨hne, hlast⟩ | hs
    · have : succeeded script (r.reqs.map seen) = [.options, .describe] := by
        rw [succeeded_eq, htr.succ, hd]
      simp only [this]
      cases hsdp : cfg.sdp <;> simp [hsdp, unusable] at hun ⊢
    · simp only [List.length_map]
      cases hn : r.reqs.length with
      | zero => exact absurd (List.length_eq_zero_iff.mp hn) hne
      | succ n =>
        rw [hn] at hlast
        simp at hlast
        simp [hlast]
    · rw [hsafe] at hs; cases hs

theorem seen_not_misaddressed (l : List Req) : (l.map seen).any (·.misaddressed) = false := by
  induction l with
  | nil => rfl
  | cons a l ih => simp [seen] at ih ⊢

/-- in a world where nothing is registered, a request whose Open fails leaves what Open's effects leave -/
theorem getOrCreate_fail {f : Facts} {cfg : Cfg} {script : List Resp} (evs : List PlayEv) {w : World}
    (hw : w.registered = false) (ho : (openPull f cfg script).outcome = .notFound) :
    getOrCreate f cfg script evs w = ((openPull f cfg script).effects.foldl applyOpen w, .notFound) := by
  unfold getOrCreate
  simp [hw, ho]

theorem verdict_fail (f : Facts) (cfg : Cfg) (script : List Resp)
    (hsafe : f.setupUrlSafe = true) (hsap : f.streamAfterPlay = true)
    (ho : (openPull f cfg script).outcome = .notFound) :
    verdict cfg script (obsOfFail f cfg script) = "ok" := by
  have h1 := openPull_credsOk f cfg script
  have h2 := openPull_challengeAnswered f cfg script
  have h3 := openPull_prefix f cfg script
  have h4 := openPull_hasReason f cfg script hsafe ho
  have h5 := openPull_notFound_effects f cfg script ho
  have e1 : (obsOfFail f cfg script).reqs = (openPull f cfg script).reqs.map seen := rfl
  have e2 : (obsOfFail f cfg script).out = .notFound := ho
  have hrest : (obsOfFail f cfg script).leak = false ∧ (obsOfFail f cfg script).afresh = true ∧
      ((obsOfFail f cfg script).dialled && !(obsOfFail f cfg script).closed) = false ∧
      (obsOfFail f cfg script).reg = false ∧ (obsOfFail f cfg script).regAfter = false ∧
      (obsOfFail f cfg script).cseqOk = true := by
    rcases h5 with ⟨hl, heff⟩ | ⟨hl, heff, _⟩
    · have heff' : (openPull f cfg script).effects = [.dial, .closeConn] := by
        rcases heff with h | ⟨h, _⟩
        · exact h
        · rw [hsap] at h; cases h
      have hw0 : worldAfterOpen (openPull f cfg script) = ⟨0, false, 0, 0, 1⟩ := by
        simp [worldAfterOpen, heff', applyOpen, World.init]
      have hg := getOrCreate_fail (f := f) (cfg := cfg) (script := script) [] (w := ⟨0, false, 0, 0, 1⟩) rfl ho
      simp only [heff', List.foldl_cons, List.foldl_nil, applyOpen] at hg
      simp [obsOfFail, hw0, hg, heff', ho, hl]
    · have hw0 : worldAfterOpen (openPull f cfg script) = ⟨0, false, 0, 0, 0⟩ := by
        simp [worldAfterOpen, heff, World.init]
      have hg := getOrCreate_fail (f := f) (cfg := cfg) (script := script) [] (w := ⟨0, false, 0, 0, 0⟩) rfl ho
      simp only [heff, List.foldl_nil] at hg
      simp [obsOfFail, hw0, hg, heff, ho, hl]
  obtain ⟨r1, r2, r3, r4, r5, r6⟩ := hrest
  unfold verdict
  rw [e2, r1, r6, e1, seen_not_misaddressed, h1, h2, h3, r3, r4, r5, h4, r2]
  simp

/-- P6 (failure): with the good facts every failed open is acceptable to the specification -/
theorem verdict_fail_good (cfg : Cfg) (script : List Resp)
    (ho : (openPull good cfg script).outcome = .notFound) :
    verdict cfg script (obsOfFail good cfg script) = "ok" :=
  verdict_fail good cfg script rfl rfl ho

/-! ## P7 — the play phase -/

def terminal : PlayEv → Bool
  | .eof | .reset | .silence | .garbage | .truncated | .closedPacket => true
  | _ => false

/-- number of `.packet` events before the first terminal event -/
def packetsBefore : List PlayEv → Nat
  | [] => 0
  | ev :: evs => if terminal ev then 0 else (if ev = .packet then 1 else 0) + packetsBefore evs

theorem playLoop_none_iff (evs : List PlayEv) (due : Bool) (acc : List PlayEffect) :
    playLoop evs due acc = none ↔ ∀ e ∈ evs, terminal e = false := by
  induction evs generalizing due acc with
  | nil => simp [playLoop]
  | cons ev evs ih =>
    cases ev <;> simp [playLoop, terminal, ih]

theorem playLoop_some {evs : List PlayEv} {due : Bool} {acc eff : List PlayEffect}
    (h : playLoop evs due acc = some eff) :
    ∃ mid, eff = acc ++ mid ∧ (∀ e ∈ mid, e = .deliver ∨ e = .keepAlive) ∧
      (mid.filter (· = .deliver)).length = packetsBefore evs := by
  induction evs generalizing due acc with
  | nil => simp [playLoop] at h
  | cons ev evs ih =>
    cases ev with
    | packet =>
      simp only [playLoop] at h
      obtain ⟨mid, h1, h2, h3⟩ := ih h
      cases due
      · refine ⟨[.deliver] ++ mid, by simpa using h1, ?_, ?_⟩
        · intro e he; simp at he; rcases he with rfl | he
          · simp
          · exact h2 e he
        · simp [packetsBefore, terminal, h3]; omega
      · refine ⟨[.deliver, .keepAlive] ++ mid, by simpa using h1, ?_, ?_⟩
        · intro e he; simp at he; rcases he with rfl | rfl | he
          · simp
          · simp
          · exact h2 e he
        · simp [packetsBefore, terminal, h3]; omega
    | request =>
      simp only [playLoop] at h
      obtain ⟨mid, h1, h2, h3⟩ := ih h
      cases due
      · exact ⟨mid, by simpa using h1, h2, by simp [packetsBefore, terminal, h3]⟩
      · refine ⟨[.keepAlive] ++ mid, by simpa using h1, ?_, ?_⟩
        · intro e he; simp at he; rcases he with rfl | he
          · simp
          · exact h2 e he
        · simp [packetsBefore, terminal, h3]
    | response =>
      simp only [playLoop] at h
      obtain ⟨mid, h1, h2, h3⟩ := ih h
      cases due
      · exact ⟨mid, by simpa using h1, h2, by simp [packetsBefore, terminal, h3]⟩
      · refine ⟨[.keepAlive] ++ mid, by simpa using h1, ?_, ?_⟩
        · intro e he; simp at he; rcases he with rfl | he
          · simp
          · exact h2 e he
        · simp [packetsBefore, terminal, h3]
    | idle =>
      simp only [playLoop] at h
      obtain ⟨mid, h1, h2, h3⟩ := ih h
      exact ⟨mid, h1, h2, by simp [packetsBefore, terminal, h3]⟩
    | eof | reset | silence | garbage | truncated | closedPacket =>
      simp only [playLoop, Option.some.injEq] at h
      exact ⟨[], by simp [h], by simp, by simp [packetsBefore, terminal]⟩

/-- the play goroutine runs for ever exactly if the camera never ends the stream -/
theorem playStream_none_iff (evs : List PlayEv) :
    playStream evs = none ↔ ∀ e ∈ evs, terminal e = false := by
  unfold playStream
  rw [← playLoop_none_iff evs false [.regist, .connAdd]]
  split <;> simp_all

theorem playStream_isSome_iff (evs : List PlayEv) :
    (playStream evs).isSome = true ↔ ∃ e ∈ evs, terminal e = true := by
  have := playStream_none_iff evs
  cases h : playStream evs with
  | none =>
    have := this.mp h
    simp only [Option.isSome_none, Bool.false_eq_true, false_iff]
    rintro ⟨e, he, ht⟩
    rw [this e he] at ht; cases ht
  | some eff =>
    simp only [Option.isSome_some, true_iff]
    rw [h] at this
    false_or_by_contra
    rename_i hn
    have : ∀ e ∈ evs, terminal e = false := by
      intro e he
      cases ht : terminal e
      · rfl
      · exact absurd ⟨e, he, ht⟩ hn
    simp_all

/-- when the stream ends: register, counter-add, …, release, unregister, close — each once,
    in this order — and every packet that arrived before the end was delivered -/
theorem playStream_some {evs : List PlayEv} {eff : List PlayEffect}
    (h : playStream evs = some eff) :
    ∃ mid, eff = [.regist, .connAdd] ++ mid ++ [.connRelease, .unregist, .closeConn] ∧
      (∀ e ∈ mid, e = .deliver ∨ e = .keepAlive) ∧
      (mid.filter (· = .deliver)).length = packetsBefore evs := by
  unfold playStream at h
  split at h
  · cases h
  · next acc hacc =>
    obtain ⟨mid, h1, h2, h3⟩ := playLoop_some hacc
    simp only [Option.some.injEq] at h
    exact ⟨mid, by rw [← h, h1], h2, h3⟩

theorem count_mid {mid : List PlayEffect} (hmid : ∀ e ∈ mid, e = .deliver ∨ e = .keepAlive)
    (x : PlayEffect) (hx : x ≠ .deliver) (hx' : x ≠ .keepAlive) : mid.count x = 0 := by
  rw [List.count_eq_zero]
  intro hm
  rcases hmid x hm with h | h
  · exact hx h
  · exact hx' h

/-- each of the five bracketing effects happens exactly once -/
theorem playStream_once {evs : List PlayEv} {eff : List PlayEffect}
    (h : playStream evs = some eff) :
    eff.count .regist = 1 ∧ eff.count .connAdd = 1 ∧ eff.count .connRelease = 1 ∧
    eff.count .unregist = 1 ∧ eff.count .closeConn = 1 ∧
    (eff.filter (· = .deliver)).length = packetsBefore evs := by
  obtain ⟨mid, rfl, hmid, hn⟩ := playStream_some h
  have c := count_mid hmid
  refine ⟨?_, ?_, ?_, ?_, ?_, ?_⟩
  · simp [List.count_append, c .regist (by simp) (by simp)]
  · simp [List.count_append, c .connAdd (by simp) (by simp)]
  · simp [List.count_append, c .connRelease (by simp) (by simp)]
  · simp [List.count_append, c .unregist (by simp) (by simp)]
  · simp [List.count_append, c .closeConn (by simp) (by simp)]
  · simpa [List.filter_append] using hn

/-! ## P6 — the model satisfies the specification: successful opens followed by the play phase -/

theorem foldl_applyPlay_mid {mid : List PlayEffect} (hmid : ∀ e ∈ mid, e = .deliver ∨ e = .keepAlive)
    (w : World) : mid.foldl applyPlay w = w := by
  induction mid generalizing w with
  | nil => rfl
  | cons e mid ih =>
    have he := hmid e (by simp)
    have ih' := ih (fun x hx => hmid x (by simp [hx]))
    rcases he with rfl | rfl <;> simpa [applyPlay] using ih' w

/-- the play phase as a whole: registered … unregistered, counted … released, connection closed, the
    stream (built by Open) closed by Unregist — the world is left as it was before the pull, but for
    the number of dials -/
theorem playStream_world {evs : List PlayEv} {eff : List PlayEffect} (h : playStream evs = some eff)
    (w : World) :
    eff.foldl applyPlay w =
      { w with registered := false, conns := w.conns - 1, streams := w.streams - 1 } := by
  obtain ⟨mid, rfl, hmid, _⟩ := playStream_some h
  simp only [List.foldl_append, List.foldl_cons, List.foldl_nil, applyPlay]
  rw [foldl_applyPlay_mid hmid]
  simp

/-- the world after a successful Open and a play phase that ended -/
def worldAfterPlay (r : OpenResult) (eff : List PlayEffect) : World := eff.foldl applyPlay (worldAfterOpen r)

/-- what the harness observes of a successful `Open` whose play goroutine saw the events `evs`
    and had the effects `eff`: registration, connection, counters and leaks are read off the world the
    model's effects leave; `afresh` from a second request made in that world.  (`cclosed`: media.Unregist
    closes the stream and with it its consumers — C05 / C03; `cseqOk` is not modelled.) -/
def obsOfPlay (f : Facts) (cfg : Cfg) (script : List Resp) (evs : List PlayEv) (eff : List PlayEffect) : Obs :=
  let r := openPull f cfg script
  let w := worldAfterPlay r eff
  let again := getOrCreate f cfg script evs w
  { out := r.outcome, dialled := decide (w.dials ≠ 0), reqs := r.reqs.map seen,
    closed := eff.contains .closeConn, reg := eff.contains .regist,
    sent := packetsBefore evs, delivered := (eff.filter (· = .deliver)).length,
    clean := !w.registered && decide (w.conns = 0), cclosed := eff.contains .unregist,
    regAfter := w.registered, cseqOk := true,
    leak := decide (w.counter ≠ 0 ∨ w.streams ≠ 0),
    afresh := decide (again.2 = .stream ∧ again.1.dials = w.dials + 1) }

/-- P6 (success): whatever the facts, a successful open followed by a play phase that ends is
    acceptable to the specification -/
theorem verdict_play (f : Facts) (cfg : Cfg) (script : List Resp) (evs : List PlayEv)
    (eff : List PlayEffect) (ho : (openPull f cfg script).outcome = .stream)
    (hp : playStream evs = some eff) :
    verdict cfg script (obsOfPlay f cfg script evs eff) = "ok" := by
  have h1 := openPull_credsOk f cfg script
  have h2 := openPull_challengeAnswered f cfg script
  have h3 := openPull_stream_complete f cfg script ho
  obtain ⟨c1, c2, c3, c4, c5, c6⟩ := playStream_once hp
  have heff := (openPull_stream_effects f cfg script ho).1
  have m : ∀ x : PlayEffect, eff.count x = 1 → eff.contains x = true := by
    intro x hx
    rw [List.contains_iff_mem]
    exact List.count_pos_iff.mp (by omega)
  have hw : worldAfterPlay (openPull f cfg script) eff = ⟨0, false, 0, 0, 1⟩ := by
    simp [worldAfterPlay, worldAfterOpen, heff, applyOpen, World.init, playStream_world hp]
  have hagain : getOrCreate f cfg script evs ⟨0, false, 0, 0, 1⟩ = (⟨0, false, 0, 0, 2⟩, .stream) := by
    unfold getOrCreate
    simp [ho, hp, heff, applyOpen, playStream_world hp]
  have e1 : (obsOfPlay f cfg script evs eff).reqs = (openPull f cfg script).reqs.map seen := rfl
  have e2 : (obsOfPlay f cfg script evs eff).out = .stream := ho
  have e3 : (obsOfPlay f cfg script evs eff).leak = false := by simp [obsOfPlay, hw]
  have e4 : (obsOfPlay f cfg script evs eff).reg = true := m _ c1
  have e5 : (obsOfPlay f cfg script evs eff).closed = true := m _ c5
  have e6 : (obsOfPlay f cfg script evs eff).clean = true := by simp [obsOfPlay, hw]
  have e7 : (obsOfPlay f cfg script evs eff).delivered = (obsOfPlay f cfg script evs eff).sent := c6
  have e8 : (obsOfPlay f cfg script evs eff).cclosed = true := m _ c4
  have e9 : (obsOfPlay f cfg script evs eff).regAfter = false := by simp [obsOfPlay, hw]
  have e10 : (obsOfPlay f cfg script evs eff).afresh = true := by simp [obsOfPlay, hw, hagain]
  have e11 : (obsOfPlay f cfg script evs eff).cseqOk = true := rfl
  unfold verdict
  rw [e2, e3, e11, e1, seen_not_misaddressed, h1, h2, h3, e4, e7, e5, e8, e9, e6, e10]
  simp

theorem verdict_play_good (cfg : Cfg) (script : List Resp) (evs : List PlayEv)
    (eff : List PlayEffect) (ho : (openPull good cfg script).outcome = .stream)
    (hp : playStream evs = some eff) :
    verdict cfg script (obsOfPlay good cfg script evs eff) = "ok" :=
  verdict_play good cfg script evs eff ho hp

/-- the combined statement: with the good facts, the requester always gets an answer, and what
    the camera and the harness observed is acceptable to the specification -/
theorem good_satisfies_spec (cfg : Cfg) (script : List Resp) :
    ((openPull good cfg script).outcome = .notFound ∧
      verdict cfg script (obsOfFail good cfg script) = "ok") ∨
    ((openPull good cfg script).outcome = .stream ∧
      ∀ evs eff, playStream evs = some eff →
        verdict cfg script (obsOfPlay good cfg script evs eff) = "ok") := by
  rcases openPull_good_outcome cfg script with h | h
  · exact Or.inr ⟨h, fun evs eff hp => verdict_play_good cfg script evs eff h hp⟩
  · exact Or.inl ⟨h, verdict_fail_good cfg script h⟩

/-! ## P9 — a pull that has ended leaves the world as it was: a later request pulls afresh -/

/-- For every world in which nothing is registered under the path, every camera script and every play
    phase that ends: the request ends with the same world but for one more dial (none if nobody
    listens) — nothing registered, no connection, counter and stream count as before — and its outcome
    is the outcome of Open, which is a function of the configuration and the script alone. -/
theorem getOrCreate_ended (cfg : Cfg) (script : List Resp) (evs : List PlayEv) (w : World)
    (hw : w.registered = false) (hend : (playStream evs).isSome = true) :
    getOrCreate good cfg script evs w =
      ({ w with dials := w.dials + (if cfg.listens then 1 else 0) }, (openPull good cfg script).outcome) := by
  obtain ⟨eff, hp⟩ := Option.isSome_iff_exists.mp hend
  rcases w with ⟨conns, registered, counter, streams, dials⟩
  simp only at hw
  subst hw
  rcases openPull_good_outcome cfg script with ho | ho
  · obtain ⟨heff, hl⟩ := openPull_stream_effects good cfg script ho
    unfold getOrCreate
    simp only [ho, hp, heff, hl, List.foldl_cons, List.foldl_nil, applyOpen, playStream_world hp]
    simp
  · rcases openPull_notFound_effects good cfg script ho with ⟨hl, heff⟩ | ⟨hl, heff, _⟩
    · have heff' : (openPull good cfg script).effects = [.dial, .closeConn] := by
        rcases heff with h | ⟨h, _⟩
        · exact h
        · cases h
      unfold getOrCreate
      simp only [ho, heff', hl, List.foldl_cons, List.foldl_nil, applyOpen]
      simp
    · unfold getOrCreate
      simp [ho, heff, hl]

/-! ## P8 — why the facts are needed -/

def cfgVA : Cfg := { hasUser := false, listens := true, urlPath := true, sdp := .tracks true true false }

theorem hang_witness :
    openPull { good with handshakeDeadline := false } cfgVA [.silence] =
      { outcome := .hang, reqs := [⟨.options, .none, false, none⟩], effects := [.dial], rest := [] } := by
  decide

theorem panic_witness :
    openPull { good with openRecovers := false, formatGuard := false }
      { hasUser := false, listens := true, urlPath := true, sdp := .noFormat } [] =
      { outcome := .panic,
        reqs := [⟨.options, .none, false, none⟩, ⟨.describe, .none, false, none⟩],
        effects := [.dial], rest := [] } := by
  decide

/-- without `setupUrlSafe` (but with `openRecovers`) the model gives up without a reason the
    specification accepts: the indexing panic on an empty URL path is turned into an error -/
theorem setupUrl_witness :
    let cfg : Cfg := { hasUser := false, listens := true, urlPath := false, sdp := .tracks true false false }
    let r := openPull { good with setupUrlSafe := false } cfg []
    r.outcome = .notFound ∧ r.effects = [.dial, .closeConn] ∧
      hasReason cfg [] (obsOfFail { good with setupUrlSafe := false } cfg []) = false := by
  decide

/-- when the stream is built before PLAY is sent (`streamAfterPlay = false`) a camera that refuses PLAY
    after a complete DESCRIBE / SETUP leaves a stream behind: the requester gets not-found and the
    connection is closed, but the stream's workers stay -/
theorem earlyStream_witness :
    let f : Facts := { good with streamAfterPlay := false }
    let script : List Resp := [.status 200 .other .none, .status 200 .other .none, .status 200 .other .none,
      .status 200 .other .none, .status 454 .other .none]
    (openPull f cfgVA script).outcome = .notFound ∧
    (openPull f cfgVA script).effects = [.dial, .newStream, .closeConn] ∧
    (worldAfterOpen (openPull f cfgVA script)).streams = 1 ∧
    (obsOfFail f cfgVA script).leak = true := by
  decide

/-- the specification rejects the defective behaviours above -/
theorem defect_verdicts :
    verdict cfgVA [.silence] (obsOfFail { good with handshakeDeadline := false } cfgVA [.silence]) = "requester-hangs" ∧
    verdict { hasUser := false, listens := true, urlPath := true, sdp := .noFormat } []
      (obsOfFail { good with openRecovers := false, formatGuard := false }
        { hasUser := false, listens := true, urlPath := true, sdp := .noFormat } []) =
      "panic-reaches-requester" ∧
    verdict { hasUser := false, listens := true, urlPath := false, sdp := .tracks true false false } []
      (obsOfFail { good with setupUrlSafe := false }
        { hasUser := false, listens := true, urlPath := false, sdp := .tracks true false false } []) =
      "gave-up-without-reason" ∧
    verdict cfgVA [.status 200 .other .none, .status 200 .other .none, .status 200 .other .none,
        .status 200 .other .none, .status 454 .other .none]
      (obsOfFail { good with streamAfterPlay := false } cfgVA
        [.status 200 .other .none, .status 200 .other .none, .status 200 .other .none,
         .status 200 .other .none, .status 454 .other .none]) = "connection-or-goroutine-leak" := by
  refine ⟨rfl, rfl, rfl, rfl⟩

end IpcHub.Pull
