/-
H.265 VPS: round trip of the model against the specification's encoder.
-/
import IpcHub.Lemmas.HevcDecode
namespace IpcHub.Hevc
open IpcHub.Bits IpcHub.BitSyntax IpcHub.HevcSyntax IpcHub.Epb

theorem layerRow_enc (cfg : Cfg) (ok : CfgOK cfg) (row : List Bool) (j : Nat) (r : List Bool) (hj : j + row.length ≤ 63) :
    layerRow cfg row.length j (row ++ r) = .ok (row.map (·.toNat), r) := by
  induction row generalizing j with
  | nil => simp [layerRow]
  | cons b rest ih =>
    simp only [List.length_cons] at hj
    have hlt : ¬ (j ≥ cfg.maxLayers) := by rw [ok.layers]; omega
    have hb : readBit (b :: (rest ++ r)) = .ok (b.toNat, rest ++ r) := rfl
    simp only [List.length_cons, layerRow, List.cons_append, bind_apply, hb, hlt, if_false, ih (j + 1) (by omega),
      pure_apply, List.map_cons]

def wfRows (n : Nat) : List (List Bool) → Prop
  | [] => True
  | row :: rest => row.length = n ∧ wfRows n rest

theorem layerRows_enc (cfg : Cfg) (ok : CfgOK cfg) (mli : Nat) (rows : List (List Bool)) (r : List Bool)
    (hm : mli < 63) (hw : wfRows (mli + 1) rows) :
    layerRows cfg mli rows.length (encLayerSets rows ++ r) = .ok (rows.map (fun row => row.map (·.toNat)), r) := by
  induction rows with
  | nil => simp [layerRows, encLayerSets]
  | cons row rest ih =>
    have h1 := layerRow_enc cfg ok row 0 (encLayerSets rest ++ r) (by rw [hw.1]; omega)
    rw [hw.1] at h1
    simp only [List.length_cons, layerRows, encLayerSets, List.append_assoc, bind_apply, h1, ih hw.2, pure_apply, List.map_cons]

/-- hrd_parameters of the VPS: every entry carries the common information (cprms_present_flag = 1) -/
def wfVpsHrds (msl : Nat) : Nat → List (Nat × Bool × HrdSyn) → Prop
  | _, [] => True
  | i, (idx, cprms, h) :: rest => idx < 65536 ∧ (i > 0 → cprms = true) ∧ HrdWF h msl ∧ wfVpsHrds msl (i + 1) rest

theorem vpsHrdLoop_enc (cfg : Cfg) (ok : CfgOK cfg) (msl : Nat) (hmsl : msl ≤ 6) (l : List (Nat × Bool × HrdSyn)) (i : Nat)
    (r : List Bool) (hw : wfVpsHrds msl i l) :
    vpsHrdLoop cfg msl l.length i (encVpsHrds i l ++ r) = .ok (l.map (fun (idx, _, h) => (idx, 1, hrdOf h)), r) := by
  induction l generalizing i with
  | nil => simp [vpsHrdLoop, encVpsHrds]
  | cons e rest ih =>
    obtain ⟨idx, cprms, h⟩ := e
    obtain ⟨hidx, hc, hh, hr⟩ := hw
    by_cases hi : i > 0
    · have hcp := hc hi
      subst hcp
      have hhrd := hrd_enc cfg ok h msl (encVpsHrds (i + 1) rest ++ r) hh hmsl
      simp [encHrd, encHrdC] at hhrd
      have hi' := ih (i + 1) hr
      simp [vpsHrdLoop, encVpsHrds, hi, readUe16_ue idx _ hidx, readBit_flag, encHrdC, hhrd, hi']
    · have hi0 : i = 0 := by omega
      subst hi0
      have hhrd := hrd_enc cfg ok h msl (encVpsHrds 1 rest ++ r) hh hmsl
      simp [encHrd, encHrdC] at hhrd
      simp [vpsHrdLoop, encVpsHrds, readUe16_ue idx _ hidx, encHrdC, hhrd, ih 1 hr]


structure VpsWF (v : VpsSyn) : Prop where
  layer : v.nuh_layer_id < 64
  tid : 1 ≤ v.nuh_temporal_id_plus1 ∧ v.nuh_temporal_id_plus1 < 8
  vid : v.vps_video_parameter_set_id < 16
  ml : v.vps_max_layers_minus1 < 64
  msl : v.ptl.sub_layers.length ≤ 6
  /-- 7.4.3.1: vps_temporal_id_nesting_flag is 1 when there is a single sub-layer -/
  nest : v.ptl.sub_layers.length = 0 → v.vps_temporal_id_nesting_flag = true
  ordLen : v.ordering.length = (if v.vps_sub_layer_ordering_info_present_flag then v.ptl.sub_layers.length + 1 else 1)
  ord : wfOrdering v.ordering = true
  mli : v.vps_max_layer_id < 63
  nls : v.layer_sets.length < 65535                          -- vps_num_layer_sets_minus1 0 … 1023
  rows : wfRows (v.vps_max_layer_id + 1) v.layer_sets
  nut : v.vps_num_units_in_tick < 2 ^ 32
  ts : v.vps_time_scale < 2 ^ 32
  nt : v.vps_num_ticks_poc_diff_one_minus1 + 1 < 2 ^ 32
  nhrd : v.hrds.length < 65536
  hrds : wfVpsHrds v.ptl.sub_layers.length 0 v.hrds

/-- the arrays a VPS decoder must end up with (same rule as the SPS) -/
def vpsOrderingOf (v : VpsSyn) : List Ordering :=
  if v.vps_sub_layer_ordering_info_present_flag then v.ordering
  else match v.ordering.getLast? with
    | some last => List.replicate v.ptl.sub_layers.length last ++ [last]
    | none => []

/-- the decoded VPS that agrees with the syntax tree (`q` is whatever profile_tier_level decoded to) -/
def vpsOf (v : VpsSyn) (q : Ptl) : RawVps :=
  { nal := { nalUnitType := 32, nuhLayerId := v.nuh_layer_id, nuhTemporalIdPlus1 := v.nuh_temporal_id_plus1 },
    vpsVideoParameterSetId := v.vps_video_parameter_set_id, vpsBaseLayerInternalFlag := v.vps_base_layer_internal_flag.toNat,
    vpsBaseLayerAvailableFlag := v.vps_base_layer_available_flag.toNat, vpsMaxLayersMinus1 := v.vps_max_layers_minus1,
    vpsMaxSubLayersMinus1 := v.ptl.sub_layers.length, vpsTemporalIdNestingFlag := v.vps_temporal_id_nesting_flag.toNat,
    ptl := q, vpsSubLayerOrderingInfoPresentFlag := v.vps_sub_layer_ordering_info_present_flag.toNat,
    ordering := vpsOrderingOf v, vpsMaxLayerId := v.vps_max_layer_id, vpsNumLayerSetsMinus1 := v.layer_sets.length,
    layerIdIncluded := (0 :: List.replicate v.vps_max_layer_id 1) :: v.layer_sets.map (fun row => row.map (·.toNat)),
    vpsTimingInfoPresentFlag := v.vps_timing_info_present_flag.toNat,
    vpsNumUnitsInTick := if v.vps_timing_info_present_flag then v.vps_num_units_in_tick else 0,
    vpsTimeScale := if v.vps_timing_info_present_flag then v.vps_time_scale else 0,
    vpsPocProportionalToTimingFlag := if v.vps_timing_info_present_flag then v.vps_poc_proportional_to_timing_flag.toNat else 0,
    vpsNumTicksPocDiffOneMinus1 := if v.vps_timing_info_present_flag ∧ v.vps_poc_proportional_to_timing_flag
      then v.vps_num_ticks_poc_diff_one_minus1 else 0,
    vpsNumHrdParameters := if v.vps_timing_info_present_flag then v.hrds.length else 0,
    hrds := if v.vps_timing_info_present_flag then v.hrds.map (fun (idx, _, h) => (idx, 1, hrdOf h)) else [],
    vpsExtensionFlag := v.vps_extension_flag.toNat }

theorem vpsOrdering_enc (cfg : Cfg) (ok : CfgOK cfg) (v : VpsSyn) (wf : VpsWF v) (x : List Bool) :
    vpsOrdering cfg v.ptl.sub_layers.length (flag v.vps_sub_layer_ordering_info_present_flag ++ (encOrdering v.ordering ++ x))
      = .ok ((v.vps_sub_layer_ordering_info_present_flag.toNat, vpsOrderingOf v), x) := by
  by_cases hf : v.vps_sub_layer_ordering_info_present_flag = true
  · have hlen := wf.ordLen; simp only [hf, if_true] at hlen
    have hloop := orderingLoop_enc cfg ok v.ordering 0 x wf.ord (by have := wf.msl; omega)
    rw [hlen] at hloop
    simp [vpsOrdering, readBit_flag, hf, hloop, orderingArrays, vpsOrderingOf]
  · have hf' : v.vps_sub_layer_ordering_info_present_flag = false := by simpa using hf
    have hlen := wf.ordLen; simp only [hf', Bool.false_eq_true, if_false] at hlen
    have hloop := orderingLoop_enc cfg ok v.ordering v.ptl.sub_layers.length x wf.ord (by have := wf.msl; omega)
    rw [hlen] at hloop
    have h1 : v.ptl.sub_layers.length + 1 - v.ptl.sub_layers.length = 1 := by omega
    obtain ⟨e, he⟩ : ∃ e, v.ordering = [e] := by
      match hs : v.ordering, hlen with
      | [e], _ => exact ⟨e, rfl⟩
    rw [he] at hloop
    simp [vpsOrdering, readBit_flag, hf', h1, hloop, orderingArrays, vpsOrderingOf, he]

theorem vpsTiming_enc (cfg : Cfg) (ok : CfgOK cfg) (v : VpsSyn) (wf : VpsWF v) (x : List Bool) :
    vpsTiming cfg v.ptl.sub_layers.length (encVpsTiming v ++ x)
      = .ok ((v.vps_timing_info_present_flag.toNat,
              if v.vps_timing_info_present_flag then v.vps_num_units_in_tick else 0,
              if v.vps_timing_info_present_flag then v.vps_time_scale else 0,
              if v.vps_timing_info_present_flag then v.vps_poc_proportional_to_timing_flag.toNat else 0,
              if v.vps_timing_info_present_flag ∧ v.vps_poc_proportional_to_timing_flag then v.vps_num_ticks_poc_diff_one_minus1 else 0,
              if v.vps_timing_info_present_flag then v.hrds.length else 0,
              if v.vps_timing_info_present_flag then v.hrds.map (fun (idx, _, h) => (idx, 1, hrdOf h)) else []), x) := by
  have hh := vpsHrdLoop_enc cfg ok v.ptl.sub_layers.length wf.msl v.hrds 0 x wf.hrds
  cases hf : v.vps_timing_info_present_flag
  · simp [vpsTiming, encVpsTiming, hf, readBit_flag]
  · cases hp : v.vps_poc_proportional_to_timing_flag
    · simp [vpsTiming, encVpsTiming, hf, hp, readBit_flag, readU_u 32 32 _ _ (by omega) wf.nut, readU_u 32 32 _ _ (by omega) wf.ts,
        readUe16_ue _ _ wf.nhrd, hh]
    · simp [vpsTiming, encVpsTiming, hf, hp, readBit_flag, readU_u 32 32 _ _ (by omega) wf.nut, readU_u 32 32 _ _ (by omega) wf.ts,
        readUe_ue _ _ wf.nt, readUe16_ue _ _ wf.nhrd, hh]

theorem vpsBits_enc (cfg : Cfg) (ok : CfgOK cfg) (v : VpsSyn) (wf : VpsWF v) (r : List Bool) :
    ∃ q, vpsBits cfg (nalHeaderBits 32 v.nuh_layer_id v.nuh_temporal_id_plus1 ++ (encVpsData v ++ r)) = .ok (vpsOf v q, r) := by
  have hmsl8 : v.ptl.sub_layers.length < 2 ^ 3 := by have := wf.msl; omega
  obtain ⟨q, hq⟩ := ptl_enc v.ptl (flag v.vps_sub_layer_ordering_info_present_flag ++ (encOrdering v.ordering ++ (u 6 v.vps_max_layer_id ++
    (ue v.layer_sets.length ++ (encLayerSets v.layer_sets ++ (encVpsTiming v ++ (flag v.vps_extension_flag ++ r)))))))
  refine ⟨q, ?_⟩
  have hnest : ¬ (v.ptl.sub_layers.length = 0 ∧ v.vps_temporal_id_nesting_flag.toNat ≠ 1) := by
    intro ⟨h0, h1⟩; rw [wf.nest h0] at h1; exact h1 rfl
  have hskip : ∀ x, skip 16 (u 16 0xffff ++ x) = .ok ((), x) := by
    intro x; have := skip_append (u 16 0xffff) x; simpa using this
  have hmli : ¬ (v.vps_max_layer_id ≥ cfg.maxLayers) := by rw [ok.layers]; have := wf.mli; omega
  have h65 : ¬ (v.layer_sets.length = 65535) := by have := wf.nls; omega
  have hmli6 : v.vps_max_layer_id < 2 ^ 6 := by have := wf.mli; omega
  simp only [vpsBits, encVpsData, List.append_assoc, bind_apply,
    nalHeader_enc 32 _ _ _ (by omega) wf.layer wf.tid.2, ok.vps, ne_eq, not_true_eq_false, if_false,
    readU_u 4 8 _ _ (by omega) wf.vid, readBit_flag, readU_u 6 8 _ _ (by omega) wf.ml, readU_u 3 8 _ _ (by omega) hmsl8,
    hnest, hskip, hq, vpsOrdering_enc cfg ok v wf, readU_u 6 8 _ _ (by omega) hmli6,
    readUe16_ue _ _ (show v.layer_sets.length < 65536 by have := wf.nls; omega), h65,
    layerRows_enc cfg ok v.vps_max_layer_id v.layer_sets _ wf.mli wf.rows, hmli, vpsTiming_enc cfg ok v wf, pure_apply, vpsOf]

theorem decodeVps_enc (cfg : Cfg) (ok : CfgOK cfg) (v : VpsSyn) (wf : VpsWF v) :
    ∃ q, decodeVps cfg (encVpsNal v) = .ok (vpsOf v q) := by
  obtain ⟨b0, b1, hpack, h0, h1⟩ := pack_nalHeader 32 v.nuh_layer_id v.nuh_temporal_id_plus1 (Or.inl rfl) wf.tid
  obtain ⟨q, hq⟩ := vpsBits_enc cfg ok v wf (trailing (encVpsData v).length)
  refine ⟨q, ?_⟩
  unfold decodeVps encVpsNal
  rw [hpack, removeEmulationBytes_nal2 b0 b1 _ h0 h1]
  have h16 : 8 * 2 ≤ (encVpsRbsp v).length := by
    simp only [encVpsRbsp, encVpsData, encPtl, flag, List.length_append, length_u, length_encProfile,
      List.length_cons, List.length_nil]
    omega
  have hlen : ¬ (([b0, b1] ++ pack (encVpsRbsp v)).length < 4) := by
    have := length_pack_ge _ 2 h16
    simp only [List.length_append, List.length_cons, List.length_nil]; omega
  simp only [hlen, if_false]
  rw [← hpack, bitsOfBytes_append, bitsOfBytes_pack _ (by rw [length_nalHeaderBits]),
    bitsOfBytes_pack _ (by unfold encVpsRbsp; exact length_trailing_aligned _)]
  simp only [encVpsRbsp, List.append_assoc] at hq ⊢
  rw [hq]

end IpcHub.Hevc
