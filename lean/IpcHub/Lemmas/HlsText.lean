/-
Lemmas for C10, playlist text: the token the model writes into a segment URI (Go's
url.QueryEscape) is decoded by the specification's reader of query values (`queryValue`, written
from RFC 3986 / the form encoding) to exactly the caller's token.
-/
import IpcHub.Model.Hls
import IpcHub.Spec.HlsOracle
namespace IpcHub.HlsLemmas
open IpcHub.Hls IpcHub.HlsSpec

theorem hexVal_hexUpper : ∀ n < 16, hexVal (hexUpper n) = some n := by decide

theorem queryKeep_raw (c : Char) (h : queryKeep c = true) : queryRaw c = true ∧ c ≠ '%' ∧ c ≠ '+' := by
  refine ⟨?_, ?_, ?_⟩
  · simp only [queryKeep, Bool.or_eq_true, decide_eq_true_eq] at h
    simp only [queryRaw, Bool.or_eq_true]
    rcases h with (((h | h) | h) | h) | h
    · exact Or.inl h
    all_goals (subst h; exact Or.inr (by decide))
  · intro e; subst e; revert h; decide
  · intro e; subst e; revert h; decide

/-- the escaped token reads back as the token: for EVERY token made of bytes (characters below
    256 — Go strings are byte strings) -/
theorem queryValue_escape : ∀ (t : List Char), (∀ c ∈ t, c.toNat < 256) →
    queryValue (queryEscape t) = some t := by
  intro t
  induction t with
  | nil => intro _; simp [queryEscape, queryValue]
  | cons c r ih =>
    intro h
    have ihr := ih (fun x hx => h x (List.mem_cons_of_mem _ hx))
    have hc : c.toNat < 256 := h c (List.mem_cons_self ..)
    unfold queryEscape
    by_cases hk : queryKeep c = true
    · obtain ⟨hraw, hp, hplus⟩ := queryKeep_raw c hk
      simp only [hk, if_true, List.cons_append, List.nil_append]
      unfold queryValue
      simp [hp, hplus, hraw, ihr]
    · simp only [hk]
      by_cases hs : c = ' '
      · subst hs
        simp only [if_true, List.cons_append, List.nil_append]
        unfold queryValue
        simp [ihr]
      · simp only [hs, if_false, List.cons_append, List.nil_append]
        unfold queryValue
        have h1 := hexVal_hexUpper (c.toNat / 16 % 16) (Nat.mod_lt _ (by decide))
        have h2 := hexVal_hexUpper (c.toNat % 16) (Nat.mod_lt _ (by decide))
        have e : c.toNat / 16 % 16 * 16 + c.toNat % 16 = c.toNat := by omega
        simp [h1, h2, ihr, e]

/-- … while the token written raw (the code before fix a77ce75) does not: a token with `&` comes
    back cut short, one with a line break is no URI at all -/
theorem queryValue_raw_counterexample :
    queryValue "a&b".toList = none ∧ queryValue "a b".toList = none ∧ queryValue "50%".toList = none
    ∧ queryValue "a+b".toList = some "a b".toList := by decide

end IpcHub.HlsLemmas
