import IpcHub.Model.FlvCacheM
import IpcHub.Model.Flv
/-!
Composition of the FLV cache replay (media/cache/flvcache.go, Model/FlvCacheM.lean) with the FLV
writer's timestamp rebase (av/format/flv/flv.go, Model/Flv.lean): the joiner's timeline.
-/
namespace IpcHub.FlvCacheM
open IpcHub.Flv

/-- a cached tag as the writer sees it -/
def toTag (t : FTag) : Tag :=
  { tagType := UInt8.ofNat t.tagType, timestamp := UInt32.ofNat t.ts, data := t.data }

/-- the timestamp field the writer puts on the wire for `t`, in writer state `w1` (after `next`) -/
def wireTs (cfg : Cfg) (w1 : Writer) (t : Tag) : UInt32 := t.timestamp - w1.rebase cfg t

/-- the first tag a fresh writer (separate first-tag flag) writes is always stamped 0 -/
theorem first_tag_zero (cfg : Cfg) (hs : cfg.sentinelInit = false) (t : Tag) :
    wireTs cfg (({} : Writer).next cfg t) t = 0 := by
  have hn : (({} : Writer).next cfg t) = { delta := t.timestamp, started := true } := by
    simp [Writer.next, Writer.isFirst, hs]
  rw [hn]
  unfold wireTs Writer.rebase
  by_cases hc : cfg.clampOlder = true <;> simp [hc]

/-- a tag carrying the same timestamp as the writer's first tag is stamped 0 as well -/
theorem same_ts_zero (cfg : Cfg) (d : UInt32) (t : Tag) (h : t.timestamp = d) :
    wireTs cfg { delta := d, started := true } t = 0 := by
  unfold wireTs Writer.rebase
  by_cases hc : cfg.clampOlder = true <;> simp [hc, h]

/-- the joiner's time line (statement and documentation: `c02_flv_timeline_starts_at_zero`) -/
theorem joiner_timeline (cfg : IpcHub.Flv.Cfg) (hs : cfg.sentinelInit = false)
    (gop : Bool) (tags : List IpcHub.FlvCacheM.FTag) :
    let c := IpcHub.FlvCacheM.cacheAfter gop tags
    let w1 : IpcHub.Flv.Writer := { delta := UInt32.ofNat c.initTs, started := true }
    (c.pushTo ≠ [] → ∃ first more, c.pushTo.map IpcHub.FlvCacheM.toTag = first :: more ∧
        IpcHub.Flv.Writer.next cfg {} first = w1) ∧
    (∀ t ∈ c.headers ++ c.gop.head?.toList, IpcHub.FlvCacheM.wireTs cfg w1 (IpcHub.FlvCacheM.toTag t) = 0) ∧
    (∀ live : IpcHub.Flv.Tag, IpcHub.FlvCacheM.wireTs cfg (IpcHub.Flv.Writer.next cfg {} live) live = 0) := by
  intro c w1
  have hts : ∀ t ∈ c.headers ++ c.gop.head?.toList, (IpcHub.FlvCacheM.toTag t).timestamp = UInt32.ofNat c.initTs := by
    intro t ht
    simp only [List.mem_append] at ht
    rcases ht with ht | ht
    · simp only [IpcHub.FlvCacheM.FCache.headers, List.mem_map] at ht
      obtain ⟨t', _, rfl⟩ := ht
      simp [IpcHub.FlvCacheM.toTag, IpcHub.FlvCacheM.restamp]
    · cases hg : c.gop with
      | nil => simp [hg] at ht
      | cons g0 rest =>
        simp only [hg, List.head?_cons, Option.toList_some, List.mem_singleton] at ht
        subst ht
        simp [IpcHub.FlvCacheM.toTag, IpcHub.FlvCacheM.FCache.initTs, hg]
  refine ⟨?_, ?_, ?_⟩
  · -- the first tag handed to the writer is a header or the first GOP tag: both carry initTs
    intro hne
    have hpush : c.pushTo = c.headers ++ c.gop := rfl
    cases hh : c.headers with
    | nil =>
      cases hg : c.gop with
      | nil => exact absurd (by rw [hpush, hh, hg]; rfl) hne
      | cons g0 rest =>
        refine ⟨IpcHub.FlvCacheM.toTag g0, rest.map IpcHub.FlvCacheM.toTag, by simp [hpush, hh, hg], ?_⟩
        have := hts g0 (by simp [hg])
        simp [IpcHub.Flv.Writer.next, IpcHub.Flv.Writer.isFirst, hs, this, w1]
    | cons h0 hrest =>
      refine ⟨IpcHub.FlvCacheM.toTag h0, (hrest ++ c.gop).map IpcHub.FlvCacheM.toTag, by simp [hpush, hh], ?_⟩
      have := hts h0 (by simp [hh])
      simp [IpcHub.Flv.Writer.next, IpcHub.Flv.Writer.isFirst, hs, this, w1]
  · intro t ht
    exact IpcHub.FlvCacheM.same_ts_zero _ _ _ (hts t ht)
  · intro live
    exact IpcHub.FlvCacheM.first_tag_zero cfg hs live

end IpcHub.FlvCacheM
