import IpcHub.Model.FlvCacheM
import IpcHub.Model.Flv
/-!
Composition of the FLV cache replay (media/cache/flvcache.go, Model/FlvCacheM.lean) with the FLV
writer's timestamp rebase (av/format/flv/flv.go, Model/Flv.lean): the joiner's timeline.
-/
namespace IpcHub.FlvCacheM
open IpcHub.Flv

/-- a cached tag as the writer sees it -/
def toTag (t : FTag) : Tag :=
  { tagType := UInt8.ofNat t.tagType, timestamp := UInt32.ofNat t.ts, data := t.data }

/-- the timestamp field the writer puts on the wire for `t`, in writer state `w1` (after `next`) -/
def wireTs (cfg : Cfg) (w1 : Writer) (t : Tag) : UInt32 := t.timestamp - w1.rebase cfg t

/-- the first tag a fresh writer (separate first-tag flag) writes is always stamped 0 -/
theorem first_tag_zero (cfg : Cfg) (hs : cfg.sentinelInit = false) (t : Tag) :
    wireTs cfg (({} : Writer).next cfg t) t = 0 := by
  have hn : (({} : Writer).next cfg t) = { delta := t.timestamp, started := true } := by
    simp [Writer.next, Writer.isFirst, hs]
  rw [hn]
  unfold wireTs Writer.rebase
  by_cases hc : cfg.clampOlder = true <;> simp [hc]

/-- a tag carrying the same timestamp as the writer's first tag is stamped 0 as well -/
theorem same_ts_zero (cfg : Cfg) (d : UInt32) (t : Tag) (h : t.timestamp = d) :
    wireTs cfg { delta := d, started := true } t = 0 := by
  unfold wireTs Writer.rebase
  by_cases hc : cfg.clampOlder = true <;> simp [hc, h]

end IpcHub.FlvCacheM
