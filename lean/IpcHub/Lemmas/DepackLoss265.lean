/-
C06, loss, H.265: the analogue of Lemmas/DepackLoss.lean for the FU depacketizer.
-/
import IpcHub.Lemmas.DepackLoss
namespace IpcHub.DepackLoss
open IpcHub.Depack IpcHub.Packetise IpcHub.DepackBytes IpcHub.DepackRound

theorem length_fuPayloads (h0 h1 : UInt8) : ∀ (ds : List Bytes) (f : Bool), (fuPayloads h0 h1 f ds).length = ds.length := by
  intro ds
  induction ds with
  | nil => intro f; rfl
  | cons d ds ih =>
    intro f
    cases ds with
    | nil => rfl
    | cons d' ds' =>
      have := ih false
      simp only [fuPayloads, List.length_cons] at this ⊢
      omega

theorem nonstart_stale265 (cfg : Cfg) (hc : RoundCfg cfg) (ok : Bytes → Bool) (h0 h1 : UInt8)
    (l' : Bool) (d : Bytes) (st : VSt) (s : UInt16) (ts : UInt32) (mk : Bool) (R : Nat) (hR : 1 ≤ R)
    (hs : Stale st s R) :
    vStep cfg ok .h265 st ⟨s, ts, mk, ((h0 &&& 0x81) ||| 98) :: h1 :: (fuFlags false l' ||| ((h0 >>> (1 : UInt8)) &&& 0x3f)) :: d⟩
      = ⟨{ st with frags := [] }, [], .ok⟩ := by
  have hlen1 : ¬ (((h0 &&& 0x81) ||| 98) :: h1 :: (fuFlags false l' ||| ((h0 >>> (1 : UInt8)) &&& 0x3f)) :: d).length < cfg.h265Min := by
    have := hc.h265Min; simp only [List.length_cons]; omega
  have hlen2 : ¬ (((h0 &&& 0x81) ||| 98) :: h1 :: (fuFlags false l' ||| ((h0 >>> (1 : UInt8)) &&& 0x3f)) :: d).length < cfg.fuMin := by
    have := hc.fuMin; simp only [List.length_cons]; omega
  have hsb : ¬ (((fuFlags false l' ||| ((h0 >>> (1 : UInt8)) &&& 0x3f)) >>> (7 : UInt8)) &&& 1 = 1) := by
    rw [fu_start_bit]; simp
  have h49a : ¬ ((49 : UInt8) = 48) := by decide
  rcases hs with h0' | ⟨l, g, hl, hg, hg1, hgb⟩
  · simp only [vStep, h265Step, hlen1, if_false, fu_ind_type, h49a, if_true, h265Fu, hlen2, hsb, h0', List.getLast?_nil]
  · have hlost : (l.seq != s - 1) = true := by
      simp only [bne_iff_ne, ne_eq]
      exact gap_ne l.seq s g hg hg1 (by omega)
    simp only [vStep, h265Step, hlen1, if_false, fu_ind_type, h49a, if_true, h265Fu, hlen2, hsb, hl, hlost]

theorem cont_step265 (cfg : Cfg) (hc : RoundCfg cfg) (ok : Bytes → Bool) (h0 h1 : UInt8) (d : Bytes)
    (st : VSt) (s : UInt16) (ts : UInt32) (l : Pkt) (hlast : st.frags.getLast? = some l) (hseq : l.seq = s - 1) :
    let p : Pkt := ⟨s, ts, false, ((h0 &&& 0x81) ||| 98) :: h1 :: (fuFlags false false ||| ((h0 >>> (1 : UInt8)) &&& 0x3f)) :: d⟩
    vStep cfg ok .h265 st p = ⟨{ st with frags := st.frags ++ [p] }, [], .ok⟩ := by
  intro p
  have hlen1 : ¬ (((h0 &&& 0x81) ||| 98) :: h1 :: (fuFlags false false ||| ((h0 >>> (1 : UInt8)) &&& 0x3f)) :: d).length < cfg.h265Min := by
    have := hc.h265Min; simp only [List.length_cons]; omega
  have hlen2 : ¬ (((h0 &&& 0x81) ||| 98) :: h1 :: (fuFlags false false ||| ((h0 >>> (1 : UInt8)) &&& 0x3f)) :: d).length < cfg.fuMin := by
    have := hc.fuMin; simp only [List.length_cons]; omega
  have hs : ¬ (((fuFlags false false ||| ((h0 >>> (1 : UInt8)) &&& 0x3f)) >>> (7 : UInt8)) &&& 1 = 1) := by
    rw [fu_start_bit]; simp
  have he : ¬ (((fuFlags false false ||| ((h0 >>> (1 : UInt8)) &&& 0x3f)) >>> (6 : UInt8)) &&& 1 = 1) := by
    rw [fu_end_bit]; simp
  have h49a : ¬ ((49 : UInt8) = 48) := by decide
  simp only [p, vStep, h265Step, hlen1, if_false, fu_ind_type, h49a, if_true, h265Fu, hlen2, hs, hlast, hseq,
    bne_self_eq_false, Bool.false_eq_true, he]

theorem start_step265 (cfg : Cfg) (hc : RoundCfg cfg) (ok : Bytes → Bool) (h0 h1 : UInt8) (d : Bytes)
    (st : VSt) (s : UInt16) (ts : UInt32) :
    let p : Pkt := ⟨s, ts, false, ((h0 &&& 0x81) ||| 98) :: h1 :: (fuFlags true false ||| ((h0 >>> (1 : UInt8)) &&& 0x3f)) :: d⟩
    vStep cfg ok .h265 st p = ⟨{ st with frags := [p] }, [], .ok⟩ := by
  intro p
  have hlen1 : ¬ (((h0 &&& 0x81) ||| 98) :: h1 :: (fuFlags true false ||| ((h0 >>> (1 : UInt8)) &&& 0x3f)) :: d).length < cfg.h265Min := by
    have := hc.h265Min; simp only [List.length_cons]; omega
  have hlen2 : ¬ (((h0 &&& 0x81) ||| 98) :: h1 :: (fuFlags true false ||| ((h0 >>> (1 : UInt8)) &&& 0x3f)) :: d).length < cfg.fuMin := by
    have := hc.fuMin; simp only [List.length_cons]; omega
  have hs : (((fuFlags true false ||| ((h0 >>> (1 : UInt8)) &&& 0x3f)) >>> (7 : UInt8)) &&& 1 = 1) := by
    rw [fu_start_bit]
  have h49a : ¬ ((49 : UInt8) = 48) := by decide
  simp only [p, vStep, h265Step, hlen1, if_false, fu_ind_type, h49a, if_true, h265Fu, hlen2, hs]

/-- the remaining (non-start) fragments of a unit arriving — any subset of them — into a stale
    state: nothing is emitted, the state stays stale for what follows -/
theorem rest_stale265 (cfg : Cfg) (hc : RoundCfg cfg) (ok : Bytes → Bool) (h0 h1 : UInt8)
    (ts : UInt32) (m : Bool) :
    ∀ (ds : List Bytes) (s : UInt16) (st : VSt) (R : Nat) (sa : List Pkt),
      (∀ d ∈ ds, d ≠ []) → st.ready = true → Stale st s R → ds.length ≤ R →
      sa.Sublist (mkPkts ts m s (fuPayloads h0 h1 false ds)) →
      ∃ st', vRun cfg ok .h265 st sa = (st', [], .ok) ∧ Keeps st st' ∧ Stale st' (s + UInt16.ofNat ds.length) (R - ds.length) := by
  intro ds
  induction ds with
  | nil =>
    intro s st R sa _ hr hst _ hsub
    simp only [fuPayloads, mkPkts, List.sublist_nil] at hsub
    subst hsub
    exact ⟨st, rfl, Keeps.refl hr, by simpa using hst⟩
  | cons d ds ih =>
    intro s st R sa hne hr hst hlen hsub
    have hd := hne d (List.mem_cons_self ..)
    have hR : 1 ≤ R := by simp at hlen; omega
    have hne' : ∀ x ∈ ds, x ≠ [] := fun x hx => hne x (List.mem_cons_of_mem _ hx)
    have hs1 : s + 1 + UInt16.ofNat ds.length = s + UInt16.ofNat (ds.length + 1) := by
      have : UInt16.ofNat (ds.length + 1) = UInt16.ofNat ds.length + 1 := by simp [UInt16.ofNat_add]
      grind
    have hR1 : R - 1 - ds.length = R - (ds.length + 1) := by omega
    -- the packets: this fragment, then the rest
    obtain ⟨lastFlag, hpk⟩ : ∃ lf : Bool, ∃ mk : Bool, mkPkts ts m s (fuPayloads h0 h1 false (d :: ds))
        = ⟨s, ts, mk, ((h0 &&& 0x81) ||| 98) :: h1 :: (fuFlags false lf ||| ((h0 >>> (1 : UInt8)) &&& 0x3f)) :: d⟩
          :: mkPkts ts m (s + 1) (fuPayloads h0 h1 false ds) := by
      cases ds with
      | nil => exact ⟨true, m, rfl⟩
      | cons d' ds' =>
        refine ⟨false, false, ?_⟩
        rw [show fuPayloads h0 h1 false (d :: d' :: ds') = (((h0 &&& 0x81) ||| 98) :: h1 :: (fuFlags false false ||| ((h0 >>> (1 : UInt8)) &&& 0x3f)) :: d)
              :: fuPayloads h0 h1 false (d' :: ds') from rfl, mkPkts_cons_ne _ _ _ _ _ (fuPayloads_ne h0 h1 false d' ds')]
    obtain ⟨mk, hpk⟩ := hpk
    rw [hpk] at hsub
    rcases List.sublist_cons_iff.mp hsub with hskip | ⟨r, hr', hsub'⟩
    · -- this fragment is lost
      obtain ⟨st', hrun, hk, hs'⟩ := ih (s + 1) st (R - 1) sa hne' hr (hst.next hR) (by simp at hlen; omega) hskip
      exact ⟨st', hrun, hk, by simpa [hs1, hR1] using hs'⟩
    · -- this fragment arrives: dropped, buffer emptied
      subst hr'
      have hstep := nonstart_stale265 cfg hc ok h0 h1 lastFlag d st s ts mk R hR hst
      obtain ⟨st', hrun, hk, hs'⟩ := ih (s + 1) { st with frags := [] } (R - 1) r hne' hr (Stale.of_nil rfl _ _)
        (by simp at hlen; omega) hsub'
      refine ⟨st', ?_, ⟨hk.ready, hk.base⟩, by simpa [hs1, hR1] using hs'⟩
      rw [vRun_cons_ok cfg ok .h265 st _ r _ _ hstep, hrun]
      simp

/-- the remaining fragments of a unit whose earlier fragments all arrived: the unit is handed on
    iff every remaining fragment arrives too; otherwise nothing, and the state is stale -/
theorem rest_tracking265 (cfg : Cfg) (hc : RoundCfg cfg) (ok : Bytes → Bool) (h0 h1 : UInt8)
    (ts : UInt32) (m : Bool) :
    ∀ (ds : List Bytes) (s : UInt16) (st : VSt) (l : Pkt) (R : Nat) (sa : List Pkt),
      ds ≠ [] → (∀ d ∈ ds, d ≠ []) → st.ready = true → st.frags.getLast? = some l → l.seq = s - 1 →
      ds.length ≤ R → R ≤ 65536 →
      sa.Sublist (mkPkts ts m s (fuPayloads h0 h1 false ds)) →
      ∃ st', vRun cfg ok .h265 st sa
          = (st', if sa = mkPkts ts m s (fuPayloads h0 h1 false ds)
                  then [frameOf st.base (ts, h0 :: h1 :: (fuJoin st.frags ++ ds.flatten))] else [], .ok)
        ∧ Keeps st st' ∧ Stale st' (s + UInt16.ofNat ds.length) (R - ds.length) := by
  intro ds
  induction ds with
  | nil => intro _ _ _ _ _ h0; exact absurd rfl h0
  | cons d ds ih =>
    intro s st l R sa _ hne hr hlast hseq hlen hR64 hsub
    have hd := hne d (List.mem_cons_self ..)
    have hR : 1 ≤ R := by simp at hlen; omega
    have hne' : ∀ x ∈ ds, x ≠ [] := fun x hx => hne x (List.mem_cons_of_mem _ hx)
    have hs1 : s + 1 + UInt16.ofNat ds.length = s + UInt16.ofNat (ds.length + 1) := by
      have : UInt16.ofNat (ds.length + 1) = UInt16.ofNat ds.length + 1 := by simp [UInt16.ofNat_add]
      grind
    have hR1 : R - 1 - ds.length = R - (ds.length + 1) := by omega
    cases ds with
    | nil =>
      -- the end fragment alone
      simp only [fuPayloads, mkPkts] at hsub ⊢
      rcases List.sublist_cons_iff.mp hsub with hskip | ⟨r, hr', hsub'⟩
      · simp only [List.sublist_nil] at hskip
        subst hskip
        refine ⟨st, by simp [vRun], Keeps.refl hr, ?_⟩
        have : Stale st (s + 1) (R - 1) := Or.inr ⟨l, 1, hlast, gap_one l.seq s hseq, by omega, by omega⟩
        simpa using this
      · simp only [List.sublist_nil] at hsub'
        subst hsub'; subst hr'
        obtain ⟨st', hrun, hk, hf⟩ := fu_rest cfg hc ok h0 h1 ts m [d] s st l (by simp) hr hlast hseq
        simp only [fuPayloads, mkPkts] at hrun
        refine ⟨st', ?_, hk, Stale.of_nil hf _ _⟩
        rw [hrun]; simp
    | cons d' ds' =>
      rw [show fuPayloads h0 h1 false (d :: d' :: ds') = (((h0 &&& 0x81) ||| 98) :: h1 :: (fuFlags false false ||| ((h0 >>> (1 : UInt8)) &&& 0x3f)) :: d)
            :: fuPayloads h0 h1 false (d' :: ds') from rfl, mkPkts_cons_ne _ _ _ _ _ (fuPayloads_ne h0 h1 false d' ds')] at hsub ⊢
      rcases List.sublist_cons_iff.mp hsub with hskip | ⟨r, hr', hsub'⟩
      · -- this fragment is lost: the buffer goes stale, the rest is dropped
        have hst : Stale st (s + 1) (R - 1) := Or.inr ⟨l, 1, hlast, gap_one l.seq s hseq, by omega, by omega⟩
        obtain ⟨st', hrun, hk, hs'⟩ := rest_stale265 cfg hc ok h0 h1 ts m (d' :: ds') (s + 1) st (R - 1) sa hne' hr hst
          (by simp at hlen ⊢; omega) hskip
        have hneq : sa ≠ ⟨s, ts, false, ((h0 &&& 0x81) ||| 98) :: h1 :: (fuFlags false false ||| ((h0 >>> (1 : UInt8)) &&& 0x3f)) :: d⟩
            :: mkPkts ts m (s + 1) (fuPayloads h0 h1 false (d' :: ds')) := by
          intro he
          have := hskip.length_le
          rw [he] at this
          simp only [List.length_cons] at this
          omega
        rw [hs1, hR1] at hs'
        refine ⟨st', ?_, hk, hs'⟩
        rw [hrun]; simp [hneq]
      · subst hr'
        have hstep := cont_step265 cfg hc ok h0 h1 d st s ts l hlast hseq
        simp only at hstep
        obtain ⟨st', hrun, hk, hs'⟩ := ih (s + 1) { st with frags := st.frags ++ [⟨s, ts, false, ((h0 &&& 0x81) ||| 98) :: h1 :: (fuFlags false false ||| ((h0 >>> (1 : UInt8)) &&& 0x3f)) :: d⟩] }
          ⟨s, ts, false, ((h0 &&& 0x81) ||| 98) :: h1 :: (fuFlags false false ||| ((h0 >>> (1 : UInt8)) &&& 0x3f)) :: d⟩ (R - 1) r (by simp) hne' hr (by simp)
          (by simp [u16_succ_pred]) (by simp at hlen ⊢; omega) (by omega) hsub'
        rw [hs1, hR1] at hs'
        refine ⟨st', ?_, ⟨hk.ready, hk.base⟩, hs'⟩
        rw [vRun_cons_ok cfg ok .h265 st _ r _ _ hstep, hrun]
        by_cases hall : r = mkPkts ts m (s + 1) (fuPayloads h0 h1 false (d' :: ds'))
        · simp [hall, fuJoin_append, frameOf]
        · simp [hall]

/-- one item under loss: its units are handed on iff all its packets arrive -/
theorem item_loss265 (cfg : Cfg) (hc : RoundCfg cfg) (ok : Bytes → Bool) (st : VSt) (s : UInt16)
    (it : Item) (R : Nat) (sa : List Pkt) (hr : st.ready = true) (hl : legal265 it = true)
    (hst : Stale st s R) (hlen : (payloads265 it).length ≤ R) (hR64 : R ≤ 65536)
    (hsub : sa.Sublist (mkPkts it.ts it.marker s (payloads265 it))) :
    ∃ st', vRun cfg ok .h265 st sa
        = (st', if sa = mkPkts it.ts it.marker s (payloads265 it) then it.units.map (frameOf st.base) else [], .ok)
      ∧ Keeps st st' ∧ Stale st' (s + UInt16.ofNat (payloads265 it).length) (R - (payloads265 it).length) := by
  have one : ∀ (ts : UInt32) (pl : Bytes) (mk : Bool) (us : List (UInt32 × Bytes)),
      (∃ st', vStep cfg ok .h265 st ⟨s, ts, mk, pl⟩ = ⟨st', us.map (frameOf st.base), .ok⟩ ∧ Keeps st st' ∧ st'.frags = st.frags) →
      1 ≤ R → ∀ sa : List Pkt, sa.Sublist [⟨s, ts, mk, pl⟩] →
      ∃ st', vRun cfg ok .h265 st sa = (st', if sa = [⟨s, ts, mk, pl⟩] then us.map (frameOf st.base) else [], .ok)
        ∧ Keeps st st' ∧ Stale st' (s + UInt16.ofNat 1) (R - 1) := by
    intro ts pl mk us ⟨st1, hstep, hk, hfr⟩ hR sa hsub
    have h1 : s + UInt16.ofNat 1 = s + 1 := rfl
    rcases List.sublist_cons_iff.mp hsub with hskip | ⟨r, hr', hsub'⟩
    · simp only [List.sublist_nil] at hskip
      subst hskip
      exact ⟨st, by simp [vRun], Keeps.refl hr, by rw [h1]; exact hst.next hR⟩
    · simp only [List.sublist_nil] at hsub'
      subst hsub'; subst hr'
      refine ⟨st1, ?_, hk, by rw [h1]; exact (hst.next hR).congr hfr⟩
      rw [vRun_cons_ok cfg ok .h265 st _ [] _ _ hstep]
      simp [vRun]
  cases it with
  | single ts m nal =>
    simp only [legal265] at hl
    have hlen' : 1 ≤ R := by simpa [payloads265] using hlen
    exact one ts nal m [(ts, nal)] (by
      obtain ⟨st', hs, hk, hfr⟩ := single_step265 cfg hc ok st s ts m nal hr hl
      exact ⟨st', by simpa [vStep] using hs, hk, hfr⟩) hlen' sa hsub
  | agg ts m ns =>
    simp only [legal265, Bool.and_eq_true, Bool.not_eq_true', List.all_eq_true, decide_eq_true_eq] at hl
    obtain ⟨hne, hall⟩ := hl
    have hne' : ns ≠ [] := by
      intro h0; rw [h0] at hne; simp at hne
    have hlen' : 1 ≤ R := by simpa [payloads265] using hlen
    have := one ts ((apHdr ns).1 :: (apHdr ns).2 :: aggBody ns) m (ns.map (fun n => (ts, n))) (by
      obtain ⟨st', hs, hk, hfr⟩ := ap_step cfg hc ok st s ts m ns hr hne' hall
      exact ⟨st', by simpa [vStep, frameOf, Function.comp_def] using hs, hk, hfr⟩) hlen' sa hsub
    exact this
  | frag ts m nal cuts =>
    simp only [legal265, Bool.and_eq_true] at hl
    obtain ⟨hok, hcut⟩ := hl
    obtain ⟨h0, h1, data, hshape, _⟩ := nalOk265_shape hok
    subst hshape
    · simp only [cutsOk, Bool.and_eq_true, Bool.not_eq_true', List.all_eq_true, decide_eq_true_eq,
        List.length_cons, Nat.add_sub_cancel] at hcut
      obtain ⟨⟨hcne, hcpos⟩, hsum⟩ := hcut
      cases cuts with
      | nil => simp at hcne
      | cons c cs =>
        have hall := chunks_all_ne (c :: cs) data (fun x hx => hcpos x hx) hsum
        have hflat := chunks_flatten (c :: cs) data
        obtain ⟨d1, ds, hds⟩ : ∃ d1 ds, chunks cs (List.drop c data) = d1 :: ds := by
          cases hch : chunks cs (List.drop c data) with
          | nil => exact absurd hch (chunks_ne_nil _ _)
          | cons d1 ds => exact ⟨d1, ds, rfl⟩
        simp only [chunks, hds] at hall hflat
        have hp : payloads265 (.frag ts m (h0 :: h1 :: data) (c :: cs))
              = (((h0 &&& 0x81) ||| 98) :: h1 :: (fuFlags true false ||| ((h0 >>> (1 : UInt8)) &&& 0x3f)) :: List.take c data)
                :: fuPayloads h0 h1 false (d1 :: ds) := by
          simp only [payloads265, chunks, hds]; rfl
        rw [hp] at hsub hlen ⊢
        have hn2 : ((((h0 &&& 0x81) ||| 98) :: h1 :: (fuFlags true false ||| ((h0 >>> (1 : UInt8)) &&& 0x3f)) :: List.take c data)
                :: fuPayloads h0 h1 false (d1 :: ds)).length = (d1 :: ds).length + 1 := by
          rw [List.length_cons, length_fuPayloads]
        rw [hn2] at hlen ⊢
        have hmk : mkPkts ts m s ((((h0 &&& 0x81) ||| 98) :: h1 :: (fuFlags true false ||| ((h0 >>> (1 : UInt8)) &&& 0x3f)) :: List.take c data)
                :: fuPayloads h0 h1 false (d1 :: ds))
              = ⟨s, ts, false, ((h0 &&& 0x81) ||| 98) :: h1 :: (fuFlags true false ||| ((h0 >>> (1 : UInt8)) &&& 0x3f)) :: List.take c data⟩
                :: mkPkts ts m (s + 1) (fuPayloads h0 h1 false (d1 :: ds)) :=
          mkPkts_cons_ne _ _ _ _ _ (fuPayloads_ne h0 h1 false d1 ds)
        show ∃ st', vRun cfg ok .h265 st sa
            = (st', if sa = mkPkts ts m s ((((h0 &&& 0x81) ||| 98) :: h1 :: (fuFlags true false ||| ((h0 >>> (1 : UInt8)) &&& 0x3f)) :: List.take c data)
                :: fuPayloads h0 h1 false (d1 :: ds)) then [frameOf st.base (ts, h0 :: h1 :: data)] else [], .ok)
          ∧ Keeps st st' ∧ Stale st' (s + UInt16.ofNat ((d1 :: ds).length + 1)) (R - ((d1 :: ds).length + 1))
        change sa.Sublist (mkPkts ts m s ((((h0 &&& 0x81) ||| 98) :: h1 :: (fuFlags true false ||| ((h0 >>> (1 : UInt8)) &&& 0x3f)) :: List.take c data)
                :: fuPayloads h0 h1 false (d1 :: ds))) at hsub
        rw [hmk] at hsub ⊢
        have hd0 : List.take c data ≠ [] := hall _ (List.mem_cons_self ..)
        have hne' : ∀ x ∈ d1 :: ds, x ≠ [] := fun x hx => hall x (List.mem_cons_of_mem _ hx)
        have hR : 1 ≤ R := by omega
        have hs1 : s + 1 + UInt16.ofNat (d1 :: ds).length = s + UInt16.ofNat ((d1 :: ds).length + 1) := by
          have : UInt16.ofNat ((d1 :: ds).length + 1) = UInt16.ofNat (d1 :: ds).length + 1 := by simp [UInt16.ofNat_add]
          grind
        have hR1 : R - 1 - (d1 :: ds).length = R - ((d1 :: ds).length + 1) := by omega
        rcases List.sublist_cons_iff.mp hsub with hskip | ⟨r, hr', hsub'⟩
        · -- the start fragment is lost: everything else of the unit is dropped
          obtain ⟨st', hrun, hk, hs'⟩ := rest_stale265 cfg hc ok h0 h1 ts m (d1 :: ds) (s + 1) st (R - 1) sa hne' hr (hst.next hR)
            (by omega) hskip
          have hneq : sa ≠ ⟨s, ts, false, ((h0 &&& 0x81) ||| 98) :: h1 :: (fuFlags true false ||| ((h0 >>> (1 : UInt8)) &&& 0x3f)) :: List.take c data⟩
              :: mkPkts ts m (s + 1) (fuPayloads h0 h1 false (d1 :: ds)) := by
            intro he
            have := hskip.length_le
            rw [he] at this
            simp only [List.length_cons] at this
            omega
          rw [hs1, hR1] at hs'
          refine ⟨st', ?_, hk, hs'⟩
          rw [hrun]; simp [hneq]
        · subst hr'
          have hstep := start_step265 cfg hc ok h0 h1 (List.take c data) st s ts
          simp only at hstep
          obtain ⟨st', hrun, hk, hs'⟩ := rest_tracking265 cfg hc ok h0 h1 ts m (d1 :: ds) (s + 1)
            { st with frags := [⟨s, ts, false, ((h0 &&& 0x81) ||| 98) :: h1 :: (fuFlags true false ||| ((h0 >>> (1 : UInt8)) &&& 0x3f)) :: List.take c data⟩] }
            ⟨s, ts, false, ((h0 &&& 0x81) ||| 98) :: h1 :: (fuFlags true false ||| ((h0 >>> (1 : UInt8)) &&& 0x3f)) :: List.take c data⟩ (R - 1) r
            (by simp) hne' hr (by simp) (by simp) (by omega) (by omega) hsub'
          rw [hs1, hR1] at hs'
          refine ⟨st', ?_, ⟨hk.ready, hk.base⟩, hs'⟩
          rw [vRun_cons_ok cfg ok .h265 st _ r _ _ hstep, hrun]
          have hdata : List.take c data ++ (d1 ++ ds.flatten) = data := by simpa using hflat
          by_cases hallr : r = mkPkts ts m (s + 1) (fuPayloads h0 h1 false (d1 :: ds))
          · simp [hallr, fuJoin, frameOf, hdata]
          · simp [hallr]


theorem h265_loss (cfg : Cfg) (hc : RoundCfg cfg) (ok : Bytes → Bool) :
    ∀ (items : List Item) (s : UInt16) (st : VSt) (R : Nat) (arrs : List (List Pkt)),
      (∀ it ∈ items, legal265 it = true) → st.ready = true → Stale st s R →
      totalPkts payloads265 items ≤ R → R ≤ 65536 → Lossy payloads265 s items arrs →
      ∃ st', vRun cfg ok .h265 st arrs.flatten
          = (st', (survivors payloads265 s items arrs).map (frameOf st.base), .ok) ∧ Keeps st st' := by
  intro items
  induction items with
  | nil =>
    intro s st R arrs _ hr _ _ _ hl
    cases arrs with
    | nil => exact ⟨st, by simp [vRun, survivors], Keeps.refl hr⟩
    | cons _ _ => exact absurd hl (by simp [Lossy])
  | cons it its ih =>
    intro s st R arrs hall hr hst htot hR64 hl
    cases arrs with
    | nil => exact absurd hl (by simp [Lossy])
    | cons a as =>
      obtain ⟨ha, hl'⟩ := hl
      have hleg := hall it (List.mem_cons_self ..)
      have htot' : (payloads265 it).length + totalPkts payloads265 its ≤ R := by
        simpa [totalPkts] using htot
      obtain ⟨st1, h1, k1, s1⟩ := item_loss265 cfg hc ok st s it R a hr hleg hst (by omega) hR64 ha
      obtain ⟨st2, h2, k2⟩ := ih (s + UInt16.ofNat (payloads265 it).length) st1 (R - (payloads265 it).length) as
        (fun x hx => hall x (List.mem_cons_of_mem _ hx)) k1.ready s1 (by omega) (by omega) hl'
      refine ⟨st2, ?_, k1.trans k2⟩
      simp only [List.flatten_cons, survivors]
      rw [vRun_append cfg ok .h265 _ _ st st1 _ h1, h2, k1.base]
      split <;> simp


end IpcHub.DepackLoss
