/-
Round-trip lemmas for the second part of the H.265 SPS: scaling lists, short-term reference picture
sets, VUI, HRD.
-/
import IpcHub.Lemmas.HevcSps
import IpcHub.Lemmas.H264Sps
namespace IpcHub.Hevc
open IpcHub.Bits IpcHub.BitSyntax IpcHub.HevcSyntax

/-! ### scaling_list_data -/

def wfCoefs : List Int → Bool
  | [] => true
  | d :: ds => decide (-128 ≤ d) && decide (d ≤ 127) && wfCoefs ds

/-- entries of one sizeId: `n` coefficients per coded entry -/
def wfScaling (n : Nat) : List ScalingSyn → Bool
  | [] => true
  | .pred d :: rest => decide (d < 256) && wfScaling n rest
  | .coded dc cs :: rest =>
    decide (-32768 ≤ dc) && decide (dc ≤ 32767) && decide (cs.length = n) && wfCoefs cs && wfScaling n rest

def entryOf (withDc : Bool) : ScalingSyn → ScalingEntry
  | .pred d => { predModeFlag := 0, predMatrixIdDelta := d }
  | .coded dc cs => { predModeFlag := 1, dcCoefMinus8 := if withDc then dc else 0, deltaCoeff := cs }

theorem readSe8s_enc (cs : List Int) (r : List Bool) (h : wfCoefs cs = true) :
    readSe8s true cs.length (encSes cs ++ r) = .ok (cs, r) := by
  induction cs with
  | nil => simp [readSe8s, encSes]
  | cons d rest ih =>
    simp only [wfCoefs, Bool.and_eq_true, decide_eq_true_eq] at h
    simp only [List.length_cons, readSe8s, encSes, List.append_assoc, bind_apply, H264.readSe8_se d _ h.1.1 h.1.2,
      ih h.2, pure_apply]

theorem readSe16_se (d : Int) (r : List Bool) (h1 : -32768 ≤ d) (h2 : d ≤ 32767) :
    readSe16C true (se d ++ r) = .ok (d, r) := by
  simp only [readSe16C, bind_apply, readSe_se d r (by omega) (by omega), pure_apply]
  rw [wrapInt_id 16 d (by omega) (by simp; omega) (by simp; omega)]

theorem scalingMatrices_enc (sizeId k : Nat) (l : List ScalingSyn) (r : List Bool)
    (hw : wfScaling (min 64 (2 ^ (4 + 2 * sizeId))) l = true)
    (hk : (k + l.length ≤ 12 ∧ sizeId ≤ 1) ∨ (12 ≤ k ∧ sizeId > 1)) :
    scalingMatrices true sizeId l.length (encScaling k l ++ r) = .ok (l.map (entryOf (decide (sizeId > 1))), r) := by
  induction l generalizing k with
  | nil => simp [scalingMatrices, encScaling]
  | cons e rest ih =>
    have hk' : (k + 1 + rest.length ≤ 12 ∧ sizeId ≤ 1) ∨ (12 ≤ k + 1 ∧ sizeId > 1) := by
      simp only [List.length_cons] at hk; omega
    cases e with
    | pred d =>
      simp only [wfScaling, Bool.and_eq_true, decide_eq_true_eq] at hw
      simp [scalingMatrices, scalingEntry, encScaling, readBit_flag, readUe8_ue d _ hw.1, ih (k + 1) hw.2 hk', entryOf]
    | coded dc cs =>
      simp only [wfScaling, Bool.and_eq_true, decide_eq_true_eq] at hw
      obtain ⟨⟨⟨⟨h1, h2⟩, hlen⟩, hcs⟩, hrest⟩ := hw
      have hcoefs := readSe8s_enc cs (encScaling (k + 1) rest ++ r) hcs
      rw [hlen] at hcoefs
      rcases hk with ⟨hk1, hs⟩ | ⟨hk1, hs⟩
      · have h12 : ¬ (k ≥ 12) := by simp only [List.length_cons] at hk1; omega
        have hs' : ¬ (sizeId > 1) := by omega
        simp [scalingMatrices, scalingEntry, encScaling, readBit_flag, h12, hs', hcoefs, ih (k + 1) hrest hk', entryOf]
      · have h12 : k ≥ 12 := hk1
        simp [scalingMatrices, scalingEntry, encScaling, readBit_flag, h12, hs, readSe16_se dc _ h1 h2, hcoefs,
          ih (k + 1) hrest hk', entryOf]

theorem encScaling_append (k : Nat) (a b : List ScalingSyn) :
    encScaling k (a ++ b) = encScaling k a ++ encScaling (k + a.length) b := by
  induction a generalizing k with
  | nil => simp [encScaling]
  | cons e rest ih =>
    cases e <;> simp [encScaling, ih, Nat.add_assoc, Nat.add_comm 1]

/-- well-formed scaling_list_data(): 6 + 6 + 6 + 2 entries with 16 / 64 / 64 / 64 coefficients -/
structure ScalingWF (l : List ScalingSyn) : Prop where
  len : l.length = 20
  s0 : wfScaling 16 (l.take 6) = true
  s1 : wfScaling 64 ((l.drop 6).take 6) = true
  s2 : wfScaling 64 ((l.drop 12).take 6) = true
  s3 : wfScaling 64 (l.drop 18) = true

def scalingOf (l : List ScalingSyn) : List (List ScalingEntry) :=
  [(l.take 6).map (entryOf false), ((l.drop 6).take 6).map (entryOf false),
   ((l.drop 12).take 6).map (entryOf true), (l.drop 18).map (entryOf true)]

theorem scalingList_enc (l : List ScalingSyn) (r : List Bool) (wf : ScalingWF l) :
    scalingList true (encScaling 0 l ++ r) = .ok (scalingOf l, r) := by
  have hsplit : l = l.take 6 ++ ((l.drop 6).take 6 ++ ((l.drop 12).take 6 ++ l.drop 18)) := by
    have h1 : l.drop 12 = (l.drop 6).drop 6 := by simp
    have h2 : l.drop 18 = (l.drop 12).drop 6 := by simp
    rw [h2, List.take_append_drop, h1, List.take_append_drop, List.take_append_drop]
  have l0 : (l.take 6).length = 6 := by simp [wf.len]
  have l1 : ((l.drop 6).take 6).length = 6 := by simp [wf.len]
  have l2 : ((l.drop 12).take 6).length = 6 := by simp [wf.len]
  have l3 : (l.drop 18).length = 2 := by simp [wf.len]
  have e0 := scalingMatrices_enc 0 0 (l.take 6) (encScaling 6 ((l.drop 6).take 6) ++ (encScaling 12 ((l.drop 12).take 6) ++ (encScaling 18 (l.drop 18) ++ r)))
    (by simpa using wf.s0) (by omega)
  have e1 := scalingMatrices_enc 1 6 ((l.drop 6).take 6) (encScaling 12 ((l.drop 12).take 6) ++ (encScaling 18 (l.drop 18) ++ r))
    (by simpa using wf.s1) (by omega)
  have e2 := scalingMatrices_enc 2 12 ((l.drop 12).take 6) (encScaling 18 (l.drop 18) ++ r) (by simpa using wf.s2) (by omega)
  have e3 := scalingMatrices_enc 3 18 (l.drop 18) r (by simpa using wf.s3) (by omega)
  rw [l0] at e0; rw [l1] at e1; rw [l2] at e2; rw [l3] at e3
  conv => lhs; rw [hsplit]
  simp only [encScaling_append, l0, l1, l2, Nat.zero_add, List.append_assoc, scalingList, bind_apply, e0, e1, e2, e3,
    pure_apply, scalingOf]
  simp


/-! ### hrd_parameters -/

def wfCpbs : List CpbSyn → Bool
  | [] => true
  | c :: rest =>
    decide (c.bit_rate_value_minus1 + 1 < 2 ^ 32) && decide (c.cpb_size_value_minus1 + 1 < 2 ^ 32) &&
    decide (c.cpb_size_du_value_minus1 + 1 < 2 ^ 32) && decide (c.bit_rate_du_value_minus1 + 1 < 2 ^ 32) && wfCpbs rest

def cpbOf (subPic : Bool) (c : CpbSyn) : CpbEntry :=
  (c.bit_rate_value_minus1, c.cpb_size_value_minus1, if subPic then c.cpb_size_du_value_minus1 else 0,
   if subPic then c.bit_rate_du_value_minus1 else 0, c.cbr_flag.toNat)

theorem subLayerHrd_enc (subPic : Bool) (l : List CpbSyn) (i : Nat) (r : List Bool)
    (hw : wfCpbs l = true) (hi : i + l.length ≤ 32) :
    subLayerHrd 32 subPic l.length i (encCpbs subPic l ++ r) = .ok (l.map (cpbOf subPic), r) := by
  induction l generalizing i with
  | nil => simp [subLayerHrd, encCpbs]
  | cons c rest ih =>
    simp only [wfCpbs, Bool.and_eq_true, decide_eq_true_eq] at hw
    simp only [List.length_cons] at hi
    have hlt : ¬ (i ≥ 32) := by omega
    cases subPic
    · simp [subLayerHrd, encCpbs, readUe_ue _ _ hw.1.1.1.1, hlt, readUe_ue _ _ hw.1.1.1.2, readBit_flag,
        ih (i + 1) hw.2 (by omega), cpbOf]
    · simp [subLayerHrd, encCpbs, readUe_ue _ _ hw.1.1.1.1, hlt, readUe_ue _ _ hw.1.1.1.2, readUe_ue _ _ hw.1.1.2,
        readUe_ue _ _ hw.1.2, readBit_flag, ih (i + 1) hw.2 (by omega), cpbOf]

/-- low_delay_hrd_flag as present or inferred 0 -/
def lowEff (h : HrdSubLayerSyn) : Bool :=
  !(h.fixed_pic_rate_general_flag || h.fixed_pic_rate_within_cvs_flag) && h.low_delay_hrd_flag

/-- cpb_cnt_minus1 as present or inferred 0 -/
def cntEff (h : HrdSubLayerSyn) : Nat := if lowEff h then 0 else h.cpb_cnt_minus1

structure HrdSubWF (nal vcl : Bool) (h : HrdSubLayerSyn) : Prop where
  el : h.elemental_duration_in_tc_minus1 < 65536           -- 0 … 2047
  cnt : h.cpb_cnt_minus1 < 32
  nal : nal = true → h.nal.length = cntEff h + 1 ∧ wfCpbs h.nal = true
  vcl : vcl = true → h.vcl.length = cntEff h + 1 ∧ wfCpbs h.vcl = true

def hrdSubOf (nal vcl subPic : Bool) (h : HrdSubLayerSyn) : HrdSubLayer :=
  { fixedPicRateGeneralFlag := h.fixed_pic_rate_general_flag.toNat,
    fixedPicRateWithinCvsFlag := if h.fixed_pic_rate_general_flag then 1 else h.fixed_pic_rate_within_cvs_flag.toNat,
    elementalDurationInTcMinus1 := if h.fixed_pic_rate_general_flag || h.fixed_pic_rate_within_cvs_flag
      then h.elemental_duration_in_tc_minus1 else 0,
    lowDelayHrdFlag := (lowEff h).toNat, cpbCntMinus1 := cntEff h,
    nal := if nal then h.nal.map (cpbOf subPic) else [], vcl := if vcl then h.vcl.map (cpbOf subPic) else [] }

theorem hrdSubLayer_one (cfg : Cfg) (ok : CfgOK cfg) (nal vcl subPic : Bool) (h : HrdSubLayerSyn) (rest : List HrdSubLayerSyn)
    (i : Nat) (r : List Bool) (wf : HrdSubWF nal vcl h) (hi : i < 7)
    (ih : hrdSubLayers cfg nal vcl subPic rest.length (i + 1) (encHrdSubLayers nal vcl subPic rest ++ r)
      = .ok (rest.map (hrdSubOf nal vcl subPic), r)) :
    hrdSubLayers cfg nal vcl subPic (rest.length + 1) i (encHrdSubLayers nal vcl subPic (h :: rest) ++ r)
      = .ok (hrdSubOf nal vcl subPic h :: rest.map (hrdSubOf nal vcl subPic), r) := by
  have hlt : ¬ (i ≥ cfg.maxSubLayers) := by rw [ok.subLayers]; omega
  have hcnt : h.cpb_cnt_minus1 < 256 := by have := wf.cnt; omega
  have hnal : ∀ r', (if nal then subLayerHrd cfg.maxCpbCnt subPic (cntEff h + 1) 0 else pure [])
      ((if nal then encCpbs subPic h.nal else []) ++ r') = .ok (if nal then h.nal.map (cpbOf subPic) else [], r') := by
    intro r'
    cases hn : nal
    · simp
    · obtain ⟨hl, hw⟩ := wf.nal hn
      have := subLayerHrd_enc subPic h.nal 0 r' hw (by have := wf.cnt; unfold cntEff at hl; split at hl <;> omega)
      rw [hl] at this
      simp [ok.cpb, this]
  have hvcl : ∀ r', (if vcl then subLayerHrd cfg.maxCpbCnt subPic (cntEff h + 1) 0 else pure [])
      ((if vcl then encCpbs subPic h.vcl else []) ++ r') = .ok (if vcl then h.vcl.map (cpbOf subPic) else [], r') := by
    intro r'
    cases hn : vcl
    · simp
    · obtain ⟨hl, hw⟩ := wf.vcl hn
      have := subLayerHrd_enc subPic h.vcl 0 r' hw (by have := wf.cnt; unfold cntEff at hl; split at hl <;> omega)
      rw [hl] at this
      simp [ok.cpb, this]
  cases hg : h.fixed_pic_rate_general_flag <;> cases hw' : h.fixed_pic_rate_within_cvs_flag <;> cases hl : h.low_delay_hrd_flag <;>
    simp [hrdSubLayers, encHrdSubLayers, hg, hw', hl, readBit_flag, hlt, readUe16_ue _ _ wf.el, readUe8_ue _ _ hcnt] <;>
    simp [lowEff, cntEff, hg, hw', hl] at hnal hvcl <;>
    simp [hnal, hvcl, ih, hrdSubOf, lowEff, cntEff, hg, hw', hl]

def wfHrdSubs (nal vcl : Bool) : List HrdSubLayerSyn → Prop
  | [] => True
  | h :: rest => HrdSubWF nal vcl h ∧ wfHrdSubs nal vcl rest

theorem hrdSubLayers_enc (cfg : Cfg) (ok : CfgOK cfg) (nal vcl subPic : Bool) (l : List HrdSubLayerSyn) (i : Nat) (r : List Bool)
    (wf : wfHrdSubs nal vcl l) (hi : i + l.length ≤ 7) :
    hrdSubLayers cfg nal vcl subPic l.length i (encHrdSubLayers nal vcl subPic l ++ r)
      = .ok (l.map (hrdSubOf nal vcl subPic), r) := by
  induction l generalizing i with
  | nil => simp [hrdSubLayers, encHrdSubLayers]
  | cons h rest ih =>
    simp only [List.length_cons] at hi
    exact hrdSubLayer_one cfg ok nal vcl subPic h rest i r wf.1 (by omega) (ih (i + 1) wf.2 (by omega))


/-- sub_pic_hrd_params_present_flag as present or inferred 0 -/
def subPicEff (h : HrdSyn) : Bool :=
  (h.nal_hrd_parameters_present_flag || h.vcl_hrd_parameters_present_flag) && h.sub_pic_hrd_params_present_flag

structure HrdWF (h : HrdSyn) (msl : Nat) : Prop where
  td : h.tick_divisor_minus2 < 256
  du : h.du_cpb_removal_delay_increment_length_minus1 < 32
  dd : h.dpb_output_delay_du_length_minus1 < 32
  brs : h.bit_rate_scale < 16
  css : h.cpb_size_scale < 16
  cds : h.cpb_size_du_scale < 16
  i1 : h.initial_cpb_removal_delay_length_minus1 < 32
  i2 : h.au_cpb_removal_delay_length_minus1 < 32
  i3 : h.dpb_output_delay_length_minus1 < 32
  len : h.sub_layers.length = msl + 1
  subs : wfHrdSubs h.nal_hrd_parameters_present_flag h.vcl_hrd_parameters_present_flag h.sub_layers

def hrdOf (h : HrdSyn) : Hrd :=
  let any := h.nal_hrd_parameters_present_flag || h.vcl_hrd_parameters_present_flag
  let sp := subPicEff h
  { nalHrdParametersPresentFlag := h.nal_hrd_parameters_present_flag.toNat,
    vclHrdParametersPresentFlag := h.vcl_hrd_parameters_present_flag.toNat,
    subPicHrdParamsPresentFlag := sp.toNat,
    tickDivisorMinus2 := if sp then h.tick_divisor_minus2 else 0,
    duCpbRemovalDelayIncrementLengthMinus1 := if sp then h.du_cpb_removal_delay_increment_length_minus1 else 0,
    subPicCpbParamsInPicTimingSeiFlag := if sp then h.sub_pic_cpb_params_in_pic_timing_sei_flag.toNat else 0,
    dpbOutputDelayDuLengthMinus1 := if sp then h.dpb_output_delay_du_length_minus1 else 0,
    bitRateScale := if any then h.bit_rate_scale else 0,
    cpbSizeScale := if any then h.cpb_size_scale else 0,
    cpbSizeDuScale := if sp then h.cpb_size_du_scale else 0,
    initialCpbRemovalDelayLengthMinus1 := if any then h.initial_cpb_removal_delay_length_minus1 else 23,
    auCpbRemovalDelayLengthMinus1 := if any then h.au_cpb_removal_delay_length_minus1 else 23,
    dpbOutputDelayLengthMinus1 := if any then h.dpb_output_delay_length_minus1 else 23,
    subLayers := h.sub_layers.map (hrdSubOf h.nal_hrd_parameters_present_flag h.vcl_hrd_parameters_present_flag sp) }

theorem hrd_enc (cfg : Cfg) (ok : CfgOK cfg) (h : HrdSyn) (msl : Nat) (r : List Bool) (wf : HrdWF h msl) (hmsl : msl ≤ 6) :
    hrd cfg true msl (encHrd h ++ r) = .ok (hrdOf h, r) := by
  have hsubs := fun sp => hrdSubLayers_enc cfg ok h.nal_hrd_parameters_present_flag h.vcl_hrd_parameters_present_flag sp
    h.sub_layers 0 r wf.subs (by have := wf.len; omega)
  rw [wf.len] at hsubs
  cases hn : h.nal_hrd_parameters_present_flag <;> cases hv : h.vcl_hrd_parameters_present_flag <;>
    cases hs : h.sub_pic_hrd_params_present_flag <;>
    simp [hn, hv] at hsubs <;>
    simp [hrd, encHrd, encHrdC, encHrdCommon, hn, hv, hs, readBit_flag, readU_u 8 8 _ _ (by omega) wf.td,
      readU_u 5 8 _ _ (by omega) wf.du, readU_u 5 8 _ _ (by omega) wf.dd, readU_u 4 8 _ _ (by omega) wf.brs,
      readU_u 4 8 _ _ (by omega) wf.css, readU_u 4 8 _ _ (by omega) wf.cds, readU_u 5 8 _ _ (by omega) wf.i1,
      readU_u 5 8 _ _ (by omega) wf.i2, readU_u 5 8 _ _ (by omega) wf.i3, hsubs, hrdOf, subPicEff]


/-! ### vui_parameters -/

structure VuiWF (v : VuiSyn) (msl : Nat) : Prop where
  ar : v.aspect_ratio_idc < 256
  sw : v.sar_width < 65536
  sh : v.sar_height < 65536
  vf : v.video_format < 8
  cp : v.colour_primaries < 256
  tc : v.transfer_characteristics < 256
  mc : v.matrix_coeffs < 256
  clt : v.chroma_sample_loc_type_top_field < 256               -- 0 … 5
  clb : v.chroma_sample_loc_type_bottom_field < 256
  dl : v.def_disp_win_left_offset < 65536
  dr : v.def_disp_win_right_offset < 65536
  dt : v.def_disp_win_top_offset < 65536
  db : v.def_disp_win_bottom_offset < 65536
  nut : v.vui_num_units_in_tick < 2 ^ 32
  ts : v.vui_time_scale < 2 ^ 32
  nt : v.vui_num_ticks_poc_diff_one_minus1 + 1 < 2 ^ 32
  hrd : v.vui_timing_info_present_flag = true → v.vui_hrd_parameters_present_flag = true → HrdWF v.hrd msl
  mss : v.min_spatial_segmentation_idc < 65536                 -- 0 … 4095
  r1 : v.max_bytes_per_pic_denom < 256                         -- 0 … 16
  r2 : v.max_bits_per_min_cu_denom < 256                       -- 0 … 16
  r3 : v.log2_max_mv_length_horizontal < 256                   -- 0 … 15
  r4 : v.log2_max_mv_length_vertical < 256

theorem vuiAspect_enc (v : VuiSyn) (msl : Nat) (wf : VuiWF v msl) (r : List Bool) :
    vuiAspect (encAspect v ++ r)
      = .ok ((v.aspect_ratio_info_present_flag.toNat,
        if v.aspect_ratio_info_present_flag then v.aspect_ratio_idc else 0,
        if v.aspect_ratio_info_present_flag ∧ v.aspect_ratio_idc = 255 then v.sar_width else 0,
        if v.aspect_ratio_info_present_flag ∧ v.aspect_ratio_idc = 255 then v.sar_height else 0), r) := by
  cases hf : v.aspect_ratio_info_present_flag
  · simp [vuiAspect, encAspect, hf, readBit_flag]
  · by_cases hi : v.aspect_ratio_idc = 255
    · simp [vuiAspect, encAspect, hf, hi, readBit_flag, readU_u 8 8 255 _ (by omega) (by omega),
        readU_u 16 16 _ _ (by omega) wf.sw, readU_u 16 16 _ _ (by omega) wf.sh]
    · simp [vuiAspect, encAspect, hf, hi, readBit_flag, readU_u 8 8 _ _ (by omega) wf.ar]

theorem vuiOverscan_enc (v : VuiSyn) (r : List Bool) :
    vuiOverscan (encOverscan v ++ r)
      = .ok ((v.overscan_info_present_flag.toNat,
              if v.overscan_info_present_flag then v.overscan_appropriate_flag.toNat else 0), r) := by
  cases hf : v.overscan_info_present_flag <;> simp [vuiOverscan, encOverscan, hf, readBit_flag]

theorem vuiSignal_enc (v : VuiSyn) (msl : Nat) (wf : VuiWF v msl) (r : List Bool) :
    vuiSignal (encSignal v ++ r)
      = .ok ((v.video_signal_type_present_flag.toNat,
        if v.video_signal_type_present_flag then v.video_format else 5,
        if v.video_signal_type_present_flag then v.video_full_range_flag.toNat else 0,
        if v.video_signal_type_present_flag then v.colour_description_present_flag.toNat else 0,
        if v.video_signal_type_present_flag ∧ v.colour_description_present_flag then v.colour_primaries else 2,
        if v.video_signal_type_present_flag ∧ v.colour_description_present_flag then v.transfer_characteristics else 2,
        if v.video_signal_type_present_flag ∧ v.colour_description_present_flag then v.matrix_coeffs else 2), r) := by
  cases hf : v.video_signal_type_present_flag
  · simp [vuiSignal, encSignal, hf, readBit_flag]
  · cases hc : v.colour_description_present_flag
    · simp [vuiSignal, encSignal, hf, hc, readBit_flag, readU_u 3 8 _ _ (by omega) wf.vf]
    · simp [vuiSignal, encSignal, hf, hc, readBit_flag, readU_u 3 8 _ _ (by omega) wf.vf, readU_u 8 8 _ _ (by omega) wf.cp,
        readU_u 8 8 _ _ (by omega) wf.tc, readU_u 8 8 _ _ (by omega) wf.mc]

theorem vuiChromaLoc_enc (v : VuiSyn) (msl : Nat) (wf : VuiWF v msl) (r : List Bool) :
    vuiChromaLoc (encChromaLoc v ++ r)
      = .ok ((v.chroma_loc_info_present_flag.toNat,
        if v.chroma_loc_info_present_flag then v.chroma_sample_loc_type_top_field else 0,
        if v.chroma_loc_info_present_flag then v.chroma_sample_loc_type_bottom_field else 0), r) := by
  cases hf : v.chroma_loc_info_present_flag
  · simp [vuiChromaLoc, encChromaLoc, hf, readBit_flag]
  · simp [vuiChromaLoc, encChromaLoc, hf, readBit_flag, readUe8_ue _ _ wf.clt, readUe8_ue _ _ wf.clb]

theorem vuiWindow_enc (v : VuiSyn) (msl : Nat) (wf : VuiWF v msl) (r : List Bool) :
    vuiWindow (encWindow v ++ r)
      = .ok ((v.default_display_window_flag.toNat,
        if v.default_display_window_flag then v.def_disp_win_left_offset else 0,
        if v.default_display_window_flag then v.def_disp_win_right_offset else 0,
        if v.default_display_window_flag then v.def_disp_win_top_offset else 0,
        if v.default_display_window_flag then v.def_disp_win_bottom_offset else 0), r) := by
  cases hf : v.default_display_window_flag
  · simp [vuiWindow, encWindow, hf, readBit_flag]
  · simp [vuiWindow, encWindow, hf, readBit_flag, readUe16_ue _ _ wf.dl, readUe16_ue _ _ wf.dr, readUe16_ue _ _ wf.dt, readUe16_ue _ _ wf.db]

def timingOf (v : VuiSyn) (v0 : Vui) : Vui :=
  if v.vui_timing_info_present_flag then
    { v0 with vuiTimingInfoPresentFlag := 1, vuiNumUnitsInTick := v.vui_num_units_in_tick, vuiTimeScale := v.vui_time_scale,
              vuiPocProportionalToTimingFlag := v.vui_poc_proportional_to_timing_flag.toNat,
              vuiNumTicksPocDiffOneMinus1 := if v.vui_poc_proportional_to_timing_flag then v.vui_num_ticks_poc_diff_one_minus1 else 0,
              vuiHrdParametersPresentFlag := v.vui_hrd_parameters_present_flag.toNat,
              hrd := if v.vui_hrd_parameters_present_flag then hrdOf v.hrd else {} }
  else { v0 with vuiTimingInfoPresentFlag := 0 }

theorem vuiTiming_enc (cfg : Cfg) (ok : CfgOK cfg) (v : VuiSyn) (msl : Nat) (wf : VuiWF v msl) (hmsl : msl ≤ 6)
    (v0 : Vui) (r : List Bool) :
    vuiTiming cfg msl v0 (encTiming v ++ r)
      = .ok (timingOf v v0, r) := by
  cases hf : v.vui_timing_info_present_flag
  · simp [vuiTiming, encTiming, readBit_flag, timingOf, hf]
  · cases hp : v.vui_poc_proportional_to_timing_flag <;> cases hh : v.vui_hrd_parameters_present_flag
    · simp [vuiTiming, encTiming, readBit_flag, readU_u 32 32 _ _ (by omega) wf.nut, readU_u 32 32 _ _ (by omega) wf.ts, timingOf, hf, hp, hh]
    · simp [vuiTiming, encTiming, readBit_flag, readU_u 32 32 _ _ (by omega) wf.nut, readU_u 32 32 _ _ (by omega) wf.ts,
        hrd_enc cfg ok v.hrd msl _ (wf.hrd hf hh) hmsl, timingOf, hf, hp, hh]
    · simp [vuiTiming, encTiming, readBit_flag, readU_u 32 32 _ _ (by omega) wf.nut, readU_u 32 32 _ _ (by omega) wf.ts,
        readUe_ue _ _ wf.nt, timingOf, hf, hp, hh]
    · simp [vuiTiming, encTiming, readBit_flag, readU_u 32 32 _ _ (by omega) wf.nut, readU_u 32 32 _ _ (by omega) wf.ts,
        readUe_ue _ _ wf.nt, hrd_enc cfg ok v.hrd msl _ (wf.hrd hf hh) hmsl, timingOf, hf, hp, hh]

def restrictionOf (v : VuiSyn) (v0 : Vui) : Vui :=
  if v.bitstream_restriction_flag then
    { v0 with bitstreamRestrictionFlag := 1, tilesFixedStructureFlag := v.tiles_fixed_structure_flag.toNat,
              motionVectorsOverPicBoundariesFlag := v.motion_vectors_over_pic_boundaries_flag.toNat,
              restrictedRefPicListsFlag := v.restricted_ref_pic_lists_flag.toNat,
              minSpatialSegmentationIdc := v.min_spatial_segmentation_idc, maxBytesPerPicDenom := v.max_bytes_per_pic_denom,
              maxBitsPerMinCuDenom := v.max_bits_per_min_cu_denom, log2MaxMvLengthHorizontal := v.log2_max_mv_length_horizontal,
              log2MaxMvLengthVertical := v.log2_max_mv_length_vertical }
  else
    { v0 with bitstreamRestrictionFlag := 0, tilesFixedStructureFlag := 0, motionVectorsOverPicBoundariesFlag := 1,
              minSpatialSegmentationIdc := 0, maxBytesPerPicDenom := 2, maxBitsPerMinCuDenom := 1,
              log2MaxMvLengthHorizontal := 15, log2MaxMvLengthVertical := 15 }

theorem vuiRestriction_enc (v : VuiSyn) (msl : Nat) (wf : VuiWF v msl) (v0 : Vui) (r : List Bool) :
    vuiRestriction v0 (encRestriction v ++ r)
      = .ok (restrictionOf v v0, r) := by
  cases hf : v.bitstream_restriction_flag
  · simp [vuiRestriction, encRestriction, readBit_flag, restrictionOf, hf]
  · simp [vuiRestriction, encRestriction, hf, readBit_flag, readUe16_ue _ _ wf.mss, readUe8_ue _ _ wf.r1, readUe8_ue _ _ wf.r2,
      readUe8_ue _ _ wf.r3, readUe8_ue _ _ wf.r4, restrictionOf, hf]

/-- the VUI structure the decoder must produce -/
def vuiOf (v : VuiSyn) : Vui :=
  restrictionOf v (timingOf v
    { aspectRatioInfoPresentFlag := v.aspect_ratio_info_present_flag.toNat,
      aspectRatioIdc := if v.aspect_ratio_info_present_flag then v.aspect_ratio_idc else 0,
      sarWidth := if v.aspect_ratio_info_present_flag ∧ v.aspect_ratio_idc = 255 then v.sar_width else 0,
      sarHeight := if v.aspect_ratio_info_present_flag ∧ v.aspect_ratio_idc = 255 then v.sar_height else 0,
      overscanInfoPresentFlag := v.overscan_info_present_flag.toNat,
      overscanAppropriateFlag := if v.overscan_info_present_flag then v.overscan_appropriate_flag.toNat else 0,
      videoSignalTypePresentFlag := v.video_signal_type_present_flag.toNat,
      videoFormat := if v.video_signal_type_present_flag then v.video_format else 5,
      videoFullRangeFlag := if v.video_signal_type_present_flag then v.video_full_range_flag.toNat else 0,
      colourDescriptionPresentFlag := if v.video_signal_type_present_flag then v.colour_description_present_flag.toNat else 0,
      colourPrimaries := if v.video_signal_type_present_flag ∧ v.colour_description_present_flag then v.colour_primaries else 2,
      transferCharacteristics := if v.video_signal_type_present_flag ∧ v.colour_description_present_flag then v.transfer_characteristics else 2,
      matrixCoefficients := if v.video_signal_type_present_flag ∧ v.colour_description_present_flag then v.matrix_coeffs else 2,
      chromaLocInfoPresentFlag := v.chroma_loc_info_present_flag.toNat,
      chromaSampleLocTypeTopField := if v.chroma_loc_info_present_flag then v.chroma_sample_loc_type_top_field else 0,
      chromaSampleLocTypeBottomField := if v.chroma_loc_info_present_flag then v.chroma_sample_loc_type_bottom_field else 0,
      neutralChromaIndicationFlag := v.neutral_chroma_indication_flag.toNat, fieldSeqFlag := v.field_seq_flag.toNat,
      frameFieldInfoPresentFlag := v.frame_field_info_present_flag.toNat,
      defaultDisplayWindowFlag := v.default_display_window_flag.toNat,
      defDispWinLeftOffset := if v.default_display_window_flag then v.def_disp_win_left_offset else 0,
      defDispWinRightOffset := if v.default_display_window_flag then v.def_disp_win_right_offset else 0,
      defDispWinTopOffset := if v.default_display_window_flag then v.def_disp_win_top_offset else 0,
      defDispWinBottomOffset := if v.default_display_window_flag then v.def_disp_win_bottom_offset else 0 })

theorem vui_enc (cfg : Cfg) (ok : CfgOK cfg) (v : VuiSyn) (msl : Nat) (wf : VuiWF v msl) (hmsl : msl ≤ 6) (r : List Bool) :
    vui cfg msl (encVui v ++ r) = .ok (vuiOf v, r) := by
  simp only [vui, vuiHead, encVui, List.append_assoc, bind_apply, vuiAspect_enc v msl wf, vuiOverscan_enc,
    vuiSignal_enc v msl wf, vuiChromaLoc_enc v msl wf, readBit_flag, vuiWindow_enc v msl wf, pure_apply,
    vuiTiming_enc cfg ok v msl wf hmsl, vuiRestriction_enc v msl wf, vuiOf]

theorem vuiOf_timing (v : VuiSyn) :
    (vuiOf v).vuiNumUnitsInTick = (if v.vui_timing_info_present_flag then v.vui_num_units_in_tick else 0) ∧
    (vuiOf v).vuiTimeScale = (if v.vui_timing_info_present_flag then v.vui_time_scale else 0) := by
  cases hf : v.vui_timing_info_present_flag <;> cases hb : v.bitstream_restriction_flag <;>
    simp [vuiOf, restrictionOf, timingOf, hf, hb]


/-! ### short-term reference picture sets, explicitly coded -/

def wfRpsEntries : List (Nat × Bool) → Bool
  | [] => true
  | (d, _) :: rest => decide (d < 65536) && wfRpsEntries rest          -- standard: 0 … 2^15 − 1

theorem rpsEntries_enc (cfg : Cfg) (ok : CfgOK cfg) (l : List (Nat × Bool)) (i : Nat) (r : List Bool)
    (hw : wfRpsEntries l = true) (hi : i + l.length ≤ 16) :
    rpsEntries cfg l.length i (encRpsEntries l ++ r) = .ok (l.map (fun (d, u') => (d, u'.toNat)), r) := by
  induction l generalizing i with
  | nil => simp [rpsEntries, encRpsEntries]
  | cons e rest ih =>
    obtain ⟨d, used⟩ := e
    simp only [wfRpsEntries, Bool.and_eq_true, decide_eq_true_eq] at hw
    simp only [List.length_cons] at hi
    have hlt : ¬ (i ≥ cfg.maxRefs) := by rw [ok.refs]; omega
    simp only [List.length_cons, rpsEntries, encRpsEntries, List.append_assoc, bind_apply, readUe16_ue d _ hw.1, hlt,
      if_false, readBit_flag, ih (i + 1) hw.2 (by omega), pure_apply, List.map_cons]

/-- the stored form of an explicitly coded set -/
def explicitOf (s0 s1 : List (Nat × Bool)) : StRps :=
  { interRefPicSetPredictionFlag := 0, numNegativePics := s0.length, numPositivePics := s1.length,
    s0 := s0.map (fun (d, u') => (d, u'.toNat)), s1 := s1.map (fun (d, u') => (d, u'.toNat)) }

theorem stRps_explicit (cfg : Cfg) (ok : CfgOK cfg) (idx : Nat) (prev : List StRps) (s0 s1 : List (Nat × Bool)) (r : List Bool)
    (h0 : s0.length ≤ 16 ∧ wfRpsEntries s0 = true) (h1 : s1.length ≤ 16 ∧ wfRpsEntries s1 = true) :
    stRps cfg idx prev (encStRps idx (.explicit s0 s1) ++ r) = .ok (explicitOf s0 s1, r) := by
  have e0 := rpsEntries_enc cfg ok s0 0 (encRpsEntries s1 ++ r) h0.2 (by omega)
  have e1 := rpsEntries_enc cfg ok s1 0 r h1.2 (by omega)
  by_cases hi : idx = 0
  · simp [stRps, encStRps, hi, readUe8_ue _ _ (show s0.length < 256 by omega), readUe8_ue _ _ (show s1.length < 256 by omega),
      e0, e1, explicitOf]
  · simp [stRps, encStRps, hi, readBit_flag, readUe8_ue _ _ (show s0.length < 256 by omega),
      readUe8_ue _ _ (show s1.length < 256 by omega), e0, e1, explicitOf]

/-- every set explicitly coded and in range -/
def wfExplicitSets : List StRpsSyn → Prop
  | [] => True
  | .explicit s0 s1 :: rest =>
    (s0.length ≤ 16 ∧ wfRpsEntries s0 = true) ∧ (s1.length ≤ 16 ∧ wfRpsEntries s1 = true) ∧ wfExplicitSets rest
  | .inter _ _ _ :: _ => False

theorem stRpsLoop_explicit (cfg : Cfg) (ok : CfgOK cfg) (l : List StRpsSyn) (idx : Nat) (prev : List StRps) (r : List Bool)
    (hw : wfExplicitSets l) :
    ∃ res, stRpsLoop cfg l.length idx prev (encStRpsList idx l ++ r) = .ok (res, r) := by
  induction l generalizing idx prev with
  | nil => exact ⟨prev, by simp [stRpsLoop, encStRpsList]⟩
  | cons x rest ih =>
    cases x with
    | inter a b c => exact absurd hw (by simp [wfExplicitSets])
    | explicit s0 s1 =>
      obtain ⟨h0, h1, hr⟩ := hw
      obtain ⟨res, hres⟩ := ih (idx + 1) (explicitOf s0 s1 :: prev) hr
      refine ⟨res, ?_⟩
      simp only [List.length_cons, stRpsLoop, encStRpsList, List.append_assoc, bind_apply,
        stRps_explicit cfg ok idx prev s0 s1 _ h0 h1, hres]

theorem bodyScaling_enc (cfg : Cfg) (ok : CfgOK cfg) (s : SpsSyn) (r : List Bool)
    (hw : s.scaling_list_enabled_flag = true → s.sps_scaling_list_data_present_flag = true → ScalingWF s.scaling_list) :
    ∃ res, bodyScaling cfg (encScalingPart s ++ r) = .ok (res, r) := by
  cases he : s.scaling_list_enabled_flag
  · exact ⟨_, by simp [bodyScaling, encScalingPart, he, readBit_flag]; rfl⟩
  · cases hp : s.sps_scaling_list_data_present_flag
    · exact ⟨_, by simp [bodyScaling, encScalingPart, he, hp, readBit_flag]; rfl⟩
    · exact ⟨_, by simp [bodyScaling, encScalingPart, he, hp, readBit_flag, ok.se, scalingList_enc _ _ (hw he hp)]; rfl⟩

theorem bodyVui_enc (cfg : Cfg) (ok : CfgOK cfg) (s : SpsSyn) (r : List Bool) (hmsl : s.ptl.sub_layers.length ≤ 6)
    (hw : s.vui_parameters_present_flag = true → VuiWF s.vui s.ptl.sub_layers.length) :
    bodyVui cfg s.ptl.sub_layers.length (encVuiPart s ++ r)
      = .ok ((s.vui_parameters_present_flag.toNat, if s.vui_parameters_present_flag then vuiOf s.vui else vuiDefault), r) := by
  cases hf : s.vui_parameters_present_flag
  · simp [bodyVui, encVuiPart, hf, readBit_flag]
  · simp [bodyVui, encVuiPart, hf, readBit_flag, vui_enc cfg ok s.vui _ (hw hf) hmsl]

end IpcHub.Hevc
