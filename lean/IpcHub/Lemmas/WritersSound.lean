/-
Soundness of the C13 stream specification as an oracle: whatever `nextUnit` / `parse` accept IS a
concatenation of complete units (the converse of `parseStream_concat`).
-/
import IpcHub.Lemmas.Writers
import IpcHub.Lemmas.WritersLts
namespace IpcHub.Writers
open IpcHub.InterleaveSpec

theorem headEnd_take (s : Bytes) (i h n : Nat) (hs : headEnd s i = some h) (hn : h ≤ i + n) :
    headEnd (s.take n) i = some h := by
  induction s generalizing i n with
  | nil => simp [headEnd] at hs
  | cons b r ih =>
    have hb := headEnd_bound (b :: r) i h hs
    cases n with
    | zero => omega
    | succ m =>
      simp only [headEnd] at hs
      rw [List.take_succ_cons, headEnd]
      split at hs
      · rename_i hp
        cases hs
        have hm : 3 ≤ m := by omega
        have : (b :: r.take m).take 4 = (b :: r).take 4 := by
          simp only [List.take_succ_cons, List.take_take]
          rw [Nat.min_eq_left hm]
        simp only [this, hp, ↓reduceIte]
      · rename_i hp
        have hr := headEnd_bound r (i + 1) h hs
        have hm : 3 ≤ m := by omega
        have : (b :: r.take m).take 4 = (b :: r).take 4 := by
          simp only [List.take_succ_cons, List.take_take]
          rw [Nat.min_eq_left hm]
        simp only [this, hp, Bool.false_eq_true, ↓reduceIte]
        exact ih (i + 1) m hs (by omega)

/-- the header block of a stream that starts with `RTSP/1.0 ` ends after that token -/
theorem headEnd_after_prefix (t : Bytes) (h : Nat)
    (hs : headEnd (82 :: 84 :: 83 :: 80 :: 47 :: 49 :: 46 :: 48 :: 32 :: t) 0 = some h) : 13 ≤ h := by
  have e : headEnd (82 :: 84 :: 83 :: 80 :: 47 :: 49 :: 46 :: 48 :: 32 :: t) 0 = headEnd t 9 := by
    simp [headEnd]
  rw [e] at hs
  have := headEnd_bound t 9 h hs
  omega

theorem prefix_split (s : Bytes) (h : rtspPrefix.isPrefixOf s = true) :
    ∃ t, s = 82 :: 84 :: 83 :: 80 :: 47 :: 49 :: 46 :: 48 :: 32 :: t := by
  rw [List.isPrefixOf_iff_prefix] at h
  obtain ⟨u, hu⟩ := h
  exact ⟨u, by rw [← hu]; rfl⟩

/-- what `nextUnit` accepts is a complete unit followed by the rest -/
theorem nextUnit_sound (s : Bytes) (u : InterleaveSpec.Unit) (rest : Bytes) (h : nextUnit s = some (u, rest)) :
    s = u.bytes ++ rest ∧ u.wf = true := by
  unfold nextUnit at h
  split at h
  · rename_i ch hi lo r
    simp only at h
    split at h
    · cases h
    · rename_i hlen
      have hlen' : hi.toNat * 256 + lo.toNat ≤ r.length := by omega
      cases h
      have hhi := hi.toNat_lt
      have hlo := lo.toNat_lt
      have ltk : (r.take (hi.toNat * 256 + lo.toNat)).length = hi.toNat * 256 + lo.toNat := by
        rw [List.length_take]; omega
      refine ⟨?_, ?_⟩
      · simp only [InterleaveSpec.Unit.bytes, encodeFrame, ltk]
        have d1 : (hi.toNat * 256 + lo.toNat) / 256 = hi.toNat := by omega
        have d2 : (hi.toNat * 256 + lo.toNat) % 256 = lo.toNat := by omega
        rw [d1, d2]
        simp [List.take_append_drop]
      · simp only [InterleaveSpec.Unit.wf, ltk, decide_eq_true_eq]
        omega
  · simp only at h
    split at h
    · cases h
    · rename_i hpre
      have hpre' : rtspPrefix.isPrefixOf s = true := by simpa using hpre
      split at h
      · cases h
      · rename_i hd hh
        split at h
        · cases h
        · rename_i hlen
          cases h
          have hlen' : hd + contentLength (s.take hd) ≤ s.length := by omega
          obtain ⟨t, ht⟩ := prefix_split s hpre'
          have h13 : 13 ≤ hd := headEnd_after_prefix t hd (by rw [← ht]; exact hh)
          refine ⟨by simp [InterleaveSpec.Unit.bytes, List.take_append_drop], ?_⟩
          simp only [InterleaveSpec.Unit.wf, wfResponse, Bool.and_eq_true]
          constructor
          · -- the protocol token survives the cut
            have h9 : 9 ≤ hd + contentLength (s.take hd) := by omega
            generalize hd + contentLength (s.take hd) = total at h9
            obtain ⟨k, rfl⟩ : ∃ k, total = k + 9 := ⟨total - 9, by omega⟩
            rw [ht]
            simp [rtspPrefix, List.take_succ_cons]
          · rw [headEnd_take s 0 hd _ hh (by omega)]
            simp only [List.take_take, List.length_take, beq_iff_eq]
            rw [Nat.min_eq_left (by omega), Nat.min_eq_left hlen']

/-- what `parseStream` accepts is exactly a concatenation of complete units -/
theorem parseStream_sound (fuel : Nat) (s : Bytes) (us : List InterleaveSpec.Unit) (h : parseStream fuel s = some us) :
    s = (us.map InterleaveSpec.Unit.bytes).flatten ∧ ∀ u ∈ us, u.wf = true := by
  induction fuel generalizing s us with
  | zero =>
    cases s with
    | nil => simp [parseStream] at h; subst h; simp
    | cons b r => simp [parseStream] at h
  | succ n ih =>
    cases s with
    | nil => simp [parseStream] at h; subst h; simp
    | cons b r =>
      simp only [parseStream] at h
      split at h
      · cases h
      · rename_i u rest hu
        split at h
        · cases h
        · rename_i us' hrest
          cases h
          obtain ⟨h1, h2⟩ := nextUnit_sound _ _ _ hu
          obtain ⟨h3, h4⟩ := ih rest us' hrest
          refine ⟨?_, ?_⟩
          · simp only [List.map_cons, List.flatten_cons]
            rw [← h3]; exact h1
          · intro v hv
            simp only [List.mem_cons] at hv
            rcases hv with rfl | hv
            · exact h2
            · exact h4 v hv

theorem isSubseq_refl (l : List (UInt8 × List UInt8)) : isSubseq l l = true := by
  induction l with
  | nil => rfl
  | cons x xs ih => simp [isSubseq, ih]

/-- the frames among the units of the completed sections are those of goroutine 0, when every other
    goroutine sends responses only -/
theorem frames_of_done (jobs : Nat → List Job) (unit : Job → InterleaveSpec.Unit) (done : List (Nat × Job))
    (hmem : ∀ p ∈ done, p.2 ∈ jobs p.1)
    (hresp : ∀ t, t ≠ 0 → ∀ j ∈ jobs t, ∃ r, unit j = .response r) :
    framesOf (done.map (fun p => unit p.2)) = framesOf ((doneOf done 0).map unit) := by
  induction done with
  | nil => rfl
  | cons p rest ih =>
    have ih' := ih (fun q hq => hmem q (by simp [hq]))
    by_cases hp : p.1 = 0
    · have : doneOf (p :: rest) 0 = p.2 :: doneOf rest 0 := by simp [doneOf, hp]
      rw [this]
      simp only [List.map_cons, framesOf, List.filterMap_cons] at ih' ⊢
      cases hu : unit p.2 <;> simp [ih']
    · have : doneOf (p :: rest) 0 = doneOf rest 0 := by simp [doneOf, hp]
      rw [this]
      obtain ⟨r, hr⟩ := hresp p.1 hp p.2 (hmem p (by simp))
      simp only [List.map_cons, framesOf, List.filterMap_cons, hr] at ih' ⊢
      exact ih'

end IpcHub.Writers
