import IpcHub.Lemmas.Media3
namespace IpcHub.Media

/-! ### well-formedness of the cache w.r.t. the accepted history -/

structure CacheWf (ps : List Pkt) (c : Cache) : Prop where
  gop_sub : c.gop.Sublist ps
  vps_mem : ∀ q, c.vps = some q → q ∈ ps ∧ q ∉ c.gop
  sps_mem : ∀ q, c.sps = some q → q ∈ ps ∧ q ∉ c.gop
  pps_mem : ∀ q, c.pps = some q → q ∈ ps ∧ q ∉ c.gop
  d1 : ∀ q, c.vps = some q → c.sps ≠ some q
  d2 : ∀ q, c.vps = some q → c.pps ≠ some q
  d3 : ∀ q, c.sps = some q → c.pps ≠ some q

theorem cachewf_init (hevc gop : Bool) : CacheWf [] { hevc := hevc, cacheGop := gop } :=
  ⟨by simp, by simp, by simp, by simp, by simp, by simp, by simp⟩

theorem mem_of_sublist_mem {α} {l₁ l₂ : List α} (h : l₁.Sublist l₂) {a : α} (ha : a ∈ l₁) : a ∈ l₂ := h.subset ha

theorem cachewf_weaken (ps : List Pkt) (p : Pkt) (c : Cache) (h : CacheWf ps c) : CacheWf (ps ++ [p]) c :=
  ⟨h.gop_sub.trans (List.sublist_append_left _ _),
   fun q hq => ⟨List.mem_append_left _ (h.vps_mem q hq).1, (h.vps_mem q hq).2⟩,
   fun q hq => ⟨List.mem_append_left _ (h.sps_mem q hq).1, (h.sps_mem q hq).2⟩,
   fun q hq => ⟨List.mem_append_left _ (h.pps_mem q hq).1, (h.pps_mem q hq).2⟩,
   h.d1, h.d2, h.d3⟩

/-- the key-run bookkeeping does not touch what is cached -/
theorem cachewf_keyRun (ps : List Pkt) (c : Cache) (r : Option Nat) (h : CacheWf ps c) :
    CacheWf ps { c with keyRun := r } :=
  ⟨h.gop_sub, h.vps_mem, h.sps_mem, h.pps_mem, h.d1, h.d2, h.d3⟩

theorem cachewf_pack (k : NalConsts) (ps : List Pkt) (p : Pkt) (c c' : Cache) (key : Bool)
    (h : CacheWf ps c) (hp : p ∉ ps) (hpk : c.pack k p = some (c', key)) : CacheWf (ps ++ [p]) c' := by
  have hw := cachewf_weaken ps p c h
  have hpg : p ∉ c.gop := fun hm => hp (h.gop_sub.subset hm)
  have nv : ∀ q, c.vps = some q → q ≠ p := fun q hq e => hp (e ▸ (h.vps_mem q hq).1)
  have ns : ∀ q, c.sps = some q → q ≠ p := fun q hq e => hp (e ▸ (h.sps_mem q hq).1)
  have np : ∀ q, c.pps = some q → q ≠ p := fun q hq e => hp (e ▸ (h.pps_mem q hq).1)
  unfold Cache.pack at hpk
  dsimp only at hpk
  split at hpk
  · injection hpk with e; injection e with e1 _; subst e1; exact hw
  · split at hpk
    · simp at hpk
    · rename_i f _
      split at hpk
      · injection hpk with e; injection e with e1 _; subst e1
        refine ⟨hw.gop_sub, ?_, hw.sps_mem, hw.pps_mem, ?_, ?_, hw.d3⟩
        · intro q hq; simp at hq; subst hq; exact ⟨by simp, hpg⟩
        · intro q hq; simp at hq; subst hq; intro e; exact ns _ e rfl
        · intro q hq; simp at hq; subst hq; intro e; exact np _ e rfl
      · split at hpk
        · injection hpk with e; injection e with e1 _; subst e1
          refine ⟨hw.gop_sub, hw.vps_mem, ?_, hw.pps_mem, ?_, hw.d2, ?_⟩
          · intro q hq; simp at hq; subst hq; exact ⟨by simp, hpg⟩
          · intro q hq e; simp at e; subst e; exact nv _ hq rfl
          · intro q hq; simp at hq; subst hq; intro e; exact np _ e rfl
        · split at hpk
          · injection hpk with e; injection e with e1 _; subst e1
            refine ⟨hw.gop_sub, hw.vps_mem, hw.sps_mem, ?_, hw.d1, ?_, ?_⟩
            · intro q hq; simp at hq; subst hq; exact ⟨by simp, hpg⟩
            · intro q hq e; simp at e; subst e; exact nv _ hq rfl
            · intro q hq e; simp at e; subst e; exact ns _ hq rfl
          · split at hpk
            · split at hpk
              · injection hpk with e; injection e with e1 _; subst e1
                refine ⟨by simp, ?_, ?_, ?_, hw.d1, hw.d2, hw.d3⟩
                · intro q hq; exact ⟨(hw.vps_mem q hq).1, by simp; exact nv q hq⟩
                · intro q hq; exact ⟨(hw.sps_mem q hq).1, by simp; exact ns q hq⟩
                · intro q hq; exact ⟨(hw.pps_mem q hq).1, by simp; exact np q hq⟩
              · split at hpk
                · injection hpk with e; injection e with e1 _; subst e1
                  refine ⟨List.Sublist.append h.gop_sub (List.Sublist.refl _), ?_, ?_, ?_, hw.d1, hw.d2, hw.d3⟩
                  · intro q hq; exact ⟨(hw.vps_mem q hq).1, by simp; exact ⟨(h.vps_mem q hq).2, nv q hq⟩⟩
                  · intro q hq; exact ⟨(hw.sps_mem q hq).1, by simp; exact ⟨(h.sps_mem q hq).2, ns q hq⟩⟩
                  · intro q hq; exact ⟨(hw.pps_mem q hq).1, by simp; exact ⟨(h.pps_mem q hq).2, np q hq⟩⟩
                · injection hpk with e; injection e with e1 _; subst e1; exact cachewf_keyRun _ _ _ hw
            · injection hpk with e; injection e with e1 _; subst e1; exact cachewf_keyRun _ _ _ hw

theorem cachewf_fold (k : NalConsts) (ps pre : List Pkt) (c : Cache) (h : CacheWf pre c) (hn : (pre ++ ps).Nodup) :
    CacheWf (pre ++ ps) (packAll k c ps) := by
  induction ps generalizing pre c with
  | nil => simpa [packAll] using h
  | cons p ps ih =>
    have hp : p ∉ pre := by
      intro hm
      rw [List.nodup_append] at hn
      exact hn.2.2 p hm p (by simp) rfl
    have hn' : ((pre ++ [p]) ++ ps).Nodup := by simpa using hn
    have e : pre ++ p :: ps = (pre ++ [p]) ++ ps := by simp
    rw [e]
    unfold packAll
    simp only [List.foldl_cons]
    cases hpk : c.pack k p with
    | none => exact ih (pre ++ [p]) c (cachewf_weaken pre p c h) hn'
    | some r =>
      obtain ⟨c', key⟩ := r
      exact ih (pre ++ [p]) c' (cachewf_pack k pre p c c' key h hp hpk) hn'

theorem cachewf_packAll (k : NalConsts) (c0 : Cache) (ps : List Pkt) (h0 : CacheWf [] c0) (hn : ps.Nodup) :
    CacheWf ps (packAll k c0 ps) := by
  have := cachewf_fold k ps [] c0 h0 (by simpa using hn)
  simpa using this

/-- the replay is duplicate-free and consists of accepted packets -/
theorem pushTo_nodup_subset (ps : List Pkt) (c : Cache) (h : CacheWf ps c) (hn : ps.Nodup) :
    c.pushTo.Nodup ∧ ∀ q ∈ c.pushTo, q ∈ ps := by
  have hg : c.gop.Nodup := hn.sublist h.gop_sub
  constructor
  · unfold Cache.pushTo
    cases hv : c.vps with
    | none =>
      cases hs : c.sps with
      | none =>
        cases hp : c.pps with
        | none => cases c.hevc <;> cases c.cacheGop <;> simp [hg]
        | some pp =>
          have := (h.pps_mem pp hp).2
          cases c.hevc <;> cases c.cacheGop <;> simp [hg, this]
      | some sp =>
        have hs2 := (h.sps_mem sp hs).2
        cases hp : c.pps with
        | none => cases c.hevc <;> cases c.cacheGop <;> simp [hg, hs2]
        | some pp =>
          have hp2 := (h.pps_mem pp hp).2
          have hne : sp ≠ pp := fun e => h.d3 sp hs (e ▸ hp)
          cases c.hevc <;> cases c.cacheGop <;> simp [hg, hs2, hp2, hne]
    | some vp =>
      have hv2 := (h.vps_mem vp hv).2
      cases hs : c.sps with
      | none =>
        cases hp : c.pps with
        | none => cases c.hevc <;> cases c.cacheGop <;> simp [hg, hv2]
        | some pp =>
          have hp2 := (h.pps_mem pp hp).2
          have hne : vp ≠ pp := fun e => h.d2 vp hv (e ▸ hp)
          cases c.hevc <;> cases c.cacheGop <;> simp [hg, hv2, hp2, hne]
      | some sp =>
        have hs2 := (h.sps_mem sp hs).2
        have hvs : vp ≠ sp := fun e => h.d1 vp hv (e ▸ hs)
        cases hp : c.pps with
        | none => cases c.hevc <;> cases c.cacheGop <;> simp [hg, hv2, hs2, hvs]
        | some pp =>
          have hp2 := (h.pps_mem pp hp).2
          have hvp : vp ≠ pp := fun e => h.d2 vp hv (e ▸ hp)
          have hsp : sp ≠ pp := fun e => h.d3 sp hs (e ▸ hp)
          cases c.hevc <;> cases c.cacheGop <;> simp [hg, hv2, hs2, hp2, hvs, hvp, hsp]
  · intro q hq
    unfold Cache.pushTo at hq
    simp only [List.mem_append] at hq
    rcases hq with ((hq | hq) | hq) | hq
    · split at hq
      · cases hv : c.vps with
        | none => simp [hv] at hq
        | some vp => simp [hv] at hq; subst hq; exact (h.vps_mem _ hv).1
      · simp at hq
    · cases hs : c.sps with
      | none => simp [hs] at hq
      | some sp => simp [hs] at hq; subst hq; exact (h.sps_mem _ hs).1
    · cases hp : c.pps with
      | none => simp [hp] at hq
      | some pp => simp [hp] at hq; subst hq; exact (h.pps_mem _ hp).1
    · split at hq
      · exact h.gop_sub.subset hq
      · simp at hq

end IpcHub.Media
