/-
Round-trip lemmas for the H.264 SPS model against the specification's encoder, block by
block: every sub-parser of Model/H264Sps.lean reads back what the matching encoder of
Spec/H264Syntax.lean wrote, leaving the following bits untouched.
-/
import IpcHub.Lemmas.Bits
import IpcHub.Lemmas.Epb
import IpcHub.Lemmas.Pack
import IpcHub.Spec.H264Agree
namespace IpcHub.H264
open IpcHub.Bits IpcHub.BitSyntax IpcHub.H264Syntax

theorem readSe8_se (d : Int) (r : List Bool) (h1 : -128 ≤ d) (h2 : d ≤ 127) :
    readSe8C true (se d ++ r) = .ok (d, r) := by
  simp only [readSe8C, bind_apply, readSe_se d r (by omega) (by omega), pure_apply]
  rw [wrapInt_id 8 d (by omega) (by simp; omega) (by simp; omega)]

theorem scanList_enc (n : Nat) (scale : Int) (ds : List Int) (r : List Bool)
    (h : wfDeltas n scale ds = true) :
    scanList true n scale (encDeltas ds ++ r) = .ok (ds, r) := by
  induction n generalizing scale ds with
  | zero =>
    cases ds with
    | nil => simp [scanList, encDeltas]
    | cons d ds => simp [wfDeltas] at h
  | succ n ih =>
    cases ds with
    | nil => simp [wfDeltas] at h
    | cons d ds =>
      simp only [wfDeltas, Bool.and_eq_true, decide_eq_true_eq] at h
      obtain ⟨⟨h1, h2⟩, h3⟩ := h
      simp only [scanList, encDeltas, List.append_assoc, bind_apply, readSe8_se d _ h1 h2]
      by_cases hz : (scale + d + 256) % 256 = 0
      · simp only [hz, if_true] at h3 ⊢
        simp at h3; subst h3
        simp [encDeltas]
      · simp only [hz, if_false] at h3 ⊢
        simp only [bind_apply, ih _ _ h3, pure_apply]


theorem scalingLoop_enc (ls : List (Option (List Int))) (i : Nat) (r : List Bool)
    (h : wfScalingLists i ls = true) :
    scalingLoop true ls.length i (encScalingLists ls ++ r)
      = .ok ((ls.map (fun o => o.isSome.toNat), ls.map (fun o => o.getD [])), r) := by
  induction ls generalizing i with
  | nil => simp [scalingLoop, encScalingLists]
  | cons o rest ih =>
    cases o with
    | none =>
      simp only [wfScalingLists] at h
      simp only [List.length_cons, scalingLoop, encScalingLists, List.append_assoc, bind_apply, readBit_flag,
        Bool.toNat_false, ne_eq, not_true_eq_false, if_false, pure_apply, ih _ h]
      simp
    | some ds =>
      simp only [wfScalingLists, Bool.and_eq_true] at h
      simp only [List.length_cons, scalingLoop, encScalingLists, List.append_assoc, bind_apply, readBit_flag,
        Bool.toNat_true, ne_eq, Nat.succ_ne_self, not_false_eq_true, if_true, scanList_enc _ _ _ _ h.1, pure_apply, ih _ h.2]
      simp

theorem refFrameOffsets_enc (offs : List Int) (r : List Bool) (h : wfOffsets offs = true) :
    refFrameOffsets true offs.length (encDeltas offs ++ r) = .ok (offs, r) := by
  induction offs with
  | nil => simp [refFrameOffsets, encDeltas]
  | cons z rest ih =>
    simp only [wfOffsets, Bool.and_eq_true, decide_eq_true_eq] at h
    simp only [List.length_cons, refFrameOffsets, encDeltas, List.append_assoc, bind_apply,
      readSe_se z _ h.1.1 h.1.2, ih h.2, pure_apply]

theorem hrdEntries_enc (maxCpb : Nat) (cpb : List (Nat × Nat × Bool)) (i : Nat) (r : List Bool)
    (hw : wfCpb cpb = true) (hi : i + cpb.length ≤ maxCpb) :
    hrdEntries maxCpb cpb.length i (encCpb cpb ++ r)
      = .ok (cpb.map (fun (a, b, c) => (a, b, c.toNat)), r) := by
  induction cpb generalizing i with
  | nil => simp [hrdEntries, encCpb]
  | cons e rest ih =>
    obtain ⟨br, cs, cbr⟩ := e
    simp only [wfCpb, Bool.and_eq_true, decide_eq_true_eq] at hw
    simp only [List.length_cons] at hi
    have hlt : ¬ (i ≥ maxCpb) := by omega
    simp only [List.length_cons, hrdEntries, encCpb, List.append_assoc, bind_apply, readUe_ue br _ hw.1.1,
      hlt, if_false, readUe_ue cs _ hw.1.2, readBit_flag, ih (i + 1) hw.2 (by omega), pure_apply, List.map_cons]

theorem hrd_enc (cfg : Cfg) (h : HrdSyntax) (r : List Bool) (wf : HrdWF h) (hc : 32 ≤ cfg.maxCpbCnt) :
    hrd cfg (encHrd h ++ r) = .ok (hrdOf h, r) := by
  have hcnt : h.cpb.length - 1 + 1 = h.cpb.length := by have := wf.cnt; omega
  have hlt : h.cpb.length - 1 < 256 := by have := wf.cnt; omega
  simp only [hrd, encHrd, List.append_assoc, bind_apply, readUe8_ue _ _ hlt, hcnt,
    readU_u 4 8 _ _ (by omega) wf.brs, readU_u 4 8 _ _ (by omega) wf.css,
    hrdEntries_enc cfg.maxCpbCnt h.cpb 0 _ wf.cpb (by have := wf.cnt; omega),
    readU_u 5 8 _ _ (by omega) wf.l1, readU_u 5 8 _ _ (by omega) wf.l2,
    readU_u 5 8 _ _ (by omega) wf.l3, readU_u 5 8 _ _ (by omega) wf.l4, pure_apply, hrdOf]


theorem vuiAspect_enc (v : VuiSyntax) (wf : VuiWF v) (r : List Bool) :
    vuiAspect (encAspect v ++ r) = .ok (⟨v.aspect_ratio_info_present_flag.toNat,
      if v.aspect_ratio_info_present_flag then v.aspect_ratio_idc else 0,
      if v.aspect_ratio_info_present_flag ∧ v.aspect_ratio_idc = 255 then v.sar_width else 0,
      if v.aspect_ratio_info_present_flag ∧ v.aspect_ratio_idc = 255 then v.sar_height else 0⟩, r) := by
  cases hf : v.aspect_ratio_info_present_flag
  · simp [vuiAspect, encAspect, hf, readBit_flag]
  · by_cases hi : v.aspect_ratio_idc = 255
    · simp [vuiAspect, encAspect, hf, hi, readBit_flag, readU_u 8 8 255 _ (by omega) (by omega),
        readU_u 16 16 _ _ (by omega) wf.sw, readU_u 16 16 _ _ (by omega) wf.sh]
    · simp [vuiAspect, encAspect, hf, hi, readBit_flag, readU_u 8 8 _ _ (by omega) wf.ar]

theorem vuiOverscan_enc (v : VuiSyntax) (r : List Bool) :
    vuiOverscan (encOverscan v ++ r) = .ok ((v.overscan_info_present_flag.toNat,
      if v.overscan_info_present_flag then v.overscan_appropriate_flag.toNat else 0), r) := by
  cases hf : v.overscan_info_present_flag <;> simp [vuiOverscan, encOverscan, hf, readBit_flag]

theorem vuiSignal_enc (v : VuiSyntax) (wf : VuiWF v) (r : List Bool) :
    vuiSignal (encSignal v ++ r) = .ok (⟨v.video_signal_type_present_flag.toNat,
      if v.video_signal_type_present_flag then v.video_format else 5,
      if v.video_signal_type_present_flag then v.video_full_range_flag.toNat else 0,
      if v.video_signal_type_present_flag then v.colour_description_present_flag.toNat else 0,
      if v.video_signal_type_present_flag then (if v.colour_description_present_flag then v.colour_primaries else 0) else 2,
      if v.video_signal_type_present_flag then (if v.colour_description_present_flag then v.transfer_characteristics else 0) else 2,
      if v.video_signal_type_present_flag then (if v.colour_description_present_flag then v.matrix_coefficients else 0) else 2⟩, r) := by
  cases hf : v.video_signal_type_present_flag
  · simp [vuiSignal, encSignal, hf, readBit_flag]
  · cases hc : v.colour_description_present_flag
    · simp [vuiSignal, encSignal, hf, hc, readBit_flag, readU_u 3 8 _ _ (by omega) wf.vf]
    · simp [vuiSignal, encSignal, hf, hc, readBit_flag, readU_u 3 8 _ _ (by omega) wf.vf,
        readU_u 8 8 _ _ (by omega) wf.cp, readU_u 8 8 _ _ (by omega) wf.tc, readU_u 8 8 _ _ (by omega) wf.mc]

theorem vuiChromaLoc_enc (v : VuiSyntax) (wf : VuiWF v) (r : List Bool) :
    vuiChromaLoc (encChromaLoc v ++ r) = .ok ((v.chroma_loc_info_present_flag.toNat,
      if v.chroma_loc_info_present_flag then v.chroma_sample_loc_type_top_field else 0,
      if v.chroma_loc_info_present_flag then v.chroma_sample_loc_type_bottom_field else 0), r) := by
  cases hf : v.chroma_loc_info_present_flag
  · simp [vuiChromaLoc, encChromaLoc, hf, readBit_flag]
  · simp [vuiChromaLoc, encChromaLoc, hf, readBit_flag, readUe8_ue _ _ wf.clt, readUe8_ue _ _ wf.clb]

theorem vuiTiming_enc (v : VuiSyntax) (wf : VuiWF v) (r : List Bool) :
    vuiTiming (encTiming v ++ r) = .ok ((v.timing_info_present_flag.toNat,
      if v.timing_info_present_flag then v.num_units_in_tick else 0,
      if v.timing_info_present_flag then v.time_scale else 0,
      if v.timing_info_present_flag then v.fixed_frame_rate_flag.toNat else 0), r) := by
  cases hf : v.timing_info_present_flag
  · simp [vuiTiming, encTiming, hf, readBit_flag]
  · simp [vuiTiming, encTiming, hf, readBit_flag, readU_u 32 32 _ _ (by omega) wf.nut,
      readU_u 32 32 _ _ (by omega) wf.ts]

theorem vuiHrd_enc (cfg : Cfg) (present : Bool) (h : HrdSyntax) (r : List Bool)
    (wf : present = true → HrdWF h) (hc : 32 ≤ cfg.maxCpbCnt) :
    vuiHrd cfg (encHrdOpt present h ++ r) = .ok ((present.toNat, if present then hrdOf h else {}), r) := by
  cases present
  · simp [vuiHrd, encHrdOpt, readBit_flag]
  · simp [vuiHrd, encHrdOpt, readBit_flag, hrd_enc cfg h _ (wf rfl) hc]

theorem inferredDpb_eq (cfg : Cfg) (s : SpsSyntax) (hd : cfg.maxDpbFrames = 16) :
    inferredDpb cfg (hdrOf s) = inferredDpbOf s := by
  cases hc : s.constraint_set3_flag <;> simp [inferredDpb, inferredDpbOf, hdrOf, hd, hc]

theorem vuiRestriction_enc (cfg : Cfg) (s : SpsSyntax) (v : VuiSyntax) (wf : VuiWF v) (r : List Bool)
    (hd : cfg.maxDpbFrames = 16) :
    vuiRestriction cfg (hdrOf s) (encRestriction v ++ r) = .ok (⟨v.bitstream_restriction_flag.toNat,
      if v.bitstream_restriction_flag then v.motion_vectors_over_pic_boundaries_flag.toNat else 1,
      if v.bitstream_restriction_flag then v.max_bytes_per_pic_denom else 2,
      if v.bitstream_restriction_flag then v.max_bits_per_mb_denom else 1,
      if v.bitstream_restriction_flag then v.log2_max_mv_length_horizontal else 15,
      if v.bitstream_restriction_flag then v.log2_max_mv_length_vertical else 15,
      if v.bitstream_restriction_flag then v.max_num_reorder_frames else inferredDpbOf s,
      if v.bitstream_restriction_flag then v.max_dec_frame_buffering else inferredDpbOf s⟩, r) := by
  cases hf : v.bitstream_restriction_flag
  · simp [vuiRestriction, encRestriction, hf, readBit_flag, inferredDpb_eq cfg s hd]
  · simp [vuiRestriction, encRestriction, hf, readBit_flag, readUe8_ue _ _ wf.r1, readUe8_ue _ _ wf.r2,
      readUe8_ue _ _ wf.r3, readUe8_ue _ _ wf.r4, readUe8_ue _ _ wf.r5, readUe8_ue _ _ wf.r6]


/-- hypotheses on the source facts under which the model is the standard's parser -/
structure CfgOK (cfg : Cfg) : Prop where
  se : cfg.seFromUe = true
  high : cfg.highProfiles = highProfileIdcs
  nal : cfg.nalSps = 7
  svc : cfg.svcTypes = [14, 20, 21]
  cpb : 32 ≤ cfg.maxCpbCnt
  dpb : cfg.maxDpbFrames = 16
  mono : cfg.mono183 = false

theorem vui_enc (cfg : Cfg) (ok : CfgOK cfg) (s : SpsSyntax) (hv : s.vui_parameters_present_flag = true)
    (wf : VuiWF s.vui) (r : List Bool) :
    vui cfg (hdrOf s) (encVui s.vui ++ r) = .ok (vuiOf s, r) := by
  simp only [vui, encVui, List.append_assoc, bind_apply, vuiAspect_enc _ wf, vuiOverscan_enc, vuiSignal_enc _ wf,
    vuiChromaLoc_enc _ wf, vuiTiming_enc _ wf, vuiHrd_enc cfg _ _ _ wf.nal ok.cpb, vuiHrd_enc cfg _ _ _ wf.vcl ok.cpb]
  cases hn : s.vui.nal_hrd_parameters_present_flag <;> cases hl : s.vui.vcl_hrd_parameters_present_flag <;>
    simp [readBit_flag, vuiRestriction_enc cfg s _ wf _ ok.dpb, vuiOf, hv, hn, hl]

theorem header_enc (cfg : Cfg) (ok : CfgOK cfg) (s : SpsSyntax) (wf : SpsWF s) (r : List Bool) :
    header cfg (false :: (u 2 s.nal_ref_idc ++ (u 5 7 ++ (encProfile s ++ r)))) = .ok (hdrOf s, r) := by
  have e0 : ∀ x, readBit (false :: x) = .ok (0, x) := fun _ => rfl
  simp [header, encProfile, bind_apply, e0, readU_u 2 8 _ _ (by omega) wf.ref, readU_u 5 8 7 _ (by omega) (by omega),
    ok.svc, ok.nal, readU_u 8 8 _ _ (by omega) wf.profile, readBit_flag, readU_u 2 8 0 _ (by omega) (by omega),
    readU_u 8 8 _ _ (by omega) wf.level, readUe8_ue _ _ wf.id, hdrOf]


theorem chromaInfo_enc (cfg : Cfg) (ok : CfgOK cfg) (s : SpsSyntax) (wf : SpsWF s) (r : List Bool) :
    chromaInfo cfg s.profile_idc (encChromaInfo s ++ r) = .ok (chromaOf s, r) := by
  cases hh : hasChromaInfo s
  · have hc : s.profile_idc ∉ highProfileIdcs := by
      have : highProfileIdcs.contains s.profile_idc = false := hh
      simpa using this
    simp [chromaInfo, ok.high, hc, encChromaInfo, hh, chromaOf, ok.mono]
  · have hc : s.profile_idc ∈ highProfileIdcs := by
      have : highProfileIdcs.contains s.profile_idc = true := hh
      simpa using this
    cases hsm : s.seq_scaling_matrix_present_flag
    · by_cases h3 : s.chroma_format_idc = 3
      · simp [chromaInfo, ok.high, hc, encChromaInfo, hh, chromaOf, h3, hsm, readUe8_ue 3 _ (by omega),
          readUe8_ue _ _ wf.bdl, readUe8_ue _ _ wf.bdc, readBit_flag]
      · simp [chromaInfo, ok.high, hc, encChromaInfo, hh, chromaOf, h3, hsm, readUe8_ue _ _ wf.cf,
          readUe8_ue _ _ wf.bdl, readUe8_ue _ _ wf.bdc, readBit_flag]
    · obtain ⟨hlen, hwf⟩ := wf.sl hsm
      have hloop := scalingLoop_enc s.scaling_lists 0 r hwf
      by_cases h3 : s.chroma_format_idc = 3
      · simp only [h3, if_true] at hlen
        rw [hlen] at hloop
        simp [chromaInfo, ok.high, ok.se, hc, encChromaInfo, hh, chromaOf, h3, hsm, readUe8_ue 3 _ (by omega),
          readUe8_ue _ _ wf.bdl, readUe8_ue _ _ wf.bdc, readBit_flag, hloop]
      · simp only [h3, if_false] at hlen
        rw [hlen] at hloop
        simp [chromaInfo, ok.high, ok.se, hc, encChromaInfo, hh, chromaOf, h3, hsm, readUe8_ue _ _ wf.cf,
          readUe8_ue _ _ wf.bdl, readUe8_ue _ _ wf.bdc, readBit_flag, hloop]

theorem pocInfo_enc (cfg : Cfg) (ok : CfgOK cfg) (s : SpsSyntax) (wf : SpsWF s) (r : List Bool) :
    pocInfo cfg (encPoc s ++ r) = .ok (pocOf s, r) := by
  by_cases h0 : s.pic_order_cnt_type = 0
  · simp [pocInfo, encPoc, pocOf, h0, readUe8_ue _ _ wf.fn, readUe8_ue 0 _ (by omega), readUe8_ue _ _ wf.lsb]
  · by_cases h1 : s.pic_order_cnt_type = 1
    · simp [pocInfo, encPoc, pocOf, h1, ok.se, readUe8_ue _ _ wf.fn, readUe8_ue 1 _ (by omega), readBit_flag,
        readSe_se _ _ wf.o1.1 wf.o1.2, readSe_se _ _ wf.o2.1 wf.o2.2, readUe8_ue _ _ wf.cyc,
        refFrameOffsets_enc _ _ wf.offs]
    · simp [pocInfo, encPoc, pocOf, h0, h1, readUe8_ue _ _ wf.fn, readUe8_ue _ _ wf.pt]

theorem frameInfo_enc (s : SpsSyntax) (wf : SpsWF s) (r : List Bool) :
    frameInfo (encFrame s ++ r) = .ok (frameOf s, r) := by
  cases hf : s.frame_mbs_only_flag <;> cases hc : s.frame_cropping_flag <;>
    simp [frameInfo, encFrame, frameOf, hf, hc, cropL, cropR, cropT, cropB, readUe8_ue _ _ wf.refs, readBit_flag,
      readUe16_ue _ _ wf.w, readUe16_ue _ _ wf.h, readUe16_ue _ _ wf.cl, readUe16_ue _ _ wf.cr,
      readUe16_ue _ _ wf.ct, readUe16_ue _ _ wf.cb]

/-- the whole bit-level parse: NAL header bits, seq_parameter_set_data(), any following bits untouched -/
theorem spsBits_enc (cfg : Cfg) (ok : CfgOK cfg) (s : SpsSyntax) (wf : SpsWF s) (r : List Bool) :
    spsBits cfg (false :: (u 2 s.nal_ref_idc ++ (u 5 7 ++ (encSpsData s ++ r)))) = .ok (toRaw s, r) := by
  have hp : (hdrOf s).profileIdc = s.profile_idc := rfl
  cases hv : s.vui_parameters_present_flag
  · simp [spsBits, encSpsData, header_enc cfg ok s wf, hp, chromaInfo_enc cfg ok s wf, pocInfo_enc cfg ok s wf,
      frameInfo_enc s wf, readBit_flag, hv, toRaw, vuiOf, vuiDefault, inferredDpb_eq cfg s ok.dpb]
  · simp [spsBits, encSpsData, header_enc cfg ok s wf, hp, chromaInfo_enc cfg ok s wf, pocInfo_enc cfg ok s wf,
      frameInfo_enc s wf, readBit_flag, hv, toRaw, vui_enc cfg ok s hv (wf.vui hv)]


theorem nalHeader_bits (s : SpsSyntax) (h : s.nal_ref_idc < 4) :
    bitsOfByte (nalHeaderByte s) = false :: (u 2 s.nal_ref_idc ++ u 5 7) := by
  have : s.nal_ref_idc = 0 ∨ s.nal_ref_idc = 1 ∨ s.nal_ref_idc = 2 ∨ s.nal_ref_idc = 3 := by omega
  rcases this with h | h | h | h <;> simp [nalHeaderByte, h] <;> rfl

theorem nalHeader_ne_zero (s : SpsSyntax) (h : s.nal_ref_idc < 4) : nalHeaderByte s ≠ 0 := by
  have : s.nal_ref_idc = 0 ∨ s.nal_ref_idc = 1 ∨ s.nal_ref_idc = 2 ∨ s.nal_ref_idc = 3 := by omega
  rcases this with h | h | h | h <;> simp [nalHeaderByte, h] <;> decide

/-- bytes in, structure out: `RawSPS.Decode` on the NAL unit the specification's encoder produces
    for `s` (header byte, emulation prevention, trailing bits) yields exactly `toRaw s` -/
theorem decode_enc (cfg : Cfg) (ok : CfgOK cfg) (s : SpsSyntax) (wf : SpsWF s) :
    decode cfg (encSpsNal s) = .ok (toRaw s) := by
  unfold decode encSpsNal
  rw [removeEmulationBytes_nal _ _ (nalHeader_ne_zero s wf.ref)]
  have h24 : 8 * 3 ≤ (encSpsRbsp s).length := by
    simp only [encSpsRbsp, encSpsData, encProfile, flag, List.length_append, length_u, List.length_cons, List.length_nil]
    omega
  have hlen : ¬ ((nalHeaderByte s :: pack (encSpsRbsp s)).length < 4) := by
    have := length_pack_ge _ 3 h24
    simp only [List.length_cons]; omega
  simp only [hlen, if_false, bitsOfBytes, nalHeader_bits s wf.ref]
  rw [bitsOfBytes_pack _ (by unfold encSpsRbsp; exact length_trailing_aligned _)]
  have := spsBits_enc cfg ok s wf (trailing (encSpsData s).length)
  simp only [encSpsRbsp, List.cons_append, List.append_assoc] at this ⊢
  rw [this]

end IpcHub.H264
