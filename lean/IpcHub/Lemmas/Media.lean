import IpcHub.Model.Media
namespace IpcHub.Media

/-- per-consumer invariant, relative to the shared history `pub` (accepted packets) and status -/
structure CInv (pub : List Pkt) (st : Nat) (c : Cons) : Prop where
  joined_le : c.joinedAt ≤ pub.length
  sent_sub : List.Sublist c.sent (pub.drop c.joinedAt)
  sent_all : c.registered = true → c.everDiscarded = false → c.sent = pub.drop c.joinedAt
  shape : c.exited = false → c.delivered ++ c.pending = c.replay ++ c.sent
  pre : c.delivered <+: c.replay ++ c.sent
  reg : c.registered = true → c.closed = false ∧ c.exited = false ∧ st = 0
  calls : c.closeCalls = if c.exited then 1 else 0
  ex : c.exited = true → c.registered = false ∧ c.closed = true

theorem drop_append_one {α} (l : List α) (a : α) (j : Nat) (h : j ≤ l.length) :
    (l ++ [a]).drop j = l.drop j ++ [a] := by
  rw [List.drop_append_of_le_length h]

theorem pending_push (c : Cons) (p : Pkt) :
    Cons.pending { c with queue := c.queue ++ [some p] } = c.pending ++ [p] := by
  simp [Cons.pending, List.filterMap_append]

theorem pending_push_none (c : Cons) :
    Cons.pending { c with queue := c.queue ++ [none] } = c.pending := by
  simp [Cons.pending, List.filterMap_append]

theorem send_inv (pub : List Pkt) (m : Nat) (p : Pkt) (key : Bool) (c : Cons) (h : CInv pub 0 c) :
    CInv (pub ++ [p]) 0 (c.send m p key) := by
  have hj := h.joined_le
  have hd := drop_append_one pub p c.joinedAt hj
  unfold Cons.send
  by_cases hr : c.registered = true
  · simp only [hr, Bool.not_true, Bool.false_eq_true, if_false]
    cases nextDiscarding m key c.discarding c.queue.length with
    | false =>
      -- kept
      simp only [Bool.false_eq_true, if_false, Cons.keep]
      refine ⟨by simp; omega, ?_, ?_, ?_, ?_, ?_, ?_, ?_⟩
      · simp only [hd]; exact List.Sublist.append h.sent_sub (List.Sublist.refl _)
      · intro _ he; simp only [hd]; rw [h.sent_all hr he]
      · intro he
        have := h.shape he
        simp only [Cons.pending, List.filterMap_append] at this ⊢
        simp [← List.append_assoc, this]
      · have := h.pre
        simp only
        rw [← List.append_assoc]
        exact List.IsPrefix.trans this (List.prefix_append _ _)
      · intro _; exact h.reg hr
      · exact h.calls
      · exact h.ex
    | true =>
      -- dropped
      simp only [if_true, Cons.drop]
      refine ⟨by simp; omega, ?_, ?_, ?_, ?_, ?_, ?_, ?_⟩
      · simp only [hd]
        exact List.Sublist.trans h.sent_sub (List.sublist_append_left _ _)
      · intro _ he; simp at he
      · intro he; exact h.shape he
      · exact h.pre
      · intro _; exact h.reg hr
      · exact h.calls
      · exact h.ex
  · have hr' : c.registered = false := by simpa using hr
    simp only [hr', Bool.not_false, if_true]
    refine ⟨by simp; omega, ?_, ?_, h.shape, h.pre, ?_, h.calls, h.ex⟩
    · rw [hd]; exact List.Sublist.trans h.sent_sub (List.sublist_append_left _ _)
    · intro hreg; simp [hr'] at hreg
    · intro hreg; simp [hr'] at hreg

theorem close_inv (pub : List Pkt) (st st' : Nat) (c : Cons) (h : CInv pub st c) :
    CInv pub st' (Cons.close { c with registered := false }) := by
  unfold Cons.close
  by_cases hc : c.closed = true
  · simp only [hc, if_true]
    exact ⟨h.joined_le, h.sent_sub, by intro hr; simp at hr, h.shape, h.pre, by intro hr; simp at hr, h.calls,
      by intro he; exact ⟨rfl, by simpa using hc⟩⟩
  · have hc' : c.closed = false := by simpa using hc
    simp only [hc', Bool.false_eq_true, if_false]
    refine ⟨h.joined_le, h.sent_sub, by intro hr; simp at hr, ?_, h.pre, by intro hr; simp at hr, h.calls, ?_⟩
    · intro he
      have := h.shape he
      simp only [Cons.pending, List.filterMap_append] at this ⊢
      simpa using this
    · intro he; exact ⟨rfl, rfl⟩

theorem stepKind_spec (c : Cons) :
    match c.stepKind with
    | .idle => True
    | .blocked => True
    | .panic => c.exited = false ∧ ∃ p, c.inflight = some p
    | .deliver p => c.exited = false ∧ c.inflight = some p
    | .exit => c.exited = false ∧ c.inflight = none ∧ c.closed = true
    | .sentinel => c.exited = false ∧ c.inflight = none ∧ c.closed = false ∧ ∃ q, c.queue = none :: q
    | .take p => c.exited = false ∧ c.inflight = none ∧ c.closed = false ∧ ∃ q, c.queue = some p :: q := by
  unfold Cons.stepKind
  by_cases hex : c.exited = true
  · simp [hex]
  · have hex' : c.exited = false := by simpa using hex
    simp only [hex', Bool.false_eq_true, if_false]
    cases hin : c.inflight with
    | some p =>
      simp only
      by_cases hst : c.stalled = true
      · simp [hst]
      · simp only [hst, if_false]
        by_cases hp : c.panicAt ≠ 0 ∧ c.delivered.length + 1 = c.panicAt
        · simp [hp]
        · simp [hp]
    | none =>
      simp only
      by_cases hcl : c.closed = true
      · simp [hcl]
      · have hcl' : c.closed = false := by simpa using hcl
        simp only [hcl', Bool.false_eq_true, if_false]
        cases hq : c.queue with
        | nil => simp
        | cons e q => cases e <;> simp

theorem step_inv (pub : List Pkt) (st : Nat) (c : Cons) (h : CInv pub st c) : CInv pub st c.step.1 := by
  have hs := stepKind_spec c
  unfold Cons.step
  cases hk : c.stepKind with
  | idle => exact h
  | blocked => exact h
  | panic =>
    rw [hk] at hs
    obtain ⟨hex, p, hin⟩ := hs
    simp only [Cons.apply]
    refine ⟨h.joined_le, h.sent_sub, by intro hr; simp at hr, by intro he; simp at he, h.pre,
      by intro hr; simp at hr, ?_, by intro _; exact ⟨rfl, rfl⟩⟩
    have := h.calls; simp [hex] at this; simp [this]
  | deliver p =>
    rw [hk] at hs
    obtain ⟨hex, hin⟩ := hs
    have hshape := h.shape hex
    simp only [Cons.apply]
    refine ⟨h.joined_le, h.sent_sub, h.sent_all, ?_, ?_, h.reg, h.calls, h.ex⟩
    · intro _
      simp only [Cons.pending, hin, Option.toList] at hshape ⊢
      simpa using hshape
    · simp only [Cons.pending, hin, Option.toList] at hshape
      rw [← hshape]
      simp
  | exit =>
    rw [hk] at hs
    obtain ⟨hex, hin, hcl⟩ := hs
    simp only [Cons.apply]
    refine ⟨h.joined_le, h.sent_sub, by intro hr; simp at hr, by intro he; simp at he, h.pre,
      by intro hr; simp at hr, ?_, by intro _; exact ⟨rfl, hcl⟩⟩
    have := h.calls; simp [hex] at this; simp [this]
  | sentinel =>
    rw [hk] at hs
    obtain ⟨hex, hin, hcl, q, hq⟩ := hs
    have hshape := h.shape hex
    simp only [Cons.apply]
    refine ⟨h.joined_le, h.sent_sub, h.sent_all, ?_, h.pre, h.reg, h.calls, h.ex⟩
    intro _
    simp only [Cons.pending, hin, hq] at hshape ⊢
    simpa using hshape
  | take p =>
    rw [hk] at hs
    obtain ⟨hex, hin, hcl, q, hq⟩ := hs
    have hshape := h.shape hex
    simp only [Cons.apply]
    refine ⟨h.joined_le, h.sent_sub, h.sent_all, ?_, h.pre, h.reg, h.calls, h.ex⟩
    intro _
    simp only [Cons.pending, hin, hq] at hshape ⊢
    simpa using hshape

end IpcHub.Media
