/- Helper lemmas for C19: which of the registered prefix sets a well-formed first line starts with -/
import IpcHub.Model.MuxInst
import IpcHub.Lemmas.Patricia
import IpcHub.Lemmas.Sniffer
namespace IpcHub.MuxInst
open IpcHub.Patricia IpcHub.Sniffer IpcHub.MuxSpec

local notation "Bytes" => List UInt8

/-- a separator byte that does not occur in `k` stops `k` from reaching past it -/
theorem isPrefixOf_sep (k m t : Bytes) (c : UInt8) (hc : c ∉ k) :
    k.isPrefixOf (m ++ c :: t) = k.isPrefixOf m := by
  induction m generalizing k with
  | nil =>
    cases k with
    | nil => simp
    | cons x k' =>
      have : x ≠ c := fun e => hc (by simp [e])
      simp [List.isPrefixOf, this]
  | cons y m' ih =>
    cases k with
    | nil => simp
    | cons x k' =>
      have hk' : c ∉ k' := fun h => hc (by simp [h])
      simp [List.isPrefixOf, ih k' hk']

/-- two tokens followed by the same separator: the shorter cannot be continued by the separator -/
theorem isPrefixOf_sep_sep (k m x y : Bytes) (c : UInt8) (hk : c ∉ k) (hm : c ∉ m) :
    (k ++ c :: x).isPrefixOf (m ++ c :: y) = (k == m && x.isPrefixOf y) := by
  induction k generalizing m with
  | nil =>
    cases m with
    | nil => simp [List.isPrefixOf]
    | cons y0 m' =>
      have : c ≠ y0 := fun e => hm (by simp [e])
      simp [List.isPrefixOf, this]
  | cons x0 k' ih =>
    have hk' : c ∉ k' := fun h => hk (by simp [h])
    cases m with
    | nil =>
      have : x0 ≠ c := fun e => hk (by simp [e])
      simp [List.isPrefixOf, this]
    | cons y0 m' =>
      have hm' : c ∉ m' := fun h => hm (by simp [h])
      simp only [List.cons_append, List.isPrefixOf, ih m' hk' hm']
      rw [show ((x0 :: k') == (y0 :: m')) = (x0 == y0 && k' == m') from rfl, Bool.and_assoc]

def listed : List Bytes := rtspOnlyMethods ++ httpMethods

theorem beq_comm_bytes (a b : Bytes) : (a == b) = (b == a) := by
  by_cases e : a = b
  · subst e; rfl
  · have e' : ¬ b = a := fun h => e h.symm
    rw [beq_eq_false_iff_ne.mpr e, beq_eq_false_iff_ne.mpr e']

theorem listed_no_blank : listed.all (fun k => !k.contains 32) = true := by decide

/-- a listed method is a prefix of a token that extends no listed method only when it is the token -/
theorem listed_prefix_eq (m k : Bytes) (hext : extendsListed m = false) (hk : k ∈ listed) :
    k.isPrefixOf m = (k == m) := by
  unfold extendsListed at hext
  rw [List.any_eq_false] at hext
  have := hext k hk
  by_cases e : k = m
  · subst e; simp
  · have hne : (k == m) = false := by simpa using e
    have hne' : (k != m) = true := by simpa using e
    simp only [hne', Bool.and_true] at this
    rw [hne]; exact Bool.eq_false_iff.mpr this

/-- the plain (blank-free) listed strings: the line starts with one of them iff its method token is one -/
theorem any_plain (S : List Bytes) (hS : ∀ k ∈ S, k ∈ listed) (m tail : Bytes) (hext : extendsListed m = false) :
    S.any (fun k => k.isPrefixOf (m ++ 32 :: tail)) = S.contains m := by
  induction S with
  | nil => simp
  | cons k ks ih =>
    have hk := hS k (by simp)
    have hnb : (32 : UInt8) ∉ k := by
      have := List.all_eq_true.mp listed_no_blank k hk
      simpa using this
    rw [List.any_cons, isPrefixOf_sep k m tail 32 hnb, listed_prefix_eq m k hext hk, ih (fun x hx => hS x (by simp [hx])),
        List.contains_cons]
    rw [beq_comm_bytes k m]

/-- the end of the request line: nothing follows, or CR / LF -/
def lineEnd (rest : Bytes) : Prop := rest = [] ∨ ∃ c r, rest = c :: r ∧ (c = 13 ∨ c = 10)

theorem isPrefixOf_lineEnd (k v rest : Bytes) (h : lineEnd rest) (h13 : (13 : UInt8) ∉ k) (h10 : (10 : UInt8) ∉ k) :
    k.isPrefixOf (v ++ rest) = k.isPrefixOf v := by
  rcases h with h | ⟨c, r, h, hc⟩
  · subst h; simp
  · subst h
    rcases hc with hc | hc <;> subst hc
    · exact isPrefixOf_sep k v r 13 h13
    · exact isPrefixOf_sep k v r 10 h10

def specials : List Bytes := ["OPTIONS * RTSP", "OPTIONS * rtsp", "OPTIONS rtsp://", "OPTIONS RTSP://"].map ascii

theorem special_forms :
    specials = [optionsMethod ++ 32 :: ([42] ++ 32 :: ascii "RTSP"), optionsMethod ++ 32 :: ([42] ++ 32 :: ascii "rtsp"),
                optionsMethod ++ 32 :: ascii "rtsp://", optionsMethod ++ 32 :: ascii "RTSP://"] := by decide

/-- the four OPTIONS forms of `MatchRTSP` against a well-formed line -/
theorem any_specials (m t v rest : Bytes) (hm : tokenOK m = true) (ht : tokenOK t = true) (hend : lineEnd rest) :
    specials.any (fun k => k.isPrefixOf (m ++ 32 :: (t ++ 32 :: (v ++ rest)))) =
      (optionsMethod == m && optionsIsRtsp t v) := by
  have hm' : (32 : UInt8) ∉ m := by simpa [tokenOK] using hm
  have ht' : (32 : UInt8) ∉ t := by simpa [tokenOK] using ht
  have ho : (32 : UInt8) ∉ optionsMethod := by decide
  have hs : (32 : UInt8) ∉ ([42] : Bytes) := by decide
  rw [special_forms]
  simp only [List.any_cons, List.any_nil, Bool.or_false]
  rw [isPrefixOf_sep_sep optionsMethod m _ _ 32 ho hm', isPrefixOf_sep_sep optionsMethod m _ _ 32 ho hm',
      isPrefixOf_sep_sep optionsMethod m _ _ 32 ho hm', isPrefixOf_sep_sep optionsMethod m _ _ 32 ho hm',
      isPrefixOf_sep_sep [42] t _ _ 32 hs ht', isPrefixOf_sep_sep [42] t _ _ 32 hs ht',
      isPrefixOf_lineEnd (ascii "RTSP") v rest hend (by decide) (by decide),
      isPrefixOf_lineEnd (ascii "rtsp") v rest hend (by decide) (by decide),
      isPrefixOf_sep (ascii "rtsp://") t _ 32 (by decide), isPrefixOf_sep (ascii "RTSP://") t _ 32 (by decide)]
  unfold optionsIsRtsp isRtspVersion isRtspUrl
  have ea : ascii "*" = [42] := by decide
  have ec : (([42] : Bytes) == t) = (t == [42]) := beq_comm_bytes _ _
  rw [ea, ec]
  generalize (optionsMethod == m) = a
  generalize (t == [42]) = b
  generalize (ascii "RTSP").isPrefixOf v = p
  generalize (ascii "rtsp").isPrefixOf v = q
  generalize (ascii "rtsp://").isPrefixOf t = r
  generalize (ascii "RTSP://").isPrefixOf t = s
  cases a <;> cases b <;> cases p <;> cases q <;> cases r <;> cases s <;> rfl

theorem genRegsD_eq : genRegsD = [(.rtsp, specials ++ rtspOnlyMethods), (.http, httpMethods)] := by decide

theorem genTrees_eq : genTrees = [newTree (specials ++ rtspOnlyMethods), newTree httpMethods] := by
  unfold genTrees; rw [genRegsD_eq]; rfl

theorem svcOfRoute_0 : svcOfRoute (.service 0) = .rtsp := by
  unfold svcOfRoute; rw [genRegsD_eq]; rfl

theorem svcOfRoute_1 : svcOfRoute (.service 1) = .http := by
  unfold svcOfRoute; rw [genRegsD_eq]; rfl

theorem svcOfRoute_closed : svcOfRoute .closed = .none := rfl

theorem any_prefix_mono (S : List Bytes) (v s : Bytes) (hv : v <+: s)
    (h : S.any (fun k => k.isPrefixOf v) = true) : S.any (fun k => k.isPrefixOf s) = true := by
  rw [List.any_eq_true] at h ⊢
  obtain ⟨k, hk, hp⟩ := h
  exact ⟨k, hk, List.isPrefixOf_iff_prefix.mpr ((List.isPrefixOf_iff_prefix.mp hp).trans hv)⟩

theorem svcOfRoute_ge2 (j : Nat) : svcOfRoute (.service (j + 2)) = .none := by
  unfold svcOfRoute; rw [genRegsD_eq]; rfl

/-- `Listener.serve` of the current tree under EVERY socket script: whoever gets the
    connection, the stream really starts with one of that matcher's strings; a handed-over
    connection is open, its sniff deadline cleared, nothing of the stream lost; otherwise
    the connection is closed. -/
theorem serve_gen_any (s : Bytes) (evs : List Ev) :
    ∃ r, genServe s evs = .ok r ∧
      (svcOfRoute r.route = .rtsp → (specials ++ rtspOnlyMethods).any (fun k => k.isPrefixOf s) = true) ∧
      (svcOfRoute r.route = .http → httpMethods.any (fun k => k.isPrefixOf s) = true) ∧
      (r.route = .closed ↔ svcOfRoute r.route = .none) ∧
      (r.route ≠ .closed → r.st.closed = false ∧ (genTimeoutSet = true → r.st.deadline = false) ∧
        pending r.st ++ r.st.rem = s) ∧
      (r.route = .closed → r.st.closed = true) := by
  obtain ⟨r, hr, hsvc, hcl⟩ := serve_any genTimeoutSet genTrees s evs
  refine ⟨r, hr, ?_⟩
  rw [genTrees_eq] at hsvc
  cases hroute : r.route with
  | closed =>
    refine ⟨?_, ?_, ?_, ?_, fun _ => hcl hroute⟩
    · intro h; rw [svcOfRoute_closed] at h; cases h
    · intro h; rw [svcOfRoute_closed] at h; cases h
    · simp [svcOfRoute_closed]
    · intro h; exact absurd rfl h
  | service j =>
    obtain ⟨t, v, hget, hv, hm, hc, hd, hp⟩ := hsvc j hroute
    have hopen : Route.service j ≠ .closed → r.st.closed = false ∧ (genTimeoutSet = true → r.st.deadline = false) ∧
        pending r.st ++ r.st.rem = s := fun _ => ⟨hc, hd, hp⟩
    match j, hget with
    | 0, hget =>
      simp only [List.getElem?_cons_zero, Option.some.injEq] at hget
      subst hget
      have hm' : (specials ++ rtspOnlyMethods).any (fun k => k.isPrefixOf v) = true := by
        rw [← matchNode_newNode_prefix (maxLen (specials ++ rtspOnlyMethods) + 1) _ (by decide) (Nat.lt_succ_self _) v]
        exact hm
      refine ⟨fun _ => any_prefix_mono _ v s hv hm', ?_, ?_, hopen, fun h => by cases h⟩
      · intro h; rw [svcOfRoute_0] at h; cases h
      · simp [svcOfRoute_0]
    | 1, hget =>
      simp only [List.getElem?_cons_succ, List.getElem?_cons_zero, Option.some.injEq] at hget
      subst hget
      have hm' : httpMethods.any (fun k => k.isPrefixOf v) = true := by
        rw [← matchNode_newNode_prefix (maxLen httpMethods + 1) _ (by decide) (Nat.lt_succ_self _) v]
        exact hm
      refine ⟨?_, fun _ => any_prefix_mono _ v s hv hm', ?_, hopen, fun h => by cases h⟩
      · intro h; rw [svcOfRoute_1] at h; cases h
      · simp [svcOfRoute_1]
    | j + 2, hget => simp at hget

/-- which service the matchers of the current source tree pick for a well-formed first line:
    exactly the one the decision rule of the property names -/
theorem routeOf_gen (m t v rest : Bytes) (hm : tokenOK m = true) (ht : tokenOK t = true)
    (hext : extendsListed m = false) (hend : lineEnd rest) :
    svcOfRoute (routeOf genTrees (requestLine m t v ++ rest) 0) = classify m t v := by
  have eline : requestLine m t v ++ rest = m ++ 32 :: (t ++ 32 :: (v ++ rest)) := by simp [requestLine]
  rw [genTrees_eq, eline]
  simp only [routeOf]
  rw [matchInput_prefix _ (by decide), matchInput_prefix _ (by decide), List.any_append,
      any_specials m t v rest hm ht hend,
      any_plain rtspOnlyMethods (fun k hk => by simp [listed, hk]) m _ hext,
      any_plain httpMethods (fun k hk => by simp [listed, hk]) m _ hext]
  unfold classify
  by_cases e : m = optionsMethod
  · subst e
    have r1 : rtspOnlyMethods.contains optionsMethod = false := by decide
    have r2 : httpMethods.contains optionsMethod = true := by decide
    simp only [BEq.rfl, Bool.true_and, r1, Bool.or_false, r2, if_true]
    cases optionsIsRtsp t v <;> simp [svcOfRoute_0, svcOfRoute_1]
  · have e1 : (optionsMethod == m) = false := beq_eq_false_iff_ne.mpr (fun h => e h.symm)
    have e2 : (m == optionsMethod) = false := beq_eq_false_iff_ne.mpr e
    simp only [e1, Bool.false_and, Bool.false_or, e2, Bool.false_eq_true, if_false]
    cases rtspOnlyMethods.contains m <;> cases httpMethods.contains m <;>
      simp [svcOfRoute_0, svcOfRoute_1, svcOfRoute_closed]

end IpcHub.MuxInst
