/-
Helper lemmas for Props/C12.lean (RTSP session automaton).
-/
import IpcHub.Model.RtspObs
import IpcHub.Model.RtspSessionInst
namespace IpcHub.Rtsp
open IpcHub.RtspSpec

/-- split every branch of an unfolded handler and close the leaves by `rfl` -/
macro "crush" : tactic => `(tactic| repeat' (first | rfl | split | (intro _) | (dsimp only)))

theorem gateEq_spec {g h : Status → Method → Bool} (hg : gateEq g h = true) (st : Status) (m : Method) :
    g st m = h st m := by
  simp only [gateEq, allStatus, allMethods, List.all_cons, List.all_nil, Bool.and_true, Bool.and_eq_true,
    beq_iff_eq] at hg
  cases st <;> cases m <;> simp_all

theorem cfgOk_spec {cfg : Cfg} (h : cfgOk cfg = true) :
    cfg.playAgainResponds = true ∧ cfg.playingNeedsOk = true ∧ ∀ st m, cfg.gate st m = refGate st m := by
  simp only [cfgOk, Bool.and_eq_true] at h
  exact ⟨h.1.1.1.1, h.1.1.1.2, gateEq_spec h.1.1.2⟩

theorem cfgOk_sid {cfg : Cfg} (h : cfgOk cfg = true) : cfg.sidCarried = true := by
  simp only [cfgOk, Bool.and_eq_true] at h
  exact h.1.2

theorem cfgOk_frames {cfg : Cfg} (h : cfgOk cfg = true) : cfg.framesDropped = true := by
  simp only [cfgOk, Bool.and_eq_true] at h
  exact h.2

/-! ### one response per request -/

theorem respsOf_single (r : Resp) : respsOf [.resp r] = [r] := rfl

set_option linter.unusedSimpArgs false

theorem onPlay_resps (cfg : Cfg) (h : cfg.playAgainResponds = true) (s : Sess) (r : Req) (e : Env) (resp : Resp) :
    ∃ x, respsOf (onPlay cfg s r e resp).2 = [x] ∧ x.cseq = resp.cseq := by
  unfold onPlay
  split
  · simp [respsOf]
  · split
    · exact ⟨_, rfl, rfl⟩
    · split
      · exact ⟨_, rfl, rfl⟩
      · split
        · exact ⟨_, rfl, rfl⟩
        · split
          · exact ⟨_, rfl, rfl⟩
          · split
            · exact ⟨_, rfl, rfl⟩
            · exact ⟨_, rfl, rfl⟩
          · split
            · exact ⟨_, rfl, rfl⟩
            · exact ⟨_, rfl, rfl⟩

theorem onRecord_resps (s : Sess) (e : Env) (resp : Resp) :
    ∃ x, respsOf (onRecord s e resp).2 = [x] ∧ x.cseq = resp.cseq := by
  unfold onRecord
  repeat' split
  all_goals exact ⟨_, rfl, rfl⟩

theorem onDescribe_cseq (s : Sess) (r : Req) (e : Env) (resp : Resp) :
    (onDescribe s r e resp).2.cseq = resp.cseq := by
  unfold onDescribe
  crush

theorem onAnnounce_cseq (s : Sess) (r : Req) (e : Env) (resp : Resp) :
    (onAnnounce s r e resp).2.cseq = resp.cseq := by
  unfold onAnnounce
  crush

theorem onSetup_cseq (s : Sess) (r : Req) (e : Env) (resp : Resp) :
    (onSetup s r e resp).2.cseq = resp.cseq := by
  unfold onSetup
  crush

/-- every request on an open session gets exactly one response, which echoes the CSeq -/
theorem step_one_response (cfg : Cfg) (h : cfg.playAgainResponds = true) (s : Sess) (r : Req) (e : Env)
    (hc : s.closed = false) :
    ∃ x, respsOf (step cfg s r e).2 = [x] ∧ x.cseq = r.cseq := by
  unfold step
  simp only [hc, Bool.false_eq_true, ↓reduceIte]
  split
  · exact ⟨_, rfl, rfl⟩
  · split
    · refine ⟨mkResp r, ?_, rfl⟩
      simp [finish, respsOf]
      repeat' split
      all_goals rfl
    · split
      · exact ⟨_, rfl, rfl⟩
      · split
        · exact ⟨_, rfl, onDescribe_cseq s r e (mkResp r)⟩
        · exact ⟨_, rfl, onAnnounce_cseq s r e (mkResp r)⟩
        · exact ⟨_, rfl, onSetup_cseq s r e (mkResp r)⟩
        · exact onRecord_resps s e (mkResp r)
        · exact onPlay_resps cfg h s r e (mkResp r)
        · exact ⟨_, rfl, rfl⟩

/-! ### 455 is inert -/

/-- split every branch and close the leaves with the given tactic -/
macro "crushBy " t:tactic : tactic => `(tactic| repeat' (first | ($t; done) | split | (dsimp only)))

theorem onDescribe_not455 (s : Sess) (r : Req) (e : Env) (resp : Resp) (h : resp.code = 200) :
    (onDescribe s r e resp).2.code ≠ 455 := by
  unfold onDescribe
  crushBy (simp [h])

theorem onAnnounce_not455 (s : Sess) (r : Req) (e : Env) (resp : Resp) (h : resp.code = 200) :
    (onAnnounce s r e resp).2.code ≠ 455 := by
  unfold onAnnounce
  crushBy (simp [h])

theorem onSetup_not455 (s : Sess) (r : Req) (e : Env) (resp : Resp) (h : resp.code = 200) :
    (onSetup s r e resp).2.code ≠ 455 := by
  unfold onSetup
  crushBy (simp [h])

theorem mem_respsOf_single {x r : Resp} (h : x ∈ respsOf [.resp r]) : x = r := by
  simpa [respsOf] using h

theorem onRecord_455_inert (s : Sess) (e : Env) (resp : Resp) (h : resp.code = 200) (x : Resp)
    (hx : x ∈ respsOf (onRecord s e resp).2) (h455 : x.code = 455) : (onRecord s e resp).1 = s := by
  unfold onRecord at hx ⊢
  split
  · rfl
  · split
    · rfl
    · split
      · rfl
      · rename_i h1 h2 h3
        simp [h1, h2, h3, respsOf] at hx
        subst hx
        omega

theorem onPlay_455_inert (cfg : Cfg) (s : Sess) (r : Req) (e : Env) (resp : Resp) (h : resp.code = 200) (x : Resp)
    (hx : x ∈ respsOf (onPlay cfg s r e resp).2) (h455 : x.code = 455) : (onPlay cfg s r e resp).1 = s := by
  unfold onPlay at hx ⊢
  split
  · rfl
  · rename_i h1
    split
    · rfl
    · rename_i h2
      simp only [h1, h2, Bool.false_eq_true, ↓reduceIte] at hx
      split
      · rfl
      · rename_i st hl
        simp only [hl] at hx
        split
        · rfl
        · rename_i h3
          simp only [h3, Bool.false_eq_true, ↓reduceIte] at hx
          exfalso
          revert hx
          crushBy (simp [respsOf, h]; intro hx; subst hx; simp [h] at h455)

/-- a 455 response means the request changed nothing at all -/
theorem step_455_inert (cfg : Cfg) (s : Sess) (r : Req) (e : Env) (x : Resp)
    (hx : x ∈ respsOf (step cfg s r e).2) (h455 : x.code = 455) : (step cfg s r e).1 = s := by
  have hm : (mkResp r).code = 200 := rfl
  unfold step at hx ⊢
  split
  · rfl
  · rename_i hc
    simp only [hc, ↓reduceIte] at hx
    split
    · rfl
    · rename_i ho
      simp only [ho, ↓reduceIte] at hx
      split
      · rename_i ht
        simp only [ht, ↓reduceIte] at hx
        exfalso
        have hf : respsOf (Ev.resp (mkResp r) :: (finish s).2) = [mkResp r] := by
          simp [respsOf, finish]
          crushBy (simp)
        have hx' : x ∈ respsOf (Ev.resp (mkResp r) :: (finish s).2) := hx
        rw [hf] at hx'
        simp at hx'
        subst hx'
        simp [mkResp] at h455
      · rename_i ht
        simp only [ht, ↓reduceIte] at hx
        split
        · rfl
        · rename_i hg
          simp only [hg, ↓reduceIte] at hx
          split
          · exfalso
            rename_i hmeth
            simp only [hmeth] at hx
            have := mem_respsOf_single hx
            exact onDescribe_not455 s r e _ hm (this ▸ h455)
          · exfalso
            rename_i hmeth
            simp only [hmeth] at hx
            have := mem_respsOf_single hx
            exact onAnnounce_not455 s r e _ hm (this ▸ h455)
          · exfalso
            rename_i hmeth
            simp only [hmeth] at hx
            have := mem_respsOf_single hx
            exact onSetup_not455 s r e _ hm (this ▸ h455)
          · rename_i hmeth
            simp only [hmeth] at hx
            exact onRecord_455_inert s e _ hm x hx h455
          · rename_i hmeth
            simp only [hmeth] at hx
            exact onPlay_455_inert cfg s r e _ hm x hx h455
          · rfl

end IpcHub.Rtsp
