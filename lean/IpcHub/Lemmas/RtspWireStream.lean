/- Helper lemmas for C14: the receive loop over a concatenation of messages and frames;
   absence of panics -/
import IpcHub.Lemmas.RtspWireResp
namespace IpcHub.RtspWire
open IpcHub.RtspSpec (fieldNameOK fieldValueOK tokenChar uriOK decimal)

local notation "Bytes" => List UInt8

/-! ### anything the server or its pull client puts on an interleaved connection -/

inductive Item (U : Type) where
  | request (method : Bytes) (url : U) (header : Header) (body : Bytes)
  | response (code : Nat) (status : Bytes) (header : Header) (body : Bytes)
  | frame (channel : Nat) (data : Bytes)

/-- the bytes the real writers emit for an item -/
def Item.wire {U : Type} (ops : UrlOps U) (table : List (Nat × Bytes)) (chans : List Int) : Item U → Bytes
  | .request m u h b => writeRequest ops { method := m, url := u, proto := [], header := h, body := b }
  | .response c st h b => writeResponse table c st h b
  | .frame c d => (writePacket chans c d).getD []

/-- the header a reader delivers for a written header: names canonical, several values joined,
    Content-Length as the writer set it, in the order written (sorted by name) -/
def readBackHeader (cfg : Cfg) (h : Header) (body : Bytes) : Header :=
  (writtenFields h body).map (fun f => (canonKey cfg f.1, [f.2]))

/-- what `receive` must hand to its handler for an item -/
def Item.event {U : Type} (cfg : Cfg) (table : List (Nat × Bytes)) : Item U → Event U
  | .request m u h b => .request { method := m, url := u, proto := protoBytes, header := readBackHeader cfg h b, body := b }
  | .response c st h b =>
    .response { proto := protoBytes, statusCode := (c : Int), status := (decimal c ++ 0x20 :: statusTextOf table c st), header := readBackHeader cfg h b, body := b }
  | .frame c d => .packet ⟨c, d, (match rtpUnmarshal d with | .ok off => if c = 0 ∨ c = 2 then off else 0 | _ => 0)⟩

/-- the header block of a message as written: well-formed field lines within the line limit,
    pairwise different canonical names, no stray Content-Length -/
structure HeaderOK (cfg : Cfg) (h : Header) (body : Bytes) : Prop where
  fields : FieldsOK cfg (writtenFields h body)
  distinct : ((writtenFields h body).map (fun f => canonKey cfg f.1)).Nodup
  stray : body = [] → ∀ f ∈ writtenFields h body, canonKey cfg f.1 ≠ fieldContentLength

/-- emit-able items -/
def Item.OK {U : Type} (cfg : Cfg) (ops : UrlOps U) (table : List (Nat × Bytes)) (chans : List Int) (ml mb : Nat) : Item U → Prop
  | .request m u h b =>
    fieldNameOK m = true ∧ m.head? ≠ some 0x24 ∧ m.length ≥ 4 ∧ m.take 4 ≠ rtspProto.take 4 ∧
    uriOK (ops.print u) = true ∧ ops.parse (ops.print u) = some u ∧ ops.setHost u (ops.host u) = u ∧
    trimSuffixColon (ops.host u) = ops.host u ∧ (ops.print u = [0x2A] → m = methodOptions) ∧
    m.length + 1 + (ops.print u).length + 9 ≤ ml ∧ HeaderOK cfg h b ∧ b.length ≤ mb
  | .response c st h b =>
    100 ≤ c ∧ c ≤ 999 ∧ (0x0A : UInt8) ∉ statusTextOf table c st ∧ 13 + (statusTextOf table c st).length ≤ ml ∧
    HeaderOK cfg h b ∧ b.length ≤ mb
  | .frame c d =>
    c < 4 ∧ (∃ ch, chans[c]? = some ch ∧ 0 ≤ ch ∧ ch ≤ 255 ∧ findChannel chans ch 0 = some c) ∧ d.length ≤ 65535 ∧
    ((c = 0 ∨ c = 2) → ∃ off, rtpUnmarshal d = .ok off)

/-- one `receive` on an item followed by anything yields the item's event and leaves the
    stream positioned right behind the item -/
theorem receive_item {U : Type} (cfg : Cfg) (ops : UrlOps U) (table : List (Nat × Bytes)) (chans : List Int) (ml mb : Nat)
    (hml : cfg.maxLine = some ml) (hmb : cfg.maxBody = some mb) (hmb63 : mb < 2 ^ 63)
    (hcl : canonKey cfg fieldContentLength = fieldContentLength)
    (it : Item U) (hok : it.OK cfg ops table chans ml mb) (rest : Bytes) :
    receive cfg ops chans (it.wire ops table chans ++ rest) = .ok (it.event cfg table, rest) := by
  cases it with
  | request m u h b =>
    obtain ⟨h1, h2, h3, h4, h5, h6, h7, h8, h9, h10, h11, h12⟩ := hok
    have hr := readRequest_written cfg ops ml mb hml hmb hmb63 m u [] h b rest h1 h2 h5 h6 h7 h8 h9 h10
      h11.fields h11.distinct hcl h11.stray h12
    simp only [Item.wire, Item.event, readBackHeader]
    have hw : ∃ t, writeRequest ops { method := m, url := u, proto := [], header := h, body := b } ++ rest = m ++ t := by
      refine ⟨[0x20] ++ ops.print u ++ ascii " RTSP/1.0\r\n" ++ writeHeader (setContentLength h b) ++ b ++ rest, ?_⟩
      simp [writeRequest]
    obtain ⟨t, ht⟩ := hw
    unfold receive
    have l4 : ¬ (writeRequest ops { method := m, url := u, proto := [], header := h, body := b } ++ rest).length < 4 := by
      rw [ht]; simp; omega
    have hd : (writeRequest ops { method := m, url := u, proto := [], header := h, body := b } ++ rest).head? ≠ some 0x24 := by
      rw [ht]
      cases m with
      | nil => simp at h3
      | cons x xs => simpa using h2
    have h4' : (writeRequest ops { method := m, url := u, proto := [], header := h, body := b } ++ rest).take 4 ≠ rtspProto.take 4 := by
      rw [ht, List.take_append_of_le_length h3]; exact h4
    rw [if_neg l4, if_neg hd, if_neg h4', hr]
  | response c st h b =>
    obtain ⟨h1, h2, h3, h4, h5, h6⟩ := hok
    have hr := readResponse_written cfg ml mb hml hmb hmb63 table c st h b rest h1 h2 h3 h4
      h5.fields h5.distinct hcl h5.stray h6
    simp only [Item.wire, Item.event, readBackHeader]
    have hw : ∃ t, writeResponse table c st h b ++ rest = protoBytes ++ t := by
      refine ⟨[0x20] ++ itoa c ++ [0x20] ++ statusTextOf table c st ++ crlf ++ writeHeader (setContentLength h b) ++ b ++ rest, ?_⟩
      simp [writeResponse, ascii_status_prefix]
    obtain ⟨t, ht⟩ := hw
    unfold receive
    have l4 : ¬ (writeResponse table c st h b ++ rest).length < 4 := by rw [ht]; simp [protoBytes]
    have hd : (writeResponse table c st h b ++ rest).head? ≠ some 0x24 := by rw [ht]; simp [protoBytes]
    have h4' : (writeResponse table c st h b ++ rest).take 4 = rtspProto.take 4 := by
      rw [ht]; simp [protoBytes]; decide
    rw [if_neg l4, if_neg hd, if_pos h4', hr]
  | frame c d =>
    obtain ⟨h1, ⟨ch, h2, h3, h4, h5⟩, h6, h7⟩ := hok
    simp only [Item.wire, Item.event]
    by_cases hm : c = 0 ∨ c = 2
    · obtain ⟨off, hoff⟩ := h7 hm
      obtain ⟨w, hw, hr⟩ := readPacket_writePacket cfg chans c ch d rest off h1 h2 ⟨h3, h4⟩ h5 h6 (by simp [hm, hoff])
      rw [hw]
      simp only [Option.getD_some]
      unfold receive
      have hw' : w = [0x24, UInt8.ofNat ch.toNat, UInt8.ofNat (d.length % 65536 / 256), UInt8.ofNat (d.length % 65536 % 256)] ++ d := by
        have : ¬ c ≥ 4 := by omega
        have hr' : ¬ (ch < 0 ∨ ch > 255) := by omega
        simp [writePacket, this, h2, hr'] at hw
        rw [← hw]; simp
      have l4 : ¬ (w ++ rest).length < 4 := by rw [hw']; simp
      have hd : (w ++ rest).head? = some 0x24 := by rw [hw']; simp
      rw [if_neg l4, if_pos hd, hr]
      simp [hoff, hm]
    · obtain ⟨w, hw, hr⟩ := readPacket_writePacket cfg chans c ch d rest 0 h1 h2 ⟨h3, h4⟩ h5 h6 (by simp [hm])
      rw [hw]
      simp only [Option.getD_some]
      unfold receive
      have hw' : w = [0x24, UInt8.ofNat ch.toNat, UInt8.ofNat (d.length % 65536 / 256), UInt8.ofNat (d.length % 65536 % 256)] ++ d := by
        have : ¬ c ≥ 4 := by omega
        have hr' : ¬ (ch < 0 ∨ ch > 255) := by omega
        simp [writePacket, this, h2, hr'] at hw
        rw [← hw]; simp
      have l4 : ¬ (w ++ rest).length < 4 := by rw [hw']; simp
      have hd : (w ++ rest).head? = some 0x24 := by rw [hw']; simp
      have : (match rtpUnmarshal d with | .ok off => if c = 0 ∨ c = 2 then off else 0 | _ => 0) = 0 := by
        cases rtpUnmarshal d <;> simp [hm]
      rw [if_neg l4, if_pos hd, hr]
      simp [this]

/-- the read loop over any concatenation of emit-able items yields exactly their events, in
    order, and ends with EOF -/
theorem receiveAll_items {U : Type} (cfg : Cfg) (ops : UrlOps U) (table : List (Nat × Bytes)) (chans : List Int) (ml mb : Nat)
    (hml : cfg.maxLine = some ml) (hmb : cfg.maxBody = some mb) (hmb63 : mb < 2 ^ 63)
    (hcl : canonKey cfg fieldContentLength = fieldContentLength)
    (items : List (Item U)) (hok : ∀ it ∈ items, it.OK cfg ops table chans ml mb) (fuel : Nat) (hf : fuel > items.length) :
    receiveAll cfg ops chans fuel ((items.map (fun it => it.wire ops table chans)).flatten) =
      (items.map (fun it => it.event cfg table), .eof) := by
  induction items generalizing fuel with
  | nil =>
    cases fuel with
    | zero => simp at hf
    | succ fuel => simp [receiveAll, receive]
  | cons it its ih =>
    cases fuel with
    | zero => simp at hf
    | succ fuel =>
      simp only [List.map_cons, List.flatten_cons]
      rw [receiveAll, receive_item cfg ops table chans ml mb hml hmb hmb63 hcl it (hok it (by simp))]
      simp only
      rw [ih (fun x hx => hok x (by simp [hx])) fuel (by simp at hf; omega)]

end IpcHub.RtspWire
