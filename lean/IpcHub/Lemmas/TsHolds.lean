/-
Lemmas for C09, composition: the whole specification predicate `TsSpec.holds` — the one the
driver evaluates on the implementation's bytes — holds of the bytes the MODEL writes for every
list of codec frames in the property's domain.
-/
import IpcHub.Lemmas.TsStream
import IpcHub.Lemmas.TsEs
import IpcHub.Model.TsInst
import IpcHub.Spec.TsSource
namespace IpcHub.TsLemmas
open IpcHub.Ts IpcHub.TsSpec

/-- a nanosecond time stamp in the property's domain: not negative, below 2^33 ticks of 90 kHz -/
def TickOk (ns : Int) : Prop := 0 ≤ ns ∧ toTicks ns < 2^33

/-- a codec frame in the property's domain: a video frame is a NAL unit (not empty); an AAC frame
    fits the 13-bit ADTS frame_length; time stamps as above -/
def AvOk (f : AvFrame) : Prop :=
  match f.media with
  | .video => f.payload ≠ [] ∧ TickOk f.dtsNs ∧ TickOk f.ptsNs
  | .audio => f.payload.length + 7 < 2^13 ∧ TickOk f.ptsNs
  | .other => True

/-- an AudioSpecificConfig that ADTS can express -/
def AscOk (a : Asc) : Prop :=
  1 ≤ a.objectType ∧ a.objectType ≤ 4 ∧ a.channelConfig < 8 ∧ a.samplingIndex ≤ 12 ∧ a.extSamplingIndex ≤ 12

theorem toTicks_nonneg (ns : Int) (h : 0 ≤ ns) : 0 ≤ toTicks ns := by
  unfold toTicks
  exact Int.tdiv_nonneg (by omega) (by decide)

theorem tick_mod (ns : Int) (h : TickOk ns) : ticksNat ns % 2^33 = (toTicks ns).toNat := by
  have h0 := toTicks_nonneg ns h.1
  have h1 := h.2
  show (toTicks ns).toNat % 2^33 = (toTicks ns).toNat
  apply Nat.mod_eq_of_lt
  omega

theorem zipCheck_cons_ok {α : Type} (what : String) (chk : α → Pes → Except String Unit) (a : α) (as : List α)
    (p : Pes) (ps : List Pes) (h : chk a p = .ok ()) :
    zipCheck what chk (a :: as) (p :: ps) = zipCheck what chk as ps := by
  simp [zipCheck, h, bind, Except.bind]

/-! ### one frame -/

theorem genCfg_facts : genCfg.videoSid = 0xe0 ∧ genCfg.audioSid = 0xc0 ∧ genCfg.keyType = 5
    ∧ genCfg.videoPid ≠ genCfg.audioPid ∧ genCfg.videoPid < 8192 ∧ genCfg.audioPid < 8192
    ∧ AvcCfgOk genCfg ∧ AdtsCfgOk genCfg ∧ CfgOk genCfg := by
  unfold AvcCfgOk AdtsCfgOk CfgOk
  decide

/-- the video frame the packetizer hands to the writer satisfies its source frame's clauses -/
theorem checkVideo_ok (sps pps : List UInt8) (a : Asc) (f : AvFrame) (tf : Frame)
    (h : videoFrame genCfg sps pps f.dtsNs f.ptsNs f.payload = some tf)
    (hd : TickOk f.dtsNs) (hp : TickOk f.ptsNs) :
    checkVideo (paramsOf sps pps a) f.payload (ticksNat f.dtsNs) (ticksNat f.ptsNs) (pesOf tf) = .ok ()
    ∧ FrameOk tf ∧ tf.pid = genCfg.videoPid ∧ tf.payload = f.payload := by
  obtain ⟨hvs, _, hkt, _, hvp, _, havc, _, _⟩ := genCfg_facts
  cases hpl : f.payload with
  | nil => simp [videoFrame, hpl] at h
  | cons b0 tl =>
    rw [hpl] at h
    cases hh : avcHeader genCfg sps pps (b0 :: tl) with
    | none => simp [videoFrame, hh] at h
    | some hdr =>
      simp only [videoFrame, hh] at h
      injection h with h; subst h
      have hd0 := toTicks_nonneg _ hd.1
      have hp0 := toTicks_nonneg _ hp.1
      have hd1 := hd.2
      have hp1 := hp.2
      refine ⟨?_, ⟨hvp, by simp [hvs], hp0, hp1, hd0, hd1⟩, rfl, rfl⟩
      have hal := avcHeader_alts genCfg havc (paramsOf sps pps a) (b0 :: tl) hdr hh
      have e1 := tick_mod _ hd
      have e2 := tick_mod _ hp
      have hkey : (b0.toNat % 32 == genCfg.keyType) = isKey (b0 :: tl) := by
        rw [Bool.eq_iff_iff]; simp [isKey, nalType, hkt]
        exact (decide_eq_true_iff).symm
      have hsid : genCfg.videoSid / 16 = 0xe := by rw [hvs]
      simp only [checkVideo, pesOf, hsid, e1, e2, hkey]
      have hgetD : (if toTicks f.dtsNs = toTicks f.ptsNs then (none : Option Nat) else some (toTicks f.dtsNs).toNat).getD
          (toTicks f.ptsNs).toNat = (toTicks f.dtsNs).toNat := by
        split
        · next e => simp [e]
        · simp
      simp only [hgetD, hal]
      cases hk : isKey (b0 :: tl) <;> simp [bind, Except.bind, pure, Except.pure]

theorem parseAdts_nil (fuel : Nat) : parseAdts fuel [] = some [] := by
  cases fuel <;> simp [parseAdts]

/-- the audio frame the packetizer hands to the writer satisfies its source frame's clauses -/
theorem checkAudio_ok (sps pps : List UInt8) (a : Asc) (ha : AscOk a) (f : AvFrame) (tf : Frame)
    (h : audioFrame genCfg (some a) f.ptsNs f.payload = some tf)
    (hlen : f.payload.length + 7 < 2^13) (hp : TickOk f.ptsNs) :
    checkAudio (paramsOf sps pps a) f.payload (ticksNat f.ptsNs) (pesOf tf) = .ok ()
    ∧ FrameOk tf ∧ tf.pid = genCfg.audioPid ∧ tf.payload = f.payload := by
  obtain ⟨_, has, _, _, _, hap, _, hadts, _⟩ := genCfg_facts
  obtain ⟨ho1, ho4, hch, hs1, hs2⟩ := ha
  simp only [audioFrame] at h
  injection h with h; subst h
  have hp0 := toTicks_nonneg _ hp.1
  have hp1 := hp.2
  refine ⟨?_, ⟨hap, by simp [has], hp0, hp1, hp0, hp1⟩, rfl, rfl⟩
  have e2 := tick_mod _ hp
  have hsid : genCfg.audioSid / 32 = 6 := by rw [has]
  have hidx : (if a.extSampleRate > 0 then a.extSamplingIndex else a.samplingIndex) < 16 := by split <;> omega
  have hidx12 : (if a.extSampleRate > 0 then a.extSamplingIndex else a.samplingIndex) ≤ 12 := by split <;> omega
  have hpa := parseAdts_adtsHeader genCfg hadts (a.objectType - 1)
    (if a.extSampleRate > 0 then a.extSamplingIndex else a.samplingIndex) a.channelConfig
    (by omega) hidx hch f.payload [] hlen (f.payload.length + 6)
  have hp255 : (a.objectType + 255) % 256 = a.objectType - 1 := by omega
  have hm1 : (a.objectType - 1) % 256 = a.objectType - 1 := by omega
  have hhdr : ascAdtsHeader genCfg a f.payload.length
      = adtsHeader genCfg (a.objectType - 1) (if a.extSampleRate > 0 then a.extSamplingIndex else a.samplingIndex)
          a.channelConfig f.payload.length := by
    simp only [ascAdtsHeader, adtsHeader, hp255, hm1]
  have hlenHdr : (adtsHeader genCfg (a.objectType - 1) (if a.extSampleRate > 0 then a.extSamplingIndex else a.samplingIndex)
          a.channelConfig f.payload.length).length = 7 := by
    have : genCfg.adts = [0xff, 0xf1, 0x00, 0x00, 0x00, 0x0f, 0xfc] := hadts
    simp [adtsHeader, this]
  simp only [List.append_nil, parseAdts_nil, Option.map_some] at hpa
  have hchain : checkAdtsChain (paramsOf sps pps a) [f.payload]
      (ascAdtsHeader genCfg a f.payload.length ++ f.payload) = .ok () := by
    rw [hhdr]
    have hl : (adtsHeader genCfg (a.objectType - 1) (if a.extSampleRate > 0 then a.extSamplingIndex else a.samplingIndex)
          a.channelConfig f.payload.length ++ f.payload).length = f.payload.length + 6 + 1 := by
      rw [List.length_append, hlenHdr]; omega
    simp only [checkAdtsChain, hl, hpa, paramsOf]
    simp [ho1, ho4, hidx12, Nat.le_of_lt_succ hch]
    rfl
  simp only [checkAudio, pesOf, hsid, e2, hchain]
  simp

/-! ### a list of frames -/

theorem pesFor_cons_hit (pid : Nat) (tf : Frame) (tfs : List Frame) (h1 : tf.pid = pid) (h2 : tf.payload ≠ []) :
    pesFor pid (tf :: tfs) = pesOf tf :: pesFor pid tfs := by
  have : tf.payload.isEmpty = false := by cases hp : tf.payload <;> simp_all
  simp [pesFor, List.filter_cons, h1, this]

theorem pesFor_cons_miss (pid : Nat) (tf : Frame) (tfs : List Frame) (h : tf.pid ≠ pid ∨ tf.payload = []) :
    pesFor pid (tf :: tfs) = pesFor pid tfs := by
  rcases h with h | h
  · have : (tf.pid == pid) = false := by simp [h]
    simp [pesFor, List.filter_cons, this]
  · simp [pesFor, List.filter_cons, h]

theorem startPids_cons_hit (tf : Frame) (tfs : List Frame) (h2 : tf.payload ≠ []) :
    startPids (tf :: tfs) = tf.pid :: startPids tfs := by
  have : tf.payload.isEmpty = false := by cases hp : tf.payload <;> simp_all
  simp [startPids, List.filter_cons, this]

theorem startPids_cons_miss (tf : Frame) (tfs : List Frame) (h2 : tf.payload = []) :
    startPids (tf :: tfs) = startPids tfs := by
  simp [startPids, List.filter_cons, h2]

/-- what the frames the model's muxer hands to the writer are, in the specification's terms -/
theorem muxFrames_spec (m : Meta) (a : Asc) (hasc : m.asc = some a) (ha : AscOk a) :
    ∀ (frames : List AvFrame), (∀ f ∈ frames, AvOk f) →
      (∀ tf ∈ (muxFrames genCfg m frames).1, FrameOk tf ∧ (tf.pid = genCfg.videoPid ∨ tf.pid = genCfg.audioPid))
      ∧ zipCheck "video" (fun (s : List UInt8 × Nat × Nat) => checkVideo (paramsOf m.sps m.pps a) s.1 s.2.1 s.2.2)
          (videoSrcs (frames.flatMap srcOf)) (pesFor genCfg.videoPid (muxFrames genCfg m frames).1) = .ok ()
      ∧ zipCheck "audio" (fun (s : List UInt8 × Nat) => checkAudio (paramsOf m.sps m.pps a) s.1 s.2)
          (audioSrcs (frames.flatMap srcOf)) (pesFor genCfg.audioPid (muxFrames genCfg m frames).1) = .ok ()
      ∧ (startPids (muxFrames genCfg m frames).1).map (fun pid => decide (pid = genCfg.videoPid))
          = srcOrder (frames.flatMap srcOf) := by
  obtain ⟨_, _, _, hva, _, _, _, _, _⟩ := genCfg_facts
  intro frames
  induction frames with
  | nil =>
    intro _
    simp [muxFrames, pesFor, startPids, videoSrcs, audioSrcs, srcOrder, zipCheck]
    rfl
  | cons f fs ih =>
    intro hall
    obtain ⟨ih1, ih2, ih3, ih4⟩ := ih (fun x hx => hall x (List.mem_cons_of_mem _ hx))
    have hf := hall f (List.mem_cons_self ..)
    cases hmed : f.media with
    | other =>
      have hpk : packetize genCfg m f = some none := by simp [packetize, hmed]
      have hmx : muxFrames genCfg m (f :: fs) = muxFrames genCfg m fs := by simp [muxFrames, hpk]
      have hsrc : (f :: fs).flatMap srcOf = fs.flatMap srcOf := by simp [List.flatMap_cons, srcOf, hmed]
      rw [hmx, hsrc]
      exact ⟨ih1, ih2, ih3, ih4⟩
    | video =>
      simp only [AvOk, hmed] at hf
      obtain ⟨hne, hd, hp⟩ := hf
      have hsome : ∃ tf, videoFrame genCfg m.sps m.pps f.dtsNs f.ptsNs f.payload = some tf := by
        cases hpl : f.payload with
        | nil => exact absurd hpl hne
        | cons b0 tl =>
          have : ∃ h', avcHeader genCfg m.sps m.pps (b0 :: tl) = some h' := ⟨_, rfl⟩
          obtain ⟨h', hh⟩ := this
          exact ⟨{ pid := genCfg.videoPid, streamId := genCfg.videoSid, dts := toTicks f.dtsNs, pts := toTicks f.ptsNs,
                   header := h', payload := b0 :: tl, key := b0.toNat % 32 == genCfg.keyType },
                 by simp [videoFrame, hh]⟩
      obtain ⟨tf, hv⟩ := hsome
      obtain ⟨hck, hok, hpid, hpay⟩ := checkVideo_ok m.sps m.pps a f tf hv hd hp
      have hpk : packetize genCfg m f = some (some tf) := by simp [packetize, hmed, hv]
      have hmx : muxFrames genCfg m (f :: fs) = (tf :: (muxFrames genCfg m fs).1, (muxFrames genCfg m fs).2) := by
        simp [muxFrames, hpk]
      have hsrc : (f :: fs).flatMap srcOf
          = Src.video f.payload (ticksNat f.dtsNs) (ticksNat f.ptsNs) :: fs.flatMap srcOf := by
        simp [List.flatMap_cons, srcOf, hmed]
      have hne' : tf.payload ≠ [] := by rw [hpay]; exact hne
      have hemp : f.payload.isEmpty = false := by cases hpl : f.payload <;> simp_all
      rw [hmx, hsrc]
      refine ⟨?_, ?_, ?_, ?_⟩
      · intro x hx
        rcases List.mem_cons.mp hx with rfl | hx
        · exact ⟨hok, Or.inl hpid⟩
        · exact ih1 x hx
      · rw [pesFor_cons_hit _ _ _ hpid hne']
        simp only [videoSrcs, hemp, Bool.false_eq_true, if_false]
        rw [zipCheck_cons_ok "video" (fun (s : List UInt8 × Nat × Nat) => checkVideo (paramsOf m.sps m.pps a) s.1 s.2.1 s.2.2)
          (f.payload, ticksNat f.dtsNs, ticksNat f.ptsNs) _ _ _ hck]
        exact ih2
      · rw [pesFor_cons_miss _ _ _ (Or.inl (by rw [hpid]; exact hva))]
        simp only [audioSrcs]
        exact ih3
      · rw [startPids_cons_hit _ _ hne']
        simp only [srcOrder, hemp, Bool.false_eq_true, if_false, List.map_cons, hpid]
        simp [ih4]
    | audio =>
      simp only [AvOk, hmed] at hf
      obtain ⟨hlen, hp⟩ := hf
      obtain ⟨tf, hv⟩ : ∃ tf, audioFrame genCfg (some a) f.ptsNs f.payload = some tf := ⟨_, rfl⟩
      obtain ⟨hck, hok, hpid, hpay⟩ := checkAudio_ok m.sps m.pps a ha f tf hv hlen hp
      have hpk : packetize genCfg m f = some (some tf) := by simp [packetize, hmed, hasc, hv]
      have hmx : muxFrames genCfg m (f :: fs) = (tf :: (muxFrames genCfg m fs).1, (muxFrames genCfg m fs).2) := by
        simp [muxFrames, hpk]
      have hsrc : (f :: fs).flatMap srcOf = Src.audio f.payload (ticksNat f.ptsNs) :: fs.flatMap srcOf := by
        simp [List.flatMap_cons, srcOf, hmed]
      rw [hmx, hsrc]
      have hmem : ∀ x ∈ tf :: (muxFrames genCfg m fs).1, FrameOk x ∧ (x.pid = genCfg.videoPid ∨ x.pid = genCfg.audioPid) := by
        intro x hx
        rcases List.mem_cons.mp hx with rfl | hx
        · exact ⟨hok, Or.inr hpid⟩
        · exact ih1 x hx
      have hvmiss : pesFor genCfg.videoPid (tf :: (muxFrames genCfg m fs).1) = pesFor genCfg.videoPid (muxFrames genCfg m fs).1 :=
        pesFor_cons_miss _ _ _ (Or.inl (by rw [hpid]; exact fun e => hva e.symm))
      by_cases hemp : f.payload = []
      · -- an empty AAC frame: nothing is written, nothing is expected
        have hpe : tf.payload = [] := by rw [hpay]; exact hemp
        refine ⟨hmem, ?_, ?_, ?_⟩
        · rw [hvmiss]; simp only [videoSrcs]; exact ih2
        · rw [pesFor_cons_miss _ _ _ (Or.inr hpe)]
          simp only [audioSrcs, hemp, List.isEmpty_nil, if_true]
          exact ih3
        · rw [startPids_cons_miss _ _ hpe]
          simp only [srcOrder, hemp, List.isEmpty_nil, if_true]
          exact ih4
      · have hne' : tf.payload ≠ [] := by rw [hpay]; exact hemp
        have hemp' : f.payload.isEmpty = false := by cases hpl : f.payload <;> simp_all
        refine ⟨hmem, ?_, ?_, ?_⟩
        · rw [hvmiss]; simp only [videoSrcs]; exact ih2
        · rw [pesFor_cons_hit _ _ _ hpid hne']
          simp only [audioSrcs, hemp', Bool.false_eq_true, if_false]
          rw [zipCheck_cons_ok "audio" (fun (s : List UInt8 × Nat) => checkAudio (paramsOf m.sps m.pps a) s.1 s.2)
            (f.payload, ticksNat f.ptsNs) _ _ _ hck]
          exact ih3
        · rw [startPids_cons_hit _ _ hne']
          simp only [srcOrder, hemp', Bool.false_eq_true, if_false, List.map_cons, hpid]
          have : decide (genCfg.audioPid = genCfg.videoPid) = false := by
            simp only [decide_eq_false_iff_not]; exact fun e => hva e.symm
          simp [ih4, this]

/-- in the domain no packetizer panics (the Muxer goroutine stays alive) -/
theorem muxFrames_nopanic (m : Meta) : ∀ (frames : List AvFrame), (∀ f ∈ frames, AvOk f) →
    (muxFrames genCfg m frames).2 = false := by
  intro frames
  induction frames with
  | nil => intro _; simp [muxFrames]
  | cons f fs ih =>
    intro hall
    have ih' := ih (fun x hx => hall x (List.mem_cons_of_mem _ hx))
    have hf := hall f (List.mem_cons_self ..)
    cases hmed : f.media with
    | other => simp [muxFrames, packetize, hmed, ih']
    | audio =>
      cases hau : audioFrame genCfg m.asc f.ptsNs f.payload with
      | none => simp [muxFrames, packetize, hmed, hau, ih']
      | some tf => simp [muxFrames, packetize, hmed, hau, ih']
    | video =>
      simp only [AvOk, hmed] at hf
      cases hpl : f.payload with
      | nil => exact absurd hpl hf.1
      | cons b0 tl =>
        have : ∃ h', avcHeader genCfg m.sps m.pps (b0 :: tl) = some h' := ⟨_, rfl⟩
        obtain ⟨h', hh⟩ := this
        simp [muxFrames, packetize, hmed, hpl, videoFrame, hh, ih']

/-! ### the whole stream -/

/-- the bytes of a stream of writer frames: PAT/PMT block, then packets that demultiplex per PID
    to the frames (statement of `c09_stream`, proved here so that it can be composed) -/
theorem writeStream_spec (fs : List Frame)
    (h : ∀ f ∈ fs, FrameOk f ∧ (f.pid = genCfg.videoPid ∨ f.pid = genCfg.audioPid)) :
    ∃ media tps,
      chunk188 ((writeStream genCfg fs).length / 188 + 1) (writeStream genCfg fs)
        = some (genCfg.header.take 188 :: genCfg.header.drop 188 :: media)
      ∧ parsePackets media = some tps
      ∧ (∀ p ∈ tps, p.pid = genCfg.videoPid ∨ p.pid = genCfg.audioPid)
      ∧ ccChain 0 (tps.filter (·.pid == genCfg.videoPid)) = true
      ∧ ccChain 0 (tps.filter (·.pid == genCfg.audioPid)) = true
      ∧ demuxPid genCfg.videoPid tps = some (pesFor genCfg.videoPid fs)
      ∧ demuxPid genCfg.audioPid tps = some (pesFor genCfg.audioPid fs)
      ∧ (tps.filter (·.pusi)).map (·.pid) = startPids fs := by
  obtain ⟨_, _, _, hva, _, _, _, _, hcfg⟩ := genCfg_facts
  obtain ⟨tps, hp, hpid, hv, ha, hu, ho⟩ := writeFrames_parse genCfg hcfg hva fs {} h
  have h188 := parsePackets_all188 _ _ hp
  refine ⟨Ts.writeFrames genCfg {} fs, tps, ?_, hp, hpid, hv, ha, ?_, ?_, ho⟩
  · have hall : ∀ p ∈ genCfg.header.take 188 :: genCfg.header.drop 188 :: Ts.writeFrames genCfg {} fs, p.length = 188 := by
      intro p hp'
      rcases List.mem_cons.mp hp' with rfl | hp'
      · decide +kernel
      · rcases List.mem_cons.mp hp' with rfl | hp'
        · decide +kernel
        · exact h188 p hp'
    have hcat : writeStream genCfg fs
        = (genCfg.header.take 188 :: genCfg.header.drop 188 :: Ts.writeFrames genCfg {} fs).flatten := by
      simp only [writeStream, List.flatten_cons, ← List.append_assoc, List.take_append_drop]
    rw [hcat]
    apply chunk188_flatten _ _ _ hall
    have hl : (genCfg.header.take 188 :: genCfg.header.drop 188 :: Ts.writeFrames genCfg {} fs).flatten.length
        = 188 * (Ts.writeFrames genCfg {} fs).length + 376 := by
      simp only [List.flatten_cons, List.length_append]
      have e1 : (genCfg.header.take 188).length = 188 := by decide +kernel
      have e2 : (genCfg.header.drop 188).length = 188 := by decide +kernel
      have e3 : ∀ (l : List (List UInt8)), (∀ p ∈ l, p.length = 188) → l.flatten.length = 188 * l.length := by
        intro l
        induction l with
        | nil => intro _; simp
        | cons a l ih =>
          intro hl
          simp only [List.flatten_cons, List.length_append, List.length_cons, hl a (List.mem_cons_self ..),
            ih (fun p hp => hl p (List.mem_cons_of_mem _ hp))]
          omega
      rw [e1, e2, e3 _ h188]; omega
    rw [hl]
    simp only [List.length_cons]
    omega
  · obtain ⟨u, hu1, hu2⟩ := hu genCfg.videoPid
    simp [demuxPid, hu1, hu2]
  · obtain ⟨u, hu1, hu2⟩ := hu genCfg.audioPid
    simp [demuxPid, hu1, hu2]

/-- the PAT/PMT block of the regenerated table, as the reference PSI parser reads it -/
theorem header_program :
    parseProgram (genCfg.header.take 188) (genCfg.header.drop 188) =
      some { program := 1, pcrPid := genCfg.videoPid,
             streams := [(0x1b, genCfg.videoPid), (0x0f, genCfg.audioPid)] } := by
  decide +kernel

theorem startOrder_eq (vpid apid : Nat) (tps : List TsPacket) (h : ∀ p ∈ tps, p.pid = vpid ∨ p.pid = apid) :
    startOrder vpid apid tps = ((tps.filter (·.pusi)).map (·.pid)).map (fun pid => decide (pid = vpid)) := by
  unfold startOrder
  have : tps.filter (fun p => decide (p.pusi = true ∧ (p.pid = vpid ∨ p.pid = apid))) = tps.filter (·.pusi) := by
    apply List.filter_congr
    intro p hp
    have := h p hp
    simp [this]
  rw [this, List.map_map]
  rfl

/-- COMPOSITION: the specification predicate of C09, evaluated on the bytes the model writes for
    a list of codec frames through the packetizers and the writer, accepts — for EVERY list of
    frames in the property's domain, every SPS/PPS, every ADTS-expressible config. -/
theorem holds_model (m : Meta) (a : Asc) (hasc : m.asc = some a) (ha : AscOk a)
    (frames : List AvFrame) (hf : ∀ f ∈ frames, AvOk f) :
    holds (paramsOf m.sps m.pps a) (frames.flatMap srcOf) (writeStream genCfg (muxFrames genCfg m frames).1) = .ok () := by
  obtain ⟨h1, h2, h3, h4⟩ := muxFrames_spec m a hasc ha frames hf
  obtain ⟨media, tps, hchunk, hparse, hpids, hcv, hca, hdv, hda, hord⟩ := writeStream_spec _ h1
  have hall : tps.all (fun k => decide (k.pid = genCfg.videoPid ∨ k.pid = genCfg.audioPid)) = true := by
    rw [List.all_eq_true]; intro p hp; simpa using hpids p hp
  have hso := startOrder_eq genCfg.videoPid genCfg.audioPid tps hpids
  rw [hord, h4] at hso
  have hnot : ¬ ∃ x, x ∈ tps ∧ ¬x.pid = genCfg.videoPid ∧ ¬x.pid = genCfg.audioPid := by
    rintro ⟨x, hx, h1', h2'⟩
    rcases hpids x hx with e | e
    · exact h1' e
    · exact h2' e
  simp only [holds, hchunk, bind, Except.bind, pure, Except.pure]
  simp only [header_program, checkMedia, bind, Except.bind, pure, Except.pure]
  simp [hparse, hnot, hcv, hca, hdv, hda, h2, h3, hso]

end IpcHub.TsLemmas
