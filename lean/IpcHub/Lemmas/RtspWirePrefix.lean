/- Helper lemmas for C14: prefix stability — a reader that succeeded on the bytes received so
   far returns the same item, and leaves exactly the extra bytes, when more bytes follow -/
import IpcHub.Lemmas.RtspWireFrame
namespace IpcHub.RtspWire

local notation "Bytes" => List UInt8

theorem readFull_stable {n : Nat} {s a r : Bytes} (h : readFull n s = .ok (a, r)) (t : Bytes) :
    readFull n (s ++ t) = .ok (a, r ++ t) := by
  obtain ⟨hl, hs⟩ := readFull_ok_length h
  subst hs
  rw [← hl, List.append_assoc, readFull_append]

theorem breakLF_some_stable {s a r : Bytes} (h : breakLF s = (a, some r)) (t : Bytes) :
    breakLF (s ++ t) = (a, some (r ++ t)) := by
  induction s generalizing a with
  | nil => simp [breakLF] at h
  | cons x xs ih =>
    simp only [breakLF, List.cons_append] at h ⊢
    split at h
    · rename_i hx; simp at h; obtain ⟨h1, h2⟩ := h; subst h1 h2; simp [hx]
    · rename_i hx
      simp only [hx, if_false]
      cases hb : breakLF xs with
      | mk a' o =>
        rw [hb] at h
        simp at h
        obtain ⟨h1, h2⟩ := h
        subst h1; subst h2
        rw [ih hb]

theorem breakLF_none_all {s : Bytes} (h : (breakLF s).2 = none) : breakLF s = (s, none) := by
  induction s with
  | nil => simp [breakLF]
  | cons x xs ih =>
    simp only [breakLF] at h ⊢
    split at h
    · simp at h
    · rename_i hx
      simp only [hx, if_false] 
      simp at h
      rw [ih h]

def tooLong (cfg : Cfg) (n : Nat) : Bool :=
  match cfg.maxLine with
  | some m => decide (n > m)
  | none => false

def lineContent (p : Bytes × Option Bytes) : Bytes :=
  match p.2 with
  | some _ => dropLastCR p.1
  | none => p.1

theorem readLine_eq (cfg : Cfg) (s : Bytes) :
    readLine cfg s = if s.isEmpty then .error .eof
      else if tooLong cfg (lineContent (breakLF s)).length then .error .lineTooLong
      else .ok (lineContent (breakLF s), (breakLF s).2.getD []) := by
  unfold readLine tooLong lineContent
  rfl

/-- a line that was ended by LF is read the same way when more bytes follow; a line that was
    not (the stream just ended) leaves nothing behind -/
theorem readLine_cases {cfg : Cfg} {s l r : Bytes} (h : readLine cfg s = .ok (l, r)) :
    (∀ t, readLine cfg (s ++ t) = .ok (l, r ++ t)) ∨ (r = [] ∧ l = s ∧ s ≠ []) := by
  rw [readLine_eq] at h
  have hne : s.isEmpty = false := by
    cases hs : s.isEmpty with
    | true => rw [hs] at h; simp at h
    | false => rfl
  have hsne : s ≠ [] := by intro e; subst e; simp at hne
  simp only [hne, Bool.false_eq_true, if_false] at h
  cases hb : breakLF s with
  | mk a o =>
    rw [hb] at h
    cases o with
    | some r' =>
      left
      intro t
      have hne' : (s ++ t).isEmpty = false := by
        cases s with
        | nil => exact absurd rfl hsne
        | cons x xs => simp
      rw [readLine_eq, breakLF_some_stable hb t]
      simp only [hne', Bool.false_eq_true, if_false]
      simp only [lineContent, Option.getD_some] at h ⊢
      by_cases hlim : tooLong cfg (dropLastCR a).length = true
      · simp [hlim] at h
      · simp only [hlim, if_false] at h ⊢
        simp at h
        obtain ⟨h1, h2⟩ := h
        subst h1 h2
        rfl
    | none =>
      right
      have := breakLF_none_all (s := s) (by rw [hb])
      rw [hb] at this
      simp at this
      simp only [lineContent, Option.getD_none] at h
      by_cases hlim : tooLong cfg a.length = true
      · simp [hlim] at h
      · simp only [hlim, if_false] at h
        simp at h
        obtain ⟨h1, h2⟩ := h
        exact ⟨h2, by rw [← h1, this], hsne⟩

theorem readHeaderAux_nil (cfg : Cfg) (fuel : Nat) (h : Header) : ∃ e, readHeaderAux cfg fuel [] h = .error e := by
  cases fuel with
  | zero => exact ⟨_, rfl⟩
  | succ n => exact ⟨.eof, by simp [readHeaderAux, readLine]⟩

/-- the header reader: success is stable under extension of the stream -/
theorem readHeaderAux_stable (cfg : Cfg) (fuel : Nat) (s : Bytes) (h h' : Header) (r : Bytes)
    (hok : readHeaderAux cfg fuel s h = .ok (h', r)) (t : Bytes) :
    readHeaderAux cfg fuel (s ++ t) h = .ok (h', r ++ t) := by
  induction fuel generalizing s h with
  | zero => simp [readHeaderAux] at hok
  | succ n ih =>
    unfold readHeaderAux at hok ⊢
    cases hl : readLine cfg s with
    | error e => rw [hl] at hok; simp at hok
    | ok p =>
      obtain ⟨kv, rest⟩ := p
      rw [hl] at hok
      rcases readLine_cases hl with hst | ⟨hr, hkv, hne⟩
      · rw [hst t]
        simp only at hok ⊢
        split at hok
        · rename_i hem; simp only [hem, if_true]; simp at hok; obtain ⟨h1, h2⟩ := hok; subst h1 h2; rfl
        · rename_i hem
          simp only [hem]
          split at hok
          · simp at hok
          · rename_i hi
            simp only [hi, if_false]
            cases hk : slice kv 0 (indexByte kv 0x3A) with
            | error e => rw [hk] at hok; simp at hok
            | ok k =>
              cases hv : sliceFrom kv (indexByte kv 0x3A + 1) with
              | error e => rw [hk, hv] at hok; simp at hok
              | ok v =>
                rw [hk, hv] at hok
                simp only at hok ⊢
                split at hok
                · rename_i hke; simp only [hke, if_true]; exact ih _ _ hok
                · rename_i hke; simp only [hke]; exact ih _ _ hok
      · -- the stream ended inside this line: whatever the line is, nothing follows, so no success
        subst hr
        exfalso
        simp only at hok
        have hkne : kv.isEmpty = false := by
          rw [hkv]
          cases hs : s with
          | nil => exact absurd hs hne
          | cons x xs => simp
        simp only [hkne, Bool.false_eq_true, if_false] at hok
        split at hok
        · simp at hok
        · cases hk : slice kv 0 (indexByte kv 0x3A) with
          | error e => rw [hk] at hok; simp at hok
          | ok k =>
            cases hv : sliceFrom kv (indexByte kv 0x3A + 1) with
            | error e => rw [hk, hv] at hok; simp at hok
            | ok v =>
              rw [hk, hv] at hok
              simp only at hok
              split at hok
              · obtain ⟨e, he⟩ := readHeaderAux_nil cfg n h; rw [he] at hok; simp at hok
              · obtain ⟨e, he⟩ := readHeaderAux_nil cfg n (h.add (canonKey cfg (canonicalKV k)) (canonicalKV v))
                rw [he] at hok; simp at hok

/-- more fuel does not change a successful header read -/
theorem readHeaderAux_fuel (cfg : Cfg) (fuel : Nat) (s : Bytes) (h h' : Header) (r : Bytes)
    (hok : readHeaderAux cfg fuel s h = .ok (h', r)) (k : Nat) :
    readHeaderAux cfg (fuel + k) s h = .ok (h', r) := by
  induction fuel generalizing s h with
  | zero => simp [readHeaderAux] at hok
  | succ n ih =>
    rw [show n + 1 + k = (n + k) + 1 by omega]
    unfold readHeaderAux at hok ⊢
    cases hl : readLine cfg s with
    | error e => rw [hl] at hok; simp at hok
    | ok p =>
      obtain ⟨kv, rest⟩ := p
      rw [hl] at hok
      simp only at hok ⊢
      split at hok
      · rename_i hem; simp only [hem, if_true]; exact hok
      · rename_i hem
        simp only [hem]
        split at hok
        · simp at hok
        · rename_i hi
          simp only [hi, if_false]
          cases hk : slice kv 0 (indexByte kv 0x3A) with
          | error e => rw [hk] at hok; simp at hok
          | ok k' =>
            cases hv : sliceFrom kv (indexByte kv 0x3A + 1) with
            | error e => rw [hk, hv] at hok; simp at hok
            | ok v =>
              rw [hk, hv] at hok
              simp only at hok ⊢
              split at hok
              · rename_i hke; simp only [hke, if_true]; exact ih _ _ hok
              · rename_i hke; simp only [hke]; exact ih _ _ hok

theorem readHeader_stable (cfg : Cfg) (s : Bytes) (h' : Header) (r : Bytes)
    (hok : readHeader cfg s = .ok (h', r)) (t : Bytes) : readHeader cfg (s ++ t) = .ok (h', r ++ t) := by
  unfold readHeader at hok ⊢
  have h1 := readHeaderAux_stable cfg _ s [] h' r hok t
  have h2 := readHeaderAux_fuel cfg _ (s ++ t) [] h' (r ++ t) h1 t.length
  rw [show (s ++ t).length + 1 = s.length + 1 + t.length by simp; omega]
  exact h2

theorem readHeader_nil (cfg : Cfg) : ∃ e, readHeader cfg [] = .error e := readHeaderAux_nil cfg _ []

theorem readBody_stable (cfg : Cfg) (hflag : cfg.bodyErrReturned = true) (h : Header) (s b r : Bytes)
    (hok : readBody cfg h s = .ok (b, r)) (t : Bytes) : readBody cfg h (s ++ t) = .ok (b, r ++ t) := by
  unfold readBody at hok ⊢
  cases hc : contentLength cfg h with
  | error e => rw [hc] at hok; simp at hok
  | ok n =>
    rw [hc] at hok
    cases n with
    | zero => simp at hok ⊢; obtain ⟨h1, h2⟩ := hok; subst h1 h2; simp
    | succ n =>
      simp only at hok ⊢
      cases hf : readFull (n + 1) s with
      | ok p =>
        obtain ⟨a, r'⟩ := p
        rw [hf] at hok
        simp at hok
        obtain ⟨h1, h2⟩ := hok
        subst h1 h2
        rw [readFull_stable hf t]
      | error e => rw [hf] at hok; simp [hflag] at hok

/-- what follows the first line decides nothing about it; if the stream ended inside the first
    line, the header reader finds nothing and fails -/
theorem readRequest_stable {U : Type} (cfg : Cfg) (hflag : cfg.bodyErrReturned = true) (ops : UrlOps U)
    (s : Bytes) (q : Request U) (r : Bytes) (hok : readRequest cfg ops s = .ok (q, r)) (t : Bytes) :
    readRequest cfg ops (s ++ t) = .ok (q, r ++ t) := by
  unfold readRequest at hok ⊢
  cases hl : readLine cfg s with
  | error e => rw [hl] at hok; simp at hok
  | ok p =>
    obtain ⟨line, rest⟩ := p
    rw [hl] at hok
    simp only at hok
    have hrest : ∀ (rest' : Bytes), (rest' = rest ++ t) →
        (readLine cfg (s ++ t) = .ok (line, rest')) →
        (match readLine cfg (s ++ t) with
          | .error e => (.error e : Except Err (Request U × Bytes))
          | .ok (line, rest) =>
            let s1 := indexByte line 0x20
            match sliceFrom line (s1 + 1) with
            | .error e => .error e
            | .ok tail =>
              let s2 := indexByte tail 0x20
              if s1 < 0 ∨ s2 < 0 then .error .malformedRequest
              else
                let s2 := s2 + s1 + 1
                match slice line 0 s1, slice line (s1 + 1) s2, sliceFrom line (s2 + 1) with
                | .ok m, .ok u, .ok p =>
                  let method := trimSpace m
                  let rurl := trimSpace u
                  let proto := trimSpace p
                  if method.isEmpty || method.head? == some 0x24 then .error .invalidMethod
                  else if method ≠ methodOptions ∧ rurl = [0x2A] then .error .invalidURI
                  else
                    match ops.parse rurl with
                    | none => .error .urlParse
                    | some url =>
                      let host := ops.host url
                      let url := if lastIndexByte host 0x3A > lastIndexByte host 0x5D
                        then ops.setHost url (trimSuffixColon host) else url
                      match readHeader cfg rest with
                      | .error e => .error e
                      | .ok (h, rest) =>
                        match readBody cfg h rest with
                        | .error e => .error e
                        | .ok (body, rest) => .ok ({ method, url, proto, header := h, body }, rest)
                | _, _, _ => .error .panic) = .ok (q, r ++ t) := by
      intro rest' hr' hl'
      rw [hl']
      simp only
      cases htl : sliceFrom line (indexByte line 0x20 + 1) with
      | error e => rw [htl] at hok; simp at hok
      | ok tail =>
        rw [htl] at hok
        simp only at hok ⊢
        split at hok
        · simp at hok
        · rename_i hneg
          simp only [hneg, if_false]
          split at hok
          · rename_i m u p hm hu hp
            simp only [hm, hu, hp]
            split at hok
            · simp at hok
            · rename_i hmeth
              simp only [hmeth]
              split at hok
              · simp at hok
              · rename_i hstar
                simp only [hstar, if_false]
                split at hok
                · simp at hok
                · rename_i url hparse
                  simp only [hparse]
                  cases hh : readHeader cfg rest with
                  | error e => rw [hh] at hok; simp at hok
                  | ok ph =>
                    obtain ⟨hd, rest2⟩ := ph
                    rw [hh] at hok
                    simp only at hok
                    subst hr'
                    rw [readHeader_stable cfg rest hd rest2 hh t]
                    simp only
                    cases hb : readBody cfg hd rest2 with
                    | error e => rw [hb] at hok; simp at hok
                    | ok pb =>
                      obtain ⟨body, rest3⟩ := pb
                      rw [hb] at hok
                      rw [readBody_stable cfg hflag hd rest2 body rest3 hb t]
                      simp at hok ⊢
                      obtain ⟨h1, h2⟩ := hok
                      subst h1 h2
                      exact ⟨rfl, rfl⟩
          · simp at hok
    rcases readLine_cases hl with hst | ⟨hr, _, _⟩
    · exact hrest (rest ++ t) rfl (hst t)
    · -- the stream ended inside the request line: the header reader sees nothing
      subst hr
      exfalso
      cases htl : sliceFrom line (indexByte line 0x20 + 1) with
      | error e => rw [htl] at hok; simp at hok
      | ok tail =>
        rw [htl] at hok
        simp only at hok
        split at hok
        · simp at hok
        · split at hok
          · split at hok
            · simp at hok
            · split at hok
              · simp at hok
              · split at hok
                · simp at hok
                · obtain ⟨e, he⟩ := readHeader_nil cfg
                  rw [he] at hok
                  simp at hok
          · simp at hok

theorem readResponse_stable (cfg : Cfg) (hflag : cfg.bodyErrReturned = true)
    (s : Bytes) (q : Response) (r : Bytes) (hok : readResponse cfg s = .ok (q, r)) (t : Bytes) :
    readResponse cfg (s ++ t) = .ok (q, r ++ t) := by
  unfold readResponse at hok ⊢
  cases hl : readLine cfg s with
  | error e => rw [hl] at hok; simp at hok
  | ok p =>
    obtain ⟨line, rest⟩ := p
    rw [hl] at hok
    simp only at hok
    rcases readLine_cases hl with hst | ⟨hr, _, _⟩
    · rw [hst t]
      simp only
      split at hok
      · simp at hok
      · rename_i hneg
        simp only [hneg, if_false]
        split at hok
        · rename_i proto st hp hs
          try simp only [hp, hs]
          split at hok
          · simp at hok
          · rename_i codeStr hcs
            try simp only [hcs]
            split at hok
            · simp at hok
            · rename_i hlen3
              simp only [hlen3, if_false]
              split at hok
              · rename_i code hcode
                try simp only [hcode]
                split at hok
                · simp at hok
                · rename_i hnn
                  simp only [hnn, if_false]
                  cases hh : readHeader cfg rest with
                  | error e => rw [hh] at hok; simp at hok
                  | ok ph =>
                    obtain ⟨hd, rest2⟩ := ph
                    rw [hh] at hok
                    simp only at hok
                    rw [readHeader_stable cfg rest hd rest2 hh t]
                    simp only
                    cases hb : readBody cfg hd rest2 with
                    | error e => rw [hb] at hok; simp at hok
                    | ok pb =>
                      obtain ⟨body, rest3⟩ := pb
                      rw [hb] at hok
                      rw [readBody_stable cfg hflag hd rest2 body rest3 hb t]
                      simp at hok ⊢
                      obtain ⟨h1, h2⟩ := hok
                      subst h1 h2
                      exact ⟨rfl, rfl⟩
              · simp at hok
        · simp at hok
    · subst hr
      exfalso
      split at hok
      · simp at hok
      · split at hok
        · split at hok
          · simp at hok
          · split at hok
            · simp at hok
            · split at hok
              · split at hok
                · simp at hok
                · obtain ⟨e, he⟩ := readHeader_nil cfg
                  rw [he] at hok
                  simp at hok
              · simp at hok
        · simp at hok

theorem readPacket_stable (cfg : Cfg) (chans : List Int) (s : Bytes) (o : Option Packet) (r : Bytes)
    (hok : readPacket cfg chans s = .ok (o, r)) (t : Bytes) : readPacket cfg chans (s ++ t) = .ok (o, r ++ t) := by
  unfold readPacket at hok ⊢
  cases h4 : readFull 4 s with
  | error e => rw [h4] at hok; simp at hok
  | ok p =>
    obtain ⟨pre, rest⟩ := p
    rw [h4] at hok
    rw [readFull_stable h4 t]
    simp only at hok ⊢
    split at hok
    · rename_i p0 ch l0 l1
      split at hok
      · simp at hok
      · rename_i hp0
        simp only [hp0, if_false]
        cases hd : readFull (be16 l0 l1) rest with
        | error e => rw [hd] at hok; simp at hok
        | ok pd =>
          obtain ⟨data, rest2⟩ := pd
          rw [hd] at hok
          rw [readFull_stable hd t]
          simp only at hok ⊢
          split at hok
          · rename_i hfc
            try simp only [hfc]
            split at hok
            · rename_i hunk
              simp only [hunk, if_true]
              simp at hok ⊢; obtain ⟨h1, h2⟩ := hok; subst h1 h2; first | exact ⟨rfl, rfl⟩ | rfl | trivial
            · simp at hok
          · rename_i i hfc
            try simp only [hfc]
            split at hok
            · rename_i hmedia
              simp only [hmedia, if_true]
              split at hok
              · rename_i off hu
                try simp only [hu]
                simp at hok ⊢; obtain ⟨h1, h2⟩ := hok; subst h1 h2; first | exact ⟨rfl, rfl⟩ | rfl | trivial
              · rename_i hu
                try simp only [hu]
                split at hok
                · split at hok
                  · rename_i hr1 hr2
                    simp only [hr1, hr2, if_true]
                    simp at hok ⊢; obtain ⟨h1, h2⟩ := hok; subst h1 h2; first | exact ⟨rfl, rfl⟩ | rfl | trivial
                  · simp at hok
                · simp at hok
              · rename_i e hne hu
                try simp only [hu]
                split at hok
                · rename_i hb
                  simp only [hb, if_true]
                  simp at hok ⊢; obtain ⟨h1, h2⟩ := hok; subst h1 h2; first | exact ⟨rfl, rfl⟩ | rfl | trivial
                · simp at hok
            · rename_i hmedia
              simp only [hmedia, if_false]
              simp at hok ⊢; obtain ⟨h1, h2⟩ := hok; subst h1 h2; first | exact ⟨rfl, rfl⟩ | rfl | trivial
    · simp at hok

/-- `receive`: the item it returned for the bytes received so far is the item it returns when
    more bytes follow, and exactly those extra bytes are left in addition -/
theorem receive_stable {U : Type} (cfg : Cfg) (hflag : cfg.bodyErrReturned = true) (ops : UrlOps U) (chans : List Int)
    (s : Bytes) (ev : Event U) (r : Bytes) (hok : receive cfg ops chans s = .ok (ev, r)) (t : Bytes) :
    receive cfg ops chans (s ++ t) = .ok (ev, r ++ t) := by
  unfold receive at hok ⊢
  split at hok
  · simp at hok
  · rename_i hlen
    have hlen' : ¬ (s ++ t).length < 4 := by simp; omega
    have hhead : (s ++ t).head? = s.head? := by
      cases s with
      | nil => simp at hlen
      | cons x xs => simp
    have htake : (s ++ t).take 4 = s.take 4 := List.take_append_of_le_length (by omega)
    simp only [hlen', if_false, hhead, htake]
    split at hok
    · rename_i hd
      simp only [hd, if_true]
      cases hp : readPacket cfg chans s with
      | error e => rw [hp] at hok; simp at hok
      | ok po =>
        obtain ⟨o, r'⟩ := po
        rw [hp] at hok
        rw [readPacket_stable cfg chans s o r' hp t]
        cases o with
        | none => simp at hok ⊢; obtain ⟨h1, h2⟩ := hok; subst h1 h2; first | exact ⟨rfl, rfl⟩ | rfl | trivial
        | some pk => simp at hok ⊢; obtain ⟨h1, h2⟩ := hok; subst h1 h2; first | exact ⟨rfl, rfl⟩ | rfl | trivial
    · rename_i hd
      simp only [hd, if_false]
      split at hok
      · rename_i hpr
        simp only [hpr, if_true]
        cases hp : readResponse cfg s with
        | error e => rw [hp] at hok; simp at hok
        | ok po =>
          obtain ⟨q, r'⟩ := po
          rw [hp] at hok
          rw [readResponse_stable cfg hflag s q r' hp t]
          simp at hok ⊢; obtain ⟨h1, h2⟩ := hok; subst h1 h2; first | exact ⟨rfl, rfl⟩ | rfl | trivial
      · rename_i hpr
        simp only [hpr, if_false]
        cases hp : readRequest cfg ops s with
        | error e => rw [hp] at hok; simp at hok
        | ok po =>
          obtain ⟨q, r'⟩ := po
          rw [hp] at hok
          rw [readRequest_stable cfg hflag ops s q r' hp t]
          simp at hok ⊢; obtain ⟨h1, h2⟩ := hok; subst h1 h2; first | exact ⟨rfl, rfl⟩ | rfl | trivial

end IpcHub.RtspWire
