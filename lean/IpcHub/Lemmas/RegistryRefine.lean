/-
C05 — refinement: the sequential registry model with the facts of the fixed source
(`good`) is observationally equivalent to the specification Spec/Registry.lean, for every
history.  Simulation relation `R`; the enumeration-order independence of Count / Infos is
proved through permutations (`listed_perm_liveIds`).  Core Lean only.
-/
import IpcHub.Lemmas.Registry
import IpcHub.Spec.Registry
namespace IpcHub.Registry
open IpcHub.CanonPath IpcHub.RegistrySpec

/-! ## the simulation relation -/

/-- tuple encoding of a task in the specification -/
def encTask (t : Task) : Nat × Bool × Bool := (t.sid, t.replaced, t.done)

/-- the RTP table of a stream = the non-FLV attachments, in order -/
def rtpOf (l : List (Bool × Nat)) : List Nat := (l.filter (fun e => !e.1)).map Prod.snd
/-- the FLV table of a stream = the FLV attachments, in order -/
def flvOf (l : List (Bool × Nat)) : List Nat := (l.filter (fun e => e.1)).map Prod.snd

/-- model stream `s` is the abstract stream `i` -/
def SRel (a : Abs) (i : Nat) (s : Stream) : Prop :=
  s.path = a.path i ∧ (s.status = .ok ↔ a.closed i = false) ∧ s.rtp = rtpOf (a.attached i) ∧
  s.flv = flvOf (a.attached i) ∧ s.seed = a.nextCid i ∧ s.hls = a.hls i

structure R (st : State) (a : Abs) : Prop where
  len : st.streams.length = a.n
  str : ∀ i s, st.streams[i]? = some s → SRel a i s
  reg : ∀ k, load st.reg k = a.owner k
  wf : WF st
  tasks : a.tasks = st.tasks.map encTask
  now : st.now = a.now

theorem R_empty : R State.empty Abs.empty := by
  refine ⟨rfl, fun i s h => ?_, fun k => rfl, wf_empty, rfl, rfl⟩
  simp [State.empty] at h

theorem R.stream {st : State} {a : Abs} (h : R st a) {i : Nat} (hi : i < a.n) :
    ∃ s, st.streams[i]? = some s ∧ SRel a i s := by
  have hi' : i < st.streams.length := h.len ▸ hi
  exact ⟨st.streams[i], List.getElem?_eq_getElem hi', h.str _ _ (List.getElem?_eq_getElem hi')⟩

theorem R.lt {st : State} {a : Abs} (h : R st a) {i : Nat} {s : Stream} (hs : st.streams[i]? = some s) :
    i < a.n := h.len ▸ lt_length_of_getElem? hs

theorem R.none {st : State} {a : Abs} (h : R st a) {i : Nat} (hi : ¬ i < a.n) : st.streams[i]? = none := by
  rw [List.getElem?_eq_none_iff, h.len]; omega

theorem rtp_flv_length (l : List (Bool × Nat)) : (rtpOf l).length + (flvOf l).length = l.length := by
  induction l with
  | nil => rfl
  | cons e l ih =>
    obtain ⟨b, c⟩ := e
    cases b <;> simp [rtpOf, flvOf] at ih ⊢ <;> omega

theorem R.cc {a : Abs} {i : Nat} {s : Stream} (hr : SRel a i s) :
    s.consumerCount = ((a.attached i).length : Int) := by
  obtain ⟨_, _, h1, h2, _⟩ := hr
  have := rtp_flv_length (a.attached i)
  simp only [Stream.consumerCount, h1, h2]
  omega

theorem R.ccOf {st : State} {a : Abs} (h : R st a) {i : Nat} (hi : i < a.n) :
    ccOf st i = ((a.attached i).length : Int) := by
  obtain ⟨s, hs, hr⟩ := h.stream hi
  simp only [Registry.ccOf, hs]
  exact R.cc hr

theorem R.isOk {st : State} {a : Abs} (h : R st a) (i : Nat) :
    Registry.isOk st i = (decide (i < a.n) && !a.closed i) := by
  by_cases hi : i < a.n
  · obtain ⟨s, hs, hr⟩ := h.stream hi
    simp only [Registry.isOk, hs, hi, decide_true, Bool.true_and]
    have := hr.2.1
    cases hc : a.closed i <;> simp_all
  · simp [Registry.isOk, h.none hi, hi]

theorem visible_good (st : State) (i : Nat) : visible good st i = Registry.isOk st i := by
  unfold visible Registry.isOk
  cases st.streams[i]? <;> simp [good]

/-- the generic "one stream changes" step of the simulation -/
theorem R_update {st : State} {a : Abs} (h : R st a) (i : Nat) (g : Stream → Stream) (a' : Abs)
    (hg : ∀ s, (g s).path = s.path ∧ (s.status ≠ .ok → (g s).status ≠ .ok))
    (hn : a'.n = a.n) (ho : a'.owner = a.owner) (ht : a'.tasks = a.tasks) (hnow : a'.now = a.now)
    (hi : ∀ s, st.streams[i]? = some s → SRel a i s → SRel a' i (g s))
    (hj : ∀ j s, j ≠ i → SRel a j s → SRel a' j s) : R (updateStream st i g) a' := by
  refine ⟨by rw [length_updateStream, hn, h.len], fun j s hs => ?_, fun k => by rw [reg_updateStream, ho, h.reg],
    wf_of_reg_eq h.wf (ExtL.modify _ _ _ hg) rfl, by rw [ht, h.tasks]; rfl, by rw [hnow, ← h.now]; rfl⟩
  rw [streams_updateStream] at hs
  by_cases hij : i = j
  · subst hij
    simp only [if_true] at hs
    cases h0 : st.streams[i]? with
    | none => rw [h0] at hs; cases hs
    | some s0 =>
      rw [h0] at hs
      simp only [Option.map_some, Option.some.injEq] at hs
      rw [← hs]
      exact hi s0 h0 (h.str _ _ h0)
  · simp only [hij, if_false] at hs
    exact hj j s (fun e => hij e.symm) (h.str _ _ hs)

/-- closing stream `i` (any `i`) on both sides -/
theorem R_close {st : State} {a : Abs} (h : R st a) (i : Nat) (b : Bool) :
    R (closeStream st i b) (a.close i) := by
  unfold Abs.close
  cases hc : a.closed i with
  | true =>
    simp only [if_true]
    refine R_update h i _ a (close_ok_fun b) rfl rfl rfl rfl (fun s _ hr => ?_) (fun _ _ _ hr => hr)
    have : s.status ≠ .ok := by
      intro e
      have := hr.2.1.mp e
      rw [hc] at this; cases this
    simp only [Stream.close, this, ne_eq, not_false_eq_true, if_true]
    exact hr
  | false =>
    simp only [Bool.false_eq_true, if_false]
    refine R_update h i _ _ (close_ok_fun b) rfl rfl rfl rfl (fun s _ hr => ?_) (fun j s hji hr => ?_)
    · have hok : s.status = .ok := hr.2.1.mpr hc
      obtain ⟨h1, _, _, _, h5, h6⟩ := hr
      cases b <;> simp [SRel, Stream.close, hok, upd, rtpOf, flvOf, h1, h5, h6]
    · simpa [SRel, upd, hji] using hr


/-- changing only owner/tasks/now on the abstract side does not affect `SRel` -/
theorem SRel.congr {a a' : Abs} {i : Nat} {s : Stream} (hr : SRel a i s)
    (h1 : a'.path = a.path) (h2 : a'.closed = a.closed) (h3 : a'.attached = a.attached)
    (h4 : a'.nextCid = a.nextCid) (h5 : a'.hls = a.hls) : SRel a' i s := by
  unfold SRel at hr ⊢
  rw [h1, h2, h3, h4, h5]; exact hr

theorem get_eq_resolve {st : State} {a : Abs} (h : R st a) (cfg : Cfg) (p : Path) :
    get cfg good st p = a.resolve (canonicalPath cfg p) := by
  unfold get Abs.resolve
  rw [h.reg]
  cases ho : a.owner (canonicalPath cfg p) with
  | none => rfl
  | some i =>
    simp only [visible_good, h.isOk]
    have hl : load st.reg (canonicalPath cfg p) = some i := by rw [h.reg, ho]
    obtain ⟨s, hs, _⟩ := h.wf.2 _ _ hl
    have := h.lt hs
    cases hc : a.closed i <;> simp [this]

/-! ## one lemma per operation -/

theorem sim_new {st : State} {a : Abs} (h : R st a) (cfg : Cfg) (p : Path) (hh : Bool) :
    (step cfg good st (.new p hh)).2 = (specStep cfg a (.new p hh)).2 ∧
    R (step cfg good st (.new p hh)).1 (specStep cfg a (.new p hh)).1 := by
  refine ⟨by simp [step, specStep, newStream, h.len], ?_⟩
  simp only [step, specStep, newStream]
  refine ⟨by simp [h.len], fun j s hs => ?_, h.reg, wf_of_reg_eq h.wf (ExtL.append _ _) rfl, h.tasks, h.now⟩
  by_cases hj : j < st.streams.length
  · rw [List.getElem?_append_left hj] at hs
    have hne : j ≠ a.n := by rw [← h.len]; omega
    simpa [SRel, upd, hne] using h.str _ _ hs
  · have hge : st.streams.length ≤ j := by omega
    rw [List.getElem?_append_right hge] at hs
    have hj0 : j - st.streams.length = 0 := by
      rcases Nat.eq_zero_or_pos (j - st.streams.length) with e | e
      · exact e
      · rw [List.getElem?_eq_none (by simp; omega)] at hs; cases hs
    rw [hj0] at hs
    simp only [List.getElem?_cons_zero, Option.some.injEq] at hs
    have hja : j = a.n := by rw [← h.len]; omega
    subst hs
    simp [SRel, upd, hja, rtpOf, flvOf, h.now]

theorem sim_close {st : State} {a : Abs} (h : R st a) (cfg : Cfg) (i : Nat) :
    (step cfg good st (.close i)).2 = (specStep cfg a (.close i)).2 ∧
    R (step cfg good st (.close i)).1 (specStep cfg a (.close i)).1 := by
  simp only [step, specStep]
  by_cases hi : i < a.n
  · simp only [hi, if_true]
    exact ⟨trivial, R_close h i false⟩
  · simp only [hi, if_false]
    refine ⟨trivial, ?_⟩
    refine R_update h i _ a (close_ok_fun false) rfl rfl rfl rfl (fun s hs _ => ?_) (fun _ _ _ hr => hr)
    rw [h.none hi] at hs; cases hs

theorem sim_stop {st : State} {a : Abs} (h : R st a) (cfg : Cfg) (p : Path) :
    (step cfg good st (.stop p)).2 = (specStep cfg a (.stop p)).2 ∧
    R (step cfg good st (.stop p)).1 (specStep cfg a (.stop p)).1 := by
  simp only [step, specStep, stopStream, get_eq_resolve h]
  cases a.resolve (canonicalPath cfg p) with
  | none => exact ⟨rfl, h⟩
  | some i => exact ⟨rfl, R_close h i false⟩

theorem sim_join {st : State} {a : Abs} (h : R st a) (cfg : Cfg) (i : Nat) (flv : Bool) :
    (step cfg good st (.join i flv)).2 = (specStep cfg a (.join i flv)).2 ∧
    R (step cfg good st (.join i flv)).1 (specStep cfg a (.join i flv)).1 := by
  simp only [step, specStep, join]
  by_cases hi : i < a.n
  · obtain ⟨s, hs, hr⟩ := h.stream hi
    simp only [hs, hi, decide_true, Bool.true_and]
    cases hc : a.closed i with
    | true =>
      have : s.status ≠ .ok := by
        intro e
        have := hr.2.1.mp e
        rw [hc] at this; cases this
      simp [this, h]
    | false =>
      have hok : s.status = .ok := hr.2.1.mpr hc
      simp only [hok, ne_eq, not_true_eq_false, if_false, Bool.not_false, if_true]
      refine ⟨by rw [hr.2.2.2.2.1], ?_⟩
      refine R_update h i _ _ (fun s => by cases flv <;> simp) rfl rfl rfl rfl (fun s' hs' hr' => ?_)
        (fun j s' hji hr' => ?_)
      · rw [hs] at hs'; cases hs'
        obtain ⟨h1, h2, h3, h4, h5, h6⟩ := hr
        cases flv <;> simp [SRel, upd, rtpOf, flvOf, h1, h2, h3, h4, h5, h6] <;> simp [rtpOf, flvOf] at h3 h4 <;> simp [h3, h4, hc]
      · simpa [SRel, upd, hji] using hr'
  · simp [h.none hi, hi, h]


theorem rtpOf_cons (b : Bool) (c : Nat) (l : List (Bool × Nat)) :
    rtpOf ((b, c) :: l) = if b then rtpOf l else c :: rtpOf l := by
  cases b <;> simp [rtpOf]

theorem flvOf_cons (b : Bool) (c : Nat) (l : List (Bool × Nat)) :
    flvOf ((b, c) :: l) = if b then c :: flvOf l else flvOf l := by
  cases b <;> simp [flvOf]

theorem rtpOf_erase (l : List (Bool × Nat)) (b : Bool) (c : Nat) :
    rtpOf (l.erase (b, c)) = if b then rtpOf l else (rtpOf l).erase c := by
  induction l with
  | nil => cases b <;> simp [rtpOf]
  | cons e l ih =>
    obtain ⟨b', c'⟩ := e
    by_cases he : (b', c') = (b, c)
    · cases he
      cases b <;> simp [rtpOf_cons]
    · have : ((b', c') == (b, c)) = false := by simpa using he
      rw [List.erase_cons, this]
      simp only [Bool.false_eq_true, if_false, rtpOf_cons, ih]
      cases b <;> cases b' <;> simp_all

theorem flvOf_erase (l : List (Bool × Nat)) (b : Bool) (c : Nat) :
    flvOf (l.erase (b, c)) = if b then (flvOf l).erase c else flvOf l := by
  induction l with
  | nil => cases b <;> simp [flvOf]
  | cons e l ih =>
    obtain ⟨b', c'⟩ := e
    by_cases he : (b', c') = (b, c)
    · cases he
      cases b <;> simp [flvOf_cons]
    · have : ((b', c') == (b, c)) = false := by simpa using he
      rw [List.erase_cons, this]
      simp only [Bool.false_eq_true, if_false, flvOf_cons, ih]
      cases b <;> cases b' <;> simp_all

theorem sim_leave {st : State} {a : Abs} (h : R st a) (cfg : Cfg) (i : Nat) (flv : Bool) (cid : Nat) :
    (step cfg good st (.leave i flv cid)).2 = (specStep cfg a (.leave i flv cid)).2 ∧
    R (step cfg good st (.leave i flv cid)).1 (specStep cfg a (.leave i flv cid)).1 := by
  simp only [step, specStep, leave]
  have hg : ∀ s : Stream, ((fun s : Stream => if flv = true then { s with flv := s.flv.erase cid }
      else { s with rtp := s.rtp.erase cid }) s).path = s.path ∧
      (s.status ≠ .ok → ((fun s : Stream => if flv = true then { s with flv := s.flv.erase cid }
      else { s with rtp := s.rtp.erase cid }) s).status ≠ .ok) := by
    intro s; cases flv <;> simp
  by_cases hi : i < a.n
  · simp only [hi, if_true]
    refine ⟨trivial, ?_⟩
    refine R_update h i _ _ hg rfl rfl rfl rfl (fun s _ hr => ?_) (fun j s' hji hr' => ?_)
    · obtain ⟨h1, h2, h3, h4, h5, h6⟩ := hr
      cases flv <;> simp [SRel, upd, rtpOf_erase, flvOf_erase, h1, h2, h3, h4, h5, h6]
    · simpa [SRel, upd, hji] using hr'
  · simp only [hi, if_false]
    refine ⟨trivial, ?_⟩
    refine R_update h i _ a hg rfl rfl rfl rfl (fun s hs _ => ?_) (fun _ _ _ hr => hr)
    rw [h.none hi] at hs; cases hs

theorem sim_touch {st : State} {a : Abs} (h : R st a) (cfg : Cfg) (i : Nat) :
    (step cfg good st (.touch i)).2 = (specStep cfg a (.touch i)).2 ∧
    R (step cfg good st (.touch i)).1 (specStep cfg a (.touch i)).1 := by
  simp only [step, specStep]
  refine ⟨trivial, ?_⟩
  refine R_update h i _ _ (fun s => ⟨rfl, id⟩) rfl rfl rfl rfl (fun s _ hr => ?_) (fun j s' hji hr' => ?_)
  · obtain ⟨h1, h2, h3, h4, h5, h6⟩ := hr
    simp [SRel, upd, h1, h2, h3, h4, h5, h6, h.now]
  · simpa [SRel, upd, hji] using hr'

theorem sim_advance {st : State} {a : Abs} (h : R st a) (cfg : Cfg) (n : Nat) :
    (step cfg good st (.advance n)).2 = (specStep cfg a (.advance n)).2 ∧
    R (step cfg good st (.advance n)).1 (specStep cfg a (.advance n)).1 := by
  simp only [step, specStep]
  refine ⟨trivial, h.len, fun i s hs => (h.str i s hs).congr rfl rfl rfl rfl rfl, h.reg, ?_, h.tasks, ?_⟩
  · exact wf_of_reg_eq h.wf (ExtL.refl _) rfl
  · simp [h.now]

theorem sim_get {st : State} {a : Abs} (h : R st a) (cfg : Cfg) (p : Path) :
    (step cfg good st (.get p)).2 = (specStep cfg a (.get p)).2 ∧
    R (step cfg good st (.get p)).1 (specStep cfg a (.get p)).1 := by
  simp only [step, specStep, get_eq_resolve h]
  exact ⟨trivial, h⟩

theorem sim_info {st : State} {a : Abs} (h : R st a) (cfg : Cfg) (p : Path) :
    (step cfg good st (.info p)).2 = (specStep cfg a (.info p)).2 ∧
    R (step cfg good st (.info p)).1 (specStep cfg a (.info p)).1 := by
  simp only [step, specStep, get_eq_resolve h]
  refine ⟨?_, h⟩
  cases hr : a.resolve (canonicalPath cfg p) with
  | none => rfl
  | some i =>
    have hi : i < a.n := by
      have hg : get cfg good st p = some i := by rw [get_eq_resolve h, hr]
      unfold get at hg
      split at hg
      · cases hg
      · next j hl =>
        split at hg
        · cases hg
          obtain ⟨s, hs, _⟩ := h.wf.2 _ _ hl
          exact h.lt hs
        · cases hg
    obtain ⟨s, hs, hrel⟩ := h.stream hi
    simp only [Option.map_some, pathOf, hs, h.ccOf hi, hrel.1]

theorem R_postTask {st : State} {a : Abs} (h : R st a) (i : Nat) (b : Bool) :
    R (postTask st i b) { a with tasks := a.tasks ++ [(i, b, false)] } := by
  refine ⟨h.len, fun j s hs => (h.str j s hs).congr rfl rfl rfl rfl rfl, h.reg, ?_, ?_, h.now⟩
  · exact wf_of_reg_eq h.wf (ExtL.refl _) rfl
  · simp [postTask, h.tasks, encTask]

theorem sim_postIdle {st : State} {a : Abs} (h : R st a) (cfg : Cfg) (i : Nat) :
    (step cfg good st (.postIdle i)).2 = (specStep cfg a (.postIdle i)).2 ∧
    R (step cfg good st (.postIdle i)).1 (specStep cfg a (.postIdle i)).1 := by
  simp only [step, specStep]
  exact ⟨trivial, R_postTask h i false⟩

theorem pending_eq {st : State} {a : Abs} (h : R st a) (i : Nat) :
    pendingTasks st i = (a.tasks.filter (fun k => k.1 = i && !k.2.2)).length := by
  rw [h.tasks, pendingTasks, List.filter_map, List.length_map]
  rfl

theorem sim_probe {st : State} {a : Abs} (h : R st a) (cfg : Cfg) (i : Nat) :
    (step cfg good st (.probe i)).2 = (specStep cfg a (.probe i)).2 ∧
    R (step cfg good st (.probe i)).1 (specStep cfg a (.probe i)).1 := by
  simp only [step, specStep, h.isOk, pending_eq h]
  exact ⟨trivial, h⟩


/-- `streams.Store(path i, i)` on both sides -/
theorem R_store {st : State} {a : Abs} (h : R st a) {i : Nat} {s : Stream} (hs : st.streams[i]? = some s) :
    R { st with reg := store st.reg s.path i }
      { a with owner := fun q => if q = a.path i then some i else a.owner q } := by
  have hp : s.path = a.path i := (h.str _ _ hs).1
  refine ⟨h.len, fun j s' hs' => (h.str j s' hs').congr rfl rfl rfl rfl rfl, fun k => ?_,
    wf_of_reg_store h.wf (ExtL.refl _) hs rfl, h.tasks, h.now⟩
  simp only [load_store, hp, h.reg]

/-- `streams.Delete(p)` on both sides -/
theorem R_delete {st : State} {a : Abs} (h : R st a) (p : Path) :
    R { st with reg := delete st.reg p }
      { a with owner := fun q => if q = p then none else a.owner q } := by
  refine ⟨h.len, fun j s' hs' => (h.str j s' hs').congr rfl rfl rfl rfl rfl, fun k => ?_,
    wf_of_reg_delete h.wf (ExtL.refl _) rfl, h.tasks, h.now⟩
  simp only [load_delete, h.reg]

theorem sim_regist {st : State} {a : Abs} (h : R st a) (cfg : Cfg) (i : Nat) :
    (step cfg good st (.regist i)).2 = (specStep cfg a (.regist i)).2 ∧
    R (step cfg good st (.regist i)).1 (specStep cfg a (.regist i)).1 := by
  simp only [step, specStep]
  by_cases hi : i < a.n
  · obtain ⟨s, hs, hr⟩ := h.stream hi
    have hp : s.path = a.path i := hr.1
    have hl : load st.reg s.path = a.owner (a.path i) := by rw [h.reg, hp]
    simp only [hi, if_true]
    unfold regist
    simp only [hs, hl]
    cases ho : a.owner (a.path i) with
    | none =>
      have : ¬ (none : Option Nat) = some i := by simp
      simp only [this, if_false, retireOld]
      exact ⟨trivial, R_store h hs⟩
    | some o =>
      by_cases hoi : o = i
      · subst hoi
        simp only [if_true]
        exact ⟨trivial, h⟩
      · have : ¬ (some o = some i) := fun e => hoi (Option.some.inj e)
        simp only [this, hoi, if_false, retireOld]
        have h1 := R_store h hs
        have hlo : load st.reg s.path = some o := by rw [hl, ho]
        obtain ⟨os, hos, _⟩ := h.wf.2 _ _ hlo
        have hcc := R.cc (h.str _ _ hos)
        simp only [hos]
        by_cases hemp : (a.attached o) = []
        · have : os.consumerCount ≤ 0 := by rw [hcc, hemp]; simp
          simp only [this, if_true, hemp, List.isEmpty_nil]
          exact ⟨trivial, R_close h1 o true⟩
        · have hpos : ¬ os.consumerCount ≤ 0 := by
            rw [hcc]
            have : 0 < (a.attached o).length := List.length_pos_iff.mpr hemp
            omega
          have hne : (a.attached o).isEmpty = false := by simpa using hemp
          simp only [hpos, if_false, hne, Bool.false_eq_true]
          exact ⟨trivial, R_postTask h1 o true⟩
  · simp only [hi, if_false]
    unfold regist
    simp only [h.none hi]
    exact ⟨trivial, h⟩

theorem sim_unregist {st : State} {a : Abs} (h : R st a) (cfg : Cfg) (i : Nat) :
    (step cfg good st (.unregist i)).2 = (specStep cfg a (.unregist i)).2 ∧
    R (step cfg good st (.unregist i)).1 (specStep cfg a (.unregist i)).1 := by
  simp only [step, specStep]
  by_cases hi : i < a.n
  · obtain ⟨s, hs, hr⟩ := h.stream hi
    have hp : s.path = a.path i := hr.1
    have hl : load st.reg s.path = a.owner (a.path i) := by rw [h.reg, hp]
    simp only [hi, if_true]
    unfold unregist
    simp only [hs, hl]
    by_cases ho : a.owner (a.path i) = some i
    · simp only [ho, if_true]
      have := R_delete h s.path
      rw [hp] at this ⊢
      exact ⟨trivial, R_close this i false⟩
    · simp only [ho, if_false]
      exact ⟨trivial, R_close h i false⟩
  · simp only [hi, if_false]
    unfold unregist
    simp only [h.none hi]
    exact ⟨trivial, h⟩


theorem idleDecision_good {a : Abs} {i : Nat} {s : Stream} (hr : SRel a i s) (d : Nat) :
    idleDecision good s a.now d = some (a.idle i d) := by
  have hcc := R.cc hr
  have hh : s.hls = a.hls i := hr.2.2.2.2.2
  unfold idleDecision Abs.idle
  simp only [good, if_true, hcc, hh]
  by_cases hemp : a.attached i = []
  · simp only [hemp, List.length_nil, List.isEmpty_nil, Bool.true_and]
    cases a.hls i <;> simp
  · have hpos : ¬ ((a.attached i).length : Int) ≤ 0 := by
      have : 0 < (a.attached i).length := List.length_pos_iff.mpr hemp
      omega
    have hne : (a.attached i).isEmpty = false := by simpa using hemp
    simp [hne, hemp]

theorem map_encTask_modify (ts : List Task) (t : Nat) :
    (ts.modify t (fun k => { k with done := true })).map encTask =
      (ts.map encTask).modify t (fun k => (k.1, k.2.1, true)) := by
  apply List.ext_getElem?
  intro j
  simp only [List.getElem?_map, List.getElem?_modify]
  cases ts[j]? with
  | none => rfl
  | some x => by_cases h : t = j <;> simp [h, encTask]

theorem R_markDone {st : State} {a : Abs} (h : R st a) (t : Nat) :
    R { st with tasks := st.tasks.modify t (fun k => { k with done := true }) }
      { a with tasks := a.tasks.modify t (fun k => (k.1, k.2.1, true)) } := by
  refine ⟨h.len, fun j s hs => (h.str j s hs).congr rfl rfl rfl rfl rfl, h.reg, ?_, ?_, h.now⟩
  · exact wf_of_reg_eq h.wf (ExtL.refl _) rfl
  · simp only [h.tasks, map_encTask_modify]

theorem sim_tick {st : State} {a : Abs} (h : R st a) (cfg : Cfg) (t d : Nat) :
    (step cfg good st (.tick t d)).2 = (specStep cfg a (.tick t d)).2 ∧
    R (step cfg good st (.tick t d)).1 (specStep cfg a (.tick t d)).1 := by
  simp only [step, specStep, tick]
  have hta : a.tasks[t]? = (st.tasks[t]?).map encTask := by rw [h.tasks, List.getElem?_map]
  rw [hta]
  cases htk : st.tasks[t]? with
  | none => exact ⟨rfl, h⟩
  | some task =>
    simp only [Option.map_some, encTask]
    by_cases hi : task.sid < a.n
    · obtain ⟨s, hs, hr⟩ := h.stream hi
      have hge : ¬ task.sid ≥ a.n := by omega
      have hdec : idleDecision good s st.now d = some (a.idle task.sid d) := by
        rw [h.now]; exact idleDecision_good hr d
      simp only [hs, hge, if_false, hdec]
      cases hid : a.idle task.sid d with
      | true =>
        simp only [if_true]
        exact ⟨trivial, R_close (R_markDone h t) task.sid task.replaced⟩
      | false =>
        simp only [Bool.false_eq_true, if_false]
        exact ⟨trivial, h⟩
    · have hge : task.sid ≥ a.n := by omega
      simp only [h.none hi, hge, if_true]
      exact ⟨trivial, h⟩


/-! ## Count / Infos: enumeration by registry entries = enumeration by stream identities -/

/-- distinct registry entries point at distinct streams -/
theorem wf_values_nodup {st : State} (hw : WF st) : (st.reg.map Prod.snd).Nodup := by
  have hk : st.reg.Pairwise (fun x y => x.1 ≠ y.1) := List.pairwise_map.mp hw.1
  apply List.pairwise_map.mpr
  refine List.Pairwise.imp_of_mem (fun {x y} hx hy hne heq => ?_) hk
  obtain ⟨s1, e1, p1⟩ := hw.2 _ _ (wf_load_entry hw x hx)
  obtain ⟨s2, e2, p2⟩ := hw.2 _ _ (wf_load_entry hw y hy)
  rw [heq, e2] at e1
  cases e1
  exact hne (p1.symm.trans p2)

theorem liveIds_nodup (a : Abs) : a.liveIds.Nodup :=
  List.Pairwise.filter _ List.nodup_range

theorem listed_perm_liveIds {st : State} {a : Abs} (h : R st a) :
    ((listed good st).map Prod.snd).Perm a.liveIds := by
  have hn1 : ((listed good st).map Prod.snd).Nodup :=
    List.Nodup.sublist (List.filter_sublist.map Prod.snd) (wf_values_nodup h.wf)
  rw [List.perm_ext_iff_of_nodup hn1 (liveIds_nodup a)]
  intro i
  simp only [listed, List.mem_map, List.mem_filter, Abs.liveIds, List.mem_range, Abs.live,
    visible_good, h.isOk, Bool.and_eq_true, decide_eq_true_eq, Bool.not_eq_true']
  constructor
  · rintro ⟨⟨k, j⟩, ⟨hm, hlt, hc⟩, rfl⟩
    have hl : load st.reg k = some j := (load_iff_mem h.wf.1 k j).mpr hm
    obtain ⟨s, hs, hp⟩ := h.wf.2 _ _ hl
    have hpa : s.path = a.path j := (h.str _ _ hs).1
    refine ⟨hlt, ?_, hc⟩
    rw [← hpa, hp, ← h.reg, hl]
  · rintro ⟨hlt, ho, hc⟩
    rw [← h.reg] at ho
    exact ⟨(a.path i, i), ⟨mem_of_load ho, hlt, hc⟩, rfl⟩

theorem foldl_add_perm {l1 l2 : List Int} (hp : l1.Perm l2) (z : Int) :
    l1.foldl (· + ·) z = l2.foldl (· + ·) z := by
  induction hp generalizing z with
  | nil => rfl
  | cons x _ ih => exact ih (z + x)
  | swap x y l =>
    simp only [List.foldl_cons]
    have : z + y + x = z + x + y := by omega
    rw [this]
  | trans _ _ ih1 ih2 => exact (ih1 z).trans (ih2 z)

theorem sim_count {st : State} {a : Abs} (h : R st a) (cfg : Cfg) :
    (step cfg good st .count).2 = (specStep cfg a .count).2 ∧
    R (step cfg good st .count).1 (specStep cfg a .count).1 := by
  simp only [step, specStep, count]
  refine ⟨?_, h⟩
  have hp := listed_perm_liveIds h
  have h1 : (listed good st).length = a.liveIds.length := by
    rw [← hp.length_eq, List.length_map]
  have h2 : (listed good st).map (fun e => ccOf st e.2) = ((listed good st).map Prod.snd).map (ccOf st) := by
    rw [List.map_map]; rfl
  have h3 : a.liveIds.map (ccOf st) = a.liveIds.map (fun i => ((a.attached i).length : Int)) := by
    apply List.map_congr_left
    intro i hi
    simp only [Abs.liveIds, List.mem_filter, List.mem_range] at hi
    exact h.ccOf hi.1
  rw [h1, h2, foldl_add_perm (hp.map (ccOf st)), h3]

/-! ### `strLe` is a total order -/

theorem strLe_iff (x y : Path) : strLe x y = true ↔ x ≤ y := by
  simp only [strLe, Bool.not_eq_true', decide_eq_false_iff_not]
  exact Iff.rfl

theorem strLe_trans (x y z : Path) (h1 : strLe x y = true) (h2 : strLe y z = true) : strLe x z = true := by
  rw [strLe_iff] at *
  exact List.le_trans h1 h2

theorem strLe_total (x y : Path) : (strLe x y || strLe y x) = true := by
  rw [Bool.or_eq_true, strLe_iff, strLe_iff]
  exact List.le_total x y

theorem strLe_antisymm (x y : Path) (h1 : strLe x y = true) (h2 : strLe y x = true) : x = y := by
  rw [strLe_iff] at *
  exact List.le_antisymm h1 h2

/-- sorting is independent of the enumeration order -/
theorem mergeSort_strLe_perm {l1 l2 : List Path} (hp : l1.Perm l2) :
    l1.mergeSort strLe = l2.mergeSort strLe := by
  apply List.Perm.eq_of_pairwise (le := fun x y => strLe x y = true)
  · intro x y _ _ h1 h2
    exact strLe_antisymm x y h1 h2
  · exact List.pairwise_mergeSort strLe_trans strLe_total l1
  · exact List.pairwise_mergeSort strLe_trans strLe_total l2
  · exact (List.mergeSort_perm l1 strLe).trans (hp.trans (List.mergeSort_perm l2 strLe).symm)

theorem infos_obs_eq {st : State} {a : Abs} (h : R st a) (token : Path) (size : Nat)
    (g : Path × Nat → Path) (hg : ∀ e ∈ listed good st, g e = a.path e.2) :
    Obs.paths ((listed good st).map g).length
      (if size > ((((listed good st).map g).filter (fun p => decide (token < p))).mergeSort strLe).length
        then (((listed good st).map g).filter (fun p => decide (token < p))).mergeSort strLe
        else ((((listed good st).map g).filter (fun p => decide (token < p))).mergeSort strLe).take size) =
    Obs.paths a.liveIds.length
      ((((a.liveIds.map a.path).filter (fun p => decide (token < p))).mergeSort strLe).take size) := by
  have hp := listed_perm_liveIds h
  have h1 : (listed good st).length = a.liveIds.length := by
    rw [← hp.length_eq, List.length_map]
  have h2 : (listed good st).map g = ((listed good st).map Prod.snd).map a.path := by
    rw [List.map_map]
    exact List.map_congr_left hg
  have h3 := mergeSort_strLe_perm ((hp.map a.path).filter (fun p => decide (token < p)))
  rw [h2, List.length_map, List.length_map, h1, h3]
  congr 1
  split
  · rw [List.take_of_length_le (by omega)]
  · rfl

theorem sim_infos {st : State} {a : Abs} (h : R st a) (cfg : Cfg) (token : Path) (size : Nat) :
    (step cfg good st (.infos token size)).2 = (specStep cfg a (.infos token size)).2 ∧
    R (step cfg good st (.infos token size)).1 (specStep cfg a (.infos token size)).1 := by
  simp only [step, specStep, infos]
  refine ⟨infos_obs_eq h token size _ (fun e he => ?_), h⟩
  have hm : e ∈ st.reg := (List.mem_filter.mp he).1
  obtain ⟨s, hs, _⟩ := h.wf.2 _ _ (wf_load_entry h.wf e hm)
  simp only [hs]
  exact (h.str _ _ hs).1


/-! ## the simulation and the refinement theorem -/

theorem step_sim {st : State} {a : Abs} (h : R st a) (cfg : Cfg) (op : Op) :
    (step cfg good st op).2 = (specStep cfg a op).2 ∧ R (step cfg good st op).1 (specStep cfg a op).1 := by
  cases op with
  | new p hh => exact sim_new h cfg p hh
  | regist i => exact sim_regist h cfg i
  | unregist i => exact sim_unregist h cfg i
  | close i => exact sim_close h cfg i
  | stop p => exact sim_stop h cfg p
  | join i flv => exact sim_join h cfg i flv
  | leave i flv cid => exact sim_leave h cfg i flv cid
  | tick t d => exact sim_tick h cfg t d
  | touch i => exact sim_touch h cfg i
  | advance n => exact sim_advance h cfg n
  | get p => exact sim_get h cfg p
  | count => exact sim_count h cfg
  | infos t n => exact sim_infos h cfg t n
  | info p => exact sim_info h cfg p
  | postIdle i => exact sim_postIdle h cfg i
  | probe i => exact sim_probe h cfg i

theorem run_sim {st : State} {a : Abs} (h : R st a) (cfg : Cfg) (ops : List Op) :
    runObs cfg good st ops = specObs cfg a ops ∧ R (run cfg good st ops) (specRun cfg a ops) := by
  induction ops generalizing st a with
  | nil => exact ⟨rfl, h⟩
  | cons op ops ih =>
    obtain ⟨ho, hr⟩ := step_sim h cfg op
    obtain ⟨ho', hr'⟩ := ih hr
    simp only [runObs, specObs, run, specRun]
    exact ⟨by rw [ho, ho'], hr'⟩

/-- the model with the facts of the fixed source refines the specification:
    same observations for every history (all operations, no bound) -/
theorem refines (cfg : Cfg) (ops : List Op) :
    runObs cfg good State.empty ops = IpcHub.RegistrySpec.specObs cfg IpcHub.RegistrySpec.Abs.empty ops :=
  (run_sim R_empty cfg ops).1

/-- and the reached states stay related -/
theorem refines_state (cfg : Cfg) (ops : List Op) :
    R (run cfg good State.empty ops) (specRun cfg Abs.empty ops) :=
  (run_sim R_empty cfg ops).2

end IpcHub.Registry
