/- the users table and the route table satisfy the laws of the generic table machine (C18) -/
import IpcHub.Lemmas.Tables
import IpcHub.Spec.UserEntry
import IpcHub.Model.TablesInst
namespace IpcHub.Tables
open IpcHub.TableSpec IpcHub.UserTable IpcHub.Route IpcHub.EntrySpecs

/-! users -/

theorem map_lower_idem (lower : Char → Char) (hl : ∀ c, lower (lower c) = lower c) (s : List Char) :
    (s.map lower).map lower = s.map lower := by
  rw [List.map_map]; apply List.map_congr_left; intro c _; exact hl c

theorem userInit_idem (lower : Char → Char) (hl : ∀ c, lower (lower c) = lower c) (u : User) :
    userInit lower (userInit lower u) = userInit lower u := by
  obtain ⟨name, pw, admin, push, pull⟩ := u
  cases admin <;> cases push <;> cases pull <;> simp [userInit, map_lower_idem lower hl]

def userLaws (lower : Char → Char) (hl : ∀ c, lower (lower c) = lower c) : Laws (userOps lower) where
  inv := fun u => userInit lower u = u
  init_inv := by
    intro v v' h
    simp only [userOps, Option.some.injEq] at h
    rw [← h]; exact userInit_idem lower hl v
  copy_inv := by
    intro v nv f _ _
    simp only [userOps, userCopyFrom]
    split <;> exact userInit_idem lower hl _
  copy_key := by
    intro v nv f hv
    have hname : v.name.map lower = v.name := by
      have := congrArg User.name hv
      obtain ⟨name, pw, admin, push, pull⟩ := v
      cases admin <;> cases push <;> cases pull <;> simpa [userInit] using this
    obtain ⟨name, pw, admin, push, pull⟩ := v
    obtain ⟨name', pw', admin', push', pull'⟩ := nv
    simp only at hname
    cases f <;> cases admin' <;> cases push' <;> cases pull' <;> simp [userOps, userCopyFrom, userInit, hname]

theorem userHyps (lower : Char → Char) (hl : ∀ c, lower (lower c) = lower c) :
    Hyps (userOps lower) (userLaws lower hl) (userSpec lower) defaultUsers where
  refines := {
    key := fun _ => rfl
    create := by
      intro u
      obtain ⟨name, pw, admin, push, pull⟩ := u
      cases admin <;> cases push <;> cases pull <;> simp [userSpec, userOps, userInit, dfltRight]
    update := by
      intro x nv f hx _
      have hname : x.name.map lower = x.name := by
        have := congrArg User.name hx
        obtain ⟨name, pw, admin, push, pull⟩ := x
        cases admin <;> cases push <;> cases pull <;> simpa [userInit] using this
      obtain ⟨name, pw, admin, push, pull⟩ := x
      obtain ⟨name', pw', admin', push', pull'⟩ := nv
      simp only at hname
      cases f <;> cases admin' <;> cases push' <;> cases pull' <;>
        simp [userSpec, userOps, userCopyFrom, userInit, dfltRight, hname]
    canonKey := fun _ => rfl }
  fix := by intro v hv; simp only [userOps]; rw [hv]
  dflt_nodup := by simp [defaultUsers, userOps]

/-! routes: stored form = canonical pattern and a URL that parses; this needs CanonicalPath to be
    idempotent (it is, once it iterates to a fixed point: Lemmas/PathCanon.lean) -/

def routeLaws (cfg : Route.Cfg) (hidem : ∀ p, canon cfg (canon cfg p) = canon cfg p) : Laws (routeOps cfg) where
  inv := fun r => routeInit cfg r = some r
  init_inv := by
    intro v v' h
    simp only [routeOps, routeInit] at h
    split at h
    · rename_i hok
      simp only [Option.some.injEq] at h
      subst h
      simp [routeInit, hidem, hok]
    · cases h
  copy_inv := by
    intro v nv f hv hnv
    simp only [routeInit] at hv hnv ⊢
    split at hv
    · split at hnv
      · rename_i hok
        simp only [Option.some.injEq] at hv hnv
        have hp : canon cfg v.pattern = v.pattern := congrArg Route.pattern hv
        simp [routeOps, routeCopyFrom, hok, hp]
      · cases hnv
    · cases hv
  copy_key := by intro v nv f _; rfl

theorem routeHyps (cfg : Route.Cfg) (hidem : ∀ p, canon cfg (canon cfg p) = canon cfg p) :
    Hyps (routeOps cfg) (routeLaws cfg hidem) (routeSpec cfg) defaultRoutes where
  refines := {
    key := fun _ => rfl
    create := by intro r; simp [routeSpec, routeOps, routeInit]
    update := by intro x nv f _ _; rfl
    canonKey := fun _ => rfl }
  fix := by intro v hv; exact hv
  dflt_nodup := by simp [defaultRoutes]

end IpcHub.Tables
