import IpcHub.Lemmas.Media2
namespace IpcHub.Media

/-- global invariant of the stream LTS (relative to the initial cache `c0`) -/
structure GInv (c0 : Cache) (s : St) : Prop where
  cinv : ∀ c ∈ s.cons, CInv s.published s.status c
  binv : ∀ c ∈ s.cons, BInv s.maxQLen s.sinceKeyPub s.maxSince c
  count : s.count = ((s.cons.filter (·.registered)).length : Int)
  cache : s.status = 0 → s.cache = packAll s.consts c0 s.published
  replay : ∀ c ∈ s.cons, c.replay = if c.usedGop then (packAll s.consts c0 (s.published.take c.joinedAt)).pushTo else []
  sk_le : s.sinceKeyPub ≤ s.maxSince

theorem count_map (l : List Cons) (P b : Cons → Bool) (g : Cons → Cons)
    (h1 : ∀ c, (g c).registered = (c.registered && !b c)) (h2 : ∀ c, b c = true → c.registered = true) :
    ((l.map (fun c => if P c then g c else c)).filter (·.registered)).length
      + (l.filter (fun c => P c && b c)).length = (l.filter (·.registered)).length := by
  induction l with
  | nil => simp
  | cons c cs ih =>
    simp only [List.map_cons, List.filter_cons]
    by_cases hP : P c = true
    · by_cases hb : b c = true
      · have hr := h2 c hb
        simp [hP, hb, h1, hr] at ih ⊢; omega
      · have hb' : b c = false := by simpa using hb
        by_cases hr : c.registered = true
        · simp [hP, hb', h1, hr] at ih ⊢; omega
        · have hr' : c.registered = false := by simpa using hr
          simp [hP, hb', h1, hr'] at ih ⊢; omega
    · have hP' : P c = false := by simpa using hP
      by_cases hr : c.registered = true
      · simp [hP', hr] at ih ⊢; omega
      · have hr' : c.registered = false := by simpa using hr
        simp [hP', hr'] at ih ⊢; omega

theorem count_map_same (l : List Cons) (f : Cons → Cons) (hf : ∀ c, (f c).registered = c.registered) :
    ((l.map f).filter (·.registered)).length = (l.filter (·.registered)).length := by
  induction l with
  | nil => rfl
  | cons c cs ih =>
    simp only [List.map_cons, List.filter_cons, hf]
    split <;> simp [ih]

theorem close_registered (c : Cons) : (Cons.close { c with registered := false }).registered = false := by
  unfold Cons.close; split <;> rfl

theorem close_fields (c : Cons) :
    (Cons.close c).replay = c.replay ∧ (Cons.close c).usedGop = c.usedGop ∧ (Cons.close c).joinedAt = c.joinedAt
    ∧ (Cons.close c).name = c.name := by
  unfold Cons.close; split <;> simp

theorem send_fields (m : Nat) (p : Pkt) (key : Bool) (c : Cons) :
    (c.send m p key).replay = c.replay ∧ (c.send m p key).usedGop = c.usedGop ∧ (c.send m p key).joinedAt = c.joinedAt
    ∧ (c.send m p key).name = c.name ∧ (c.send m p key).registered = c.registered := by
  unfold Cons.send Cons.keep Cons.drop
  split
  · simp
  · split <;> simp

theorem step_fields (c : Cons) :
    c.step.1.replay = c.replay ∧ c.step.1.usedGop = c.usedGop ∧ c.step.1.joinedAt = c.joinedAt
    ∧ c.step.1.name = c.name := by
  unfold Cons.step
  cases c.stepKind <;> simp [Cons.apply]

theorem step_registered (c : Cons) : c.step.1.registered = (c.registered && !c.step.2) ∧ (c.step.2 = true → c.registered = true) := by
  unfold Cons.step
  cases c.stepKind <;> simp [Cons.apply]

theorem take_take_append {α} (l : List α) (a : α) (j : Nat) (h : j ≤ l.length) : (l ++ [a]).take j = l.take j := by
  rw [List.take_append_of_le_length h]

theorem ginv_step (c0 : Cache) (s : St) (l : Label) (h : GInv c0 s) : GInv c0 (s.step l) := by
  cases l with
  | pub p =>
    simp only [St.step]
    by_cases hst : s.status = 0
    · rw [if_neg (by simp [hst])]
      cases hp : s.cache.pack s.consts p with
      | none =>
        try dsimp only
        exact ⟨h.cinv, h.binv, h.count, h.cache, h.replay, h.sk_le⟩
      | some r =>
        obtain ⟨cache', key⟩ := r
        simp only
        try dsimp only
        refine ⟨?_, ?_, ?_, ?_, ?_, ?_⟩
        · intro c hc
          simp only [List.mem_map] at hc
          obtain ⟨c', hc', rfl⟩ := hc
          have := h.cinv c' hc'
          rw [hst] at this ⊢
          exact send_inv _ _ _ _ _ this
        · intro c hc
          simp only [List.mem_map] at hc
          obtain ⟨c', hc', rfl⟩ := hc
          exact send_binv _ _ _ _ _ _ (h.binv c' hc') h.sk_le
        · rw [h.count, count_map_same]
          intro c; exact (send_fields s.maxQLen p key c).2.2.2.2
        · intro _
          rw [packAll_append, ← h.cache hst, hp]
        · intro c hc
          simp only [List.mem_map] at hc
          obtain ⟨c', hc', rfl⟩ := hc
          obtain ⟨e1, e2, e3, _, _⟩ := send_fields s.maxQLen p key c'
          rw [e1, e2, e3, h.replay c' hc', take_take_append _ _ _ (h.cinv c' hc').joined_le]
        · exact Nat.le_max_right _ _
    · rw [if_pos hst]
      exact h
  | join name useGop panicAt =>
    simp only [St.step]
    by_cases hn : s.hasName name = true
    · simp [hn]; exact h
    · simp only [hn, Bool.false_eq_true, if_false]
      by_cases hst : s.status = 0
      · rw [if_neg (by simp [hst])]
        try dsimp only
        refine ⟨?_, ?_, ?_, ?_, ?_, h.sk_le⟩
        · intro c hc
          simp only [List.mem_append, List.mem_singleton] at hc
          rcases hc with hc | rfl
          · exact h.cinv c hc
          · refine ⟨by simp, by simp, by intro _ _; simp, ?_, by simp, by intro _; exact ⟨rfl, rfl, hst⟩, by simp,
              by intro x; simp at x⟩
            intro _
            simp [Cons.pending, List.filterMap_map]
        · intro c hc
          simp only [List.mem_append, List.mem_singleton] at hc
          rcases hc with hc | rfl
          · exact h.binv c hc
          · exact ⟨by intro _; simp, by intro _ _; simp, by simp, by simp [aligned], by simp [lastKept]⟩
        · simp only [List.filter_append, List.length_append]
          rw [h.count]; simp
        · exact h.cache
        · intro c hc
          simp only [List.mem_append, List.mem_singleton] at hc
          rcases hc with hc | rfl
          · exact h.replay c hc
          · simp only [List.take_length]
            rw [← h.cache hst]
      · rw [if_pos hst]
        try dsimp only
        refine ⟨?_, ?_, ?_, h.cache, ?_, h.sk_le⟩
        · intro c hc
          simp only [List.mem_append, List.mem_singleton] at hc
          rcases hc with hc | rfl
          · exact h.cinv c hc
          · refine ⟨by simp [Cons.close], by simp [Cons.close], by intro x; simp [Cons.close] at x, ?_, by simp [Cons.close],
              by intro x; simp [Cons.close] at x, by simp [Cons.close], by intro x; simp [Cons.close] at x⟩
            intro _; simp [Cons.close, Cons.pending]
        · intro c hc
          simp only [List.mem_append, List.mem_singleton] at hc
          rcases hc with hc | rfl
          · exact h.binv c hc
          · exact ⟨by intro x; simp [Cons.close] at x, by intro x; simp [Cons.close] at x, by simp [Cons.close],
              by simp [Cons.close, aligned], by simp [Cons.close, lastKept]⟩
        · simp only [List.filter_append, List.length_append]
          rw [h.count]; simp [Cons.close]
        · intro c hc
          simp only [List.mem_append, List.mem_singleton] at hc
          rcases hc with hc | rfl
          · exact h.replay c hc
          · simp [Cons.close]
  | stop name =>
    simp only [St.step]
    try dsimp only
    refine ⟨?_, ?_, ?_, h.cache, ?_, h.sk_le⟩
    · intro c hc
      simp only [List.mem_map] at hc
      obtain ⟨c', hc', rfl⟩ := hc
      split
      · exact close_inv _ _ _ _ (h.cinv c' hc')
      · exact h.cinv c' hc'
    · intro c hc
      simp only [List.mem_map] at hc
      obtain ⟨c', hc', rfl⟩ := hc
      split
      · exact close_binv _ _ _ _ (h.binv c' hc')
      · exact h.binv c' hc'
    · have := count_map s.cons (fun c => decide (c.name = name) && c.registered) (fun c => c.registered)
        (fun c => Cons.close { c with registered := false })
        (by intro c; rw [close_registered]; cases c.registered <;> rfl) (by intro c hc; exact hc)
      simp only [Bool.and_eq_true, decide_eq_true_eq, Bool.and_self_right] at this
      rw [h.count]
      simp only [Bool.decide_and, Bool.decide_eq_true]
      omega
    · intro c hc
      simp only [List.mem_map] at hc
      obtain ⟨c', hc', rfl⟩ := hc
      split
      · obtain ⟨e1, e2, e3, _⟩ := close_fields { c' with registered := false }
        rw [e1, e2, e3]; exact h.replay c' hc'
      · exact h.replay c' hc'
  | close =>
    simp only [St.step]
    by_cases hst : s.status = 0
    · rw [if_neg (by simp [hst])]
      try dsimp only
      refine ⟨?_, ?_, ?_, by intro x; simp at x, ?_, h.sk_le⟩
      · intro c hc
        simp only [List.mem_map] at hc
        obtain ⟨c', hc', rfl⟩ := hc
        split
        · exact close_inv _ _ _ _ (h.cinv c' hc')
        · rename_i hr
          have hr' : c'.registered = false := by simpa using hr
          have hi := h.cinv c' hc'
          exact ⟨hi.joined_le, hi.sent_sub, by intro x; simp [hr'] at x, hi.shape, hi.pre, by intro x; simp [hr'] at x,
            hi.calls, hi.ex⟩
      · intro c hc
        simp only [List.mem_map] at hc
        obtain ⟨c', hc', rfl⟩ := hc
        split
        · exact close_binv _ _ _ _ (h.binv c' hc')
        · exact h.binv c' hc'
      · have : (List.filter (fun c => c.registered)
            (List.map (fun c => if c.registered = true then Cons.close { c with registered := false } else c) s.cons)) = [] := by
          rw [List.filter_eq_nil_iff]
          intro c hc
          try dsimp only at hc ⊢
          simp only [List.mem_map] at hc
          obtain ⟨c', _, rfl⟩ := hc
          split
          · simp [close_registered]
          · rename_i hr; simpa using hr
        simp [this]
      · intro c hc
        simp only [List.mem_map] at hc
        obtain ⟨c', hc', rfl⟩ := hc
        split
        · obtain ⟨e1, e2, e3, _⟩ := close_fields { c' with registered := false }
          rw [e1, e2, e3]; exact h.replay c' hc'
        · exact h.replay c' hc'
    · rw [if_pos hst]
      exact h
  | cstep name =>
    simp only [St.step]
    try dsimp only
    refine ⟨?_, ?_, ?_, h.cache, ?_, h.sk_le⟩
    · intro c hc
      simp only [List.mem_map] at hc
      obtain ⟨c', hc', rfl⟩ := hc
      split
      · exact step_inv _ _ _ (h.cinv c' hc')
      · exact h.cinv c' hc'
    · intro c hc
      simp only [List.mem_map] at hc
      obtain ⟨c', hc', rfl⟩ := hc
      split
      · exact step_binv _ _ _ _ (h.binv c' hc')
      · exact h.binv c' hc'
    · have := count_map s.cons (fun c => decide (c.name = name)) (fun c => c.step.2) (fun c => c.step.1)
        (fun c => (step_registered c).1) (fun c => (step_registered c).2)
      simp only [decide_eq_true_eq] at this
      rw [h.count]
      simp only [Bool.decide_and, Bool.decide_eq_true]
      omega
    · intro c hc
      simp only [List.mem_map] at hc
      obtain ⟨c', hc', rfl⟩ := hc
      split
      · obtain ⟨e1, e2, e3, _⟩ := step_fields c'
        rw [e1, e2, e3]; exact h.replay c' hc'
      · exact h.replay c' hc'
  | stall name =>
    simp only [St.step]
    try dsimp only
    refine ⟨?_, ?_, ?_, h.cache, ?_, h.sk_le⟩
    · intro c hc
      simp only [List.mem_map] at hc
      obtain ⟨c', hc', rfl⟩ := hc
      have hi := h.cinv c' hc'
      split
      · exact ⟨hi.joined_le, hi.sent_sub, hi.sent_all, hi.shape, hi.pre, hi.reg, hi.calls, hi.ex⟩
      · exact hi
    · intro c hc
      simp only [List.mem_map] at hc
      obtain ⟨c', hc', rfl⟩ := hc
      have hi := h.binv c' hc'
      split
      · exact ⟨hi.bound, hi.fresh, hi.le_max, hi.al, hi.lk⟩
      · exact hi
    · rw [h.count, count_map_same]
      intro c; split <;> rfl
    · intro c hc
      simp only [List.mem_map] at hc
      obtain ⟨c', hc', rfl⟩ := hc
      split
      · exact h.replay c' hc'
      · exact h.replay c' hc'
  | resume name =>
    simp only [St.step]
    try dsimp only
    refine ⟨?_, ?_, ?_, h.cache, ?_, h.sk_le⟩
    · intro c hc
      simp only [List.mem_map] at hc
      obtain ⟨c', hc', rfl⟩ := hc
      have hi := h.cinv c' hc'
      split
      · exact ⟨hi.joined_le, hi.sent_sub, hi.sent_all, hi.shape, hi.pre, hi.reg, hi.calls, hi.ex⟩
      · exact hi
    · intro c hc
      simp only [List.mem_map] at hc
      obtain ⟨c', hc', rfl⟩ := hc
      have hi := h.binv c' hc'
      split
      · exact ⟨hi.bound, hi.fresh, hi.le_max, hi.al, hi.lk⟩
      · exact hi
    · rw [h.count, count_map_same]
      intro c; split <;> rfl
    · intro c hc
      simp only [List.mem_map] at hc
      obtain ⟨c', hc', rfl⟩ := hc
      split
      · exact h.replay c' hc'
      · exact h.replay c' hc'

theorem ginv_init (k : NalConsts) (m : Nat) (hevc gop : Bool) :
    GInv { hevc := hevc, cacheGop := gop } (St.init k m hevc gop) := by
  refine ⟨by intro c hc; simp [St.init] at hc, by intro c hc; simp [St.init] at hc, by simp [St.init],
    by intro _; simp [St.init, packAll], by intro c hc; simp [St.init] at hc, by simp [St.init]⟩

theorem ginv_run (c0 : Cache) (s : St) (ls : List Label) (h : GInv c0 s) : GInv c0 (s.run ls) := by
  induction ls generalizing s with
  | nil => exact h
  | cons l ls ih => exact ih _ (ginv_step c0 s l h)

end IpcHub.Media
