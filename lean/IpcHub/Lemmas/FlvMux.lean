/-
C08 lemmas about the muxer: which tags `Muxer.process` hands to the writer for a frame sequence,
and that each of them is what the specification demands (metadata, decoder configuration,
AAC configuration, one tag per carried frame).
-/
import IpcHub.Lemmas.FlvWriter
import IpcHub.Lemmas.FlvBody
import IpcHub.Model.FlvAssume
namespace IpcHub.FlvLemmas
open IpcHub.Flv IpcHub.FlvSpec

/-- admissible frame: a video frame has at least one byte (the NAL header), the tag body fits
    the 24-bit DataSize, the tag time lies in the signed 32-bit window of FLV timestamps and the
    composition offset in the SI24 range -/
def FrameOk (f : Frame) : Prop :=
  (f.mediaType = 0 → f.payload ≠ []) ∧ f.payload.length + 9 < 16777216 ∧
  -2147483648 ≤ tagTimeMs f ∧ tagTimeMs f < 2147483648 ∧
  -8388608 ≤ msOf f.pts - msOf f.dts ∧ msOf f.pts - msOf f.dts < 8388608

instance (f : Frame) : Decidable (FrameOk f) := by unfold FrameOk; infer_instance

/-- `FrameOk` without the time window (which depends on where the client's time line starts) -/
def FrameFits (f : Frame) : Prop :=
  (f.mediaType = 0 → f.payload ≠ []) ∧ f.payload.length + 9 < 16777216 ∧
  -8388608 ≤ msOf f.pts - msOf f.dts ∧ msOf f.pts - msOf f.dts < 8388608

instance (f : Frame) : Decidable (FrameFits f) := by unfold FrameFits; infer_instance

theorem FrameOk.fits {f : Frame} (h : FrameOk f) : FrameFits f := ⟨h.1, h.2.1, h.2.2.2.2.1, h.2.2.2.2.2⟩

/-! ### the rebase, for any tag whose timestamp is a truncated source time -/

theorem rebase_fixed_tag (cfg : Cfg) (hc : Cfg.writerFixed cfg) (t0 T : Int) (t : Tag)
    (ht : t.timestamp = u32OfInt T) (h1 : -2147483648 ≤ T - t0) (h2 : T - t0 < 2147483648) :
    (t.timestamp - (Writer.rebase cfg { delta := u32OfInt t0, started := true } t)).toNat = rebased t0 T := by
  have := rebase_fixed cfg hc t0 { tagType := 0, time := T, data := [] } h1 h2
  simp only [toTag, Writer.rebase] at this ⊢
  rw [ht]
  exact this

theorem views_started (cfg : Cfg) (hc : Cfg.writerFixed cfg) (d : UInt32) (ts : List Tag) :
    views cfg { delta := d, started := true } ts =
      ts.map (fun t => viewTag t (Writer.rebase cfg { delta := d, started := true } t)) := by
  induction ts with
  | nil => rfl
  | cons t ts ih =>
    have hnext : Writer.next cfg { delta := d, started := true } t = { delta := d, started := true } := by
      simp [Writer.next, Writer.isFirst, hc.2]
    simp only [views, hnext, ih, List.map_cons]

/-! ### the single tags -/

theorem f64_codec_ids : f64ToNat? (f64OfInt 7).toNat = some 7 ∧ f64ToNat? (f64OfInt 12).toNat = some 12 ∧
    f64ToNat? (f64OfInt 10).toNat = some 10 := by decide

theorem metadataProps_ok (vm : VideoMeta) (am : AudioMeta) (date : Bytes) (hd : date.length < 4294967296) :
    ∀ p ∈ metadataProps vm am date, propOk p = true := by
  have hall : (metadataProps vm am date).all propOk = true := by
    cases ha : am.aac <;>
      simp +decide [metadataProps, muxTypeFlags, ha, propOk, AmfVal.ok, hd]
  exact fun p hp => List.all_eq_true.1 hall p hp

theorem metadataProps_length (vm : VideoMeta) (am : AudioMeta) (date : Bytes) :
    (metadataProps vm am date).length = if am.aac then 12 else 7 := by
  cases ha : am.aac <;> simp +decide [metadataProps, muxTypeFlags, ha]

theorem lookup_videocodecid (vm : VideoMeta) (am : AudioMeta) (date : Bytes) :
    lookup (asciiBytes "videocodecid") ((metadataProps vm am date).map convProp) =
      some (.number (f64OfInt (if vm.codec = .h265 then 12 else 7)).toNat) := by
  cases ha : am.aac <;>
    simp +decide [metadataProps, muxTypeFlags, ha, lookup, convProp, convAmf]

theorem lookup_audiocodecid (vm : VideoMeta) (am : AudioMeta) (date : Bytes) :
    lookup (asciiBytes "audiocodecid") ((metadataProps vm am date).map convProp) =
      if am.aac then some (.number (f64OfInt 10).toNat) else none := by
  cases ha : am.aac <;>
    simp +decide [metadataProps, muxTypeFlags, ha, lookup, convProp, convAmf]

/-- the metadata tag, as the reader sees it, is what the property demands -/
theorem isMetaTag_view (vm : VideoMeta) (am : AudioMeta) (date : Bytes) (d : UInt32)
    (hd : date.length < 4294967296) :
    isMetaTag (srcOf vm am) (viewTag (metadataTag vm am date) d) = true := by
  have hp := parseScript_scriptData (strBytes "onMetaData") (metadataProps vm am date) (by decide)
    (by rw [metadataProps_length]; split <;> decide) (metadataProps_ok vm am date hd)
  have hv := lookup_videocodecid vm am date
  have ha := lookup_audiocodecid vm am date
  obtain ⟨f7, f12, f10⟩ := f64_codec_ids
  have hname : strBytes "onMetaData" = asciiBytes "onMetaData" := rfl
  simp only [isMetaTag, viewTag, metadataTag, hp, hv, ha, srcOf, codecIdOf, List.length_map]
  cases hc : am.aac <;> by_cases h5 : vm.codec = .h265 <;> simp +decide [h5, hname, f7, f12, f10, tagTypeScript]

theorem applyPLT_lsm (r : HevcRecord) (p : HevcPtl) :
    (applyPLT r p).lengthSizeMinusOne = r.lengthSizeMinusOne := rfl

theorem raiseSubLayers_lsm (r : HevcRecord) (m : UInt8) :
    (raiseSubLayers r m).lengthSizeMinusOne = r.lengthSizeMinusOne := by
  unfold raiseSubLayers; split <;> rfl

theorem hevcInit_lsm (v : Option HevcVpsInfo) (s : Option HevcSpsInfo) :
    (hevcInit v s).lengthSizeMinusOne = 3 := by
  unfold hevcInit
  cases v with
  | none => rfl
  | some v =>
    cases s with
    | none => simp only [applyPLT_lsm, raiseSubLayers_lsm]
    | some s => simp only [applyPLT_lsm, raiseSubLayers_lsm]

/-! ### general profile/tier/level of the HEVC record -/

theorem ptlNat_inj (p q : HevcPtl) (h : ptlNat p = ptlNat q) : p = q := by
  cases p; cases q
  simp only [ptlNat, Ptl.mk.injEq] at h
  obtain ⟨h1, h2, h3, h4, h5, h6⟩ := h
  simp only [HevcPtl.mk.injEq]
  exact ⟨UInt8.toNat_inj.1 h1, UInt8.toNat_inj.1 h2, UInt8.toNat_inj.1 h3, UInt32.toNat_inj.1 h4,
    UInt64.toNat_inj.1 h5, UInt8.toNat_inj.1 h6⟩

theorem u8_max_self (x : UInt8) : (if x > 0 then x else 0) = x := by
  split
  · rfl
  · rename_i h
    have : x ≤ 0 := UInt8.not_lt.1 h
    exact (UInt8.le_zero_iff.1 this).symm

theorem raiseSubLayers_ptl (r : HevcRecord) (m : UInt8) :
    (raiseSubLayers r m).space = r.space ∧ (raiseSubLayers r m).tier = r.tier ∧ (raiseSubLayers r m).idc = r.idc ∧
    (raiseSubLayers r m).compat = r.compat ∧ (raiseSubLayers r m).constraint = r.constraint ∧
    (raiseSubLayers r m).level = r.level ∧ (raiseSubLayers r m).lengthSizeMinusOne = r.lengthSizeMinusOne := by
  unfold raiseSubLayers
  split <;> exact ⟨rfl, rfl, rfl, rfl, rfl, rfl, rfl⟩

/-- VPS and SPS agree on the general profile/tier/level `p`: the record carries `p` -/
theorem hevcInit_agree (v : HevcVpsInfo) (s : HevcSpsInfo) (p : HevcPtl) (hv : v.ptl = p) (hs : s.ptl = p)
    (hc : p.constraint.toNat < 281474976710656) :
    (hevcInit (some v) (some s)).space = p.space ∧ (hevcInit (some v) (some s)).tier = p.tier ∧
    (hevcInit (some v) (some s)).idc = p.idc ∧ (hevcInit (some v) (some s)).compat = p.compat ∧
    (hevcInit (some v) (some s)).constraint = p.constraint ∧ (hevcInit (some v) (some s)).level = p.level := by
  have hones32 : (0xffffffff : UInt32) = -1 := by decide
  have hcon : (0xffffffffffff : UInt64) &&& p.constraint = p.constraint := by
    apply UInt64.toNat_inj.1
    rw [UInt64.toNat_and]
    have : (0xffffffffffff : UInt64).toNat = 2 ^ 48 - 1 := by decide
    rw [this, Nat.and_comm, Nat.and_two_pow_sub_one_eq_mod]
    exact Nat.mod_eq_of_lt hc
  have ht : ∀ x : UInt8, ¬ x > x := fun x => UInt8.lt_irrefl x
  obtain ⟨a1, a2, a3, a4, a5, a6, _⟩ := raiseSubLayers_ptl {} v.maxSubLayersMinus1
  -- after the VPS: the record carries p
  have r1 : let r := applyPLT (raiseSubLayers {} v.maxSubLayersMinus1) p
      r.space = p.space ∧ r.tier = p.tier ∧ r.idc = p.idc ∧ r.compat = p.compat ∧ r.constraint = p.constraint ∧ r.level = p.level := by
    refine ⟨rfl, ?_, ?_, ?_, ?_, ?_⟩
    · show (if p.tier > (raiseSubLayers {} v.maxSubLayersMinus1).tier then p.tier else _) = _
      rw [a2]; exact u8_max_self p.tier
    · show (if p.idc > (raiseSubLayers {} v.maxSubLayersMinus1).idc then p.idc else _) = _
      rw [a3]; exact u8_max_self p.idc
    · show (raiseSubLayers {} v.maxSubLayersMinus1).compat &&& p.compat = _
      rw [a4]; show (0xffffffff : UInt32) &&& p.compat = _
      rw [hones32]; exact UInt32.neg_one_and
    · show (raiseSubLayers {} v.maxSubLayersMinus1).constraint &&& p.constraint = _
      rw [a5]; exact hcon
    · show (if p.tier > (raiseSubLayers {} v.maxSubLayersMinus1).tier then p.level
            else if p.level > (raiseSubLayers {} v.maxSubLayersMinus1).level then p.level
            else (raiseSubLayers {} v.maxSubLayersMinus1).level) = _
      rw [a2, a6]
      by_cases hp : p.tier > (0 : UInt8)
      · have : p.tier > ({} : HevcRecord).tier := hp
        simp [this]
      · have : ¬ p.tier > ({} : HevcRecord).tier := hp
        simp only [this, if_false]; exact u8_max_self p.level
  obtain ⟨b1, b2, b3, b4, b5, b6⟩ := r1
  simp only [hevcInit, hv, hs]
  obtain ⟨c1, c2, c3, c4, c5, c6, _⟩ := raiseSubLayers_ptl (applyPLT (raiseSubLayers {} v.maxSubLayersMinus1) p) s.maxSubLayersMinus1
  refine ⟨rfl, ?_, ?_, ?_, ?_, ?_⟩
  · show (if p.tier > (raiseSubLayers _ s.maxSubLayersMinus1).tier then p.tier else (raiseSubLayers _ s.maxSubLayersMinus1).tier) = _
    rw [c2, b2]; simp [ht]
  · show (if p.idc > (raiseSubLayers _ s.maxSubLayersMinus1).idc then p.idc else (raiseSubLayers _ s.maxSubLayersMinus1).idc) = _
    rw [c3, b3]; simp [ht]
  · show (raiseSubLayers _ s.maxSubLayersMinus1).compat &&& p.compat = _
    rw [c4, b4]; exact UInt32.and_self
  · show (raiseSubLayers _ s.maxSubLayersMinus1).constraint &&& p.constraint = _
    rw [c5, b5]; exact UInt64.and_self
  · show (if p.tier > (raiseSubLayers _ s.maxSubLayersMinus1).tier then p.level
          else if p.level > (raiseSubLayers _ s.maxSubLayersMinus1).level then p.level
          else (raiseSubLayers _ s.maxSubLayersMinus1).level) = _
    rw [c2, c6, b2, b6]; simp [ht]

theorem ptlAt_bounds (off : Nat) (nal : Bytes) (a : Ptl) (h : ptlAt off nal = some a) :
    a.space < 4 ∧ a.tier < 2 ∧ a.idc < 32 ∧ a.constraint < 281474976710656 := by
  unfold ptlAt at h
  split at h
  · rename_i b c1 c2 c3 c4 g1 g2 g3 g4 g5 g6 lvl _ _
    have hb : ∀ x : UInt8, (x >>> 6).toNat < 4 ∧ ((x >>> 5) &&& 1).toNat < 2 ∧ (x &&& 0x1F).toNat < 32 := by
      apply forall_u8
      set_option maxRecDepth 8192 in decide
    obtain ⟨h1, h2, h3⟩ := hb b
    have e := (Option.some.inj h).symm
    subst e
    refine ⟨h1, h2, h3, ?_⟩
    have := g1.toNat_lt; have := g2.toNat_lt; have := g3.toNat_lt
    have := g4.toNat_lt; have := g5.toNat_lt; have := g6.toNat_lt
    simp only [u16, u32]
    omega
  · cases h

/-- the first general byte of the record, recomposed from in-range fields, splits back into them -/
theorem ptl_byte_fields : ∀ sp : Fin 4, ∀ ti : Fin 2, ∀ idc : Fin 32,
    let b : UInt8 := (UInt8.ofNat sp.val <<< 6) ||| (UInt8.ofNat ti.val <<< 5) ||| UInt8.ofNat idc.val
    (b >>> 6).toNat = sp.val ∧ ((b >>> 5) &&& 1).toNat = ti.val ∧ (b &&& 0x1F).toNat = idc.val := by
  set_option maxRecDepth 8192 in decide

/-- the HEVC record carries the parameter sets' general profile/tier/level where the property
    demands it (VPS and SPS state the same values), given faithful decoders -/
theorem hevc_ptl_ok (vm : VideoMeta) (hf : hevcFaithful vm = true) (h : Hvcc)
    (h1 : h.profileSpace = (((hevcInit vm.hevcVps vm.hevcSps).space <<< 6 ||| (hevcInit vm.hevcVps vm.hevcSps).tier <<< 5 |||
            (hevcInit vm.hevcVps vm.hevcSps).idc) >>> 6).toNat)
    (h2 : h.tier = ((((hevcInit vm.hevcVps vm.hevcSps).space <<< 6 ||| (hevcInit vm.hevcVps vm.hevcSps).tier <<< 5 |||
            (hevcInit vm.hevcVps vm.hevcSps).idc) >>> 5) &&& 1).toNat)
    (h3 : h.profileIdc = (((hevcInit vm.hevcVps vm.hevcSps).space <<< 6 ||| (hevcInit vm.hevcVps vm.hevcSps).tier <<< 5 |||
            (hevcInit vm.hevcVps vm.hevcSps).idc) &&& 0x1F).toNat)
    (h4 : h.compat = (hevcInit vm.hevcVps vm.hevcSps).compat.toNat)
    (h5 : h.level = (hevcInit vm.hevcVps vm.hevcSps).level.toNat)
    (h6 : (hevcInit vm.hevcVps vm.hevcSps).constraint.toNat < 281474976710656 →
      h.constraint = (hevcInit vm.hevcVps vm.hevcSps).constraint.toNat) :
    ∀ a b, spsPtl vm.sps = some a → vpsPtl vm.vps = some b →
      (!decide (a = b) || (decide (h.profileSpace = a.space) && decide (h.tier = a.tier) && decide (h.profileIdc = a.idc) &&
                 decide (h.compat = a.compat) && decide (h.constraint = a.constraint) && decide (h.level = a.level))) = true := by
  unfold hevcFaithful at hf
  intro a b hsp hvp
  · · simp only [hsp, hvp] at hf ⊢
      by_cases hab : a = b
      · subst hab
        simp only [ne_eq, not_true_eq_false, decide_false, Bool.false_or] at hf ⊢
        cases hv : vm.hevcVps with
        | none => simp [hv] at hf
        | some v =>
          cases hs : vm.hevcSps with
          | none => simp [hv, hs] at hf
          | some s =>
            simp only [hv, hs, Bool.and_eq_true, decide_eq_true_eq] at hf
            obtain ⟨hva, hsa⟩ := hf
            have hvs : v.ptl = s.ptl := ptlNat_inj _ _ (hva.trans hsa.symm)
            obtain ⟨ba, bb, bc, bd⟩ := ptlAt_bounds 3 vm.sps a hsp
            have hcon : s.ptl.constraint.toNat < 281474976710656 := by
              have : s.ptl.constraint.toNat = a.constraint := by rw [← hsa]; rfl
              omega
            obtain ⟨r1, r2, r3, r4, r5, r6⟩ := hevcInit_agree v s s.ptl hvs rfl hcon
            rw [hv, hs] at h1 h2 h3 h4 h5 h6
            rw [r1, r2, r3] at h1 h2 h3
            rw [r4] at h4; rw [r6] at h5; rw [r5] at h6
            have hsp' : s.ptl.space.toNat = a.space := by rw [← hsa]; rfl
            have hti' : s.ptl.tier.toNat = a.tier := by rw [← hsa]; rfl
            have hid' : s.ptl.idc.toNat = a.idc := by rw [← hsa]; rfl
            have hco' : s.ptl.compat.toNat = a.compat := by rw [← hsa]; rfl
            have hcn' : s.ptl.constraint.toNat = a.constraint := by rw [← hsa]; rfl
            have hlv' : s.ptl.level.toNat = a.level := by rw [← hsa]; rfl
            have key := ptl_byte_fields ⟨s.ptl.space.toNat, by omega⟩ ⟨s.ptl.tier.toNat, by omega⟩ ⟨s.ptl.idc.toNat, by omega⟩
            simp only [UInt8.ofNat_toNat] at key
            obtain ⟨k1, k2, k3⟩ := key
            rw [k1] at h1; rw [k2] at h2; rw [k3] at h3
            have h6' := h6 hcon
            simp only [h1, h2, h3, h4, h5, h6', hsp', hti', hid', hco', hcn', hlv', decide_true, Bool.and_self]
            rfl
      · simp [hab]

/-- the video sequence-header tag exists once the parameter sets are usable, is well-formed and
    is the configuration tag the property demands -/
theorem videoConfig_ok (vm : VideoMeta) (am : AudioMeta) (hcodec : vm.codec ≠ .other)
    (hready : videoMetaReady vm = true) (hfaith : hevcFaithful vm = true)
    (hs : vm.sps.length < 65536) (hp : vm.pps.length < 65536) (hv : vm.vps.length < 65536) :
    ∃ t, videoSeqHeaderTag vm = .ok t ∧ t.tagType = 9 ∧ t.timestamp = 0 ∧ t.filter = 0 ∧ t.streamID = 0 ∧
      t.data.length < 16777216 ∧ ∀ d, isVideoConfigTag (srcOf vm am) (viewTag t d) = true := by
  cases hc : vm.codec with
  | other => exact absurd hc hcodec
  | h265 =>
    obtain ⟨h, hparse, hls, harr, q1, q2, q3, q4, q5, q6⟩ := parseHvcc_hevcRecord (hevcInit vm.hevcVps vm.hevcSps) vm.vps vm.sps vm.pps
      (hevcInit_lsm _ _) hv hs hp
    have hptl := hevc_ptl_ok vm hfaith h q1 q2 q3 q4 q5 q6
    have hvb := parseVideoBody_videoData frameTypeKey codecHEVC pktSeqHeader 0
      (hevcRecordBytes (hevcInit vm.hevcVps vm.hevcSps) vm.vps vm.sps vm.pps) (Or.inl rfl) (Or.inr rfl)
    refine ⟨{ tagType := tagTypeVideo, timestamp := 0,
               data := videoDataBytes frameTypeKey codecHEVC pktSeqHeader 0
                 (hevcRecordBytes (hevcInit vm.hevcVps vm.hevcSps) vm.vps vm.sps vm.pps) },
            by simp only [videoSeqHeaderTag, hc], rfl, rfl, rfl, rfl, ?_, ?_⟩
    · simp only [videoDataBytes, hevcRecordBytes, hevcArray, be32_eq, be24_eq, be16_eq]
      simp +decide [codecHEVC, codecAVC, pktSeqHeader, pktNalu]
      omega
    · intro d
      have hpt : (pktSeqHeader = pktNalu) = False := by decide
      simp only [hpt, if_false] at hvb
      simp only [isVideoConfigTag, viewTag, hvb, srcOf, hc, codecIdOf, hparse, hls, harr]
      simp +decide
      cases hsp : spsPtl vm.sps with
      | none => rfl
      | some a =>
        cases hvp : vpsPtl vm.vps with
        | none => rfl
        | some b => simpa using hptl a b hsp hvp
  | h264 =>
    have hr : vm.sps.length ≥ 4 := by
      simp only [videoMetaReady, hc, Bool.and_eq_true, decide_eq_true_eq] at hready
      exact hready.1.1
    match hsps : vm.sps, hr with
    | a :: p :: c :: l :: tail, _ =>
      obtain ⟨body, hrec, hparse⟩ := parseAvcc_avcRecord a p c l tail vm.pps (by rw [← hsps]; exact hs) hp
      have hvb := parseVideoBody_videoData frameTypeKey codecAVC pktSeqHeader 0 body (Or.inl rfl) (Or.inl rfl)
      have hpt : (pktSeqHeader = pktNalu) = False := by decide
      simp only [hpt, if_false] at hvb
      have hbody : body = [1, p, c, l, 0xff, 0xe1] ++ be16 (a :: p :: c :: l :: tail).length ++ (a :: p :: c :: l :: tail) ++
          [1] ++ be16 vm.pps.length ++ vm.pps := by
        simp only [avcRecord] at hrec
        exact (Except.ok.inj hrec).symm
      refine ⟨{ tagType := tagTypeVideo, timestamp := 0,
                 data := videoDataBytes frameTypeKey codecAVC pktSeqHeader 0 body },
              by simp only [videoSeqHeaderTag, hc, hsps, hrec], rfl, rfl, rfl, rfl, ?_, ?_⟩
      · simp only [videoDataBytes, hbody, be24_eq, be16_eq]
        simp +decide [codecHEVC, codecAVC, pktSeqHeader, pktNalu]
        simp only [hsps, List.length_cons] at hs
        omega
      · intro d
        simp only [isVideoConfigTag, viewTag, hvb, srcOf, hc, codecIdOf, hparse, hsps]
        simp +decide

theorem aac_template_ranges (am : AudioMeta) :
    aacRate am.sampleRate < 4 ∧ aacSize am.sampleSize < 2 ∧ aacType am.channels < 2 := by
  refine ⟨?_, ?_, ?_⟩
  · unfold aacRate; repeat' split
    all_goals decide
  · unfold aacSize; split <;> decide
  · unfold aacType; split <;> decide

/-- the AAC sequence-header tag is well-formed and is the configuration tag the property demands -/
theorem audioConfig_ok (vm : VideoMeta) (am : AudioMeta) (d : UInt32) (ha : am.asc.length + 2 < 16777216) :
    Tag.wf (audioSeqHeaderTag am) ∧ (audioSeqHeaderTag am).timestamp = 0 ∧
      isAudioConfigTag (srcOf vm am) (viewTag (audioSeqHeaderTag am) d) = true := by
  obtain ⟨r1, r2, r3⟩ := aac_template_ranges am
  have hb := parseAudioBody_aac _ _ _ aacSeqHeader am.asc r1 r2 r3
  refine ⟨⟨rfl, rfl, Or.inl rfl, ?_⟩, rfl, ?_⟩
  · simp only [audioSeqHeaderTag, aacData, audioDataBytes, if_true, List.length_cons]; omega
  · simp only [isAudioConfigTag, viewTag, audioSeqHeaderTag, aacData, hb, srcOf]
    simp +decide

theorem key_flag_agrees : ∀ h : UInt8,
    (decide (((h >>> 1) &&& 0x3f) ≥ 16 ∧ ((h >>> 1) &&& 0x3f) ≤ 21) = decide (16 ≤ (h.toNat / 2) % 64 ∧ (h.toNat / 2) % 64 ≤ 21)) ∧
    ((h &&& 0x1F == 5) = decide (h.toNat % 32 = 5)) := by
  apply forall_u8
  set_option maxRecDepth 8192 in decide

/-- a frame that is not carried produces no tag and cannot hurt the worker -/
theorem packetize_not_carried (vm : VideoMeta) (am : AudioMeta) (f : Frame)
    (h : carried (srcOf vm am) f = false) : packetize vm am f = ([], false) := by
  simp only [carried, srcOf, Bool.or_eq_false_iff, Bool.and_eq_false_iff, decide_eq_false_iff_not] at h
  obtain ⟨h0, h1⟩ := h
  simp only [packetize, h0, if_false]
  by_cases h2 : f.mediaType = 1
  · rcases h1 with h1 | h1
    · exact absurd h2 h1
    · simp [h2, h1]
  · simp [h2]

/-- a carried, admissible frame produces exactly one well-formed tag carrying it -/
theorem packetize_carried (vm : VideoMeta) (am : AudioMeta) (f : Frame) (hcodec : vm.codec ≠ .other)
    (hc : carried (srcOf vm am) f = true) (hok : FrameFits f) :
    ∃ t, packetize vm am f = ([t], false) ∧ Tag.wf t ∧ t.timestamp = u32OfInt (tagTimeMs f) ∧
      ∀ d, mediaTagCarries (srcOf vm am) f (viewTag t d) = true := by
  obtain ⟨hne, hlen, hc1, hc2⟩ := hok
  by_cases h0 : f.mediaType = 0
  · -- video
    have hpl := hne h0
    obtain ⟨hd, hhd⟩ : ∃ hd, f.payload.head? = some hd := by
      cases hp : f.payload with
      | nil => exact absurd hp hpl
      | cons x xs => exact ⟨x, rfl⟩
    obtain ⟨k5, k4⟩ := key_flag_agrees hd
    have hcts := si24_cts (msOf f.pts - msOf f.dts) hc1 hc2
    have hplen : f.payload.length < 4294967296 := by omega
    have hnal := parseNalus_one (f.payload.length + 3) f.payload hplen
    have hfuel : (be32 f.payload.length ++ f.payload).length + 1 = f.payload.length + 3 + 2 := by
      simp only [List.length_append, be32_length]; omega
    have hdl : ∀ ft c, (videoDataBytes ft c pktNalu (u32OfInt (msOf f.pts - msOf f.dts)) f.payload).length ≤ f.payload.length + 9 := by
      intro ft c
      simp only [videoDataBytes, be24_eq, be32_eq]
      split <;> simp +decide [pktNalu] <;> omega
    have hts : u32OfInt (msOf f.dts) = u32OfInt (tagTimeMs f) := by simp [tagTimeMs, h0]
    cases hcd : vm.codec with
    | other => exact absurd hcd hcodec
    | h265 =>
      by_cases hk : (decide (((hd >>> 1) &&& 0x3f) ≥ 16 ∧ ((hd >>> 1) &&& 0x3f) ≤ 21)) = true
      · have hvb := parseVideoBody_videoData frameTypeKey codecHEVC pktNalu (u32OfInt (msOf f.pts - msOf f.dts)) f.payload (Or.inl rfl) (Or.inr rfl)
        refine ⟨{ tagType := tagTypeVideo, timestamp := u32OfInt (msOf f.dts),
                   data := videoDataBytes frameTypeKey codecHEVC pktNalu (u32OfInt (msOf f.pts - msOf f.dts)) f.payload },
          by simp [packetize, h0, videoTag, hhd, hcd, hk], ⟨rfl, rfl, Or.inr (Or.inl rfl), ?_⟩, hts, ?_⟩
        · have := hdl frameTypeKey codecHEVC; simp only [] at this ⊢; omega
        · intro d
          simp only [if_true] at hvb
          simp only [mediaTagCarries, viewTag, h0, if_true, hvb, srcOf, hcd, codecIdOf, hcts, hfuel, hnal, isKeyNal, hhd]
          rw [← k5, hk]; simp +decide
      · have hvb := parseVideoBody_videoData frameTypeInter codecHEVC pktNalu (u32OfInt (msOf f.pts - msOf f.dts)) f.payload (Or.inr rfl) (Or.inr rfl)
        have hk' : (decide (((hd >>> 1) &&& 0x3f) ≥ 16 ∧ ((hd >>> 1) &&& 0x3f) ≤ 21)) = false := by simpa using hk
        refine ⟨{ tagType := tagTypeVideo, timestamp := u32OfInt (msOf f.dts),
                   data := videoDataBytes frameTypeInter codecHEVC pktNalu (u32OfInt (msOf f.pts - msOf f.dts)) f.payload },
          by simp [packetize, h0, videoTag, hhd, hcd, hk'], ⟨rfl, rfl, Or.inr (Or.inl rfl), ?_⟩, hts, ?_⟩
        · have := hdl frameTypeInter codecHEVC; simp only [] at this ⊢; omega
        · intro d
          simp only [if_true] at hvb
          simp only [mediaTagCarries, viewTag, h0, if_true, hvb, srcOf, hcd, codecIdOf, hcts, hfuel, hnal, isKeyNal, hhd]
          rw [← k5, hk']; simp +decide
    | h264 =>
      by_cases hk : (hd &&& 0x1F == 5) = true
      · have hvb := parseVideoBody_videoData frameTypeKey codecAVC pktNalu (u32OfInt (msOf f.pts - msOf f.dts)) f.payload (Or.inl rfl) (Or.inl rfl)
        refine ⟨{ tagType := tagTypeVideo, timestamp := u32OfInt (msOf f.dts),
                   data := videoDataBytes frameTypeKey codecAVC pktNalu (u32OfInt (msOf f.pts - msOf f.dts)) f.payload },
          by simp [packetize, h0, videoTag, hhd, hcd, hk], ⟨rfl, rfl, Or.inr (Or.inl rfl), ?_⟩, hts, ?_⟩
        · have := hdl frameTypeKey codecAVC; simp only [] at this ⊢; omega
        · intro d
          simp only [if_true] at hvb
          simp only [mediaTagCarries, viewTag, h0, if_true, hvb, srcOf, hcd, codecIdOf, hcts, hfuel, hnal, isKeyNal, hhd]
          rw [← k4, hk]; simp +decide
      · have hvb := parseVideoBody_videoData frameTypeInter codecAVC pktNalu (u32OfInt (msOf f.pts - msOf f.dts)) f.payload (Or.inr rfl) (Or.inl rfl)
        have hk' : (hd &&& 0x1F == 5) = false := by simpa using hk
        refine ⟨{ tagType := tagTypeVideo, timestamp := u32OfInt (msOf f.dts),
                   data := videoDataBytes frameTypeInter codecAVC pktNalu (u32OfInt (msOf f.pts - msOf f.dts)) f.payload },
          by simp [packetize, h0, videoTag, hhd, hcd, hk'], ⟨rfl, rfl, Or.inr (Or.inl rfl), ?_⟩, hts, ?_⟩
        · have := hdl frameTypeInter codecAVC; simp only [] at this ⊢; omega
        · intro d
          simp only [if_true] at hvb
          simp only [mediaTagCarries, viewTag, h0, if_true, hvb, srcOf, hcd, codecIdOf, hcts, hfuel, hnal, isKeyNal, hhd]
          rw [← k4, hk']; simp +decide
  · -- audio
    have h1 : f.mediaType = 1 ∧ am.aac = true := by
      simp only [carried, srcOf, h0, decide_false, Bool.false_or, Bool.and_eq_true, decide_eq_true_eq] at hc
      exact hc
    obtain ⟨r1, r2, r3⟩ := aac_template_ranges am
    have hb := parseAudioBody_aac _ _ _ aacRaw f.payload r1 r2 r3
    refine ⟨audioTag am f, by simp [packetize, h0, h1.1, h1.2], ⟨rfl, rfl, Or.inl rfl, ?_⟩, ?_, ?_⟩
    · simp only [audioTag, aacData, audioDataBytes, if_true, List.length_cons]; omega
    · simp [audioTag, tagTimeMs, h0]
    · intro d
      simp only [mediaTagCarries, viewTag, audioTag, aacData, hb, h0, if_false]
      simp +decide

/-! ### the worker loop -/

/-- the tags of a frame list once the sequence headers are out -/
def mediaTags (vm : VideoMeta) (am : AudioMeta) : List Frame → List Tag
  | [] => []
  | f :: fs => (packetize vm am f).1 ++ mediaTags vm am fs

theorem unknownParams_not_ready (vm : VideoMeta) : videoMetaReady vm.unknownParams = false := by
  cases hc : vm.codec <;> simp [videoMetaReady, VideoMeta.unknownParams, hc]

theorem usable_eq_ready (vm : VideoMeta) (am : AudioMeta) : (srcOf vm am).usable = videoMetaReady vm := by
  cases hc : vm.codec <;> simp [Src.usable, srcOf, videoMetaReady, hc]

theorem muxLoop_packed (cfg : Cfg) (vm : VideoMeta) (am : AudioMeta) (date : Bytes) (known : Nat) :
    ∀ (frames : List Frame) (i : Nat), known ≤ i → (∀ f ∈ frames, (packetize vm am f).2 = false) →
      muxLoop cfg vm am date known i true frames = (mediaTags vm am frames, false) := by
  intro frames
  induction frames with
  | nil => intro i _ _; rfl
  | cons f fs ih =>
    intro i hi hnd
    have hf := hnd f (by simp)
    have hfs : ∀ g ∈ fs, (packetize vm am g).2 = false := fun g hg => hnd g (by simp [hg])
    have hlt : ¬ i < known := by omega
    have ih' := ih (i + 1) (by omega) hfs
    simp only [muxLoop, muxStep, hlt, if_false, Bool.not_true, Bool.false_eq_true, hf, ih', mediaTags]

/-- no usable parameter sets, ever: every frame is dropped -/
theorem muxLoop_never_ready (cfg : Cfg) (hg : cfg.gateParamSets = true) (vm : VideoMeta) (am : AudioMeta)
    (date : Bytes) (known : Nat) (hr : videoMetaReady vm = false) :
    ∀ (frames : List Frame) (i : Nat), muxLoop cfg vm am date known i false frames = ([], false) := by
  intro frames
  induction frames with
  | nil => intro i; rfl
  | cons f fs ih =>
    intro i
    have hnr : videoMetaReady (if i < known then vm.unknownParams else vm) = false := by
      split
      · exact unknownParams_not_ready vm
      · exact hr
    simp only [muxLoop, muxStep, hg, hnr, Bool.not_false, Bool.and_self, if_true, Bool.false_eq_true, if_false, ih (i + 1),
      List.nil_append]

/-- usable parameter sets from frame `known` on: the frames before are dropped, the first one
    from there triggers metadata + configuration tags, and every frame from there is packetised -/
theorem muxLoop_unpacked (cfg : Cfg) (hg : cfg.gateParamSets = true) (vm : VideoMeta) (am : AudioMeta)
    (date : Bytes) (known : Nat) (hr : videoMetaReady vm = true) (hs : List Tag)
    (hseq : seqHeaders vm am date = (hs, false)) :
    ∀ (frames : List Frame) (i : Nat), (∀ f ∈ frames.drop (known - i), (packetize vm am f).2 = false) →
      muxLoop cfg vm am date known i false frames =
        (match frames.drop (known - i) with
         | [] => []
         | f :: fs => hs ++ mediaTags vm am (f :: fs), false) := by
  intro frames
  induction frames with
  | nil => intro i _; simp [muxLoop]
  | cons f fs ih =>
    intro i hnd
    by_cases hlt : i < known
    · have hk : known - i = (known - (i + 1)) + 1 := by omega
      have hnr : videoMetaReady vm.unknownParams = false := unknownParams_not_ready vm
      rw [hk] at hnd ⊢
      simp only [List.drop_succ_cons] at hnd ⊢
      have ih' := ih (i + 1) hnd
      simp only [muxLoop, muxStep, hlt, if_true, hg, hnr, Bool.not_false, Bool.and_self, Bool.false_eq_true, if_false, ih',
        List.nil_append]
    · have hk : known - i = 0 := by omega
      rw [hk] at hnd ⊢
      simp only [List.drop_zero] at hnd ⊢
      have hf := hnd f (by simp)
      have hfs : ∀ g ∈ fs, (packetize vm am g).2 = false := fun g hg' => hnd g (by simp [hg'])
      have hp := muxLoop_packed cfg vm am date known fs (i + 1) (by omega) hfs
      simp only [muxLoop, muxStep, hlt, if_false, hg, hr, Bool.not_true, Bool.and_false, Bool.false_eq_true, Bool.not_false,
        if_true, hseq, hf, hp, mediaTags, List.append_assoc]

/-- every carried admissible frame has its tag, in order; nothing else is written; nothing dies -/
theorem mediaTags_spec (cfg : Cfg) (hc : Cfg.writerFixed cfg) (vm : VideoMeta) (am : AudioMeta)
    (hcodec : vm.codec ≠ .other) :
    ∀ (frames : List Frame), (∀ f ∈ frames, carried (srcOf vm am) f = true → FrameOk f) →
      (∀ f ∈ frames, (packetize vm am f).2 = false) ∧ (∀ t ∈ mediaTags vm am frames, Tag.wf t) ∧
      mediaOk (srcOf vm am) 0 (frames.filter (carried (srcOf vm am)))
        ((mediaTags vm am frames).map
          (fun t => viewTag t (Writer.rebase cfg { delta := u32OfInt 0, started := true } t))) = true := by
  intro frames
  induction frames with
  | nil => intro _; simp [mediaTags, mediaOk]
  | cons f fs ih =>
    intro hall
    have hfs : ∀ g ∈ fs, carried (srcOf vm am) g = true → FrameOk g := fun g hg => hall g (by simp [hg])
    obtain ⟨i1, i2, i3⟩ := ih hfs
    by_cases hcar : carried (srcOf vm am) f = true
    · have hok := hall f (by simp) hcar
      obtain ⟨t, hp, hwf, hts, hcarries⟩ := packetize_carried vm am f hcodec hcar hok.fits
      have hreb := rebase_fixed_tag cfg hc 0 (tagTimeMs f) t hts (by have := hok.2.2.1; omega) (by have := hok.2.2.2.1; omega)
      refine ⟨?_, ?_, ?_⟩
      · intro g hg
        rcases List.mem_cons.1 hg with rfl | hg
        · rw [hp]
        · exact i1 g hg
      · intro t' ht'
        simp only [mediaTags, hp, List.cons_append, List.nil_append, List.mem_cons] at ht'
        rcases ht' with rfl | ht'
        · exact hwf
        · exact i2 t' ht'
      · simp only [mediaTags, hp, List.cons_append, List.nil_append, List.map_cons, List.filter_cons, hcar, if_true, mediaOk,
          hcarries, i3, Bool.true_and, Bool.and_true, decide_eq_true_eq]
        simp only [viewTag, hreb]
    · have hcar' : carried (srcOf vm am) f = false := by simpa using hcar
      have hp := packetize_not_carried vm am f hcar'
      refine ⟨?_, ?_, ?_⟩
      · intro g hg
        rcases List.mem_cons.1 hg with rfl | hg
        · rw [hp]
        · exact i1 g hg
      · intro t' ht'
        simp only [mediaTags, hp, List.nil_append] at ht'
        exact i2 t' ht'
      · simp only [mediaTags, hp, List.nil_append, List.filter_cons, hcar', Bool.false_eq_true, if_false]
        exact i3

/-! ### assembling C08 for the muxer path -/

theorem metadataTag_wf (vm : VideoMeta) (am : AudioMeta) (date : Bytes) (hd : date.length < 65536) :
    Tag.wf (metadataTag vm am date) := by
  have hd' : ¬ date.length > 65535 := by omega
  have l1 : (strBytes "onMetaData").length = 10 := by decide
  have l2 : (strBytes "creator").length = 7 := by decide
  have l3 : (strBytes "ipchub stream media server").length = 26 := by decide
  have l4 : (strBytes "creationdate").length = 12 := by decide
  have l5 : (strBytes "audiocodecid").length = 12 := by decide
  have l6 : (strBytes "audiodatarate").length = 13 := by decide
  have l7 : (strBytes "audiosamplerate").length = 15 := by decide
  have l8 : (strBytes "audiosamplesize").length = 15 := by decide
  have l9 : (strBytes "stereo").length = 6 := by decide
  have l10 : (strBytes "videocodecid").length = 12 := by decide
  have l11 : (strBytes "videodatarate").length = 13 := by decide
  have l12 : (strBytes "framerate").length = 9 := by decide
  have l13 : (strBytes "width").length = 5 := by decide
  have l14 : (strBytes "height").length = 6 := by decide
  refine ⟨rfl, rfl, Or.inr (Or.inr rfl), ?_⟩
  cases ha : am.aac <;>
    simp +decide [metadataTag, scriptDataBytes, amfWriteEcma, metadataProps, muxTypeFlags, ha, amfProps, amfWriteAny,
      amfUtf8, be16_length, be32_length, be64_length, hd'] <;> omega

theorem muxTypeFlags_facts (am : AudioMeta) :
    muxTypeFlags am &&& 0x05 ≠ 0 ∧ ((muxTypeFlags am &&& 4) != 0) = true ∧ ((muxTypeFlags am &&& 1) != 0) = am.aac := by
  cases ha : am.aac <;> simp +decide [muxTypeFlags, ha]

/-- C08 for the muxer path, generic in the behaviour switches: see `c08_end_to_end` -/
theorem checkMux_muxBytes (cfg : Cfg) (hc : Cfg.writerFixed cfg) (hg : cfg.gateParamSets = true)
    (vm : VideoMeta) (am : AudioMeta) (date : Bytes) (known : Nat) (frames : List Frame)
    (hcodec : vm.codec ≠ .other) (hfaith : hevcFaithful vm = true)
    (hs : vm.sps.length < 65536) (hp : vm.pps.length < 65536) (hv : vm.vps.length < 65536)
    (ha : am.asc.length + 2 < 16777216) (hd : date.length < 65536)
    (hall : ∀ f ∈ fromStart (srcOf vm am) known frames, carried (srcOf vm am) f = true → FrameOk f) :
    ∃ bs, muxBytes cfg vm am date known frames = some (bs, false) ∧
      checkMux (srcOf vm am) (fromStart (srcOf vm am) known frames) bs = true := by
  obtain ⟨hfl, hvid, haud⟩ := muxTypeFlags_facts am
  have hcodec' : (vm.codec = VCodec.other) = False := by simp [hcodec]
  by_cases hr : videoMetaReady vm = true
  · -- usable parameter sets
    have hwant : fromStart (srcOf vm am) known frames = frames.drop known := by
      simp [fromStart, usable_eq_ready, hr]
    rw [hwant] at hall ⊢
    obtain ⟨hnd, hwfm, hmedia⟩ := mediaTags_spec cfg hc vm am hcodec (frames.drop known) hall
    obtain ⟨vt, hvt, hvty, hvts, hvf, hvs, hvlen, hvcfg'⟩ := videoConfig_ok vm am hcodec hr hfaith hs hp hv
    have hvcfg := hvcfg' (Writer.rebase cfg { delta := u32OfInt 0, started := true } vt)
    have hvwf : Tag.wf vt := ⟨hvf, hvs, Or.inr (Or.inl hvty), hvlen⟩
    have hseq : seqHeaders vm am date =
        ([metadataTag vm am date, vt] ++ (if am.aac then [audioSeqHeaderTag am] else []), false) := by
      simp only [seqHeaders, hvt]
    have hrun := muxLoop_unpacked cfg hg vm am date known hr _ hseq frames 0 (by simpa using hnd)
    simp only [Nat.sub_zero] at hrun
    cases hdrop : frames.drop known with
    | nil =>
      rw [hdrop] at hrun
      obtain ⟨bs, hb, hparse⟩ := parseFlv_clientBytes cfg (muxTypeFlags am) [] hfl (by simp)
      refine ⟨bs, ?_, ?_⟩
      · simp only [muxBytes, hcodec', if_false, muxRun, hrun, hb]
      · simp only [checkMux, hparse, views, hvid, haud]
        simp [srcOf]
    | cons f fs =>
      rw [hdrop] at hrun hmedia hwfm
      have hmwf := metadataTag_wf vm am date hd
      obtain ⟨awf, ats, acfg⟩ := audioConfig_ok vm am (Writer.rebase cfg { delta := u32OfInt 0, started := true } (audioSeqHeaderTag am)) ha
      have hwf : ∀ t ∈ ([metadataTag vm am date, vt] ++ (if am.aac then [audioSeqHeaderTag am] else [])) ++
          mediaTags vm am (f :: fs), Tag.wf t := by
        intro t ht
        rcases List.mem_append.1 ht with ht | ht
        · rcases List.mem_append.1 ht with ht | ht
          · simp only [List.mem_cons, List.mem_nil_iff, or_false] at ht
            rcases ht with rfl | rfl
            · exact hmwf
            · exact hvwf
          · split at ht
            · simp only [List.mem_cons, List.mem_nil_iff, or_false] at ht; rw [ht]; exact awf
            · simp at ht
        · exact hwfm t ht
      obtain ⟨bs, hb, hparse⟩ := parseFlv_clientBytes cfg (muxTypeFlags am) _ hfl hwf
      refine ⟨bs, ?_, ?_⟩
      · simp only [muxBytes, hcodec', if_false, muxRun, hrun, hb]
      · have hz : (0 : UInt32) = u32OfInt 0 := by decide
        have hnext : Writer.next cfg {} (metadataTag vm am date) = { delta := u32OfInt 0, started := true } := by
          simp [Writer.next, Writer.isFirst, hc.2, metadataTag]; exact hz
        have hm0 := rebase_fixed_tag cfg hc 0 0 (metadataTag vm am date) (by simp [metadataTag]; exact hz) (by decide) (by decide)
        have hv0 := rebase_fixed_tag cfg hc 0 0 vt (by rw [hvts]; exact hz) (by decide) (by decide)
        have ha0 := rebase_fixed_tag cfg hc 0 0 (audioSeqHeaderTag am) (by rw [ats]; exact hz) (by decide) (by decide)
        have hr0 : rebased 0 0 = 0 := by decide
        have hmeta := isMetaTag_view vm am date
          (Writer.rebase cfg { delta := u32OfInt 0, started := true } (metadataTag vm am date)) (by omega)
        have hviews : ∀ rest, views cfg {} (metadataTag vm am date :: rest) =
            viewTag (metadataTag vm am date)
              (Writer.rebase cfg { delta := u32OfInt 0, started := true } (metadataTag vm am date)) ::
            rest.map (fun t => viewTag t (Writer.rebase cfg { delta := u32OfInt 0, started := true } t)) := by
          intro rest
          rw [views, hnext, views_started cfg hc]
        simp only [checkMux, hparse, hvid, haud, List.cons_append, List.nil_append, hviews]
        cases haac : am.aac
        · simp only [haac, Bool.false_eq_true, if_false, List.nil_append, List.map_cons, prefixThenMedia, srcOf]
          simp only [srcOf, haac, viewTag, hm0, hv0, hr0] at hmeta hvcfg hmedia
          simp only [viewTag, hm0, hv0, hr0]
          simp
          exact ⟨⟨hmeta, hvcfg⟩, hmedia⟩
        · simp only [haac, if_true, List.cons_append, List.nil_append, List.map_cons, prefixThenMedia, srcOf]
          simp only [srcOf, haac, viewTag, hm0, hv0, ha0, hr0] at hmeta hvcfg hmedia acfg
          simp only [viewTag, hm0, hv0, ha0, hr0]
          simp
          exact ⟨⟨hmeta, hvcfg⟩, acfg, hmedia⟩
  · -- the parameter sets never become usable: nothing is written after the header
    have hr' : videoMetaReady vm = false := by simpa using hr
    have hwant : fromStart (srcOf vm am) known frames = [] := by
      simp [fromStart, usable_eq_ready, hr']
    have hrun := muxLoop_never_ready cfg hg vm am date known hr' frames 0
    obtain ⟨bs, hb, hparse⟩ := parseFlv_clientBytes cfg (muxTypeFlags am) [] hfl (by simp)
    refine ⟨bs, ?_, ?_⟩
    · simp only [muxBytes, hcodec', if_false, muxRun, hrun, hb]
    · simp only [hwant, checkMux, hparse, views, hvid, haud]
      simp [srcOf]

end IpcHub.FlvLemmas
