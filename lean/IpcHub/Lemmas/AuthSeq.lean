/-
C11 helper lemmas, part E: request SEQUENCES on one RTSP session.  A request changes nothing of the
world but the registry (so `Rel` survives it), every response of a digest session shows a nonce,
and the definitions of "the monitor's verdicts along a sequence" and of a coherent sequence.
-/
import IpcHub.Lemmas.AuthRtsp
namespace IpcHub.Auth
open IpcHub.PathMatch IpcHub.PatternLang IpcHub.Monitor

/-- the parts of the world the authorization decisions read -/
def Same (w w' : World) : Prop :=
  w'.users = w.users ∧ w'.toks = w.toks ∧ w'.now = w.now ∧ w'.authOn = w.authOn

theorem Same.refl (w : World) : Same w w := ⟨rfl, rfl, rfl, rfl⟩

theorem onDescribe_same (cfg : Auth.Cfg) (w : World) (s : RtspSess) (u : Option Auth.User) (rq : RtspReq) :
    Same w (onDescribe cfg w s u rq).1 := by
  unfold onDescribe; simp only []; repeat' split
  all_goals exact Same.refl _

theorem onAnnounce_same (cfg : Auth.Cfg) (w : World) (s : RtspSess) (u : Option Auth.User) (rq : RtspReq) :
    Same w (onAnnounce cfg w s u rq).1 := by
  unfold onAnnounce; simp only []; repeat' split
  all_goals exact Same.refl _

theorem onSetup_same (cfg : Auth.Cfg) (w : World) (s : RtspSess) (u : Option Auth.User) (rq : RtspReq) :
    Same w (onSetup cfg w s u rq).1 := by
  unfold onSetup; simp only []; repeat' split
  all_goals exact Same.refl _

theorem onRecord_same (cfg : Auth.Cfg) (w : World) (s : RtspSess) (u : Option Auth.User) :
    Same w (onRecord cfg w s u).1 := by
  unfold onRecord; simp only []; repeat' split
  all_goals first | exact Same.refl _ | exact ⟨rfl, rfl, rfl, rfl⟩

theorem onPlay_same (cfg : Auth.Cfg) (w : World) (s : RtspSess) (u : Option Auth.User) :
    Same w (onPlay cfg w s u).1 := by
  unfold onPlay; repeat' split
  all_goals exact Same.refl _

/-- an RTSP request changes nothing but the registry -/
theorem rtspStep_same (cfg : Auth.Cfg) (w : World) (s : RtspSess) (rq : RtspReq) :
    Same w (rtspStep cfg w s rq).1 := by
  unfold rtspStep; simp only []
  repeat' split
  all_goals first
    | exact Same.refl _
    | exact ⟨rfl, rfl, rfl, rfl⟩
    | exact onDescribe_same ..
    | exact onAnnounce_same ..
    | exact onSetup_same ..
    | exact onRecord_same ..
    | exact onPlay_same ..

theorem rel_of_same {cfg : Auth.Cfg} {e : Env} {w w' : World} {sw : SWorld} (r : Rel cfg e w sw)
    (h : Same w w') : Rel cfg e w' sw := by
  obtain ⟨h1, h2, h3, h4⟩ := h
  exact ⟨by rw [h4]; exact r.authOn, by rw [h1]; exact r.perm, by rw [h1]; exact r.admin, by rw [h1]; exact r.pw,
         by rw [h2, h3]; exact r.tok⟩

theorem onDescribe_shown (cfg : Auth.Cfg) (w : World) (s : RtspSess) (u : Option Auth.User) (rq : RtspReq) :
    (onDescribe cfg w s u rq).2.1.shown = s.shown := by
  unfold onDescribe; simp only []; repeat' split
  all_goals rfl

theorem onAnnounce_shown (cfg : Auth.Cfg) (w : World) (s : RtspSess) (u : Option Auth.User) (rq : RtspReq) :
    (onAnnounce cfg w s u rq).2.1.shown = s.shown := by
  unfold onAnnounce; simp only []; repeat' split
  all_goals rfl

theorem onSetup_shown (cfg : Auth.Cfg) (w : World) (s : RtspSess) (u : Option Auth.User) (rq : RtspReq) :
    (onSetup cfg w s u rq).2.1.shown = s.shown := by
  unfold onSetup; simp only []; repeat' split
  all_goals rfl

theorem onRecord_shown (cfg : Auth.Cfg) (w : World) (s : RtspSess) (u : Option Auth.User) :
    (onRecord cfg w s u).2.1.shown = s.shown := by
  unfold onRecord; simp only []; repeat' split
  all_goals rfl

theorem onPlay_shown (cfg : Auth.Cfg) (w : World) (s : RtspSess) (u : Option Auth.User) :
    (onPlay cfg w s u).2.1.shown = s.shown := by
  unfold onPlay; repeat' split
  all_goals rfl

/-- every response of a digest session shows a nonce -/
theorem rtspStep_shown (cfg : Auth.Cfg) (w : World) (s : RtspSess) (rq : RtspReq) (hd : s.digest = true) :
    (rtspStep cfg w s rq).2.1.shown.isSome = true := by
  unfold rtspStep; simp only [hd, if_true]
  repeat' split
  all_goals first
    | rfl
    | (rw [onDescribe_shown]; rfl)
    | (rw [onAnnounce_shown]; rfl)
    | (rw [onSetup_shown]; rfl)
    | (rw [onRecord_shown]; rfl)
    | (rw [onPlay_shown]; rfl)

/-- the monitor's verdicts along a request sequence on one session (users and tokens as they are;
    the registry changes as the requests publish and tear down) -/
def rtspVerdicts (cfg : Auth.Cfg) (e : Env) (sw : SWorld) : World → RtspSess → SSess → List RtspReq → List Verdict
  | _, _, _, [] => []
  | w, s, ss, rq :: rest =>
    let res := rtspStep cfg w s rq
    judgeRtsp e sw ss s.ws rq res.2.2 :: rtspVerdicts cfg e sw res.1 res.2.1 (ss.step e s.ws rq res.2.2) rest

/-- a client can claim a response to "the nonce of the latest response" only if there was one -/
def Coherent (cfg : Auth.Cfg) (w : World) : RtspSess → List RtspReq → Prop
  | _, [] => True
  | s, rq :: rest => FreshOK s rq ∧ Coherent cfg (rtspStep cfg w s rq).1 (rtspStep cfg w s rq).2.1 rest

theorem coherent_of_nofresh (cfg : Auth.Cfg) (reqs : List RtspReq)
    (hn : ∀ rq ∈ reqs, ∀ c, rq.cred = some c → c.fresh = false) :
    ∀ (w : World) (s : RtspSess), Coherent cfg w s reqs := by
  induction reqs with
  | nil => intro _ _; trivial
  | cons rq rest ih =>
    intro w s
    refine ⟨?_, ih (fun r hr => hn r (List.mem_cons_of_mem _ hr)) _ _⟩
    intro c hc hf
    rw [hn rq (List.mem_cons_self ..) c hc] at hf
    cases hf

end IpcHub.Auth
