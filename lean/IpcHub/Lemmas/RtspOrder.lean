/-
Whole dialogues: every run of the model is accepted by the reference automaton, and what
the automaton's phases imply about the history of successful requests.
-/
import IpcHub.Lemmas.RtspMonitor
namespace IpcHub.Rtsp
open IpcHub.RtspSpec

theorem hangup_sim (cfg : Cfg) (s : Sess) (hinv : SInv s) :
    SInv (stepInput cfg s .hangup).1 ∧
    mstep .rtsp (mstateOf s)
      (obsOf .hangup (stepInput cfg s .hangup).2 (stepInput cfg s .hangup).1.consumers (stepInput cfg s .hangup).1.pusher
        (stepInput cfg s .hangup).1.closed) = .ok (mstateOf (stepInput cfg s .hangup).1) := by
  by_cases hc : s.closed = true
  · have hs : stepInput cfg s .hangup = (s, []) := by simp [stepInput, disconnect, hc]
    rw [hs]
    exact ⟨hinv, mstep_closed _ _ _ (absPhase_closed s hc) (by simp [obsOf, respsOf])⟩
  · have hc' : s.closed = false := by simpa using hc
    have hs : stepInput cfg s .hangup = finish s := by simp [stepInput, disconnect, hc']
    rw [hs]
    obtain ⟨hfi, hfc, hf0, hfp, _⟩ := finish_sim s
    refine ⟨hfi, ?_⟩
    rw [mstep_hangup _ _ _ (absPhase_open s hc') rfl hfc hf0 hfp]
    simp [mstateOf, absPhase, hfc, hf0, hfp]

/-- `mcore` does not look at the media observation -/
theorem mcore_media (f : Flavour) (st : MState) (o : Obs) (b : Bool) :
    mcore f st { o with media := b } = mcore f st o := rfl

/-- every observation the model produces carries the session id -/
theorem obsOf_sid (i : Input) (evs : List Ev) (c : Nat) (p cl : Bool) : (obsOf i evs c p cl).sidOk = true := by
  cases i <;> rfl

/-- a session that holds a consumer is in the playing phase -/
theorem role_playing (s : Sess) (hinv : SInv s) (h : s.role ≠ .none) : (mstateOf s).phase = .playing := by
  cases hc : s.closed with
  | true => exact absurd (hinv.closedClean hc).1 h
  | false =>
    cases hs : s.status with
    | init => exact absurd (hinv.initClean hc hs).1 h
    | ready => exact absurd (hinv.ready hc hs).1 h
    | playing => simp [mstateOf, absPhase, hc, hs]
    | recording => exact absurd (hinv.recording hc hs).1 h

/-- what `mguard` accepts: a client frame that changed nothing, or what `mstep` accepts -/
theorem mguard_ok (f : Flavour) (st st' : MState) (o : Obs) (h : mguard f st o = .ok st') :
    (o.frame = true ∧ st' = st) ∨ (o.frame = false ∧ mstep f st o = .ok st') := by
  unfold mguard at h
  split at h
  · cases h
  · unfold mcore at h
    cases hf : o.frame with
    | false => rw [hf] at h; exact Or.inr ⟨rfl, by simpa using h⟩
    | true =>
      rw [hf] at h
      simp only [↓reduceIte, mframe] at h
      refine Or.inl ⟨rfl, ?_⟩
      repeat' (first | (cases h; done) | (cases h; rfl) | split at h)

/-- the observation of one input as `trace` records it -/
def traceObs (cfg : Cfg) (s : Sess) (i : Input) : Obs :=
  { obsOf i (stepInput cfg s i).2 (stepInput cfg s i).1.consumers (stepInput cfg s i).1.pusher (stepInput cfg s i).1.closed with
    sidOk := cfg.sidCarried, media := s.role == .tcp }

/-- One input of any kind: the invariant is kept and the reference automaton accepts the observation,
    media clause, session id and client frames included. -/
theorem stepInput_guard (cfg : Cfg) (hcfg : cfgOk cfg = true) (s : Sess) (i : Input) (hinv : SInv s) (hwf : i.wf) :
    SInv (stepInput cfg s i).1 ∧
    mguard .rtsp (mstateOf s) (traceObs cfg s i) = .ok (mstateOf (stepInput cfg s i).1) := by
  have hmedia : mediaOk .rtsp (mstateOf s) (traceObs cfg s i) = true := by
    by_cases hr : s.role = .tcp
    · have := role_playing s hinv (by rw [hr]; simp)
      simp [mediaOk, traceObs, this]
    · simp [mediaOk, traceObs, hr]
  have hsid : traceObs cfg s i =
      { obsOf i (stepInput cfg s i).2 (stepInput cfg s i).1.consumers (stepInput cfg s i).1.pusher (stepInput cfg s i).1.closed with
        media := s.role == .tcp } := by
    unfold traceObs
    rw [cfgOk_sid hcfg, ← obsOf_sid i (stepInput cfg s i).2 (stepInput cfg s i).1.consumers (stepInput cfg s i).1.pusher (stepInput cfg s i).1.closed]
  cases i with
  | req r e =>
    obtain ⟨hi, hm⟩ := step_sim cfg hcfg s r e hinv hwf
    refine ⟨hi, ?_⟩
    simp only [mguard, hmedia, Bool.not_true, Bool.false_eq_true, ↓reduceIte]
    rw [hsid, mcore_media]
    simp only [mcore, obsOf, Bool.false_eq_true, ↓reduceIte]
    exact hm
  | hangup =>
    obtain ⟨hi, hm⟩ := hangup_sim cfg s hinv
    refine ⟨hi, ?_⟩
    simp only [mguard, hmedia, Bool.not_true, Bool.false_eq_true, ↓reduceIte]
    rw [hsid, mcore_media]
    simp only [mcore, obsOf, Bool.false_eq_true, ↓reduceIte]
    exact hm
  | frame ch hdrOk =>
    have hs : stepInput cfg s (.frame ch hdrOk) = (s, []) := by
      simp only [stepInput, onFrame, cfgOk_frames hcfg]
      by_cases hc : s.closed = true
      · simp [hc]
      · simp [hc]
    refine ⟨by rw [hs]; exact hinv, ?_⟩
    simp only [mguard, hmedia, Bool.not_true, Bool.false_eq_true, ↓reduceIte]
    rw [hsid, mcore_media, hs]
    simp only [mcore, obsOf, respsOf, List.filterMap_nil, List.length_nil, ↓reduceIte, mframe]
    by_cases hc : s.closed = true
    · simp [mstateOf, absPhase, hc]
    · have hc' : s.closed = false := by simpa using hc
      have := absPhase_open s hc'
      simp [mstateOf, this, hc', Sess.consumers]

/-- every dialogue of the model is accepted by the reference automaton, from any invariant state -/
theorem trace_mrun (cfg : Cfg) (hcfg : cfgOk cfg = true) (ins : List Input) (s : Sess) (hinv : SInv s)
    (hwf : ∀ i ∈ ins, i.wf) :
    mrun .rtsp (mstateOf s) (trace cfg s ins) = .ok (mstateOf (final cfg s ins)) ∧ SInv (final cfg s ins) := by
  induction ins generalizing s with
  | nil => exact ⟨rfl, hinv⟩
  | cons i is ih =>
    obtain ⟨hi, hm⟩ := stepInput_guard cfg hcfg s i hinv (hwf i (by simp))
    simp only [trace, final, mrun]
    have : ({ obsOf i (stepInput cfg s i).2 (stepInput cfg s i).1.consumers (stepInput cfg s i).1.pusher (stepInput cfg s i).1.closed with
          sidOk := cfg.sidCarried, media := s.role == .tcp } : Obs) = traceObs cfg s i := rfl
    rw [this, hm]
    exact ih _ hi (fun j hj => hwf j (by simp [hj]))

/-! ### what a phase says about the history -/

/-- the successful requests a phase presupposes, in order -/
def need : Phase → List (Method × Nat)
  | .fresh => []
  | .described => [(.describe, 200)]
  | .announced => [(.announce, 200)]
  | .readyPlay => [(.describe, 200), (.setup, 200)]
  | .readyRecord => [(.announce, 200), (.setup, 200)]
  | .playing => [(.describe, 200), (.setup, 200), (.play, 200)]
  | .recording => [(.announce, 200), (.setup, 200), (.record, 200)]
  | .closed => []

/-- requests and their status codes, as observed -/
def history (os : List Obs) : List (Method × Nat) :=
  os.filterMap (fun o => if o.hangup || o.frame then none else some (o.method, o.code))

def allFlavours : List Flavour := [.rtsp, .wsp]
def allPhases : List Phase := [.fresh, .described, .announced, .readyPlay, .readyRecord, .playing, .recording, .closed]
def allAsks : List SetupAsk := [.record, .play, .unspecified]

theorem mem_allFlavours (f : Flavour) : f ∈ allFlavours := by cases f <;> simp [allFlavours]
theorem mem_allPhases (p : Phase) : p ∈ allPhases := by cases p <;> simp [allPhases]
theorem mem_allAsks (a : SetupAsk) : a ∈ allAsks := by cases a <;> simp [allAsks]
theorem mem_allMethods (m : Method) : m ∈ allMethods := by cases m <;> simp [allMethods]

/-- checked by evaluation over the whole (finite) transition table of the automaton -/
theorem need_succ_table :
    (allFlavours.all fun f => allPhases.all fun ph => allMethods.all fun m => allAsks.all fun a =>
      match succPhase f ph m a with
      | some ph' => (need ph').isSublist (need ph ++ [(m, 200)])
      | none => true) = true := by
  decide

theorem need_succ (f : Flavour) (ph ph' : Phase) (m : Method) (ask : SetupAsk)
    (h : succPhase f ph m ask = some ph') : (need ph').Sublist (need ph ++ [(m, 200)]) := by
  have := need_succ_table
  simp only [List.all_eq_true] at this
  have := this f (mem_allFlavours f) ph (mem_allPhases ph) m (mem_allMethods m) ask (mem_allAsks ask)
  rw [h] at this
  exact List.isSublist_iff_sublist.mp this

/-- an accepted observation leaves the automaton where it is, closes it, or is a 200 that moves it
    along `succPhase` -/
theorem mstepState_ok (f : Flavour) (st st' : MState) (o : Obs) (hs : mstepState f st o = .ok st') :
    st' = st ∨ (o.code = 200 ∧ ∃ ph, succPhase f st.phase o.method o.ask = some ph ∧ st'.phase = ph) := by
  unfold mstepState at hs
  by_cases c1 : (!legal f st.phase o.method && o.code != 455) = true
  · rw [if_pos c1] at hs; cases hs
  · rw [if_neg c1] at hs
    by_cases c2 : (o.code == 455) = true
    · rw [if_pos c2] at hs
      repeat' (first | (cases hs; done) | (cases hs; exact Or.inl rfl) | split at hs)
    · rw [if_neg c2] at hs
      by_cases c3 : (o.code == 200) = true
      · rw [if_pos c3] at hs
        have hcode : o.code = 200 := by simpa using c3
        cases hsucc : succPhase f st.phase o.method o.ask with
        | none => rw [hsucc] at hs; cases hs
        | some ph =>
          rw [hsucc] at hs
          simp only at hs
          repeat' (first | (cases hs; done) | (cases hs; exact Or.inr ⟨hcode, ph, rfl, rfl⟩) | split at hs)
      · rw [if_neg c3] at hs
        repeat' (first | (cases hs; done) | (cases hs; exact Or.inl rfl) | split at hs)

theorem mstepResp_ok (f : Flavour) (st st' : MState) (o : Obs) (hs : mstepResp f st o = .ok st') :
    st' = st ∨ st'.phase = .closed ∨ (o.code = 200 ∧ ∃ ph, succPhase f st.phase o.method o.ask = some ph ∧ st'.phase = ph) := by
  unfold mstepResp at hs
  by_cases c1 : (o.method == Method.teardown) = true
  · rw [if_pos c1] at hs
    repeat' (first | (cases hs; done) | (cases hs; exact Or.inr (Or.inl rfl)) | split at hs)
  · rw [if_neg c1] at hs
    by_cases c2 : o.closed = true
    · rw [if_pos c2] at hs; cases hs
    · rw [if_neg c2] at hs
      by_cases c3 : (o.method == Method.options) = true
      · rw [if_pos c3] at hs
        repeat' (first | (cases hs; done) | (cases hs; exact Or.inl rfl) | split at hs)
      · rw [if_neg c3] at hs
        rcases mstepState_ok f st st' o hs with h | h
        · exact Or.inl h
        · exact Or.inr (Or.inr h)

theorem mstep_ok (f : Flavour) (st st' : MState) (o : Obs) (hs : mstep f st o = .ok st') :
    st' = st ∨ st'.phase = .closed ∨
      (o.hangup = false ∧ o.code = 200 ∧ ∃ ph, succPhase f st.phase o.method o.ask = some ph ∧ st'.phase = ph) := by
  unfold mstep at hs
  by_cases c1 : (st.phase == Phase.closed) = true
  · rw [if_pos c1] at hs
    repeat' (first | (cases hs; done) | (cases hs; exact Or.inl rfl) | split at hs)
  · rw [if_neg c1] at hs
    by_cases c2 : o.hangup = true
    · rw [if_pos c2] at hs
      repeat' (first | (cases hs; done) | (cases hs; exact Or.inr (Or.inl rfl)) | split at hs)
    · rw [if_neg c2] at hs
      have hh : o.hangup = false := by simpa using c2
      by_cases c3 : (o.nresp == 0) = true
      · rw [if_pos c3] at hs; cases hs
      · rw [if_neg c3] at hs
        by_cases c4 : (decide (o.nresp > 1)) = true
        · rw [if_pos (by simpa using c4)] at hs; cases hs
        · rw [if_neg (by simpa using c4)] at hs
          by_cases c5 : (!o.cseqOk) = true
          · rw [if_pos c5] at hs; cases hs
          · rw [if_neg c5] at hs
            by_cases c6 : (!o.sidOk) = true
            · rw [if_pos c6] at hs; cases hs
            · rw [if_neg c6] at hs
              rcases mstepResp_ok f st st' o hs with h | h | h
              · exact Or.inl h
              · exact Or.inr (Or.inl h)
              · exact Or.inr (Or.inr ⟨hh, h⟩)

/-- an accepted request other than TEARDOWN leaves the connection open -/
theorem mstep_open (f : Flavour) (st st' : MState) (o : Obs) (h : mstep f st o = .ok st') (hp : st.phase ≠ .closed)
    (hh : o.hangup = false) (hm : o.method ≠ .teardown) : o.closed = false := by
  unfold mstep at h
  have hp' : (st.phase == Phase.closed) = false := by simpa using hp
  simp only [hp', Bool.false_eq_true, ↓reduceIte, hh] at h
  repeat' (first | (cases h; done) | split at h)
  all_goals (unfold mstepResp at h)
  all_goals (have hm' : (o.method == Method.teardown) = false := by simpa using hm)
  all_goals (simp only [hm', Bool.false_eq_true, ↓reduceIte] at h)
  all_goals (cases hc : o.closed <;> simp_all)

theorem mstep_need (f : Flavour) (st st' : MState) (o : Obs) (H : List (Method × Nat)) (hfr : o.frame = false)
    (hs : mstep f st o = .ok st') (hn : (need st.phase).Sublist H) :
    (need st'.phase).Sublist (H ++ history [o]) := by
  have grow : ∀ {l : List (Method × Nat)}, l.Sublist H → l.Sublist (H ++ history [o]) :=
    fun h => h.trans (List.sublist_append_left _ _)
  rcases mstep_ok f st st' o hs with h | h | ⟨hh, hcode, ph, hsucc, hph⟩
  · rw [h]; exact grow hn
  · rw [h]; simp [need]
  · have : history [o] = [(o.method, 200)] := by simp [history, hh, hcode, hfr]
    rw [this, hph]
    exact (need_succ f _ _ _ _ hsucc).trans (List.Sublist.append_right hn _)

theorem history_append (a b : List Obs) : history (a ++ b) = history a ++ history b := by
  simp [history]

theorem mrun_need (f : Flavour) (os : List Obs) (st st' : MState) (H : List (Method × Nat))
    (hs : mrun f st os = .ok st') (hn : (need st.phase).Sublist H) :
    (need st'.phase).Sublist (H ++ history os) := by
  induction os generalizing st H with
  | nil => simp [mrun] at hs; subst hs; simpa [history] using hn
  | cons o r ih =>
    simp only [mrun] at hs
    cases hm : mguard f st o with
    | error c => rw [hm] at hs; cases hs
    | ok st1 =>
      rw [hm] at hs
      have hstep : (need st1.phase).Sublist (H ++ history [o]) := by
        rcases mguard_ok f st st1 o hm with ⟨hf, rfl⟩ | ⟨hf, hm'⟩
        · simpa [history, hf] using hn
        · exact mstep_need f st st1 o H hf hm' hn
      have := ih st1 (H ++ history [o]) hs hstep
      rw [show o :: r = [o] ++ r from rfl, history_append, ← List.append_assoc]
      exact this

end IpcHub.Rtsp
