/-
Round-trip lemmas for the H.265 SPS model against the specification's encoder.
-/
import IpcHub.Lemmas.HevcPtl
import IpcHub.Lemmas.Pack
namespace IpcHub.Hevc
open IpcHub.Bits IpcHub.BitSyntax IpcHub.HevcSyntax

/-- source facts under which the model is the standard's parser -/
structure CfgOK (cfg : Cfg) : Prop where
  se : cfg.seFromUe = true
  vps : cfg.nalVps = 32
  sps : cfg.nalSps = 33
  subLayers : cfg.maxSubLayers = 7
  refs : cfg.maxRefs = 16
  dpb : cfg.maxDpbSize = 16
  lt : cfg.maxLongTermRefPics = 32
  cpb : cfg.maxCpbCnt = 32
  layers : cfg.maxLayers = 63
  ordering : cfg.spsOrderingStd = true
  rps : cfg.rpsInterStd = true

/-- value ranges for the first part of the SPS (the standard's tighter ranges in comments) -/
structure HeadWF (s : SpsSyn) : Prop where
  layer : s.nuh_layer_id < 64
  tid : s.nuh_temporal_id_plus1 < 8
  vid : s.sps_video_parameter_set_id < 16
  msl : s.ptl.sub_layers.length < 8                       -- 0 … 6
  id : s.sps_seq_parameter_set_id < 256                   -- 0 … 15
  cf : s.chroma_format_idc < 256                          -- 0 … 3
  w : s.pic_width_in_luma_samples < 65536                 -- level limits: ≤ 16888
  h : s.pic_height_in_luma_samples < 65536
  cl : s.conf_win_left_offset < 65536
  cr : s.conf_win_right_offset < 65536
  ct : s.conf_win_top_offset < 65536
  cb : s.conf_win_bottom_offset < 65536

/-- the decoded head that agrees with the syntax tree (`q` is whatever profile_tier_level decoded to) -/
def headOf (s : SpsSyn) (q : Ptl) : SpsHead :=
  { nal := { nalUnitType := 33, nuhLayerId := s.nuh_layer_id, nuhTemporalIdPlus1 := s.nuh_temporal_id_plus1 },
    spsVideoParameterSetId := s.sps_video_parameter_set_id, spsMaxSubLayersMinus1 := s.ptl.sub_layers.length,
    spsTemporalIdNestingFlag := s.sps_temporal_id_nesting_flag.toNat, ptl := q,
    spsSeqParameterSetId := s.sps_seq_parameter_set_id, chromaFormatIdc := s.chroma_format_idc,
    separateColourPlaneFlag := if s.chroma_format_idc = 3 then s.separate_colour_plane_flag.toNat else 0,
    picWidthInLumaSamples := s.pic_width_in_luma_samples, picHeightInLumaSamples := s.pic_height_in_luma_samples,
    conformanceWindowFlag := s.conformance_window_flag.toNat,
    confWinLeftOffset := if s.conformance_window_flag then s.conf_win_left_offset else 0,
    confWinRightOffset := if s.conformance_window_flag then s.conf_win_right_offset else 0,
    confWinTopOffset := if s.conformance_window_flag then s.conf_win_top_offset else 0,
    confWinBottomOffset := if s.conformance_window_flag then s.conf_win_bottom_offset else 0 }

theorem nalHeader_enc (t l tid : Nat) (r : List Bool) (ht : t < 64) (hl : l < 64) (htid : tid < 8) :
    nalHeader (nalHeaderBits t l tid ++ r) = .ok ({ nalUnitType := t, nuhLayerId := l, nuhTemporalIdPlus1 := tid }, r) := by
  have hs : ∀ x, skip 1 (false :: x) = .ok ((), x) := fun _ => rfl
  simp [nalHeader, nalHeaderBits, flag, hs, readU_u 6 8 t _ (by omega) (by omega), readU_u 6 8 l _ (by omega) (by omega),
    readU_u 3 8 tid _ (by omega) (by omega)]

/-- stage 1: NAL header … conformance window -/
theorem spsHead_enc (cfg : Cfg) (ok : CfgOK cfg) (s : SpsSyn) (wf : HeadWF s) (r : List Bool) :
    ∃ q, spsHead cfg (nalHeaderBits 33 s.nuh_layer_id s.nuh_temporal_id_plus1 ++ (encSpsHead s ++ r))
      = .ok (headOf s q, r) := by
  obtain ⟨q, hq⟩ := ptl_enc s.ptl (ue s.sps_seq_parameter_set_id ++ (ue s.chroma_format_idc ++
    ((if s.chroma_format_idc = 3 then flag s.separate_colour_plane_flag else []) ++
    (ue s.pic_width_in_luma_samples ++ (ue s.pic_height_in_luma_samples ++ (flag s.conformance_window_flag ++
    ((if s.conformance_window_flag then
        ue s.conf_win_left_offset ++ ue s.conf_win_right_offset ++ ue s.conf_win_top_offset ++ ue s.conf_win_bottom_offset
      else []) ++ r)))))))
  refine ⟨q, ?_⟩
  have hmsl : s.ptl.sub_layers.length < 2 ^ 3 := wf.msl
  by_cases h3 : s.chroma_format_idc = 3 <;> cases hcw : s.conformance_window_flag <;>
    simp [spsHead, encSpsHead, nalHeader_enc 33 _ _ _ (by omega) wf.layer wf.tid, ok.sps,
      readU_u 4 8 _ _ (by omega) wf.vid, readU_u 3 8 _ _ (by omega) hmsl, readBit_flag, h3, hcw] at hq ⊢ <;>
    simp [hq, readUe8_ue _ _ wf.id, readUe8_ue _ _ wf.cf, readUe8_ue 3 _ (by omega), readBit_flag, readUe16_ue _ _ wf.w,
      readUe16_ue _ _ wf.h, readUe16_ue _ _ wf.cl, readUe16_ue _ _ wf.cr, readUe16_ue _ _ wf.ct, readUe16_ue _ _ wf.cb,
      headOf, h3, hcw]

theorem width_headOf (s : SpsSyn) (q : Ptl) : width (headOf s q) = croppedWidth s := by
  simp only [width, headOf, croppedWidth, subWidthC]
  by_cases hcw : s.conformance_window_flag = true <;> by_cases h3 : s.chroma_format_idc = 3 <;>
    by_cases h12 : s.chroma_format_idc = 1 ∨ s.chroma_format_idc = 2 <;> simp [hcw, h3, h12] <;> omega

theorem height_headOf (s : SpsSyn) (q : Ptl) : height (headOf s q) = croppedHeight s := by
  simp only [height, headOf, croppedHeight, subHeightC]
  by_cases hcw : s.conformance_window_flag = true <;> by_cases h3 : s.chroma_format_idc = 3 <;>
    by_cases h1 : s.chroma_format_idc = 1 <;> simp [hcw, h3, h1] <;> omega


/-! ### body blocks -/

def wfOrdering : List (Nat × Nat × Nat) → Bool
  | [] => true
  | (a, b, c) :: rest => decide (a < 256) && decide (b < 256) && decide (c + 1 < 2 ^ 32) && wfOrdering rest

theorem orderingLoop_enc (cfg : Cfg) (ok : CfgOK cfg) (l : List (Nat × Nat × Nat)) (i : Nat) (r : List Bool)
    (hw : wfOrdering l = true) (hi : i + l.length ≤ 7) :
    orderingLoop cfg l.length i (encOrdering l ++ r) = .ok (l, r) := by
  induction l generalizing i with
  | nil => simp [orderingLoop, encOrdering]
  | cons e rest ih =>
    obtain ⟨a, b, c⟩ := e
    simp only [wfOrdering, Bool.and_eq_true, decide_eq_true_eq] at hw
    simp only [List.length_cons] at hi
    have hlt : ¬ (i ≥ cfg.maxSubLayers) := by rw [ok.subLayers]; omega
    simp only [List.length_cons, orderingLoop, encOrdering, List.append_assoc, bind_apply, readUe8_ue a _ hw.1.1.1,
      hlt, if_false, readUe8_ue b _ hw.1.1.2, readUe_ue c _ hw.1.2, ih (i + 1) hw.2 (by omega), pure_apply]

/-- the arrays the decoder must end up with: as coded when the flag is 1, the single entry for every sub-layer otherwise -/
def orderingOf (s : SpsSyn) : List Ordering :=
  if s.sps_sub_layer_ordering_info_present_flag then s.ordering
  else match s.ordering.getLast? with
    | some last => List.replicate s.ptl.sub_layers.length last ++ [last]
    | none => []

theorem bodyOrdering_enc (cfg : Cfg) (ok : CfgOK cfg) (s : SpsSyn) (r : List Bool)
    (hlen : s.ordering.length = (if s.sps_sub_layer_ordering_info_present_flag then s.ptl.sub_layers.length + 1 else 1))
    (hw : wfOrdering s.ordering = true) (hmsl : s.ptl.sub_layers.length ≤ 6) :
    bodyOrdering cfg s.ptl.sub_layers.length (flag s.sps_sub_layer_ordering_info_present_flag ++ (encOrdering s.ordering ++ r))
      = .ok ((s.sps_sub_layer_ordering_info_present_flag.toNat, orderingOf s), r) := by
  by_cases hf : s.sps_sub_layer_ordering_info_present_flag = true
  · simp only [hf, if_true] at hlen
    have hloop := orderingLoop_enc cfg ok s.ordering 0 r hw (by omega)
    rw [hlen] at hloop
    simp [bodyOrdering, readBit_flag, ok.ordering, hf, hloop, orderingArrays, orderingOf]
  · have hf' : s.sps_sub_layer_ordering_info_present_flag = false := by simpa using hf
    simp only [hf', Bool.false_eq_true, if_false] at hlen
    have hloop := orderingLoop_enc cfg ok s.ordering s.ptl.sub_layers.length r hw (by omega)
    rw [hlen] at hloop
    have h1 : s.ptl.sub_layers.length + 1 - s.ptl.sub_layers.length = 1 := by omega
    obtain ⟨e, he⟩ : ∃ e, s.ordering = [e] := by
      match hs : s.ordering, hlen with
      | [e], _ => exact ⟨e, rfl⟩
    rw [he] at hloop
    simp [bodyOrdering, readBit_flag, ok.ordering, hf', h1, hloop, orderingArrays, orderingOf, he]

theorem bodyCoding_enc (s : SpsSyn) (q : Ptl) (r : List Bool)
    (h1 : s.log2_min_luma_coding_block_size_minus3 < 13) (h2 : s.log2_diff_max_min_luma_coding_block_size < 256)
    (h3 : s.log2_min_luma_transform_block_size_minus2 < 256) (h4 : s.log2_diff_max_min_luma_transform_block_size < 256)
    (h5 : s.max_transform_hierarchy_depth_inter < 256) (h6 : s.max_transform_hierarchy_depth_intra < 256)
    (hw : s.pic_width_in_luma_samples % 2 ^ (s.log2_min_luma_coding_block_size_minus3 + 3) = 0)
    (hh : s.pic_height_in_luma_samples % 2 ^ (s.log2_min_luma_coding_block_size_minus3 + 3) = 0) :
    bodyCoding (headOf s q) (encCoding s ++ r)
      = .ok ((s.log2_min_luma_coding_block_size_minus3, s.log2_diff_max_min_luma_coding_block_size,
              s.log2_min_luma_transform_block_size_minus2, s.log2_diff_max_min_luma_transform_block_size,
              s.max_transform_hierarchy_depth_inter, s.max_transform_hierarchy_depth_intra), r) := by
  have hm : (s.log2_min_luma_coding_block_size_minus3 + 3) % 256 = s.log2_min_luma_coding_block_size_minus3 + 3 := by omega
  have hs : ¬ (s.log2_min_luma_coding_block_size_minus3 + 3 ≥ 16) := by omega
  simp [bodyCoding, encCoding, readUe8_ue _ _ (show s.log2_min_luma_coding_block_size_minus3 < 256 by omega), readUe8_ue _ _ h2, hm, hs,
    headOf, hw, hh, readUe8_ue _ _ h3, readUe8_ue _ _ h4, readUe8_ue _ _ h5, readUe8_ue _ _ h6]

theorem bodyPcm_enc (s : SpsSyn) (r : List Bool) (h1 : s.pcm_sample_bit_depth_luma_minus1 < 16)
    (h2 : s.pcm_sample_bit_depth_chroma_minus1 < 16) (h3 : s.log2_min_pcm_luma_coding_block_size_minus3 < 256)
    (h4 : s.log2_diff_max_min_pcm_luma_coding_block_size < 256) :
    bodyPcm (encPcm s ++ r)
      = .ok ((s.pcm_enabled_flag.toNat,
              if s.pcm_enabled_flag then s.pcm_sample_bit_depth_luma_minus1 else 0,
              if s.pcm_enabled_flag then s.pcm_sample_bit_depth_chroma_minus1 else 0,
              if s.pcm_enabled_flag then s.log2_min_pcm_luma_coding_block_size_minus3 else 0,
              if s.pcm_enabled_flag then s.log2_diff_max_min_pcm_luma_coding_block_size else 0,
              if s.pcm_enabled_flag then s.pcm_loop_filter_disabled_flag.toNat else 0), r) := by
  cases hf : s.pcm_enabled_flag
  · simp [bodyPcm, encPcm, hf, readBit_flag]
  · simp [bodyPcm, encPcm, hf, readBit_flag, readU_u 4 8 _ _ (by omega) h1, readU_u 4 8 _ _ (by omega) h2, readUe8_ue _ _ h3, readUe8_ue _ _ h4]

theorem bodyExt_enc (s : SpsSyn) (r : List Bool) (h : s.sps_extension_4bits < 16) :
    bodyExt (encExt s ++ r)
      = .ok ((s.sps_extension_present_flag.toNat,
              if s.sps_extension_present_flag then s.sps_range_extension_flag.toNat else 0,
              if s.sps_extension_present_flag then s.sps_multilayer_extension_flag.toNat else 0,
              if s.sps_extension_present_flag then s.sps_3d_extension_flag.toNat else 0,
              if s.sps_extension_present_flag then s.sps_scc_extension_flag.toNat else 0,
              if s.sps_extension_present_flag then s.sps_extension_4bits else 0), r) := by
  cases hf : s.sps_extension_present_flag
  · simp [bodyExt, encExt, hf, readBit_flag]
  · simp [bodyExt, encExt, hf, readBit_flag, readU_u 4 8 _ _ (by omega) h]

def wfLongTerm (bits : Nat) : List (Nat × Bool) → Bool
  | [] => true
  | (v, _) :: rest => decide (v < 2 ^ bits) && wfLongTerm bits rest

theorem longTermLoop_enc (cfg : Cfg) (ok : CfgOK cfg) (bits : Nat) (l : List (Nat × Bool)) (i : Nat) (r : List Bool)
    (hb : bits ≤ 16) (hw : wfLongTerm bits l = true) (hi : i + l.length ≤ 32) :
    longTermLoop cfg bits l.length i (encLongTerm bits l ++ r) = .ok (l.map (fun (v, u') => (v, u'.toNat)), r) := by
  induction l generalizing i with
  | nil => simp [longTermLoop, encLongTerm]
  | cons e rest ih =>
    obtain ⟨v, used⟩ := e
    simp only [wfLongTerm, Bool.and_eq_true, decide_eq_true_eq] at hw
    simp only [List.length_cons] at hi
    have hlt : ¬ (i ≥ cfg.maxLongTermRefPics) := by rw [ok.lt]; omega
    simp only [List.length_cons, longTermLoop, encLongTerm, List.append_assoc, bind_apply, readU_u bits 16 v _ hb hw.1,
      hlt, if_false, readBit_flag, ih (i + 1) hw.2 (by omega), pure_apply, List.map_cons]

theorem bodyLongTerm_enc (cfg : Cfg) (ok : CfgOK cfg) (s : SpsSyn) (r : List Bool)
    (hlsb : s.log2_max_pic_order_cnt_lsb_minus4 ≤ 12)
    (hw : s.long_term_ref_pics_present_flag = true → s.long_term.length ≤ 32 ∧
      wfLongTerm (s.log2_max_pic_order_cnt_lsb_minus4 + 4) s.long_term = true) :
    bodyLongTerm cfg s.log2_max_pic_order_cnt_lsb_minus4 (encLongTermPart s ++ r)
      = .ok ((s.long_term_ref_pics_present_flag.toNat,
              if s.long_term_ref_pics_present_flag then s.long_term.length else 0,
              if s.long_term_ref_pics_present_flag then s.long_term.map (fun (v, u') => (v, u'.toNat)) else []), r) := by
  cases hf : s.long_term_ref_pics_present_flag
  · simp [bodyLongTerm, encLongTermPart, hf, readBit_flag]
  · obtain ⟨h32, hwf⟩ := hw hf
    have hm : (s.log2_max_pic_order_cnt_lsb_minus4 + 4) % 256 = s.log2_max_pic_order_cnt_lsb_minus4 + 4 := by omega
    simp [bodyLongTerm, encLongTermPart, hf, readBit_flag, readUe8_ue _ _ (show s.long_term.length < 256 by omega), hm,
      longTermLoop_enc cfg ok _ s.long_term 0 _ (by omega) hwf (by omega)]

end IpcHub.Hevc
