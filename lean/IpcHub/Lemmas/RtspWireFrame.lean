/- Helper lemmas for C14: interleaved frames, line limit, absence of panics in the binary part -/
import IpcHub.Lemmas.RtspWireBasic
namespace IpcHub.RtspWire

local notation "Bytes" => List UInt8

theorem readFull_append (a b : Bytes) : readFull a.length (a ++ b) = .ok (a, b) := by
  unfold readFull; simp

theorem readFull_ne_panic (n : Nat) (s : Bytes) : readFull n s ≠ .error .panic := by
  unfold readFull
  split
  · simp
  · split <;> simp

theorem readFull_ok_length {n : Nat} {s a b : Bytes} (h : readFull n s = .ok (a, b)) : a.length = n ∧ s = a ++ b := by
  unfold readFull at h
  split at h
  · simp at h; obtain ⟨h1, h2⟩ := h; subst h1 h2; simp; omega
  · split at h <;> simp at h

theorem findChannel_lt (chans : List Int) (ch : Int) (i c : Nat) (h : findChannel chans ch i = some c) :
    i ≤ c ∧ c < i + chans.length := by
  induction chans generalizing i with
  | nil => simp [findChannel] at h
  | cons v vs ih =>
    simp only [findChannel] at h
    split at h
    · simp at h; subst h; simp
    · have := ih (i + 1) h; simp; omega

theorem be16_split (n : Nat) (h : n < 65536) :
    be16 (UInt8.ofNat (n / 256)) (UInt8.ofNat (n % 256)) = n := by
  unfold be16
  have h1 : n / 256 < 256 := by omega
  have h2 : n % 256 < 256 := by omega
  simp [UInt8.toNat_ofNat, Nat.mod_eq_of_lt h1, Nat.mod_eq_of_lt h2]
  omega

/-- frame round trip: what `Packet.Write` emits for a packet of channel type `c` is read back by
    `ReadPacket` as the same channel type and payload, and the stream is left at `rest` -/
theorem readPacket_writePacket (cfg : Cfg) (chans : List Int) (c : Nat) (ch : Int) (data rest : Bytes) (off : Nat)
    (hc : c < 4) (hch : chans[c]? = some ch) (hr : 0 ≤ ch ∧ ch ≤ 255)
    (hfirst : findChannel chans ch 0 = some c) (hlen : data.length ≤ 65535)
    (hrtp : if c = 0 ∨ c = 2 then rtpUnmarshal data = .ok off else off = 0) :
    ∃ w, writePacket chans c data = some w ∧
      readPacket cfg chans (w ++ rest) = .ok (some ⟨c, data, off⟩, rest) := by
  have hn : data.length % 65536 = data.length := Nat.mod_eq_of_lt (by omega)
  have hcge : ¬ c ≥ 4 := by omega
  have hrange : ¬ (ch < 0 ∨ ch > 255) := by omega
  refine ⟨[0x24, UInt8.ofNat ch.toNat, UInt8.ofNat (data.length / 256), UInt8.ofNat (data.length % 256)] ++ data, ?_, ?_⟩
  · simp [writePacket, hcge, hch, hrange, hn]
  · have hchn : ((UInt8.ofNat ch.toNat).toNat : Int) = ch := by
      have : ch.toNat < 256 := by omega
      simp [UInt8.toNat_ofNat, Nat.mod_eq_of_lt this]; omega
    have e : [0x24, UInt8.ofNat ch.toNat, UInt8.ofNat (data.length / 256), UInt8.ofNat (data.length % 256)] ++ data ++ rest
        = [0x24, UInt8.ofNat ch.toNat, UInt8.ofNat (data.length / 256), UInt8.ofNat (data.length % 256)] ++ (data ++ rest) := by simp
    unfold readPacket
    rw [e]
    have h4 := readFull_append [0x24, UInt8.ofNat ch.toNat, UInt8.ofNat (data.length / 256), UInt8.ofNat (data.length % 256)] (data ++ rest)
    simp only [List.length_cons, List.length_nil] at h4
    rw [h4]
    simp only [be16_split data.length (by omega), readFull_append, hchn, hfirst]
    have hmod : c % 256 = c := Nat.mod_eq_of_lt (by omega)
    simp only [hmod]
    by_cases hm : c = 0 ∨ c = 2
    · simp only [hm, if_true] at hrtp ⊢
      simp [hrtp]
    · simp only [hm, if_false] at hrtp ⊢
      simp [hrtp]

/-- frame round trip for EVERY payload (no assumption on the RTP header): with the recovering,
    packet-returning reader the frame `Packet.Write` emitted is consumed exactly — the stream is
    left at `rest` — and it is either delivered with the same channel type and payload, or, on a
    media channel whose payload has no parsable RTP header, skipped. -/
theorem readPacket_writePacket_any (cfg : Cfg) (hrec : cfg.rtpRecover = true) (hbad : cfg.badHeaderPacket = true)
    (chans : List Int) (c : Nat) (ch : Int) (data rest : Bytes)
    (hc : c < 4) (hch : chans[c]? = some ch) (hr : 0 ≤ ch ∧ ch ≤ 255)
    (hfirst : findChannel chans ch 0 = some c) (hlen : data.length ≤ 65535) :
    ∃ w o, writePacket chans c data = some w ∧ readPacket cfg chans (w ++ rest) = .ok (o, rest) ∧
      (∀ p, o = some p → p.channel = c ∧ p.data = data) ∧
      (o = none → (c = 0 ∨ c = 2) ∧ ∀ off, rtpUnmarshal data ≠ .ok off) := by
  by_cases hm : c = 0 ∨ c = 2
  · cases hu : rtpUnmarshal data with
    | ok off =>
      obtain ⟨w, hw, hrd⟩ := readPacket_writePacket cfg chans c ch data rest off hc hch hr hfirst hlen (by simp [hm, hu])
      refine ⟨w, _, hw, hrd, ?_, fun h => by cases h⟩
      intro p hp; cases hp; exact ⟨rfl, rfl⟩
    | error e =>
      have hn : data.length % 65536 = data.length := Nat.mod_eq_of_lt (by omega)
      have hcge : ¬ c ≥ 4 := by omega
      have hrange : ¬ (ch < 0 ∨ ch > 255) := by omega
      refine ⟨[0x24, UInt8.ofNat ch.toNat, UInt8.ofNat (data.length / 256), UInt8.ofNat (data.length % 256)] ++ data, none, ?_, ?_,
        (fun p h => by cases h), (fun _ => ⟨hm, fun off h => by cases h⟩)⟩
      · simp [writePacket, hcge, hch, hrange, hn]
      · have hchn : ((UInt8.ofNat ch.toNat).toNat : Int) = ch := by
          have : ch.toNat < 256 := by omega
          simp [UInt8.toNat_ofNat, Nat.mod_eq_of_lt this]; omega
        have e' : [0x24, UInt8.ofNat ch.toNat, UInt8.ofNat (data.length / 256), UInt8.ofNat (data.length % 256)] ++ data ++ rest
            = [0x24, UInt8.ofNat ch.toNat, UInt8.ofNat (data.length / 256), UInt8.ofNat (data.length % 256)] ++ (data ++ rest) := by simp
        unfold readPacket
        rw [e']
        have h4 := readFull_append [0x24, UInt8.ofNat ch.toNat, UInt8.ofNat (data.length / 256), UInt8.ofNat (data.length % 256)] (data ++ rest)
        simp only [List.length_cons, List.length_nil] at h4
        rw [h4]
        simp only [be16_split data.length (by omega), readFull_append, hchn, hfirst]
        have hmod : c % 256 = c := Nat.mod_eq_of_lt (by omega)
        simp only [hmod, hm, if_true, hu]
        cases e <;> simp [hrec, hbad]
  · obtain ⟨w, hw, hrd⟩ := readPacket_writePacket cfg chans c ch data rest 0 hc hch hr hfirst hlen (by simp [hm])
    refine ⟨w, _, hw, hrd, ?_, fun h => by cases h⟩
    intro p hp; cases hp; exact ⟨rfl, rfl⟩

/-! ### line limit: a line is refused on the evidence of a bounded prefix -/

theorem breakLF_append_noLF (l rest : Bytes) (h : (0x0A : UInt8) ∉ l) :
    breakLF (l ++ rest) = (l ++ (breakLF rest).1, (breakLF rest).2) := by
  induction l with
  | nil => simp
  | cons x xs ih =>
    have hx : x ≠ 0x0A := fun e => h (by simp [e])
    have hxs : (0x0A : UInt8) ∉ xs := fun m => h (by simp [m])
    simp [breakLF, hx, ih hxs]

theorem dropLastCR_length (l : Bytes) : l.length ≤ (dropLastCR l).length + 1 := by
  unfold dropLastCR
  split
  · rename_i r hr
    have : l.length = (l.reverse).length := by simp
    rw [this, hr]; simp
  · omega

/-- if the first `m + 2` bytes of the stream hold no LF, `readLine` fails with the limit error
    whatever follows: the decision needs a bounded prefix only -/
theorem readLine_too_long (cfg : Cfg) (m : Nat) (hm : cfg.maxLine = some m) (l rest : Bytes)
    (h : (0x0A : UInt8) ∉ l) (hl : l.length ≥ m + 2) :
    readLine cfg (l ++ rest) = .error .lineTooLong := by
  unfold readLine
  have hne : (l ++ rest).isEmpty = false := by
    cases l with
    | nil => simp at hl
    | cons x xs => simp
  rw [breakLF_append_noLF l rest h, hm]
  simp only [hne]
  have hlen : m < (match (breakLF rest).2 with
      | some _ => dropLastCR (l ++ (breakLF rest).1)
      | none => l ++ (breakLF rest).1).length := by
    cases (breakLF rest).2 with
    | none => simp; omega
    | some r =>
      have := dropLastCR_length (l ++ (breakLF rest).1)
      simp at this ⊢; omega
  simp
  exact hlen

/-! ### whatever is accepted is bounded (stream level) -/

theorem contentLength_le (cfg : Cfg) (m : Nat) (hm : cfg.maxBody = some m) (h : Header) (n : Nat)
    (hc : contentLength cfg h = .ok n) : n ≤ m := by
  unfold contentLength at hc
  rw [hm] at hc
  simp only at hc
  split at hc
  · cases hc
  · cases hc; omega
  · split at hc
    · cases hc
    · split at hc
      · cases hc; omega
      · cases hc; omega

theorem readBody_le (cfg : Cfg) (m : Nat) (hm : cfg.maxBody = some m) (hb : cfg.bodyErrReturned = true)
    (h : Header) (s b r : Bytes) (hr : readBody cfg h s = .ok (b, r)) : b.length ≤ m := by
  unfold readBody at hr
  split at hr
  · cases hr
  · cases hr; simp
  · rename_i cl _ hcl
    have := contentLength_le cfg m hm h cl hcl
    split at hr
    · rename_i r' hrf
      cases hr
      have := (readFull_ok_length hrf).1
      omega
    · rw [hb] at hr; cases hr

theorem readRequest_body_le {U : Type} (cfg : Cfg) (m : Nat) (hm : cfg.maxBody = some m) (hb : cfg.bodyErrReturned = true)
    (ops : UrlOps U) (s : Bytes) (q : Request U) (r : Bytes) (h : readRequest cfg ops s = .ok (q, r)) :
    q.body.length ≤ m := by
  unfold readRequest at h
  cases hl : readLine cfg s with
  | error e => rw [hl] at h; cases h
  | ok p =>
    obtain ⟨line, rest⟩ := p
    rw [hl] at h
    simp only at h
    cases ht : sliceFrom line (indexByte line 0x20 + 1) with
    | error e => rw [ht] at h; cases h
    | ok tail =>
      rw [ht] at h
      simp only at h
      split at h
      · cases h
      · split at h
        · split at h
          · cases h
          · split at h
            · cases h
            · split at h
              · cases h
              · split at h
                · cases h
                · split at h
                  · cases h
                  · rename_i hrb
                    cases h
                    exact readBody_le cfg m hm hb _ _ _ _ hrb
        · cases h

theorem readResponse_body_le (cfg : Cfg) (m : Nat) (hm : cfg.maxBody = some m) (hb : cfg.bodyErrReturned = true)
    (s : Bytes) (q : Response) (r : Bytes) (h : readResponse cfg s = .ok (q, r)) :
    q.body.length ≤ m := by
  unfold readResponse at h
  cases hl : readLine cfg s with
  | error e => rw [hl] at h; cases h
  | ok p =>
    obtain ⟨line, rest⟩ := p
    rw [hl] at h
    simp only at h
    split at h
    · cases h
    · split at h
      · split at h
        · cases h
        · split at h
          · cases h
          · split at h
            · split at h
              · cases h
              · split at h
                · cases h
                · split at h
                  · cases h
                  · rename_i hrb
                    cases h
                    exact readBody_le cfg m hm hb _ _ _ _ hrb
            · cases h
      · cases h
theorem readLine_le (cfg : Cfg) (m : Nat) (hm : cfg.maxLine = some m) (s l r : Bytes)
    (h : readLine cfg s = .ok (l, r)) : l.length ≤ m := by
  unfold readLine at h
  rw [hm] at h
  by_cases he : s.isEmpty = true
  · rw [if_pos he] at h; cases h
  · rw [if_neg he] at h
    cases hb : (breakLF s).2 with
    | none =>
      simp only [hb] at h
      by_cases hl : (breakLF s).1.length > m
      · simp [hl] at h
      · simp only [hl, decide_false, Bool.false_eq_true, if_false] at h
        cases h; omega
    | some x =>
      simp only [hb] at h
      by_cases hl : (dropLastCR (breakLF s).1).length > m
      · simp [hl] at h
      · simp only [hl, decide_false, Bool.false_eq_true, if_false] at h
        cases h; omega

end IpcHub.RtspWire
