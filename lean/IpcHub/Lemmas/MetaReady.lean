/-
Lemmas about Model/MetaReady.lean (C15: "SDP with such parameter sets still yields a usable stream").
-/
import IpcHub.Model.MetaReady
import IpcHub.Model.CodecInst
namespace IpcHub.MetaReady
open IpcHub.Epb

/-- `MetadataIsReady` returning false leaves the VideoMeta untouched (the marker `Width == 0` included) -/
theorem ready_false_unchanged (needVps : Bool) (dec : List UInt8 → Option Dims) (vm : VMeta)
    (h : (ready needVps dec vm).1 = false) : (ready needVps dec vm).2 = vm := by
  unfold ready at *
  split
  · rfl
  · split
    · split <;> simp_all
    · simp_all

/-- **Usable stream, generic.**  Whatever bytes the SDP carried as (VPS,) SPS, PPS: after one in-band repetition of
    non-empty sets whose SPS the decoder accepts, followed by a slice, the slice is handed on, the depacketizer is
    ready, and the metadata is that of a parameter set the decoder ACCEPTS — the SDP's own SPS (then with exactly the
    values the decoder derives from it) or the in-band SPS; and when the decoder rejects the SDP's SPS it is the
    in-band one (the rejected set was replaced, the stream repaired). -/
theorem usable (needVps : Bool) (dec : List UInt8 → Option Dims) (vps0 sps0 pps0 vps sps pps : List UInt8)
    (hv : needVps = true → vps ≠ []) (hs : sps ≠ []) (hp : pps ≠ []) (d : Dims) (hd : dec sps = some d) :
    let r := afterSdpAndInBand needVps dec vps0 sps0 pps0 vps sps pps
    r.2 = true ∧ r.1.metaReady = true ∧
    ((r.1.vm.sps = removeNaluSeparator sps0 ∧ dec (removeNaluSeparator sps0) = some r.1.vm.dims) ∨
     (r.1.vm.sps = sps ∧ r.1.vm.dims = d)) ∧
    (dec (removeNaluSeparator sps0) = none → r.1.vm.sps = sps ∧ r.1.vm.dims = d) := by
  intro r
  generalize hV : removeNaluSeparator vps0 = V at *
  generalize hS : removeNaluSeparator sps0 = S at *
  generalize hP : removeNaluSeparator pps0 = P at *
  cases needVps <;> by_cases hSe : S = [] <;> by_cases hPe : P = [] <;> by_cases hVe : V = [] <;>
    (cases hdec : dec S with
     | none =>
       simp [r, List.isEmpty_iff, afterSdpAndInBand, sdpStore, inBand, feed, writeFrame, ready, VMeta.dims, hV, hS, hP,
         hSe, hPe, hVe, hdec, hd, hv, hs, hp]
     | some d0 =>
       obtain ⟨w0, h0, f0, q0⟩ := d0
       by_cases hw : w0 = 0 <;>
       simp [r, List.isEmpty_iff, afterSdpAndInBand, sdpStore, inBand, feed, writeFrame, ready, VMeta.dims, hV, hS, hP,
         hSe, hPe, hVe, hdec, hd, hv, hs, hp, hw])

/-- the one-shot models of the shortcuts (Model/H264Sps.lean, Model/Hevc.lean: "MetadataIsReady on a VideoMeta whose Width is
    still 0", the ones the differential run compares on every decoder case) are `ready` on a fresh VideoMeta -/
theorem h264_metadataIsReady_eq (cfg : H264.Cfg) (sps pps : List UInt8) :
    H264.metadataIsReady cfg sps pps =
      (let r := ready false (dec264 cfg) { sps := sps, pps := pps }
       if r.1 then some { width := r.2.width, height := r.2.height, fixed := r.2.fixed, fps := r.2.fps } else none) := by
  unfold H264.metadataIsReady ready dec264 H264.dimsOf
  by_cases h1 : sps = [] <;> by_cases h2 : pps = [] <;> simp [h1, h2, List.isEmpty_iff] <;>
    cases H264.decode cfg sps <;> simp

theorem hevc_metadataIsReady_eq (cfg : Hevc.Cfg) (vps sps pps : List UInt8) :
    Hevc.metadataIsReady cfg vps sps pps =
      (let r := ready true (dec265 cfg) { vps := vps, sps := sps, pps := pps }
       if r.1 then some { width := r.2.width, height := r.2.height, fixed := r.2.fixed, fps := r.2.fps } else none) := by
  unfold Hevc.metadataIsReady ready dec265 Hevc.dimsOf
  by_cases h0 : vps = [] <;> by_cases h1 : sps = [] <;> by_cases h2 : pps = [] <;> simp [h0, h1, h2, List.isEmpty_iff] <;>
    cases Hevc.decodeSps cfg sps <;> simp

end IpcHub.MetaReady
