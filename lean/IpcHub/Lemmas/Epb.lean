/-
Lemmas about utils/h264or5.go's model: the Go loop is the textbook emulation-prevention
removal, and removal inverts the standard's insertion.
-/
import IpcHub.Model.Epb
import IpcHub.Spec.BitSyntax
namespace IpcHub.Epb
open IpcHub.BitSyntax

theorem strip_cons (a : UInt8) (rest : List UInt8)
    (h : ∀ r', a = 0 → rest ≠ 0 :: 3 :: r') : strip (a :: rest) = a :: strip rest := by
  rw [strip.eq_def]
  split
  · rename_i heq; simp at heq
  · rename_i r' heq; simp at heq; obtain ⟨rfl, rfl⟩ := heq; exact absurd rfl (h r' rfl)
  · rename_i heq; simp at heq; obtain ⟨rfl, rfl⟩ := heq; rfl

/-- the guarded Go loop plus the final one-byte copy computes `strip` -/
theorem loop_spec (toMax : Nat) (l : List UInt8) (ts : Nat) (acc : List UInt8)
    (h : ts + l.length ≤ toMax) :
    finish toMax (loop toMax l ts acc) = acc.reverse ++ strip l := by
  fun_induction loop toMax l ts acc with
  | case1 ts acc => simp [strip, finish]
  | case2 rest ts acc hlt ih =>
    simp only [List.length_cons] at h
    rw [ih (by omega)]; simp [strip]
  | case3 rest ts acc hge =>
    simp only [List.length_cons] at h; omega
  | case4 a rest ts acc hne hlt ih =>
    simp only [List.length_cons] at h
    rw [ih (by omega), strip_cons a rest (fun r' h0 h1 => hne r' h0 h1)]
    simp
  | case5 a rest ts acc hne hge =>
    simp only [List.length_cons] at h
    have : rest = [] := List.eq_nil_of_length_eq_zero (by omega)
    subst this
    have : ts < toMax := by omega
    simp [this, strip, finish]

theorem removeEmulationBytes_eq (data : List UInt8) :
    removeEmulationBytes data = strip (removeNaluSeparator data) := by
  unfold removeEmulationBytes
  have := loop_spec (removeNaluSeparator data).length (removeNaluSeparator data) 0 [] (by omega)
  simpa using this

theorem strip_insertEpbZ (x : List UInt8) :
    strip (insertEpbZ 0 x) = x ∧
    strip (0 :: insertEpbZ 1 x) = 0 :: x ∧
    strip (0 :: 0 :: insertEpbZ 2 x) = 0 :: 0 :: x := by
  induction x with
  | nil => simp [insertEpbZ, strip]
  | cons b rest ih =>
    obtain ⟨ih0, ih1, ih2⟩ := ih
    by_cases hb0 : b = 0
    · subst hb0
      refine ⟨?_, ?_, ?_⟩
      · simpa [insertEpbZ] using ih1
      · simpa [insertEpbZ] using ih2
      · have : (0 : UInt8) ≤ 3 := by decide
        simp only [insertEpbZ, this, and_self, if_true, Nat.le_refl]
        simp [strip, ih1]
    · have hs : strip (b :: insertEpbZ 0 rest) = b :: rest := by
        rw [strip_cons b _ (fun _ h => absurd h hb0), ih0]
      refine ⟨?_, ?_, ?_⟩
      · simpa [insertEpbZ, hb0] using hs
      · simp only [insertEpbZ, hb0, if_false]
        have : ¬ (1 ≥ 2 ∧ b ≤ 3) := by omega
        simp only [this, if_false]
        rw [strip_cons 0 _ (fun r' _ h => by simp at h; exact hb0 h.1), hs]
      · by_cases hb3 : b ≤ 3
        · simp only [insertEpbZ, hb3, and_self, if_true, hb0, if_false, Nat.le_refl]
          simp [strip, hs]
        · have hne3 : b ≠ 3 := fun h => hb3 (by subst h; decide)
          simp only [insertEpbZ, hb3, and_false, if_false, hb0]
          rw [strip_cons 0 _ (fun r' _ h => by simp at h; exact hne3 h.1)]
          rw [strip_cons 0 _ (fun r' _ h => by simp at h; exact hb0 h.1), hs]

/-- emulation-prevention removal inverts the standard's insertion, for every payload -/
theorem strip_insertEpb (x : List UInt8) : strip (insertEpb x) = x := (strip_insertEpbZ x).1

end IpcHub.Epb
