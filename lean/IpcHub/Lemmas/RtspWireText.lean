/- Helper lemmas for C14: TrimSpace / canonicalKV / numbers -/
import IpcHub.Lemmas.RtspWireBasic
import IpcHub.Spec.RtspCodec
namespace IpcHub.RtspWire

local notation "Bytes" => List UInt8

/-! ### TrimSpace -/

theorem wideSpaces_heads : wideSpaces.all (fun w => match w with | h :: _ => decide (0x80 ≤ h) | [] => false) = true := by
  decide

theorem wideSpaces_lasts : wideSpaces.all (fun w => match w.reverse with | h :: _ => decide (0x80 ≤ h) | [] => false) = true := by
  decide

theorem wide_find_none (b : UInt8) (s : Bytes) (hb : b < 0x80) :
    wideSpaces.find? (fun w => w.isPrefixOf (b :: s)) = none := by
  rw [List.find?_eq_none]
  intro w hw
  have := List.all_eq_true.mp wideSpaces_heads w hw
  cases w with
  | nil => simp at this
  | cons h t =>
    simp at this
    have hne : h ≠ b := by
      intro e; subst e
      exact absurd (UInt8.lt_of_lt_of_le hb this) (UInt8.lt_irrefl _)
    simp [List.isPrefixOf, hne]

theorem wide_find_none_rev (b : UInt8) (s : Bytes) (hb : b < 0x80) :
    wideSpaces.find? (fun w => w.reverse.isPrefixOf (b :: s)) = none := by
  rw [List.find?_eq_none]
  intro w hw
  have := List.all_eq_true.mp wideSpaces_lasts w hw
  cases hr : w.reverse with
  | nil => simp [hr] at this
  | cons h t =>
    simp [hr] at this
    have hne : h ≠ b := by
      intro e; subst e
      exact absurd (UInt8.lt_of_lt_of_le hb this) (UInt8.lt_irrefl _)
    simp [List.isPrefixOf, hne]

/-- a byte string whose first byte (if any) is ASCII and not a blank -/
def headOK (s : Bytes) : Prop := ∀ b, s.head? = some b → b < 0x80 ∧ isAsciiSpace b = false

theorem leadingSpaceLen_zero (s : Bytes) (h : headOK s) : leadingSpaceLen s = 0 := by
  cases s with
  | nil => simp [leadingSpaceLen]
  | cons b t =>
    have := h b (by simp)
    simp [leadingSpaceLen, this.2, wide_find_none b t this.1]

theorem trailingSpaceLenRev_zero (r : Bytes) (h : headOK r) : trailingSpaceLenRev r = 0 := by
  cases r with
  | nil => simp [trailingSpaceLenRev]
  | cons b t =>
    have := h b (by simp)
    simp [trailingSpaceLenRev, this.2, wide_find_none_rev b t this.1]

theorem trimLeftAux_id (n : Nat) (s : Bytes) (h : headOK s) : trimLeftAux n s = s := by
  cases n with
  | zero => simp [trimLeftAux]
  | succ n => simp [trimLeftAux, leadingSpaceLen_zero s h]

theorem trimRightAuxRev_id (n : Nat) (r : Bytes) (h : headOK r) : trimRightAuxRev n r = r := by
  cases n with
  | zero => simp [trimRightAuxRev]
  | succ n => simp [trimRightAuxRev, trailingSpaceLenRev_zero r h]

/-- `TrimSpace` leaves a string alone whose two ends are ASCII non-blanks -/
theorem trimSpace_id (s : Bytes) (h1 : headOK s) (h2 : headOK s.reverse) : trimSpace s = s := by
  unfold trimSpace trimLeft trimRight
  rw [trimLeftAux_id _ _ h1, trimRightAuxRev_id _ _ h2]
  simp

theorem trimLeft_blank (s : Bytes) : trimLeft (0x20 :: s) = trimLeft s := by
  unfold trimLeft
  simp [trimLeftAux, leadingSpaceLen, isAsciiSpace]

theorem trimSpace_blank (s : Bytes) : trimSpace (0x20 :: s) = trimSpace s := by
  unfold trimSpace; rw [trimLeft_blank]

theorem map_crlf_id (s : Bytes) (h1 : (0x0A : UInt8) ∉ s) (h2 : (0x0D : UInt8) ∉ s) :
    s.map (fun b => if b == 0x0A || b == 0x0D then 0x20 else b) = s := by
  induction s with
  | nil => simp
  | cons x xs ih =>
    have hx1 : x ≠ 0x0A := fun e => h1 (by simp [e])
    have hx2 : x ≠ 0x0D := fun e => h2 (by simp [e])
    have i1 : (0x0A : UInt8) ∉ xs := fun m => h1 (by simp [m])
    have i2 : (0x0D : UInt8) ∉ xs := fun m => h2 (by simp [m])
    have := ih i1 i2
    simp [hx1, hx2]
    simpa using this

theorem canonicalKV_id (s : Bytes) (h1 : (0x0A : UInt8) ∉ s) (h2 : (0x0D : UInt8) ∉ s)
    (h3 : headOK s) (h4 : headOK s.reverse) : canonicalKV s = s := by
  unfold canonicalKV
  rw [map_crlf_id s h1 h2, trimSpace_id s h3 h4]

theorem canonicalKV_blank (s : Bytes) (h1 : (0x0A : UInt8) ∉ s) (h2 : (0x0D : UInt8) ∉ s)
    (h3 : headOK s) (h4 : headOK s.reverse) : canonicalKV (0x20 :: s) = s := by
  unfold canonicalKV
  have : (0x20 :: s).map (fun b => if b == 0x0A || b == 0x0D then 0x20 else b) = 0x20 :: s := by
    have := map_crlf_id s h1 h2
    simp
    simpa using this
  rw [this, trimSpace_blank, trimSpace_id s h3 h4]

/-! ### numbers -/

open IpcHub.RtspSpec in
theorem digit_isDigit (k : Nat) (h : k < 10) : isDigit (digit k) = true ∧ (digit k).toNat - 0x30 = k := by
  unfold isDigit digit
  have h1 : 48 + k < 256 := by omega
  have : (UInt8.ofNat (48 + k)).toNat = 48 + k := by simp [UInt8.toNat_ofNat, Nat.mod_eq_of_lt h1]
  refine ⟨?_, by omega⟩
  simp only [Bool.and_eq_true, decide_eq_true_eq, UInt8.le_iff_toNat_le, this]
  constructor <;> simp <;> omega

theorem scanDigits_append (M : Nat) (xs ys : Bytes) (acc k : Nat)
    (h : scanDigits M acc xs = .ok (k : Int)) : scanDigits M acc (xs ++ ys) = scanDigits M k ys := by
  induction xs generalizing acc with
  | nil =>
    simp [scanDigits] at h
    have : acc = k := by omega
    simp [this]
  | cons x t ih =>
    simp only [scanDigits, List.cons_append] at h ⊢
    split at h
    · simp at h
    · rename_i hd
      simp only [hd]
      split at h
      · simp at h
      · rename_i hle
        simp only [hle, if_false]
        exact ih _ h

open IpcHub.RtspSpec in
/-- parsing the decimal digits of `n` gives `n` back (as long as `n` fits) -/
theorem scanDigits_decimal (M : Nat) (n : Nat) (h : n ≤ M) : scanDigits M 0 (decimal n) = .ok (n : Int) := by
  induction n using Nat.strongRecOn with
  | _ n ih =>
    rw [decimal]
    split
    · rename_i hlt
      have hd := digit_isDigit n hlt
      simp [scanDigits, hd.1, hd.2]
      omega
    · rename_i hge
      have h10 : n / 10 < n := by omega
      have := ih (n / 10) h10 (by omega)
      rw [scanDigits_append M _ _ 0 (n / 10) this]
      have hd := digit_isDigit (n % 10) (by omega)
      simp only [scanDigits, hd.1, hd.2, Bool.not_true, Bool.false_eq_true, if_false]
      have hle : ¬ (n / 10 * 10 + n % 10 > M) := by omega
      simp only [hle, if_false]
      congr 1
      omega

open IpcHub.RtspSpec in
theorem decimal_ne_nil (n : Nat) : decimal n ≠ [] := by
  rw [decimal]; split <;> simp

open IpcHub.RtspSpec in
theorem decimal_head_digit (n : Nat) : ∀ b, (decimal n).head? = some b → isDigit b = true := by
  induction n using Nat.strongRecOn with
  | _ n ih =>
    rw [decimal]
    split
    · rename_i hlt; intro b hb; simp at hb; subst hb; exact (digit_isDigit n hlt).1
    · rename_i hge
      intro b hb
      have hne := decimal_ne_nil (n / 10)
      cases hd : decimal (n / 10) with
      | nil => exact absurd hd hne
      | cons x t =>
        rw [hd] at hb; simp at hb; subst hb
        exact ih (n / 10) (by omega) x (by simp [hd])

open IpcHub.RtspSpec in
theorem decimal_all_digits (n : Nat) : ∀ b ∈ decimal n, isDigit b = true := by
  induction n using Nat.strongRecOn with
  | _ n ih =>
    rw [decimal]
    split
    · rename_i hlt; intro b hb; simp at hb; subst hb; exact (digit_isDigit n hlt).1
    · intro b hb
      simp at hb
      rcases hb with hb | hb
      · exact ih (n / 10) (by omega) b hb
      · subst hb; exact (digit_isDigit (n % 10) (by omega)).1

open IpcHub.RtspSpec in
/-- model `itoa` is the specification's `decimal` -/
theorem itoaAux_eq (f n : Nat) (acc : Bytes) (h : n < f) : itoaAux f n acc = decimal n ++ acc := by
  induction f generalizing n acc with
  | zero => omega
  | succ f ih =>
    rw [itoaAux, decimal]
    by_cases hlt : n < 10
    · have : n / 10 = 0 := by omega
      have hm : n % 10 = n := by omega
      simp [this, hlt, digit, hm, Nat.add_comm]
    · have : n / 10 ≠ 0 := by omega
      simp only [this, if_false, hlt]
      rw [ih (n / 10) _ (by omega)]
      simp [digit, Nat.add_comm]

open IpcHub.RtspSpec in
theorem itoa_eq_decimal (n : Nat) : itoa n = decimal n := by
  unfold itoa; rw [itoaAux_eq (n + 1) n [] (by omega)]; simp

open IpcHub.RtspSpec in
/-- `ParseInt(Itoa(n), 10, bits)` -/
theorem parseInt_decimal (n bits : Nat) (h : n < 2 ^ (bits - 1)) (hb : bits ≥ 1) : parseInt (decimal n) bits = .ok (n : Int) := by
  have hne := decimal_ne_nil n
  have hhead := decimal_head_digit n
  cases hd : decimal n with
  | nil => exact absurd hd hne
  | cons b t =>
    have hdig : isDigit b = true := hhead b (by simp [hd])
    have hb1 : (b == 0x2D) = false := by
      unfold isDigit at hdig
      simp only [Bool.and_eq_true, decide_eq_true_eq] at hdig
      have := hdig.1
      simp only [beq_eq_false_iff_ne, ne_eq]
      intro e; subst e; revert this; decide
    have hb2 : (b == 0x2B) = false := by
      unfold isDigit at hdig
      simp only [Bool.and_eq_true, decide_eq_true_eq] at hdig
      have := hdig.1
      simp only [beq_eq_false_iff_ne, ne_eq]
      intro e; subst e; revert this; decide
    have hpow : 2 ^ (bits - 1) ≤ 2 ^ bits - 1 := by
      have : 2 ^ bits = 2 * 2 ^ (bits - 1) := by
        conv => lhs; rw [show bits = (bits - 1) + 1 by omega]
        rw [Nat.pow_succ]; omega
      have hp : 0 < 2 ^ (bits - 1) := Nat.two_pow_pos _
      omega
    have hs := scanDigits_decimal (2 ^ bits - 1) n (by omega)
    rw [hd] at hs
    unfold parseInt
    simp only [hb1, hb2, Bool.or_self, Bool.false_eq_true, if_false, List.isEmpty_cons, hs]
    simp
    omega

end IpcHub.RtspWire
