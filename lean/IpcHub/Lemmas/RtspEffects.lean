/-
Where the session model attaches consumers and registers streams (for Props/C12.lean).
-/
import IpcHub.Lemmas.RtspSession
namespace IpcHub.Rtsp

theorem onPlay_effs (cfg : Cfg) (s : Sess) (r : Req) (e : Env) (resp : Resp) (h : resp.code = 200) (eff : Effect)
    (hm : Ev.eff eff ∈ (onPlay cfg s r e resp).2) :
    (eff = .attachTcp ∨ eff = .attachUdp ∨ eff = .attachMc) ∧
    ∃ x, (onPlay cfg s r e resp).2 = [.resp x, .eff eff] ∧ x.code = 200 := by
  unfold onPlay at hm ⊢
  revert hm
  crushBy (simp_all)

theorem onRecord_effs (s : Sess) (e : Env) (resp : Resp) (h : resp.code = 200) (eff : Effect)
    (hm : Ev.eff eff ∈ (onRecord s e resp).2) :
    eff = .register ∧ ∃ x, (onRecord s e resp).2 = [.eff eff, .resp x] ∧ x.code = 200 := by
  unfold onRecord at hm ⊢
  revert hm
  crushBy (simp_all)

theorem finish_effs (s : Sess) (eff : Effect) (hm : Ev.eff eff ∈ (finish s).2) :
    eff = .closeConn ∨ eff = .releaseConsumer ∨ eff = .releaseStream := by
  unfold finish at hm
  revert hm
  crushBy (intro h; simp at h; first | (rcases h with h | h | h <;> simp [h]) | (rcases h with h | h <;> simp [h]) | simp [h])

/-- every effect of a request, classified -/
theorem step_effs (cfg : Cfg) (s : Sess) (r : Req) (e : Env) (eff : Effect) (hm : Ev.eff eff ∈ (step cfg s r e).2) :
    (r.method = .play ∧ (eff = .attachTcp ∨ eff = .attachUdp ∨ eff = .attachMc) ∧
      ∃ x, (step cfg s r e).2 = [.resp x, .eff eff] ∧ x.code = 200) ∨
    (r.method = .record ∧ eff = .register ∧ ∃ x, (step cfg s r e).2 = [.eff eff, .resp x] ∧ x.code = 200) ∨
    (r.method = .teardown ∧ (eff = .closeConn ∨ eff = .releaseConsumer ∨ eff = .releaseStream)) := by
  have hm0 : (mkResp r).code = 200 := rfl
  unfold step at hm ⊢
  split
  · rename_i hc; simp [hc] at hm
  · rename_i hc
    simp only [hc, ↓reduceIte] at hm
    split
    · rename_i ho; simp [ho] at hm
    · rename_i ho
      simp only [ho, ↓reduceIte] at hm
      split
      · rename_i ht
        simp only [ht, ↓reduceIte] at hm
        have ht' : r.method = .teardown := by simpa using ht
        refine Or.inr (Or.inr ⟨ht', ?_⟩)
        have : Ev.eff eff ∈ (finish s).2 := by
          have : Ev.eff eff ∈ Ev.resp (mkResp r) :: (finish s).2 := hm
          simpa using this
        exact finish_effs s eff this
      · rename_i ht
        simp only [ht, ↓reduceIte] at hm
        split
        · rename_i hg; simp [hg] at hm
        · rename_i hg
          simp only [hg, ↓reduceIte] at hm
          split
          · rename_i hmeth; simp [hmeth] at hm
          · rename_i hmeth; simp [hmeth] at hm
          · rename_i hmeth; simp [hmeth] at hm
          · rename_i hmeth
            simp only [hmeth] at hm
            exact Or.inr (Or.inl ⟨hmeth, onRecord_effs s e _ hm0 eff hm⟩)
          · rename_i hmeth
            simp only [hmeth] at hm
            obtain ⟨h1, h2⟩ := onPlay_effs cfg s r e _ hm0 eff hm
            exact Or.inl ⟨hmeth, h1, h2⟩
          · rename_i hx h1 h2 h3 h4 h5
            exfalso
            simp at hm

end IpcHub.Rtsp
