/-
C08 lemmas about tag bodies: the specification's readers (VIDEODATA, NAL unit lists,
AVCDecoderConfigurationRecord, HEVCDecoderConfigurationRecord, AUDIODATA, AMF0 / SCRIPTDATA) run
over the bytes of the model's marshalling functions.
-/
import IpcHub.Lemmas.FlvBytes
namespace IpcHub.FlvLemmas
open IpcHub.Flv IpcHub.FlvSpec

/-! ### VIDEODATA -/

theorem parseVideoBody_videoData (ft codec pt : UInt8) (cts : UInt32) (body : Bytes)
    (hft : ft = 1 ∨ ft = 2) (hc : codec = codecAVC ∨ codec = codecHEVC) :
    parseVideoBody (videoDataBytes ft codec pt cts body) =
      some { frameType := ft.toNat, codecID := codec.toNat, packetType := pt.toNat,
             cts := si24 (cts.toNat % 16777216),
             body := if pt = pktNalu then be32 body.length ++ body else body } := by
  have hb : ((ft <<< 4 ||| codec &&& 0x0f) &&& 0x0F).toNat = codec.toNat ∧
      ((ft <<< 4 ||| codec &&& 0x0f) >>> 4).toNat = ft.toNat ∧ (codec.toNat = 7 ∨ codec.toNat = 12) := by
    rcases hft with h | h <;> rcases hc with h' | h' <;> subst h <;> subst h' <;> decide
  obtain ⟨h1, h2, h3⟩ := hb
  have hcts := u24_be cts.toNat
  simp only [videoDataBytes, hc, if_true, be24_eq, List.cons_append, List.nil_append, parseVideoBody, h1, h2, h3, hcts]

/-- one length-prefixed NAL unit -/
theorem parseNalus_one (fuel : Nat) (nal : Bytes) (h : nal.length < 4294967296) :
    parseNalus (fuel + 2) (be32 nal.length ++ nal) = some [nal] := by
  have e := u32_be nal.length
  simp only [be32_eq, List.cons_append, List.nil_append, parseNalus, e, Nat.mod_eq_of_lt h]
  simp [parseNalus]

/-! ### parameter-set lists -/

theorem parseSets_one (s rest : Bytes) (h : s.length < 65536) :
    parseSets 1 (be16 s.length ++ s ++ rest) = some ([s], rest) := by
  have e := u16_be s.length
  simp only [be16_eq, List.cons_append, List.nil_append, List.append_assoc, parseSets, e, Nat.mod_eq_of_lt h]
  simp [parseSets]

/-! ### AVCDecoderConfigurationRecord -/

theorem parseAvcc_avcRecord (a p c l : UInt8) (tail pps : Bytes)
    (hs : (a :: p :: c :: l :: tail).length < 65536) (hp : pps.length < 65536) :
    ∃ body, avcRecord (a :: p :: c :: l :: tail) pps = .ok body ∧
      parseAvcc body = some { profile := p, compat := c, level := l, lengthSize := 4,
                              spss := [a :: p :: c :: l :: tail], ppss := [pps] } := by
  refine ⟨_, rfl, ?_⟩
  have h1 := parseSets_one (a :: p :: c :: l :: tail) ([1] ++ be16 pps.length ++ pps) hs
  have h2 := parseSets_one pps [] hp
  simp only [List.append_nil] at h2
  have hn : ((0xe1 : UInt8) &&& 0x1F).toNat = 1 := by decide
  have hl : ((0xff : UInt8) &&& 3).toNat + 1 = 4 := by decide
  simp only [List.cons_append, List.nil_append, List.append_assoc, parseAvcc] at h1 ⊢
  simp only [hn, h1, hl]
  have hone : (1 : UInt8).toNat = 1 := by decide
  simp only [hone, h2]
  simp
  decide

/-! ### HEVCDecoderConfigurationRecord -/

theorem parseHvccArrays_three (vps sps pps : Bytes)
    (hv : vps.length < 65536) (hs : sps.length < 65536) (hp : pps.length < 65536) :
    parseHvccArrays 3 (hevcArray 32 vps ++ hevcArray 33 sps ++ hevcArray 34 pps) =
      some [(32, [vps]), (33, [sps]), (34, [pps])] := by
  have h1 := parseSets_one vps (hevcArray 33 sps ++ hevcArray 34 pps) hv
  have h2 := parseSets_one sps (hevcArray 34 pps) hs
  have h3 := parseSets_one pps [] hp
  have e1 : u16 (b8 (1 / 256)) (b8 1) = 1 := by decide
  have t1 : ((32 : UInt8) &&& 0x3F).toNat = 32 := by decide
  have t2 : ((33 : UInt8) &&& 0x3F).toNat = 33 := by decide
  have t3 : ((34 : UInt8) &&& 0x3F).toNat = 34 := by decide
  simp only [List.append_nil] at h3
  simp only [hevcArray, be16_eq, List.cons_append, List.nil_append, List.append_assoc, parseHvccArrays, e1] at h1 h2 h3 ⊢
  simp only [h1, h2, h3, t1, t2, t3, e1, parseHvccArrays]

theorem u8_reserved_bits : ∀ x : UInt8,
    (x ||| 0xfc) &&& 0xFC = 0xFC ∧ (x ||| 0xf8) &&& 0xF8 = 0xF8 ∧ ((x ||| 3) &&& 3).toNat + 1 = 4 := by
  apply forall_u8
  set_option maxRecDepth 8192 in decide

set_option maxRecDepth 8192 in
/-- a record whose NAL length field is 4 bytes (`LengthSizeMinusOne = 3`, always the case for
    `NewHEVCDecoderConfigurationRecord`) parses, with the three parameter-set arrays in place -/
theorem parseHvcc_hevcRecord (r : HevcRecord) (vps sps pps : Bytes) (hl : r.lengthSizeMinusOne = 3)
    (hv : vps.length < 65536) (hs : sps.length < 65536) (hp : pps.length < 65536) :
    ∃ h, parseHvcc (hevcRecordBytes r vps sps pps) = some h ∧ h.lengthSize = 4 ∧
      h.arrays = [(32, [vps]), (33, [sps]), (34, [pps])] ∧
      h.profileSpace = (((r.space <<< 6) ||| (r.tier <<< 5) ||| r.idc) >>> 6).toNat ∧
      h.tier = ((((r.space <<< 6) ||| (r.tier <<< 5) ||| r.idc) >>> 5) &&& 1).toNat ∧
      h.profileIdc = (((r.space <<< 6) ||| (r.tier <<< 5) ||| r.idc) &&& 0x1F).toNat ∧
      h.compat = r.compat.toNat ∧ h.level = r.level.toNat ∧
      (r.constraint.toNat < 281474976710656 → h.constraint = r.constraint.toNat) := by
  have ha := parseHvccArrays_three vps sps pps hv hs hp
  rw [List.append_assoc] at ha
  obtain ⟨c1, _, _⟩ := u8_reserved_bits r.chroma
  obtain ⟨_, c2, _⟩ := u8_reserved_bits r.lumaM8
  obtain ⟨_, c3, _⟩ := u8_reserved_bits r.chromaM8
  obtain ⟨_, _, c4⟩ := u8_reserved_bits ((r.maxSubLayers <<< 3) ||| (r.nesting <<< 2))
  have k1 : (0xf0 : UInt8) &&& 0xF0 = 0xF0 := by decide
  have k2 : (0xfc : UInt8) &&& 0xFC = 0xFC := by decide
  have k3 : (3 : UInt8).toNat = 3 := by decide
  have ec := u32_be r.compat.toNat
  have hclt := r.compat.toNat_lt
  simp only [hevcRecordBytes, be32_eq, be16_eq, hl, List.cons_append, List.nil_append, List.append_assoc, parseHvcc]
  simp only [k1, k2, k3, c1, c2, c3, c4, ha, ec, ne_eq, not_true_eq_false, if_false]
  refine ⟨_, rfl, ?_⟩
  refine ⟨?_, rfl, rfl, rfl, rfl, ?_, rfl, ?_⟩
  · simpa using c4
  · simp only []; omega
  · intro hcon
    have hsh : (r.constraint >>> 16).toNat = r.constraint.toNat / 65536 := by
      simp [UInt64.toNat_shiftRight, Nat.shiftRight_eq_div_pow]
    simp only [u16, u32, b8_toNat, hsh]
    omega

/-! ### AUDIODATA -/

theorem parseAudioBody_aac (rate size type pt : UInt8) (body : Bytes)
    (hr : rate < 4) (hs : size < 2) (ht : type < 2) :
    parseAudioBody (audioDataBytes soundFormatAAC rate size type pt body) =
      some { format := 10, rate := rate.toNat, size := size.toNat, type := type.toNat,
             packetType := pt.toNat, body := body } := by
  have key : ∀ r : Fin 4, ∀ s : Fin 2, ∀ t : Fin 2,
      let b0 : UInt8 := (soundFormatAAC <<< 4) ||| ((UInt8.ofNat r.val &&& 3) <<< 2) |||
        ((UInt8.ofNat s.val &&& 1) <<< 1) ||| (UInt8.ofNat t.val &&& 1)
      (b0 >>> 4).toNat = 10 ∧ ((b0 >>> 2) &&& 3).toNat = r.val ∧ ((b0 >>> 1) &&& 1).toNat = s.val ∧
        (b0 &&& 1).toNat = t.val := by decide
  have hr' : rate.toNat < 4 := hr
  have hs' : size.toNat < 2 := hs
  have ht' : type.toNat < 2 := ht
  have := key ⟨rate.toNat, hr'⟩ ⟨size.toNat, hs'⟩ ⟨type.toNat, ht'⟩
  simp only [UInt8.ofNat_toNat] at this
  obtain ⟨h1, h2, h3, h4⟩ := this
  simp only [audioDataBytes, if_true, parseAudioBody, h1, h2, h3, h4]

/-! ### AMF0 / SCRIPTDATA -/

/-- the specification's value for a model value -/
def convAmf : AmfVal → Amf
  | .num b => .number b.toNat
  | .bool b => .boolean b
  | .str s => .string s

/-- representable: a string whose length fits the 32-bit length field -/
def AmfVal.ok : AmfVal → Bool
  | .str s => decide (s.length < 4294967296)
  | _ => true

theorem parseAmfValue_write (v : AmfVal) (rest : Bytes) (h : AmfVal.ok v = true) :
    parseAmfValue (amfWriteAny v ++ rest) = some (convAmf v, rest) := by
  cases v with
  | num b =>
    have hb := b.toNat_lt
    have e1 := u32_be (b.toNat / 4294967296)
    have e2 := u32_be b.toNat
    have : b.toNat / 4294967296 % 4294967296 * 4294967296 + b.toNat % 4294967296 = b.toNat := by omega
    simp [amfWriteAny, be64, be32_eq, parseAmfValue, e1, e2, convAmf, this]
  | bool b =>
    cases b <;> simp [amfWriteAny, parseAmfValue, convAmf]
  | str s =>
    have hs : s.length < 4294967296 := by simpa [AmfVal.ok] using h
    by_cases hlong : s.length > 65535
    · have e := u32_be s.length
      simp [amfWriteAny, hlong, be32_eq, parseAmfValue, e, Nat.mod_eq_of_lt hs, convAmf]
    · have hlt : s.length < 65536 := by omega
      have e := u16_be s.length
      simp [amfWriteAny, hlong, amfUtf8, be16_eq, parseAmfValue, e, Nat.mod_eq_of_lt hlt, convAmf]

def convProp (p : Bytes × AmfVal) : Bytes × Amf := (p.1, convAmf p.2)

/-- a property the writer can represent and the reader can tell from the end marker: a non-empty
    name shorter than 2^16 bytes, a representable value -/
def propOk (p : Bytes × AmfVal) : Bool :=
  decide (0 < p.1.length) && decide (p.1.length < 65536) && AmfVal.ok p.2

theorem parseAmfProps_write (props : List (Bytes × AmfVal)) :
    ∀ (fuel : Nat) (rest : Bytes), (∀ p ∈ props, propOk p = true) → props.length < fuel →
      parseAmfProps fuel (amfProps props ++ [0x00, 0x00, 0x09] ++ rest) = some (props.map convProp, rest) := by
  induction props with
  | nil =>
    intro fuel rest _ hf
    cases fuel with
    | zero => omega
    | succ n =>
      have z : u16 0 0 = 0 := by decide
      simp [amfProps, parseAmfProps, z]
  | cons p ps ih =>
    intro fuel rest hok hf
    cases fuel with
    | zero => simp at hf
    | succ n =>
      obtain ⟨nm, v⟩ := p
      have hp := hok (nm, v) (by simp)
      have hps : ∀ q ∈ ps, propOk q = true := fun q hq => hok q (by simp [hq])
      have hl : ps.length < n := by simp at hf; omega
      simp only [propOk, Bool.and_eq_true, decide_eq_true_eq] at hp
      obtain ⟨⟨h0, h1⟩, hv⟩ := hp
      have e := u16_be nm.length
      have hne : nm.length % 65536 ≠ 0 := by
        omega
      have hv' := parseAmfValue_write v (amfProps ps ++ [0x00, 0x00, 0x09] ++ rest) hv
      simp only [amfProps, amfUtf8, be16_eq, List.cons_append, List.nil_append, List.append_assoc, parseAmfProps, e, hne, if_false]
      have hlen : ¬ ((nm ++ (amfWriteAny v ++ (amfProps ps ++ (0 :: 0 :: 9 :: rest)))).length < nm.length % 65536) := by
        simp only [List.length_append]; omega
      have hm : nm.length % 65536 = nm.length := Nat.mod_eq_of_lt h1
      simp only [List.cons_append, List.nil_append, List.append_assoc] at hv' 
      have ih' := ih n rest hps hl
      simp only [List.cons_append, List.nil_append, List.append_assoc] at ih'
      simp only [hlen, if_false, hm, List.drop_left, List.take_left, hv', ih']
      simp [convProp]

theorem amfProps_length_ge (props : List (Bytes × AmfVal)) : props.length ≤ (amfProps props).length := by
  induction props with
  | nil => simp [amfProps]
  | cons p ps ih =>
    obtain ⟨nm, v⟩ := p
    simp only [amfProps, amfUtf8, List.length_append, List.length_cons, be16_length]
    omega

theorem parseScript_scriptData (name : Bytes) (props : List (Bytes × AmfVal))
    (hn : name.length < 65536) (hl : props.length < 4294967296) (hok : ∀ p ∈ props, propOk p = true) :
    parseScript (scriptDataBytes name props) =
      some { name := name, count := props.length, props := props.map convProp } := by
  have e := u16_be name.length
  have ec := u32_be props.length
  have hm : name.length % 65536 = name.length := Nat.mod_eq_of_lt hn
  have hc : props.length % 4294967296 = props.length := Nat.mod_eq_of_lt hl
  have hp := parseAmfProps_write props ((amfProps props ++ [0x00, 0x00, 0x09]).length + 1) [] hok
    (by have := amfProps_length_ge props; simp only [List.length_append]; omega)
  simp only [List.append_nil] at hp
  simp only [scriptDataBytes, amfUtf8, amfWriteEcma, be16_eq, be32_eq, List.cons_append, List.nil_append,
    List.append_assoc, parseScript, e, hm]
  have hlen : ¬ ((name ++ (8 :: b8 (props.length / 16777216) :: b8 (props.length / 65536) :: b8 (props.length / 256) ::
      b8 props.length :: (amfProps props ++ [0, 0, 9]))).length < name.length) := by
    simp only [List.length_append]; omega
  simp only [hlen, if_false, List.drop_left, List.take_left, ec, hc, hp]

end IpcHub.FlvLemmas
