/-
H.265 SPS: the whole decode on the bytes of the specification's encoder.
-/
import IpcHub.Lemmas.HevcBody
import IpcHub.Lemmas.HevcRps
namespace IpcHub.Hevc
open IpcHub.Bits IpcHub.BitSyntax IpcHub.HevcSyntax IpcHub.Epb

/-- value ranges for the second part of the SPS; `rps`: every short-term reference picture set — explicitly coded
    or predicted from its predecessor — is well-formed relative to the 7.4.8 arrays of the predecessor -/
structure BodyWF (s : SpsSyn) : Prop where
  msl : s.ptl.sub_layers.length ≤ 6
  bdl : s.bit_depth_luma_minus8 < 256                       -- 0 … 8
  bdc : s.bit_depth_chroma_minus8 < 256
  lsb : s.log2_max_pic_order_cnt_lsb_minus4 ≤ 12
  ordLen : s.ordering.length = (if s.sps_sub_layer_ordering_info_present_flag then s.ptl.sub_layers.length + 1 else 1)
  ord : wfOrdering s.ordering = true
  minCb : s.log2_min_luma_coding_block_size_minus3 < 13     -- MinCbLog2SizeY ≤ 6
  diffCb : s.log2_diff_max_min_luma_coding_block_size < 256
  minTb : s.log2_min_luma_transform_block_size_minus2 < 256
  diffTb : s.log2_diff_max_min_luma_transform_block_size < 256
  thInter : s.max_transform_hierarchy_depth_inter < 256
  thIntra : s.max_transform_hierarchy_depth_intra < 256
  /-- 7.4.3.2.1: pic_width/height_in_luma_samples are multiples of MinCbSizeY -/
  alignW : s.pic_width_in_luma_samples % 2 ^ (s.log2_min_luma_coding_block_size_minus3 + 3) = 0
  alignH : s.pic_height_in_luma_samples % 2 ^ (s.log2_min_luma_coding_block_size_minus3 + 3) = 0
  sl : s.scaling_list_enabled_flag = true → s.sps_scaling_list_data_present_flag = true → ScalingWF s.scaling_list
  pcm1 : s.pcm_sample_bit_depth_luma_minus1 < 16
  pcm2 : s.pcm_sample_bit_depth_chroma_minus1 < 16
  pcm3 : s.log2_min_pcm_luma_coding_block_size_minus3 < 256
  pcm4 : s.log2_diff_max_min_pcm_luma_coding_block_size < 256
  nrps : s.st_ref_pic_sets.length < 256                     -- 0 … 64
  rps : SetsWF 0 {} s.st_ref_pic_sets
  lt : s.long_term_ref_pics_present_flag = true → s.long_term.length ≤ 32 ∧
        wfLongTerm (s.log2_max_pic_order_cnt_lsb_minus4 + 4) s.long_term = true
  vui : s.vui_parameters_present_flag = true → VuiWF s.vui s.ptl.sub_layers.length
  e5 : s.sps_extension_4bits < 16

/-- the decoded body for the syntax tree `s`, given what the scaling list block and the RPS loop returned -/
def bodyOf (s : SpsSyn) (sc : Nat × Nat × List (List ScalingEntry)) (rps : List StRps) : SpsBody :=
  { bitDepthLumaMinus8 := s.bit_depth_luma_minus8, bitDepthChromaMinus8 := s.bit_depth_chroma_minus8,
    log2MaxPicOrderCntLsbMinus4 := s.log2_max_pic_order_cnt_lsb_minus4,
    spsSubLayerOrderingInfoPresentFlag := s.sps_sub_layer_ordering_info_present_flag.toNat, ordering := orderingOf s,
    log2MinLumaCodingBlockSizeMinus3 := s.log2_min_luma_coding_block_size_minus3,
    log2DiffMaxMinLumaCodingBlockSize := s.log2_diff_max_min_luma_coding_block_size,
    log2MinLumaTransformBlockSizeMinus2 := s.log2_min_luma_transform_block_size_minus2,
    log2DiffMaxMinLumaTransformBlockSize := s.log2_diff_max_min_luma_transform_block_size,
    maxTransformHierarchyDepthInter := s.max_transform_hierarchy_depth_inter,
    maxTransformHierarchyDepthIntra := s.max_transform_hierarchy_depth_intra,
    scalingListEnabledFlag := sc.1, spsScalingListDataPresentFlag := sc.2.1, scalingList := sc.2.2,
    ampEnabledFlag := s.amp_enabled_flag.toNat, sampleAdaptiveOffsetEnabledFlag := s.sample_adaptive_offset_enabled_flag.toNat,
    pcmEnabledFlag := s.pcm_enabled_flag.toNat,
    pcmSampleBitDepthLumaMinus1 := if s.pcm_enabled_flag then s.pcm_sample_bit_depth_luma_minus1 else 0,
    pcmSampleBitDepthChromaMinus1 := if s.pcm_enabled_flag then s.pcm_sample_bit_depth_chroma_minus1 else 0,
    log2MinPcmLumaCodingBlockSizeMinus3 := if s.pcm_enabled_flag then s.log2_min_pcm_luma_coding_block_size_minus3 else 0,
    log2DiffMaxMinPcmLumaCodingBlockSize := if s.pcm_enabled_flag then s.log2_diff_max_min_pcm_luma_coding_block_size else 0,
    pcmLoopFilterDisabledFlag := if s.pcm_enabled_flag then s.pcm_loop_filter_disabled_flag.toNat else 0,
    numShortTermRefPicSets := s.st_ref_pic_sets.length, stRefPicSets := rps.reverse,
    longTermRefPicsPresentFlag := s.long_term_ref_pics_present_flag.toNat,
    numLongTermRefPicsSps := if s.long_term_ref_pics_present_flag then s.long_term.length else 0,
    longTerm := if s.long_term_ref_pics_present_flag then s.long_term.map (fun (v, u') => (v, u'.toNat)) else [],
    spsTemporalMvpEnabledFlag := s.sps_temporal_mvp_enabled_flag.toNat,
    strongIntraSmoothingEnabledFlag := s.strong_intra_smoothing_enabled_flag.toNat,
    vuiParametersPresentFlag := s.vui_parameters_present_flag.toNat,
    vui := if s.vui_parameters_present_flag then vuiOf s.vui else vuiDefault,
    spsExtensionPresentFlag := s.sps_extension_present_flag.toNat,
    spsRangeExtensionFlag := if s.sps_extension_present_flag then s.sps_range_extension_flag.toNat else 0,
    spsMultilayerExtensionFlag := if s.sps_extension_present_flag then s.sps_multilayer_extension_flag.toNat else 0,
    sps3dExtensionFlag := if s.sps_extension_present_flag then s.sps_3d_extension_flag.toNat else 0,
    spsSccExtensionFlag := if s.sps_extension_present_flag then s.sps_scc_extension_flag.toNat else 0,
    spsExtension4bits := if s.sps_extension_present_flag then s.sps_extension_4bits else 0 }

theorem spsBody_enc (cfg : Cfg) (ok : CfgOK cfg) (s : SpsSyn) (q : Ptl) (wf : BodyWF s) (r : List Bool) :
    ∃ sc rps, spsBody cfg (headOf s q) (encSpsBody s ++ r) = .ok (bodyOf s sc rps, r) := by
  obtain ⟨sc, hsc⟩ := bodyScaling_enc cfg ok s (flag s.amp_enabled_flag ++ (flag s.sample_adaptive_offset_enabled_flag ++
    (encPcm s ++ (ue s.st_ref_pic_sets.length ++ (encStRpsList 0 s.st_ref_pic_sets ++ (encLongTermPart s ++
    (flag s.sps_temporal_mvp_enabled_flag ++ (flag s.strong_intra_smoothing_enabled_flag ++ (encVuiPart s ++ (encExt s ++ r)))))))))) wf.sl
  obtain ⟨rps, hrps⟩ := stRpsLoop_enc cfg ok s.st_ref_pic_sets 0 [] {} (encLongTermPart s ++
    (flag s.sps_temporal_mvp_enabled_flag ++ (flag s.strong_intra_smoothing_enabled_flag ++ (encVuiPart s ++ (encExt s ++ r))))) wf.rps
    (fun h => absurd rfl h)
  have hmsl : (headOf s q).spsMaxSubLayersMinus1 = s.ptl.sub_layers.length := rfl
  refine ⟨sc, rps, ?_⟩
  simp only [spsBody, encSpsBody, List.append_assoc, bind_apply, hmsl, readUe8_ue _ _ wf.bdl, readUe8_ue _ _ wf.bdc,
    readUe8_ue _ _ (show s.log2_max_pic_order_cnt_lsb_minus4 < 256 by have := wf.lsb; omega),
    bodyOrdering_enc cfg ok s _ wf.ordLen wf.ord wf.msl,
    bodyCoding_enc s q _ wf.minCb wf.diffCb wf.minTb wf.diffTb wf.thInter wf.thIntra wf.alignW wf.alignH,
    hsc, readBit_flag, bodyPcm_enc s _ wf.pcm1 wf.pcm2 wf.pcm3 wf.pcm4, readUe8_ue _ _ wf.nrps, hrps,
    bodyLongTerm_enc cfg ok s _ wf.lsb wf.lt, bodyVui_enc cfg ok s _ wf.msl wf.vui, bodyExt_enc s _ wf.e5, pure_apply, bodyOf]

/-- the two NAL header bytes -/
theorem pack_nalHeader (t l tid : Nat) (ht : t = 32 ∨ t = 33) (htid : 1 ≤ tid ∧ tid < 8) :
    ∃ b0 b1, pack (nalHeaderBits t l tid) = [b0, b1] ∧ b0 ≠ 0 ∧ b1 ≠ 0 := by
  have h7 : tid = 1 ∨ tid = 2 ∨ tid = 3 ∨ tid = 4 ∨ tid = 5 ∨ tid = 6 ∨ tid = 7 := by omega
  rcases ht with ht | ht <;> subst ht <;> rcases h7 with h | h | h | h | h | h | h <;> subst h <;>
    simp only [nalHeaderBits, flag, u, List.nil_append, List.cons_append, List.append_assoc, pack] <;>
    refine ⟨_, _, rfl, ?_, ?_⟩ <;>
    (generalize (l / 2 / 2 / 2 / 2 / 2 % 2 == 1) = a5; generalize (l / 2 / 2 / 2 / 2 % 2 == 1) = a4
     generalize (l / 2 / 2 / 2 % 2 == 1) = a3; generalize (l / 2 / 2 % 2 == 1) = a2
     generalize (l / 2 % 2 == 1) = a1; generalize (l % 2 == 1) = a0
     revert a0 a1 a2 a3 a4 a5; decide)


theorem bitsOfBytes_append (a b : List UInt8) : bitsOfBytes (a ++ b) = bitsOfBytes a ++ bitsOfBytes b := by
  induction a with
  | nil => rfl
  | cons x rest ih => simp [bitsOfBytes, ih]

theorem length_nalHeaderBits (t l tid : Nat) : (nalHeaderBits t l tid).length = 16 := by
  simp [nalHeaderBits, flag]

/-- header bytes + emulation-protected RBSP come back as header bytes + RBSP -/
theorem removeEmulationBytes_nal2 (b0 b1 : UInt8) (rbsp : List UInt8) (h0 : b0 ≠ 0) (h1 : b1 ≠ 0) :
    removeEmulationBytes ([b0, b1] ++ insertEpb rbsp) = [b0, b1] ++ rbsp := by
  rw [removeEmulationBytes_eq]
  simp only [List.cons_append, List.nil_append]
  rw [removeNaluSeparator_cons b0 _ h0, strip_cons b0 _ (fun _ h => absurd h h0),
    strip_cons b1 _ (fun _ h => absurd h h1), strip_insertEpb]

/-- what the theorem states about the decoded SPS: the fields of the first part, and the VUI -/
def Agrees (raw : RawSps) (s : SpsSyn) : Prop :=
  (∃ q, raw.head = headOf s q) ∧
  raw.body.vui = (if s.vui_parameters_present_flag then vuiOf s.vui else vuiDefault) ∧
  raw.body.numShortTermRefPicSets = s.st_ref_pic_sets.length ∧
  raw.body.log2MaxPicOrderCntLsbMinus4 = s.log2_max_pic_order_cnt_lsb_minus4

theorem decodeSps_enc (cfg : Cfg) (ok : CfgOK cfg) (s : SpsSyn) (hw : HeadWF s) (bw : BodyWF s)
    (htid : 1 ≤ s.nuh_temporal_id_plus1) :
    ∃ raw, decodeSps cfg (encSpsNal s) = .ok raw ∧ Agrees raw s := by
  obtain ⟨b0, b1, hpack, h0, h1⟩ := pack_nalHeader 33 s.nuh_layer_id s.nuh_temporal_id_plus1 (Or.inr rfl) ⟨htid, hw.tid⟩
  obtain ⟨q, hhead⟩ := spsHead_enc cfg ok s hw (encSpsBody s ++ trailing (encSpsData s).length)
  obtain ⟨sc, rps, hbody⟩ := spsBody_enc cfg ok s q bw (trailing (encSpsData s).length)
  refine ⟨{ head := headOf s q, body := bodyOf s sc rps }, ?_, ⟨q, rfl⟩, rfl, rfl, rfl⟩
  unfold decodeSps encSpsNal
  rw [hpack, removeEmulationBytes_nal2 b0 b1 _ h0 h1]
  have h16 : 8 * 2 ≤ (encSpsRbsp s).length := by
    simp only [encSpsRbsp, encSpsData, encSpsHead, encPtl, flag, List.length_append, length_u, length_encProfile,
      List.length_cons, List.length_nil]
    omega
  have hlen : ¬ (([b0, b1] ++ pack (encSpsRbsp s)).length < 4) := by
    have := length_pack_ge _ 2 h16
    simp only [List.length_append, List.length_cons, List.length_nil]; omega
  simp only [hlen, if_false]
  rw [← hpack, bitsOfBytes_append, bitsOfBytes_pack _ (by rw [length_nalHeaderBits]),
    bitsOfBytes_pack _ (by unfold encSpsRbsp; exact length_trailing_aligned _)]
  have hh : spsBits cfg (nalHeaderBits 33 s.nuh_layer_id s.nuh_temporal_id_plus1 ++ encSpsRbsp s)
      = .ok ({ head := headOf s q, body := bodyOf s sc rps }, trailing (encSpsData s).length) := by
    simp only [encSpsRbsp, encSpsData, List.append_assoc] at hhead hbody ⊢
    simp only [spsBits, bind_apply, hhead, hbody, pure_apply]
  rw [hh]

/-- Width/Height/FrameRate/IsFixedFrameRate of a decoded SPS that agrees with `s` are the standard's values -/
theorem dims_of_agrees (raw : RawSps) (s : SpsSyn) (h : Agrees raw s) :
    dimsOf raw = { width := croppedWidth s, height := croppedHeight s, fixed := fixedFrameRate s,
                   fps := HevcSyntax.frameRate s } := by
  obtain ⟨⟨q, hq⟩, hv, _, _⟩ := h
  have ht := vuiOf_timing s.vui
  have hd : vuiDefault.vuiNumUnitsInTick = 0 ∧ vuiDefault.vuiTimeScale = 0 := ⟨rfl, rfl⟩
  simp only [dimsOf, hq, width_headOf, height_headOf, isFixedFrameRate, frameRate, hv, fixedFrameRate, HevcSyntax.frameRate]
  by_cases hvp : s.vui_parameters_present_flag = true <;> by_cases hti : s.vui.vui_timing_info_present_flag = true <;>
    by_cases hn : s.vui.vui_num_units_in_tick = 0 <;> by_cases hts : s.vui.vui_time_scale = 0 <;>
    simp [hvp, hti, hn, hts, ht.1, ht.2, hd.1, hd.2]

end IpcHub.Hevc
