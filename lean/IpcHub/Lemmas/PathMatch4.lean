/-
C16 helper lemmas, part 4: Go's character functions (Model/GoUnicode.lean) versus the
specification's tables (Spec/PatternDoc.lean), and the fact that the documented language looks at
`lower` only on the characters of its inputs — together: on strings over the covered class the
specification may be read with the Unicode tables instead of Go's functions.
-/
import IpcHub.Lemmas.PathMatch3
import IpcHub.Model.GoUnicode
namespace IpcHub.PathMatch
open IpcHub.PatternDoc

/-! ### blanks: `unicode.IsSpace` is exactly White_Space, for every character -/

theorem isSpaceRune_eq (n : Nat) : GoUnicode.isSpaceRune n = whiteSpace.contains n := by
  unfold GoUnicode.isSpaceRune whiteSpace
  by_cases h : n ≤ 0xFF
  · simp only [h, if_true]
    rw [Bool.eq_iff_iff]
    simp
    omega
  · simp only [h, if_false]
    rw [Bool.eq_iff_iff]
    simp
    omega

theorem goSpace_eq_uSpace : GoUnicode.isSpace = uSpace := by
  funext c; exact isSpaceRune_eq c.toNat

/-! ### case: `unicode.ToLower` is the simple lowercase mapping on the covered class -/

/-- the covered class as a list of code points -/
def coveredList : List Nat :=
  List.range 128 ++ whiteSpace ++ lowerPairs.map (·.1) ++ caselessExtras

theorem coveredRune_mem (n : Nat) (h : coveredRune n = true) : n ∈ coveredList := by
  unfold coveredRune at h
  unfold coveredList
  simp only [Bool.or_eq_true, decide_eq_true_eq, List.contains_iff_mem] at h
  simp only [List.mem_append, List.mem_range]
  rcases h with ((h | h) | h) | h
  · exact Or.inl (Or.inl (Or.inl h))
  · exact Or.inl (Or.inl (Or.inr h))
  · exact Or.inl (Or.inr h)
  · exact Or.inr h

theorem lookup_none_of_lt (l : List (Nat × Nat)) (n k : Nat) (h : ∀ p ∈ l, k ≤ p.1) (hn : n < k) :
    l.lookup n = none := by
  induction l with
  | nil => rfl
  | cons p ps ih =>
    obtain ⟨a, b⟩ := p
    have ha : k ≤ a := h (a, b) (by simp)
    have hne : (n == a) = false := by simp; omega
    simp only [List.lookup, hne]
    exact ih (fun q hq => h q (by simp [hq]))

theorem toLowerRune_eq_ascii : ∀ n ∈ List.range 128, GoUnicode.toLowerRune n = lowerRune n := by
  intro n hn
  have hn : n < 128 := by simpa using hn
  have hl : lowerPairs.lookup n = none :=
    lookup_none_of_lt lowerPairs n 0xC0 (by decide) (by omega)
  have h7 : n ≤ 0x7F := by omega
  simp only [GoUnicode.toLowerRune, lowerRune, h7, if_true, hl]

theorem toLowerRune_eq_extra :
    ∀ n ∈ whiteSpace ++ lowerPairs.map (·.1) ++ caselessExtras, GoUnicode.toLowerRune n = lowerRune n := by
  decide +kernel

theorem toLowerRune_eq_on_list : ∀ n ∈ coveredList, GoUnicode.toLowerRune n = lowerRune n := by
  intro n hn
  unfold coveredList at hn
  simp only [List.append_assoc, List.mem_append] at hn
  rcases hn with hn | hn
  · exact toLowerRune_eq_ascii n hn
  · exact toLowerRune_eq_extra n (by simp only [List.append_assoc, List.mem_append]; exact hn)

theorem goLower_eq_uLower (c : Char) (h : covered c = true) : GoUnicode.toLower c = uLower c := by
  unfold GoUnicode.toLower uLower
  rw [toLowerRune_eq_on_list _ (coveredRune_mem _ h)]

/-! ### the language reads `lower` only on the characters of the right and the path -/

theorem mem_strip {p : Char → Bool} {s : List Char} {c : Char} (h : c ∈ strip p s) : c ∈ s := by
  unfold strip at h
  rw [List.mem_reverse] at h
  have h1 := List.dropWhile_subset p h
  rw [List.mem_reverse] at h1
  exact List.dropWhile_subset p h1

theorem mem_of_mem_splitOn {d : Char} {s x : List Char} {c : Char}
    (hx : x ∈ s.splitOn d) (hc : c ∈ x) : c ∈ s := by
  rw [← splitOn_eq_core] at hx
  induction s generalizing x with
  | nil =>
    simp [splitOn] at hx
    subst hx; simp at hc
  | cons a as ih =>
    simp only [splitOn] at hx
    by_cases h : a = d
    · simp only [h, if_true, List.mem_cons] at hx
      rcases hx with hx | hx
      · subst hx; simp at hc
      · exact List.mem_cons_of_mem _ (ih hx hc)
    · simp only [h, if_false] at hx
      cases hs : splitOn d as with
      | nil => exact absurd hs (splitOn_ne_nil d as)
      | cons y ys =>
        rw [hs] at hx ih
        simp only [List.mem_cons] at hx
        rcases hx with hx | hx
        · subst hx
          simp only [List.mem_cons] at hc
          rcases hc with hc | hc
          · simp [hc]
          · exact List.mem_cons_of_mem _ (ih (by simp) hc)
        · exact List.mem_cons_of_mem _ (ih (by simp [hx]) hc)

theorem segments_congr (l1 l2 : Char → Char) (s : List Char) (h : ∀ c ∈ s, l1 c = l2 c) :
    segments l1 s = segments l2 s := by
  unfold segments
  congr 1
  apply List.map_congr_left
  intro c hc
  exact h c (mem_strip hc)

theorem patMatch_congr (l1 l2 : Char → Char) (pat path : List Char)
    (hp : ∀ c ∈ pat, l1 c = l2 c) (hq : ∀ c ∈ path, l1 c = l2 c) :
    PatternDoc.patMatch l1 pat path = PatternDoc.patMatch l2 pat path := by
  unfold PatternDoc.patMatch
  rw [segments_congr l1 l2 pat hp, segments_congr l1 l2 path hq]

theorem mem_of_mem_patterns {blank : Char → Bool} {r pat : List Char} {c : Char}
    (hp : pat ∈ PatternDoc.patterns blank r) (hc : c ∈ pat) : c ∈ r := by
  unfold PatternDoc.patterns at hp
  simp only [List.mem_filter, List.mem_map] at hp
  obtain ⟨⟨x, hx, rfl⟩, _⟩ := hp
  exact mem_of_mem_splitOn hx (mem_strip hc)

/-- two case mappings that agree on the characters of the right string, of the path and on `*`
    give the same decision -/
theorem permits_congr_lower (l1 l2 : Char → Char) (blank : Char → Bool)
    (right : List Char) (admin : Bool) (path : List Char)
    (hstar : l1 '*' = l2 '*') (hr : ∀ c ∈ right, l1 c = l2 c) (hq : ∀ c ∈ path, l1 c = l2 c) :
    permits l1 blank right admin path = permits l2 blank right admin path := by
  unfold permits
  apply any_congr_mem
  intro pat hp
  apply patMatch_congr
  · intro c hc
    have hm := mem_of_mem_patterns hp hc
    by_cases ha : (admin && right == []) = true
    · simp only [ha, if_true, List.mem_singleton] at hm
      rw [hm]; exact hstar
    · simp only [ha] at hm
      exact hr c hm
  · intro c hc
    exact hq c (mem_strip hc)

end IpcHub.PathMatch
