/-
Lemmas for C09: the reference demultiplexer (`Spec/TsDemux.lean`) inverts the writer model
(`Model/Ts.lean`) packet by packet.
-/
import IpcHub.Model.Ts
import IpcHub.Spec.TsDemux
namespace IpcHub.TsLemmas
open IpcHub.Ts IpcHub.TsSpec

@[simp] theorem bN_toNat (n : Nat) : (bN n).toNat = n % 256 := by
  simp [bN]
@[simp] theorem bI_toNat (v : Int) : (bI v).toNat = (v % 256).toNat := by
  simp only [bI, UInt8.toNat_ofNat']; omega

theorem writePts_length (fb : Nat) (ts : Int) : (writePts fb ts).length = 5 := by simp [writePts]
theorem writePcr_length (v : Int) : (writePcr v).length = 6 := by simp [writePcr]

/-- 33-bit time stamps survive `writePts` / `parseTs` -/
theorem parseTs_writePts (fb : Nat) (ts : Int) (hfb : fb < 16) (h0 : 0 ≤ ts) (h1 : ts < 2^33) :
    parseTs fb (writePts fb ts) = some ts.toNat := by
  obtain ⟨n, rfl⟩ := Int.eq_ofNat_of_zero_le h0
  have hn : n < 2^33 := by omega
  simp only [writePts, parseTs]
  have e1 : ((n : Int) / 2^30 % 8).toNat = n / 2^30 % 8 := by omega
  have e2 : ((n : Int) / 2^15 % 2^15).toNat = n / 2^15 % 2^15 := by omega
  have e3 : ((n : Int) % 2^15).toNat = n % 2^15 := by omega
  simp only [e1, e2, e3, bN_toNat, Int.toNat_natCast]
  have a1 : (fb * 16 + n / 2^30 % 8 * 2 + 1) % 256 / 16 = fb := by omega
  have a2 : (fb * 16 + n / 2^30 % 8 * 2 + 1) % 256 % 2 = 1 := by omega
  have a3 : (n / 2^15 % 2^15 * 2 + 1) % 256 % 2 = 1 := by omega
  have a4 : (n % 2^15 * 2 + 1) % 256 % 2 = 1 := by omega
  simp only [a1, a2, a3, a4]
  simp
  omega

/-- the adaptation field with PCR: flags 0x50, the 33-bit base survives; whatever follows the
    six PCR bytes (stuffing, stale bytes) is ignored -/
theorem parseAdapt_pcr (l : Nat) (dts : Int) (tail : List UInt8) (hl : 7 ≤ l)
    (h0 : 0 ≤ dts) (h1 : dts < 2^33) :
    parseAdapt l (bN 0x50 :: (writePcr dts ++ tail)) = some { len := l, rai := true, pcr := some dts.toNat } := by
  obtain ⟨n, rfl⟩ := Int.eq_ofNat_of_zero_le h0
  have hn : n < 2^33 := by omega
  have hl0 : l ≠ 0 := by omega
  have hl7 : ¬ l < 7 := by omega
  have e5 : ((n : Int) % 2).toNat = n % 2 := by omega
  simp only [writePcr, e5]
  simp [parseAdapt, hl0, hl7]
  omega

theorem parsePacket_noaf (pid cc : Nat) (pusi : Bool) (body : List UInt8)
    (hpid : pid < 8192) (hlen : body.length = 184) :
    parsePacket (tsHead pid cc pusi false ++ body)
      = some { pusi := pusi, pid := pid, cc := cc % 16, af := none, payload := body } := by
  have hl : (tsHead pid cc pusi false ++ body).length = 188 := by simp [tsHead, hlen]
  unfold parsePacket
  rw [if_neg (by omega)]
  simp only [tsHead, List.cons_append, List.nil_append, bN_toNat]
  have h : (16 + cc % 16) % 256 / 16 % 4 = 1 := by omega
  cases pusi <;> simp [h] <;> omega

theorem parsePacket_af (pid cc : Nat) (pusi : Bool) (l : Nat) (afBody payload : List UInt8) (a : AdaptField)
    (hpid : pid < 8192) (hl : l ≤ 182) (h1 : afBody.length = l) (hlen : 1 + l + payload.length = 184)
    (haf : parseAdapt l afBody = some a) :
    parsePacket (tsHead pid cc pusi true ++ bN l :: (afBody ++ payload))
      = some { pusi := pusi, pid := pid, cc := cc % 16, af := some a, payload := payload } := by
  have hl' : (tsHead pid cc pusi true ++ bN l :: (afBody ++ payload)).length = 188 := by
    simp [tsHead]; omega
  unfold parsePacket
  rw [if_neg (by omega)]
  simp only [tsHead, List.cons_append, List.nil_append, bN_toNat]
  have h : (16 + cc % 16 + 32) % 256 / 16 % 4 = 3 := by omega
  have hm : l % 256 = l := by omega
  have ht : List.take l (afBody ++ payload) = afBody := List.take_left' h1
  have hd : List.drop l (afBody ++ payload) = payload := List.drop_left' h1
  cases pusi <;> simp [h, hm, ht, hd, haf] <;> omega

theorem parsePes_pesHeader (c : Cfg) (f : Frame) (data : List UInt8) (first : TsPacket) (rest : List TsPacket)
    (hcat : ((first :: rest).map (·.payload)).flatten = pesHeader c f data.length ++ data)
    (hlim : c.pesLimit = 0xffff) (hsid : f.streamId < 256)
    (hp0 : 0 ≤ f.pts) (hp1 : f.pts < 2^33) (hd0 : 0 ≤ f.dts) (hd1 : f.dts < 2^33) :
    parsePes (first :: rest) = some
      { pid := first.pid, streamId := f.streamId, pts := f.pts.toNat,
        dts := if f.dts = f.pts then none else some f.dts.toNat,
        rai := (first.af.map (·.rai)).getD false, pcr := first.af.bind (·.pcr),
        payload := data } := by
  unfold parsePes
  simp only [hcat]
  by_cases h : f.dts = f.pts
  · have hb : (f.dts != f.pts) = false := by simp [h]
    simp only [pesHeader, hb, hlim, List.cons_append, List.nil_append]
    have t5 : List.take 5 (writePts 2 f.pts ++ data) = writePts 2 f.pts := List.take_left' (writePts_length _ _)
    have d5 : List.drop 5 (writePts 2 f.pts ++ data) = data := List.drop_left' (writePts_length _ _)
    have hp := parseTs_writePts 2 f.pts (by omega) hp0 hp1
    by_cases hs : data.length + 5 + 3 > 65535
    · simp [hs, h, t5, d5, hp, writePts_length]
      omega
    · simp [hs, h, t5, d5, hp, writePts_length]
      omega
  · have hb : (f.dts != f.pts) = true := by simp [h]
    simp only [pesHeader, hb, hlim, List.cons_append, List.nil_append, if_true, List.append_assoc]
    have l10 : (writePts 3 f.pts ++ writePts 1 f.dts).length = 10 := by simp [writePts_length]
    have t10 : List.take 10 (writePts 3 f.pts ++ (writePts 1 f.dts ++ data)) = writePts 3 f.pts ++ writePts 1 f.dts := by
      rw [← List.append_assoc]; exact List.take_left' l10
    have d10 : List.drop 10 (writePts 3 f.pts ++ (writePts 1 f.dts ++ data)) = data := by
      rw [← List.append_assoc]; exact List.drop_left' l10
    have t5 : List.take 5 (writePts 3 f.pts ++ writePts 1 f.dts) = writePts 3 f.pts := List.take_left' (writePts_length _ _)
    have d5 : List.drop 5 (writePts 3 f.pts ++ writePts 1 f.dts) = writePts 1 f.dts := List.drop_left' (writePts_length _ _)
    have hp := parseTs_writePts 3 f.pts (by omega) hp0 hp1
    have hd := parseTs_writePts 1 f.dts (by omega) hd0 hd1
    by_cases hs : data.length + 10 + 3 > 65535
    · simp [hs, h, t10, d10, t5, d5, hp, hd, writePts_length]
      omega
    · simp [hs, h, t10, d10, t5, d5, hp, hd, writePts_length]
      omega

/-- the stuffing-only adaptation field made by fillStuff -/
def stuffBody (stuff : Nat) : List UInt8 := if stuff ≥ 2 then 0 :: List.replicate (stuff - 2) 0xff else []

theorem stuffBody_length (stuff : Nat) (h : 1 ≤ stuff) : (stuffBody stuff).length = stuff - 1 := by
  unfold stuffBody; split <;> simp <;> omega

theorem parseAdapt_stuff (stuff : Nat) (h : 1 ≤ stuff) :
    parseAdapt (stuff - 1) (stuffBody stuff) = some { len := stuff - 1, rai := false, pcr := none } := by
  unfold parseAdapt stuffBody
  by_cases h2 : stuff ≥ 2
  · have : stuff - 1 ≠ 0 := by omega
    simp [h2, this]
  · have : stuff - 1 = 0 := by omega
    simp [this]

theorem contPacket_full (pid cc : Nat) (data : List UInt8) (h : 184 ≤ data.length) :
    contPacket pid cc data = (tsHead pid cc false false ++ data.take 184, data.drop 184) := by
  have : 184 ≤ (data.take 184).length := by simp [List.length_take]; omega
  simp only [contPacket, this, if_true]

theorem contPacket_last (pid cc : Nat) (data : List UInt8) (h : data.length < 184) :
    contPacket pid cc data =
      (tsHead pid cc false true ++ bN (184 - data.length - 1) :: (stuffBody (184 - data.length) ++ data), []) := by
  have h1 : ¬ 184 ≤ data.length := by omega
  have htk : data.take 184 = data := List.take_of_length_le (by omega)
  simp only [contPacket, stuffBody, htk, h1, if_false]

/-- what the reference parser makes of one continuation packet -/
theorem contPacket_parse (pid cc : Nat) (data : List UInt8) (hpid : pid < 8192) (hne : data ≠ []) :
    ∃ af, parsePacket (contPacket pid cc data).1
      = some { pusi := false, pid := pid, cc := cc % 16, af := af, payload := data.take 184 }
    ∧ (contPacket pid cc data).2 = data.drop 184 := by
  have hpos : 0 < data.length := List.length_pos_iff.mpr hne
  by_cases h : 184 ≤ data.length
  · rw [contPacket_full pid cc data h]
    exact ⟨none, parsePacket_noaf pid cc false _ hpid (by simp [List.length_take]; omega), rfl⟩
  · rw [contPacket_last pid cc data (by omega)]
    have htk : data.take 184 = data := List.take_of_length_le (by omega)
    have hdr : data.drop 184 = [] := List.drop_of_length_le (by omega)
    rw [htk, hdr]
    exact ⟨_, parsePacket_af pid cc false (184 - data.length - 1) (stuffBody (184 - data.length)) data _ hpid
      (by omega) (stuffBody_length _ (by omega)) (by omega) (parseAdapt_stuff _ (by omega)), rfl⟩

theorem ccChain_congr (s s' : Nat) (h : s % 16 = s' % 16) (tps : List TsPacket) :
    ccChain s tps = ccChain s' tps := by
  cases tps with
  | nil => rfl
  | cons p ps =>
    have : (s + 1) % 16 = (s' + 1) % 16 := by omega
    simp [ccChain, this]

def ContOk (pid cc : Nat) (data : List UInt8) (tps : List TsPacket) : Prop :=
  (∀ p ∈ tps, p.pusi = false ∧ p.pid = pid) ∧ ccChain cc tps = true
    ∧ (tps.map (·.payload)).flatten = data ∧ tps.length = (data.length + 183) / 184

theorem contPackets_parse (pid : Nat) (hpid : pid < 8192) :
    ∀ (fuel : Nat) (data : List UInt8) (cc : Nat), data.length ≤ fuel →
      ∃ tps, parsePackets (contPackets pid cc fuel data) = some tps ∧ ContOk pid cc data tps := by
  intro fuel
  induction fuel with
  | zero =>
    intro data cc h
    have : data = [] := List.eq_nil_of_length_eq_zero (by omega)
    subst this
    exact ⟨[], by simp [contPackets, parsePackets], by simp [ContOk, ccChain]⟩
  | succ fuel ih =>
    intro data cc h
    by_cases he : data = []
    · subst he
      exact ⟨[], by simp [contPackets, parsePackets], by simp [ContOk, ccChain]⟩
    · have hpos : 0 < data.length := List.length_pos_iff.mpr he
      obtain ⟨af, hp, hr⟩ := contPacket_parse pid (cc + 1) data hpid he
      have hlen : (data.drop 184).length ≤ fuel := by simp [List.length_drop]; omega
      obtain ⟨tps, htps, hall, hcc, hcat, hn⟩ := ih (data.drop 184) (cc + 1) hlen
      refine ⟨{ pusi := false, pid := pid, cc := (cc + 1) % 16, af := af, payload := List.take 184 data } :: tps, ?_, ?_⟩
      rotate_left
      unfold ContOk
      refine ⟨?_, ?_, ?_, ?_⟩
      rotate_left 4
      · have hemp : data.isEmpty = false := by simp [he]
        simp only [contPackets, hemp]
        rw [show contPacket pid (cc + 1) data = ((contPacket pid (cc + 1) data).1, (contPacket pid (cc + 1) data).2) from rfl]
        simp only [hr]
        simp only [parsePackets] at htps ⊢
        simp [List.mapM_cons, hp, htps]
      · intro p hp'
        rcases List.mem_cons.mp hp' with rfl | hm
        · exact ⟨rfl, rfl⟩
        · exact hall p hm
      · simp only [ccChain]
        rw [ccChain_congr ((cc + 1) % 16) (cc + 1) (by omega) tps, hcc]
        simp
      · simp [hcat]
      · simp [hn, List.length_drop]; omega

theorem pesHeader_length (c : Cfg) (f : Frame) (n : Nat) :
    (pesHeader c f n).length = if f.dts = f.pts then 14 else 19 := by
  by_cases h : f.dts = f.pts <;> simp [pesHeader, h, writePts_length]

/-- how many payload bytes fit into the first packet -/
def firstBody (f : Frame) : Nat :=
  184 - (if f.key then 8 else 0) - (if f.dts = f.pts then 14 else 19)

theorem firstPacket_parse (c : Cfg) (f : Frame) (cc : Nat) (data : List UInt8)
    (hlen7 : c.pcrAfLen = 7) (hfl : c.pcrAfFlags = 0x50)
    (hpid : f.pid < 8192) (hne : data ≠ []) (hd0 : 0 ≤ f.dts) (hd1 : f.dts < 2^33) :
    ∃ af, parsePacket (firstPacket c f cc data).1
        = some { pusi := true, pid := f.pid, cc := cc % 16, af := af,
                 payload := pesHeader c f data.length ++ data.take (firstBody f) }
      ∧ (firstPacket c f cc data).2 = data.drop (firstBody f)
      ∧ (af.map (·.rai)).getD false = f.key
      ∧ af.bind (·.pcr) = (if f.key then some f.dts.toNat else none) := by
  have hpos : 0 < data.length := List.length_pos_iff.mpr hne
  have hpl := pesHeader_length c f data.length
  generalize hpes : pesHeader c f data.length = pes at hpl
  have hafl : (pcrField c f).length = 8 := by simp [pcrField, writePcr_length]
  have hpl2 : pes.length = 14 ∨ pes.length = 19 := by rw [hpl]; split <;> simp
  by_cases hk : f.key = true
  · -- key frame: PCR adaptation field
    have hsum : firstBody f + pes.length = 176 := by
      simp only [firstBody, hk, if_true, ← hpl]; omega
    have hbody : 184 - (pcrField c f).length - pes.length = firstBody f := by omega
    by_cases hfit : firstBody f ≤ data.length
    · have htl : (data.take (firstBody f)).length = firstBody f := by simp [List.length_take]; omega
      refine ⟨some { len := 7, rai := true, pcr := some f.dts.toNat }, ?_, ?_, by simp [hk], by simp [hk]⟩
      · simp only [firstPacket, hpes, hk, if_true, hbody, hfit]
        have := parsePacket_af f.pid cc true 7 (bN 0x50 :: writePcr f.dts) (pes ++ data.take (firstBody f)) _ hpid
          (by omega) (by simp [writePcr_length]) (by simp only [List.length_append, htl]; omega)
          (by simpa using parseAdapt_pcr 7 f.dts [] (by omega) hd0 hd1)
        simpa [pcrField, hlen7, hfl, List.append_assoc] using this
      · simp only [firstPacket, hpes, hk, if_true, hbody, hfit]
    · have htk : data.take (firstBody f) = data := List.take_of_length_le (by omega)
      have hdr : data.drop (firstBody f) = [] := List.drop_of_length_le (by omega)
      let stuff := firstBody f - data.length
      have hstale : ((pes ++ List.replicate 188 0).take stuff).length = stuff := by
        simp only [List.length_take, List.length_append, List.length_replicate]; omega
      refine ⟨some { len := 7 + stuff, rai := true, pcr := some f.dts.toNat }, ?_, ?_, by simp [hk], by simp [hk]⟩
      · simp only [firstPacket, hpes, hk, if_true, hbody, hfit, if_false, htk]
        have := parsePacket_af f.pid cc true (7 + stuff)
          (bN 0x50 :: (writePcr f.dts ++ (pes ++ List.replicate 188 0).take stuff)) (pes ++ data) _ hpid
          (by omega) (by simp only [List.length_cons, List.length_append, writePcr_length, hstale]; omega)
          (by simp only [List.length_append]; omega)
          (parseAdapt_pcr (7 + stuff) f.dts _ (by omega) hd0 hd1)
        simpa [pcrField, hlen7, hfl, List.append_assoc, stuff] using this
      · simp only [firstPacket, hpes, hk, if_true, hbody, hfit, if_false, hdr]
  · have hk' : f.key = false := by simpa using hk
    have hsum : firstBody f + pes.length = 184 := by
      simp only [firstBody, hk', ← hpl]; simp; omega
    have hbody : 184 - pes.length = firstBody f := by omega
    by_cases hfit : firstBody f ≤ data.length
    · have htl : (data.take (firstBody f)).length = firstBody f := by simp [List.length_take]; omega
      refine ⟨none, ?_, ?_, by simp [hk'], by simp [hk']⟩
      · simp only [firstPacket, hpes, hk', hbody, hfit, if_true]
        have := parsePacket_noaf f.pid cc true (pes ++ data.take (firstBody f)) hpid
          (by simp only [List.length_append, htl]; omega)
        simpa [List.append_assoc] using this
      · simp only [firstPacket, hpes, hk', hbody, hfit, if_true]
        simp
    · have htk : data.take (firstBody f) = data := List.take_of_length_le (by omega)
      have hdr : data.drop (firstBody f) = [] := List.drop_of_length_le (by omega)
      let stuff := firstBody f - data.length
      refine ⟨some { len := stuff - 1, rai := false, pcr := none }, ?_, ?_, by simp [hk'], by simp [hk']⟩
      · simp only [firstPacket, hpes, hk', hbody, hfit, if_false, htk]
        have := parsePacket_af f.pid cc true (stuff - 1) (stuffBody stuff) (pes ++ data) _ hpid
          (by omega) (stuffBody_length _ (by omega)) (by simp only [List.length_append]; omega)
          (parseAdapt_stuff _ (by omega))
        simpa [stuffBody, List.append_assoc, stuff] using this
      · simp only [firstPacket, hpes, hk', hbody, hfit, if_false, hdr]
        simp

end IpcHub.TsLemmas
