/-
C07, recovery at the level of the FLV and MPEG-TS workers (H.264): a stream whose converters are
up (demuxer ready, FLV sequence headers written, all three goroutines alive) stays in that state
under ANY packet on any channel, and what the FLV / TS workers then emit is a function of the
frames the demuxer hands on — so after arbitrary garbage the tags / TS frames of later well-formed
packets are exactly those of the sender's units.
-/
import IpcHub.Lemmas.ContainTotal
import IpcHub.Lemmas.DepackDemux
namespace IpcHub.Pipeline
open IpcHub.Depack IpcHub.Packetise IpcHub.DepackRound IpcHub.DepackDemux

/-! ### a ready H.264 depacketizer with both parameter sets stored never replaces them -/

def Full264 (m : VMeta) : Prop := m.sps ≠ [] ∧ m.pps ≠ []

structure MetaKept (st st' : VSt) : Prop where
  ready : st'.ready = true
  vmeta : st'.vmeta = st.vmeta

theorem MetaKept.refl {st : VSt} (h : st.ready = true) : MetaKept st st := ⟨h, rfl⟩
theorem MetaKept.trans {a b c : VSt} (h1 : MetaKept a b) (h2 : MetaKept b c) : MetaKept a c :=
  ⟨h2.ready, h2.vmeta.trans h1.vmeta⟩

theorem h264WriteFrame_meta (cfg : Depack.Cfg) (ok : Bytes → Bool) (st : VSt) (ts : UInt32) (p : Bytes)
    (hr : st.ready = true) (hf : Full264 st.vmeta) : MetaKept st (h264WriteFrame cfg ok st ts p).st := by
  obtain ⟨hs, hp⟩ := hf
  have hse : st.vmeta.sps.isEmpty = false := by
    cases h : st.vmeta.sps with
    | nil => exact absurd h hs
    | cons _ _ => rfl
  have hpe : st.vmeta.pps.isEmpty = false := by
    cases h : st.vmeta.pps with
    | nil => exact absurd h hp
    | cons _ _ => rfl
  cases p with
  | nil => exact ⟨hr, rfl⟩
  | cons b bs =>
    simp only [h264WriteFrame, hr, hse, hpe, Bool.not_true, Bool.and_false, Bool.false_and, Bool.or_false,
      Bool.false_eq_true, if_false]
    (repeat' split) <;> first | exact ⟨hr, rfl⟩ | exact ⟨rfl, rfl⟩

theorem stapaLoop_meta (cfg : Depack.Cfg) (ok : Bytes → Bool) (hdr : UInt8) (ts : UInt32) :
    ∀ (fuel : Nat) (st : VSt) (rest : Bytes) (acc : List Frame), st.ready = true → Full264 st.vmeta →
      MetaKept st (stapaLoop cfg ok hdr ts fuel st rest acc).st := by
  intro fuel
  induction fuel with
  | zero => intro st rest acc hr _; exact ⟨hr, rfl⟩
  | succ fuel ih =>
    intro st rest acc hr hf
    match rest with
    | [] => simp only [stapaLoop]; split <;> exact ⟨hr, rfl⟩
    | [_] => simp only [stapaLoop]; split <;> exact ⟨hr, rfl⟩
    | hi :: lo :: tl =>
      simp only [stapaLoop]
      split
      · exact ⟨hr, rfl⟩
      · split
        · exact ⟨hr, rfl⟩
        · have hw := h264WriteFrame_meta cfg ok st ts
            (if cfg.stapaRewritesNri = true then rewriteNri hdr (tl.take (be16 hi lo) ++ List.replicate (be16 hi lo - tl.length) 0)
              else tl.take (be16 hi lo) ++ List.replicate (be16 hi lo - tl.length) 0) hr hf
          split
          · split
            · exact hw
            · exact hw.trans (ih _ _ _ hw.ready (by rw [hw.vmeta]; exact hf))
          · exact hw

theorem h264Step_meta (cfg : Depack.Cfg) (ok : Bytes → Bool) (st : VSt) (p : Pkt) (hr : st.ready = true) (hf : Full264 st.vmeta) :
    MetaKept st (h264Step cfg ok st p).st := by
  simp only [h264Step]
  split
  · exact ⟨hr, rfl⟩
  · match hp : p.payload with
    | [] => exact ⟨hr, rfl⟩
    | b0 :: rest =>
      simp only
      split
      · exact h264WriteFrame_meta cfg ok st p.ts _ hr hf
      · split
        · simp only [h264Stapa, hp]; exact stapaLoop_meta cfg ok b0 p.ts _ _ _ _ hr hf
        · split
          · simp only [h264FuA]
            (repeat' split) <;> first
              | exact ⟨hr, rfl⟩
              | exact MetaKept.trans (b := { st with frags := [] }) ⟨hr, rfl⟩ (h264WriteFrame_meta cfg ok _ p.ts _ hr hf)
          · exact ⟨hr, rfl⟩

/-! ### the workers once the stream is up -/

/-- the FLV tag(s) of one frame once the sequence headers are out -/
def tagOf (c : VCodec) (hasAac : Bool) (f : Frame) : List Tag :=
  if f.audio then (if hasAac then [.audio f.payload] else []) else [.video (isKey c f.payload) f.payload]

/-- the TS frame(s) of one frame -/
def tsOf (cfg : Cfg) (ascOk : Bool) (m : VMeta) (f : Frame) : List TsFrame :=
  if f.audio then (if ascOk then [.audio f.payload] else [])
  else match f.payload with
    | [] => []
    | b :: _ => [.video ((b &&& 0x1f) = 5) (avcHeader cfg.tsAvcSkips79 m.sps m.pps f.payload) f.payload]

theorem flvStep_up (cfg : Cfg) (spsOk : Bytes → Bool) (c : VCodec) (hasAac : Bool) (m : VMeta) (s : FlvSt) (f : Frame)
    (ha : s.alive = true) (hd : s.headerDone = true) (hf : f.audio = false → f.payload ≠ []) :
    flvStep cfg spsOk c hasAac m s f = (s, tagOf c hasAac f, .ok) := by
  unfold flvStep tagOf
  simp only [ha, hd, Bool.not_true, Bool.false_eq_true, if_false, if_true]
  cases hau : f.audio with
  | true => simp
  | false =>
    cases hp : f.payload with
    | nil => exact absurd hp (hf hau)
    | cons b bs => simp

theorem feedFlv_up (cfg : Cfg) (spsOk : Bytes → Bool) (c : VCodec) (hasAac : Bool) (m : VMeta) :
    ∀ (fs : List Frame) (s : FlvSt), s.alive = true → s.headerDone = true → VideoNonempty fs →
      feedFlv cfg spsOk c hasAac m s fs = (s, fs.flatMap (tagOf c hasAac)) := by
  intro fs
  induction fs with
  | nil => intro s _ _ _; rfl
  | cons f fs ih =>
    intro s ha hd h
    simp only [feedFlv, flvStep_up cfg spsOk c hasAac m s f ha hd (h f (List.mem_cons_self ..)),
      ih s ha hd (fun g hg => h g (List.mem_cons_of_mem _ hg)), List.flatMap_cons]

theorem tsStep_up (cfg : Cfg) (hc : cfg.tsAacChecked = true) (ascOk : Bool) (m : VMeta) (s : TsSt) (f : Frame)
    (ha : s.alive = true) (hf : f.audio = false → f.payload ≠ []) :
    (tsStep cfg ascOk m s f).1 = s ∧ (tsStep cfg ascOk m s f).2.1 = tsOf cfg ascOk m f := by
  unfold tsStep tsOf
  simp only [ha, Bool.not_true, Bool.false_eq_true, if_false]
  cases hau : f.audio with
  | true => cases ascOk <;> simp [hc]
  | false =>
    cases hp : f.payload with
    | nil => exact absurd hp (hf hau)
    | cons b bs => simp

theorem feedTs_up (cfg : Cfg) (hc : cfg.tsAacChecked = true) (ascOk : Bool) (m : VMeta) :
    ∀ (fs : List Frame) (s : TsSt), s.alive = true → VideoNonempty fs →
      feedTs cfg ascOk m s fs = (s, fs.flatMap (tsOf cfg ascOk m)) := by
  intro fs
  induction fs with
  | nil => intro s _ _; rfl
  | cons f fs ih =>
    intro s ha h
    have h1 := tsStep_up cfg hc ascOk m s f ha (h f (List.mem_cons_self ..))
    simp only [feedTs]
    rw [show (tsStep cfg ascOk m s f) = ((tsStep cfg ascOk m s f).1, (tsStep cfg ascOk m s f).2.1, (tsStep cfg ascOk m s f).2.2) from rfl]
    simp only [h1.1, h1.2, ih s ha (fun g hg => h g (List.mem_cons_of_mem _ hg)), List.flatMap_cons]

/-! ### the whole stream -/

/-- the stream is up: H.264, demuxer alive and ready with the parameter sets `m0`, FLV sequence
    headers written, FLV and TS workers alive -/
structure Up (m0 : VMeta) (s : St) : Prop where
  dalive : s.demux.alive = true
  codec : s.demux.codec = .h264
  ready : s.demux.v.ready = true
  vmeta : s.demux.v.vmeta = m0
  falive : s.flv.alive = true
  fdone : s.flv.headerDone = true
  talive : s.ts.alive = true

/-- the packets of a stream through the three workers, one at a time (what the harness steps) -/
def runPipe (dc : Depack.Cfg) (cfg : Cfg) (spsOk : Bytes → Bool) (ascOk hasTs : Bool) :
    St → List In → St × List Frame × List Tag × List TsFrame
  | s, [] => (s, [], [], [])
  | s, i :: is =>
    let (s1, fs, tg, tf) := step dc cfg spsOk ascOk hasTs s i
    let (s2, fs2, tg2, tf2) := runPipe dc cfg spsOk ascOk hasTs s1 is
    (s2, fs ++ fs2, tg ++ tg2, tf ++ tf2)

theorem step_demux (dc : Depack.Cfg) (cfg : Cfg) (spsOk : Bytes → Bool) (ascOk hasTs : Bool) (s : St) (i : In) :
    (step dc cfg spsOk ascOk hasTs s i).1.demux = (demuxStep dc spsOk s.demux i).1 := rfl

theorem step_frames (dc : Depack.Cfg) (cfg : Cfg) (spsOk : Bytes → Bool) (ascOk hasTs : Bool) (s : St) (i : In) :
    (step dc cfg spsOk ascOk hasTs s i).2.1 = (demuxStep dc spsOk s.demux i).2.1 := rfl

theorem step_flv (dc : Depack.Cfg) (cfg : Cfg) (spsOk : Bytes → Bool) (ascOk hasTs : Bool) (s : St) (i : In) :
    (step dc cfg spsOk ascOk hasTs s i).1.flv
      = (feedFlv cfg spsOk (demuxStep dc spsOk s.demux i).1.codec (demuxStep dc spsOk s.demux i).1.hasAac
          (demuxStep dc spsOk s.demux i).1.v.vmeta s.flv (demuxStep dc spsOk s.demux i).2.1).1 := rfl

theorem step_tags (dc : Depack.Cfg) (cfg : Cfg) (spsOk : Bytes → Bool) (ascOk hasTs : Bool) (s : St) (i : In) :
    (step dc cfg spsOk ascOk hasTs s i).2.2.1
      = (feedFlv cfg spsOk (demuxStep dc spsOk s.demux i).1.codec (demuxStep dc spsOk s.demux i).1.hasAac
          (demuxStep dc spsOk s.demux i).1.v.vmeta s.flv (demuxStep dc spsOk s.demux i).2.1).2 := rfl

theorem step_ts (dc : Depack.Cfg) (cfg : Cfg) (spsOk : Bytes → Bool) (ascOk hasTs : Bool) (s : St) (i : In) :
    (step dc cfg spsOk ascOk hasTs s i).1.ts
      = if hasTs then (feedTs cfg ascOk (demuxStep dc spsOk s.demux i).1.v.vmeta s.ts (demuxStep dc spsOk s.demux i).2.1).1 else s.ts := by
  cases hasTs <;> rfl

theorem step_tsf (dc : Depack.Cfg) (cfg : Cfg) (spsOk : Bytes → Bool) (ascOk hasTs : Bool) (s : St) (i : In) :
    (step dc cfg spsOk ascOk hasTs s i).2.2.2
      = if hasTs then (feedTs cfg ascOk (demuxStep dc spsOk s.demux i).1.v.vmeta s.ts (demuxStep dc spsOk s.demux i).2.1).2 else [] := by
  cases hasTs <;> rfl

/-- the demuxer part of a step on an up stream: codec, audio flag, readiness and the stored
    parameter sets survive any packet -/
theorem demuxStep_up (dc : Depack.Cfg) (spsOk : Bytes → Bool) (m0 : VMeta) (hm : Full264 m0) (d : DemuxSt) (i : In)
    (ha : d.alive = true) (hc : d.codec = .h264) (hr : d.v.ready = true) (hv : d.v.vmeta = m0) :
    (demuxStep dc spsOk d i).1.codec = .h264 ∧ (demuxStep dc spsOk d i).1.hasAac = d.hasAac ∧
    (demuxStep dc spsOk d i).1.v.ready = true ∧ (demuxStep dc spsOk d i).1.v.vmeta = m0 := by
  cases i with
  | video p =>
    have hk := h264Step_meta dc spsOk d.v p hr (by rw [hv]; exact hm)
    have e : (demuxStep dc spsOk d (.video p)).1
        = { d with v := (h264Step dc spsOk d.v p).st, alive := (h264Step dc spsOk d.v p).status != .panic } := by
      simp [demuxStep, ha, vStep, hc]
    rw [e]
    exact ⟨hc, rfl, hk.ready, by rw [← hv]; exact hk.vmeta⟩
  | vctl data =>
    have e : (demuxStep dc spsOk d (.vctl data)).1
        = { d with v := { d.v with base := (control dc d.v.base data).1 }, alive := (control dc d.v.base data).2 != .panic } := by
      simp [demuxStep, ha]
    rw [e]
    exact ⟨hc, rfl, hr, hv⟩
  | audio p =>
    by_cases haac : d.hasAac = true
    · have e : (demuxStep dc spsOk d (.audio p)).1 = { d with alive := (aacStep dc d.abase p).2 != .panic } := by
        simp [demuxStep, ha, haac]
      rw [e]
      exact ⟨hc, rfl, hr, hv⟩
    · have e : (demuxStep dc spsOk d (.audio p)).1 = d := by
        simp [demuxStep, ha, haac]
      rw [e]
      exact ⟨hc, rfl, hr, hv⟩
  | actl data =>
    by_cases haac : d.hasAac = true
    · have e : (demuxStep dc spsOk d (.actl data)).1
          = { d with abase := (control dc d.abase data).1, alive := (control dc d.abase data).2 != .panic } := by
        simp [demuxStep, ha, haac]
      rw [e]
      exact ⟨hc, rfl, hr, hv⟩
    · have e : (demuxStep dc spsOk d (.actl data)).1 = d := by
        simp [demuxStep, ha, haac]
      rw [e]
      exact ⟨hc, rfl, hr, hv⟩

/-- one packet of ANY bytes on ANY channel: the stream stays up, and the workers' output is the
    per-frame output of what the demuxer handed on -/
theorem step_up (dc : Depack.Cfg) (hdc : SafeCfg dc) (cfg : Cfg) (hc : cfg.tsAacChecked = true)
    (spsOk : Bytes → Bool) (ascOk hasTs : Bool) (m0 : VMeta) (hm : Full264 m0) (s : St) (i : In) (hu : Up m0 s) :
    Up m0 (step dc cfg spsOk ascOk hasTs s i).1 ∧
    (step dc cfg spsOk ascOk hasTs s i).2.1 = (demuxStep dc spsOk s.demux i).2.1 ∧
    (step dc cfg spsOk ascOk hasTs s i).1.demux = (demuxStep dc spsOk s.demux i).1 ∧
    (step dc cfg spsOk ascOk hasTs s i).2.2.1 = (step dc cfg spsOk ascOk hasTs s i).2.1.flatMap (tagOf .h264 s.demux.hasAac) ∧
    (step dc cfg spsOk ascOk hasTs s i).2.2.2
      = (if hasTs then (step dc cfg spsOk ascOk hasTs s i).2.1.flatMap (tsOf cfg ascOk m0) else []) := by
  have hv := demuxStep_out dc spsOk s.demux i
  have hal := demuxStep_alive dc hdc spsOk s.demux i
  obtain ⟨hco, hha, hre, hme⟩ := demuxStep_up dc spsOk m0 hm s.demux i hu.dalive hu.codec hu.ready hu.vmeta
  have hflv := feedFlv_up cfg spsOk (demuxStep dc spsOk s.demux i).1.codec (demuxStep dc spsOk s.demux i).1.hasAac
    (demuxStep dc spsOk s.demux i).1.v.vmeta _ s.flv hu.falive hu.fdone hv
  have hts := feedTs_up cfg hc ascOk (demuxStep dc spsOk s.demux i).1.v.vmeta _ s.ts hu.talive hv
  refine ⟨⟨?_, ?_, ?_, ?_, ?_, ?_, ?_⟩, rfl, rfl, ?_, ?_⟩
  · rw [step_demux, hal]; exact hu.dalive
  · rw [step_demux]; exact hco
  · rw [step_demux]; exact hre
  · rw [step_demux]; exact hme
  · rw [step_flv, hflv]; exact hu.falive
  · rw [step_flv, hflv]; exact hu.fdone
  · rw [step_ts]; cases hasTs
    · exact hu.talive
    · simp only [if_true]; rw [hts]; exact hu.talive
  · rw [step_tags, step_frames, hflv, hco, hha]
  · rw [step_tsf, step_frames]; cases hasTs
    · rfl
    · simp only [if_true]; rw [hts, hme]

theorem demuxStep_hasAac (dc : Depack.Cfg) (spsOk : Bytes → Bool) (d : DemuxSt) (i : In) :
    (demuxStep dc spsOk d i).1.hasAac = d.hasAac := by
  unfold demuxStep
  split
  · rfl
  · cases i <;> simp only <;> (try split) <;> rfl

theorem runPipe_cons (dc : Depack.Cfg) (cfg : Cfg) (spsOk : Bytes → Bool) (ascOk hasTs : Bool) (s : St) (i : In) (is : List In) :
    (runPipe dc cfg spsOk ascOk hasTs s (i :: is)).1 = (runPipe dc cfg spsOk ascOk hasTs (step dc cfg spsOk ascOk hasTs s i).1 is).1 ∧
    (runPipe dc cfg spsOk ascOk hasTs s (i :: is)).2.1
      = (step dc cfg spsOk ascOk hasTs s i).2.1 ++ (runPipe dc cfg spsOk ascOk hasTs (step dc cfg spsOk ascOk hasTs s i).1 is).2.1 ∧
    (runPipe dc cfg spsOk ascOk hasTs s (i :: is)).2.2.1
      = (step dc cfg spsOk ascOk hasTs s i).2.2.1 ++ (runPipe dc cfg spsOk ascOk hasTs (step dc cfg spsOk ascOk hasTs s i).1 is).2.2.1 ∧
    (runPipe dc cfg spsOk ascOk hasTs s (i :: is)).2.2.2
      = (step dc cfg spsOk ascOk hasTs s i).2.2.2 ++ (runPipe dc cfg spsOk ascOk hasTs (step dc cfg spsOk ascOk hasTs s i).1 is).2.2.2 :=
  ⟨rfl, rfl, rfl, rfl⟩

theorem demuxRun_cons (dc : Depack.Cfg) (spsOk : Bytes → Bool) (d : DemuxSt) (i : In) (is : List In) :
    (demuxRun dc spsOk d (i :: is)).1 = (demuxRun dc spsOk (demuxStep dc spsOk d i).1 is).1 ∧
    (demuxRun dc spsOk d (i :: is)).2 = (demuxStep dc spsOk d i).2.1 ++ (demuxRun dc spsOk (demuxStep dc spsOk d i).1 is).2 :=
  ⟨rfl, rfl⟩

/-- any list of packets: the stream stays up and the workers' whole output is the per-frame output
    of the frames of `demuxRun` -/
theorem runPipe_up (dc : Depack.Cfg) (hdc : SafeCfg dc) (cfg : Cfg) (hc : cfg.tsAacChecked = true)
    (spsOk : Bytes → Bool) (ascOk hasTs : Bool) (m0 : VMeta) (hm : Full264 m0) :
    ∀ (ins : List In) (s : St), Up m0 s →
      Up m0 (runPipe dc cfg spsOk ascOk hasTs s ins).1 ∧
      (runPipe dc cfg spsOk ascOk hasTs s ins).2.1 = (demuxRun dc spsOk s.demux ins).2 ∧
      (runPipe dc cfg spsOk ascOk hasTs s ins).1.demux = (demuxRun dc spsOk s.demux ins).1 ∧
      (runPipe dc cfg spsOk ascOk hasTs s ins).2.2.1
        = (runPipe dc cfg spsOk ascOk hasTs s ins).2.1.flatMap (tagOf .h264 s.demux.hasAac) ∧
      (runPipe dc cfg spsOk ascOk hasTs s ins).2.2.2
        = (if hasTs then (runPipe dc cfg spsOk ascOk hasTs s ins).2.1.flatMap (tsOf cfg ascOk m0) else []) := by
  intro ins
  induction ins with
  | nil => intro s hu; cases hasTs <;> exact ⟨hu, rfl, rfl, rfl, rfl⟩
  | cons i is ih =>
    intro s hu
    obtain ⟨hu1, hf1, hd1, ht1, hs1⟩ := step_up dc hdc cfg hc spsOk ascOk hasTs m0 hm s i hu
    obtain ⟨hu2, hf2, hd2, ht2, hs2⟩ := ih _ hu1
    have haac : (step dc cfg spsOk ascOk hasTs s i).1.demux.hasAac = s.demux.hasAac := by
      rw [hd1]; exact demuxStep_hasAac dc spsOk s.demux i
    obtain ⟨r1, r2, r3, r4⟩ := runPipe_cons dc cfg spsOk ascOk hasTs s i is
    obtain ⟨q1, q2⟩ := demuxRun_cons dc spsOk s.demux i is
    refine ⟨?_, ?_, ?_, ?_, ?_⟩
    · rw [r1]; exact hu2
    · rw [r2, q2, hf1, hf2, hd1]
    · rw [r1, q1, hd2, hd1]
    · rw [r3, r2, ht1, ht2, haac, List.flatMap_append]
    · rw [r4, r2, hs1, hs2]; cases hasTs
      · rfl
      · simp only [if_true, List.flatMap_append]

/-- only video packets: the frames of `demuxRun` are those of the video depacketizer -/
theorem demuxRun_only_video (cfg : Depack.Cfg) (hc : SafeCfg cfg) (ok : Bytes → Bool) :
    ∀ (ps : List Pkt) (d : DemuxSt), d.alive = true →
      (demuxRun cfg ok d (ps.map In.video)).2 = (vRun cfg ok d.codec d.v ps).2.1 := by
  intro ps
  induction ps with
  | nil => intro d _; rfl
  | cons p ps ih =>
    intro d ha
    have hnp := vStep_benign cfg hc ok d.codec d.v p
    have hal : ((vStep cfg ok d.codec d.v p).status != Status.panic) = true := by simpa using hnp
    simp only [List.map_cons, demuxRun, demuxStep, ha, Bool.not_true, Bool.false_eq_true, if_false, vRun, hnp]
    rw [ih _ hal]

theorem flatMap_tagOf_units (base : UInt32) (hasAac : Bool) (us : List (UInt32 × Bytes)) :
    (us.map (frameOf base)).flatMap (tagOf .h264 hasAac) = us.map (fun u => Tag.video (isKey .h264 u.2) u.2) := by
  induction us with
  | nil => rfl
  | cons u us ih => simp [List.flatMap_cons, tagOf, frameOf, ih]

/-- the TS frame of one H.264 NAL unit: key flag, Annex-B header bytes (AUD / SPS / PPS / start code), the unit -/
def tsVideoOf (cfg : Cfg) (m : VMeta) (n : Bytes) : TsFrame :=
  .video (match n with | [] => false | b :: _ => (b &&& 0x1f) = 5) (avcHeader cfg.tsAvcSkips79 m.sps m.pps n) n

theorem flatMap_tsOf_units (cfg : Cfg) (ascOk : Bool) (m : VMeta) (base : UInt32) (us : List (UInt32 × Bytes))
    (hne : ∀ u ∈ us, u.2 ≠ []) :
    (us.map (frameOf base)).flatMap (tsOf cfg ascOk m) = us.map (fun u => tsVideoOf cfg m u.2) := by
  induction us with
  | nil => rfl
  | cons u us ih =>
    have h1 := hne u (List.mem_cons_self ..)
    have ih' := ih (fun x hx => hne x (List.mem_cons_of_mem _ hx))
    obtain ⟨t, n⟩ := u
    cases n with
    | nil => exact absurd rfl h1
    | cons b bs =>
      simp only [List.map_cons, List.flatMap_cons, ih']
      simp [tsOf, frameOf, tsVideoOf]

theorem units_nonempty (items : List Item) (hl : ∀ it ∈ items, legal264F it = true) : ∀ u ∈ units items, u.2 ≠ [] := by
  intro u hu
  simp only [units, List.mem_flatMap] at hu
  obtain ⟨it, hit, hu⟩ := hu
  simp only [Item.units, List.mem_map] at hu
  obtain ⟨n, hn, rfl⟩ := hu
  have hleg := hl it hit
  have : nalOk264F n = true := by
    cases it with
    | single ts m x =>
      simp only [Item.nals, List.mem_singleton] at hn
      subst hn; simpa [legal264F] using hleg
    | agg ts m ns =>
      simp only [legal264F, Bool.and_eq_true, List.all_eq_true, decide_eq_true_eq] at hleg
      exact (hleg.2 n hn).1
    | frag ts m x cuts =>
      simp only [Item.nals, List.mem_singleton] at hn
      simp only [legal264F, Bool.and_eq_true] at hleg
      subst hn; exact hleg.1
  exact nalOk_ne_nil this

end IpcHub.Pipeline
