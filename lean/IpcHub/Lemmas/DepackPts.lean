/-
C06, presentation times: `SyncClock.RelativeNtp` + `ptsDelay` on the frames of the round trip.
With the clock base not after the timestamps and no 2^32 wrap between two units, the difference
of their presentation times is the RTP-timestamp difference converted at the clock rate, up to
the 1 ns of the truncating division.
-/
import IpcHub.Lemmas.DepackRound
namespace IpcHub.DepackPts
open IpcHub.Depack IpcHub.Packetise IpcHub.DepackRound

theorem nat_div_sub (a b r : Nat) (hr : 0 < r) (hab : b ≤ a) :
    (a - b) / r ≤ a / r - b / r ∧ a / r - b / r ≤ (a - b) / r + 1 := by
  have hle : b / r ≤ a / r := Nat.div_le_div_right hab
  constructor
  · have : (a - b) / r + b / r ≤ a / r := by
      rw [Nat.le_div_iff_mul_le hr, Nat.add_mul]
      have h1 : (a - b) / r * r ≤ a - b := Nat.div_mul_le_self _ _
      have h2 : b / r * r ≤ b := Nat.div_mul_le_self _ _
      omega
    omega
  · have : a / r < (a - b) / r + 1 + (b / r + 1) := by
      rw [Nat.div_lt_iff_lt_mul hr, Nat.add_mul]
      have h1 : a - b < ((a - b) / r + 1) * r := Nat.lt_mul_of_div_lt (Nat.lt_succ_self _) hr
      have h2 : b < (b / r + 1) * r := Nat.lt_mul_of_div_lt (Nat.lt_succ_self _) hr
      omega
    omega

theorem tdiv_nat (n k r : Nat) : Int.tdiv ((n : Int) * (k : Int)) (r : Int) = ((n * k / r : Nat) : Int) := by
  rw [← Int.natCast_mul]
  rfl

theorem conv_sub (rate : Nat) (t b : UInt32) (h : b.toNat ≤ t.toNat) :
    conv rate ((t.toNat : Int) - (b.toNat : Int)) = (((t.toNat - b.toNat) * 1000000000 / rate : Nat) : Int) := by
  unfold conv
  rw [← Int.ofNat_sub h]
  exact tdiv_nat (t.toNat - b.toNat) 1000000000 rate

theorem tsDiff_fwd (a b : UInt32) (h : b.toNat ≤ a.toNat) (hd : a.toNat - b.toNat < 2147483648) :
    tsDiff a b = ((a.toNat - b.toNat : Nat) : Int) := by
  unfold tsDiff
  have : (a - b).toNat = a.toNat - b.toNat := UInt32.toNat_sub_of_le a b (by simpa [UInt32.le_iff_toNat_le] using h)
  simp only [this, hd, if_true]

theorem pts_diff (cfg : Cfg) (rate : Nat) (hr : 0 < rate) (base : UInt32) (u v : UInt32 × Bytes)
    (hb : base.toNat ≤ u.1.toNat) (huv : u.1.toNat ≤ v.1.toNat) (hd : v.1.toNat - u.1.toNat < 2147483648) :
    let pu := (frameOf base u).pts cfg rate
    let pv := (frameOf base v).pts cfg rate
    let want := Int.tdiv (tsDiff v.1 u.1 * 1000000000) rate
    want ≤ pv - pu ∧ pv - pu ≤ want + 1 := by
  simp only [Frame.pts, frameOf]
  rw [conv_sub rate u.1 base hb, conv_sub rate v.1 base (by omega), tsDiff_fwd v.1 u.1 huv hd]
  rw [show (((v.1.toNat - u.1.toNat : Nat) : Int) * 1000000000).tdiv (rate : Int) = (((v.1.toNat - u.1.toNat) * 1000000000 / rate : Nat) : Int) from tdiv_nat (v.1.toNat - u.1.toNat) 1000000000 rate]
  have key := nat_div_sub ((v.1.toNat - base.toNat) * 1000000000) ((u.1.toNat - base.toNat) * 1000000000) rate hr
    (Nat.mul_le_mul_right _ (by omega))
  have e : (v.1.toNat - base.toNat) * 1000000000 - (u.1.toNat - base.toNat) * 1000000000 = (v.1.toNat - u.1.toNat) * 1000000000 := by
    rw [← Nat.sub_mul]; congr 1; omega
  rw [e] at key
  have hle : (u.1.toNat - base.toNat) * 1000000000 / rate ≤ (v.1.toNat - base.toNat) * 1000000000 / rate :=
    Nat.div_le_div_right (Nat.mul_le_mul_right _ (by omega))
  omega

/-- the oracle's predicate (`ptsHolds`, tolerance 1 ns) holds of any two such frames -/
theorem pts_pair_holds (cfg : Cfg) (rate : Nat) (hr : 0 < rate) (base : UInt32) (u v : UInt32 × Bytes)
    (hb : base.toNat ≤ u.1.toNat) (huv : u.1.toNat ≤ v.1.toNat) (hd : v.1.toNat - u.1.toNat < 2147483648) :
    ptsHolds rate 1 [(u.1, (frameOf base u).pts cfg rate), (v.1, (frameOf base v).pts cfg rate)] = true := by
  have h := pts_diff cfg rate hr base u v hb huv hd
  simp only at h
  simp only [ptsHolds, Bool.and_true, Bool.and_eq_true, decide_eq_true_eq]
  refine ⟨⟨?_, ?_⟩, ?_⟩
  · split
    · rename_i he
      simp [Frame.pts, frameOf, he]
    · rfl
  · omega
  · omega

end IpcHub.DepackPts
