/-
Spelling insensitivity of the model of utils.CanonicalPath (IpcHub/Model/CanonPath.lean):
the canonical path only depends on the result of the first pass, so surrounding blanks, the
case of the letters, an optional leading '/' and doubled '/' do not change it.
Core Lean only.
-/
import IpcHub.Lemmas.CanonPath
namespace IpcHub.CanonPath

/-! ## 1. the loop only depends on the result of the first pass -/

theorem canonicalOnce_ne_nil (cfg : Cfg) (p : List Char) : canonicalOnce cfg p ≠ [] := by
  intro e; have := canonicalOnce_head cfg p; rw [e] at this; cases this

theorem canonicalOnce_length_pos (cfg : Cfg) (p : List Char) : 0 < (canonicalOnce cfg p).length := by
  have := canonicalOnce_ne_nil cfg p
  cases hc : canonicalOnce cfg p with
  | nil => exact absurd hc this
  | cons a as => simp

theorem canonLoop_succ (cfg : Cfg) (f : Nat) (p np : List Char) :
    canonLoop cfg (f + 1) p np = if np = p then np else canonLoop cfg f np (canonicalOnce cfg np) := by
  rw [canonLoop]

/-- on the result of a pass, the loop does not depend on the fuel (once there is enough) -/
theorem canonLoop_fuel {cfg : Cfg} (h : HMin cfg) : ∀ (f g : Nat) (y : List Char),
    (canonicalOnce cfg y).length ≤ f → (canonicalOnce cfg y).length ≤ g →
    canonLoop cfg f (canonicalOnce cfg y) (canonicalOnce cfg (canonicalOnce cfg y)) =
      canonLoop cfg g (canonicalOnce cfg y) (canonicalOnce cfg (canonicalOnce cfg y)) := by
  intro f
  induction f with
  | zero =>
    intro g y hf _
    have := canonicalOnce_length_pos cfg y
    omega
  | succ f ih =>
    intro g y hf hg
    cases g with
    | zero =>
      have := canonicalOnce_length_pos cfg y
      omega
    | succ g =>
      rw [canonLoop_succ, canonLoop_succ]
      by_cases he : canonicalOnce cfg (canonicalOnce cfg y) = canonicalOnce cfg y
      · rw [if_pos he, if_pos he]
      · rw [if_neg he, if_neg he]
        rcases canonicalOnce_twice h y with he' | hlt
        · exact absurd he' he
        · exact ih g (canonicalOnce cfg y) (by omega) (by omega)

theorem canonicalPath_unfold (cfg : Cfg) (p : List Char) :
    canonicalPath cfg p =
      if canonicalOnce cfg p = p then canonicalOnce cfg p
      else canonLoop cfg (p.length + 1) (canonicalOnce cfg p)
        (canonicalOnce cfg (canonicalOnce cfg p)) := by
  show canonLoop cfg (p.length + 1 + 1) p (canonicalOnce cfg p) = _
  rw [canonLoop_succ]

/-- the canonical path of `p` is the canonical path of the result of the first pass -/
theorem canonicalPath_once {cfg : Cfg} (h : HMin cfg) (p : List Char) :
    canonicalPath cfg (canonicalOnce cfg p) = canonicalPath cfg p := by
  by_cases he : canonicalOnce cfg p = p
  · rw [he]
  · rw [canonicalPath_unfold cfg p, if_neg he]
    show canonLoop cfg ((canonicalOnce cfg p).length + 2) _ _ = _
    exact canonLoop_fuel h _ _ p (by omega) (canonicalOnce_length_le cfg p)

/-- 1. two inputs with the same one-pass result have the same canonical path -/
theorem canonicalPath_congr {cfg : Cfg} (h : HMin cfg) {p q : List Char}
    (e : canonicalOnce cfg p = canonicalOnce cfg q) :
    canonicalPath cfg p = canonicalPath cfg q := by
  rw [← canonicalPath_once h p, ← canonicalPath_once h q, e]

/-- a fixed point of one pass is its own canonical path (no hypothesis needed) -/
theorem canonicalPath_of_fixed (cfg : Cfg) (r : List Char) (hr : canonicalOnce cfg r = r) :
    canonicalPath cfg r = r := by
  rw [canonicalPath_unfold, if_pos hr, hr]

/-- if the first pass gives a fixed point, that is the canonical path -/
theorem canonicalPath_eq_of_stable {cfg : Cfg} (h : HMin cfg) (p r : List Char)
    (e : canonicalOnce cfg p = r) (hr : canonicalOnce cfg r = r) : canonicalPath cfg p = r := by
  rw [← canonicalPath_once h p, e, canonicalPath_of_fixed cfg r hr]

/-- `n` further passes -/
def iter (cfg : Cfg) : Nat → List Char → List Char
  | 0, y => y
  | n + 1, y => iter cfg n (canonicalOnce cfg y)

theorem iter_fixed (cfg : Cfg) (y : List Char) (hy : canonicalOnce cfg y = y) :
    ∀ n, iter cfg n y = y := by
  intro n
  induction n with
  | zero => rfl
  | succ n ih => rw [iter, hy, ih]

theorem canonLoop_eq_iter {cfg : Cfg} (h : HMin cfg) : ∀ (f : Nat) (y : List Char),
    (canonicalOnce cfg y).length ≤ f →
    canonLoop cfg f (canonicalOnce cfg y) (canonicalOnce cfg (canonicalOnce cfg y)) =
      iter cfg f (canonicalOnce cfg y) := by
  intro f
  induction f with
  | zero =>
    intro y hf
    have := canonicalOnce_length_pos cfg y
    omega
  | succ f ih =>
    intro y hf
    rw [canonLoop_succ]
    by_cases he : canonicalOnce cfg (canonicalOnce cfg y) = canonicalOnce cfg y
    · rw [if_pos he, he, iter_fixed cfg _ he]
    · rw [if_neg he, iter]
      rcases canonicalOnce_twice h y with he' | hlt
      · exact absurd he' he
      · exact ih (canonicalOnce cfg y) (by omega)

/-- the canonical path is what `k` further passes make of the result of the first pass, for
    every `k` at least the length of that result -/
theorem canonicalPath_eq_iter {cfg : Cfg} (h : HMin cfg) (p : List Char) (k : Nat)
    (hk : (canonicalOnce cfg p).length ≤ k) :
    canonicalPath cfg p = iter cfg k (canonicalOnce cfg p) := by
  rw [← canonLoop_eq_iter h k p hk, ← canonicalPath_once h p]
  show canonLoop cfg ((canonicalOnce cfg p).length + 2) _ _ = _
  exact canonLoop_fuel h _ _ p (by omega) hk

/-- one pass only looks at the trimmed, lower-cased input -/
theorem canonicalOnce_congr (cfg : Cfg) {p q : List Char}
    (e : (trim cfg.isSpace p).map cfg.lower = (trim cfg.isSpace q).map cfg.lower) :
    canonicalOnce cfg p = canonicalOnce cfg q := by
  rw [canonicalOnce_eq, canonicalOnce_eq, e]

/-! ## 2. blanks -/

theorem trimRight_cons (f : Char → Bool) (c : Char) (cs : List Char) :
    trimRight f (c :: cs) =
      match trimRight f cs with
      | [] => if f c then [] else [c]
      | r :: rs => c :: r :: rs := rfl

theorem trimLeft_nil (f : Char → Bool) : trimLeft f [] = [] := by rw [trimLeft]

theorem trimRight_nil (f : Char → Bool) : trimRight f [] = [] := by rw [trimRight]

/-- trimLeft drops a prefix of blanks -/
theorem trimLeft_blank_append (f : Char → Bool) : ∀ (l p : List Char), (∀ c ∈ l, f c = true) →
    trimLeft f (l ++ p) = trimLeft f p := by
  intro l p
  induction l with
  | nil => intro _; rfl
  | cons c cs ih =>
    intro h
    rw [List.cons_append, trimLeft, if_pos (h c (by simp))]
    exact ih (fun x hx => h x (List.mem_cons_of_mem _ hx))

theorem trimLeft_blank (f : Char → Bool) (l : List Char) (h : ∀ c ∈ l, f c = true) :
    trimLeft f l = [] := by
  have := trimLeft_blank_append f l [] h
  rwa [List.append_nil, trimLeft_nil] at this

theorem trimRight_blank (f : Char → Bool) : ∀ (r : List Char), (∀ c ∈ r, f c = true) →
    trimRight f r = [] := by
  intro r
  induction r with
  | nil => intro _; exact trimRight_nil f
  | cons c cs ih =>
    intro h
    rw [trimRight_cons, ih (fun x hx => h x (List.mem_cons_of_mem _ hx))]
    simp [h c (by simp)]

/-- trimRight drops a suffix of blanks -/
theorem trimRight_append_blank (f : Char → Bool) (r : List Char) (h : ∀ c ∈ r, f c = true) :
    ∀ p : List Char, trimRight f (p ++ r) = trimRight f p := by
  intro p
  induction p with
  | nil => rw [List.nil_append, trimRight_blank f r h, trimRight_nil]
  | cons c cs ih => rw [List.cons_append, trimRight_cons, ih, ← trimRight_cons]

theorem trim_append_blank (f : Char → Bool) (r : List Char) (h : ∀ c ∈ r, f c = true) :
    ∀ p : List Char, trim f (p ++ r) = trim f p := by
  intro p
  unfold trim
  induction p with
  | nil => rw [List.nil_append, trimLeft_blank f r h, trimLeft_nil]
  | cons c cs ih =>
    by_cases hc : f c = true
    · rw [List.cons_append, trimLeft, if_pos hc, ih, trimLeft, if_pos hc]
    · rw [List.cons_append, trimLeft, if_neg hc, trimLeft, if_neg hc, ← List.cons_append,
        trimRight_append_blank f r h]

/-- trimming ignores surrounding blanks -/
theorem trim_surround (f : Char → Bool) (l p r : List Char)
    (hl : ∀ c ∈ l, f c = true) (hr : ∀ c ∈ r, f c = true) : trim f (l ++ p ++ r) = trim f p := by
  rw [trim_append_blank f r hr]
  unfold trim
  rw [trimLeft_blank_append f l p hl]

theorem trimRight_idem (f : Char → Bool) : ∀ l : List Char,
    trimRight f (trimRight f l) = trimRight f l := by
  intro l
  induction l with
  | nil => rw [trimRight_nil, trimRight_nil]
  | cons c cs ih =>
    rw [trimRight_cons]
    split
    · split
      · exact trimRight_nil f
      · rename_i hc
        rw [trimRight_cons, trimRight_nil]
        simp [hc]
    · rename_i r rs hr
      rw [hr] at ih
      rw [trimRight_cons, ih]

theorem trimLeft_of_head (f : Char → Bool) (l : List Char)
    (h : ∀ c, l.head? = some c → f c = false) : trimLeft f l = l := by
  cases l with
  | nil => exact trimLeft_nil f
  | cons c cs =>
    have := h c rfl
    rw [trimLeft, this]; rfl

theorem trimLeft_head_not (f : Char → Bool) : ∀ (l : List Char) (c : Char),
    (trimLeft f l).head? = some c → f c = false := by
  intro l
  induction l with
  | nil => intro c h; rw [trimLeft_nil] at h; cases h
  | cons x xs ih =>
    intro c h
    rw [trimLeft] at h
    split at h
    · exact ih c h
    · rename_i hx
      simp at h; subst h; simpa using hx

theorem trimRight_head (f : Char → Bool) (l : List Char) (c : Char)
    (h : (trimRight f l).head? = some c) : l.head? = some c := by
  cases l with
  | nil => rw [trimRight_nil] at h; cases h
  | cons x xs =>
    rw [trimRight_cons] at h
    split at h
    · split at h
      · cases h
      · simpa using h
    · simpa using h

theorem trim_head_not (f : Char → Bool) (l : List Char) (c : Char)
    (h : (trim f l).head? = some c) : f c = false :=
  trimLeft_head_not f l c (trimRight_head f _ c h)

theorem trim_idem (f : Char → Bool) (l : List Char) : trim f (trim f l) = trim f l := by
  show trimRight f (trimLeft f (trim f l)) = trim f l
  rw [trimLeft_of_head f (trim f l) (trim_head_not f l)]
  exact trimRight_idem f _

/-- a trimmed string is not changed by trimRight -/
theorem trimRight_of_trim (f : Char → Bool) (p : List Char) (h : trim f p = p) :
    trimRight f p = p := by
  rw [← h]; exact trimRight_idem f _

theorem canonicalOnce_trim (cfg : Cfg) (p : List Char) :
    canonicalOnce cfg (trim cfg.isSpace p) = canonicalOnce cfg p :=
  canonicalOnce_congr cfg (by rw [trim_idem])

/-- 2a. trimming the input first does not change the canonical path -/
theorem canonicalPath_trim {cfg : Cfg} (h : HMin cfg) (p : List Char) :
    canonicalPath cfg (trim cfg.isSpace p) = canonicalPath cfg p :=
  canonicalPath_congr h (canonicalOnce_trim cfg p)

/-- 2b. surrounding blanks do not change the canonical path -/
theorem canonicalPath_surround {cfg : Cfg} (h : HMin cfg) (l p r : List Char)
    (hl : ∀ c ∈ l, cfg.isSpace c = true) (hr : ∀ c ∈ r, cfg.isSpace c = true) :
    canonicalPath cfg (l ++ p ++ r) = canonicalPath cfg p :=
  canonicalPath_congr h (canonicalOnce_congr cfg (by rw [trim_surround _ l p r hl hr]))

/-- 2c. ASCII instance: one blank on each side -/
theorem ascii_canonicalPath_blanks (p : List Char) :
    canonicalPath asciiCfg (' ' :: p ++ [' ']) = canonicalPath asciiCfg p := by
  have := canonicalPath_surround asciiCfg_HMin [' '] p [' ']
    (by intro c hc; simp at hc; subst hc; decide) (by intro c hc; simp at hc; subst hc; decide)
  simpa using this

/-- ASCII instance: any blanks around -/
theorem ascii_canonicalPath_surround (l p r : List Char)
    (hl : ∀ c ∈ l, asciiSpace c = true) (hr : ∀ c ∈ r, asciiSpace c = true) :
    canonicalPath asciiCfg (l ++ p ++ r) = canonicalPath asciiCfg p :=
  canonicalPath_surround asciiCfg_HMin l p r hl hr

/-! ## 3. case -/

/-- two characters that the pass cannot tell apart -/
def SameChar (cfg : Cfg) (a b : Char) : Prop :=
  cfg.lower a = cfg.lower b ∧ cfg.isSpace a = cfg.isSpace b

/-- two spellings that differ position by position only in the case of the characters -/
inductive CaseEq (cfg : Cfg) : List Char → List Char → Prop
  | nil : CaseEq cfg [] []
  | cons {a b : Char} {as bs : List Char} :
      SameChar cfg a b → CaseEq cfg as bs → CaseEq cfg (a :: as) (b :: bs)

theorem trimLeft_caseEq (cfg : Cfg) {p q : List Char} (h : CaseEq cfg p q) :
    CaseEq cfg (trimLeft cfg.isSpace p) (trimLeft cfg.isSpace q) := by
  induction h with
  | nil => rw [trimLeft_nil]; exact .nil
  | @cons a b as bs hab htl ih =>
    rw [trimLeft, trimLeft, ← hab.2]
    by_cases ha : cfg.isSpace a = true
    · rw [if_pos ha, if_pos ha]; exact ih
    · rw [if_neg ha, if_neg ha]; exact .cons hab htl

theorem trimRight_caseEq (cfg : Cfg) {p q : List Char} (h : CaseEq cfg p q) :
    CaseEq cfg (trimRight cfg.isSpace p) (trimRight cfg.isSpace q) := by
  induction h with
  | nil => rw [trimRight_nil]; exact .nil
  | @cons a b as bs hab htl ih =>
    rw [trimRight_cons, trimRight_cons, ← hab.2]
    generalize trimRight cfg.isSpace as = x at ih ⊢
    generalize trimRight cfg.isSpace bs = y at ih ⊢
    cases ih with
    | nil =>
      by_cases ha : cfg.isSpace a = true
      · simp only [if_pos ha]; exact .nil
      · simp only [if_neg ha]; exact .cons hab .nil
    | cons h1 h2 => exact .cons hab (.cons h1 h2)

theorem map_lower_caseEq (cfg : Cfg) {p q : List Char} (h : CaseEq cfg p q) :
    p.map cfg.lower = q.map cfg.lower := by
  induction h with
  | nil => rfl
  | cons hab _ ih => rw [List.map_cons, List.map_cons, hab.1, ih]

theorem canonicalOnce_caseEq (cfg : Cfg) {p q : List Char} (h : CaseEq cfg p q) :
    canonicalOnce cfg p = canonicalOnce cfg q :=
  canonicalOnce_congr cfg (map_lower_caseEq cfg (trimRight_caseEq cfg (trimLeft_caseEq cfg h)))

/-- 3a. spellings that differ only in the case of the characters have the same canonical path -/
theorem canonicalPath_caseEq {cfg : Cfg} (h : HMin cfg) {p q : List Char} (e : CaseEq cfg p q) :
    canonicalPath cfg p = canonicalPath cfg q :=
  canonicalPath_congr h (canonicalOnce_caseEq cfg e)

theorem caseEq_of_map_lower (cfg : Cfg) (hsl : ∀ c, cfg.isSpace (cfg.lower c) = cfg.isSpace c) :
    ∀ (p q : List Char), p.map cfg.lower = q.map cfg.lower → CaseEq cfg p q := by
  intro p
  induction p with
  | nil =>
    intro q e
    cases q with
    | nil => exact .nil
    | cons b bs => simp at e
  | cons a as ih =>
    intro q e
    cases q with
    | nil => simp at e
    | cons b bs =>
      simp only [List.map_cons, List.cons.injEq] at e
      refine .cons ⟨e.1, ?_⟩ (ih bs e.2)
      rw [← hsl a, ← hsl b, e.1]

/-- 3b. the canonical path only depends on the lower-cased input: any two mixed-case spellings
    of the same string have the same canonical path -/
theorem canonicalPath_of_map_lower_eq {cfg : Cfg} (h : HMin cfg)
    (hsl : ∀ c, cfg.isSpace (cfg.lower c) = cfg.isSpace c) {p q : List Char}
    (e : p.map cfg.lower = q.map cfg.lower) : canonicalPath cfg p = canonicalPath cfg q :=
  canonicalPath_caseEq h (caseEq_of_map_lower cfg hsl p q e)

/-- 3c. re-casing every character by a function the pass cannot see -/
theorem canonicalPath_map_of {cfg : Cfg} (h : HMin cfg)
    (hsl : ∀ c, cfg.isSpace (cfg.lower c) = cfg.isSpace c) (up : Char → Char)
    (hup : ∀ c, cfg.lower (up c) = cfg.lower c) (p : List Char) :
    canonicalPath cfg (p.map up) = canonicalPath cfg p := by
  apply canonicalPath_of_map_lower_eq h hsl
  rw [List.map_map]
  apply List.map_congr_left
  intro c _
  exact hup c

/-- 3d. lower-casing the input does not change the canonical path -/
theorem canonicalPath_map_lower {cfg : Cfg} (h : H cfg) (p : List Char) :
    canonicalPath cfg (p.map cfg.lower) = canonicalPath cfg p :=
  canonicalPath_map_of h.toMin h.hsl cfg.lower h.hl p

/-- ASCII upper-casing -/
def asciiUpper (c : Char) : Char :=
  if 'a' ≤ c ∧ c ≤ 'z' then Char.ofNat (c.toNat - 32) else c

theorem asciiUpper_toNat (c : Char) :
    (asciiUpper c).toNat = if 97 ≤ c.toNat ∧ c.toNat ≤ 122 then c.toNat - 32 else c.toNat := by
  unfold asciiUpper
  have hA : ('a' : Char).toNat = 97 := rfl
  have hZ : ('z' : Char).toNat = 122 := rfl
  by_cases h : 'a' ≤ c ∧ c ≤ 'z'
  · rw [if_pos h]
    rw [char_le_iff, char_le_iff, hA, hZ] at h
    rw [if_pos h]
    exact toNat_ofNat_small _ (by omega)
  · rw [if_neg h]
    rw [char_le_iff, char_le_iff, hA, hZ] at h
    rw [if_neg h]

theorem asciiLower_asciiUpper (c : Char) : asciiLower (asciiUpper c) = asciiLower c := by
  rw [char_eq_iff, asciiLower_toNat (asciiUpper c), asciiLower_toNat c, asciiUpper_toNat c]
  repeat' split
  all_goals omega

theorem asciiSpace_asciiUpper (c : Char) : asciiSpace (asciiUpper c) = asciiSpace c := by
  rw [Bool.eq_iff_iff, asciiSpace_iff, asciiSpace_iff, asciiUpper_toNat c]
  split <;> omega

/-- 3e. ASCII: upper-casing the input does not change the canonical path -/
theorem ascii_canonicalPath_map_upper (p : List Char) :
    canonicalPath asciiCfg (p.map asciiUpper) = canonicalPath asciiCfg p :=
  canonicalPath_map_of asciiCfg_HMin asciiCfg_H.hsl asciiUpper asciiLower_asciiUpper p

/-- ASCII: lower-casing the input does not change the canonical path -/
theorem ascii_canonicalPath_map_lower (p : List Char) :
    canonicalPath asciiCfg (p.map asciiLower) = canonicalPath asciiCfg p :=
  canonicalPath_map_lower asciiCfg_H p

/-- ASCII: any two mixed-case spellings have the same canonical path -/
theorem ascii_canonicalPath_case {p q : List Char} (e : p.map asciiLower = q.map asciiLower) :
    canonicalPath asciiCfg p = canonicalPath asciiCfg q :=
  canonicalPath_of_map_lower_eq asciiCfg_HMin asciiCfg_H.hsl e

/-! ## 4. the leading '/' is optional -/

/-- path.Clean ignores a doubled leading '/' -/
theorem cleanRooted_cons_slash (q : List Char) : cleanRooted ('/' :: q) = cleanRooted q := by
  unfold cleanRooted
  rw [splitSlash_cons_slash]
  simp [cleanStack]

theorem finish_cons_slash (q : List Char) (hq : q ≠ []) : finish ('/' :: q) = finish q := by
  unfold finish
  rw [cleanRooted_cons_slash]
  cases q with
  | nil => exact absurd rfl hq
  | cons c cs => rw [List.getLast?_cons_cons]

/-- one pass, without the case distinction on the first character -/
theorem canonicalOnce_eq_finish (cfg : Cfg) (p : List Char) (hp : trim cfg.isSpace p ≠ []) :
    canonicalOnce cfg p = finish ('/' :: (trim cfg.isSpace p).map cfg.lower) := by
  rw [canonicalOnce_eq]
  cases ht : trim cfg.isSpace p with
  | nil => exact absurd ht hp
  | cons x xs =>
    simp only [List.map_cons]
    by_cases hc : cfg.lower x = '/'
    · rw [if_neg (by simpa using hc), finish_cons_slash _ (by simp)]
    · rw [if_pos hc]

theorem trimRight_cons_not (f : Char → Bool) (c : Char) (cs : List Char) (hc : f c = false) :
    trimRight f (c :: cs) = c :: trimRight f cs := by
  rw [trimRight_cons]
  split
  · rename_i h; rw [h]; simp [hc]
  · rename_i r rs h; rw [h]

theorem trim_cons_slash {cfg : Cfg} (h : HMin cfg) (p : List Char) :
    trim cfg.isSpace ('/' :: p) = '/' :: trimRight cfg.isSpace p := by
  unfold trim
  rw [trimLeft, h.hs]
  exact trimRight_cons_not _ _ _ h.hs

theorem canonicalOnce_nil (cfg : Cfg) : canonicalOnce cfg [] = ['/'] := by
  rw [canonicalOnce_eq]; rfl

theorem canonicalOnce_slash {cfg : Cfg} (h : HMin cfg) : canonicalOnce cfg ['/'] = ['/'] := by
  rw [canonicalOnce_eq, trim_cons_slash h, trimRight_nil]
  simp only [List.map_cons, List.map_nil, h.hslash']
  rfl

/-- one pass on a trimmed string with a '/' put in front -/
theorem canonicalOnce_cons_slash_trim {cfg : Cfg} (h : HMin cfg) (p : List Char) :
    canonicalOnce cfg ('/' :: trim cfg.isSpace p) = canonicalOnce cfg p := by
  rw [← canonicalOnce_trim cfg p]
  generalize ht : trim cfg.isSpace p = t
  have htt : trim cfg.isSpace t = t := by rw [← ht, trim_idem]
  cases t with
  | nil => rw [canonicalOnce_slash h, canonicalOnce_nil]
  | cons x xs =>
    rw [canonicalOnce_eq_finish cfg (x :: xs) (by rw [htt]; simp),
      canonicalOnce_eq_finish cfg ('/' :: x :: xs) (by rw [trim_cons_slash h]; simp),
      trim_cons_slash h, trimRight_of_trim _ _ htt, htt, List.map_cons, h.hslash',
      finish_cons_slash _ (by simp)]

/-- 4a. the leading '/' is optional (on the trimmed input; holds for every `p`, also when the
    trimmed input is empty or already begins with '/') -/
theorem canonicalPath_cons_slash_trim {cfg : Cfg} (h : HMin cfg) (p : List Char) :
    canonicalPath cfg ('/' :: trim cfg.isSpace p) = canonicalPath cfg p :=
  canonicalPath_congr h (canonicalOnce_cons_slash_trim h p)

/-- 4b. the leading '/' is optional when the input does not begin with a blank -/
theorem canonicalPath_cons_slash {cfg : Cfg} (h : HMin cfg) (p : List Char)
    (hp : ∀ c, p.head? = some c → cfg.isSpace c = false) :
    canonicalPath cfg ('/' :: p) = canonicalPath cfg p := by
  rw [← canonicalPath_trim h ('/' :: p), trim_cons_slash h, ← canonicalPath_cons_slash_trim h p]
  unfold trim
  rw [trimLeft_of_head _ p hp]

/-- 4c. the form of the task statement: a trimmed, non-empty input not beginning with '/' -/
theorem canonicalPath_cons_slash_of_trimmed {cfg : Cfg} (h : HMin cfg) (p : List Char)
    (ht : trim cfg.isSpace p = p) :
    canonicalPath cfg ('/' :: p) = canonicalPath cfg p := by
  have := canonicalPath_cons_slash_trim h p
  rwa [ht] at this

/-! ## 5. doubled slashes -/

/-- every '/' written twice -/
def doubleSlashes : List Char → List Char
  | [] => []
  | c :: cs => if c = '/' then '/' :: '/' :: doubleSlashes cs else c :: doubleSlashes cs

theorem doubleSlashes_nil : doubleSlashes [] = [] := rfl

theorem doubleSlashes_slash (cs : List Char) :
    doubleSlashes ('/' :: cs) = '/' :: '/' :: doubleSlashes cs := by
  rw [doubleSlashes, if_pos rfl]

theorem doubleSlashes_ne (c : Char) (cs : List Char) (hc : c ≠ '/') :
    doubleSlashes (c :: cs) = c :: doubleSlashes cs := by
  rw [doubleSlashes, if_neg hc]

theorem doubleSlashes_cons (c : Char) (cs : List Char) :
    ∃ t, doubleSlashes (c :: cs) = c :: t := by
  by_cases hc : c = '/'
  · subst hc; exact ⟨_, doubleSlashes_slash cs⟩
  · exact ⟨_, doubleSlashes_ne c cs hc⟩

theorem doubleSlashes_ne_nil (q : List Char) (hq : q ≠ []) : doubleSlashes q ≠ [] := by
  cases q with
  | nil => exact absurd rfl hq
  | cons c cs =>
    rcases doubleSlashes_cons c cs with ⟨t, ht⟩
    rw [ht]; simp

theorem trimLeft_cons_not (f : Char → Bool) (c : Char) (cs : List Char) (hc : f c = false) :
    trimLeft f (c :: cs) = c :: cs := by
  rw [trimLeft, hc]; rfl

theorem trimLeft_doubleSlashes (f : Char → Bool) (hf : f '/' = false) : ∀ p : List Char,
    trimLeft f (doubleSlashes p) = doubleSlashes (trimLeft f p) := by
  intro p
  induction p with
  | nil => rfl
  | cons c cs ih =>
    by_cases hc : c = '/'
    · subst hc
      rw [doubleSlashes_slash, trimLeft_cons_not f _ _ hf, trimLeft_cons_not f _ _ hf,
        doubleSlashes_slash]
    · rw [doubleSlashes_ne c cs hc, trimLeft, trimLeft]
      by_cases hb : f c = true
      · rw [if_pos hb, if_pos hb, ih]
      · rw [if_neg hb, if_neg hb, doubleSlashes_ne c cs hc]

theorem trimRight_doubleSlashes (f : Char → Bool) (hf : f '/' = false) : ∀ p : List Char,
    trimRight f (doubleSlashes p) = doubleSlashes (trimRight f p) := by
  intro p
  induction p with
  | nil => rfl
  | cons c cs ih =>
    by_cases hc : c = '/'
    · subst hc
      rw [doubleSlashes_slash, trimRight_cons_not f _ _ hf, trimRight_cons_not f _ _ hf, ih,
        trimRight_cons_not f _ _ hf, doubleSlashes_slash]
    · rw [doubleSlashes_ne c cs hc, trimRight_cons, trimRight_cons, ih]
      cases hr : trimRight f cs with
      | nil =>
        simp only [doubleSlashes_nil]
        by_cases hb : f c = true
        · simp only [if_pos hb]; rfl
        · simp only [if_neg hb]; rw [doubleSlashes_ne c [] hc]; rfl
      | cons r rs =>
        rcases doubleSlashes_cons r rs with ⟨t, ht⟩
        rw [ht]
        simp only []
        rw [doubleSlashes_ne c _ hc, ht]

theorem trim_doubleSlashes (f : Char → Bool) (hf : f '/' = false) (p : List Char) :
    trim f (doubleSlashes p) = doubleSlashes (trim f p) := by
  unfold trim
  rw [trimLeft_doubleSlashes f hf, trimRight_doubleSlashes f hf]

theorem map_doubleSlashes (g : Char → Char) (hg : ∀ c, g c = '/' ↔ c = '/') : ∀ p : List Char,
    (doubleSlashes p).map g = doubleSlashes (p.map g) := by
  intro p
  induction p with
  | nil => rfl
  | cons c cs ih =>
    by_cases hc : c = '/'
    · subst hc
      have : g '/' = '/' := (hg '/').2 rfl
      rw [doubleSlashes_slash, List.map_cons, List.map_cons, List.map_cons, this, ih,
        doubleSlashes_slash]
    · have : g c ≠ '/' := fun e => hc ((hg c).1 e)
      rw [doubleSlashes_ne c cs hc, List.map_cons, List.map_cons, ih, doubleSlashes_ne _ _ this]

theorem getLast?_cons_of_ne_nil (x : Char) (l : List Char) (hl : l ≠ []) :
    (x :: l).getLast? = l.getLast? := by
  cases l with
  | nil => exact absurd rfl hl
  | cons y ys => rw [List.getLast?_cons_cons]

theorem getLast?_doubleSlashes : ∀ q : List Char, (doubleSlashes q).getLast? = q.getLast? := by
  intro q
  induction q with
  | nil => rfl
  | cons c cs ih =>
    cases cs with
    | nil =>
      by_cases hc : c = '/'
      · subst hc; rfl
      · rw [doubleSlashes_ne c [] hc]; rfl
    | cons d r =>
      have hne := doubleSlashes_ne_nil (d :: r) (by simp)
      rw [List.getLast?_cons_cons, ← ih]
      by_cases hc : c = '/'
      · subst hc
        rw [doubleSlashes_slash, getLast?_cons_of_ne_nil _ _ (by simp),
          getLast?_cons_of_ne_nil _ _ hne]
      · rw [doubleSlashes_ne c _ hc, getLast?_cons_of_ne_nil _ _ hne]

/-- path.Clean ignores empty elements -/
theorem cleanStack_filter : ∀ (ss st : List (List Char)),
    cleanStack ss st = cleanStack (ss.filter (fun s => decide (s ≠ []))) st := by
  intro ss
  induction ss with
  | nil => intro st; rfl
  | cons s ss ih =>
    intro st
    by_cases hs : s = []
    · subst hs
      rw [List.filter_cons_of_neg (by simp), ← ih]
      simp [cleanStack]
    · rw [List.filter_cons_of_pos (by simpa using hs)]
      simp only [cleanStack]
      split
      · exact ih _
      · split
        · exact ih _
        · exact ih _

/-- doubling the slashes keeps the first element and only adds empty elements -/
theorem splitSlash_doubleSlashes : ∀ q : List Char, ∃ s ss ss',
    splitSlash (doubleSlashes q) = s :: ss' ∧ splitSlash q = s :: ss ∧
      ss'.filter (fun s => decide (s ≠ [])) = ss.filter (fun s => decide (s ≠ [])) := by
  intro q
  induction q with
  | nil => exact ⟨[], [], [], rfl, rfl, rfl⟩
  | cons c cs ih =>
    rcases ih with ⟨s, ss, ss', h1, h2, h3⟩
    by_cases hc : c = '/'
    · subst hc
      refine ⟨[], s :: ss, [] :: s :: ss', ?_, ?_, ?_⟩
      · rw [doubleSlashes_slash, splitSlash_cons_slash, splitSlash_cons_slash, h1]
      · rw [splitSlash_cons_slash, h2]
      · rw [List.filter_cons_of_neg (by simp), List.filter_cons, List.filter_cons, h3]
    · refine ⟨c :: s, ss, ss', ?_, ?_, h3⟩
      · rw [doubleSlashes_ne c cs hc]
        exact splitSlash_cons_ne c _ s ss' hc h1
      · exact splitSlash_cons_ne c _ s ss hc h2

theorem cleanRooted_doubleSlashes (q : List Char) :
    cleanRooted (doubleSlashes q) = cleanRooted q := by
  rcases splitSlash_doubleSlashes q with ⟨s, ss, ss', h1, h2, h3⟩
  unfold cleanRooted
  rw [h1, h2, cleanStack_filter (s :: ss'), cleanStack_filter (s :: ss), List.filter_cons,
    List.filter_cons, h3]

theorem finish_doubleSlashes (q : List Char) : finish (doubleSlashes q) = finish q := by
  unfold finish
  rw [getLast?_doubleSlashes, cleanRooted_doubleSlashes]

/-- one pass does not see doubled slashes -/
theorem canonicalOnce_doubleSlashes (cfg : Cfg) (hs : cfg.isSpace '/' = false)
    (hslash : ∀ c, cfg.lower c = '/' ↔ c = '/') (p : List Char) :
    canonicalOnce cfg (doubleSlashes p) = canonicalOnce cfg p := by
  by_cases ht : trim cfg.isSpace p = []
  · exact canonicalOnce_congr cfg (by rw [trim_doubleSlashes _ hs, ht]; rfl)
  · have ht' : trim cfg.isSpace (doubleSlashes p) ≠ [] := by
      rw [trim_doubleSlashes _ hs]; exact doubleSlashes_ne_nil _ ht
    have hm : (trim cfg.isSpace p).map cfg.lower ≠ [] := by simpa using ht
    rw [canonicalOnce_eq_finish cfg p ht, canonicalOnce_eq_finish cfg _ ht',
      trim_doubleSlashes _ hs, map_doubleSlashes _ hslash,
      finish_cons_slash _ hm, finish_cons_slash _ (doubleSlashes_ne_nil _ hm),
      finish_doubleSlashes]

/-- 5. doubled slashes do not change the canonical path -/
theorem canonicalPath_doubleSlashes {cfg : Cfg} (h : H cfg) (p : List Char) :
    canonicalPath cfg (doubleSlashes p) = canonicalPath cfg p :=
  canonicalPath_congr h.toMin (canonicalOnce_doubleSlashes cfg h.hs h.hslash p)

theorem ascii_canonicalPath_doubleSlashes (p : List Char) :
    canonicalPath asciiCfg (doubleSlashes p) = canonicalPath asciiCfg p :=
  canonicalPath_doubleSlashes asciiCfg_H p

end IpcHub.CanonPath
