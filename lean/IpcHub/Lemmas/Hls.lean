/-
Lemmas for C10: invariants of the segment generator / playlist state machine of `Model/Hls.lean`
over arbitrary frame sequences.
-/
import IpcHub.Model.Hls
namespace IpcHub.HlsLemmas
open IpcHub.Ts IpcHub.Hls

/-- numbering invariant: the segments ever completed (deleted ones, then the listed ones) are
    numbered 1, 2, 3, … without gap, and the open segment carries the next number -/
def Numbered (g : Gen) : Prop :=
  (g.deleted ++ g.playlist).map (·.seq) = List.range' 1 (g.deleted ++ g.playlist).length
  ∧ ∃ s, g.current = some s ∧ s.seq = g.seqNo ∧ g.seqNo = (g.deleted ++ g.playlist).length + 1

/-- the playlist keeps the most recent `remain` completed segments, all of them once there are
    that many; no listed or deleted segment is shorter than the minimum duration -/
def Inv (c : Hls.Cfg) (g : Gen) : Prop :=
  Numbered g ∧ g.playlist.length ≤ c.remain ∧ (g.deleted ≠ [] → g.playlist.length = c.remain)
  ∧ (∀ s ∈ g.deleted ++ g.playlist, ¬ s.dur * 1000 < (c.minDurMs : Int) * 90000)

theorem inv_init (c : Hls.Cfg) (b : Bool) : Inv c (initWith b) := by
  refine ⟨⟨by simp [initWith, segmentOpen], ⟨_, rfl, by simp [initWith, segmentOpen], by simp [initWith, segmentOpen]⟩⟩,
    by simp [initWith, segmentOpen], by simp [initWith, segmentOpen], by simp [initWith, segmentOpen]⟩

theorem flushFrame_inv (c : Hls.Cfg) (g g' : Gen) (f : Frame) (h : flushFrame g f = some g') (hi : Inv c g) :
    Inv c g' := by
  obtain ⟨⟨hn, s, hs, hseq, hno⟩, h2, h3, h4⟩ := hi
  simp only [flushFrame, hs] at h
  injection h with h; subst h
  refine ⟨⟨hn, ⟨_, rfl, ?_, hno⟩⟩, h2, h3, h4⟩
  simp only [updateDuration]; split <;> split <;> simp [hseq]

theorem flushAudioCache_inv (c : Hls.Cfg) (g g' : Gen) (h : flushAudioCache g = some g') (hi : Inv c g) :
    Inv c g' := by
  unfold flushAudioCache at h
  cases ha : g.afCache with
  | none => simp [ha] at h; subst h; exact hi
  | some a =>
    simp only [ha] at h
    cases hf : flushFrame g { a.head with payload := a.buff } with
    | none => simp [hf] at h
    | some g1 =>
      simp [hf] at h; subst h
      have := flushFrame_inv c g g1 _ hf hi
      exact this

theorem range'_snoc (n : Nat) : List.range' 1 n ++ [n + 1] = List.range' 1 (n + 1) := by
  rw [List.range'_concat]; simp [Nat.add_comm]

theorem addSegment_cat (c : Hls.Cfg) (g : Gen) (s : Seg) :
    (addSegment c g s).deleted ++ (addSegment c g s).playlist = g.deleted ++ g.playlist ++ [s] := by
  simp only [addSegment]
  split
  · simp only [List.append_assoc, List.take_append_drop]
  · simp only [List.append_assoc]

theorem addSegment_len (c : Hls.Cfg) (g : Gen) (s : Seg) (h2 : g.playlist.length ≤ c.remain)
    (h3 : g.deleted ≠ [] → g.playlist.length = c.remain) :
    (addSegment c g s).playlist.length ≤ c.remain
    ∧ ((addSegment c g s).deleted ≠ [] → (addSegment c g s).playlist.length = c.remain) := by
  simp only [addSegment]
  by_cases hex : (g.playlist ++ [s]).length > c.remain
  · simp only [hex, if_true]
    simp only [List.length_drop, List.length_append, List.length_cons, List.length_nil] at hex ⊢
    omega
  · simp only [hex, if_false]
    simp only [List.length_append, List.length_cons, List.length_nil] at hex ⊢
    refine ⟨by omega, fun hd => ?_⟩
    have := h3 hd
    omega

theorem addSegment_fields (c : Hls.Cfg) (g : Gen) (s : Seg) :
    (addSegment c g s).seqNo = g.seqNo ∧ (addSegment c g s).current = g.current := by
  simp only [addSegment]; split <;> simp

theorem numbered_snoc (A : List Seg) (s : Seg) (hn : A.map (·.seq) = List.range' 1 A.length)
    (hs : s.seq = A.length + 1) :
    (A ++ [s]).map (·.seq) = List.range' 1 (A ++ [s]).length := by
  simp only [List.map_append, hn, List.map_cons, List.map_nil, hs, List.length_append, List.length_cons,
    List.length_nil]
  exact range'_snoc _

theorem closeOpen_inv (c : Hls.Cfg) (g : Gen) (start : Int) (b : Bool) (hi : Inv c g) :
    Inv c (segmentOpen (segmentClose c g) start b) := by
  obtain ⟨⟨hn, s, hs, hseq, hno⟩, h2, h3, h4⟩ := hi
  simp only [segmentClose, hs]
  by_cases hshort : s.dur * 1000 < (c.minDurMs : Int) * 90000
  · -- dropped: the number is reused
    rw [if_pos hshort]
    simp only [segmentOpen]
    refine ⟨⟨hn, ⟨_, rfl, rfl, ?_⟩⟩, h2, h3, h4⟩
    simp only []; omega
  · rw [if_neg hshort]
    generalize hg0 : ({ g with current := none } : Gen) = g0
    have e1 : g0.deleted = g.deleted := by subst hg0; rfl
    have e2 : g0.playlist = g.playlist := by subst hg0; rfl
    have e3 : g0.seqNo = g.seqNo := by subst hg0; rfl
    have e4 : g0.current = none := by subst hg0; rfl
    have hcat := addSegment_cat c g0 s
    obtain ⟨hl1, hl2⟩ := addSegment_len c g0 s (by rw [e2]; exact h2) (by rw [e1, e2]; exact h3)
    obtain ⟨f1, f2⟩ := addSegment_fields c g0 s
    rw [e1, e2] at hcat
    generalize addSegment c g0 s = g1 at *
    have hcur : g1.current = none := by rw [f2, e4]
    simp only [segmentOpen, hcur]
    refine ⟨⟨?_, ⟨_, rfl, rfl, ?_⟩⟩, hl1, hl2, ?_⟩
    · simp only [hcat]
      exact numbered_snoc _ s hn (by omega)
    · simp only [hcat, f1, e3, hno, List.length_append, List.length_cons, List.length_nil]
    · intro x hx
      simp only [hcat] at hx
      rcases List.mem_append.mp hx with hx | hx
      · exact h4 x hx
      · simp at hx; subst hx; exact hshort

theorem reapSegment_inv (c : Hls.Cfg) (g g' : Gen) (start : Int) (b : Bool)
    (h : reapSegment c g start b = some g') (hi : Inv c g) : Inv c g' :=
  flushAudioCache_inv c _ g' h (closeOpen_inv c g start b hi)

/-- the fields the invariant reads are not touched by the audio cache / jitter bookkeeping -/
theorem inv_congr (c : Hls.Cfg) (g g' : Gen) (h1 : g'.seqNo = g.seqNo) (h2 : g'.current = g.current)
    (h3 : g'.playlist = g.playlist) (h4 : g'.deleted = g.deleted) (hi : Inv c g) : Inv c g' := by
  unfold Inv Numbered at *
  rw [h1, h2, h3, h4]; exact hi

theorem writeFrame_inv (c : Hls.Cfg) (frag rate : Nat) (g g' : Gen) (f : Frame)
    (h : Hls.writeFrame c frag rate g f = some g') (hi : Inv c g) : Inv c g' := by
  unfold Hls.writeFrame at h
  split at h
  · injection h with h; subst h; exact hi
  · split at h
    · injection h with h; subst h; exact hi
    · split at h
      · -- audio
        cases hc : g.afCache with
        | none =>
          simp only [hc] at h
          cases ho : onBufferStart c g f.pts rate with
          | none => simp [ho] at h
          | some r =>
            obtain ⟨pts, g1⟩ := r
            have hi1 : Inv c g1 := by
              simp only [onBufferStart] at ho
              split at ho
              · simp at ho; obtain ⟨_, rfl⟩ := ho; exact hi
              · split at ho
                · exact absurd ho (by simp)
                · split at ho
                  · simp at ho; obtain ⟨_, rfl⟩ := ho; exact inv_congr c g _ rfl rfl rfl rfl hi
                  · simp at ho; obtain ⟨_, rfl⟩ := ho; exact inv_congr c g _ rfl rfl rfl rfl hi
            simp only [ho, Option.map_some, Option.bind_some] at h
            split at h
            · exact flushAudioCache_inv c _ g' h (inv_congr c g1 _ rfl rfl rfl rfl hi1)
            · split at h
              · exact reapSegment_inv c _ g' _ _ h (inv_congr c g1 _ rfl rfl rfl rfl hi1)
              · injection h with h; subst h; exact inv_congr c g1 _ rfl rfl rfl rfl hi1
        | some a =>
          simp only [hc, Option.bind_some] at h
          split at h
          · exact flushAudioCache_inv c _ g' h (inv_congr c g _ rfl rfl rfl rfl hi)
          · split at h
            · exact reapSegment_inv c _ g' _ _ h (inv_congr c g _ rfl rfl rfl rfl hi)
            · injection h with h; subst h; exact inv_congr c g _ rfl rfl rfl rfl hi
      · -- video
        split at h
        · cases hr : reapSegment c g f.pts false with
          | none => simp [hr] at h
          | some g1 =>
            simp only [hr, Option.bind_some] at h
            exact flushFrame_inv c g1 g' f h (reapSegment_inv c g g1 _ _ hr hi)
        · simp only [Option.bind_some] at h
          exact flushFrame_inv c g g' f h hi

theorem writeFrames_inv (c : Hls.Cfg) (frag rate : Nat) : ∀ (fs : List Frame) (g g' : Gen),
    Hls.writeFrames c frag rate g fs = some g' → Inv c g → Inv c g' := by
  intro fs
  induction fs with
  | nil => intro g g' h hi; simp [Hls.writeFrames] at h; subst h; exact hi
  | cons f fs ih =>
    intro g g' h hi
    simp only [Hls.writeFrames] at h
    cases hw : Hls.writeFrame c frag rate g f with
    | none => simp [hw] at h
    | some g1 =>
      simp only [hw, Option.bind_some] at h
      exact ih g1 g' h (writeFrame_inv c frag rate g g1 f hw hi)

end IpcHub.HlsLemmas

namespace IpcHub.HlsLemmas
open IpcHub.Ts IpcHub.Hls

/-- the running maximum of `targetDuration` dominates every duration -/
theorem foldl_max_ge (l : List Seg) : ∀ (m : Int),
    m ≤ l.foldl (fun m s => if s.dur > m then s.dur else m) m
    ∧ ∀ s ∈ l, s.dur ≤ l.foldl (fun m s => if s.dur > m then s.dur else m) m := by
  induction l with
  | nil => intro m; simp
  | cons a l ih =>
    intro m
    simp only [List.foldl_cons]
    by_cases hc : a.dur > m
    · obtain ⟨h1, h2⟩ := ih a.dur
      simp only [hc, if_true]
      refine ⟨by omega, ?_⟩
      intro s hs
      rcases List.mem_cons.mp hs with rfl | hs
      · exact h1
      · exact h2 s hs
    · obtain ⟨h1, h2⟩ := ih m
      simp only [hc, if_false]
      refine ⟨h1, ?_⟩
      intro s hs
      rcases List.mem_cons.mp hs with rfl | hs
      · omega
      · exact h2 s hs

/-- `#EXT-X-TARGETDURATION` (whole seconds) is above every listed duration (in ticks) -/
theorem target_gt (l : List Seg) (s : Seg) (hs : s ∈ l) : s.dur < (targetDuration l : Int) * 90000 := by
  have h := (foldl_max_ge l 0).2 s hs
  have h0 := (foldl_max_ge l 0).1
  unfold targetDuration
  generalize l.foldl (fun m s => if s.dur > m then s.dur else m) (0 : Int) = m at *
  omega

theorem segment_of_mem (c : Hls.Cfg) (pl : List Seg) (s : Seg) (hs : s ∈ pl) :
    ∃ s' ∈ pl, s'.seq = s.seq ∧ segment c pl s.seq = some (segBytes c s') := by
  unfold segment
  cases hf : pl.find? (·.seq == s.seq) with
  | none =>
    have := List.find?_eq_none.mp hf s hs
    simp at this
  | some s' =>
    have hm := List.mem_of_find?_eq_some hf
    have hp := List.find?_some hf
    exact ⟨s', hm, by simpa using hp, rfl⟩

theorem segment_none (c : Hls.Cfg) (pl : List Seg) (q : Nat) (h : ∀ s ∈ pl, s.seq ≠ q) :
    segment c pl q = none := by
  unfold segment
  have : pl.find? (·.seq == q) = none := by
    apply List.find?_eq_none.mpr
    intro s hs; simpa using h s hs
  simp [this]

end IpcHub.HlsLemmas
