/- Helper lemmas for C14: no Go slice / index expression of the codec can go out of range -/
import IpcHub.Lemmas.RtspWireFrame
namespace IpcHub.RtspWire

local notation "Bytes" => List UInt8

theorem readLine_ne_panic (cfg : Cfg) (s : Bytes) : readLine cfg s ≠ .error .panic := by
  unfold readLine
  split
  · simp
  · simp only
    split
    · split <;> split <;> simp
    · simp

theorem readLine_error_ne_panic (cfg : Cfg) (s : Bytes) (e : Err) (h : readLine cfg s = .error e) : e ≠ .panic := by
  intro he; subst he; exact readLine_ne_panic cfg s h

theorem sliceFrom_ok' (s : Bytes) (lo : Int) (h1 : 0 ≤ lo) (h2 : lo ≤ s.length) : ∃ r, sliceFrom s lo = .ok r := by
  unfold sliceFrom; exact slice_ne_panic_of s lo s.length ⟨h1, h2, by omega⟩

theorem readHeaderAux_ne_panic (cfg : Cfg) (fuel : Nat) (s : Bytes) (h : Header) :
    readHeaderAux cfg fuel s h ≠ .error .panic := by
  induction fuel generalizing s h with
  | zero => simp [readHeaderAux]
  | succ n ih =>
    unfold readHeaderAux
    cases hl : readLine cfg s with
    | error e => have := readLine_error_ne_panic cfg s e hl; simpa using this
    | ok p =>
      obtain ⟨kv, rest⟩ := p
      simp only
      split
      · simp
      · split
        · simp
        · rename_i hi
          have hr := indexByte_range kv 0x3A
          obtain ⟨k, hk⟩ := slice_ne_panic_of kv 0 (indexByte kv 0x3A) ⟨by omega, by omega, by omega⟩
          obtain ⟨v, hv⟩ := sliceFrom_ok' kv (indexByte kv 0x3A + 1) (by omega) (by omega)
          rw [hk, hv]
          simp only
          split <;> exact ih _ _

theorem readHeader_ne_panic (cfg : Cfg) (s : Bytes) : readHeader cfg s ≠ .error .panic :=
  readHeaderAux_ne_panic cfg _ s []

theorem contentLength_ne_panic (cfg : Cfg) (h : Header) : contentLength cfg h ≠ .error .panic := by
  unfold contentLength
  split
  · simp
  · split
    · simp
    · simp
    · split
      · simp
      · split <;> simp

theorem readBody_ne_panic (cfg : Cfg) (h : Header) (s : Bytes) : readBody cfg h s ≠ .error .panic := by
  unfold readBody
  cases hc : contentLength cfg h with
  | error e => have := contentLength_ne_panic cfg h; rw [hc] at this; simpa using this
  | ok n =>
    cases n with
    | zero => simp
    | succ n =>
      simp only
      cases hf : readFull (n + 1) s with
      | ok r => simp
      | error e =>
        have := readFull_ne_panic (n + 1) s
        rw [hf] at this
        simp only
        split
        · simpa using this
        · simp

theorem readRequest_ne_panic {U : Type} (cfg : Cfg) (ops : UrlOps U) (s : Bytes) :
    ∀ r, readRequest cfg ops s = r → r ≠ .error .panic := by
  intro r hr
  subst hr
  unfold readRequest
  cases hl : readLine cfg s with
  | error e => have := readLine_error_ne_panic cfg s e hl; simpa using this
  | ok p =>
    obtain ⟨line, rest⟩ := p
    simp only
    have r1 := indexByte_range line 0x20
    obtain ⟨tail, ht⟩ := sliceFrom_ok' line (indexByte line 0x20 + 1) (by omega) (by omega)
    rw [ht]
    simp only
    split
    · simp
    · rename_i hneg
      have r2 := indexByte_range tail 0x20
      have htl : (tail.length : Int) = line.length - (indexByte line 0x20 + 1) := by
        unfold sliceFrom slice at ht
        split at ht
        · simp at ht; subst ht; simp; omega
        · simp at ht
      have hs1 : 0 ≤ indexByte line 0x20 := by omega
      have hs2 : 0 ≤ indexByte tail 0x20 := by omega
      obtain ⟨m, hm⟩ := slice_ne_panic_of line 0 (indexByte line 0x20) ⟨by omega, by omega, by omega⟩
      obtain ⟨u, hu⟩ := slice_ne_panic_of line (indexByte line 0x20 + 1) (indexByte tail 0x20 + indexByte line 0x20 + 1)
        ⟨by omega, by omega, by omega⟩
      obtain ⟨p, hp⟩ := sliceFrom_ok' line (indexByte tail 0x20 + indexByte line 0x20 + 1 + 1) (by omega) (by omega)
      rw [hm, hu, hp]
      simp only
      split
      · simp
      · split
        · simp
        · split
          · simp
          · cases hh : readHeader cfg rest with
            | error e => have := readHeader_ne_panic cfg rest; rw [hh] at this; simpa using this
            | ok q =>
              obtain ⟨hd, rest2⟩ := q
              simp only
              cases hb : readBody cfg hd rest2 with
              | error e => have := readBody_ne_panic cfg hd rest2; rw [hb] at this; simpa using this
              | ok q2 => simp

theorem readResponse_ne_panic (cfg : Cfg) (s : Bytes) : readResponse cfg s ≠ .error .panic := by
  unfold readResponse
  cases hl : readLine cfg s with
  | error e => have := readLine_error_ne_panic cfg s e hl; simpa using this
  | ok p =>
    obtain ⟨line, rest⟩ := p
    simp only
    split
    · simp
    · rename_i hneg
      have r1 := indexByte_range line 0x20
      obtain ⟨pr, hpr⟩ := slice_ne_panic_of line 0 (indexByte line 0x20) ⟨by omega, by omega, by omega⟩
      obtain ⟨st, hst⟩ := sliceFrom_ok' line (indexByte line 0x20 + 1) (by omega) (by omega)
      rw [hpr, hst]
      simp only
      have r2 := indexByte_range (trimLeftBlanks st) 0x20
      have hcode : ∃ c, (if indexByte (trimLeftBlanks st) 0x20 ≠ -1 then slice (trimLeftBlanks st) 0 (indexByte (trimLeftBlanks st) 0x20)
          else .ok (trimLeftBlanks st)) = .ok c := by
        split
        · exact slice_ne_panic_of _ 0 _ ⟨by omega, by omega, by omega⟩
        · exact ⟨_, rfl⟩
      obtain ⟨c, hc⟩ := hcode
      rw [hc]
      simp only
      split
      · simp
      · split
        · split
          · simp
          · cases hh : readHeader cfg rest with
            | error e => have := readHeader_ne_panic cfg rest; rw [hh] at this; simpa using this
            | ok q =>
              obtain ⟨hd, rest2⟩ := q
              simp only
              cases hb : readBody cfg hd rest2 with
              | error e => have := readBody_ne_panic cfg hd rest2; rw [hb] at this; simpa using this
              | ok q2 => simp
        · simp

theorem readPacket_ne_panic (cfg : Cfg) (hrec : cfg.rtpRecover = true) (chans : List Int) (s : Bytes) :
    readPacket cfg chans s ≠ .error .panic := by
  unfold readPacket
  cases h4 : readFull 4 s with
  | error e => have := readFull_ne_panic 4 s; rw [h4] at this; simpa using this
  | ok p =>
    obtain ⟨pre, rest⟩ := p
    have hlen := (readFull_ok_length h4).1
    simp only
    match pre, hlen with
    | [p0, ch, l0, l1], _ =>
      simp only
      split
      · simp
      · cases hd : readFull (be16 l0 l1) rest with
        | error e => have := readFull_ne_panic (be16 l0 l1) rest; rw [hd] at this; simpa using this
        | ok q =>
          obtain ⟨data, rest2⟩ := q
          simp only
          split
          · split <;> simp
          · split
            · split
              · simp
              · split <;> simp
              · rename_i e hne _
                split
                · simp
                · intro he
                  injection he with he
                  exact hne he
            · simp

theorem receive_ne_panic {U : Type} (cfg : Cfg) (hrec : cfg.rtpRecover = true) (ops : UrlOps U) (chans : List Int) (s : Bytes) :
    receive cfg ops chans s ≠ .error .panic := by
  unfold receive
  split
  · simp
  · split
    · cases hp : readPacket cfg chans s with
      | error e => have := readPacket_ne_panic cfg hrec chans s; rw [hp] at this; simpa using this
      | ok q =>
        obtain ⟨o, rest⟩ := q
        cases o <;> simp
    · split
      · cases hp : readResponse cfg s with
        | error e => have := readResponse_ne_panic cfg s; rw [hp] at this; simpa using this
        | ok q => simp
      · cases hp : readRequest cfg ops s with
        | error e => have := readRequest_ne_panic cfg ops s _ hp; simpa using this
        | ok q => simp

/-- the whole read loop ends with an ordinary error, never a panic -/
theorem receiveAll_ne_panic {U : Type} (cfg : Cfg) (hrec : cfg.rtpRecover = true) (ops : UrlOps U) (chans : List Int)
    (fuel : Nat) (s : Bytes) : (receiveAll cfg ops chans fuel s).2 ≠ .panic := by
  induction fuel generalizing s with
  | zero => simp [receiveAll]
  | succ n ih =>
    unfold receiveAll
    cases hr : receive cfg ops chans s with
    | error e =>
      have := receive_ne_panic cfg hrec ops chans s
      rw [hr] at this
      simpa using this
    | ok q => simp only; exact ih _

/-- the error of a result (decidable view, for literal examples) -/
def resultErr {α : Type} : Except Err α → Option Err
  | .error e => some e
  | .ok _ => none

/-- the value of a result -/
def resultVal {α : Type} : Except Err α → Option α
  | .error _ => none
  | .ok a => some a

/-- with the old flag the error of reading the body is dropped: EVERY stream that ends inside
    the announced body yields a message whose body is what arrived, padded with zero bytes -/
theorem readBody_old_pads (cfg : Cfg) (hflag : cfg.bodyErrReturned = false) (h : Header) (s : Bytes) (n : Nat)
    (hcl : contentLength cfg h = .ok (n + 1)) (hshort : s.length < n + 1) :
    readBody cfg h s = .ok (s ++ List.replicate (n + 1 - s.length) 0, []) := by
  unfold readBody
  rw [hcl]
  simp only
  have : ∃ e, readFull (n + 1) s = .error e := by
    unfold readFull
    have : ¬ (n + 1 ≤ s.length) := by omega
    simp only [this, if_false]
    split <;> exact ⟨_, rfl⟩
  obtain ⟨e, he⟩ := this
  rw [he]
  simp [hflag]

end IpcHub.RtspWire
